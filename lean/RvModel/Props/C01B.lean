import RvModel.RealInst
import RvModel.Spec.C01B
import RvModel.Lemmas.C01B
import Mathlib.Probability.Distributions.Gamma
import Mathlib.Probability.Distributions.Beta
import Mathlib.Probability.Distributions.Exponential
import Mathlib.Probability.Distributions.Cauchy
import Mathlib.Probability.Distributions.Pareto
import Mathlib.Probability.Distributions.Uniform
/-!
  C01 (group B): the generated `ln_f` of every continuous univariate distribution equals the textbook
  log-density on the support, for all parameters accepted by the checked constructor, over exact reals.
  `-- @site` names the generated definition a theorem is about.  Hypotheses = what the checked constructor
  `new` enforces + `x` in the support (several identities hold more generally; the hypotheses are kept as the
  domain on which the property is claimed).
-/
set_option linter.unusedVariables false
set_option linter.unusedSimpArgs false
open Real ProbabilityTheory

namespace C01

/-! ### Gamma(shape, rate) -/

-- @site Gamma.ln_f_real
theorem Gamma_ln_f (d : Gen.Gamma R) (x : R) (hs : 0 < d.shape.val) (hr : 0 < d.rate.val) (hx : 0 < x.val) :
    (Gen.Gamma.ln_f_real d x).val = (Spec.Gamma.lnPdf d x).val := by
  simp only [Gen.Gamma.ln_f_real, Gen.Gamma.ln_rate, Gen.Gamma.ln_gamma_shape, Spec.Gamma.lnPdf, mulAdd,
    R.add_val, R.sub_val, R.mul_val, R.neg_val, R.ln_val, R.lgamma_val, R.sci_val]
  norm_num
  ring

example : ∃ (d : Gen.Gamma R) (x : R), 0 < d.shape.val ∧ 0 < d.rate.val ∧ 0 < x.val :=
  ⟨⟨⟨2⟩, ⟨3⟩⟩, ⟨1/2⟩, by norm_num, by norm_num, by norm_num⟩

/-- bridge: the textbook formula is the log of Mathlib's gamma density (shape, rate) -/
theorem Gamma_spec_is_mathlib (d : Gen.Gamma R) (x : R) (hs : 0 < d.shape.val) (hr : 0 < d.rate.val)
    (hx : 0 < x.val) :
    (Spec.Gamma.lnPdf d x).val = Real.log (gammaPDFReal d.shape.val d.rate.val x.val) := by
  have hG := Real.Gamma_pos_of_pos hs
  unfold gammaPDFReal
  rw [if_pos hx.le, Real.log_mul (by positivity) (by positivity), Real.log_exp,
    Real.log_mul (by positivity) (by positivity), Real.log_div (by positivity) (by positivity),
    Real.log_rpow hr, Real.log_rpow hx]
  simp only [Spec.Gamma.lnPdf, R.add_val, R.sub_val, R.mul_val, R.neg_val, R.ln_val, R.lgamma_val, R.sci_val]
  norm_num
  ring

/-! ### Beta(α, β) -/

-- @site Beta.ln_f_real
theorem Beta_ln_f (d : Gen.Beta R) (x : R) (ha : 0 < d.alpha.val) (hb : 0 < d.beta.val)
    (hx0 : 0 < x.val) (hx1 : x.val < 1) :
    (Gen.Beta.ln_f_real d x).val = (Spec.Beta.lnPdf d x).val := by
  have hA := Real.Gamma_pos_of_pos ha
  have hB := Real.Gamma_pos_of_pos hb
  have hAB := Real.Gamma_pos_of_pos (add_pos ha hb)
  simp only [Gen.Beta.ln_f_real, Gen.Beta.ln_beta_ab, Spec.Beta.lnPdf, mulAdd, R.add_val, R.sub_val, R.mul_val,
    R.neg_val, R.ln_val, R.lgamma_val, R.lnBeta_val, R.sci_val]
  rw [Real.log_div (by positivity) (by positivity), Real.log_mul (by positivity) (by positivity)]

example : ∃ (d : Gen.Beta R) (x : R), 0 < d.alpha.val ∧ 0 < d.beta.val ∧ 0 < x.val ∧ x.val < 1 :=
  ⟨⟨⟨2⟩, ⟨3⟩⟩, ⟨1/2⟩, by norm_num, by norm_num, by norm_num, by norm_num⟩

/-- bridge: the textbook formula is the log of Mathlib's beta density -/
theorem Beta_spec_is_mathlib (d : Gen.Beta R) (x : R) (ha : 0 < d.alpha.val) (hb : 0 < d.beta.val)
    (hx0 : 0 < x.val) (hx1 : x.val < 1) :
    (Spec.Beta.lnPdf d x).val = Real.log (betaPDFReal d.alpha.val d.beta.val x.val) := by
  have hA := Real.Gamma_pos_of_pos ha
  have hB := Real.Gamma_pos_of_pos hb
  have hAB := Real.Gamma_pos_of_pos (add_pos ha hb)
  have h1x : 0 < 1 - x.val := by linarith
  have hbeta := beta_pos ha hb
  unfold betaPDFReal
  rw [if_pos ⟨hx0, hx1⟩, Real.log_mul (by positivity) (by positivity),
    Real.log_mul (by positivity) (by positivity), Real.log_div (by positivity) (by positivity),
    Real.log_rpow hx0, Real.log_rpow h1x, Real.log_one]
  unfold beta
  rw [Real.log_div (by positivity) (by positivity), Real.log_mul (by positivity) (by positivity)]
  simp only [Spec.Beta.lnPdf, R.add_val, R.sub_val, R.mul_val, R.neg_val, R.ln_val, R.lgamma_val, R.sci_val]
  norm_num
  ring

/-! ### Exponential(rate) -/

-- @site Exponential.ln_f_real
theorem Exponential_ln_f (d : Gen.Exponential R) (x : R) (hr : 0 < d.rate.val) (hx : 0 ≤ x.val) :
    (Gen.Exponential.ln_f_real d x).val = (Spec.Exponential.lnPdf d x).val := by
  have hb : RealLike.lt x (0.0 : R) = false := by
    rw [R.lt_false_iff, R.sci_val]; norm_num; exact hx
  simp only [Gen.Exponential.ln_f_real, hb, Spec.Exponential.lnPdf, mulAdd, R.add_val, R.sub_val, R.mul_val,
    R.neg_val, R.ln_val, R.sci_val]
  norm_num
  ring

example : ∃ (d : Gen.Exponential R) (x : R), 0 < d.rate.val ∧ 0 ≤ x.val :=
  ⟨⟨⟨3⟩⟩, ⟨1/2⟩, by norm_num, by norm_num⟩

/-- bridge: the textbook formula is the log of Mathlib's exponential density -/
theorem Exponential_spec_is_mathlib (d : Gen.Exponential R) (x : R) (hr : 0 < d.rate.val) (hx : 0 ≤ x.val) :
    (Spec.Exponential.lnPdf d x).val = Real.log (exponentialPDFReal d.rate.val x.val) := by
  unfold exponentialPDFReal gammaPDFReal
  rw [if_pos hx]
  simp only [Real.Gamma_one, sub_self, Real.rpow_zero, Real.rpow_one, div_one, mul_one]
  rw [Real.log_mul (by positivity) (by positivity), Real.log_exp]
  simp only [Spec.Exponential.lnPdf, R.sub_val, R.mul_val, R.ln_val]
  ring

/-! ### Cauchy(loc, scale)

  The full statement
    `∀ d x, 0 < d.scale.val → (Gen.Cauchy.ln_f_real d x).val = (Spec.Cauchy.lnPdf d x).val`
  is not provable over exact reals: the code goes through `logaddexp`/`log1pexp`, which for `|2 ln(|x-loc|/scale)| ≥ 37`
  replaces `ln(1+e^y)` by its binary64-indistinguishable approximation `e^y` (relative difference < 1e-32), and at
  `x = loc` relies on `ln 0 = -∞` (junk on `R`).  Proved on the exact branch: `x ≠ loc` and
  `|ln|x-loc| - ln scale| < 37/2`, i.e. `e^(-18.5) < |x-loc|/scale < e^(18.5)`. -/

-- @site Cauchy.ln_f_real
theorem Cauchy_ln_f_partial (d : Gen.Cauchy R) (x : R) (hs : 0 < d.scale.val) (hne : x.val ≠ d.loc.val)
    (hr : |Real.log |x.val - d.loc.val| - Real.log d.scale.val| < 37 / 2) :
    (Gen.Cauchy.ln_f_real d x).val = (Spec.Cauchy.lnPdf d x).val := by
  have hu : 0 < |x.val - d.loc.val| := abs_pos.mpr (sub_ne_zero.mpr hne)
  have hq : 0 < |x.val - d.loc.val| / d.scale.val := div_pos hu hs
  have h2 : (2.0 : R).val = 2 := by rw [R.sci_val]; norm_num
  have h1 : (1.0 : R).val = 1 := by rw [R.sci_val]; norm_num
  have hsq : (|x.val - d.loc.val| / d.scale.val) ^ 2
      = (x.val - d.loc.val) / d.scale.val * ((x.val - d.loc.val) / d.scale.val) := by
    rw [div_pow, sq_abs]; ring
  have hterm : Real.exp (2 * (Real.log |x.val - d.loc.val| - Real.log d.scale.val) + Real.log d.scale.val)
      = (|x.val - d.loc.val| / d.scale.val) ^ 2 * d.scale.val := by
    rw [← Real.log_div hu.ne' hs.ne', Real.exp_add, Real.exp_log hs,
      show (2 : ℝ) * Real.log (|x.val - d.loc.val| / d.scale.val)
        = Real.log ((|x.val - d.loc.val| / d.scale.val) ^ 2) by rw [Real.log_pow]; norm_num,
      Real.exp_log (by positivity)]
  simp only [Gen.Cauchy.ln_f_real, Spec.Cauchy.lnPdf, R.sub_val, R.neg_val, R.lnPi_val]
  rw [logaddexp_val]
  · simp only [mulAdd, R.add_val, R.sub_val, R.mul_val, R.div_val, R.ln_val, R.abs_val, h1, h2]
    rw [hterm, Real.exp_log hs, hsq,
      show d.scale.val + (x.val - d.loc.val) / d.scale.val * ((x.val - d.loc.val) / d.scale.val) * d.scale.val
        = d.scale.val * (1 + (x.val - d.loc.val) / d.scale.val * ((x.val - d.loc.val) / d.scale.val)) by ring,
      Real.log_mul hs.ne'
        (ne_of_gt (by nlinarith [mul_self_nonneg ((x.val - d.loc.val) / d.scale.val)]))]
    ring
  · simp only [mulAdd, R.add_val, R.sub_val, R.mul_val, R.ln_val, R.abs_val, h2]
    rw [show Real.log d.scale.val - (2 * (Real.log |x.val - d.loc.val| - Real.log d.scale.val) + Real.log d.scale.val)
        = -(2 * (Real.log |x.val - d.loc.val| - Real.log d.scale.val)) by ring, abs_neg, abs_mul,
      abs_of_pos (by norm_num : (0 : ℝ) < 2)]
    linarith

example : ∃ (d : Gen.Cauchy R) (x : R), 0 < d.scale.val ∧ x.val ≠ d.loc.val ∧
    |Real.log |x.val - d.loc.val| - Real.log d.scale.val| < 37 / 2 :=
  ⟨⟨⟨1⟩, ⟨2⟩⟩, ⟨3⟩, by norm_num, by norm_num, by norm_num⟩

/-- why `Cauchy_ln_f` is only `_partial`: outside the exact branch the generated code is *not* equal to the textbook
    value over exact reals (it differs by less than 1e-34, the deliberate binary64 shortcut `ln(1+e^y) ≈ e^y` of
    `log1pexp` for `y ≤ -37`).  Witness Cauchy(0, 1), x = e^20.  This is not a defect of the Rust code. -/
-- @site Cauchy.ln_f_real
theorem Cauchy_ln_f_farfield_differs :
    ∃ (d : Gen.Cauchy R) (x : R), 0 < d.scale.val ∧
      (Gen.Cauchy.ln_f_real d x).val ≠ (Spec.Cauchy.lnPdf d x).val := by
  refine ⟨⟨⟨0⟩, ⟨1⟩⟩, ⟨Real.exp 20⟩, by norm_num, ?_⟩
  have h2 : (2.0 : R).val = 2 := by rw [R.sci_val]; norm_num
  have h1 : (1.0 : R).val = 1 := by rw [R.sci_val]; norm_num
  have e37 : ((37.0 : R)).val = 37 := by rw [R.sci_val]; norm_num
  have hpos : (0:ℝ) < Real.exp 20 := Real.exp_pos _
  -- the value of `term`
  have hterm : (mulAdd (2.0 : R) (RealLike.ln (RealLike.abs ((⟨Real.exp 20⟩ : R) - ⟨0⟩)) - RealLike.ln (⟨1⟩ : R))
      (RealLike.ln (⟨1⟩ : R))).val = 40 := by
    simp only [mulAdd, R.add_val, R.sub_val, R.mul_val, R.ln_val, R.abs_val, h2, sub_zero, Real.log_one,
      abs_of_pos hpos, Real.log_exp]
    norm_num
  have c : RealLike.gt (RealLike.ln (⟨1⟩ : R)) (mulAdd (2.0 : R)
      (RealLike.ln (RealLike.abs ((⟨Real.exp 20⟩ : R) - ⟨0⟩)) - RealLike.ln (⟨1⟩ : R)) (RealLike.ln (⟨1⟩ : R))) = false := by
    show RealLike.lt _ _ = false
    rw [R.lt_false_iff, hterm, R.ln_val, Real.log_one]; norm_num
  have c' : RealLike.gt (mulAdd (2.0 : R)
      (RealLike.ln (RealLike.abs ((⟨Real.exp 20⟩ : R) - ⟨0⟩)) - RealLike.ln (⟨1⟩ : R)) (RealLike.ln (⟨1⟩ : R)))
      (RealLike.ln (⟨1⟩ : R)) = true := by
    show RealLike.lt _ _ = true
    rw [R.lt_iff, hterm, R.ln_val, Real.log_one]; norm_num
  have c1 : RealLike.le (RealLike.ln (⟨1⟩ : R) - mulAdd (2.0 : R)
      (RealLike.ln (RealLike.abs ((⟨Real.exp 20⟩ : R) - ⟨0⟩)) - RealLike.ln (⟨1⟩ : R)) (RealLike.ln (⟨1⟩ : R)))
      (-(37.0 : R)) = true := by
    rw [R.le_iff, R.sub_val, hterm, R.neg_val, e37, R.ln_val, Real.log_one]; norm_num
  simp only [Gen.Cauchy.ln_f_real, Gen.logaddexp, Gen.log1pexp, c, c', c1, Bool.false_eq_true, if_false, if_true,
    Spec.Cauchy.lnPdf, R.sub_val, R.neg_val, R.add_val, R.exp_val, hterm, R.ln_val, R.lnPi_val, Real.log_one,
    R.div_val, R.mul_val, h1, sub_zero, div_one, zero_sub]
  rw [← Real.exp_add, show (20:ℝ) + 20 = 40 by norm_num]
  have key : Real.log (1 + Real.exp 40) < 40 + Real.exp (-40) := by
    have : 1 + Real.exp 40 = Real.exp 40 * (1 + Real.exp (-40)) := by
      rw [mul_add, mul_one, ← Real.exp_add]; norm_num; ring
    rw [this, Real.log_mul (Real.exp_pos _).ne' (by positivity), Real.log_exp]
    have := Real.add_one_lt_exp (x := Real.log (1 + Real.exp (-40))) (by
      have : (1:ℝ) < 1 + Real.exp (-40) := by linarith [Real.exp_pos (-40 : ℝ)]
      exact (Real.log_pos this).ne')
    rw [Real.exp_log (by positivity)] at this
    linarith
  intro h
  linarith
/-- bridge: the textbook formula is the log of Mathlib's Cauchy density -/
theorem Cauchy_spec_is_mathlib (d : Gen.Cauchy R) (x : R) (γ : NNReal) (hs : 0 < d.scale.val)
    (hγ : (γ : ℝ) = d.scale.val) :
    (Spec.Cauchy.lnPdf d x).val = Real.log (cauchyPDFReal d.loc.val γ x.val) := by
  have hpi := Real.pi_pos
  have hs0 : d.scale.val ≠ 0 := ne_of_gt hs
  rw [cauchyPDFReal_def', NNReal.coe_inv, hγ, Real.log_mul (by positivity) (by positivity),
    Real.log_mul (by positivity) (by positivity), Real.log_inv, Real.log_inv, Real.log_inv]
  simp only [Spec.Cauchy.lnPdf, R.add_val, R.sub_val, R.mul_val, R.div_val, R.neg_val, R.ln_val, R.lnPi_val,
    R.sci_val]
  norm_num
  ring_nf

/-! ### Laplace(μ, b) -/

-- @site Laplace.ln_f_real
theorem Laplace_ln_f (d : Gen.Laplace R) (x : R) (hb : 0 < d.b.val) :
    (Gen.Laplace.ln_f_real d x).val = (Spec.Laplace.lnPdf d x).val := by
  simp only [Gen.Laplace.ln_f_real, Spec.Laplace.lnPdf, mulAdd, R.add_val, R.sub_val, R.mul_val, R.div_val,
    R.neg_val, R.ln_val, R.abs_val, R.ln2_val, R.sci_val]
  norm_num
  rw [Real.log_mul (by norm_num) (ne_of_gt hb)]
  ring

example : ∃ (d : Gen.Laplace R), 0 < d.b.val := ⟨⟨⟨-1⟩, ⟨3⟩⟩, by norm_num⟩

/-! ### LogNormal(μ, σ) -/

-- @site LogNormal.ln_f_real
theorem LogNormal_ln_f (d : Gen.LogNormal R) (x : R) (hσ : 0 < d.sigma.val) (hx : 0 < x.val) :
    (Gen.LogNormal.ln_f_real d x).val = (Spec.LogNormal.lnPdf d x).val := by
  have h : d.sigma.val ≠ 0 := ne_of_gt hσ
  simp only [Gen.LogNormal.ln_f_real, Spec.LogNormal.lnPdf, mulAdd, R.add_val, R.sub_val, R.mul_val, R.div_val,
    R.neg_val, R.ln_val, R.halfLn2Pi_val, R.sci_val]
  norm_num
  field_simp
  ring

example : ∃ (d : Gen.LogNormal R) (x : R), 0 < d.sigma.val ∧ 0 < x.val :=
  ⟨⟨⟨-1⟩, ⟨3⟩⟩, ⟨1/2⟩, by norm_num, by norm_num⟩

/-! ### InvGamma(shape, scale) -/

-- @site InvGamma.ln_f_real
theorem InvGamma_ln_f (d : Gen.InvGamma R) (x : R) (hs : 0 < d.shape.val) (hc : 0 < d.scale.val)
    (hx : 0 < x.val) :
    (Gen.InvGamma.ln_f_real d x).val = (Spec.InvGamma.lnPdf d x).val := by
  simp only [Gen.InvGamma.ln_f_real, Spec.InvGamma.lnPdf, mulAdd, R.add_val, R.sub_val, R.mul_val, R.div_val,
    R.neg_val, R.ln_val, R.lgamma_val, R.sci_val]
  norm_num
  ring

example : ∃ (d : Gen.InvGamma R) (x : R), 0 < d.shape.val ∧ 0 < d.scale.val ∧ 0 < x.val :=
  ⟨⟨⟨2⟩, ⟨3⟩⟩, ⟨1/2⟩, by norm_num, by norm_num, by norm_num⟩

/-! ### χ²(k) -/

-- @site ChiSquared.ln_f_real
theorem ChiSquared_ln_f (d : Gen.ChiSquared R) (x : R) (hk : 0 < d.k.val) (hx : 0 < x.val) :
    (Gen.ChiSquared.ln_f_real d x).val = (Spec.ChiSquared.lnPdf d x).val := by
  simp only [Gen.ChiSquared.ln_f_real, Spec.ChiSquared.lnPdf, mulAdd, R.add_val, R.sub_val, R.mul_val, R.div_val,
    R.neg_val, R.ln_val, R.lgamma_val, R.ln2_val, R.sci_val]
  norm_num
  ring

example : ∃ (d : Gen.ChiSquared R) (x : R), 0 < d.k.val ∧ 0 < x.val :=
  ⟨⟨⟨3⟩⟩, ⟨1/2⟩, by norm_num, by norm_num⟩

/-! ### Inv-χ²(ν) -/

-- @site InvChiSquared.ln_f_real
theorem InvChiSquared_ln_f (d : Gen.InvChiSquared R) (x : R) (hv : 0 < d.v.val) (hx : 0 < x.val) :
    (Gen.InvChiSquared.ln_f_real d x).val = (Spec.InvChiSquared.lnPdf d x).val := by
  simp only [Gen.InvChiSquared.ln_f_real, Gen.InvChiSquared.ln_f_const, Spec.InvChiSquared.lnPdf, mulAdd,
    RealLike.recip, R.add_val, R.sub_val, R.mul_val, R.div_val, R.neg_val, R.ln_val, R.lgamma_val, R.ln2_val,
    R.sci_val]
  norm_num
  ring

example : ∃ (d : Gen.InvChiSquared R) (x : R), 0 < d.v.val ∧ 0 < x.val :=
  ⟨⟨⟨3⟩⟩, ⟨1/2⟩, by norm_num, by norm_num⟩

/-! ### Scaled-Inv-χ²(ν, τ²) -/

-- @site ScaledInvChiSquared.ln_f_real
theorem ScaledInvChiSquared_ln_f (d : Gen.ScaledInvChiSquared R) (x : R) (hv : 0 < d.v.val) (ht : 0 < d.t2.val)
    (hx : 0 < x.val) :
    (Gen.ScaledInvChiSquared.ln_f_real d x).val = (Spec.ScaledInvChiSquared.lnPdf d x).val := by
  simp only [Gen.ScaledInvChiSquared.ln_f_real, Gen.ScaledInvChiSquared.ln_f_const,
    Gen.ScaledInvChiSquared.ln_gamma_v_2, Spec.ScaledInvChiSquared.lnPdf, mulAdd, R.add_val, R.sub_val, R.mul_val,
    R.div_val, R.neg_val, R.ln_val, R.lgamma_val, R.sci_val]
  norm_num
  ring_nf

example : ∃ (d : Gen.ScaledInvChiSquared R) (x : R), 0 < d.v.val ∧ 0 < d.t2.val ∧ 0 < x.val :=
  ⟨⟨⟨2⟩, ⟨3⟩⟩, ⟨1/2⟩, by norm_num, by norm_num, by norm_num⟩

/-! ### Student's t(ν) -/

-- @site StudentsT.ln_f_real
theorem StudentsT_ln_f (d : Gen.StudentsT R) (x : R) (hv : 0 < d.v.val) :
    (Gen.StudentsT.ln_f_real d x).val = (Spec.StudentsT.lnPdf d x).val := by
  simp only [Gen.StudentsT.ln_f_real, Spec.StudentsT.lnPdf, mulAdd, R.add_val, R.sub_val, R.mul_val, R.div_val,
    R.neg_val, R.ln_val, R.ln1p_val, R.lgamma_val, R.pi_val, R.sci_val]
  norm_num
  ring

example : ∃ (d : Gen.StudentsT R), 0 < d.v.val := ⟨⟨⟨3⟩⟩, by norm_num⟩

/-! ### Kumaraswamy(a, b) -/

-- @site Kumaraswamy.ln_f_real
theorem Kumaraswamy_ln_f (d : Gen.Kumaraswamy R) (x : R) (ha : 0 < d.a.val) (hb : 0 < d.b.val)
    (hx0 : 0 < x.val) (hx1 : x.val < 1) :
    (Gen.Kumaraswamy.ln_f_real d x).val = (Spec.Kumaraswamy.lnPdf d x).val := by
  simp only [Gen.Kumaraswamy.ln_f_real, Gen.Kumaraswamy.ab_ln, Spec.Kumaraswamy.lnPdf, mulAdd, R.add_val,
    R.sub_val, R.mul_val, R.neg_val, R.ln_val, R.powf_val, R.sci_val]
  norm_num
  ring

example : ∃ (d : Gen.Kumaraswamy R) (x : R), 0 < d.a.val ∧ 0 < d.b.val ∧ 0 < x.val ∧ x.val < 1 :=
  ⟨⟨⟨2⟩, ⟨3⟩⟩, ⟨1/2⟩, by norm_num, by norm_num, by norm_num, by norm_num⟩

/-! ### UnitPowerLaw(α) -/

-- @site UnitPowerLaw.ln_f_real
theorem UnitPowerLaw_ln_f (d : Gen.UnitPowerLaw R) (x : R) (ha : 0 < d.alpha.val)
    (hx0 : 0 < x.val) (hx1 : x.val < 1) :
    (Gen.UnitPowerLaw.ln_f_real d x).val = (Spec.UnitPowerLaw.lnPdf d x).val := by
  simp only [Gen.UnitPowerLaw.ln_f_real, Gen.UnitPowerLaw.alpha_ln, Spec.UnitPowerLaw.lnPdf, mulAdd, R.add_val,
    R.sub_val, R.mul_val, R.neg_val, R.ln_val, R.sci_val]
  norm_num
  ring

example : ∃ (d : Gen.UnitPowerLaw R) (x : R), 0 < d.alpha.val ∧ 0 < x.val ∧ x.val < 1 :=
  ⟨⟨⟨3⟩⟩, ⟨1/2⟩, by norm_num, by norm_num, by norm_num⟩

/-! ### Pareto(shape, scale) -/

-- @site Pareto.ln_f_real
theorem Pareto_ln_f (d : Gen.Pareto R) (x : R) (hs : 0 < d.shape.val) (hc : 0 < d.scale.val)
    (hx : d.scale.val ≤ x.val) :
    (Gen.Pareto.ln_f_real d x).val = (Spec.Pareto.lnPdf d x).val := by
  simp only [Gen.Pareto.ln_f_real, Spec.Pareto.lnPdf, mulAdd, R.add_val, R.sub_val, R.mul_val, R.neg_val,
    R.ln_val, R.sci_val]
  norm_num
  ring

example : ∃ (d : Gen.Pareto R) (x : R), 0 < d.shape.val ∧ 0 < d.scale.val ∧ d.scale.val ≤ x.val :=
  ⟨⟨⟨2⟩, ⟨3⟩⟩, ⟨7/2⟩, by norm_num, by norm_num, by norm_num⟩

/-- bridge: the textbook formula is the log of Mathlib's Pareto density (scale, shape) -/
theorem Pareto_spec_is_mathlib (d : Gen.Pareto R) (x : R) (hs : 0 < d.shape.val) (hc : 0 < d.scale.val)
    (hx : d.scale.val ≤ x.val) :
    (Spec.Pareto.lnPdf d x).val = Real.log (paretoPDFReal d.scale.val d.shape.val x.val) := by
  have hx0 : 0 < x.val := lt_of_lt_of_le hc hx
  unfold paretoPDFReal
  rw [if_pos hx, Real.log_mul (by positivity) (by positivity), Real.log_mul (by positivity) (by positivity),
    Real.log_rpow hc, Real.log_rpow hx0]
  simp only [Spec.Pareto.lnPdf, R.add_val, R.sub_val, R.mul_val, R.neg_val, R.ln_val, R.sci_val]
  norm_num
  ring

/-! ### Uniform(a, b) -/

-- @site Uniform.ln_f_real
theorem Uniform_ln_f (d : Gen.Uniform R) (x : R) (hab : d.a.val < d.b.val) (hxa : d.a.val ≤ x.val)
    (hxb : x.val ≤ d.b.val) :
    (Gen.Uniform.ln_f_real d x).val = (Spec.Uniform.lnPdf d x).val := by
  have hc : (RealLike.le d.a x && RealLike.le x d.b) = true := by
    simp only [Bool.and_eq_true, R.le_iff]; exact ⟨hxa, hxb⟩
  simp only [Gen.Uniform.ln_f_real, Gen.Uniform.lnf, hc, Spec.Uniform.lnPdf, if_true, R.sub_val, R.neg_val,
    R.ln_val]

example : ∃ (d : Gen.Uniform R) (x : R), d.a.val < d.b.val ∧ d.a.val ≤ x.val ∧ x.val ≤ d.b.val :=
  ⟨⟨⟨2⟩, ⟨3⟩⟩, ⟨5/2⟩, by norm_num, by norm_num, by norm_num⟩

/-- bridge: the textbook formula is the log of Mathlib's uniform density on `[a, b]` w.r.t. Lebesgue measure -/
theorem Uniform_spec_is_mathlib (d : Gen.Uniform R) (x : R) (hab : d.a.val < d.b.val) (hxa : d.a.val ≤ x.val)
    (hxb : x.val ≤ d.b.val) :
    (Spec.Uniform.lnPdf d x).val
      = Real.log (MeasureTheory.pdf.uniformPDF (Set.Icc d.a.val d.b.val) x.val MeasureTheory.volume).toReal := by
  have hmem : x.val ∈ Set.Icc d.a.val d.b.val := ⟨hxa, hxb⟩
  rw [MeasureTheory.pdf.uniformPDF_ite, if_pos hmem, Real.volume_Icc, ENNReal.toReal_inv,
    ENNReal.toReal_ofReal (by linarith), Real.log_inv]
  simp only [Spec.Uniform.lnPdf, R.sub_val, R.neg_val, R.ln_val]

/-! ### GEV(loc, scale, shape) -/

-- @site Gev.ln_f_real
theorem Gev_ln_f (d : Gen.Gev R) (x : R) (hs : 0 < d.scale.val)
    (hx : 0 < 1 + d.shape.val * ((x.val - d.loc.val) / d.scale.val)) :
    (Gen.Gev.ln_f_real d x).val = (Spec.Gev.lnPdf d x).val := by
  have hs0 : d.scale.val ≠ 0 := ne_of_gt hs
  by_cases h0 : d.shape.val = 0
  · have hb : RealLike.feq d.shape (0.0 : R) = true := by
      rw [R.feq_iff, R.sci_val]; norm_num; exact h0
    simp only [Gen.Gev.ln_f_real, Gen.t, hb, Spec.Gev.lnPdf, if_true, mulAdd, R.add_val, R.sub_val, R.mul_val,
      R.div_val, R.neg_val, R.ln_val, R.exp_val, R.sci_val, Real.log_exp, h0]
    have e : -((x.val - d.loc.val) / d.scale.val) = (d.loc.val - x.val) / d.scale.val := by ring
    rw [e]
    norm_num
    ring
  · have hb : RealLike.feq d.shape (0.0 : R) = false := by
      rw [Bool.eq_false_iff, Ne, R.feq_iff, R.sci_val]; norm_num; exact h0
    have e : 1 + d.shape.val * (x.val - d.loc.val) / d.scale.val
        = 1 + d.shape.val * ((x.val - d.loc.val) / d.scale.val) := by ring
    simp only [Gen.Gev.ln_f_real, Gen.t, hb, Spec.Gev.lnPdf, mulAdd, R.add_val, R.sub_val, R.mul_val,
      R.div_val, R.neg_val, R.ln_val, R.powf_val, R.sci_val]
    norm_num
    rw [e, Real.log_rpow hx, neg_div]
    field_simp
    ring

example : ∃ (d : Gen.Gev R) (x : R), 0 < d.scale.val ∧
    0 < 1 + d.shape.val * ((x.val - d.loc.val) / d.scale.val) :=
  ⟨⟨⟨1⟩, ⟨2⟩, ⟨1/2⟩⟩, ⟨3⟩, by norm_num, by norm_num⟩
example : ∃ (d : Gen.Gev R) (x : R), 0 < d.scale.val ∧
    0 < 1 + d.shape.val * ((x.val - d.loc.val) / d.scale.val) :=
  ⟨⟨⟨1⟩, ⟨2⟩, ⟨0⟩⟩, ⟨-3⟩, by norm_num, by norm_num⟩

/-! ### InvGaussian(μ, λ) -/

-- @site InvGaussian.ln_f_real
theorem InvGaussian_ln_f (d : Gen.InvGaussian R) (x : R) (hm : 0 < d.mu.val) (hl : 0 < d.lambda'.val)
    (hx : 0 < x.val) :
    (Gen.InvGaussian.ln_f_real d x).val = (Spec.InvGaussian.lnPdf d x).val := by
  have hm0 : d.mu.val ≠ 0 := ne_of_gt hm
  have hx0 : x.val ≠ 0 := ne_of_gt hx
  simp only [Gen.InvGaussian.ln_f_real, Gen.InvGaussian.emit_params, Gen.InvGaussian.get_mu,
    Gen.InvGaussian.get_lambda, Gen.InvGaussian.ln_lambda, Spec.InvGaussian.lnPdf, mulAdd, R.add_val, R.sub_val,
    R.mul_val, R.div_val, R.neg_val, R.ln_val, R.ln2Pi_val, R.sci_val]
  norm_num
  field_simp
  ring

example : ∃ (d : Gen.InvGaussian R) (x : R), 0 < d.mu.val ∧ 0 < d.lambda'.val ∧ 0 < x.val :=
  ⟨⟨⟨2⟩, ⟨3⟩⟩, ⟨1/2⟩, by norm_num, by norm_num, by norm_num⟩

/-! ### VonMises(μ, κ) — the struct field `i0_k` is set by every constructor/setter to I₀(κ) -/

-- @site VonMises.ln_f_real
theorem VonMises_ln_f (d : Gen.VonMises R) (x : R) (hk : 0 < d.k.val) (hmu : 0 ≤ d.mu.val ∧ d.mu.val ≤ 2 * π)
    (hi : d.i0_k = RealLike.bessI0 d.k) (hx : 0 ≤ x.val ∧ x.val ≤ 2 * π) :
    (Gen.VonMises.ln_f_real d x).val = (Spec.VonMises.lnPdf d x).val := by
  simp only [Gen.VonMises.ln_f_real, Spec.VonMises.lnPdf, hi, mulAdd, R.add_val, R.sub_val, R.mul_val, R.neg_val,
    R.ln_val, R.cos_val, R.ln2Pi_val, R.bessI0_val]
  ring

example : ∃ (d : Gen.VonMises R) (x : R), 0 < d.k.val ∧ (0 ≤ d.mu.val ∧ d.mu.val ≤ 2 * π) ∧
    d.i0_k = RealLike.bessI0 d.k ∧ (0 ≤ x.val ∧ x.val ≤ 2 * π) :=
  ⟨⟨⟨1⟩, ⟨2⟩, RealLike.bessI0 ⟨2⟩⟩, ⟨3⟩, by norm_num, ⟨by norm_num, by linarith [Real.two_le_pi]⟩, rfl,
    ⟨by norm_num, by linarith [Real.two_le_pi]⟩⟩

end C01

#print axioms C01.Gamma_ln_f
#print axioms C01.Gamma_spec_is_mathlib
#print axioms C01.Beta_ln_f
#print axioms C01.Beta_spec_is_mathlib
#print axioms C01.Exponential_ln_f
#print axioms C01.Exponential_spec_is_mathlib
#print axioms C01.Cauchy_ln_f_partial
#print axioms C01.Cauchy_ln_f_farfield_differs
#print axioms C01.Cauchy_spec_is_mathlib
#print axioms C01.Laplace_ln_f
#print axioms C01.LogNormal_ln_f
#print axioms C01.InvGamma_ln_f
#print axioms C01.ChiSquared_ln_f
#print axioms C01.InvChiSquared_ln_f
#print axioms C01.ScaledInvChiSquared_ln_f
#print axioms C01.StudentsT_ln_f
#print axioms C01.Kumaraswamy_ln_f
#print axioms C01.UnitPowerLaw_ln_f
#print axioms C01.Pareto_ln_f
#print axioms C01.Pareto_spec_is_mathlib
#print axioms C01.Uniform_ln_f
#print axioms C01.Uniform_spec_is_mathlib
#print axioms C01.Gev_ln_f
#print axioms C01.InvGaussian_ln_f
#print axioms C01.VonMises_ln_f
