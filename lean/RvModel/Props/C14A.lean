import RvModel.Hand.Legendre
import RvModel.Lemmas.C14Legendre
import Mathlib.Algebra.Order.Field.Rat
import Mathlib.Algebra.Order.Ring.Abs
import Mathlib.Tactic.Ring
import Mathlib.Tactic.Linarith
import Mathlib.Analysis.SpecialFunctions.Integrals.Basic
import Mathlib.Data.Rat.Cast.Order
/-!
  C14 (group A): Gauss–Legendre quadrature (`/repo/src/misc/legendre.rs`).

  Objects: `Hand.Legendre.glTable n = (weights, roots)` — the hand model of `gauss_legendre_table` over the exact
  rational values of the binary64 literals (`RvModel.Gen.Tables`, regenerated from the Rust source on every run);
  `glMonomial n k = Σᵢ wᵢ xᵢᵏ`; `monoInt k = ∫₋₁¹ xᵏ dx` (`monoInt_eq_integral`); `glEps = 10⁻¹³`.

  All numerical facts are `decide +kernel` over core `Rat` — a single changed digit in the Rust table changes the
  generated `Rat` and is re-decided.
-/
open Hand.Legendre

namespace C14

/-! ### (a) exactness on monomials -/

private theorem ok_2_10 : ((List.range 9).map (· + 2)).all (glNOk glEps) = true := by decide +kernel
-- n = 11, 12 carried three mistyped roots in the pinned source (LEGENDRE_ROOT_11[2], LEGENDRE_ROOT_12[0], [1]);
-- repaired by the `fix:` commits 399dc9d / d354cf7, so they are decided like every other n.
private theorem ok_11_12 : ([11, 12] : List Nat).all (glNOk glEps) = true := by decide +kernel
private theorem ok_13_19 : ((List.range 7).map (· + 13)).all (glNOk glEps) = true := by decide +kernel
private theorem ok_20_24 : ((List.range 5).map (· + 20)).all (glNOk glEps) = true := by decide +kernel
private theorem ok_25_27 : ((List.range 3).map (· + 25)).all (glNOk glEps) = true := by decide +kernel
private theorem ok_28_30 : ((List.range 3).map (· + 28)).all (glNOk glEps) = true := by decide +kernel

private theorem glNOk_of_good (n : Nat) (h2 : 2 ≤ n) (h30 : n ≤ 30) :
    glNOk glEps n = true := by
  by_cases c1 : n ≤ 10
  · exact List.all_eq_true.mp ok_2_10 n (by simp only [List.mem_map, List.mem_range]; exact ⟨n - 2, by omega, by omega⟩)
  by_cases c1' : n ≤ 12
  · exact List.all_eq_true.mp ok_11_12 n (by
      have : n = 11 ∨ n = 12 := by omega
      rcases this with h | h <;> simp [h])
  by_cases c2 : n ≤ 19
  · exact List.all_eq_true.mp ok_13_19 n (by simp only [List.mem_map, List.mem_range]; exact ⟨n - 13, by omega, by omega⟩)
  by_cases c3 : n ≤ 24
  · exact List.all_eq_true.mp ok_20_24 n (by simp only [List.mem_map, List.mem_range]; exact ⟨n - 20, by omega, by omega⟩)
  by_cases c4 : n ≤ 27
  · exact List.all_eq_true.mp ok_25_27 n (by simp only [List.mem_map, List.mem_range]; exact ⟨n - 25, by omega, by omega⟩)
  · exact List.all_eq_true.mp ok_28_30 n (by simp only [List.mem_map, List.mem_range]; exact ⟨n - 28, by omega, by omega⟩)

theorem glEps_val : glEps = 1 / 10 ^ 13 := rfl

/-- the `n`-point rule integrates every monomial of degree `< 2n` within `10⁻¹³`, for every `n ∈ 2..30`. -/
-- @site gauss_legendre_table
theorem gl_exact (n k : Nat) (h2 : 2 ≤ n) (h30 : n ≤ 30) (hk : k < 2 * n) :
    |glMonomial n k - monoInt k| ≤ glEps := by
  have h := List.all_eq_true.mp (glNOk_of_good n h2 h30) k (List.mem_range.mpr hk)
  simp only [glOk, Bool.and_eq_true, decide_eq_true_eq] at h
  exact abs_le.mpr h

example : (2 ≤ 12 ∧ 12 ≤ 30 ∧ 23 < 2 * 12) := by decide

/-- `monoInt k` is the exact integral of the monomial over `[-1, 1]`. -/
-- @site gauss_legendre_quadrature
theorem monoInt_eq_integral (k : Nat) : ((monoInt k : Rat) : ℝ) = ∫ x in (-1 : ℝ)..1, x ^ k :=
  C14L.monoInt_eq_integral k

/-! ### (b) structure of the mirrored table (every n ∈ 2..30) -/

private theorem struct_ok : glNs.all (fun n => glLenOk n && glPosOk n && glUnitOk n && glSymmOk n &&
    glRootSymmOk n && glSumOk glEps n) = true := by decide +kernel

private theorem nodup_ok : ∀ n ∈ glNs, (glTable n).2.Nodup := by decide +kernel

private theorem mem_glNs (n : Nat) (h2 : 2 ≤ n) (h30 : n ≤ 30) : n ∈ glNs := by
  simp only [glNs, List.mem_map, List.mem_range]; exact ⟨n - 2, by omega, by omega⟩

private theorem struct_n (n : Nat) (h2 : 2 ≤ n) (h30 : n ≤ 30) :
    ((((glLenOk n = true ∧ glPosOk n = true) ∧ glUnitOk n = true) ∧ glSymmOk n = true) ∧
      glRootSymmOk n = true) ∧ glSumOk glEps n = true := by
  have h := List.all_eq_true.mp struct_ok n (mem_glNs n h2 h30)
  simpa only [Bool.and_eq_true] using h

/-- result vectors have `n` entries; the half tables have `⌈n/2⌉` entries, so that every index
    `n-i-1` / `n-i` read by the mirroring loops (`legendre.rs:161-175`) is in range (no panic). -/
-- @site gauss_legendre_table
theorem gl_lengths (n : Nat) (h2 : 2 ≤ n) (h30 : n ≤ 30) :
    (glTable n).1.length = n ∧ (glTable n).2.length = n ∧
    (GenTables.legendreRoot n).length = (n + 1) / 2 ∧ (GenTables.legendreWeight n).length = (n + 1) / 2 := by
  have h := (struct_n n h2 h30).1.1.1.1.1
  simp only [glLenOk, Bool.and_eq_true, beq_iff_eq] at h
  exact ⟨h.1.2, h.2, h.1.1.1, h.1.1.2⟩

/-- every weight is positive -/
-- @site gauss_legendre_table
theorem gl_weights_pos (n : Nat) (h2 : 2 ≤ n) (h30 : n ≤ 30) : ∀ w ∈ (glTable n).1, 0 < w := by
  have h := (struct_n n h2 h30).1.1.1.1.2
  intro w hw
  simpa using List.all_eq_true.mp h w hw

/-- every node lies strictly inside (-1, 1) -/
-- @site gauss_legendre_table
theorem gl_roots_in_unit (n : Nat) (h2 : 2 ≤ n) (h30 : n ≤ 30) : ∀ x ∈ (glTable n).2, -1 < x ∧ x < 1 := by
  have h := (struct_n n h2 h30).1.1.1.2
  intro x hx
  simpa using List.all_eq_true.mp h x hx

/-- the nodes are symmetric about 0: the root list is closed under negation -/
-- @site gauss_legendre_table
theorem gl_roots_symm (n : Nat) (h2 : 2 ≤ n) (h30 : n ≤ 30) : ∀ x ∈ (glTable n).2, -x ∈ (glTable n).2 := by
  have h := (struct_n n h2 h30).1.2
  intro x hx
  have := List.all_eq_true.mp h x hx
  simpa using this

/-- … together with their weights: `(w, x)` in the rule ⇒ `(w, -x)` in the rule -/
-- @site gauss_legendre_table
theorem gl_pairs_symm (n : Nat) (h2 : 2 ≤ n) (h30 : n ≤ 30) :
    ∀ p ∈ (glTable n).1.zip (glTable n).2, (p.1, -p.2) ∈ (glTable n).1.zip (glTable n).2 := by
  have h := (struct_n n h2 h30).1.1.2
  intro p hp
  have := List.all_eq_true.mp h p hp
  simpa using this

/-- the nodes are pairwise distinct -/
-- @site gauss_legendre_table
theorem gl_roots_nodup (n : Nat) (h2 : 2 ≤ n) (h30 : n ≤ 30) : (glTable n).2.Nodup :=
  nodup_ok n (mem_glNs n h2 h30)

/-- the weights sum to 2 (= ∫₋₁¹ 1) within 10⁻¹³ -/
-- @site gauss_legendre_table
theorem gl_weights_sum (n : Nat) (h2 : 2 ≤ n) (h30 : n ≤ 30) : |sumQ (glTable n).1 - 2| ≤ glEps := by
  have h := (struct_n n h2 h30).2
  simp only [glSumOk, Bool.and_eq_true, decide_eq_true_eq] at h
  exact abs_le.mpr h

/-- outside 2..30 the Rust function panics (`legendre.rs:120,153`); the model returns empty vectors -/
-- @site gauss_legendre_table
theorem gl_out_of_range (n : Nat) (h : n < 2 ∨ 30 < n) : glTable n = ([], []) := by
  unfold glTable; rw [if_pos h]

/-! ### (c) lift to polynomials and to an interval [a, b] -/

/-- a polynomial `p = Σ_{k<2n} c[k] xᵏ` is integrated over [-1,1] within `10⁻¹³ · Σ|c[k]|`
    (`polyInt c = Σ c[k]·∫₋₁¹xᵏ`). -/
-- @site gauss_legendre_quadrature
theorem gl_lift (n : Nat) (c : List Rat) (h2 : 2 ≤ n) (h30 : n ≤ 30)
    (hc : c.length ≤ 2 * n) :
    |unitQuad (polyEval c) n - polyInt c| ≤ glEps * absSum c := by
  have := C14L.Q_poly ((glTable n).1.zip (glTable n).2) glEps c 0
    (fun j _ hj => gl_exact n j h2 h30 (by omega))
  exact this

example : ([1, 0, -3, 1/2] : List Rat).length ≤ 2 * 2 := by decide

/-- `polyInt c` is the exact integral over `[-1,1]` of the real polynomial with the coefficients `c`
    (`C14L.polyEvalR 0 c x = Σⱼ c[j]·xʲ`, which restricts to `polyEval c` on the rationals: `polyEval_cast`). -/
-- @site gauss_legendre_quadrature
theorem polyInt_eq_integral (c : List Rat) :
    ((polyInt c : Rat) : ℝ) = ∫ x in (-1 : ℝ)..1, C14L.polyEvalR 0 c x :=
  C14L.polyIntFrom_eq_integral 0 c

-- @site gauss_legendre_quadrature
theorem polyEval_cast (c : List Rat) (q : Rat) : ((polyEval c q : Rat) : ℝ) = C14L.polyEvalR 0 c (q : ℝ) :=
  C14L.polyEvalFrom_cast 0 c q

/-- the lift lemma against the true integral: for every polynomial `p` of degree `< 2n` with rational coefficients,
    `|Σᵢ wᵢ p(xᵢ) − ∫₋₁¹ p| ≤ 10⁻¹³ · Σ|c[k]|`. -/
-- @site gauss_legendre_quadrature
theorem gl_lift_integral (n : Nat) (c : List Rat) (h2 : 2 ≤ n) (h30 : n ≤ 30)
    (hc : c.length ≤ 2 * n) :
    |((unitQuad (polyEval c) n : Rat) : ℝ) - ∫ x in (-1 : ℝ)..1, C14L.polyEvalR 0 c x| ≤
      ((glEps * absSum c : Rat) : ℝ) := by
  rw [← polyInt_eq_integral]
  have h := gl_lift n c h2 h30 hc
  have : ((|unitQuad (polyEval c) n - polyInt c| : Rat) : ℝ) ≤ ((glEps * absSum c : Rat) : ℝ) := by
    exact_mod_cast h
  rwa [Rat.cast_abs, Rat.cast_sub] at this

/-- the same on an interval `[a,b]` through the affine map of `gauss_legendre_quadrature` (`legendre.rs:18-22`):
    if `x ↦ f(x(b−a)/2 + (a+b)/2)` is the polynomial with coefficient list `c` (degree < 2n) then
    `|quad − (b−a)/2·∫₋₁¹ (f∘affine)| ≤ |b−a|/2 · 10⁻¹³ · Σ|c[k]|`. -/
-- @site gauss_legendre_quadrature
theorem gl_lift_interval (n : Nat) (f : Rat → Rat) (a b : Rat) (c : List Rat)
    (h2 : 2 ≤ n) (h30 : n ≤ 30) (hc : c.length ≤ 2 * n)
    (hf : ∀ x, f (x * (b - a) / 2 + (a + b) / 2) = polyEval c x) :
    |glQuad f n a b - (b - a) / 2 * polyInt c| ≤ |b - a| / 2 * (glEps * absSum c) := by
  have hfun : (fun x => f (x * (b - a) / 2 + (a + b) / 2)) = polyEval c := funext hf
  have h := gl_lift n c h2 h30 hc
  unfold glQuad
  rw [hfun, ← mul_sub, abs_mul, abs_div, abs_two]
  exact mul_le_mul_of_nonneg_left h (by positivity)

/-- `gauss_legendre_quadrature_cached` with the table of `gauss_legendre_table(n)` is `gauss_legendre_quadrature` -/
-- @site gauss_legendre_quadrature_cached
theorem glQuadCached_eq (f : Rat → Rat) (n : Nat) (a b : Rat) :
    glQuadCached f a b (glTable n).1 (glTable n).2 = glQuad f n a b := rfl

end C14

#print axioms C14.gl_exact
#print axioms C14.monoInt_eq_integral
#print axioms C14.gl_lengths
#print axioms C14.gl_weights_pos
#print axioms C14.gl_roots_in_unit
#print axioms C14.gl_roots_symm
#print axioms C14.gl_pairs_symm
#print axioms C14.gl_roots_nodup
#print axioms C14.gl_weights_sum
#print axioms C14.gl_out_of_range
#print axioms C14.gl_lift
#print axioms C14.polyInt_eq_integral
#print axioms C14.polyEval_cast
#print axioms C14.gl_lift_integral
#print axioms C14.gl_lift_interval
#print axioms C14.glQuadCached_eq
