import RvModel.RealInst
import RvModel.Hand.Kernel
import RvModel.Lemmas.C16
import RvModel.Props.C16A
import Mathlib.Analysis.SpecialFunctions.ExpDeriv
import Mathlib.Analysis.SpecialFunctions.Pow.Deriv
import Mathlib.Analysis.SpecialFunctions.Log.Deriv
import Mathlib.Analysis.SpecialFunctions.Trigonometric.Deriv
/-!
  C16 (part B) — the gradient returned by `covariance_with_gradient` IS the derivative of `covariance` with respect to
  each LOG-parameter.  Carrier `R`; Mathlib calculus (`HasDerivAt`).

  For every leaf with a closed-form gradient (Constant, RBF, ExpSineSquared, RationalQuadratic) and each of its
  parameters `θᵢ`:   `HasDerivAt (fun t ↦ cov (leaf with θᵢ := exp t) x x') (covGradEntry leaf x x').2[i] (ln θᵢ)`;
  for `AddKernel` / `ProductKernel` the sum and product rules with the slices concatenated in order
  (`grad_a ∘ cov_b ++ grad_b ∘ cov_a`) — hence, by structural induction, the statement for every tree over these
  leaves (`grad_hasDerivAt`), at every parameter index.

  NOT covered (the code is wrong or inexact there — see the counterexamples):
  * SEard: the returned slices are `-2 (aₖ-bₖ)² c / ℓₖ³` with a `c` built from the wrong distance — neither the
    derivative in `ln ℓₖ` nor in `ℓₖ` (`seard_grad_counterexample`);
  * White: slice `σ` on the diagonal while `covariance ≡ 0` (`white_grad_counterexample`);
  * Matérn: forward difference quotient with step `1e-10` (`matern_grad_partial` states what the code computes).
-/
open Real Hand.Kernel

namespace C16

/-! ### leaves -/

-- @site ConstantKernel::covariance_with_gradient
theorem const_grad (c : R) (hc : 0 < c.val) (x y : List R) :
    HasDerivAt (fun t : ℝ => (cov (.const ⟨Real.exp t⟩) x y).val)
      ((covGradEntry (.const c) .lower x y).2.getD 0 (r 0)).val (Real.log c.val) := by
  simp only [cov, covGradEntry, List.getD_cons_zero]
  have := Real.hasDerivAt_exp (Real.log c.val)
  rwa [Real.exp_log hc] at this

example := const_grad (r 3) (by norm_num) [r 0] [r 1]

-- @site RBFKernel::covariance_with_gradient
theorem rbf_grad (l : R) (hl : 0 < l.val) (x y : List R) :
    HasDerivAt (fun t : ℝ => (cov (.rbf ⟨Real.exp t⟩) x y).val)
      ((covGradEntry (.rbf l) .lower x y).2.getD 0 (r 0)).val (Real.log l.val) := by
  simp only [cov, covGradEntry, List.getD_cons_zero, R.exp_val, R.mul_val, R.neg_val, R.div_val, e2norm_val, lit05,
    lit2]
  have h := ((hasDerivAt_div_exp_sq (sqSum x y) (Real.log l.val)).const_mul (-(1 / 2) : ℝ)).exp
  refine h.congr_deriv ?_
  rw [Real.exp_log hl]
  have : -(1 / 2 : ℝ) * (sqSum x y / l.val ^ 2) = -(sqSum x y / l.val ^ 2) / 2 := by ring
  rw [this]; ring

example := rbf_grad (r 3) (by norm_num) [r 0, r 2] [r 1, r 5]

-- @site ExpSineSquaredKernel::covariance_with_gradient
/-- parameter 0 of ESS: the length scale -/
theorem ess_grad_l (l p : R) (hl : 0 < l.val) (x y : List R) :
    HasDerivAt (fun t : ℝ => (cov (.ess ⟨Real.exp t⟩ p) x y).val)
      ((covGradEntry (.ess l p) .lower x y).2.getD 0 (r 0)).val (Real.log l.val) := by
  simp only [cov, covGradEntry, List.getD_cons_zero, R.exp_val, R.mul_val, R.neg_val, R.div_val, R.powi_val,
    R.sin_val, R.pi_val, eucDist_val, lit2, lit4]
  set s2 : ℝ := Real.sin (π * Real.sqrt (sqSum x y) / p.val) ^ (2 : ℤ) with hs2
  have hz : ∀ u : ℝ, u ^ (2 : ℤ) = u ^ 2 := fun u => by norm_cast
  simp only [hz]
  have h := ((hasDerivAt_div_exp_sq (2 * s2) (Real.log l.val)).neg).exp
  have hfun : (fun t : ℝ => Real.exp (-2 * s2 / Real.exp t ^ 2)) = fun t => Real.exp (-(2 * s2 / Real.exp t ^ 2)) := by
    funext u; congr 1; ring
  rw [hfun]
  refine h.congr_deriv ?_
  simp only [Pi.neg_apply, Real.exp_log hl]
  have : -(2 * s2 / l.val ^ 2) = -2 * s2 / l.val ^ 2 := by ring
  rw [this]; ring

example := ess_grad_l (r 3) (r 2) (by norm_num) [r 0, r 2] [r 1, r 5]

-- @site ExpSineSquaredKernel::covariance_with_gradient
/-- parameter 1 of ESS: the periodicity -/
theorem ess_grad_p (l p : R) (hp : 0 < p.val) (x y : List R) :
    HasDerivAt (fun t : ℝ => (cov (.ess l ⟨Real.exp t⟩) x y).val)
      ((covGradEntry (.ess l p) .lower x y).2.getD 1 (r 0)).val (Real.log p.val) := by
  simp only [cov, covGradEntry, List.getD_cons_succ, List.getD_cons_zero, R.exp_val, R.mul_val, R.neg_val,
    R.div_val, R.powi_val, R.sin_val, R.cos_val, R.pi_val, eucDist_val, lit2, lit4]
  have hz : ∀ u : ℝ, u ^ (2 : ℤ) = u ^ 2 := fun u => by norm_cast
  simp only [hz]
  set d : ℝ := Real.sqrt (sqSum x y) with hd
  set t0 : ℝ := Real.log p.val with ht0
  -- u(t) = π d e^{-t}
  have hu : HasDerivAt (fun t : ℝ => π * d * Real.exp (-t)) (π * d * (Real.exp (-t0) * (-1))) t0 := by
    have := ((hasDerivAt_id t0).neg).exp
    simpa using this.const_mul (π * d)
  have h := (((hu.sin.pow 2).const_mul (-2 : ℝ)).div_const (l.val ^ 2)).exp
  have hfun : (fun t : ℝ => Real.exp (-2 * Real.sin (π * d / Real.exp t) ^ 2 / l.val ^ 2))
      = fun t => Real.exp (-2 * Real.sin (π * d * Real.exp (-t)) ^ 2 / l.val ^ 2) := by
    funext u; rw [Real.exp_neg, div_eq_mul_inv (π * d)]
  rw [hfun]
  refine h.congr_deriv ?_
  simp only [Pi.pow_apply]
  have he : Real.exp (-t0) = (p.val)⁻¹ := by rw [ht0, Real.exp_neg, Real.exp_log hp]
  rw [he]
  have : π * d * (p.val)⁻¹ = π * d / p.val := by rw [div_eq_mul_inv]
  rw [this]
  simp only [Nat.cast_ofNat, Nat.add_one_sub_one, pow_one]
  field_simp
  ring

example := ess_grad_p (r 3) (r 2) (by norm_num) [r 0, r 2] [r 1, r 5]

-- @site RationalQuadratic::covariance_with_gradient
/-- parameter 0 of RQ: the scale -/
theorem rq_grad_s (s a : R) (hs : 0 < s.val) (ha : 0 < a.val) (x y : List R) :
    HasDerivAt (fun t : ℝ => (cov (.rq ⟨Real.exp t⟩ a) x y).val)
      ((covGradEntry (.rq s a) .lower x y).2.getD 0 (r 0)).val (Real.log s.val) := by
  have hfun : (fun t : ℝ => (cov (.rq ⟨Real.exp t⟩ a) x y).val)
      = fun t => (1 + (sqSum x y / (2 * a.val)) / Real.exp t ^ 2) ^ (-a.val) := by
    funext t
    simp only [cov, R.powf_val, R.add_val, R.neg_val, lit1]
    rw [rq_e2norm _ a ha.le]
    congr 2
    rw [div_div]
  rw [hfun]
  simp only [covGradEntry, List.getD_cons_zero, R.powf_val, R.add_val, R.neg_val, R.div_val, R.mul_val,
    R.powi_val, sqDist_val, lit1, lit2]
  have hz : ∀ u : ℝ, u ^ (2 : ℤ) = u ^ 2 := fun u => by norm_cast
  simp only [hz]
  set S : ℝ := sqSum x y with hS
  have hS0 : 0 ≤ S := sqSum_nonneg x y
  set t0 : ℝ := Real.log s.val with ht0
  have hb := (hasDerivAt_div_exp_sq (S / (2 * a.val)) t0).const_add 1
  have hexp : Real.exp t0 = s.val := Real.exp_log hs
  have hbase : 0 < 1 + S / (2 * a.val) / Real.exp t0 ^ 2 := by
    have : 0 ≤ S / (2 * a.val) / Real.exp t0 ^ 2 := by positivity
    linarith
  have h := hb.rpow_const (p := -a.val) (Or.inl hbase.ne')
  refine h.congr_deriv ?_
  rw [hexp] at hbase ⊢
  have hb' : 1 + S / (2 * a.val) / s.val ^ 2 = 1 + S / (2 * a.val * s.val ^ 2) := by rw [div_div]
  rw [hb'] at hbase ⊢
  rw [Real.rpow_sub_one hbase.ne']
  field_simp

example := rq_grad_s (r 3) (r 2) (by norm_num) (by norm_num) [r 0, r 2] [r 1, r 5]

-- @site RationalQuadratic::covariance_with_gradient
/-- parameter 1 of RQ: the mixture (both the base and the exponent depend on it) -/
theorem rq_grad_a (s a : R) (hs : 0 < s.val) (ha : 0 < a.val) (x y : List R) :
    HasDerivAt (fun t : ℝ => (cov (.rq s ⟨Real.exp t⟩) x y).val)
      ((covGradEntry (.rq s a) .lower x y).2.getD 1 (r 0)).val (Real.log a.val) := by
  have hfun : (fun t : ℝ => (cov (.rq s ⟨Real.exp t⟩) x y).val)
      = fun t => (1 + (sqSum x y / (2 * s.val ^ 2)) * Real.exp (-t)) ^ (-Real.exp t) := by
    funext t
    simp only [cov, R.powf_val, R.add_val, R.neg_val, lit1]
    rw [rq_e2norm s ⟨Real.exp t⟩ (Real.exp_pos t).le]
    congr 2
    rw [Real.exp_neg]
    field_simp
  rw [hfun]
  simp only [covGradEntry, List.getD_cons_succ, List.getD_cons_zero, mulAdd, R.powf_val, R.add_val, R.neg_val,
    R.div_val, R.mul_val, R.powi_val, R.ln_val, sqDist_val, lit1, lit2]
  have hz : ∀ u : ℝ, u ^ (2 : ℤ) = u ^ 2 := fun u => by norm_cast
  simp only [hz]
  set S : ℝ := sqSum x y with hS
  have hS0 : 0 ≤ S := sqSum_nonneg x y
  set t0 : ℝ := Real.log a.val with ht0
  have hexp : Real.exp t0 = a.val := Real.exp_log ha
  have hexpn : Real.exp (-t0) = (a.val)⁻¹ := by rw [Real.exp_neg, hexp]
  have hf : HasDerivAt (fun t : ℝ => 1 + S / (2 * s.val ^ 2) * Real.exp (-t))
      (S / (2 * s.val ^ 2) * (Real.exp (-t0) * (-1))) t0 := by
    have := ((hasDerivAt_id t0).neg).exp
    simpa using (this.const_mul (S / (2 * s.val ^ 2))).const_add 1
  have hg : HasDerivAt (fun t : ℝ => -Real.exp t) (-Real.exp t0) t0 := (Real.hasDerivAt_exp t0).neg
  have hbase : 0 < 1 + S / (2 * s.val ^ 2) * Real.exp (-t0) := by
    have : 0 ≤ S / (2 * s.val ^ 2) * Real.exp (-t0) := by positivity
    linarith
  have h := hf.rpow hg hbase
  refine h.congr_deriv ?_
  rw [hexp, hexpn] at *
  have hb' : 1 + S / (2 * s.val ^ 2) * (a.val)⁻¹ = 1 + S / (2 * a.val * s.val ^ 2) := by
    congr 1; field_simp
  rw [hb'] at hbase ⊢
  rw [Real.rpow_sub_one hbase.ne']
  field_simp
  ring

example := rq_grad_a (r 3) (r 2) (by norm_num) (by norm_num) [r 0, r 2] [r 1, r 5]

/-! ### trees -/

-- @site Kernel::parameters
/-- `parameters()[i] = ln θᵢ` -/
theorem parameters_getD (k : K R) (i : Nat) (hi : i < nParameters k) :
    ((parameters k).getD i (r 0)).val = Real.log (getParam k i).val := by
  induction k generalizing i with
  | const c => match i, hi with
    | 0, _ => rfl
  | rbf l => match i, hi with
    | 0, _ => rfl
  | white s => match i, hi with
    | 0, _ => rfl
  | ess l p => match i, hi with
    | 0, _ => rfl
    | 1, _ => rfl
  | rq s a => match i, hi with
    | 0, _ => rfl
    | 1, _ => rfl
  | matern nu l => match i, hi with
    | 0, _ => rfl
    | 1, _ => rfl
  | seard ls =>
    simp only [nParameters] at hi
    simp only [parameters, getParam]
    rw [List.getD_eq_getElem _ _ (by simpa using hi), List.getD_eq_getElem _ _ hi, List.getElem_map]
    rfl
  | add a b iha ihb =>
    simp only [nParameters] at hi
    simp only [parameters, getParam]
    by_cases h : i < nParameters a
    · rw [List.getD_append _ _ _ _ (by rw [parameters_length]; exact h)]
      simp only [h, if_true]; exact iha i h
    · rw [List.getD_append_right _ _ _ _ (by rw [parameters_length]; omega), parameters_length]
      simp only [h, if_false]; exact ihb _ (by omega)
  | mul a b iha ihb =>
    simp only [nParameters] at hi
    simp only [parameters, getParam]
    by_cases h : i < nParameters a
    · rw [List.getD_append _ _ _ _ (by rw [parameters_length]; exact h)]
      simp only [h, if_true]; exact iha i h
    · rw [List.getD_append_right _ _ _ _ (by rw [parameters_length]; omega), parameters_length]
      simp only [h, if_false]; exact ihb _ (by omega)

example : ((parameters (.add (.rbf (r 2)) (.ess (r 1) (r 3)))).getD 2 (r 0)).val
    = Real.log (getParam (.add (.rbf (r 2)) (.ess (r 1) (r 3))) 2).val :=
  parameters_getD _ 2 (by simp [nParameters])

-- @site Kernel::covariance_with_gradient
/-- a leaf statement proved below the diagonal extends to the mirrored upper triangle (symmetry of `covariance`) and to
    the diagonal (`covariance(x, x) = 1` whatever the parameters, slice entry `0`) -/
theorem leaf_all_pos (mk : R → K R) (k : K R) (i : Nat) (t0 : ℝ)
    (hlow : ∀ u v, HasDerivAt (fun t : ℝ => (cov (mk ⟨Real.exp t⟩) u v).val)
      ((covGradEntry k .lower u v).2.getD i (r 0)).val t0)
    (hup : ∀ u v, covGradEntry k .upper u v = covGradEntry k .lower v u)
    (hdiag1 : ∀ (w : R) u, (cov (mk w) u u).val = 1)
    (hdiag2 : ∀ u, ((covGradEntry k .diag u u).2.getD i (r 0)).val = 0)
    (pos : Pos) (x y : List R) (hd : pos = .diag → y = x) :
    HasDerivAt (fun t : ℝ => (cov (mk ⟨Real.exp t⟩) x y).val) ((covGradEntry k pos x y).2.getD i (r 0)).val t0 := by
  cases pos with
  | lower => exact hlow x y
  | upper =>
    have hf : (fun t : ℝ => (cov (mk ⟨Real.exp t⟩) x y).val) = fun t => (cov (mk ⟨Real.exp t⟩) y x).val :=
      funext fun t => cov_symm _ _ _
    rw [hf, hup]; exact hlow y x
  | diag =>
    rw [hd rfl]
    have hf : (fun t : ℝ => (cov (mk ⟨Real.exp t⟩) x x).val) = fun _ => (1 : ℝ) := funext fun t => hdiag1 _ _
    rw [hf, hdiag2]; exact hasDerivAt_const _ _

-- @site Kernel::covariance_with_gradient
/-- **the gradient is the derivative.**  For every tree over Constant / RBF / ExpSineSquared / RationalQuadratic leaves
    with positive parameters, every parameter index `i`, every position of the matrix (below, on — then `y = x` —, above
    the diagonal) and every pair of points: entry of slice `i` of the gradient returned by `covariance_with_gradient`
    is the derivative of the `covariance` entry with respect to the `i`-th log-parameter (all other parameters fixed),
    at the current value `ln θᵢ = parameters()[i]` (`parameters_getD`).
    Leaves: the six lemmas above; `AddKernel`: sum rule, `ProductKernel`: product rule, slices concatenated in order. -/
theorem grad_hasDerivAt (k : K R) (hk : GoodLeaves gradLeaf k) (hv : Valid k) (i : Nat) (hi : i < nParameters k)
    (pos : Pos) (x y : List R) (hd : pos = .diag → y = x) :
    HasDerivAt (fun t : ℝ => (cov (setParam k i ⟨Real.exp t⟩) x y).val)
      ((covGradEntry k pos x y).2.getD i (r 0)).val (Real.log (getParam k i).val) := by
  have one : ∀ (k' : K R) (u : List R), GoodLeaves diagValueLeaf k' → (diagEntry k' u).val = 1 →
      (cov k' u u).val = 1 := fun k' u h1 h2 => by rw [← diag_eq k' h1 u]; exact h2
  induction k generalizing i with
  | const c => match i, hi with
    | 0, _ => cases pos <;> exact const_grad c hv x y
  | rbf l => match i, hi with
    | 0, _ =>
      exact leaf_all_pos (fun w => .rbf w) (.rbf l) 0 _ (rbf_grad l hv) (fun _ _ => rfl)
        (fun w u => one (.rbf w) u rfl lit1) (fun _ => lit0) pos x y hd
  | ess l p => match i, hi with
    | 0, _ =>
      exact leaf_all_pos (fun w => .ess w p) (.ess l p) 0 _ (ess_grad_l l p hv.1) (fun _ _ => rfl)
        (fun w u => one (.ess w p) u rfl lit1) (fun _ => lit0) pos x y hd
    | 1, _ =>
      exact leaf_all_pos (fun w => .ess l w) (.ess l p) 1 _ (ess_grad_p l p hv.2) (fun _ _ => rfl)
        (fun w u => one (.ess l w) u rfl lit1) (fun _ => lit0) pos x y hd
  | rq s a => match i, hi with
    | 0, _ =>
      exact leaf_all_pos (fun w => .rq w a) (.rq s a) 0 _ (rq_grad_s s a hv.1 hv.2) (fun _ _ => rfl)
        (fun w u => one (.rq w a) u rfl lit1) (fun _ => lit0) pos x y hd
    | 1, _ =>
      exact leaf_all_pos (fun w => .rq s w) (.rq s a) 1 _ (rq_grad_a s a hv.1 hv.2) (fun _ _ => rfl)
        (fun w u => one (.rq s w) u rfl lit1) (fun _ => lit0) pos x y hd
  | seard ls => simp [GoodLeaves, gradLeaf] at hk
  | matern nu l => simp [GoodLeaves, gradLeaf] at hk
  | white s => simp [GoodLeaves, gradLeaf] at hk
  | add a b iha ihb =>
    simp only [nParameters] at hi
    simp only [GoodLeaves] at hk
    simp only [setParam, getParam, covGradEntry]
    by_cases h : i < nParameters a
    · simp only [h, if_true, cov, R.add_val]
      rw [List.getD_append _ _ _ _ (by rw [covGrad_len]; exact h)]
      have := (iha hk.1 hv.1 i h).add_const (cov b x y).val
      exact this
    · simp only [h, if_false, cov, R.add_val]
      rw [List.getD_append_right _ _ _ _ (by rw [covGrad_len]; omega), covGrad_len]
      have := (ihb hk.2 hv.2 (i - nParameters a) (by omega)).const_add (cov a x y).val
      exact this
  | mul a b iha ihb =>
    simp only [nParameters] at hi
    simp only [GoodLeaves] at hk
    simp only [setParam, getParam, covGradEntry]
    have hca := covGrad_cov_eq a (gradLeaf_covGradLeaf a hk.1) hv.1 pos x y hd
    have hcb := covGrad_cov_eq b (gradLeaf_covGradLeaf b hk.2) hv.2 pos x y hd
    by_cases h : i < nParameters a
    · simp only [h, if_true, cov, R.mul_val]
      rw [List.getD_append _ _ _ _ (by rw [List.length_map, covGrad_len]; exact h)]
      rw [List.getD_eq_getElem _ _ (by rw [List.length_map, covGrad_len]; exact h), List.getElem_map,
        ← List.getD_eq_getElem _ (r 0) (by rw [covGrad_len]; exact h)]
      have := (iha hk.1 hv.1 i h).mul_const (cov b x y).val
      rw [R.mul_val, hcb]
      exact this
    · have h' : i - nParameters a < nParameters b := by omega
      simp only [h, if_false, cov, R.mul_val]
      rw [List.getD_append_right _ _ _ _ (by rw [List.length_map, covGrad_len]; omega), List.length_map, covGrad_len]
      rw [List.getD_eq_getElem _ _ (by rw [List.length_map, covGrad_len]; exact h'), List.getElem_map,
        ← List.getD_eq_getElem _ (r 0) (by rw [covGrad_len]; exact h')]
      have := (ihb hk.2 hv.2 (i - nParameters a) h').const_mul (cov a x y).val
      rw [R.mul_val, hca, mul_comm]
      exact this

example : HasDerivAt
    (fun t : ℝ => (cov (setParam (.mul (.const (r 3)) (.add (.rbf (r 2)) (.rq (r 1) (r 5)))) 3 ⟨Real.exp t⟩)
      [r 1, r 2] [r 0, r 4]).val)
    ((covGradEntry (.mul (.const (r 3)) (.add (.rbf (r 2)) (.rq (r 1) (r 5)))) .upper [r 1, r 2] [r 0, r 4]).2.getD 3
      (r 0)).val
    (Real.log (getParam (.mul (.const (r 3)) (.add (.rbf (r 2)) (.rq (r 1) (r 5)))) 3).val) :=
  grad_hasDerivAt _ (by simp [GoodLeaves, gradLeaf]) (by simp [Valid]) 3 (by simp [nParameters]) .upper _ _ (by simp)

-- @site Kernel::covariance_with_gradient
/-- matrix level: entry `(i, j)` of slice `p` of the gradient returned by `covariance_with_gradient(X)` is the derivative
    of entry `(i, j)` of `covariance(X, X)` with respect to the `p`-th log-parameter — every tree over
    Constant / RBF / ExpSineSquared / RationalQuadratic leaves, every point set, every `p, i, j` -/
theorem covWithGrad_grad_hasDerivAt (k : K R) (hk : GoodLeaves gradLeaf k) (hv : Valid k) (X : List (List R))
    (C : List (List R)) (G : List (List (List R))) (h : covWithGrad k X = .ok (C, G))
    (p i j : Nat) (hp : p < nParameters k) (hi : i < X.length) (hj : j < X.length) :
    HasDerivAt (fun t : ℝ => (cov (setParam k p ⟨Real.exp t⟩) X[i] X[j]).val)
      (((G.getD p []).getD i []).getD j (r 0)).val (Real.log (getParam k p).val) := by
  rw [(covWithGrad_entry k X C G h p i j hp hi hj).1]
  apply grad_hasDerivAt k hk hv p hp
  intro hpos
  have := ofIdx_diag i j hpos
  subst this
  rfl

example (C : List (List R)) (G : List (List (List R)))
    (h : covWithGrad (.mul (.const (r 2)) (.rq (r 1) (r 3))) [[r 0], [r 1]] = .ok (C, G)) :
    HasDerivAt (fun t : ℝ => (cov (setParam (.mul (.const (r 2)) (.rq (r 1) (r 3))) 2 ⟨Real.exp t⟩) [r 0] [r 1]).val)
      (((G.getD 2 []).getD 0 []).getD 1 (r 0)).val
      (Real.log (getParam (.mul (.const (r 2)) (.rq (r 1) (r 3))) 2).val) :=
  covWithGrad_grad_hasDerivAt _ (by simp [GoodLeaves, gradLeaf]) (by simp [Valid]) _ C G h 2 0 1
    (by simp [nParameters]) (by simp) (by simp)

-- @site Kernel::covariance_with_gradient
/-- **coincident points.**  For two DIFFERENT rows holding the same point (distance exactly 0) the off-diagonal entry of
    the returned covariance and of every gradient slice has the same (finite) value as the diagonal entry: `1` and `0`
    for RBF / ExpSineSquared / RationalQuadratic (`4 sin²(0)·k/ℓ² = 0`, `(4·0/ℓ²)·cos·sin·k = 0`, `0·k/(…) = 0`), `c`
    for Constant — every tree over these leaves.  (A gradient written as `… * arg / tan(arg)` is `0/0` there.) -/
theorem covGrad_coincident (k : K R) (hk : GoodLeaves gradLeaf k) (x : List R) :
    (covGradEntry k .lower x x).1.val = (covGradEntry k .diag x x).1.val ∧
    (covGradEntry k .lower x x).2.map R.val = (covGradEntry k .diag x x).2.map R.val := by
  have hz : ∀ u : ℝ, u ^ (2 : ℤ) = u ^ 2 := fun u => by norm_cast
  induction k with
  | const c => exact ⟨rfl, rfl⟩
  | rbf l =>
    simp only [covGradEntry, List.map_cons, List.map_nil, R.exp_val, R.mul_val, R.neg_val, R.div_val, e2norm_self,
      lit0, lit1, lit2, neg_zero, zero_div, Real.exp_zero, zero_mul, and_self]
  | ess l p =>
    simp only [covGradEntry, List.map_cons, List.map_nil, R.exp_val, R.mul_val, R.neg_val, R.div_val, R.powi_val,
      R.sin_val, R.cos_val, R.pi_val, eucDist_self, lit0, lit1, lit2, lit4, hz, mul_zero, zero_div, Real.sin_zero]
    norm_num
  | rq s a =>
    simp only [covGradEntry, mulAdd, List.map_cons, List.map_nil, R.powf_val, R.add_val, R.neg_val, R.div_val,
      R.mul_val, R.powi_val, R.ln_val, sqDist_self, lit0, lit1, lit2, zero_div, add_zero, Real.one_rpow, Real.log_one,
      zero_mul, mul_zero, and_self]
  | seard ls => simp [GoodLeaves, gradLeaf] at hk
  | matern nu l => simp [GoodLeaves, gradLeaf] at hk
  | white s => simp [GoodLeaves, gradLeaf] at hk
  | add a b iha ihb =>
    simp only [GoodLeaves] at hk
    obtain ⟨ha1, ha2⟩ := iha hk.1
    obtain ⟨hb1, hb2⟩ := ihb hk.2
    simp only [covGradEntry, R.add_val, List.map_append, ha1, ha2, hb1, hb2, and_self]
  | mul a b iha ihb =>
    simp only [GoodLeaves] at hk
    obtain ⟨ha1, ha2⟩ := iha hk.1
    obtain ⟨hb1, hb2⟩ := ihb hk.2
    have hmap : ∀ (l : List R) (c : R), (l.map (· * c)).map R.val = (l.map R.val).map (· * c.val) := by
      intro l c; simp only [List.map_map]; rfl
    simp only [covGradEntry, R.mul_val, List.map_append, hmap, ha1, ha2, hb1, hb2, and_self]

example : (covGradEntry (.mul (.const (r 3)) (.ess (r 1) (r 2))) .lower [r 1, r 5] [r 1, r 5]).2.map R.val
    = (covGradEntry (.mul (.const (r 3)) (.ess (r 1) (r 2))) .diag [r 1, r 5] [r 1, r 5]).2.map R.val :=
  (covGrad_coincident _ (by simp [GoodLeaves, gradLeaf]) _).2

-- @site ExpSineSquaredKernel::covariance_with_gradient
/-- in particular the two ESS slices at a pair of coincident points are `0` (finite) -/
theorem ess_grad_coincident (l p : R) (x : List R) :
    (covGradEntry (.ess l p) .lower x x).2.map R.val = [0, 0] := by
  rw [(covGrad_coincident (.ess l p) rfl x).2]
  simp only [covGradEntry, List.map_cons, List.map_nil, lit0]

/-! ### leaves whose gradient is NOT the derivative -/

-- @site WhiteKernel::covariance_with_gradient
/-- White: `covariance ≡ 0` (derivative 0 in `ln σ`), but the slice has `σ` on the diagonal -/
theorem white_grad_counterexample :
    (∀ t : ℝ, (cov (.white ⟨Real.exp t⟩) [r 0] [r 0]).val = 0) ∧
    ((covGradEntry (.white (r 2)) .diag [r 0] [r 0]).2.getD 0 (r 0)).val = 2 := by
  constructor
  · intro t; simp only [cov, lit0]
  · rfl

-- @site SEardKernel::covariance_with_gradient
/-- SEard, one dimension, `ℓ = 1`, points `0` and `1`: `covariance = exp(-1/(2ℓ²))`, whose derivative in `ln ℓ` at
    `ℓ = 1` is `+exp(-1/2)`; the returned slice is `-2·exp(-1/2)` (the derivative in `ℓ` of the WRONG function
    `exp(-(a-b)²/ℓ²)`-like expression, with the opposite sign) -/
theorem seard_grad_counterexample :
    HasDerivAt (fun t : ℝ => (cov (.seard [⟨Real.exp t⟩]) [r 1] [r 0]).val) (Real.exp (-(1 / 2))) (Real.log 1) ∧
    ((covGradEntry (.seard [r 1]) .lower [r 1] [r 0]).2.getD 0 (r 0)).val = -2 * Real.exp (-(1 / 2)) := by
  constructor
  · have hfun : (fun t : ℝ => (cov (.seard [⟨Real.exp t⟩]) [r 1] [r 0]).val)
        = fun t => Real.exp (-(1 / 2) * (1 / (Real.exp t) ^ 2)) := by
      funext t
      simp only [cov, seardSum, R.exp_val, R.mul_val, R.neg_val, R.add_val, R.div_val, R.sub_val, lit0, lit05]
      congr 1
      simp only [sub_zero, zero_add]
      ring
    rw [hfun]
    have h := ((hasDerivAt_div_exp_sq 1 (Real.log 1)).const_mul (-(1 / 2) : ℝ)).exp
    refine h.congr_deriv ?_
    simp only [Real.log_one, Real.exp_zero]
    norm_num
  · simp only [covGradEntry, seardGrad, seardD2, List.getD_cons_zero, List.take, List.length, List.foldl, List.zip,
      List.zipWith, mulAdd, R.exp_val, R.mul_val, R.neg_val, R.add_val, R.div_val, R.sub_val, R.powi_val, lit0, lit2]
    norm_num

-- @site MaternKernel::covariance_with_gradient
/-- Matérn (`_partial`: what the code computes, not a derivative).  The returned slices are FORWARD DIFFERENCE
    QUOTIENTS of `autocov` with step `1e-10` in each log-parameter, the other parameter passing through `exp ∘ ln`:
    `((K(exp(ln ν + h), exp(ln ℓ)) − K(ν, ℓ)) / h, (K(exp(ln ν), exp(ln ℓ + h)) − K(ν, ℓ)) / h)`, `h = 1e-10`.
    The full statement `HasDerivAt (fun t ↦ cov (matern (exp t) ℓ) x y) (slice 0) (ln ν)` is NOT provable: a difference
    quotient at a fixed step is not the derivative (and on binary64 it carries an absolute error of about
    `2⁻⁵²·|K| / 1e-10 ≈ 2e-6`, confirmed by the correspondence run). -/
theorem matern_grad_partial (nu l : R) (x y : List R) :
    (covGradEntry (.matern nu l) .lower x y).2 =
      [ (maternCov (RealLike.exp (RealLike.ln nu + maternEps)) (RealLike.exp (RealLike.ln l)) x y
          - maternCov nu l x y) / maternEps,
        (maternCov (RealLike.exp (RealLike.ln nu)) (RealLike.exp (RealLike.ln l + maternEps)) x y
          - maternCov nu l x y) / maternEps ] := by
  rfl

end C16

#print axioms C16.const_grad
#print axioms C16.rbf_grad
#print axioms C16.ess_grad_l
#print axioms C16.ess_grad_p
#print axioms C16.rq_grad_s
#print axioms C16.rq_grad_a
#print axioms C16.parameters_getD
#print axioms C16.leaf_all_pos
#print axioms C16.grad_hasDerivAt
#print axioms C16.covWithGrad_grad_hasDerivAt
#print axioms C16.covGrad_coincident
#print axioms C16.ess_grad_coincident
#print axioms C16.white_grad_counterexample
#print axioms C16.seard_grad_counterexample
#print axioms C16.matern_grad_partial
