import RvModel.RealInst
import RvModel.Gen.Defs
import RvModel.Lemmas.C05
/-!
  C05 (group A): conjugate posteriors of the Bernoulli / Poisson / Categorical likelihoods are exactly
  Bayes' rule.  Carrier `R` (exact reals).  `lgamma`/`lnBeta` only enter as opaque terms.

  For every pair:  `…_posterior_valid` (the `.expect` in `posterior` never fires; closed-form update),
  `…_posterior_empty`, `…_posterior_data_eq_stat`, `…_posterior_sequential`, `…_bayes`.
-/
open Real C05L

namespace C05

/-! ## Beta – Bernoulli -/

-- @site Beta.posterior_bool_Bernoulli
/-- sufficient-statistic arm: with a valid prior and a consistent statistic (`k ≤ n`) the checked constructor
    succeeds and the posterior is `Beta(α + k, β + (n − k))` -/
theorem BetaBernoulli_posterior_valid_stat (pr : Gen.Beta R) (hpr : BetaValid pr) (s : Gen.BernoulliSuffStat R)
    (_hs : s.k ≤ s.n) :
    Gen.Beta.new (pr.alpha + RealLike.ofNatR s.k) (pr.beta + RealLike.ofNatR (s.n - s.k))
        = .ok ⟨pr.alpha + RealLike.ofNatR s.k, pr.beta + RealLike.ofNatR (s.n - s.k)⟩
    ∧ Gen.Beta.posterior_bool_Bernoulli pr (.suffStat s)
        = ⟨pr.alpha + RealLike.ofNatR s.k, pr.beta + RealLike.ofNatR (s.n - s.k)⟩
    ∧ BetaValid (Gen.Beta.posterior_bool_Bernoulli pr (.suffStat s)) := by
  have ha : 0 < (pr.alpha + RealLike.ofNatR s.k : R).val := by
    have : (0 : ℝ) ≤ (s.k : ℝ) := by positivity
    simp only [R.add_val, R.ofNatR_val]; linarith [hpr.1]
  have hb : 0 < (pr.beta + RealLike.ofNatR (s.n - s.k) : R).val := by
    have : (0 : ℝ) ≤ ((s.n - s.k : ℕ) : ℝ) := by positivity
    simp only [R.add_val, R.ofNatR_val]; linarith [hpr.2]
  have hnew := Beta_new_ok _ _ ha hb
  have hpost : Gen.Beta.posterior_bool_Bernoulli pr (.suffStat s)
      = ⟨pr.alpha + RealLike.ofNatR s.k, pr.beta + RealLike.ofNatR (s.n - s.k)⟩ := by
    simp only [Gen.Beta.posterior_bool_Bernoulli, Gen.BernoulliSuffStat.get_n, Gen.BernoulliSuffStat.get_k,
      Gen.Beta.get_alpha, Gen.Beta.get_beta, hnew]
  exact ⟨hnew, hpost, by rw [hpost]; exact ⟨ha, hb⟩⟩

-- @site Beta.posterior_bool_Bernoulli
/-- data arm: posterior is `Beta(α + #true, β + #false)`; the `.expect` never fires -/
theorem BetaBernoulli_posterior_valid (pr : Gen.Beta R) (hpr : BetaValid pr) (xs : List Bool) :
    Gen.Beta.new (pr.alpha + RealLike.ofNatR (xs.count true)) (pr.beta + RealLike.ofNatR (xs.count false))
        = .ok ⟨pr.alpha + RealLike.ofNatR (xs.count true), pr.beta + RealLike.ofNatR (xs.count false)⟩
    ∧ Gen.Beta.posterior_bool_Bernoulli pr (.data xs)
        = ⟨pr.alpha + RealLike.ofNatR (xs.count true), pr.beta + RealLike.ofNatR (xs.count false)⟩
    ∧ BetaValid (Gen.Beta.posterior_bool_Bernoulli pr (.data xs)) := by
  have h := BetaBernoulli_posterior_valid_stat pr hpr (bernStat xs)
    (by rw [bernStat_eq]; exact List.count_le_length)
  have e : Gen.Beta.posterior_bool_Bernoulli pr (.data xs)
      = Gen.Beta.posterior_bool_Bernoulli pr (.suffStat (bernStat xs)) := rfl
  rw [e]
  simpa only [bernStat_eq, count_false_eq] using h

-- @site Beta.posterior_bool_Bernoulli
/-- closed form = the textbook update `α' = α + Σxᵢ`, `β' = β + n − Σxᵢ` -/
theorem BetaBernoulli_posterior_params (pr : Gen.Beta R) (hpr : BetaValid pr) (xs : List Bool) :
    (Gen.Beta.posterior_bool_Bernoulli pr (.data xs)).alpha.val = pr.alpha.val + (xs.count true : ℝ)
    ∧ (Gen.Beta.posterior_bool_Bernoulli pr (.data xs)).beta.val
        = pr.beta.val + ((xs.length : ℝ) - (xs.count true : ℝ)) := by
  rw [(BetaBernoulli_posterior_valid pr hpr xs).2.1]
  have := count_tf xs
  refine ⟨by simp, ?_⟩
  simp only [R.add_val, R.ofNatR_val]
  rw [← this]; push_cast; ring

example : BetaValid (⟨⟨0.5⟩, ⟨1.2⟩⟩ : Gen.Beta R) := by constructor <;> norm_num

-- @site Beta.posterior_bool_Bernoulli
theorem BetaBernoulli_posterior_empty (pr : Gen.Beta R) (hpr : BetaValid pr) :
    Gen.Beta.posterior_bool_Bernoulli pr (.data []) = pr := by
  rw [(BetaBernoulli_posterior_valid pr hpr []).2.1]
  cases pr with
  | mk a b =>
    simp only [List.count_nil, Gen.Beta.mk.injEq]
    exact ⟨R.ext' (by simp), R.ext' (by simp)⟩

-- @site Beta.posterior_bool_Bernoulli
theorem BetaBernoulli_posterior_data_eq_stat (pr : Gen.Beta R) (xs : List Bool) :
    Gen.Beta.posterior_bool_Bernoulli pr (.data xs)
      = Gen.Beta.posterior_bool_Bernoulli pr
          (.suffStat (xs.foldl (fun st x => Gen.BernoulliSuffStat.observe_bool st x) Gen.BernoulliSuffStat.new)) := rfl

-- @site Beta.posterior_from_suffstat_bool_Bernoulli
theorem BetaBernoulli_posterior_from_suffstat (pr : Gen.Beta R) (s : Gen.BernoulliSuffStat R) :
    Gen.Beta.posterior_from_suffstat_bool_Bernoulli pr s = Gen.Beta.posterior_bool_Bernoulli pr (.suffStat s) := rfl

-- @site Beta.posterior_bool_Bernoulli
theorem BetaBernoulli_posterior_sequential (pr : Gen.Beta R) (hpr : BetaValid pr) (xs ys : List Bool) :
    Gen.Beta.posterior_bool_Bernoulli (Gen.Beta.posterior_bool_Bernoulli pr (.data xs)) (.data ys)
      = Gen.Beta.posterior_bool_Bernoulli pr (.data (xs ++ ys)) := by
  have h1 := BetaBernoulli_posterior_valid pr hpr xs
  rw [(BetaBernoulli_posterior_valid _ h1.2.2 ys).2.1, h1.2.1, (BetaBernoulli_posterior_valid pr hpr (xs ++ ys)).2.1]
  simp only [Gen.Beta.mk.injEq, List.count_append]
  exact ⟨R.ext' (by simp; ring), R.ext' (by simp; ring)⟩

-- @site Beta.ln_f_Bernoulli
/-- Bayes' rule in log form: all four terms are generated code -/
theorem BetaBernoulli_bayes (pr : Gen.Beta R) (hpr : BetaValid pr) (xs : List Bool) (θ : Gen.Bernoulli R)
    (_h0 : 0 < θ.p.val) (_h1 : θ.p.val < 1) :
    (Gen.Beta.ln_f_Bernoulli (Gen.Beta.posterior_bool_Bernoulli pr (.data xs)) θ).val
      = (Gen.Beta.ln_f_Bernoulli pr θ).val + (xs.map (fun x => (Gen.Bernoulli.ln_f_bool θ x).val)).sum
        - (Gen.Beta.ln_m_bool_Bernoulli pr (.data xs)).val := by
  have hp := (BetaBernoulli_posterior_valid pr hpr xs).2.1
  simp only [Gen.Beta.ln_m_bool_Bernoulli, Gen.Beta.ln_m_with_cache_bool_Bernoulli, Gen.Beta.ln_m_cache_bool_Bernoulli,
    hp, Gen.Beta.ln_f_Bernoulli, Gen.Beta.ln_f_real, Gen.Beta.ln_beta_ab, Gen.Beta.get_alpha, Gen.Beta.get_beta,
    Gen.Bernoulli.get_p, bern_loglik_bool, mulAdd, R.add_val, R.sub_val, R.mul_val, R.ln_val, R.lnBeta_val,
    R.ofNatR_val, lit1]
  ring

example : ∃ θ : Gen.Bernoulli R, 0 < θ.p.val ∧ θ.p.val < 1 := ⟨⟨⟨0.3⟩⟩, by norm_num, by norm_num⟩

/-! ## Gamma – Poisson -/

-- @site Gamma.posterior_nat_Poisson
/-- sufficient-statistic arm (statistic valid: `sum ≥ 0`): posterior is `Gamma(shape + sum, rate + n)` -/
theorem GammaPoisson_posterior_valid_stat (pr : Gen.Gamma R) (hpr : GammaValid pr) (s : Gen.PoissonSuffStat R)
    (hs : 0 ≤ s.sum.val) :
    Gen.Gamma.new (pr.shape + s.sum) (pr.rate + RealLike.ofNatR s.n)
        = .ok ⟨pr.shape + s.sum, pr.rate + RealLike.ofNatR s.n⟩
    ∧ Gen.Gamma.posterior_nat_Poisson pr (.suffStat s) = ⟨pr.shape + s.sum, pr.rate + RealLike.ofNatR s.n⟩
    ∧ GammaValid (Gen.Gamma.posterior_nat_Poisson pr (.suffStat s)) := by
  have ha : 0 < (pr.shape + s.sum : R).val := by
    simp only [R.add_val]; linarith [hpr.1]
  have hb : 0 < (pr.rate + RealLike.ofNatR s.n : R).val := by
    have : (0 : ℝ) ≤ (s.n : ℝ) := by positivity
    simp only [R.add_val, R.ofNatR_val]; linarith [hpr.2]
  have hnew := Gamma_new_ok _ _ ha hb
  have hpost : Gen.Gamma.posterior_nat_Poisson pr (.suffStat s)
      = ⟨pr.shape + s.sum, pr.rate + RealLike.ofNatR s.n⟩ := by
    simp only [Gen.Gamma.posterior_nat_Poisson, Gen.PoissonSuffStat.get_n, Gen.PoissonSuffStat.get_sum,
      Gen.Gamma.get_shape, Gen.Gamma.get_rate, hnew]
  exact ⟨hnew, hpost, by rw [hpost]; exact ⟨ha, hb⟩⟩

-- @site Gamma.posterior_nat_Poisson
theorem GammaPoisson_posterior_data_eq_stat (pr : Gen.Gamma R) (xs : List Nat) :
    Gen.Gamma.posterior_nat_Poisson pr (.data xs)
      = Gen.Gamma.posterior_nat_Poisson pr
          (.suffStat (xs.foldl (fun st x => Gen.PoissonSuffStat.observe_nat st x) Gen.PoissonSuffStat.new)) := rfl

-- @site Gamma.posterior_from_suffstat_nat_Poisson
theorem GammaPoisson_posterior_from_suffstat (pr : Gen.Gamma R) (s : Gen.PoissonSuffStat R) :
    Gen.Gamma.posterior_from_suffstat_nat_Poisson pr s = Gen.Gamma.posterior_nat_Poisson pr (.suffStat s) := rfl

-- @site Gamma.posterior_nat_Poisson
/-- data arm: the `.expect` never fires, and the update is the textbook one:
    `shape' = shape + Σxᵢ`, `rate' = rate + n` -/
theorem GammaPoisson_posterior_valid (pr : Gen.Gamma R) (hpr : GammaValid pr) (xs : List Nat) :
    Gen.Gamma.new (pr.shape + (poisStat xs).sum) (pr.rate + RealLike.ofNatR xs.length)
        = .ok ⟨pr.shape + (poisStat xs).sum, pr.rate + RealLike.ofNatR xs.length⟩
    ∧ Gen.Gamma.posterior_nat_Poisson pr (.data xs)
        = ⟨pr.shape + (poisStat xs).sum, pr.rate + RealLike.ofNatR xs.length⟩
    ∧ GammaValid (Gen.Gamma.posterior_nat_Poisson pr (.data xs))
    ∧ (Gen.Gamma.posterior_nat_Poisson pr (.data xs)).shape.val = pr.shape.val + ((xs.sum : ℕ) : ℝ)
    ∧ (Gen.Gamma.posterior_nat_Poisson pr (.data xs)).rate.val = pr.rate.val + (xs.length : ℝ) := by
  obtain ⟨hn, hs, _⟩ := poisStat_facts xs
  have h := GammaPoisson_posterior_valid_stat pr hpr (poisStat xs) (by rw [hs]; positivity)
  have e : Gen.Gamma.posterior_nat_Poisson pr (.data xs)
      = Gen.Gamma.posterior_nat_Poisson pr (.suffStat (poisStat xs)) := rfl
  rw [e]
  rw [hn] at h
  refine ⟨h.1, h.2.1, h.2.2, ?_, ?_⟩
  · rw [h.2.1]; simp only [R.add_val, hs]
  · rw [h.2.1]; simp only [R.add_val, R.ofNatR_val]

example : GammaValid (⟨⟨2⟩, ⟨1.2⟩⟩ : Gen.Gamma R) := by constructor <;> norm_num

-- @site Gamma.posterior_nat_Poisson
theorem GammaPoisson_posterior_empty (pr : Gen.Gamma R) (hpr : GammaValid pr) :
    Gen.Gamma.posterior_nat_Poisson pr (.data []) = pr := by
  obtain ⟨_, hp, _, h1, h2⟩ := GammaPoisson_posterior_valid pr hpr []
  cases pr with
  | mk a b =>
    rw [hp] at h1 h2 ⊢
    simp only [Gen.Gamma.mk.injEq]
    exact ⟨R.ext' (by simpa using h1), R.ext' (by simp)⟩

-- @site Gamma.posterior_nat_Poisson
theorem GammaPoisson_posterior_sequential (pr : Gen.Gamma R) (hpr : GammaValid pr) (xs ys : List Nat) :
    (Gen.Gamma.posterior_nat_Poisson (Gen.Gamma.posterior_nat_Poisson pr (.data xs)) (.data ys)).shape.val
      = (Gen.Gamma.posterior_nat_Poisson pr (.data (xs ++ ys))).shape.val
    ∧ (Gen.Gamma.posterior_nat_Poisson (Gen.Gamma.posterior_nat_Poisson pr (.data xs)) (.data ys)).rate.val
      = (Gen.Gamma.posterior_nat_Poisson pr (.data (xs ++ ys))).rate.val := by
  obtain ⟨_, _, hv, a1, b1⟩ := GammaPoisson_posterior_valid pr hpr xs
  obtain ⟨_, _, _, a2, b2⟩ := GammaPoisson_posterior_valid _ hv ys
  obtain ⟨_, _, _, a3, b3⟩ := GammaPoisson_posterior_valid pr hpr (xs ++ ys)
  rw [a2, b2, a1, b1, a3, b3]
  simp only [List.sum_append, List.length_append]
  push_cast
  exact ⟨by ring, by ring⟩

-- @site Gamma.ln_f_Poisson
/-- Bayes' rule in log form; `Gen.ln_fact` stays opaque: the likelihood and `ln_m` contain the same
    `ln_fact xᵢ` terms, which cancel -/
theorem GammaPoisson_bayes (pr : Gen.Gamma R) (hpr : GammaValid pr) (xs : List Nat) (θ : Gen.Poisson R)
    (_hθ : 0 < θ.rate.val) :
    (Gen.Gamma.ln_f_Poisson (Gen.Gamma.posterior_nat_Poisson pr (.data xs)) θ).val
      = (Gen.Gamma.ln_f_Poisson pr θ).val + (xs.map (fun x => (Gen.Poisson.ln_f_nat θ x).val)).sum
        - (Gen.Gamma.ln_m_nat_Poisson pr (.data xs)).val := by
  obtain ⟨hn, hs, hf⟩ := poisStat_facts xs
  have hp := (GammaPoisson_posterior_valid_stat pr hpr (poisStat xs) (by rw [hs]; positivity)).2.1
  have e1 : Gen.Gamma.posterior_nat_Poisson pr (.data xs)
      = Gen.Gamma.posterior_nat_Poisson pr (.suffStat (poisStat xs)) := rfl
  have e2 : Gen.Gamma.ln_m_nat_Poisson pr (.data xs) = Gen.Gamma.ln_m_nat_Poisson pr (.suffStat (poisStat xs)) := rfl
  rw [e1, e2]
  simp only [Gen.Gamma.ln_m_nat_Poisson, Gen.Gamma.ln_m_with_cache_nat_Poisson, Gen.Gamma.ln_m_cache_nat_Poisson, hp,
    Gen.Gamma.ln_f_Poisson, Gen.Poisson.mean_real, Gen.Gamma.ln_f_real, Gen.Gamma.ln_rate, Gen.Gamma.ln_gamma_shape,
    Gen.Gamma.get_shape, Gen.PoissonSuffStat.get_sum_ln_fact, pois_loglik, mulAdd, R.add_val,
    R.sub_val, R.mul_val, R.neg_val, R.ln_val, R.lgamma_val, R.ofNatR_val, lit1, hn, hs, hf]
  ring

example : ∃ θ : Gen.Poisson R, 0 < θ.rate.val := ⟨⟨⟨3.5⟩⟩, by norm_num⟩

/-! ## UnitPowerLaw – Bernoulli   (`UnitPowerLaw(α)` is `Beta(α, 1)`; the posterior is a `Beta`) -/

-- @site UnitPowerLaw.posterior_bool_Bernoulli
/-- sufficient-statistic arm (`k ≤ n`): posterior is `Beta(α + k, 1 + (n − k))`, the `.expect` never fires -/
theorem UnitPowerLawBernoulli_posterior_valid_stat (pr : Gen.UnitPowerLaw R) (hpr : UnitPowerLawValid pr)
    (s : Gen.BernoulliSuffStat R) (_hs : s.k ≤ s.n) :
    Gen.Beta.new (pr.alpha + RealLike.ofNatR s.k) (RealLike.ofNatR (1 + (s.n - s.k)))
        = .ok ⟨pr.alpha + RealLike.ofNatR s.k, RealLike.ofNatR (1 + (s.n - s.k))⟩
    ∧ Gen.UnitPowerLaw.posterior_bool_Bernoulli pr (.suffStat s)
        = ⟨pr.alpha + RealLike.ofNatR s.k, RealLike.ofNatR (1 + (s.n - s.k))⟩
    ∧ BetaValid (Gen.UnitPowerLaw.posterior_bool_Bernoulli pr (.suffStat s)) := by
  have ha : 0 < (pr.alpha + RealLike.ofNatR s.k : R).val := by
    have : (0 : ℝ) ≤ (s.k : ℝ) := by positivity
    have := hpr
    simp only [UnitPowerLawValid] at this
    simp only [R.add_val, R.ofNatR_val]; linarith
  have hb : 0 < (RealLike.ofNatR (1 + (s.n - s.k)) : R).val := by
    simp only [R.ofNatR_val]; positivity
  have hnew := Beta_new_ok _ _ ha hb
  have hpost : Gen.UnitPowerLaw.posterior_bool_Bernoulli pr (.suffStat s)
      = ⟨pr.alpha + RealLike.ofNatR s.k, RealLike.ofNatR (1 + (s.n - s.k))⟩ := by
    simp only [Gen.UnitPowerLaw.posterior_bool_Bernoulli, Gen.BernoulliSuffStat.get_n, Gen.BernoulliSuffStat.get_k,
      Gen.UnitPowerLaw.get_alpha, hnew]
  exact ⟨hnew, hpost, by rw [hpost]; exact ⟨ha, hb⟩⟩

-- @site UnitPowerLaw.posterior_bool_Bernoulli
/-- data arm: posterior is `Beta(α + #true, 1 + #false)` = the textbook update of `Beta(α, 1)` -/
theorem UnitPowerLawBernoulli_posterior_valid (pr : Gen.UnitPowerLaw R) (hpr : UnitPowerLawValid pr) (xs : List Bool) :
    Gen.Beta.new (pr.alpha + RealLike.ofNatR (xs.count true)) (RealLike.ofNatR (1 + xs.count false))
        = .ok ⟨pr.alpha + RealLike.ofNatR (xs.count true), RealLike.ofNatR (1 + xs.count false)⟩
    ∧ Gen.UnitPowerLaw.posterior_bool_Bernoulli pr (.data xs)
        = ⟨pr.alpha + RealLike.ofNatR (xs.count true), RealLike.ofNatR (1 + xs.count false)⟩
    ∧ BetaValid (Gen.UnitPowerLaw.posterior_bool_Bernoulli pr (.data xs))
    ∧ (Gen.UnitPowerLaw.posterior_bool_Bernoulli pr (.data xs)).alpha.val = pr.alpha.val + (xs.count true : ℝ)
    ∧ (Gen.UnitPowerLaw.posterior_bool_Bernoulli pr (.data xs)).beta.val = 1 + (xs.count false : ℝ) := by
  have h := UnitPowerLawBernoulli_posterior_valid_stat pr hpr (bernStat xs)
    (by rw [bernStat_eq]; exact List.count_le_length)
  have e : Gen.UnitPowerLaw.posterior_bool_Bernoulli pr (.data xs)
      = Gen.UnitPowerLaw.posterior_bool_Bernoulli pr (.suffStat (bernStat xs)) := rfl
  rw [e, bernStat_eq]
  simp only [bernStat_eq, count_false_eq] at h
  refine ⟨h.1, h.2.1, h.2.2, ?_, ?_⟩
  · rw [h.2.1]; simp
  · rw [h.2.1]; simp

example : UnitPowerLawValid (⟨⟨0.7⟩⟩ : Gen.UnitPowerLaw R) := by simp only [UnitPowerLawValid]; norm_num

-- @site UnitPowerLaw.posterior_bool_Bernoulli
/-- no data: the posterior is `Beta(α, 1)`, whose density (generated `Beta.ln_f`) is the prior's density
    (generated `UnitPowerLaw.ln_f`) at every `p`; uses `Γ(α+1) = αΓ(α)` -/
theorem UnitPowerLawBernoulli_posterior_empty (pr : Gen.UnitPowerLaw R) (hpr : UnitPowerLawValid pr)
    (θ : Gen.Bernoulli R) :
    (Gen.UnitPowerLaw.posterior_bool_Bernoulli pr (.data [])).alpha.val = pr.alpha.val
    ∧ (Gen.UnitPowerLaw.posterior_bool_Bernoulli pr (.data [])).beta.val = 1
    ∧ (Gen.Beta.ln_f_Bernoulli (Gen.UnitPowerLaw.posterior_bool_Bernoulli pr (.data [])) θ).val
        = (Gen.UnitPowerLaw.ln_f_Bernoulli pr θ).val := by
  obtain ⟨_, hp, _, ha, hb⟩ := UnitPowerLawBernoulli_posterior_valid pr hpr []
  have hα : 0 < pr.alpha.val := hpr
  refine ⟨by simpa using ha, by simpa using hb, ?_⟩
  have hB : Real.log (Real.Gamma pr.alpha.val * Real.Gamma 1 / Real.Gamma (pr.alpha.val + 1))
      = -Real.log pr.alpha.val := by
    rw [Real.Gamma_add_one hα.ne', Real.Gamma_one, mul_one,
      show Real.Gamma pr.alpha.val / (pr.alpha.val * Real.Gamma pr.alpha.val) = pr.alpha.val⁻¹ by
        have := (Real.Gamma_pos_of_pos hα).ne'
        field_simp,
      Real.log_inv]
  rw [hp]
  simp only [Gen.Beta.ln_f_Bernoulli, Gen.Beta.ln_f_real, Gen.Beta.ln_beta_ab, Gen.UnitPowerLaw.ln_f_Bernoulli,
    Gen.UnitPowerLaw.ln_f_real, Gen.UnitPowerLaw.alpha_ln, Gen.Bernoulli.get_p, mulAdd, List.count_nil, R.add_val,
    R.sub_val, R.mul_val, R.ln_val, R.lnBeta_val, R.ofNatR_val, lit1, Nat.cast_zero, Nat.cast_one, add_zero, hB]
  ring

-- @site UnitPowerLaw.posterior_bool_Bernoulli
theorem UnitPowerLawBernoulli_posterior_data_eq_stat (pr : Gen.UnitPowerLaw R) (xs : List Bool) :
    Gen.UnitPowerLaw.posterior_bool_Bernoulli pr (.data xs)
      = Gen.UnitPowerLaw.posterior_bool_Bernoulli pr
          (.suffStat (xs.foldl (fun st x => Gen.BernoulliSuffStat.observe_bool st x) Gen.BernoulliSuffStat.new)) := rfl

-- @site UnitPowerLaw.posterior_from_suffstat_bool_Bernoulli
theorem UnitPowerLawBernoulli_posterior_from_suffstat (pr : Gen.UnitPowerLaw R) (s : Gen.BernoulliSuffStat R) :
    Gen.UnitPowerLaw.posterior_from_suffstat_bool_Bernoulli pr s
      = Gen.UnitPowerLaw.posterior_bool_Bernoulli pr (.suffStat s) := rfl

-- @site UnitPowerLaw.posterior_bool_Bernoulli
/-- updating on `xs` (giving a `Beta`) and then (Beta–Bernoulli) on `ys` = updating once on `xs ++ ys` -/
theorem UnitPowerLawBernoulli_posterior_sequential (pr : Gen.UnitPowerLaw R) (hpr : UnitPowerLawValid pr)
    (xs ys : List Bool) :
    Gen.Beta.posterior_bool_Bernoulli (Gen.UnitPowerLaw.posterior_bool_Bernoulli pr (.data xs)) (.data ys)
      = Gen.UnitPowerLaw.posterior_bool_Bernoulli pr (.data (xs ++ ys)) := by
  have h1 := UnitPowerLawBernoulli_posterior_valid pr hpr xs
  rw [(BetaBernoulli_posterior_valid _ h1.2.2.1 ys).2.1, h1.2.1,
    (UnitPowerLawBernoulli_posterior_valid pr hpr (xs ++ ys)).2.1]
  simp only [Gen.Beta.mk.injEq, List.count_append]
  exact ⟨R.ext' (by simp; ring), R.ext' (by simp; ring)⟩

-- @site UnitPowerLaw.ln_f_Bernoulli
/-- Bayes' rule in log form (posterior density = generated `Beta.ln_f`, prior density = generated
    `UnitPowerLaw.ln_f`) -/
theorem UnitPowerLawBernoulli_bayes (pr : Gen.UnitPowerLaw R) (hpr : UnitPowerLawValid pr) (xs : List Bool)
    (θ : Gen.Bernoulli R) (_h0 : 0 < θ.p.val) (_h1 : θ.p.val < 1) :
    (Gen.Beta.ln_f_Bernoulli (Gen.UnitPowerLaw.posterior_bool_Bernoulli pr (.data xs)) θ).val
      = (Gen.UnitPowerLaw.ln_f_Bernoulli pr θ).val + (xs.map (fun x => (Gen.Bernoulli.ln_f_bool θ x).val)).sum
        - (Gen.UnitPowerLaw.ln_m_bool_Bernoulli pr (.data xs)).val := by
  have hp := (UnitPowerLawBernoulli_posterior_valid pr hpr xs).2.1
  simp only [Gen.UnitPowerLaw.ln_m_bool_Bernoulli, Gen.UnitPowerLaw.ln_m_with_cache_bool_Bernoulli,
    Gen.UnitPowerLaw.ln_m_cache_bool_Bernoulli, hp, Gen.Beta.ln_f_Bernoulli, Gen.Beta.ln_f_real, Gen.Beta.ln_beta_ab,
    Gen.Beta.get_alpha, Gen.Beta.get_beta, Gen.UnitPowerLaw.ln_f_Bernoulli, Gen.UnitPowerLaw.ln_f_real,
    Gen.UnitPowerLaw.alpha_ln, Gen.Bernoulli.get_p, bern_loglik_bool, mulAdd, R.add_val, R.sub_val, R.mul_val,
    R.neg_val, R.ln_val, R.lnBeta_val, R.ofNatR_val, lit1]
  push_cast
  ring

/-! ## Dirichlet – Categorical -/

-- @site Dirichlet.posterior_nat_Categorical
/-- sufficient-statistic arm (statistic of the prior's dimension, counts ≥ 0): `Dirichlet::new` succeeds on
    `alphas + counts`, so the `.unwrap()` never fires; the update is the textbook `αᵢ' = αᵢ + cᵢ` -/
theorem DirichletCategorical_posterior_valid_stat (pr : Gen.Dirichlet R) (hpr : DirichletValid pr)
    (st : Gen.CategoricalSuffStat R) (hst : CatStatValid pr.alphas.length st) :
    Gen.Dirichlet.new (dirAlphas pr.alphas st.counts) = .ok ⟨dirAlphas pr.alphas st.counts⟩
    ∧ Gen.Dirichlet.posterior_nat_Categorical pr (.suffStat st) = ⟨dirAlphas pr.alphas st.counts⟩
    ∧ DirichletValid (Gen.Dirichlet.posterior_nat_Categorical pr (.suffStat st))
    ∧ (Gen.Dirichlet.posterior_nat_Categorical pr (.suffStat st)).alphas.map R.val
        = List.zipWith (fun a c => a + c) (pr.alphas.map R.val) (st.counts.map R.val) := by
  have hv := dirAlphas_valid pr.alphas st.counts hpr.1 hpr.2 hst.1 hst.2
  have hnew := Dirichlet_new_ok _ hv.1 hv.2
  have hp := dir_post_of_new pr st _ hnew
  refine ⟨hnew, hp, ?_, ?_⟩
  · rw [hp]; exact hv
  · rw [hp]; exact map_val_dirAlphas _ _

-- @site Dirichlet.posterior_nat_Categorical
theorem DirichletCategorical_posterior_data_eq_stat (pr : Gen.Dirichlet R) (xs : List Nat) :
    Gen.Dirichlet.posterior_nat_Categorical pr (.data xs)
      = Gen.Dirichlet.posterior_nat_Categorical pr
          (.suffStat (xs.foldl (fun st y => Gen.CategoricalSuffStat.observe_nat st y)
            (Gen.CategoricalSuffStat.new (Gen.Dirichlet.k pr)))) := rfl

-- @site Dirichlet.posterior_from_suffstat_nat_Categorical
theorem DirichletCategorical_posterior_from_suffstat (pr : Gen.Dirichlet R) (st : Gen.CategoricalSuffStat R) :
    Gen.Dirichlet.posterior_from_suffstat_nat_Categorical pr st
      = Gen.Dirichlet.posterior_nat_Categorical pr (.suffStat st) := rfl

-- @site Dirichlet.posterior_nat_Categorical
/-- data arm (`xᵢ < k`): never panics, posterior valid, `αᵢ' = αᵢ + #{j | xⱼ = i}` -/
theorem DirichletCategorical_posterior_valid (pr : Gen.Dirichlet R) (hpr : DirichletValid pr) (xs : List Nat)
    (_hxs : ∀ x ∈ xs, x < pr.alphas.length) :
    Gen.Dirichlet.new (dirAlphas pr.alphas (catStat pr.alphas.length xs).counts)
        = .ok ⟨dirAlphas pr.alphas (catStat pr.alphas.length xs).counts⟩
    ∧ Gen.Dirichlet.posterior_nat_Categorical pr (.data xs)
        = ⟨dirAlphas pr.alphas (catStat pr.alphas.length xs).counts⟩
    ∧ DirichletValid (Gen.Dirichlet.posterior_nat_Categorical pr (.data xs))
    ∧ (Gen.Dirichlet.posterior_nat_Categorical pr (.data xs)).alphas.map R.val
        = List.zipWith (fun a c => a + c) (pr.alphas.map R.val)
            ((List.range pr.alphas.length).map (fun i => (xs.count i : ℝ))) := by
  have e : Gen.Dirichlet.posterior_nat_Categorical pr (.data xs)
      = Gen.Dirichlet.posterior_nat_Categorical pr (.suffStat (catStat pr.alphas.length xs)) := rfl
  rw [e, ← catStat_counts]
  exact DirichletCategorical_posterior_valid_stat pr hpr _ (catStat_valid _ xs)

example : DirichletValid (⟨[⟨1⟩, ⟨2.5⟩, ⟨0.5⟩]⟩ : Gen.Dirichlet R) := by
  refine ⟨by simp, ?_⟩
  intro a ha
  simp only [List.mem_cons, List.not_mem_nil, or_false] at ha
  rcases ha with rfl | rfl | rfl <;> norm_num

-- @site Dirichlet.posterior_nat_Categorical
theorem DirichletCategorical_posterior_empty (pr : Gen.Dirichlet R) (hpr : DirichletValid pr) :
    (Gen.Dirichlet.posterior_nat_Categorical pr (.data [])).alphas.map R.val = pr.alphas.map R.val := by
  rw [(DirichletCategorical_posterior_valid pr hpr [] (by simp)).2.2.2]
  simp only [List.count_nil, Nat.cast_zero]
  exact zipWith_range_zero _ _ (by simp)

-- @site Dirichlet.posterior_nat_Categorical
theorem DirichletCategorical_posterior_sequential (pr : Gen.Dirichlet R) (hpr : DirichletValid pr) (xs ys : List Nat)
    (hxs : ∀ x ∈ xs, x < pr.alphas.length) (hys : ∀ x ∈ ys, x < pr.alphas.length) :
    (Gen.Dirichlet.posterior_nat_Categorical (Gen.Dirichlet.posterior_nat_Categorical pr (.data xs))
        (.data ys)).alphas.map R.val
      = (Gen.Dirichlet.posterior_nat_Categorical pr (.data (xs ++ ys))).alphas.map R.val := by
  obtain ⟨_, _, hv1, a1⟩ := DirichletCategorical_posterior_valid pr hpr xs hxs
  have hlen : (Gen.Dirichlet.posterior_nat_Categorical pr (.data xs)).alphas.length = pr.alphas.length := by
    have := congrArg List.length a1
    simpa [List.length_zipWith] using this
  obtain ⟨_, _, _, a2⟩ := DirichletCategorical_posterior_valid _ hv1 ys (by rw [hlen]; exact hys)
  obtain ⟨_, _, _, a3⟩ := DirichletCategorical_posterior_valid pr hpr (xs ++ ys)
    (by intro x hx; rcases List.mem_append.mp hx with h | h; exacts [hxs x h, hys x h])
  rw [a2, a3, a1, hlen, zipWith_range_add]
  simp only [List.count_append, Nat.cast_add]

-- @site Dirichlet.ln_f_Categorical
/-- Bayes' rule in log form at every Categorical `θ` of the prior's dimension (weights `exp ln_weights > 0`);
    data in the support (`xᵢ < k`).  All four terms are generated code, `lgamma` opaque. -/
theorem DirichletCategorical_bayes (pr : Gen.Dirichlet R) (hpr : DirichletValid pr) (xs : List Nat)
    (hxs : ∀ x ∈ xs, x < pr.alphas.length) (θ : Gen.Categorical R) (hθ : θ.ln_weights.length = pr.alphas.length) :
    (Gen.Dirichlet.ln_f_Categorical (Gen.Dirichlet.posterior_nat_Categorical pr (.data xs)) θ).val
      = (Gen.Dirichlet.ln_f_Categorical pr θ).val + (xs.map (fun x => (Gen.Categorical.ln_f_nat θ x).val)).sum
        - (Gen.Dirichlet.ln_m_nat_Categorical pr (.data xs)).val := by
  obtain ⟨_, _, _, hA'⟩ := DirichletCategorical_posterior_valid pr hpr xs hxs
  have e2 : Gen.Dirichlet.ln_m_nat_Categorical pr (.data xs)
      = Gen.Dirichlet.ln_m_nat_Categorical pr (.suffStat (catStat pr.alphas.length xs)) := rfl
  have hw : (List.map (fun w => RealLike.exp w) θ.ln_weights).map (fun xi => Real.log xi.val)
      = θ.ln_weights.map R.val := by
    simp [List.map_map, Function.comp, Real.log_exp]
  have hmm : ∀ l : List R, l.map (fun a => Real.log (Real.Gamma a.val))
      = (l.map R.val).map (fun v => Real.log (Real.Gamma v)) := by
    intro l; simp [List.map_map, Function.comp]
  have hl : (θ.ln_weights.map R.val).length = pr.alphas.length := by simp [hθ]
  simp only [Gen.Dirichlet.ln_f_Categorical, Gen.Categorical.weights]
  rw [dir_ln_f_val, dir_ln_f_val, e2, dir_ln_m_val, cat_loglik θ xs (by rw [hθ]; exact hxs), catStat_counts, catStat_n,
    hw, hmm, hmm pr.alphas, hA',
    zipWith_core _ _ _ (by simp [hθ]) (by simp [hθ]), zipWith_add_sum _ _ (by simp),
    counts_dot _ xs hxs _ hl, counts_sum _ xs hxs, List.map_zipWith]
  ring

example : ∃ θ : Gen.Categorical R, θ.ln_weights.length = 3 := ⟨⟨[⟨-1⟩, ⟨-2⟩, ⟨-0.5⟩]⟩, rfl⟩

/-! ## SymmetricDirichlet – Categorical   (`SymmetricDirichlet(α, k)` is `Dirichlet(α, …, α)`; posterior is a `Dirichlet`) -/

-- @site SymmetricDirichlet.posterior_nat_Categorical
theorem SymmetricDirichletCategorical_posterior_valid_stat (pr : Gen.SymmetricDirichlet R)
    (hpr : SymmetricDirichletValid pr) (st : Gen.CategoricalSuffStat R) (hst : CatStatValid pr.k st) :
    Gen.Dirichlet.new (symAlphas pr.alpha st.counts) = .ok ⟨symAlphas pr.alpha st.counts⟩
    ∧ Gen.SymmetricDirichlet.posterior_nat_Categorical pr (.suffStat st) = ⟨symAlphas pr.alpha st.counts⟩
    ∧ DirichletValid (Gen.SymmetricDirichlet.posterior_nat_Categorical pr (.suffStat st))
    ∧ (Gen.SymmetricDirichlet.posterior_nat_Categorical pr (.suffStat st)).alphas.map R.val
        = (st.counts.map R.val).map (fun c => pr.alpha.val + c) := by
  have hne : st.counts ≠ [] := by
    intro h; have := hst.1; rw [h] at this; exact hpr.1 this.symm
  have hv := symAlphas_valid pr.alpha st.counts hpr.2 hne hst.2
  have hnew := Dirichlet_new_ok _ hv.1 hv.2
  have hp := sym_post_of_new pr st _ hnew
  refine ⟨hnew, hp, ?_, ?_⟩
  · rw [hp]; exact hv
  · rw [hp]; exact map_val_symAlphas _ _

-- @site SymmetricDirichlet.posterior_nat_Categorical
theorem SymmetricDirichletCategorical_posterior_data_eq_stat (pr : Gen.SymmetricDirichlet R) (xs : List Nat) :
    Gen.SymmetricDirichlet.posterior_nat_Categorical pr (.data xs)
      = Gen.SymmetricDirichlet.posterior_nat_Categorical pr
          (.suffStat (xs.foldl (fun st y => Gen.CategoricalSuffStat.observe_nat st y)
            (Gen.CategoricalSuffStat.new (Gen.SymmetricDirichlet.get_k pr)))) := rfl

-- @site SymmetricDirichlet.posterior_from_suffstat_nat_Categorical
theorem SymmetricDirichletCategorical_posterior_from_suffstat (pr : Gen.SymmetricDirichlet R)
    (st : Gen.CategoricalSuffStat R) :
    Gen.SymmetricDirichlet.posterior_from_suffstat_nat_Categorical pr st
      = Gen.SymmetricDirichlet.posterior_nat_Categorical pr (.suffStat st) := rfl

-- @site SymmetricDirichlet.posterior_nat_Categorical
/-- data arm (`xᵢ < k`): never panics, posterior valid, `αᵢ' = α + #{j | xⱼ = i}` (textbook update) -/
theorem SymmetricDirichletCategorical_posterior_valid (pr : Gen.SymmetricDirichlet R)
    (hpr : SymmetricDirichletValid pr) (xs : List Nat) (_hxs : ∀ x ∈ xs, x < pr.k) :
    Gen.Dirichlet.new (symAlphas pr.alpha (catStat pr.k xs).counts)
        = .ok ⟨symAlphas pr.alpha (catStat pr.k xs).counts⟩
    ∧ Gen.SymmetricDirichlet.posterior_nat_Categorical pr (.data xs) = ⟨symAlphas pr.alpha (catStat pr.k xs).counts⟩
    ∧ DirichletValid (Gen.SymmetricDirichlet.posterior_nat_Categorical pr (.data xs))
    ∧ (Gen.SymmetricDirichlet.posterior_nat_Categorical pr (.data xs)).alphas.map R.val
        = (List.range pr.k).map (fun i => pr.alpha.val + (xs.count i : ℝ)) := by
  have e : Gen.SymmetricDirichlet.posterior_nat_Categorical pr (.data xs)
      = Gen.SymmetricDirichlet.posterior_nat_Categorical pr (.suffStat (catStat pr.k xs)) := rfl
  obtain ⟨h1, h2, h3, h4⟩ :=
    SymmetricDirichletCategorical_posterior_valid_stat pr hpr _ (catStat_valid pr.k xs)
  rw [e]
  refine ⟨h1, h2, h3, ?_⟩
  rw [h4, catStat_counts, List.map_map]
  rfl

example : SymmetricDirichletValid (⟨⟨0.5⟩, 3⟩ : Gen.SymmetricDirichlet R) := by
  refine ⟨by decide, ?_⟩; norm_num

-- @site SymmetricDirichlet.posterior_nat_Categorical
/-- no data: the posterior is `Dirichlet(α, …, α)` (k entries), i.e. the prior -/
theorem SymmetricDirichletCategorical_posterior_empty (pr : Gen.SymmetricDirichlet R)
    (hpr : SymmetricDirichletValid pr) :
    (Gen.SymmetricDirichlet.posterior_nat_Categorical pr (.data [])).alphas.map R.val
      = List.replicate pr.k pr.alpha.val := by
  rw [(SymmetricDirichletCategorical_posterior_valid pr hpr [] (by simp)).2.2.2]
  simp

-- @site SymmetricDirichlet.posterior_nat_Categorical
/-- updating on `xs` (giving a `Dirichlet`) and then (Dirichlet–Categorical) on `ys` = updating once on `xs ++ ys` -/
theorem SymmetricDirichletCategorical_posterior_sequential (pr : Gen.SymmetricDirichlet R)
    (hpr : SymmetricDirichletValid pr) (xs ys : List Nat) (hxs : ∀ x ∈ xs, x < pr.k) (hys : ∀ x ∈ ys, x < pr.k) :
    (Gen.Dirichlet.posterior_nat_Categorical (Gen.SymmetricDirichlet.posterior_nat_Categorical pr (.data xs))
        (.data ys)).alphas.map R.val
      = (Gen.SymmetricDirichlet.posterior_nat_Categorical pr (.data (xs ++ ys))).alphas.map R.val := by
  obtain ⟨_, _, hv1, a1⟩ := SymmetricDirichletCategorical_posterior_valid pr hpr xs hxs
  have hlen : (Gen.SymmetricDirichlet.posterior_nat_Categorical pr (.data xs)).alphas.length = pr.k := by
    have := congrArg List.length a1
    simpa using this
  obtain ⟨_, _, _, a2⟩ := DirichletCategorical_posterior_valid _ hv1 ys (by rw [hlen]; exact hys)
  obtain ⟨_, _, _, a3⟩ := SymmetricDirichletCategorical_posterior_valid pr hpr (xs ++ ys)
    (by intro x hx; rcases List.mem_append.mp hx with h | h; exacts [hxs x h, hys x h])
  rw [a2, a3, a1, hlen, List.zipWith_map, List.zipWith_self]
  simp only [List.count_append, Nat.cast_add]
  apply List.map_congr_left
  intro i _
  ring

-- @site SymmetricDirichlet.ln_f_Categorical
/-- Bayes' rule in log form: posterior density = generated `Dirichlet.ln_f`, prior density = generated
    `SymmetricDirichlet.ln_f`, marginal = generated `SymmetricDirichlet.ln_m` -/
theorem SymmetricDirichletCategorical_bayes (pr : Gen.SymmetricDirichlet R) (hpr : SymmetricDirichletValid pr)
    (xs : List Nat) (hxs : ∀ x ∈ xs, x < pr.k) (θ : Gen.Categorical R) (hθ : θ.ln_weights.length = pr.k) :
    (Gen.Dirichlet.ln_f_Categorical (Gen.SymmetricDirichlet.posterior_nat_Categorical pr (.data xs)) θ).val
      = (Gen.SymmetricDirichlet.ln_f_Categorical pr θ).val
        + (xs.map (fun x => (Gen.Categorical.ln_f_nat θ x).val)).sum
        - (Gen.SymmetricDirichlet.ln_m_nat_Categorical pr (.data xs)).val := by
  obtain ⟨_, hp, _, _⟩ := SymmetricDirichletCategorical_posterior_valid pr hpr xs hxs
  have hA' : (Gen.SymmetricDirichlet.posterior_nat_Categorical pr (.data xs)).alphas.map R.val
      = ((List.range pr.k).map (fun i => (xs.count i : ℝ))).map (fun c => pr.alpha.val + c) := by
    rw [hp, map_val_symAlphas, catStat_counts]
  have e2 : Gen.SymmetricDirichlet.ln_m_nat_Categorical pr (.data xs)
      = Gen.SymmetricDirichlet.ln_m_nat_Categorical pr (.suffStat (catStat pr.k xs)) := rfl
  have hw : (List.map (fun w => RealLike.exp w) θ.ln_weights).map (fun xi => Real.log xi.val)
      = θ.ln_weights.map R.val := by
    simp [List.map_map, Function.comp, Real.log_exp]
  have hmm : ∀ l : List R, l.map (fun a => Real.log (Real.Gamma a.val))
      = (l.map R.val).map (fun v => Real.log (Real.Gamma v)) := by
    intro l; simp [List.map_map, Function.comp]
  have hl : (θ.ln_weights.map R.val).length = pr.k := by simp [hθ]
  simp only [Gen.Dirichlet.ln_f_Categorical, Gen.SymmetricDirichlet.ln_f_Categorical, Gen.Categorical.weights]
  rw [dir_ln_f_val, sym_ln_f_val, e2, sym_ln_m_val, cat_loglik θ xs (by rw [hθ]; exact hxs), catStat_counts, catStat_n,
    hw, hmm, hA', zipWith_core_sym _ _ _ (by simp [hθ]), map_add_sum,
    counts_dot _ xs hxs _ hl, counts_sum _ xs hxs]
  simp only [List.length_map, List.length_range, List.map_map, Function.comp_def]
  ring

/-! ## other observation kinds: the integer-coded Bernoulli (`u8 … usize`, datum `x` read as `x = 1`) and the
    Boolean-coded Categorical (`bool`, datum read as index `0/1`) entry points are the ones above on recoded data,
    so every theorem of this file transfers -/

-- @site Beta.posterior_nat_Bernoulli
theorem BetaBernoulli_nat_eq_bool (pr : Gen.Beta R) (xs : List Nat) (s : Gen.BernoulliSuffStat R) :
    Gen.Beta.posterior_nat_Bernoulli pr (.data xs) = Gen.Beta.posterior_bool_Bernoulli pr (.data (xs.map (· == 1)))
    ∧ Gen.Beta.posterior_nat_Bernoulli pr (.suffStat s) = Gen.Beta.posterior_bool_Bernoulli pr (.suffStat s)
    ∧ (∀ c, Gen.Beta.ln_m_with_cache_nat_Bernoulli pr c (.data xs)
          = Gen.Beta.ln_m_with_cache_bool_Bernoulli pr c (.data (xs.map (· == 1))))
    ∧ Gen.Beta.ln_m_cache_nat_Bernoulli pr = Gen.Beta.ln_m_cache_bool_Bernoulli pr := by
  have h : Gen.Beta.posterior_nat_Bernoulli pr (.data xs)
      = Gen.Beta.posterior_bool_Bernoulli pr (.data (xs.map (· == 1))) := by
    simp only [Gen.Beta.posterior_nat_Bernoulli, Gen.Beta.posterior_bool_Bernoulli, List.foldl_map]
    rfl
  refine ⟨h, rfl, ?_, rfl⟩
  intro c
  simp only [Gen.Beta.ln_m_with_cache_nat_Bernoulli, Gen.Beta.ln_m_with_cache_bool_Bernoulli, h]

-- @site Bernoulli.ln_f_nat
theorem Bernoulli_ln_f_nat_eq_bool (θ : Gen.Bernoulli R) (x : Nat) :
    Gen.Bernoulli.ln_f_nat θ x = Gen.Bernoulli.ln_f_bool θ (x == 1) := rfl

-- @site UnitPowerLaw.posterior_nat_Bernoulli
theorem UnitPowerLawBernoulli_nat_eq_bool (pr : Gen.UnitPowerLaw R) (xs : List Nat) (s : Gen.BernoulliSuffStat R) :
    Gen.UnitPowerLaw.posterior_nat_Bernoulli pr (.data xs)
      = Gen.UnitPowerLaw.posterior_bool_Bernoulli pr (.data (xs.map (· == 1)))
    ∧ Gen.UnitPowerLaw.posterior_nat_Bernoulli pr (.suffStat s)
      = Gen.UnitPowerLaw.posterior_bool_Bernoulli pr (.suffStat s)
    ∧ (∀ c, Gen.UnitPowerLaw.ln_m_with_cache_nat_Bernoulli pr c (.data xs)
          = Gen.UnitPowerLaw.ln_m_with_cache_bool_Bernoulli pr c (.data (xs.map (· == 1))))
    ∧ Gen.UnitPowerLaw.ln_m_cache_nat_Bernoulli pr = Gen.UnitPowerLaw.ln_m_cache_bool_Bernoulli pr := by
  have h : Gen.UnitPowerLaw.posterior_nat_Bernoulli pr (.data xs)
      = Gen.UnitPowerLaw.posterior_bool_Bernoulli pr (.data (xs.map (· == 1))) := by
    simp only [Gen.UnitPowerLaw.posterior_nat_Bernoulli, Gen.UnitPowerLaw.posterior_bool_Bernoulli, List.foldl_map]
    rfl
  refine ⟨h, rfl, ?_, rfl⟩
  intro c
  simp only [Gen.UnitPowerLaw.ln_m_with_cache_nat_Bernoulli, Gen.UnitPowerLaw.ln_m_with_cache_bool_Bernoulli, h]

-- @site Dirichlet.posterior_bool_Categorical
theorem DirichletCategorical_bool_eq_nat (pr : Gen.Dirichlet R) (xs : List Bool) (st : Gen.CategoricalSuffStat R) :
    Gen.Dirichlet.posterior_bool_Categorical pr (.data xs)
      = Gen.Dirichlet.posterior_nat_Categorical pr (.data (xs.map (fun b => if b then 1 else 0)))
    ∧ Gen.Dirichlet.posterior_bool_Categorical pr (.suffStat st)
      = Gen.Dirichlet.posterior_nat_Categorical pr (.suffStat st)
    ∧ (∀ c, Gen.Dirichlet.ln_m_with_cache_bool_Categorical pr c (.data xs)
          = Gen.Dirichlet.ln_m_with_cache_nat_Categorical pr c (.data (xs.map (fun b => if b then 1 else 0))))
    ∧ Gen.Dirichlet.ln_m_cache_bool_Categorical pr = Gen.Dirichlet.ln_m_cache_nat_Categorical pr := by
  refine ⟨?_, rfl, ?_, rfl⟩
  · simp only [Gen.Dirichlet.posterior_bool_Categorical, Gen.Dirichlet.posterior_nat_Categorical, List.foldl_map]
    rfl
  · intro c
    simp only [Gen.Dirichlet.ln_m_with_cache_bool_Categorical, Gen.Dirichlet.ln_m_with_cache_nat_Categorical,
      List.foldl_map]
    rfl

-- @site SymmetricDirichlet.posterior_bool_Categorical
theorem SymmetricDirichletCategorical_bool_eq_nat (pr : Gen.SymmetricDirichlet R) (xs : List Bool)
    (st : Gen.CategoricalSuffStat R) :
    Gen.SymmetricDirichlet.posterior_bool_Categorical pr (.data xs)
      = Gen.SymmetricDirichlet.posterior_nat_Categorical pr (.data (xs.map (fun b => if b then 1 else 0)))
    ∧ Gen.SymmetricDirichlet.posterior_bool_Categorical pr (.suffStat st)
      = Gen.SymmetricDirichlet.posterior_nat_Categorical pr (.suffStat st)
    ∧ (∀ c, Gen.SymmetricDirichlet.ln_m_with_cache_bool_Categorical pr c (.data xs)
          = Gen.SymmetricDirichlet.ln_m_with_cache_nat_Categorical pr c
              (.data (xs.map (fun b => if b then 1 else 0))))
    ∧ Gen.SymmetricDirichlet.ln_m_cache_bool_Categorical pr = Gen.SymmetricDirichlet.ln_m_cache_nat_Categorical pr := by
  refine ⟨?_, rfl, ?_, rfl⟩
  · simp only [Gen.SymmetricDirichlet.posterior_bool_Categorical, Gen.SymmetricDirichlet.posterior_nat_Categorical,
      List.foldl_map]
    rfl
  · intro c
    simp only [Gen.SymmetricDirichlet.ln_m_with_cache_bool_Categorical,
      Gen.SymmetricDirichlet.ln_m_with_cache_nat_Categorical, List.foldl_map]
    rfl

-- @site Categorical.ln_f_bool
theorem Categorical_ln_f_bool_eq_nat (θ : Gen.Categorical R) (x : Bool) :
    Gen.Categorical.ln_f_bool θ x = Gen.Categorical.ln_f_nat θ (if x then 1 else 0) := rfl

/-! satisfiable hypotheses on the statistics -/
example : ((⟨5, 3⟩ : Gen.BernoulliSuffStat R)).k ≤ ((⟨5, 3⟩ : Gen.BernoulliSuffStat R)).n := by decide
example : 0 ≤ ((⟨4, ⟨9⟩, ⟨1.5⟩⟩ : Gen.PoissonSuffStat R)).sum.val := by norm_num
example : CatStatValid 3 (⟨4, [⟨1⟩, ⟨0⟩, ⟨3⟩]⟩ : Gen.CategoricalSuffStat R) := by
  refine ⟨rfl, ?_⟩
  intro c hc
  simp only [List.mem_cons, List.not_mem_nil, or_false] at hc
  rcases hc with rfl | rfl | rfl <;> norm_num
example : ∀ x ∈ [0, 2, 2, 1], x < 3 := by decide

end C05

#print axioms C05.BetaBernoulli_posterior_valid_stat
#print axioms C05.BetaBernoulli_posterior_valid
#print axioms C05.BetaBernoulli_posterior_params
#print axioms C05.BetaBernoulli_posterior_empty
#print axioms C05.BetaBernoulli_posterior_data_eq_stat
#print axioms C05.BetaBernoulli_posterior_from_suffstat
#print axioms C05.BetaBernoulli_posterior_sequential
#print axioms C05.BetaBernoulli_bayes
#print axioms C05.GammaPoisson_posterior_valid_stat
#print axioms C05.GammaPoisson_posterior_data_eq_stat
#print axioms C05.GammaPoisson_posterior_from_suffstat
#print axioms C05.GammaPoisson_posterior_valid
#print axioms C05.GammaPoisson_posterior_empty
#print axioms C05.GammaPoisson_posterior_sequential
#print axioms C05.GammaPoisson_bayes
#print axioms C05.UnitPowerLawBernoulli_posterior_valid_stat
#print axioms C05.UnitPowerLawBernoulli_posterior_valid
#print axioms C05.UnitPowerLawBernoulli_posterior_empty
#print axioms C05.UnitPowerLawBernoulli_posterior_data_eq_stat
#print axioms C05.UnitPowerLawBernoulli_posterior_from_suffstat
#print axioms C05.UnitPowerLawBernoulli_posterior_sequential
#print axioms C05.UnitPowerLawBernoulli_bayes
#print axioms C05.DirichletCategorical_posterior_valid_stat
#print axioms C05.DirichletCategorical_posterior_data_eq_stat
#print axioms C05.DirichletCategorical_posterior_from_suffstat
#print axioms C05.DirichletCategorical_posterior_valid
#print axioms C05.DirichletCategorical_posterior_empty
#print axioms C05.DirichletCategorical_posterior_sequential
#print axioms C05.DirichletCategorical_bayes
#print axioms C05.SymmetricDirichletCategorical_posterior_valid_stat
#print axioms C05.SymmetricDirichletCategorical_posterior_data_eq_stat
#print axioms C05.SymmetricDirichletCategorical_posterior_from_suffstat
#print axioms C05.SymmetricDirichletCategorical_posterior_valid
#print axioms C05.SymmetricDirichletCategorical_posterior_empty
#print axioms C05.SymmetricDirichletCategorical_posterior_sequential
#print axioms C05.SymmetricDirichletCategorical_bayes
#print axioms C05.BetaBernoulli_nat_eq_bool
#print axioms C05.Bernoulli_ln_f_nat_eq_bool
#print axioms C05.UnitPowerLawBernoulli_nat_eq_bool
#print axioms C05.DirichletCategorical_bool_eq_nat
#print axioms C05.SymmetricDirichletCategorical_bool_eq_nat
#print axioms C05.Categorical_ln_f_bool_eq_nat
