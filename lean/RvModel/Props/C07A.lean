import RvModel.RealInst
import RvModel.Gen.Defs
import RvModel.Lemmas.C07
import Mathlib.Analysis.SpecialFunctions.Log.Basic
import Mathlib.Tactic.FieldSimp
import Mathlib.Tactic.Ring
import Mathlib.Tactic.Linarith
/-!
  C07 (part A): GaussianSuffStat (Welford), BernoulliSuffStat, PoissonSuffStat, BetaSuffStat.

  For every statistic: an abstraction relation `Abs<Stat> s d` ("`s` is the statistic of the data `d`", closed
  forms, order-free), preservation by the generated `new / observe / forget`, permutation invariance,
  uniqueness, and — through the generic argument of `Lemmas/C07.lean` (`C07.Refines`) — every legal history
  of `observe / forget / observe_many / forget_many` ends in `Abs s (remaining data)`; corollaries: order
  independence, agreement of all entry points, `n = |data|`, forgetting everything gives exactly `new`.
  Then `ln_f_stat θ s = Σ_{x ∈ d} ln_f θ x` (both sides generated).

  Data are `List ℝ` (real kinds), `List Bool` / `List ℕ` (integer kinds); observations are `R` / `Bool` / `ℕ`.
-/
set_option linter.unusedSimpArgs false
set_option linter.unnecessarySeqFocus false
open Real

namespace C07

/-! ## Gaussian (Welford update / downdate) -/

/-- `s` is the Gaussian statistic of the data `d`: `n = |d|`, `mean = Σd/n` (0 if `n = 0`), `sx = Σ (x-mean)²` -/
def AbsGaussian (s : Gen.GaussianSuffStat R) (d : List ℝ) : Prop :=
  s.n = d.length ∧ s.mean.val = gmean d ∧ s.sx.val = gsx d

/-- `AbsGaussian` in the long form: mean only constrained when `n > 0`, `0` by convention when `n = 0` -/
-- @site GaussianSuffStat.from_parts_unchecked
theorem AbsGaussian_iff (s : Gen.GaussianSuffStat R) (d : List ℝ) :
    AbsGaussian s d ↔ s.n = d.length ∧ (0 < d.length → s.mean.val = d.sum / d.length) ∧
      (d.length = 0 → s.mean.val = 0) ∧ s.sx.val = (d.map (fun x => (x - s.mean.val) ^ 2)).sum := by
  constructor
  · rintro ⟨hn, hm, hs⟩
    refine ⟨hn, fun _ => hm, fun h0 => ?_, by rw [hs, gsx, hm]⟩
    rw [hm, gmean, h0]; simp
  · rintro ⟨hn, h1, h0, hs⟩
    have hm : s.mean.val = gmean d := by
      rcases Nat.eq_zero_or_pos d.length with h | h
      · rw [h0 h, gmean, h]; simp
      · exact h1 h
    exact ⟨hn, hm, by rw [hs, gsx, hm]⟩

-- @site GaussianSuffStat.new
theorem Gaussian_abs_new : AbsGaussian (Gen.GaussianSuffStat.new : Gen.GaussianSuffStat R) [] := by
  refine ⟨rfl, ?_, ?_⟩ <;> simp [Gen.GaussianSuffStat.new, gmean, gsx] <;> norm_num

/-- the Welford update preserves the abstraction -/
-- @site GaussianSuffStat.observe_real
theorem Gaussian_abs_observe (s : Gen.GaussianSuffStat R) (d : List ℝ) (x : R) (h : AbsGaussian s d) :
    AbsGaussian (Gen.GaussianSuffStat.observe_real s x) (x.val :: d) := by
  obtain ⟨hn, hm, hs⟩ := h
  have h1 : ((d.length : ℝ) + 1) ≠ 0 := by positivity
  refine ⟨?_, ?_, ?_⟩
  · simp [Gen.GaussianSuffStat.observe_real, hn]
  · simp only [Gen.GaussianSuffStat.observe_real, mulAdd, RealLike.recip, R.add_val, R.sub_val, R.mul_val,
      R.div_val, R.sci_val, R.ofNatR_val, hm, hn, gmean_cons]
    push_cast
    norm_num
    field_simp
    ring
  · simp only [Gen.GaussianSuffStat.observe_real, mulAdd, RealLike.recip, R.add_val, R.sub_val, R.mul_val,
      R.div_val, R.sci_val, R.ofNatR_val, hm, hs, hn, gsx_cons, gmean_cons]
    push_cast
    norm_num
    field_simp
    ring

/-- the Welford downdate preserves the abstraction (and the `n ≤ 1` branch resets to `new`) -/
-- @site GaussianSuffStat.forget_real
theorem Gaussian_abs_forget (s : Gen.GaussianSuffStat R) (d : List ℝ) (x : R) (h : AbsGaussian s d)
    (hx : x.val ∈ d) : AbsGaussian (Gen.GaussianSuffStat.forget_real s x) (d.erase x.val) := by
  obtain ⟨hn, hm, hs⟩ := h
  by_cases hgt : 1 < d.length
  · have hn' : ((d.length : ℝ) - 1) ≠ 0 := by
      have : (1 : ℝ) < d.length := by exact_mod_cast hgt
      linarith
    have hgt' : s.n > 1 := by omega
    refine ⟨?_, ?_, ?_⟩
    · simp [Gen.GaussianSuffStat.forget_real, hgt, hn, List.length_erase_of_mem hx]
    · simp only [Gen.GaussianSuffStat.forget_real, hgt, hgt', gt_iff_lt, decide_true, if_true, mulAdd, RealLike.recip, R.add_val, R.sub_val,
        R.mul_val, R.div_val, R.neg_val, R.sci_val, R.ofNatR_val, hm, hn, gmean_erase hx hgt]
      norm_num
      field_simp
      ring
    · simp only [Gen.GaussianSuffStat.forget_real, hgt, hgt', gt_iff_lt, decide_true, if_true, mulAdd, RealLike.recip,
        R.add_val, R.sub_val, R.mul_val, R.div_val, R.neg_val, R.sci_val, R.ofNatR_val, hm, hs, hn, gsx_erase hx hgt, gmean_erase hx hgt]
      norm_num
      field_simp
      ring
  · have hlen : d.length = 1 := by
      have := List.length_pos_of_mem hx; omega
    have he : d.erase x.val = [] := by
      apply List.eq_nil_of_length_eq_zero
      rw [List.length_erase_of_mem hx, hlen]
    rw [he]
    refine ⟨?_, ?_, ?_⟩ <;> simp [Gen.GaussianSuffStat.forget_real, hn, hlen, gmean, gsx] <;> norm_num

-- @site GaussianSuffStat.from_parts_unchecked
theorem Gaussian_abs_perm (s : Gen.GaussianSuffStat R) (d d' : List ℝ) (h : AbsGaussian s d) (hp : d.Perm d') :
    AbsGaussian s d' := by
  obtain ⟨hn, hm, hs⟩ := h
  exact ⟨by rw [hn, hp.length_eq], by rw [hm, gmean_perm hp], by rw [hs, gsx_perm hp]⟩

-- @site GaussianSuffStat.from_parts_unchecked
theorem Gaussian_abs_unique (s s' : Gen.GaussianSuffStat R) (d : List ℝ) (h : AbsGaussian s d)
    (h' : AbsGaussian s' d) : s = s' := by
  obtain ⟨hn, hm, hs⟩ := h
  obtain ⟨hn', hm', hs'⟩ := h'
  cases s; cases s'
  simp only [Gen.GaussianSuffStat.mk.injEq]
  exact ⟨by simp_all, R.ext' (by simp_all), R.ext' (by simp_all)⟩

/-- the four generated entry points -/
noncomputable def GaussianI : Iface (Gen.GaussianSuffStat R) R :=
  ⟨Gen.GaussianSuffStat.observe_real, Gen.GaussianSuffStat.forget_real,
   Gen.GaussianSuffStat.observe_many_real, Gen.GaussianSuffStat.forget_many_real⟩

-- @site GaussianSuffStat.observe_many_real
theorem Gaussian_observe_many_eq_foldl (s : Gen.GaussianSuffStat R) (xs : List R) :
    Gen.GaussianSuffStat.observe_many_real s xs = xs.foldl Gen.GaussianSuffStat.observe_real s := rfl

-- @site GaussianSuffStat.forget_many_real
theorem Gaussian_forget_many_eq_foldl (s : Gen.GaussianSuffStat R) (xs : List R) :
    Gen.GaussianSuffStat.forget_many_real s xs = xs.foldl Gen.GaussianSuffStat.forget_real s := rfl

-- @site GaussianSuffStat.observe_many_real
theorem Gaussian_refines :
    Refines GaussianI R.val (fun _ => True) AbsGaussian (Gen.GaussianSuffStat.new : Gen.GaussianSuffStat R) where
  abs_new := Gaussian_abs_new
  abs_observe s d x _ h := Gaussian_abs_observe s d x h
  abs_forget s d x _ h hx := Gaussian_abs_forget s d x h hx
  abs_observeMany s d xs hp h :=
    foldl_observe (P := fun _ => True) (fun s d x _ h => Gaussian_abs_observe s d x h) xs s d hp h
  abs_forgetMany s d xs hp h hc :=
    foldl_forget (P := fun _ => True) (fun s d x _ h hx => Gaussian_abs_forget s d x h hx) xs s d hp h hc
  abs_perm := Gaussian_abs_perm
  abs_unique := Gaussian_abs_unique

/-- every history that never forgets an absent item ends in the statistic of the remaining data -/
-- @site GaussianSuffStat.forget_many_real
theorem Gaussian_history (ops : List (Op R)) (hl : legal R.val (fun _ => True) [] ops) :
    AbsGaussian (GaussianI.run Gen.GaussianSuffStat.new ops) (dataAfter R.val [] ops) :=
  Gaussian_refines.history ops _ _ Gaussian_abs_new hl

/-- `n` is the number of data held -/
-- @site GaussianSuffStat.get_n
theorem Gaussian_n (ops : List (Op R)) (hl : legal R.val (fun _ => True) [] ops) :
    Gen.GaussianSuffStat.get_n (GaussianI.run Gen.GaussianSuffStat.new ops) = (dataAfter R.val [] ops).length :=
  (Gaussian_history ops hl).1

/-- order independence: permuted data give the same statistic, field by field, on `R` -/
-- @site GaussianSuffStat.observe_many_real
theorem Gaussian_order_indep (xs ys : List R) (hp : (xs.map R.val).Perm (ys.map R.val)) :
    Gen.GaussianSuffStat.observe_many_real Gen.GaussianSuffStat.new xs =
      Gen.GaussianSuffStat.observe_many_real Gen.GaussianSuffStat.new ys :=
  Gaussian_refines.observeMany_perm xs ys (fun _ _ => trivial) (fun _ _ => trivial) hp

/-- two legal histories leaving the same multiset agree -/
-- @site GaussianSuffStat.forget_real
theorem Gaussian_history_indep (ops ops' : List (Op R)) (hl : legal R.val (fun _ => True) [] ops)
    (hl' : legal R.val (fun _ => True) [] ops') (hp : (dataAfter R.val [] ops).Perm (dataAfter R.val [] ops')) :
    GaussianI.run Gen.GaussianSuffStat.new ops = GaussianI.run Gen.GaussianSuffStat.new ops' :=
  Gaussian_refines.history_indep ops ops' hl hl' hp

/-- observe one at a time, all at once (= `From<&[X]>`), or any split: same statistic -/
-- @site GaussianSuffStat.observe_many_real
theorem Gaussian_mix (xs ys : List R) :
    Gen.GaussianSuffStat.observe_many_real (xs.foldl Gen.GaussianSuffStat.observe_real Gen.GaussianSuffStat.new) ys
      = Gen.GaussianSuffStat.observe_many_real Gen.GaussianSuffStat.new (xs ++ ys) :=
  (Gaussian_refines.mix xs ys (fun _ _ => trivial) (fun _ _ => trivial)).1

/-- forgetting all the data (in any order, by either entry point) returns exactly `new` -/
-- @site GaussianSuffStat.forget_many_real
theorem Gaussian_forget_all (s : Gen.GaussianSuffStat R) (d : List ℝ) (xs : List R) (h : AbsGaussian s d)
    (hp : (xs.map R.val).Perm d) :
    Gen.GaussianSuffStat.forget_many_real s xs = Gen.GaussianSuffStat.new ∧
      xs.foldl Gen.GaussianSuffStat.forget_real s = Gen.GaussianSuffStat.new :=
  Gaussian_refines.forget_all s d xs h (fun _ _ => trivial) hp

/-- reversibility: `forget` after `observe` restores the statistic exactly (on `R`) -/
-- @site GaussianSuffStat.forget_real
theorem Gaussian_forget_observe (s : Gen.GaussianSuffStat R) (d : List ℝ) (x : R) (h : AbsGaussian s d) :
    Gen.GaussianSuffStat.forget_real (Gen.GaussianSuffStat.observe_real s x) x = s :=
  Gaussian_refines.forget_observe s d x trivial h

example : AbsGaussian
    (Gen.GaussianSuffStat.forget_real
      (Gen.GaussianSuffStat.observe_real (Gen.GaussianSuffStat.observe_real
        (Gen.GaussianSuffStat.observe_real Gen.GaussianSuffStat.new ⟨1⟩) ⟨3⟩) ⟨-2⟩) ⟨3⟩)
    (([-2, 3, 1] : List ℝ).erase 3) := by
  have h := Gaussian_abs_forget _ _ ⟨3⟩ (Gaussian_abs_observe _ _ ⟨-2⟩ (Gaussian_abs_observe _ _ ⟨3⟩
    (Gaussian_abs_observe _ _ ⟨1⟩ Gaussian_abs_new))) (by simp)
  exact h

example : legal R.val (fun _ => True) ([] : List ℝ)
    [Op.observe ⟨1⟩, Op.observeMany [⟨2⟩, ⟨1⟩], Op.forget ⟨1⟩, Op.forgetMany [⟨2⟩, ⟨1⟩]] := by
  simp [legal, legalStep, dataStep, canForget, pushL]

/-- the accessors of the statistic are the power sums of the data -/
-- @site GaussianSuffStat.sum_x
theorem Gaussian_sum_x (s : Gen.GaussianSuffStat R) (d : List ℝ) (h : AbsGaussian s d) :
    (Gen.GaussianSuffStat.sum_x s).val = d.sum := by
  obtain ⟨hn, hm, -⟩ := h
  simp only [Gen.GaussianSuffStat.sum_x, R.mul_val, R.ofNatR_val, hm, hn, gmean_mul_length]

-- @site GaussianSuffStat.sum_x_sq
theorem Gaussian_sum_x_sq (s : Gen.GaussianSuffStat R) (d : List ℝ) (h : AbsGaussian s d) :
    (Gen.GaussianSuffStat.sum_x_sq s).val = (d.map (fun y => y ^ 2)).sum := by
  obtain ⟨hn, hm, hs⟩ := h
  simp only [Gen.GaussianSuffStat.sum_x_sq, Gen.GaussianSuffStat.get_mean, mulAdd, R.mul_val, R.add_val,
    R.ofNatR_val, hm, hn, hs, gsx_closed]
  ring

/-- likelihood from the statistic = sum of the pointwise log densities -/
-- @site Gaussian.ln_f_stat_real
theorem Gaussian_ln_f_stat (θ : Gen.Gaussian R) (s : Gen.GaussianSuffStat R) (d : List ℝ) (h : AbsGaussian s d)
    (hσ : 0 < θ.sigma.val) :
    (Gen.Gaussian.ln_f_stat_real θ s).val = (d.map (fun x => (Gen.Gaussian.ln_f_real θ ⟨x⟩).val)).sum := by
  have hσ' : θ.sigma.val ≠ 0 := ne_of_gt hσ
  have hx := Gaussian_sum_x s d h
  have hxx := Gaussian_sum_x_sq s d h
  have hn : s.n = d.length := h.1
  have key : ∀ x : ℝ, (Gen.Gaussian.ln_f_real θ ⟨x⟩).val =
      (-(1 / (2 * θ.sigma.val * θ.sigma.val))) * (x - θ.mu.val) ^ 2
        + (-(Real.log θ.sigma.val) - Real.log (2 * π) / 2) := by
    intro x
    simp only [Gen.Gaussian.ln_f_real, Gen.Gaussian.ln_sigma, mulAdd, R.add_val, R.sub_val, R.mul_val, R.div_val,
      R.neg_val, R.ln_val, R.sci_val, R.halfLn2Pi_val]
    norm_num
    field_simp
    ring
  simp only [key, sum_map_affine, sum_sq_dev]
  simp only [Gen.Gaussian.ln_f_stat_real, Gen.Gaussian.ln_sigma, Gen.GaussianSuffStat.get_n, mulAdd,
    RealLike.recip, R.add_val, R.sub_val, R.mul_val, R.div_val, R.neg_val, R.ln_val, R.sci_val, R.halfLn2Pi_val,
    R.ofNatR_val, hx, hxx, hn]
  norm_num
  field_simp
  ring

example : (0:ℝ) < (⟨⟨1⟩, ⟨2⟩⟩ : Gen.Gaussian R).sigma.val := by norm_num


/-! ## Bernoulli (integer statistic, exact on ℕ) -/

/-- `s` is the Bernoulli statistic of the Boolean data `d`: `n = |d|`, `k = #true` -/
def AbsBernoulli (s : Gen.BernoulliSuffStat R) (d : List Bool) : Prop :=
  s.n = d.length ∧ s.k = d.count true

-- @site BernoulliSuffStat.new
theorem Bernoulli_abs_new : AbsBernoulli (Gen.BernoulliSuffStat.new : Gen.BernoulliSuffStat R) [] :=
  ⟨rfl, rfl⟩

-- @site BernoulliSuffStat.observe_bool
theorem Bernoulli_abs_observe (s : Gen.BernoulliSuffStat R) (d : List Bool) (x : Bool) (h : AbsBernoulli s d) :
    AbsBernoulli (Gen.BernoulliSuffStat.observe_bool s x) (x :: d) := by
  obtain ⟨hn, hk⟩ := h
  cases x <;> simp [AbsBernoulli, Gen.BernoulliSuffStat.observe_bool, hn, hk]

/-- `x ∈ d` is the precondition under which neither `n -= 1` nor `k -= 1` underflows -/
-- @site BernoulliSuffStat.forget_bool
theorem Bernoulli_abs_forget (s : Gen.BernoulliSuffStat R) (d : List Bool) (x : Bool) (h : AbsBernoulli s d)
    (hx : x ∈ d) : AbsBernoulli (Gen.BernoulliSuffStat.forget_bool s x) (d.erase x) := by
  obtain ⟨hn, hk⟩ := h
  cases x <;>
    simp [AbsBernoulli, Gen.BernoulliSuffStat.forget_bool, hn, hk, List.length_erase_of_mem hx, List.count_erase]

/-- the statistic of held data satisfies the no-underflow precondition of `forget` -/
-- @site BernoulliSuffStat.forget_bool
theorem Bernoulli_forget_pre (s : Gen.BernoulliSuffStat R) (d : List Bool) (x : Bool) (h : AbsBernoulli s d)
    (hx : x ∈ d) : 0 < s.n ∧ (x = true → 0 < s.k) := by
  obtain ⟨hn, hk⟩ := h
  refine ⟨by rw [hn]; exact List.length_pos_of_mem hx, fun ht => ?_⟩
  subst ht
  rw [hk]; exact List.count_pos_iff.2 hx

/-- under the explicit precondition `0 < n` (and `0 < k` when `x`), `forget` is an exact decrement on ℕ -/
-- @site BernoulliSuffStat.forget_bool
theorem Bernoulli_forget_exact (s : Gen.BernoulliSuffStat R) (x : Bool) (hn : 0 < s.n) (hk : x = true → 0 < s.k) :
    (Gen.BernoulliSuffStat.forget_bool s x).n + 1 = s.n ∧
      (Gen.BernoulliSuffStat.forget_bool s x).k + (if x then 1 else 0) = s.k := by
  cases x
  · simp [Gen.BernoulliSuffStat.forget_bool]; omega
  · have := hk rfl
    simp [Gen.BernoulliSuffStat.forget_bool]; omega

/-- `forget` undoes `observe` exactly, from any state -/
-- @site BernoulliSuffStat.forget_bool
theorem Bernoulli_forget_observe (s : Gen.BernoulliSuffStat R) (x : Bool) :
    Gen.BernoulliSuffStat.forget_bool (Gen.BernoulliSuffStat.observe_bool s x) x = s := by
  cases x <;> simp [Gen.BernoulliSuffStat.forget_bool, Gen.BernoulliSuffStat.observe_bool]

/-- MODEL LIMIT (not a property of the code): outside the precondition the model's truncated subtraction gives
    `0 - 1 = 0`, whereas Rust panics (debug) / wraps to `usize::MAX` (release). -/
-- @site BernoulliSuffStat.forget_bool
theorem Bernoulli_forget_empty_truncates :
    Gen.BernoulliSuffStat.forget_bool (Gen.BernoulliSuffStat.new : Gen.BernoulliSuffStat R) true
      = Gen.BernoulliSuffStat.new := by
  simp [Gen.BernoulliSuffStat.forget_bool, Gen.BernoulliSuffStat.new]

-- @site BernoulliSuffStat.from_parts_unchecked
theorem Bernoulli_abs_perm (s : Gen.BernoulliSuffStat R) (d d' : List Bool) (h : AbsBernoulli s d)
    (hp : d.Perm d') : AbsBernoulli s d' :=
  ⟨by rw [h.1, hp.length_eq], by rw [h.2, hp.count_eq]⟩

-- @site BernoulliSuffStat.from_parts_unchecked
theorem Bernoulli_abs_unique (s s' : Gen.BernoulliSuffStat R) (d : List Bool) (h : AbsBernoulli s d)
    (h' : AbsBernoulli s' d) : s = s' := by
  obtain ⟨hn, hk⟩ := h
  obtain ⟨hn', hk'⟩ := h'
  cases s; cases s'
  simp_all

noncomputable def BernoulliI : Iface (Gen.BernoulliSuffStat R) Bool :=
  ⟨Gen.BernoulliSuffStat.observe_bool, Gen.BernoulliSuffStat.forget_bool,
   Gen.BernoulliSuffStat.observe_many_bool, Gen.BernoulliSuffStat.forget_many_bool⟩

-- @site BernoulliSuffStat.observe_many_bool
theorem Bernoulli_observe_many_eq_foldl (s : Gen.BernoulliSuffStat R) (xs : List Bool) :
    Gen.BernoulliSuffStat.observe_many_bool s xs = xs.foldl Gen.BernoulliSuffStat.observe_bool s := rfl

-- @site BernoulliSuffStat.forget_many_bool
theorem Bernoulli_forget_many_eq_foldl (s : Gen.BernoulliSuffStat R) (xs : List Bool) :
    Gen.BernoulliSuffStat.forget_many_bool s xs = xs.foldl Gen.BernoulliSuffStat.forget_bool s := rfl

-- @site BernoulliSuffStat.observe_many_bool
theorem Bernoulli_refines :
    Refines BernoulliI id (fun _ => True) AbsBernoulli (Gen.BernoulliSuffStat.new : Gen.BernoulliSuffStat R) where
  abs_new := Bernoulli_abs_new
  abs_observe s d x _ h := Bernoulli_abs_observe s d x h
  abs_forget s d x _ h hx := Bernoulli_abs_forget s d x h hx
  abs_observeMany s d xs hp h :=
    foldl_observe (emb := id) (P := fun _ => True) (fun s d x _ h => Bernoulli_abs_observe s d x h) xs s d hp h
  abs_forgetMany s d xs hp h hc :=
    foldl_forget (emb := id) (P := fun _ => True) (fun s d x _ h hx => Bernoulli_abs_forget s d x h hx) xs s d hp h hc
  abs_perm := Bernoulli_abs_perm
  abs_unique := Bernoulli_abs_unique

-- @site BernoulliSuffStat.forget_many_bool
theorem Bernoulli_history (ops : List (Op Bool)) (hl : legal id (fun _ => True) [] ops) :
    AbsBernoulli (BernoulliI.run Gen.BernoulliSuffStat.new ops) (dataAfter id [] ops) :=
  Bernoulli_refines.history ops _ _ Bernoulli_abs_new hl

-- @site BernoulliSuffStat.get_n
theorem Bernoulli_n (ops : List (Op Bool)) (hl : legal id (fun _ => True) [] ops) :
    Gen.BernoulliSuffStat.get_n (BernoulliI.run Gen.BernoulliSuffStat.new ops) = (dataAfter id [] ops).length :=
  (Bernoulli_history ops hl).1

-- @site BernoulliSuffStat.observe_many_bool
theorem Bernoulli_order_indep (xs ys : List Bool) (hp : xs.Perm ys) :
    (Gen.BernoulliSuffStat.observe_many_bool Gen.BernoulliSuffStat.new xs : Gen.BernoulliSuffStat R) =
      Gen.BernoulliSuffStat.observe_many_bool Gen.BernoulliSuffStat.new ys :=
  Bernoulli_refines.observeMany_perm xs ys (fun _ _ => trivial) (fun _ _ => trivial) (by simpa using hp)

-- @site BernoulliSuffStat.forget_bool
theorem Bernoulli_history_indep (ops ops' : List (Op Bool)) (hl : legal id (fun _ => True) [] ops)
    (hl' : legal id (fun _ => True) [] ops') (hp : (dataAfter id [] ops).Perm (dataAfter id [] ops')) :
    BernoulliI.run (Gen.BernoulliSuffStat.new : Gen.BernoulliSuffStat R) ops
      = BernoulliI.run Gen.BernoulliSuffStat.new ops' :=
  Bernoulli_refines.history_indep ops ops' hl hl' hp

-- @site BernoulliSuffStat.observe_many_bool
theorem Bernoulli_mix (xs ys : List Bool) :
    (Gen.BernoulliSuffStat.observe_many_bool
        (xs.foldl Gen.BernoulliSuffStat.observe_bool Gen.BernoulliSuffStat.new) ys : Gen.BernoulliSuffStat R)
      = Gen.BernoulliSuffStat.observe_many_bool Gen.BernoulliSuffStat.new (xs ++ ys) :=
  (Bernoulli_refines.mix xs ys (fun _ _ => trivial) (fun _ _ => trivial)).1

-- @site BernoulliSuffStat.forget_many_bool
theorem Bernoulli_forget_all (s : Gen.BernoulliSuffStat R) (d : List Bool) (xs : List Bool) (h : AbsBernoulli s d)
    (hp : xs.Perm d) :
    Gen.BernoulliSuffStat.forget_many_bool s xs = Gen.BernoulliSuffStat.new ∧
      xs.foldl Gen.BernoulliSuffStat.forget_bool s = Gen.BernoulliSuffStat.new :=
  Bernoulli_refines.forget_all s d xs h (fun _ _ => trivial) (by simpa using hp)

/-- the `u8…usize` observation kind (`x == 1` ↦ success) is the Boolean kind through `x ↦ (x == 1)` -/
-- @site BernoulliSuffStat.observe_nat
theorem Bernoulli_observe_nat (s : Gen.BernoulliSuffStat R) (x : Nat) :
    Gen.BernoulliSuffStat.observe_nat s x = Gen.BernoulliSuffStat.observe_bool s (x == 1) := rfl

-- @site BernoulliSuffStat.forget_nat
theorem Bernoulli_forget_nat (s : Gen.BernoulliSuffStat R) (x : Nat) :
    Gen.BernoulliSuffStat.forget_nat s x = Gen.BernoulliSuffStat.forget_bool s (x == 1) := rfl

/-- reversibility: `forget` after `observe` restores the statistic exactly (on `R`) -/
-- @site BernoulliSuffStat.forget_bool
theorem Bernoulli_forget_observe_abs (s : Gen.BernoulliSuffStat R) (d : List Bool) (x : Bool) (h : AbsBernoulli s d) :
    Gen.BernoulliSuffStat.forget_bool (Gen.BernoulliSuffStat.observe_bool s x) x = s :=
  Bernoulli_refines.forget_observe s d x trivial h

example : legal id (fun _ => True) ([] : List Bool)
    [Op.observe true, Op.observeMany [false, true], Op.forget true, Op.forgetMany [true, false]] := by
  simp [legal, legalStep, dataStep, canForget, pushL]

example : AbsBernoulli (Gen.BernoulliSuffStat.from_parts_unchecked 3 2) [true, false, true] := by
  simp [AbsBernoulli, Gen.BernoulliSuffStat.from_parts_unchecked]

-- @site Bernoulli.ln_f_stat_bool
theorem Bernoulli_ln_f_stat (θ : Gen.Bernoulli R) (s : Gen.BernoulliSuffStat R) (d : List Bool)
    (h : AbsBernoulli s d) (_hp0 : 0 < θ.p.val) (_hp1 : θ.p.val < 1) :
    (Gen.Bernoulli.ln_f_stat_bool θ s).val = (d.map (fun x => (Gen.Bernoulli.ln_f_bool θ x).val)).sum := by
  obtain ⟨hn, hk⟩ := h
  have key : ∀ d : List Bool,
      (d.count true : ℝ) * Real.log θ.p.val + ((d.length : ℝ) - d.count true) * Real.log (1 - θ.p.val)
        = (d.map (fun x => (Gen.Bernoulli.ln_f_bool θ x).val)).sum := by
    intro d
    induction d with
    | nil => simp
    | cons x xs ih =>
      rw [List.map_cons, List.sum_cons, ← ih]
      cases x <;>
        simp [Gen.Bernoulli.ln_f_bool, Gen.Bernoulli.f_bool, List.count_cons] <;> norm_num <;> ring
  rw [← key]
  simp only [Gen.Bernoulli.ln_f_stat_bool, Gen.BernoulliSuffStat.get_n, Gen.BernoulliSuffStat.get_k,
    Gen.Bernoulli.get_p, Gen.Bernoulli.q, mulAdd, R.add_val, R.sub_val, R.mul_val, R.ln_val, R.sci_val,
    R.ofNatR_val, hn, hk]
  norm_num

/-- the `u8…usize` kind: identical body -/
-- @site Bernoulli.ln_f_stat_nat
theorem Bernoulli_ln_f_stat_nat (θ : Gen.Bernoulli R) (s : Gen.BernoulliSuffStat R) :
    Gen.Bernoulli.ln_f_stat_nat θ s = Gen.Bernoulli.ln_f_stat_bool θ s := rfl

example : (0:ℝ) < (⟨⟨1/3⟩⟩ : Gen.Bernoulli R).p.val ∧ (⟨⟨1/3⟩⟩ : Gen.Bernoulli R).p.val < 1 := by norm_num

/-! ## Poisson -/

/-- `s` is the Poisson statistic of the count data `d`: `n`, `Σ x`, `Σ ln x!` (`ln_fact` kept opaque) -/
def AbsPoisson (s : Gen.PoissonSuffStat R) (d : List ℕ) : Prop :=
  s.n = d.length ∧ s.sum.val = (d.map (fun x : ℕ => (x : ℝ))).sum ∧
    s.sum_ln_fact.val = (d.map (fun x => (Gen.ln_fact x : R).val)).sum

-- @site PoissonSuffStat.new
theorem Poisson_abs_new : AbsPoisson (Gen.PoissonSuffStat.new : Gen.PoissonSuffStat R) [] := by
  refine ⟨rfl, ?_, ?_⟩ <;> simp [Gen.PoissonSuffStat.new] <;> norm_num

-- @site PoissonSuffStat.observe_nat
theorem Poisson_abs_observe (s : Gen.PoissonSuffStat R) (d : List ℕ) (x : ℕ) (h : AbsPoisson s d) :
    AbsPoisson (Gen.PoissonSuffStat.observe_nat s x) (x :: d) := by
  obtain ⟨hn, h1, h2⟩ := h
  refine ⟨?_, ?_, ?_⟩
  · simp [Gen.PoissonSuffStat.observe_nat, hn]
  · simp only [Gen.PoissonSuffStat.observe_nat, R.add_val, R.ofNatR_val, h1, List.map_cons, List.sum_cons]; ring
  · simp only [Gen.PoissonSuffStat.observe_nat, R.add_val, h2, List.map_cons, List.sum_cons]; ring

-- @site PoissonSuffStat.forget_nat
theorem Poisson_abs_forget (s : Gen.PoissonSuffStat R) (d : List ℕ) (x : ℕ) (h : AbsPoisson s d) (hx : x ∈ d) :
    AbsPoisson (Gen.PoissonSuffStat.forget_nat s x) (d.erase x) := by
  obtain ⟨hn, h1, h2⟩ := h
  by_cases hgt : 1 < d.length
  · refine ⟨?_, ?_, ?_⟩
    · simp [Gen.PoissonSuffStat.forget_nat, hgt, hn, List.length_erase_of_mem hx]
    · simp only [Gen.PoissonSuffStat.forget_nat, hn, hgt, gt_iff_lt, decide_true, if_true, R.sub_val, R.ofNatR_val,
        h1, sum_map_erase (fun x : ℕ => (x : ℝ)) hx]
    · simp only [Gen.PoissonSuffStat.forget_nat, hn, hgt, gt_iff_lt, decide_true, if_true, R.sub_val, h2,
        sum_map_erase (fun x : ℕ => (Gen.ln_fact x : R).val) hx]
  · rw [erase_eq_nil_of_length_le_one hx hgt]
    refine ⟨?_, ?_, ?_⟩ <;> simp [Gen.PoissonSuffStat.forget_nat, hn, hgt] <;> norm_num

-- @site PoissonSuffStat.from_parts_unchecked
theorem Poisson_abs_perm (s : Gen.PoissonSuffStat R) (d d' : List ℕ) (h : AbsPoisson s d) (hp : d.Perm d') :
    AbsPoisson s d' :=
  ⟨by rw [h.1, hp.length_eq], by rw [h.2.1, sum_map_perm _ hp], by rw [h.2.2, sum_map_perm _ hp]⟩

-- @site PoissonSuffStat.from_parts_unchecked
theorem Poisson_abs_unique (s s' : Gen.PoissonSuffStat R) (d : List ℕ) (h : AbsPoisson s d)
    (h' : AbsPoisson s' d) : s = s' := by
  obtain ⟨hn, h1, h2⟩ := h
  obtain ⟨hn', h1', h2'⟩ := h'
  cases s; cases s'
  simp only [Gen.PoissonSuffStat.mk.injEq]
  exact ⟨by simp_all, R.ext' (by simp_all), R.ext' (by simp_all)⟩

noncomputable def PoissonI : Iface (Gen.PoissonSuffStat R) ℕ :=
  ⟨Gen.PoissonSuffStat.observe_nat, Gen.PoissonSuffStat.forget_nat,
   Gen.PoissonSuffStat.observe_many_nat, Gen.PoissonSuffStat.forget_many_nat⟩

-- @site PoissonSuffStat.observe_many_nat
theorem Poisson_observe_many_eq_foldl (s : Gen.PoissonSuffStat R) (xs : List ℕ) :
    Gen.PoissonSuffStat.observe_many_nat s xs = xs.foldl Gen.PoissonSuffStat.observe_nat s := rfl

-- @site PoissonSuffStat.forget_many_nat
theorem Poisson_forget_many_eq_foldl (s : Gen.PoissonSuffStat R) (xs : List ℕ) :
    Gen.PoissonSuffStat.forget_many_nat s xs = xs.foldl Gen.PoissonSuffStat.forget_nat s := rfl

-- @site PoissonSuffStat.observe_many_nat
theorem Poisson_refines :
    Refines PoissonI id (fun _ => True) AbsPoisson (Gen.PoissonSuffStat.new : Gen.PoissonSuffStat R) where
  abs_new := Poisson_abs_new
  abs_observe s d x _ h := Poisson_abs_observe s d x h
  abs_forget s d x _ h hx := Poisson_abs_forget s d x h hx
  abs_observeMany s d xs hp h :=
    foldl_observe (emb := id) (P := fun _ => True) (fun s d x _ h => Poisson_abs_observe s d x h) xs s d hp h
  abs_forgetMany s d xs hp h hc :=
    foldl_forget (emb := id) (P := fun _ => True) (fun s d x _ h hx => Poisson_abs_forget s d x h hx) xs s d hp h hc
  abs_perm := Poisson_abs_perm
  abs_unique := Poisson_abs_unique

-- @site PoissonSuffStat.forget_many_nat
theorem Poisson_history (ops : List (Op ℕ)) (hl : legal id (fun _ => True) [] ops) :
    AbsPoisson (PoissonI.run Gen.PoissonSuffStat.new ops) (dataAfter id [] ops) :=
  Poisson_refines.history ops _ _ Poisson_abs_new hl

-- @site PoissonSuffStat.get_n
theorem Poisson_n (ops : List (Op ℕ)) (hl : legal id (fun _ => True) [] ops) :
    Gen.PoissonSuffStat.get_n (PoissonI.run Gen.PoissonSuffStat.new ops) = (dataAfter id [] ops).length :=
  (Poisson_history ops hl).1

-- @site PoissonSuffStat.observe_many_nat
theorem Poisson_order_indep (xs ys : List ℕ) (hp : xs.Perm ys) :
    (Gen.PoissonSuffStat.observe_many_nat Gen.PoissonSuffStat.new xs : Gen.PoissonSuffStat R) =
      Gen.PoissonSuffStat.observe_many_nat Gen.PoissonSuffStat.new ys :=
  Poisson_refines.observeMany_perm xs ys (fun _ _ => trivial) (fun _ _ => trivial) (by simpa using hp)

-- @site PoissonSuffStat.forget_nat
theorem Poisson_history_indep (ops ops' : List (Op ℕ)) (hl : legal id (fun _ => True) [] ops)
    (hl' : legal id (fun _ => True) [] ops') (hp : (dataAfter id [] ops).Perm (dataAfter id [] ops')) :
    PoissonI.run (Gen.PoissonSuffStat.new : Gen.PoissonSuffStat R) ops = PoissonI.run Gen.PoissonSuffStat.new ops' :=
  Poisson_refines.history_indep ops ops' hl hl' hp

-- @site PoissonSuffStat.observe_many_nat
theorem Poisson_mix (xs ys : List ℕ) :
    (Gen.PoissonSuffStat.observe_many_nat
        (xs.foldl Gen.PoissonSuffStat.observe_nat Gen.PoissonSuffStat.new) ys : Gen.PoissonSuffStat R)
      = Gen.PoissonSuffStat.observe_many_nat Gen.PoissonSuffStat.new (xs ++ ys) :=
  (Poisson_refines.mix xs ys (fun _ _ => trivial) (fun _ _ => trivial)).1

-- @site PoissonSuffStat.forget_many_nat
theorem Poisson_forget_all (s : Gen.PoissonSuffStat R) (d : List ℕ) (xs : List ℕ) (h : AbsPoisson s d)
    (hp : xs.Perm d) :
    Gen.PoissonSuffStat.forget_many_nat s xs = Gen.PoissonSuffStat.new ∧
      xs.foldl Gen.PoissonSuffStat.forget_nat s = Gen.PoissonSuffStat.new :=
  Poisson_refines.forget_all s d xs h (fun _ _ => trivial) (by simpa using hp)

/-- reversibility: `forget` after `observe` restores the statistic exactly (on `R`) -/
-- @site PoissonSuffStat.forget_nat
theorem Poisson_forget_observe (s : Gen.PoissonSuffStat R) (d : List ℕ) (x : ℕ) (h : AbsPoisson s d) :
    Gen.PoissonSuffStat.forget_nat (Gen.PoissonSuffStat.observe_nat s x) x = s :=
  Poisson_refines.forget_observe s d x trivial h

example : AbsPoisson (Gen.PoissonSuffStat.observe_nat (Gen.PoissonSuffStat.observe_nat Gen.PoissonSuffStat.new 4) 0)
    [0, 4] :=
  Poisson_abs_observe _ _ 0 (Poisson_abs_observe _ _ 4 Poisson_abs_new)

example : legal id (fun _ => True) ([] : List ℕ)
    [Op.observe 3, Op.observeMany [0, 3, 7], Op.forget 3, Op.forgetMany [7, 3]] := by
  simp [legal, legalStep, dataStep, canForget, pushL]

/-- `Gen.ln_fact` is never unfolded: the statistic accumulates `ln_fact x`, the density subtracts `ln_fact x` -/
-- @site Poisson.ln_f_stat_nat
theorem Poisson_ln_f_stat (θ : Gen.Poisson R) (s : Gen.PoissonSuffStat R) (d : List ℕ)
    (h : AbsPoisson s d) (_hr : 0 < θ.rate.val) :
    (Gen.Poisson.ln_f_stat_nat θ s).val = (d.map (fun x => (Gen.Poisson.ln_f_nat θ x).val)).sum := by
  obtain ⟨hn, h1, h2⟩ := h
  have key : ∀ d : List ℕ,
      (d.length : ℝ) * (-θ.rate.val) + (Real.log θ.rate.val * (d.map (fun x : ℕ => (x : ℝ))).sum
          - (d.map (fun x => (Gen.ln_fact x : R).val)).sum)
        = (d.map (fun x => (Gen.Poisson.ln_f_nat θ x).val)).sum := by
    intro d
    induction d with
    | nil => simp
    | cons x xs ih =>
      rw [List.map_cons (f := fun x => (Gen.Poisson.ln_f_nat θ x).val), List.sum_cons, ← ih]
      simp only [List.map_cons, List.sum_cons, List.length_cons, Gen.Poisson.ln_f_nat, Gen.Poisson.ln_rate,
        mulAdd, R.add_val, R.sub_val, R.mul_val, R.neg_val, R.ln_val, R.ofNatR_val]
      push_cast
      ring
  rw [← key]
  simp only [Gen.Poisson.ln_f_stat_nat, Gen.PoissonSuffStat.get_n, Gen.PoissonSuffStat.get_sum,
    Gen.PoissonSuffStat.get_sum_ln_fact, Gen.Poisson.ln_rate, mulAdd, R.add_val, R.mul_val, R.neg_val, R.ln_val,
    R.ofNatR_val, hn, h1, h2]
  ring

example : (0:ℝ) < (⟨⟨5/2⟩⟩ : Gen.Poisson R).rate.val := by norm_num

/-! ## Beta -/

/-- `s` is the Beta statistic of the data `d`: `n`, `Σ ln x`, `Σ ln(1-x)` -/
def AbsBeta (s : Gen.BetaSuffStat R) (d : List ℝ) : Prop :=
  s.n = d.length ∧ s.sum_ln_x.val = (d.map Real.log).sum ∧
    s.sum_ln_1mx.val = (d.map (fun x => Real.log (1 - x))).sum

-- @site BetaSuffStat.new
theorem Beta_abs_new : AbsBeta (Gen.BetaSuffStat.new : Gen.BetaSuffStat R) [] := by
  refine ⟨rfl, ?_, ?_⟩ <;> simp [Gen.BetaSuffStat.new] <;> norm_num

-- @site BetaSuffStat.observe_real
theorem Beta_abs_observe (s : Gen.BetaSuffStat R) (d : List ℝ) (x : R) (h : AbsBeta s d) :
    AbsBeta (Gen.BetaSuffStat.observe_real s x) (x.val :: d) := by
  obtain ⟨hn, h1, h2⟩ := h
  refine ⟨?_, ?_, ?_⟩
  · simp [Gen.BetaSuffStat.observe_real, hn]
  · simp only [Gen.BetaSuffStat.observe_real, R.add_val, R.ln_val, h1, List.map_cons, List.sum_cons]; ring
  · simp only [Gen.BetaSuffStat.observe_real, R.add_val, R.sub_val, R.ln_val, R.sci_val, h2, List.map_cons,
      List.sum_cons]
    norm_num; ring

-- @site BetaSuffStat.forget_real
theorem Beta_abs_forget (s : Gen.BetaSuffStat R) (d : List ℝ) (x : R) (h : AbsBeta s d) (hx : x.val ∈ d) :
    AbsBeta (Gen.BetaSuffStat.forget_real s x) (d.erase x.val) := by
  obtain ⟨hn, h1, h2⟩ := h
  by_cases hgt : 1 < d.length
  · refine ⟨?_, ?_, ?_⟩
    · simp [Gen.BetaSuffStat.forget_real, hgt, hn, List.length_erase_of_mem hx]
    · simp only [Gen.BetaSuffStat.forget_real, hn, hgt, gt_iff_lt, decide_true, if_true, R.sub_val, R.ln_val,
        h1, sum_map_erase Real.log hx]
    · simp only [Gen.BetaSuffStat.forget_real, hn, hgt, gt_iff_lt, decide_true, if_true, R.sub_val, R.ln_val,
        R.sci_val, h2, sum_map_erase (fun x => Real.log (1 - x)) hx]
      norm_num
  · rw [erase_eq_nil_of_length_le_one hx hgt]
    refine ⟨?_, ?_, ?_⟩ <;> simp [Gen.BetaSuffStat.forget_real, hn, hgt] <;> norm_num

-- @site BetaSuffStat.from_parts_unchecked
theorem Beta_abs_perm (s : Gen.BetaSuffStat R) (d d' : List ℝ) (h : AbsBeta s d) (hp : d.Perm d') :
    AbsBeta s d' :=
  ⟨by rw [h.1, hp.length_eq], by rw [h.2.1, sum_map_perm _ hp], by rw [h.2.2, sum_map_perm _ hp]⟩

-- @site BetaSuffStat.from_parts_unchecked
theorem Beta_abs_unique (s s' : Gen.BetaSuffStat R) (d : List ℝ) (h : AbsBeta s d) (h' : AbsBeta s' d) :
    s = s' := by
  obtain ⟨hn, h1, h2⟩ := h
  obtain ⟨hn', h1', h2'⟩ := h'
  cases s; cases s'
  simp only [Gen.BetaSuffStat.mk.injEq]
  exact ⟨by simp_all, R.ext' (by simp_all), R.ext' (by simp_all)⟩

noncomputable def BetaI : Iface (Gen.BetaSuffStat R) R :=
  ⟨Gen.BetaSuffStat.observe_real, Gen.BetaSuffStat.forget_real,
   Gen.BetaSuffStat.observe_many_real, Gen.BetaSuffStat.forget_many_real⟩

-- @site BetaSuffStat.observe_many_real
theorem Beta_observe_many_eq_foldl (s : Gen.BetaSuffStat R) (xs : List R) :
    Gen.BetaSuffStat.observe_many_real s xs = xs.foldl Gen.BetaSuffStat.observe_real s := rfl

-- @site BetaSuffStat.forget_many_real
theorem Beta_forget_many_eq_foldl (s : Gen.BetaSuffStat R) (xs : List R) :
    Gen.BetaSuffStat.forget_many_real s xs = xs.foldl Gen.BetaSuffStat.forget_real s := rfl

-- @site BetaSuffStat.observe_many_real
theorem Beta_refines :
    Refines BetaI R.val (fun _ => True) AbsBeta (Gen.BetaSuffStat.new : Gen.BetaSuffStat R) where
  abs_new := Beta_abs_new
  abs_observe s d x _ h := Beta_abs_observe s d x h
  abs_forget s d x _ h hx := Beta_abs_forget s d x h hx
  abs_observeMany s d xs hp h :=
    foldl_observe (P := fun _ => True) (fun s d x _ h => Beta_abs_observe s d x h) xs s d hp h
  abs_forgetMany s d xs hp h hc :=
    foldl_forget (P := fun _ => True) (fun s d x _ h hx => Beta_abs_forget s d x h hx) xs s d hp h hc
  abs_perm := Beta_abs_perm
  abs_unique := Beta_abs_unique

-- @site BetaSuffStat.forget_many_real
theorem Beta_history (ops : List (Op R)) (hl : legal R.val (fun _ => True) [] ops) :
    AbsBeta (BetaI.run Gen.BetaSuffStat.new ops) (dataAfter R.val [] ops) :=
  Beta_refines.history ops _ _ Beta_abs_new hl

-- @site BetaSuffStat.get_n
theorem Beta_n (ops : List (Op R)) (hl : legal R.val (fun _ => True) [] ops) :
    Gen.BetaSuffStat.get_n (BetaI.run Gen.BetaSuffStat.new ops) = (dataAfter R.val [] ops).length :=
  (Beta_history ops hl).1

-- @site BetaSuffStat.observe_many_real
theorem Beta_order_indep (xs ys : List R) (hp : (xs.map R.val).Perm (ys.map R.val)) :
    Gen.BetaSuffStat.observe_many_real Gen.BetaSuffStat.new xs =
      Gen.BetaSuffStat.observe_many_real Gen.BetaSuffStat.new ys :=
  Beta_refines.observeMany_perm xs ys (fun _ _ => trivial) (fun _ _ => trivial) hp

-- @site BetaSuffStat.forget_real
theorem Beta_history_indep (ops ops' : List (Op R)) (hl : legal R.val (fun _ => True) [] ops)
    (hl' : legal R.val (fun _ => True) [] ops') (hp : (dataAfter R.val [] ops).Perm (dataAfter R.val [] ops')) :
    BetaI.run Gen.BetaSuffStat.new ops = BetaI.run Gen.BetaSuffStat.new ops' :=
  Beta_refines.history_indep ops ops' hl hl' hp

-- @site BetaSuffStat.observe_many_real
theorem Beta_mix (xs ys : List R) :
    Gen.BetaSuffStat.observe_many_real (xs.foldl Gen.BetaSuffStat.observe_real Gen.BetaSuffStat.new) ys
      = Gen.BetaSuffStat.observe_many_real Gen.BetaSuffStat.new (xs ++ ys) :=
  (Beta_refines.mix xs ys (fun _ _ => trivial) (fun _ _ => trivial)).1

-- @site BetaSuffStat.forget_many_real
theorem Beta_forget_all (s : Gen.BetaSuffStat R) (d : List ℝ) (xs : List R) (h : AbsBeta s d)
    (hp : (xs.map R.val).Perm d) :
    Gen.BetaSuffStat.forget_many_real s xs = Gen.BetaSuffStat.new ∧
      xs.foldl Gen.BetaSuffStat.forget_real s = Gen.BetaSuffStat.new :=
  Beta_refines.forget_all s d xs h (fun _ _ => trivial) hp

/-- reversibility: `forget` after `observe` restores the statistic exactly (on `R`) -/
-- @site BetaSuffStat.forget_real
theorem Beta_forget_observe (s : Gen.BetaSuffStat R) (d : List ℝ) (x : R) (h : AbsBeta s d) :
    Gen.BetaSuffStat.forget_real (Gen.BetaSuffStat.observe_real s x) x = s :=
  Beta_refines.forget_observe s d x trivial h

example : AbsBeta (Gen.BetaSuffStat.observe_real (Gen.BetaSuffStat.observe_real Gen.BetaSuffStat.new ⟨1/4⟩) ⟨2/3⟩)
    [2/3, 1/4] :=
  Beta_abs_observe _ _ ⟨2/3⟩ (Beta_abs_observe _ _ ⟨1/4⟩ Beta_abs_new)

-- @site Beta.ln_f_stat_real
theorem Beta_ln_f_stat (θ : Gen.Beta R) (s : Gen.BetaSuffStat R) (d : List ℝ) (h : AbsBeta s d)
    (_ha : 0 < θ.alpha.val) (_hb : 0 < θ.beta.val) (_hd : ∀ x ∈ d, 0 < x ∧ x < 1) :
    (Gen.Beta.ln_f_stat_real θ s).val = (d.map (fun x => (Gen.Beta.ln_f_real θ ⟨x⟩).val)).sum := by
  obtain ⟨hn, h1, h2⟩ := h
  have key : ∀ d : List ℝ,
      ((θ.alpha.val - 1) * (d.map Real.log).sum + (θ.beta.val - 1) * (d.map (fun x => Real.log (1 - x))).sum)
          - (d.length : ℝ) * (Gen.Beta.ln_beta_ab θ).val
        = (d.map (fun x => (Gen.Beta.ln_f_real θ ⟨x⟩).val)).sum := by
    intro d
    induction d with
    | nil => simp
    | cons x xs ih =>
      rw [List.map_cons (f := fun x => (Gen.Beta.ln_f_real θ ⟨x⟩).val), List.sum_cons, ← ih]
      simp only [List.map_cons, List.sum_cons, List.length_cons, Gen.Beta.ln_f_real, mulAdd, R.add_val,
        R.sub_val, R.mul_val, R.ln_val, R.sci_val]
      push_cast
      norm_num
      ring
  rw [← key]
  simp only [Gen.Beta.ln_f_stat_real, Gen.BetaSuffStat.get_n, Gen.BetaSuffStat.get_sum_ln_x,
    Gen.BetaSuffStat.get_sum_ln_1mx, R.add_val, R.sub_val, R.mul_val, R.sci_val, R.ofNatR_val, hn, h1, h2]
  norm_num

example : (0:ℝ) < (⟨⟨2⟩, ⟨1/2⟩⟩ : Gen.Beta R).alpha.val ∧ (0:ℝ) < (⟨⟨2⟩, ⟨1/2⟩⟩ : Gen.Beta R).beta.val := by
  norm_num

end C07

#print axioms C07.AbsGaussian_iff
#print axioms C07.Gaussian_abs_new
#print axioms C07.Gaussian_abs_observe
#print axioms C07.Gaussian_abs_forget
#print axioms C07.Gaussian_abs_perm
#print axioms C07.Gaussian_abs_unique
#print axioms C07.Gaussian_observe_many_eq_foldl
#print axioms C07.Gaussian_forget_many_eq_foldl
#print axioms C07.Gaussian_refines
#print axioms C07.Gaussian_history
#print axioms C07.Gaussian_n
#print axioms C07.Gaussian_order_indep
#print axioms C07.Gaussian_history_indep
#print axioms C07.Gaussian_mix
#print axioms C07.Gaussian_forget_all
#print axioms C07.Gaussian_forget_observe
#print axioms C07.Gaussian_sum_x
#print axioms C07.Gaussian_sum_x_sq
#print axioms C07.Gaussian_ln_f_stat
#print axioms C07.Bernoulli_abs_new
#print axioms C07.Bernoulli_abs_observe
#print axioms C07.Bernoulli_abs_forget
#print axioms C07.Bernoulli_forget_pre
#print axioms C07.Bernoulli_forget_exact
#print axioms C07.Bernoulli_forget_observe
#print axioms C07.Bernoulli_forget_empty_truncates
#print axioms C07.Bernoulli_abs_perm
#print axioms C07.Bernoulli_abs_unique
#print axioms C07.Bernoulli_observe_many_eq_foldl
#print axioms C07.Bernoulli_forget_many_eq_foldl
#print axioms C07.Bernoulli_refines
#print axioms C07.Bernoulli_history
#print axioms C07.Bernoulli_n
#print axioms C07.Bernoulli_order_indep
#print axioms C07.Bernoulli_history_indep
#print axioms C07.Bernoulli_mix
#print axioms C07.Bernoulli_forget_all
#print axioms C07.Bernoulli_observe_nat
#print axioms C07.Bernoulli_forget_nat
#print axioms C07.Bernoulli_forget_observe_abs
#print axioms C07.Bernoulli_ln_f_stat
#print axioms C07.Bernoulli_ln_f_stat_nat
#print axioms C07.Poisson_abs_new
#print axioms C07.Poisson_abs_observe
#print axioms C07.Poisson_abs_forget
#print axioms C07.Poisson_abs_perm
#print axioms C07.Poisson_abs_unique
#print axioms C07.Poisson_observe_many_eq_foldl
#print axioms C07.Poisson_forget_many_eq_foldl
#print axioms C07.Poisson_refines
#print axioms C07.Poisson_history
#print axioms C07.Poisson_n
#print axioms C07.Poisson_order_indep
#print axioms C07.Poisson_history_indep
#print axioms C07.Poisson_mix
#print axioms C07.Poisson_forget_all
#print axioms C07.Poisson_forget_observe
#print axioms C07.Poisson_ln_f_stat
#print axioms C07.Beta_abs_new
#print axioms C07.Beta_abs_observe
#print axioms C07.Beta_abs_forget
#print axioms C07.Beta_abs_perm
#print axioms C07.Beta_abs_unique
#print axioms C07.Beta_observe_many_eq_foldl
#print axioms C07.Beta_forget_many_eq_foldl
#print axioms C07.Beta_refines
#print axioms C07.Beta_history
#print axioms C07.Beta_n
#print axioms C07.Beta_order_indep
#print axioms C07.Beta_history_indep
#print axioms C07.Beta_mix
#print axioms C07.Beta_forget_all
#print axioms C07.Beta_forget_observe
#print axioms C07.Beta_ln_f_stat
