import RvModel.RealInst
import RvModel.Gen.Defs
import RvModel.Lemmas.C06
import Mathlib.Probability.Distributions.Beta
/-!
  C06 (group A): Beta–Bernoulli, UnitPowerLaw–Bernoulli, Gamma–Poisson, Dirichlet–Categorical and
  SymmetricDirichlet–Categorical, over the exact-real carrier `R`.

  Per pair: every cached entry point equals the uncached one (`*_cached`, `*_eq_exp`, `*_data_eq_stat`, the `u8`/`bool`
  variants), `ln_m [] = 0` (`*_ln_m_empty`), permutation invariance (`*_ln_m_perm`), the chain rule
  `ln_pp y xs = ln_m (xs ++ [y]) - ln_m xs` (`*_chain_rule`, and `*_chain_rule_stat` on an arbitrary valid statistic),
  normalisation of the predictive (`*_pp_normalised`: Bernoulli two-point sum, Categorical finite sum, Poisson
  `HasSum` over ℕ), and the integral form `m xs = ∫ (Π likelihood) · prior` for the three one-dimensional priors
  (`*_m_integral`), with likelihood and prior density taken from the generated `Bernoulli::f`, `Poisson::f`,
  `Beta::ln_f`, `UnitPowerLaw::ln_f`, `Gamma::ln_f`.

  Gamma–Poisson: `ln_m` subtracts `Gen.ln_fact y` while `ln_pp` subtracts `lgamma (y+1)`; the chain rule therefore
  holds exactly up to the term `ln_fact y - ln Γ(y+1)` (`Gamma_Poisson_chain_rule_exact`), which vanishes for `y ≤ 2`
  (`ln_fact_small`) and is the table / Stirling error of `misc::ln_fact` otherwise (≈ 1/(360 (y+1)³) for y ≥ 254,
  1.0e-10 at y = 300 on the real implementation).

  Helper lemmas: `RvModel/Lemmas/C06.lean` (namespace `C06L`).
-/
set_option linter.unusedSimpArgs false
open Real C06L

namespace C06

/-! ## Beta – Bernoulli -/

-- @site Beta.ln_m_bool_Bernoulli
theorem Beta_Bernoulli_ln_m_cached (pr : Gen.Beta R) (x : DataOrSuffStat Bool BStat) :
    Gen.Beta.ln_m_bool_Bernoulli pr x
      = Gen.Beta.ln_m_with_cache_bool_Bernoulli pr (Gen.Beta.ln_m_cache_bool_Bernoulli pr) x := rfl

-- @site Beta.ln_pp_bool_Bernoulli
theorem Beta_Bernoulli_ln_pp_cached (pr : Gen.Beta R) (y : Bool) (x : DataOrSuffStat Bool BStat) :
    Gen.Beta.ln_pp_bool_Bernoulli pr y x
      = Gen.Beta.ln_pp_with_cache_bool_Bernoulli pr (Gen.Beta.ln_pp_cache_bool_Bernoulli pr x) y := rfl

-- @site Beta.ln_m_bool_Bernoulli
theorem Beta_Bernoulli_ln_m_data_eq_stat (pr : Gen.Beta R) (xs : List Bool) :
    Gen.Beta.ln_m_bool_Bernoulli pr (.data xs) = Gen.Beta.ln_m_bool_Bernoulli pr (.suffStat (bfold xs)) := rfl

-- @site Beta.ln_pp_bool_Bernoulli
theorem Beta_Bernoulli_ln_pp_data_eq_stat (pr : Gen.Beta R) (y : Bool) (xs : List Bool) :
    Gen.Beta.ln_pp_bool_Bernoulli pr y (.data xs) = Gen.Beta.ln_pp_bool_Bernoulli pr y (.suffStat (bfold xs)) := rfl

-- @site Beta.ln_m_bool_Bernoulli
theorem Beta_Bernoulli_ln_m_empty (pr : Gen.Beta R) (hα : 0 < pr.alpha.val) (hβ : 0 < pr.beta.val) :
    (Gen.Beta.ln_m_bool_Bernoulli pr (.data [])).val = 0 := by
  rw [Beta_Bernoulli_ln_m_data_eq_stat]
  simp only [Gen.Beta.ln_m_bool_Bernoulli, Gen.Beta.ln_m_with_cache_bool_Bernoulli, Gen.Beta.ln_m_cache_bool_Bernoulli,
    Beta_post_stat pr _ hα hβ, Gen.Beta.get_alpha, Gen.Beta.get_beta, bfold, List.foldl_nil, Gen.BernoulliSuffStat.new,
    R.sub_val, R.lnBeta_val, R.add_val, R.ofNatR_val]
  simp

-- @site Beta.ln_pp_bool_Bernoulli
theorem Beta_Bernoulli_chain_rule_stat (pr : Gen.Beta R) (S : BStat) (y : Bool)
    (hα : 0 < pr.alpha.val) (hβ : 0 < pr.beta.val) (hk : S.k ≤ S.n) :
    (Gen.Beta.ln_pp_bool_Bernoulli pr y (.suffStat S)).val
      = (Gen.Beta.ln_m_bool_Bernoulli pr (.suffStat (Gen.BernoulliSuffStat.observe_bool S y))).val
        - (Gen.Beta.ln_m_bool_Bernoulli pr (.suffStat S)).val := by
  simp only [Gen.Beta.ln_pp_bool_Bernoulli, Gen.Beta.ln_pp_cache_bool_Bernoulli, Gen.Beta.ln_pp_with_cache_bool_Bernoulli,
    Gen.Beta.mean_real, Option.getD_some,
    Gen.Beta.ln_m_bool_Bernoulli, Gen.Beta.ln_m_with_cache_bool_Bernoulli, Gen.Beta.ln_m_cache_bool_Bernoulli,
    Beta_post_stat pr _ hα hβ, Gen.Beta.get_alpha, Gen.Beta.get_beta,
    R.sub_val, R.lnBeta_val, R.add_val, R.ofNatR_val, R.ln_val, R.div_val, lit1]
  have ha : 0 < pr.alpha.val + (S.k : ℝ) := by positivity
  have hb : 0 < pr.beta.val + ((S.n - S.k : ℕ) : ℝ) := by positivity
  cases y
  · have h := lnB_step_right (a := pr.alpha.val + (S.k : ℝ)) (b := pr.beta.val + ((S.n - S.k : ℕ) : ℝ))
      (a' := pr.alpha.val + ((Gen.BernoulliSuffStat.observe_bool S false).k : ℝ))
      (b' := pr.beta.val + (((Gen.BernoulliSuffStat.observe_bool S false).n - (Gen.BernoulliSuffStat.observe_bool S false).k : ℕ) : ℝ))
      ha hb (by simp [Gen.BernoulliSuffStat.observe_bool])
      (by simp only [Gen.BernoulliSuffStat.observe_bool]; simp; rw [Nat.sub_add_comm hk]; push_cast; ring)
    have e : 1 - (pr.alpha.val + (S.k : ℝ)) / (pr.alpha.val + (S.k : ℝ) + (pr.beta.val + ((S.n - S.k : ℕ) : ℝ)))
        = (pr.beta.val + ((S.n - S.k : ℕ) : ℝ)) / (pr.alpha.val + (S.k : ℝ) + (pr.beta.val + ((S.n - S.k : ℕ) : ℝ))) := by
      field_simp; ring
    simp only [Bool.false_eq_true, if_false, R.ln_val, R.sub_val, R.div_val, R.add_val, R.ofNatR_val, lit1, e]
    linarith
  · have h := lnB_step_left (a := pr.alpha.val + (S.k : ℝ)) (b := pr.beta.val + ((S.n - S.k : ℕ) : ℝ))
      (a' := pr.alpha.val + ((Gen.BernoulliSuffStat.observe_bool S true).k : ℝ))
      (b' := pr.beta.val + (((Gen.BernoulliSuffStat.observe_bool S true).n - (Gen.BernoulliSuffStat.observe_bool S true).k : ℕ) : ℝ))
      ha hb (by simp [Gen.BernoulliSuffStat.observe_bool]; ring)
      (by simp [Gen.BernoulliSuffStat.observe_bool])
    simp only [if_true, R.ln_val, R.sub_val, R.div_val, R.add_val, R.ofNatR_val, lit1]
    linarith

-- @site Beta.ln_pp_bool_Bernoulli
theorem Beta_Bernoulli_chain_rule (pr : Gen.Beta R) (xs : List Bool) (y : Bool)
    (hα : 0 < pr.alpha.val) (hβ : 0 < pr.beta.val) :
    (Gen.Beta.ln_pp_bool_Bernoulli pr y (.data xs)).val
      = (Gen.Beta.ln_m_bool_Bernoulli pr (.data (xs ++ [y]))).val - (Gen.Beta.ln_m_bool_Bernoulli pr (.data xs)).val := by
  rw [Beta_Bernoulli_ln_pp_data_eq_stat, Beta_Bernoulli_ln_m_data_eq_stat, Beta_Bernoulli_ln_m_data_eq_stat, bfold_append]
  exact Beta_Bernoulli_chain_rule_stat pr (bfold xs) y hα hβ (bfold_le xs)

-- @site Beta.ln_m_bool_Bernoulli
theorem Beta_Bernoulli_ln_m_perm (pr : Gen.Beta R) {xs ys : List Bool} (h : xs.Perm ys) :
    Gen.Beta.ln_m_bool_Bernoulli pr (.data xs) = Gen.Beta.ln_m_bool_Bernoulli pr (.data ys) := by
  rw [Beta_Bernoulli_ln_m_data_eq_stat, Beta_Bernoulli_ln_m_data_eq_stat, bfold, bfold, BernStat_fold_perm h]

-- @site Beta.ln_pp_bool_Bernoulli
theorem Beta_Bernoulli_ln_pp_perm (pr : Gen.Beta R) (y : Bool) {xs ys : List Bool} (h : xs.Perm ys) :
    Gen.Beta.ln_pp_bool_Bernoulli pr y (.data xs) = Gen.Beta.ln_pp_bool_Bernoulli pr y (.data ys) := by
  rw [Beta_Bernoulli_ln_pp_data_eq_stat, Beta_Bernoulli_ln_pp_data_eq_stat, bfold, bfold, BernStat_fold_perm h]

-- @site Beta.m_bool_Bernoulli
theorem Beta_Bernoulli_m_eq_exp (pr : Gen.Beta R) (x : DataOrSuffStat Bool BStat) :
    Gen.Beta.m_bool_Bernoulli pr x = RealLike.exp (Gen.Beta.ln_m_bool_Bernoulli pr x) := rfl

-- @site Beta.pp_bool_Bernoulli
theorem Beta_Bernoulli_pp_eq_exp (pr : Gen.Beta R) (y : Bool) (x : DataOrSuffStat Bool BStat) :
    Gen.Beta.pp_bool_Bernoulli pr y x = RealLike.exp (Gen.Beta.ln_pp_bool_Bernoulli pr y x) := rfl

-- @site Beta.pp_with_cache_bool_Bernoulli
theorem Beta_Bernoulli_pp_with_cache_eq_exp (pr : Gen.Beta R) (c : R × R) (y : Bool) :
    Gen.Beta.pp_with_cache_bool_Bernoulli pr c y = RealLike.exp (Gen.Beta.ln_pp_with_cache_bool_Bernoulli pr c y) := rfl

-- @site Beta.pp_bool_Bernoulli
theorem Beta_Bernoulli_pp_normalised_stat (pr : Gen.Beta R) (S : BStat)
    (hα : 0 < pr.alpha.val) (hβ : 0 < pr.beta.val) :
    (Gen.Beta.pp_bool_Bernoulli pr true (.suffStat S)).val + (Gen.Beta.pp_bool_Bernoulli pr false (.suffStat S)).val = 1 := by
  simp only [Gen.Beta.pp_bool_Bernoulli, Gen.Beta.ln_pp_bool_Bernoulli, Gen.Beta.ln_pp_cache_bool_Bernoulli,
    Gen.Beta.ln_pp_with_cache_bool_Bernoulli, Gen.Beta.mean_real, Option.getD_some, Beta_post_stat pr _ hα hβ,
    if_true, Bool.false_eq_true, if_false, R.exp_val, R.ln_val, R.sub_val, R.div_val, R.add_val, R.ofNatR_val, lit1]
  have ha : 0 < pr.alpha.val + (S.k : ℝ) := by positivity
  have hb : 0 < pr.beta.val + ((S.n - S.k : ℕ) : ℝ) := by positivity
  have e : 1 - (pr.alpha.val + (S.k : ℝ)) / (pr.alpha.val + (S.k : ℝ) + (pr.beta.val + ((S.n - S.k : ℕ) : ℝ)))
      = (pr.beta.val + ((S.n - S.k : ℕ) : ℝ)) / (pr.alpha.val + (S.k : ℝ) + (pr.beta.val + ((S.n - S.k : ℕ) : ℝ))) := by
    field_simp; ring
  rw [e, Real.exp_log (by positivity), Real.exp_log (by positivity)]
  field_simp

-- @site Beta.pp_bool_Bernoulli
theorem Beta_Bernoulli_pp_normalised (pr : Gen.Beta R) (xs : List Bool)
    (hα : 0 < pr.alpha.val) (hβ : 0 < pr.beta.val) :
    (Gen.Beta.pp_bool_Bernoulli pr true (.data xs)).val + (Gen.Beta.pp_bool_Bernoulli pr false (.data xs)).val = 1 :=
  Beta_Bernoulli_pp_normalised_stat pr (bfold xs) hα hβ

example : ∃ pr : Gen.Beta R, 0 < pr.alpha.val ∧ 0 < pr.beta.val := ⟨⟨⟨3/2⟩, ⟨5/2⟩⟩, by norm_num, by norm_num⟩

/-! ## UnitPowerLaw – Bernoulli -/

-- @site UnitPowerLaw.ln_m_bool_Bernoulli
theorem UnitPowerLaw_Bernoulli_ln_m_cached (pr : Gen.UnitPowerLaw R) (x : DataOrSuffStat Bool BStat) :
    Gen.UnitPowerLaw.ln_m_bool_Bernoulli pr x
      = Gen.UnitPowerLaw.ln_m_with_cache_bool_Bernoulli pr (Gen.UnitPowerLaw.ln_m_cache_bool_Bernoulli pr) x := rfl

-- @site UnitPowerLaw.ln_pp_bool_Bernoulli
theorem UnitPowerLaw_Bernoulli_ln_pp_cached (pr : Gen.UnitPowerLaw R) (y : Bool) (x : DataOrSuffStat Bool BStat) :
    Gen.UnitPowerLaw.ln_pp_bool_Bernoulli pr y x
      = Gen.UnitPowerLaw.ln_pp_with_cache_bool_Bernoulli pr (Gen.UnitPowerLaw.ln_pp_cache_bool_Bernoulli pr x) y := rfl

-- @site UnitPowerLaw.m_bool_Bernoulli
theorem UnitPowerLaw_Bernoulli_m_eq_exp (pr : Gen.UnitPowerLaw R) (x : DataOrSuffStat Bool BStat) :
    Gen.UnitPowerLaw.m_bool_Bernoulli pr x = RealLike.exp (Gen.UnitPowerLaw.ln_m_bool_Bernoulli pr x) := rfl

-- @site UnitPowerLaw.pp_bool_Bernoulli
theorem UnitPowerLaw_Bernoulli_pp_eq_exp (pr : Gen.UnitPowerLaw R) (y : Bool) (x : DataOrSuffStat Bool BStat) :
    Gen.UnitPowerLaw.pp_bool_Bernoulli pr y x = RealLike.exp (Gen.UnitPowerLaw.ln_pp_bool_Bernoulli pr y x) := rfl

-- @site UnitPowerLaw.pp_with_cache_bool_Bernoulli
theorem UnitPowerLaw_Bernoulli_pp_with_cache_eq_exp (pr : Gen.UnitPowerLaw R) (c : R × R) (y : Bool) :
    Gen.UnitPowerLaw.pp_with_cache_bool_Bernoulli pr c y
      = RealLike.exp (Gen.UnitPowerLaw.ln_pp_with_cache_bool_Bernoulli pr c y) := rfl

-- @site UnitPowerLaw.ln_m_bool_Bernoulli
theorem UnitPowerLaw_Bernoulli_ln_m_data_eq_stat (pr : Gen.UnitPowerLaw R) (xs : List Bool) :
    Gen.UnitPowerLaw.ln_m_bool_Bernoulli pr (.data xs) = Gen.UnitPowerLaw.ln_m_bool_Bernoulli pr (.suffStat (bfold xs)) := rfl

-- @site UnitPowerLaw.ln_pp_bool_Bernoulli
theorem UnitPowerLaw_Bernoulli_ln_pp_data_eq_stat (pr : Gen.UnitPowerLaw R) (y : Bool) (xs : List Bool) :
    Gen.UnitPowerLaw.ln_pp_bool_Bernoulli pr y (.data xs)
      = Gen.UnitPowerLaw.ln_pp_bool_Bernoulli pr y (.suffStat (bfold xs)) := rfl

-- @site UnitPowerLaw.ln_m_bool_Bernoulli
theorem UnitPowerLaw_Bernoulli_ln_m_empty (pr : Gen.UnitPowerLaw R) (hα : 0 < pr.alpha.val) :
    (Gen.UnitPowerLaw.ln_m_bool_Bernoulli pr (.data [])).val = 0 := by
  rw [UnitPowerLaw_Bernoulli_ln_m_data_eq_stat]
  simp only [Gen.UnitPowerLaw.ln_m_bool_Bernoulli, Gen.UnitPowerLaw.ln_m_with_cache_bool_Bernoulli,
    Gen.UnitPowerLaw.ln_m_cache_bool_Bernoulli, Gen.UnitPowerLaw.alpha_ln,
    UPL_post_stat pr _ hα, Gen.Beta.get_alpha, Gen.Beta.get_beta, bfold, List.foldl_nil, Gen.BernoulliSuffStat.new,
    R.sub_val, R.neg_val, R.ln_val, R.lnBeta_val, R.add_val, R.ofNatR_val]
  have := lnB_one hα
  simp only [Nat.sub_self, Nat.add_zero, Nat.cast_zero, Nat.cast_one, add_zero]
  linarith

-- @site UnitPowerLaw.ln_pp_bool_Bernoulli
theorem UnitPowerLaw_Bernoulli_chain_rule_stat (pr : Gen.UnitPowerLaw R) (S : BStat) (y : Bool)
    (hα : 0 < pr.alpha.val) (hk : S.k ≤ S.n) :
    (Gen.UnitPowerLaw.ln_pp_bool_Bernoulli pr y (.suffStat S)).val
      = (Gen.UnitPowerLaw.ln_m_bool_Bernoulli pr (.suffStat (Gen.BernoulliSuffStat.observe_bool S y))).val
        - (Gen.UnitPowerLaw.ln_m_bool_Bernoulli pr (.suffStat S)).val := by
  have ha : 0 < pr.alpha.val + (S.k : ℝ) := by positivity
  have hb : 0 < ((1 + (S.n - S.k) : ℕ) : ℝ) := by push_cast; positivity
  cases y
  · have h := lnB_step_right (a := pr.alpha.val + (S.k : ℝ)) (b := ((1 + (S.n - S.k) : ℕ) : ℝ))
      (a' := pr.alpha.val + ((Gen.BernoulliSuffStat.observe_bool S false).k : ℝ))
      (b' := ((1 + ((Gen.BernoulliSuffStat.observe_bool S false).n - (Gen.BernoulliSuffStat.observe_bool S false).k) : ℕ) : ℝ))
      ha hb (by simp [Gen.BernoulliSuffStat.observe_bool])
      (by simp only [Gen.BernoulliSuffStat.observe_bool]; simp; rw [Nat.sub_add_comm hk]; push_cast; ring)
    have e : 1 - (pr.alpha.val + (S.k : ℝ)) / (pr.alpha.val + (S.k : ℝ) + ((1 + (S.n - S.k) : ℕ) : ℝ))
        = ((1 + (S.n - S.k) : ℕ) : ℝ) / (pr.alpha.val + (S.k : ℝ) + ((1 + (S.n - S.k) : ℕ) : ℝ)) := by
      field_simp; ring
    simp only [Gen.UnitPowerLaw.ln_pp_bool_Bernoulli, Gen.UnitPowerLaw.ln_pp_cache_bool_Bernoulli,
      Gen.UnitPowerLaw.ln_pp_with_cache_bool_Bernoulli, Gen.Beta.mean_real, Option.getD_some,
      Gen.UnitPowerLaw.ln_m_bool_Bernoulli, Gen.UnitPowerLaw.ln_m_with_cache_bool_Bernoulli,
      Gen.UnitPowerLaw.ln_m_cache_bool_Bernoulli, Gen.UnitPowerLaw.alpha_ln,
      UPL_post_stat pr _ hα, Gen.Beta.get_alpha, Gen.Beta.get_beta,
      Bool.false_eq_true, if_false, R.ln_val, R.neg_val, R.sub_val, R.div_val, R.add_val, R.ofNatR_val, R.lnBeta_val, lit1, e]
    linarith
  · have h := lnB_step_left (a := pr.alpha.val + (S.k : ℝ)) (b := ((1 + (S.n - S.k) : ℕ) : ℝ))
      (a' := pr.alpha.val + ((Gen.BernoulliSuffStat.observe_bool S true).k : ℝ))
      (b' := ((1 + ((Gen.BernoulliSuffStat.observe_bool S true).n - (Gen.BernoulliSuffStat.observe_bool S true).k) : ℕ) : ℝ))
      ha hb (by simp [Gen.BernoulliSuffStat.observe_bool]; ring)
      (by simp [Gen.BernoulliSuffStat.observe_bool])
    simp only [Gen.UnitPowerLaw.ln_pp_bool_Bernoulli, Gen.UnitPowerLaw.ln_pp_cache_bool_Bernoulli,
      Gen.UnitPowerLaw.ln_pp_with_cache_bool_Bernoulli, Gen.Beta.mean_real, Option.getD_some,
      Gen.UnitPowerLaw.ln_m_bool_Bernoulli, Gen.UnitPowerLaw.ln_m_with_cache_bool_Bernoulli,
      Gen.UnitPowerLaw.ln_m_cache_bool_Bernoulli, Gen.UnitPowerLaw.alpha_ln,
      UPL_post_stat pr _ hα, Gen.Beta.get_alpha, Gen.Beta.get_beta,
      if_true, R.ln_val, R.neg_val, R.sub_val, R.div_val, R.add_val, R.ofNatR_val, R.lnBeta_val, lit1]
    linarith

-- @site UnitPowerLaw.ln_pp_bool_Bernoulli
theorem UnitPowerLaw_Bernoulli_chain_rule (pr : Gen.UnitPowerLaw R) (xs : List Bool) (y : Bool) (hα : 0 < pr.alpha.val) :
    (Gen.UnitPowerLaw.ln_pp_bool_Bernoulli pr y (.data xs)).val
      = (Gen.UnitPowerLaw.ln_m_bool_Bernoulli pr (.data (xs ++ [y]))).val
        - (Gen.UnitPowerLaw.ln_m_bool_Bernoulli pr (.data xs)).val := by
  rw [UnitPowerLaw_Bernoulli_ln_pp_data_eq_stat, UnitPowerLaw_Bernoulli_ln_m_data_eq_stat,
    UnitPowerLaw_Bernoulli_ln_m_data_eq_stat, bfold_append]
  exact UnitPowerLaw_Bernoulli_chain_rule_stat pr (bfold xs) y hα (bfold_le xs)

-- @site UnitPowerLaw.ln_m_bool_Bernoulli
theorem UnitPowerLaw_Bernoulli_ln_m_perm (pr : Gen.UnitPowerLaw R) {xs ys : List Bool} (h : xs.Perm ys) :
    Gen.UnitPowerLaw.ln_m_bool_Bernoulli pr (.data xs) = Gen.UnitPowerLaw.ln_m_bool_Bernoulli pr (.data ys) := by
  rw [UnitPowerLaw_Bernoulli_ln_m_data_eq_stat, UnitPowerLaw_Bernoulli_ln_m_data_eq_stat, bfold, bfold,
    BernStat_fold_perm h]

-- @site UnitPowerLaw.pp_bool_Bernoulli
theorem UnitPowerLaw_Bernoulli_pp_normalised_stat (pr : Gen.UnitPowerLaw R) (S : BStat) (hα : 0 < pr.alpha.val) :
    (Gen.UnitPowerLaw.pp_bool_Bernoulli pr true (.suffStat S)).val
      + (Gen.UnitPowerLaw.pp_bool_Bernoulli pr false (.suffStat S)).val = 1 := by
  simp only [Gen.UnitPowerLaw.pp_bool_Bernoulli, Gen.UnitPowerLaw.ln_pp_bool_Bernoulli,
    Gen.UnitPowerLaw.ln_pp_cache_bool_Bernoulli, Gen.UnitPowerLaw.ln_pp_with_cache_bool_Bernoulli,
    Gen.Beta.mean_real, Option.getD_some, UPL_post_stat pr _ hα,
    if_true, Bool.false_eq_true, if_false, R.exp_val, R.ln_val, R.sub_val, R.div_val, R.add_val, R.ofNatR_val, lit1]
  have ha : 0 < pr.alpha.val + (S.k : ℝ) := by positivity
  have hb : 0 < ((1 + (S.n - S.k) : ℕ) : ℝ) := by push_cast; positivity
  have e : 1 - (pr.alpha.val + (S.k : ℝ)) / (pr.alpha.val + (S.k : ℝ) + ((1 + (S.n - S.k) : ℕ) : ℝ))
      = ((1 + (S.n - S.k) : ℕ) : ℝ) / (pr.alpha.val + (S.k : ℝ) + ((1 + (S.n - S.k) : ℕ) : ℝ)) := by
    field_simp; ring
  rw [e, Real.exp_log (by positivity), Real.exp_log (by positivity)]
  field_simp

-- @site UnitPowerLaw.pp_bool_Bernoulli
theorem UnitPowerLaw_Bernoulli_pp_normalised (pr : Gen.UnitPowerLaw R) (xs : List Bool) (hα : 0 < pr.alpha.val) :
    (Gen.UnitPowerLaw.pp_bool_Bernoulli pr true (.data xs)).val
      + (Gen.UnitPowerLaw.pp_bool_Bernoulli pr false (.data xs)).val = 1 :=
  UnitPowerLaw_Bernoulli_pp_normalised_stat pr (bfold xs) hα

example : ∃ pr : Gen.UnitPowerLaw R, 0 < pr.alpha.val := ⟨⟨⟨7/2⟩⟩, by norm_num⟩


/-! ## Gamma – Poisson -/

-- @site Gamma.ln_m_nat_Poisson
theorem Gamma_Poisson_ln_m_cached (pr : Gen.Gamma R) (x : DataOrSuffStat Nat PStat) :
    Gen.Gamma.ln_m_nat_Poisson pr x
      = Gen.Gamma.ln_m_with_cache_nat_Poisson pr (Gen.Gamma.ln_m_cache_nat_Poisson pr) x := rfl

-- @site Gamma.ln_pp_nat_Poisson
theorem Gamma_Poisson_ln_pp_cached (pr : Gen.Gamma R) (y : Nat) (x : DataOrSuffStat Nat PStat) :
    Gen.Gamma.ln_pp_nat_Poisson pr y x
      = Gen.Gamma.ln_pp_with_cache_nat_Poisson pr (Gen.Gamma.ln_pp_cache_nat_Poisson pr x) y := rfl

-- @site Gamma.m_nat_Poisson
theorem Gamma_Poisson_m_eq_exp (pr : Gen.Gamma R) (x : DataOrSuffStat Nat PStat) :
    Gen.Gamma.m_nat_Poisson pr x = RealLike.exp (Gen.Gamma.ln_m_nat_Poisson pr x) := rfl

-- @site Gamma.pp_nat_Poisson
theorem Gamma_Poisson_pp_eq_exp (pr : Gen.Gamma R) (y : Nat) (x : DataOrSuffStat Nat PStat) :
    Gen.Gamma.pp_nat_Poisson pr y x = RealLike.exp (Gen.Gamma.ln_pp_nat_Poisson pr y x) := rfl

-- @site Gamma.pp_with_cache_nat_Poisson
theorem Gamma_Poisson_pp_with_cache_eq_exp (pr : Gen.Gamma R) (c : R × R × R) (y : Nat) :
    Gen.Gamma.pp_with_cache_nat_Poisson pr c y = RealLike.exp (Gen.Gamma.ln_pp_with_cache_nat_Poisson pr c y) := rfl

-- @site Gamma.ln_m_nat_Poisson
theorem Gamma_Poisson_ln_m_data_eq_stat (pr : Gen.Gamma R) (xs : List Nat) :
    Gen.Gamma.ln_m_nat_Poisson pr (.data xs) = Gen.Gamma.ln_m_nat_Poisson pr (.suffStat (pfold xs)) := rfl

-- @site Gamma.ln_pp_nat_Poisson
theorem Gamma_Poisson_ln_pp_data_eq_stat (pr : Gen.Gamma R) (y : Nat) (xs : List Nat) :
    Gen.Gamma.ln_pp_nat_Poisson pr y (.data xs) = Gen.Gamma.ln_pp_nat_Poisson pr y (.suffStat (pfold xs)) := rfl

-- @site Gamma.ln_m_nat_Poisson
theorem Gamma_Poisson_ln_m_empty (pr : Gen.Gamma R) (hs : 0 < pr.shape.val) (hr : 0 < pr.rate.val) :
    (Gen.Gamma.ln_m_nat_Poisson pr (.data [])).val = 0 := by
  rw [Gamma_Poisson_ln_m_data_eq_stat]
  have h0 : (0:ℝ) ≤ (Gen.PoissonSuffStat.new (α := R)).sum.val := by
    simp only [Gen.PoissonSuffStat.new, lit0]; exact le_refl _
  simp only [Gen.Gamma.ln_m_nat_Poisson, Gen.Gamma.ln_m_with_cache_nat_Poisson, Gen.Gamma.ln_m_cache_nat_Poisson,
    pfold, List.foldl_nil, Gamma_post_stat pr _ hs hr h0, Gen.Gamma.get_shape, Gen.Gamma.ln_rate,
    Gen.Gamma.ln_gamma_shape, Gen.PoissonSuffStat.get_sum_ln_fact, mulAdd,
    R.sub_val, R.add_val, R.mul_val, R.neg_val, R.ln_val, R.lgamma_val, R.ofNatR_val]
  simp only [Gen.PoissonSuffStat.new, lit0]
  simp

/-- Chain rule on an arbitrary statistic, exact, with the table term made explicit: `ln_m` subtracts
    `Gen.ln_fact y` (a table of binary64 literals below 254, Stirling above) whereas `ln_pp` subtracts
    `lgamma (y+1)` inside `ln_binom`; the two agree only up to the accuracy of the table. -/
-- @site Gamma.ln_pp_nat_Poisson
theorem Gamma_Poisson_chain_rule_stat (pr : Gen.Gamma R) (S : PStat) (y : Nat)
    (hs : 0 < pr.shape.val) (hr : 0 < pr.rate.val) (hsum : 0 ≤ S.sum.val) :
    (Gen.Gamma.ln_pp_nat_Poisson pr y (.suffStat S)).val
      = (Gen.Gamma.ln_m_nat_Poisson pr (.suffStat (Gen.PoissonSuffStat.observe_nat S y))).val
        - (Gen.Gamma.ln_m_nat_Poisson pr (.suffStat S)).val
        + ((Gen.ln_fact y : R).val - Real.log (Real.Gamma ((y : ℝ) + 1))) := by
  have hsum' : 0 ≤ (Gen.PoissonSuffStat.observe_nat S y).sum.val := by
    simp only [Gen.PoissonSuffStat.observe_nat, R.add_val, R.ofNatR_val]; positivity
  have hb : 0 < pr.rate.val + (S.n : ℝ) := by positivity
  have h := gp_chain (a := pr.shape.val + S.sum.val) (b := pr.rate.val + (S.n : ℝ)) (k := (y : ℝ))
    (a' := pr.shape.val + (Gen.PoissonSuffStat.observe_nat S y).sum.val)
    (b' := pr.rate.val + ((Gen.PoissonSuffStat.observe_nat S y).n : ℝ))
    (n1 := (y : ℝ) + (pr.shape.val + S.sum.val) - 1 + 1)
    (n2 := (y : ℝ) + (pr.shape.val + S.sum.val) - 1 - (y : ℝ) + 1) hb
    (by simp only [Gen.PoissonSuffStat.observe_nat, R.add_val, R.ofNatR_val]; ring) (by ring)
    (by simp only [Gen.PoissonSuffStat.observe_nat, R.add_val, R.ofNatR_val]; ring)
    (by simp only [Gen.PoissonSuffStat.observe_nat]; push_cast; ring)
  have e : (Gen.PoissonSuffStat.observe_nat S y).sum_ln_fact.val = S.sum_ln_fact.val + (Gen.ln_fact y : R).val := by
    simp only [Gen.PoissonSuffStat.observe_nat, R.add_val]
  simp only [Gen.Gamma.ln_pp_nat_Poisson, Gen.Gamma.ln_pp_cache_nat_Poisson, Gen.Gamma.ln_pp_with_cache_nat_Poisson,
    Gen.ln_binom, Gen.Gamma.ln_m_nat_Poisson, Gen.Gamma.ln_m_with_cache_nat_Poisson, Gen.Gamma.ln_m_cache_nat_Poisson,
    Gamma_post_stat pr _ hs hr hsum, Gamma_post_stat pr _ hs hr hsum',
    Gen.Gamma.get_shape, Gen.Gamma.get_rate, Gen.Gamma.ln_rate, Gen.Gamma.ln_gamma_shape,
    Gen.PoissonSuffStat.get_sum_ln_fact, mulAdd, e,
    R.sub_val, R.add_val, R.mul_val, R.div_val, R.neg_val, R.ln_val, R.lgamma_val, R.ofNatR_val, lit1]
  linarith

-- @site Gamma.ln_pp_nat_Poisson
theorem Gamma_Poisson_chain_rule_exact (pr : Gen.Gamma R) (xs : List Nat) (y : Nat)
    (hs : 0 < pr.shape.val) (hr : 0 < pr.rate.val) :
    (Gen.Gamma.ln_pp_nat_Poisson pr y (.data xs)).val
      = (Gen.Gamma.ln_m_nat_Poisson pr (.data (xs ++ [y]))).val - (Gen.Gamma.ln_m_nat_Poisson pr (.data xs)).val
        + ((Gen.ln_fact y : R).val - Real.log (Real.Gamma ((y : ℝ) + 1))) := by
  rw [Gamma_Poisson_ln_pp_data_eq_stat, Gamma_Poisson_ln_m_data_eq_stat, Gamma_Poisson_ln_m_data_eq_stat, pfold_append]
  exact Gamma_Poisson_chain_rule_stat pr (pfold xs) y hs hr (pfold_sum_nonneg xs)

/-- Chain rule under the idealisation `ln_fact y = ln Γ(y+1)` (exact for `y ≤ 2`, see `ln_fact_small`;
    for other `y` the model's table entry is a decimal literal, hence the explicit hypothesis). -/
-- @site Gamma.ln_pp_nat_Poisson
theorem Gamma_Poisson_chain_rule (pr : Gen.Gamma R) (xs : List Nat) (y : Nat)
    (hs : 0 < pr.shape.val) (hr : 0 < pr.rate.val)
    (hfact : (Gen.ln_fact y : R).val = Real.log (Real.Gamma ((y : ℝ) + 1))) :
    (Gen.Gamma.ln_pp_nat_Poisson pr y (.data xs)).val
      = (Gen.Gamma.ln_m_nat_Poisson pr (.data (xs ++ [y]))).val - (Gen.Gamma.ln_m_nat_Poisson pr (.data xs)).val := by
  rw [Gamma_Poisson_chain_rule_exact pr xs y hs hr, hfact]; ring

-- @site ln_fact
set_option maxRecDepth 8000 in
theorem ln_fact_small (y : Nat) (hy : y ≤ 2) :
    (Gen.ln_fact y : R).val = Real.log (Real.Gamma ((y : ℝ) + 1)) := by
  have e0 : (Gen.ln_fact 0 : R).val = 0 := by
    unfold Gen.ln_fact; rw [if_pos (by decide)]
    show (OfScientific.ofScientific 0 true 15 : R).val = 0
    simp only [R.sci_val]; norm_num
  have e1 : (Gen.ln_fact 1 : R).val = 0 := by
    unfold Gen.ln_fact; rw [if_pos (by decide)]
    show (OfScientific.ofScientific 0 true 15 : R).val = 0
    simp only [R.sci_val]; norm_num
  have e2 : (Gen.ln_fact 2 : R).val = Real.log 2 := by
    unfold Gen.ln_fact; rw [if_pos (by decide)]
    show (RealLike.ln2 : R).val = Real.log 2
    rfl
  have g3 : Real.Gamma ((2:ℕ) + 1 : ℝ) = 2 := by
    rw [Real.Gamma_nat_eq_factorial]; norm_num [Nat.factorial]
  interval_cases y
  · rw [e0]; simp
  · rw [e1]; norm_num [Real.Gamma_two]
  · rw [e2, g3]

-- @site Gamma.ln_m_nat_Poisson
theorem Gamma_Poisson_ln_m_perm (pr : Gen.Gamma R) {xs ys : List Nat} (h : xs.Perm ys) :
    Gen.Gamma.ln_m_nat_Poisson pr (.data xs) = Gen.Gamma.ln_m_nat_Poisson pr (.data ys) := by
  rw [Gamma_Poisson_ln_m_data_eq_stat, Gamma_Poisson_ln_m_data_eq_stat, pfold, pfold, PoisStat_fold_perm h]

example : ∃ pr : Gen.Gamma R, 0 < pr.shape.val ∧ 0 < pr.rate.val := ⟨⟨⟨2⟩, ⟨6/5⟩⟩, by norm_num, by norm_num⟩


/-! ## Dirichlet – Categorical -/

-- @site Dirichlet.ln_m_nat_Categorical
theorem Dirichlet_Categorical_ln_m_cached (pr : Gen.Dirichlet R) (x : DataOrSuffStat Nat CStat) :
    Gen.Dirichlet.ln_m_nat_Categorical pr x
      = Gen.Dirichlet.ln_m_with_cache_nat_Categorical pr (Gen.Dirichlet.ln_m_cache_nat_Categorical pr) x := rfl

-- @site Dirichlet.ln_pp_nat_Categorical
theorem Dirichlet_Categorical_ln_pp_cached (pr : Gen.Dirichlet R) (y : Nat) (x : DataOrSuffStat Nat CStat) :
    Gen.Dirichlet.ln_pp_nat_Categorical pr y x
      = Gen.Dirichlet.ln_pp_with_cache_nat_Categorical pr (Gen.Dirichlet.ln_pp_cache_nat_Categorical pr x) y := rfl

-- @site Dirichlet.m_nat_Categorical
theorem Dirichlet_Categorical_m_eq_exp (pr : Gen.Dirichlet R) (x : DataOrSuffStat Nat CStat) :
    Gen.Dirichlet.m_nat_Categorical pr x = RealLike.exp (Gen.Dirichlet.ln_m_nat_Categorical pr x) := rfl

-- @site Dirichlet.pp_nat_Categorical
theorem Dirichlet_Categorical_pp_eq_exp (pr : Gen.Dirichlet R) (y : Nat) (x : DataOrSuffStat Nat CStat) :
    Gen.Dirichlet.pp_nat_Categorical pr y x = RealLike.exp (Gen.Dirichlet.ln_pp_nat_Categorical pr y x) := rfl

-- @site Dirichlet.pp_with_cache_nat_Categorical
theorem Dirichlet_Categorical_pp_with_cache_eq_exp (pr : Gen.Dirichlet R) (c : List R × R) (y : Nat) :
    Gen.Dirichlet.pp_with_cache_nat_Categorical pr c y
      = RealLike.exp (Gen.Dirichlet.ln_pp_with_cache_nat_Categorical pr c y) := rfl

-- @site Dirichlet.ln_m_nat_Categorical
theorem Dirichlet_Categorical_ln_m_data_eq_stat (pr : Gen.Dirichlet R) (xs : List Nat) :
    Gen.Dirichlet.ln_m_nat_Categorical pr (.data xs)
      = Gen.Dirichlet.ln_m_nat_Categorical pr (.suffStat (cfold pr.alphas.length xs)) := rfl

-- @site Dirichlet.ln_pp_nat_Categorical
theorem Dirichlet_Categorical_ln_pp_data_eq_stat (pr : Gen.Dirichlet R) (y : Nat) (xs : List Nat) :
    Gen.Dirichlet.ln_pp_nat_Categorical pr y (.data xs)
      = Gen.Dirichlet.ln_pp_nat_Categorical pr y (.suffStat (cfold pr.alphas.length xs)) := rfl

-- @site Dirichlet.ln_m_nat_Categorical
theorem Dirichlet_Categorical_ln_m_empty (pr : Gen.Dirichlet R) :
    (Gen.Dirichlet.ln_m_nat_Categorical pr (.data [])).val = 0 := by
  rw [Dirichlet_Categorical_ln_m_data_eq_stat, Dir_ln_m_val]
  have h := zsum_replicate (fun a c => Real.log (Real.Gamma (a.val + c.val))) (0.0 : R) pr.alphas
  simp only [lit0, add_zero] at h
  simp only [cfold, List.foldl_nil, Gen.CategoricalSuffStat.new, h]
  simp

-- @site Dirichlet.ln_pp_nat_Categorical
theorem Dirichlet_Categorical_chain_rule_stat (pr : Gen.Dirichlet R) (S : CStat) (y : Nat) (hne : pr.alphas ≠ [])
    (hpos : ∀ a ∈ pr.alphas, 0 < a.val) (hS : CatInv pr.alphas.length S) (hy : y < pr.alphas.length) :
    (Gen.Dirichlet.ln_pp_nat_Categorical pr y (.suffStat S)).val
      = (Gen.Dirichlet.ln_m_nat_Categorical pr (.suffStat (Gen.CategoricalSuffStat.observe_nat S y))).val
        - (Gen.Dirichlet.ln_m_nat_Categorical pr (.suffStat S)).val := by
  obtain ⟨h1, h2, h3⟩ := hS
  have hy' : y < S.counts.length := by omega
  have hA := alphas_sum_pos pr.alphas hne hpos
  have ha : 0 < (pr.alphas.getD y RealLike.nan).val := by
    rw [List.getD_eq_getElem?_getD, List.getElem?_eq_getElem hy, Option.getD_some]
    exact hpos _ (List.getElem_mem hy)
  have hc : 0 ≤ (S.counts.getD y RealLike.nan).val := by
    rw [List.getD_eq_getElem?_getD, List.getElem?_eq_getElem hy', Option.getD_some]
    exact h2 _ (List.getElem_mem hy')
  rw [Dir_ln_pp_val pr S y hne hpos ⟨h1, h2, h3⟩, Dir_ln_m_val, Dir_ln_m_val, postAlphas_sum _ _ h1.symm, h3,
    postAlphas, getD_zip_map _ _ _ _ RealLike.nan _ hy hy']
  have hz := zsum_set (fun a c => Real.log (Real.Gamma (a.val + c.val))) pr.alphas S.counts y
    (S.counts.getD y RealLike.nan + (1.0 : R)) RealLike.nan hy hy'
  simp only [R.add_val, lit1] at hz
  have g1 := lgamma_step (x := (pr.alphas.getD y RealLike.nan).val + (S.counts.getD y RealLike.nan).val)
    (x' := (pr.alphas.getD y RealLike.nan).val + ((S.counts.getD y RealLike.nan).val + 1)) (by linarith) (by ring)
  have g2 := lgamma_step (x := (pr.alphas.map R.val).sum + (S.n : ℝ))
    (x' := (pr.alphas.map R.val).sum + ((S.n + 1 : ℕ) : ℝ)) (by positivity) (by push_cast; ring)
  simp only [Gen.CategoricalSuffStat.observe_nat, idxR, hz, R.add_val]
  linarith


-- @site Dirichlet.ln_pp_nat_Categorical
theorem Dirichlet_Categorical_chain_rule (pr : Gen.Dirichlet R) (xs : List Nat) (y : Nat) (hne : pr.alphas ≠ [])
    (hpos : ∀ a ∈ pr.alphas, 0 < a.val) (hxs : ∀ x ∈ xs, x < pr.alphas.length) (hy : y < pr.alphas.length) :
    (Gen.Dirichlet.ln_pp_nat_Categorical pr y (.data xs)).val
      = (Gen.Dirichlet.ln_m_nat_Categorical pr (.data (xs ++ [y]))).val
        - (Gen.Dirichlet.ln_m_nat_Categorical pr (.data xs)).val := by
  rw [Dirichlet_Categorical_ln_pp_data_eq_stat, Dirichlet_Categorical_ln_m_data_eq_stat,
    Dirichlet_Categorical_ln_m_data_eq_stat, cfold_append]
  exact Dirichlet_Categorical_chain_rule_stat pr _ y hne hpos (cfold_inv _ xs hxs) hy

-- @site Dirichlet.ln_m_nat_Categorical
theorem Dirichlet_Categorical_ln_m_perm (pr : Gen.Dirichlet R) {xs ys : List Nat} (h : xs.Perm ys) :
    Gen.Dirichlet.ln_m_nat_Categorical pr (.data xs) = Gen.Dirichlet.ln_m_nat_Categorical pr (.data ys) := by
  rw [Dirichlet_Categorical_ln_m_data_eq_stat, Dirichlet_Categorical_ln_m_data_eq_stat, cfold, cfold,
    CatStat_fold_perm h]

-- @site Dirichlet.pp_nat_Categorical
theorem Dirichlet_Categorical_pp_normalised_stat (pr : Gen.Dirichlet R) (S : CStat) (hne : pr.alphas ≠ [])
    (hpos : ∀ a ∈ pr.alphas, 0 < a.val) (hS : CatInv pr.alphas.length S) :
    ((List.range pr.alphas.length).map
      (fun k => (Gen.Dirichlet.pp_nat_Categorical pr k (.suffStat S)).val)).sum = 1 := by
  have hlen : (postAlphas pr.alphas S.counts).length = pr.alphas.length := by simp [postAlphas, hS.1]
  have h := pp_sum_one (postAlphas pr.alphas S.counts) (postAlphas_ne_nil _ _ hne hS.1)
    (postAlphas_pos _ _ hpos hS.2.1)
  rw [hlen] at h
  simp only [Gen.Dirichlet.pp_nat_Categorical, R.exp_val, Dir_ln_pp_val pr S _ hne hpos hS]
  exact h

-- @site Dirichlet.pp_nat_Categorical
theorem Dirichlet_Categorical_pp_normalised (pr : Gen.Dirichlet R) (xs : List Nat) (hne : pr.alphas ≠ [])
    (hpos : ∀ a ∈ pr.alphas, 0 < a.val) (hxs : ∀ x ∈ xs, x < pr.alphas.length) :
    ((List.range pr.alphas.length).map
      (fun k => (Gen.Dirichlet.pp_nat_Categorical pr k (.data xs)).val)).sum = 1 :=
  Dirichlet_Categorical_pp_normalised_stat pr _ hne hpos (cfold_inv _ xs hxs)

example : ∃ pr : Gen.Dirichlet R, pr.alphas ≠ [] ∧ ∀ a ∈ pr.alphas, 0 < a.val :=
  ⟨⟨[⟨1/2⟩, ⟨2⟩, ⟨3⟩]⟩, by simp, by intro a ha; simp at ha; rcases ha with rfl | rfl | rfl <;> norm_num⟩

/-! ## SymmetricDirichlet – Categorical -/

-- @site SymmetricDirichlet.ln_m_nat_Categorical
theorem SymmetricDirichlet_Categorical_ln_m_cached (pr : Gen.SymmetricDirichlet R) (x : DataOrSuffStat Nat CStat) :
    Gen.SymmetricDirichlet.ln_m_nat_Categorical pr x
      = Gen.SymmetricDirichlet.ln_m_with_cache_nat_Categorical pr
          (Gen.SymmetricDirichlet.ln_m_cache_nat_Categorical pr) x := rfl

-- @site SymmetricDirichlet.ln_pp_nat_Categorical
theorem SymmetricDirichlet_Categorical_ln_pp_cached (pr : Gen.SymmetricDirichlet R) (y : Nat)
    (x : DataOrSuffStat Nat CStat) :
    Gen.SymmetricDirichlet.ln_pp_nat_Categorical pr y x
      = Gen.SymmetricDirichlet.ln_pp_with_cache_nat_Categorical pr
          (Gen.SymmetricDirichlet.ln_pp_cache_nat_Categorical pr x) y := rfl

-- @site SymmetricDirichlet.m_nat_Categorical
theorem SymmetricDirichlet_Categorical_m_eq_exp (pr : Gen.SymmetricDirichlet R) (x : DataOrSuffStat Nat CStat) :
    Gen.SymmetricDirichlet.m_nat_Categorical pr x
      = RealLike.exp (Gen.SymmetricDirichlet.ln_m_nat_Categorical pr x) := rfl

-- @site SymmetricDirichlet.pp_nat_Categorical
theorem SymmetricDirichlet_Categorical_pp_eq_exp (pr : Gen.SymmetricDirichlet R) (y : Nat)
    (x : DataOrSuffStat Nat CStat) :
    Gen.SymmetricDirichlet.pp_nat_Categorical pr y x
      = RealLike.exp (Gen.SymmetricDirichlet.ln_pp_nat_Categorical pr y x) := rfl

-- @site SymmetricDirichlet.pp_with_cache_nat_Categorical
theorem SymmetricDirichlet_Categorical_pp_with_cache_eq_exp (pr : Gen.SymmetricDirichlet R) (c : List R × R)
    (y : Nat) :
    Gen.SymmetricDirichlet.pp_with_cache_nat_Categorical pr c y
      = RealLike.exp (Gen.SymmetricDirichlet.ln_pp_with_cache_nat_Categorical pr c y) := rfl

-- @site SymmetricDirichlet.ln_m_nat_Categorical
theorem SymmetricDirichlet_Categorical_ln_m_data_eq_stat (pr : Gen.SymmetricDirichlet R) (xs : List Nat) :
    Gen.SymmetricDirichlet.ln_m_nat_Categorical pr (.data xs)
      = Gen.SymmetricDirichlet.ln_m_nat_Categorical pr (.suffStat (cfold pr.k xs)) := rfl

-- @site SymmetricDirichlet.ln_pp_nat_Categorical
theorem SymmetricDirichlet_Categorical_ln_pp_data_eq_stat (pr : Gen.SymmetricDirichlet R) (y : Nat) (xs : List Nat) :
    Gen.SymmetricDirichlet.ln_pp_nat_Categorical pr y (.data xs)
      = Gen.SymmetricDirichlet.ln_pp_nat_Categorical pr y (.suffStat (cfold pr.k xs)) := rfl

-- @site SymmetricDirichlet.ln_m_nat_Categorical
theorem SymmetricDirichlet_Categorical_ln_m_empty (pr : Gen.SymmetricDirichlet R) :
    (Gen.SymmetricDirichlet.ln_m_nat_Categorical pr (.data [])).val = 0 := by
  rw [SymmetricDirichlet_Categorical_ln_m_data_eq_stat, SymDir_ln_m_val]
  simp only [cfold, List.foldl_nil, Gen.CategoricalSuffStat.new, List.map_replicate, List.sum_replicate, lit0]
  simp
  ring

-- @site SymmetricDirichlet.ln_pp_nat_Categorical
theorem SymmetricDirichlet_Categorical_chain_rule_stat (pr : Gen.SymmetricDirichlet R) (S : CStat) (y : Nat)
    (hα : 0 < pr.alpha.val) (hK : 0 < pr.k) (hS : CatInv pr.k S) (hy : y < pr.k) :
    (Gen.SymmetricDirichlet.ln_pp_nat_Categorical pr y (.suffStat S)).val
      = (Gen.SymmetricDirichlet.ln_m_nat_Categorical pr (.suffStat (Gen.CategoricalSuffStat.observe_nat S y))).val
        - (Gen.SymmetricDirichlet.ln_m_nat_Categorical pr (.suffStat S)).val := by
  obtain ⟨h1, h2, h3⟩ := hS
  have hy' : y < S.counts.length := by omega
  have hc : 0 ≤ (S.counts.getD y RealLike.nan).val := by
    rw [List.getD_eq_getElem?_getD, List.getElem?_eq_getElem hy', Option.getD_some]
    exact h2 _ (List.getElem_mem hy')
  have hg : ((symPost pr.alpha S.counts).getD y RealLike.nan).val
      = pr.alpha.val + (S.counts.getD y RealLike.nan).val := by
    simp [symPost, List.getD_eq_getElem?_getD, List.getElem?_eq_getElem hy']
  rw [SymDir_ln_pp_val pr S y hα hK ⟨h1, h2, h3⟩, SymDir_ln_m_val, SymDir_ln_m_val, symPost,
    sum_map_add_const, h3, h1, ← symPost, hg]
  have hz := sum_set (fun c => Real.log (Real.Gamma (pr.alpha.val + c.val))) S.counts y
    (S.counts.getD y RealLike.nan + (1.0 : R)) RealLike.nan hy'
  simp only [R.add_val, lit1] at hz
  have g1 := lgamma_step (x := pr.alpha.val + (S.counts.getD y RealLike.nan).val)
    (x' := pr.alpha.val + ((S.counts.getD y RealLike.nan).val + 1)) (by linarith) (by ring)
  have hKr : (0:ℝ) < (pr.k : ℝ) := by exact_mod_cast hK
  have g2 := lgamma_step (x := pr.alpha.val * (pr.k : ℝ) + (S.n : ℝ))
    (x' := pr.alpha.val * (pr.k : ℝ) + ((S.n + 1 : ℕ) : ℝ)) (by positivity) (by push_cast; ring)
  have e : (pr.k : ℝ) * pr.alpha.val + (S.n : ℝ) = pr.alpha.val * (pr.k : ℝ) + (S.n : ℝ) := by ring
  simp only [Gen.CategoricalSuffStat.observe_nat, idxR, hz, R.add_val, e]
  linarith

-- @site SymmetricDirichlet.ln_pp_nat_Categorical
theorem SymmetricDirichlet_Categorical_chain_rule (pr : Gen.SymmetricDirichlet R) (xs : List Nat) (y : Nat)
    (hα : 0 < pr.alpha.val) (hK : 0 < pr.k) (hxs : ∀ x ∈ xs, x < pr.k) (hy : y < pr.k) :
    (Gen.SymmetricDirichlet.ln_pp_nat_Categorical pr y (.data xs)).val
      = (Gen.SymmetricDirichlet.ln_m_nat_Categorical pr (.data (xs ++ [y]))).val
        - (Gen.SymmetricDirichlet.ln_m_nat_Categorical pr (.data xs)).val := by
  rw [SymmetricDirichlet_Categorical_ln_pp_data_eq_stat, SymmetricDirichlet_Categorical_ln_m_data_eq_stat,
    SymmetricDirichlet_Categorical_ln_m_data_eq_stat, cfold_append]
  exact SymmetricDirichlet_Categorical_chain_rule_stat pr _ y hα hK (cfold_inv _ xs hxs) hy

-- @site SymmetricDirichlet.ln_m_nat_Categorical
theorem SymmetricDirichlet_Categorical_ln_m_perm (pr : Gen.SymmetricDirichlet R) {xs ys : List Nat}
    (h : xs.Perm ys) :
    Gen.SymmetricDirichlet.ln_m_nat_Categorical pr (.data xs)
      = Gen.SymmetricDirichlet.ln_m_nat_Categorical pr (.data ys) := by
  rw [SymmetricDirichlet_Categorical_ln_m_data_eq_stat, SymmetricDirichlet_Categorical_ln_m_data_eq_stat, cfold, cfold,
    CatStat_fold_perm h]

-- @site SymmetricDirichlet.pp_nat_Categorical
theorem SymmetricDirichlet_Categorical_pp_normalised_stat (pr : Gen.SymmetricDirichlet R) (S : CStat)
    (hα : 0 < pr.alpha.val) (hK : 0 < pr.k) (hS : CatInv pr.k S) :
    ((List.range pr.k).map
      (fun k => (Gen.SymmetricDirichlet.pp_nat_Categorical pr k (.suffStat S)).val)).sum = 1 := by
  have hlen : (symPost pr.alpha S.counts).length = pr.k := by simp [symPost, hS.1]
  have h := pp_sum_one (symPost pr.alpha S.counts) (symPost_ne_nil _ _ _ hK hS.1) (symPost_pos _ _ hα hS.2.1)
  rw [hlen] at h
  simp only [Gen.SymmetricDirichlet.pp_nat_Categorical, R.exp_val, SymDir_ln_pp_val pr S _ hα hK hS]
  exact h

-- @site SymmetricDirichlet.pp_nat_Categorical
theorem SymmetricDirichlet_Categorical_pp_normalised (pr : Gen.SymmetricDirichlet R) (xs : List Nat)
    (hα : 0 < pr.alpha.val) (hK : 0 < pr.k) (hxs : ∀ x ∈ xs, x < pr.k) :
    ((List.range pr.k).map
      (fun k => (Gen.SymmetricDirichlet.pp_nat_Categorical pr k (.data xs)).val)).sum = 1 :=
  SymmetricDirichlet_Categorical_pp_normalised_stat pr _ hα hK (cfold_inv _ xs hxs)

example : ∃ pr : Gen.SymmetricDirichlet R, 0 < pr.alpha.val ∧ 0 < pr.k := ⟨⟨⟨1/2⟩, 4⟩, by norm_num, by norm_num⟩


/-! ## integral form (Beta – Bernoulli) -/

open MeasureTheory ProbabilityTheory in
/-- `m(xs) = ∫₀¹ (Πᵢ Bernoulli(θ).f(xᵢ)) · Beta(α,β).pdf(θ) dθ`; the likelihood factor is the generated
    `Bernoulli::f` (`bernLik θ x = (Gen.Bernoulli.f_bool ⟨θ⟩ x).val`), the prior density Mathlib's `betaPDFReal`. -/
-- @site Beta.m_bool_Bernoulli
theorem Beta_Bernoulli_m_integral (pr : Gen.Beta R) (xs : List Bool) (hα : 0 < pr.alpha.val) (hβ : 0 < pr.beta.val) :
    (Gen.Beta.m_bool_Bernoulli pr (.data xs)).val
      = ∫ θ in Set.Ioo (0:ℝ) 1, (xs.map (bernLik θ)).prod * betaPDFReal pr.alpha.val pr.beta.val θ := by
  have hfun : (fun θ : ℝ => (xs.map (bernLik θ)).prod * betaPDFReal pr.alpha.val pr.beta.val θ)
      = fun θ => (θ ^ (bfold xs).k * (1 - θ) ^ ((bfold xs).n - (bfold xs).k)) * betaPDFReal pr.alpha.val pr.beta.val θ := by
    funext θ
    have h := lik_prod_fold θ xs Gen.BernoulliSuffStat.new (by simp [Gen.BernoulliSuffStat.new])
    simp only [Gen.BernoulliSuffStat.new, pow_zero, Nat.sub_self, mul_one] at h
    rw [h]
    rfl
  rw [hfun, integral_lik_betaPDF hα hβ]
  have ha : 0 < pr.alpha.val + ((bfold xs).k : ℝ) := by positivity
  have hb : 0 < pr.beta.val + (((bfold xs).n - (bfold xs).k : ℕ) : ℝ) := by positivity
  have hB := beta_pos hα hβ
  have hB' := beta_pos ha hb
  rw [Beta_Bernoulli_m_eq_exp, Beta_Bernoulli_ln_m_data_eq_stat]
  simp only [Gen.Beta.ln_m_bool_Bernoulli, Gen.Beta.ln_m_with_cache_bool_Bernoulli, Gen.Beta.ln_m_cache_bool_Bernoulli,
    Beta_post_stat pr _ hα hβ, Gen.Beta.get_alpha, Gen.Beta.get_beta,
    R.exp_val, R.sub_val, R.lnBeta_val, R.add_val, R.ofNatR_val]
  unfold ProbabilityTheory.beta at hB hB' ⊢
  rw [Real.exp_sub, Real.exp_log hB', Real.exp_log hB]

/-! ## further integral forms and the Gamma–Poisson predictive in closed form -/

open MeasureTheory ProbabilityTheory in
/-- the same with the prior density taken from the generated `Beta::ln_f` -/
-- @site Beta.m_bool_Bernoulli
theorem Beta_Bernoulli_m_integral_gen (pr : Gen.Beta R) (xs : List Bool) (hα : 0 < pr.alpha.val) (hβ : 0 < pr.beta.val) :
    (Gen.Beta.m_bool_Bernoulli pr (.data xs)).val
      = ∫ θ in Set.Ioo (0:ℝ) 1, (xs.map (bernLik θ)).prod * Real.exp (Gen.Beta.ln_f_real pr ⟨θ⟩).val := by
  rw [Beta_Bernoulli_m_integral pr xs hα hβ]
  refine setIntegral_congr_fun measurableSet_Ioo fun θ ⟨h0, h1⟩ ↦ ?_
  simp only [Gen.Beta.ln_f_real, Gen.Beta.ln_beta_ab, mulAdd, R.add_val, R.sub_val, R.mul_val, R.ln_val,
    R.lnBeta_val, lit1, beta_pdf_bridge hα hβ h0 h1]

open MeasureTheory ProbabilityTheory in
/-- `m(xs) = ∫₀¹ (Πᵢ Bernoulli(θ).f(xᵢ)) · UnitPowerLaw(α).pdf(θ) dθ`, both factors from the generated model -/
-- @site UnitPowerLaw.m_bool_Bernoulli
theorem UnitPowerLaw_Bernoulli_m_integral (pr : Gen.UnitPowerLaw R) (xs : List Bool) (hα : 0 < pr.alpha.val) :
    (Gen.UnitPowerLaw.m_bool_Bernoulli pr (.data xs)).val
      = ∫ θ in Set.Ioo (0:ℝ) 1, (xs.map (bernLik θ)).prod * Real.exp (Gen.UnitPowerLaw.ln_f_real pr ⟨θ⟩).val := by
  have hcong : ∫ θ in Set.Ioo (0:ℝ) 1, (xs.map (bernLik θ)).prod * Real.exp (Gen.UnitPowerLaw.ln_f_real pr ⟨θ⟩).val
      = ∫ θ in Set.Ioo (0:ℝ) 1, (θ ^ (bfold xs).k * (1 - θ) ^ ((bfold xs).n - (bfold xs).k))
          * betaPDFReal pr.alpha.val 1 θ := by
    refine setIntegral_congr_fun measurableSet_Ioo fun θ ⟨h0, h1⟩ ↦ ?_
    have h := lik_prod_fold θ xs Gen.BernoulliSuffStat.new (by simp [Gen.BernoulliSuffStat.new])
    simp only [Gen.BernoulliSuffStat.new, pow_zero, Nat.sub_self, mul_one] at h
    simp only [Gen.UnitPowerLaw.ln_f_real, Gen.UnitPowerLaw.alpha_ln, mulAdd, R.add_val, R.sub_val, R.mul_val,
      R.ln_val, lit1, upl_pdf_bridge hα h0 h1, h]
    rfl
  rw [hcong, integral_lik_betaPDF hα one_pos]
  have ha : 0 < pr.alpha.val + ((bfold xs).k : ℝ) := by positivity
  have hb : 0 < (1:ℝ) + (((bfold xs).n - (bfold xs).k : ℕ) : ℝ) := by positivity
  have hB' := beta_pos ha hb
  have hG := Real.Gamma_pos_of_pos hα
  rw [UnitPowerLaw_Bernoulli_m_eq_exp, UnitPowerLaw_Bernoulli_ln_m_data_eq_stat]
  simp only [Gen.UnitPowerLaw.ln_m_bool_Bernoulli, Gen.UnitPowerLaw.ln_m_with_cache_bool_Bernoulli,
    Gen.UnitPowerLaw.ln_m_cache_bool_Bernoulli, Gen.UnitPowerLaw.alpha_ln,
    UPL_post_stat pr _ hα, Gen.Beta.get_alpha, Gen.Beta.get_beta,
    R.exp_val, R.sub_val, R.neg_val, R.ln_val, R.lnBeta_val, R.add_val, R.ofNatR_val, Nat.cast_add, Nat.cast_one]
  unfold ProbabilityTheory.beta at hB' ⊢
  rw [Real.Gamma_one, Real.Gamma_add_one hα.ne', sub_neg_eq_add, Real.exp_add, Real.exp_log hB', Real.exp_log hα]
  field_simp

/-- Closed form of the Gamma–Poisson predictive: the negative-binomial mass function with `r = shape + Σx` and
    `p = 1/(1 + rate + n)`. -/
-- @site Gamma.pp_nat_Poisson
theorem Gamma_Poisson_pp_closed_form (pr : Gen.Gamma R) (S : PStat) (y : Nat)
    (hs : 0 < pr.shape.val) (hr : 0 < pr.rate.val) (hsum : 0 ≤ S.sum.val) :
    (Gen.Gamma.pp_nat_Poisson pr y (.suffStat S)).val
      = Real.Gamma ((y : ℝ) + (pr.shape.val + S.sum.val))
          / (Real.Gamma ((y : ℝ) + 1) * Real.Gamma (pr.shape.val + S.sum.val))
        * ((pr.rate.val + (S.n : ℝ)) / (1 + (pr.rate.val + (S.n : ℝ)))) ^ (pr.shape.val + S.sum.val)
        * (1 / (1 + (pr.rate.val + (S.n : ℝ)))) ^ y := by
  have ha : 0 < pr.shape.val + S.sum.val := by positivity
  have hb : 0 < pr.rate.val + (S.n : ℝ) := by positivity
  have h := nb_closed (a := pr.shape.val + S.sum.val) (b := pr.rate.val + (S.n : ℝ)) y
    (n1 := (y : ℝ) + (pr.shape.val + S.sum.val) - 1 + 1)
    (n2 := (y : ℝ) + (pr.shape.val + S.sum.val) - 1 - (y : ℝ) + 1) ha hb (by ring) (by ring)
  simp only [Gen.Gamma.pp_nat_Poisson, Gen.Gamma.ln_pp_nat_Poisson, Gen.Gamma.ln_pp_cache_nat_Poisson,
    Gen.Gamma.ln_pp_with_cache_nat_Poisson, Gen.ln_binom, Gamma_post_stat pr _ hs hr hsum,
    Gen.Gamma.get_shape, Gen.Gamma.get_rate,
    R.exp_val, R.sub_val, R.add_val, R.mul_val, R.div_val, R.ln_val, R.lgamma_val, R.ofNatR_val, lit1]
  exact h

/-- The Gamma–Poisson predictive is a normalised mass function on ℕ (negative-binomial series). -/
-- @site Gamma.pp_nat_Poisson
theorem Gamma_Poisson_pp_normalised_stat (pr : Gen.Gamma R) (S : PStat)
    (hs : 0 < pr.shape.val) (hr : 0 < pr.rate.val) (hsum : 0 ≤ S.sum.val) :
    HasSum (fun y : ℕ => (Gen.Gamma.pp_nat_Poisson pr y (.suffStat S)).val) 1 := by
  have ha : 0 < pr.shape.val + S.sum.val := by positivity
  have hb : 0 < pr.rate.val + (S.n : ℝ) := by positivity
  have h1b : 0 < 1 + (pr.rate.val + (S.n : ℝ)) := by positivity
  have h := negbin_hasSum (a := pr.shape.val + S.sum.val) (p := 1 / (1 + (pr.rate.val + (S.n : ℝ)))) ha
    (by positivity) (by rw [div_lt_one h1b]; linarith)
  have e : 1 - 1 / (1 + (pr.rate.val + (S.n : ℝ))) = (pr.rate.val + (S.n : ℝ)) / (1 + (pr.rate.val + (S.n : ℝ))) := by
    field_simp; ring
  rw [e] at h
  have hf : (fun y : ℕ => (Gen.Gamma.pp_nat_Poisson pr y (.suffStat S)).val)
      = fun n : ℕ => Real.Gamma ((n : ℝ) + (pr.shape.val + S.sum.val))
          / (Real.Gamma ((n : ℝ) + 1) * Real.Gamma (pr.shape.val + S.sum.val))
        * ((pr.rate.val + (S.n : ℝ)) / (1 + (pr.rate.val + (S.n : ℝ)))) ^ (pr.shape.val + S.sum.val)
        * (1 / (1 + (pr.rate.val + (S.n : ℝ)))) ^ n := by
    funext y
    exact Gamma_Poisson_pp_closed_form pr S y hs hr hsum
  rw [hf]
  exact h

-- @site Gamma.pp_nat_Poisson
theorem Gamma_Poisson_pp_normalised (pr : Gen.Gamma R) (xs : List Nat)
    (hs : 0 < pr.shape.val) (hr : 0 < pr.rate.val) :
    HasSum (fun y : ℕ => (Gen.Gamma.pp_nat_Poisson pr y (.data xs)).val) 1 :=
  Gamma_Poisson_pp_normalised_stat pr (pfold xs) hs hr (pfold_sum_nonneg xs)

open MeasureTheory in
/-- `m(xs) = ∫₀^∞ (Πᵢ Poisson(λ).f(xᵢ)) · Gamma(shape, rate).pdf(λ) dλ`, both factors from the generated model
    (`poisLik λ x = (Gen.Poisson.f_nat ⟨λ⟩ x).val`); exact, because `ln_m` and `Poisson::ln_f` use the same
    `ln_fact` table. -/
-- @site Gamma.m_nat_Poisson
theorem Gamma_Poisson_m_integral (pr : Gen.Gamma R) (xs : List Nat) (hs : 0 < pr.shape.val) (hr : 0 < pr.rate.val) :
    (Gen.Gamma.m_nat_Poisson pr (.data xs)).val
      = ∫ lam in Set.Ioi (0:ℝ), (xs.map (poisLik lam)).prod * Real.exp (Gen.Gamma.ln_f_real pr ⟨lam⟩).val := by
  have hfun : (fun lam : ℝ => (xs.map (poisLik lam)).prod * Real.exp (Gen.Gamma.ln_f_real pr ⟨lam⟩).val)
      = fun lam => Real.exp ((pfold xs).sum.val * Real.log lam - ((pfold xs).n : ℝ) * lam - (pfold xs).sum_ln_fact.val)
          * Real.exp ((pr.shape.val * Real.log pr.rate.val + -Real.log (Real.Gamma pr.shape.val))
              + ((pr.shape.val - 1) * Real.log lam + -(pr.rate.val * lam))) := by
    funext lam
    have h := pois_prod_fold lam xs Gen.PoissonSuffStat.new
    simp only [Gen.PoissonSuffStat.new, lit0, Nat.cast_zero, zero_mul, sub_self, Real.exp_zero, mul_one] at h
    rw [h]
    simp only [Gen.Gamma.ln_f_real, Gen.Gamma.ln_rate, Gen.Gamma.ln_gamma_shape, mulAdd, R.add_val, R.sub_val,
      R.mul_val, R.neg_val, R.ln_val, R.lgamma_val, lit1]
    rfl
  rw [hfun, integral_gp hs hr (pfold_sum_nonneg xs) (Nat.cast_nonneg _)]
  rw [Gamma_Poisson_m_eq_exp, Gamma_Poisson_ln_m_data_eq_stat]
  simp only [Gen.Gamma.ln_m_nat_Poisson, Gen.Gamma.ln_m_with_cache_nat_Poisson, Gen.Gamma.ln_m_cache_nat_Poisson,
    Gamma_post_stat pr _ hs hr (pfold_sum_nonneg xs), Gen.Gamma.get_shape, Gen.Gamma.ln_rate,
    Gen.Gamma.ln_gamma_shape, Gen.PoissonSuffStat.get_sum_ln_fact, mulAdd,
    R.exp_val, R.sub_val, R.add_val, R.mul_val, R.neg_val, R.ln_val, R.lgamma_val, R.ofNatR_val]

/-- Dirichlet–Categorical: `m` is the ratio of the Dirichlet normalisers at the posterior and prior concentration
    (`B(α) = Π Γ(αᵢ) / Γ(Σ αᵢ)`).  Full statement of C06.6 would equate this with the integral of
    `Π θ_{xᵢ} · Dirichlet(α).pdf(θ)` over the simplex; missing: Mathlib has no Dirichlet integral. -/
-- @site Dirichlet.m_nat_Categorical
theorem Dirichlet_Categorical_m_integral_partial (pr : Gen.Dirichlet R) (S : CStat) :
    (Gen.Dirichlet.m_nat_Categorical pr (.suffStat S)).val
      = Real.exp ((((List.zip pr.alphas S.counts).map (fun p => Real.log (Real.Gamma (p.1.val + p.2.val)))).sum
            - Real.log (Real.Gamma ((pr.alphas.map R.val).sum + (S.n : ℝ))))
          - ((pr.alphas.map (fun a => Real.log (Real.Gamma a.val))).sum
            - Real.log (Real.Gamma (pr.alphas.map R.val).sum))) := by
  rw [Dirichlet_Categorical_m_eq_exp, R.exp_val, Dir_ln_m_val]
  congr 1
  ring

/-! ## integer-typed (`u8…`) and bool-typed variants of the cached entry points reduce to the ones above -/

-- @site Beta.ln_m_with_cache_nat_Bernoulli
theorem Beta_Bernoulli_ln_m_with_cache_nat (pr : Gen.Beta R) (c : R) (xs : List Nat) :
    Gen.Beta.ln_m_with_cache_nat_Bernoulli pr c (.data xs)
      = Gen.Beta.ln_m_with_cache_bool_Bernoulli pr c (.data (xs.map (· == 1))) := by
  simp only [Gen.Beta.ln_m_with_cache_nat_Bernoulli, Gen.Beta.ln_m_with_cache_bool_Bernoulli,
    Gen.Beta.posterior_nat_Bernoulli, Gen.Beta.posterior_bool_Bernoulli, List.foldl_map]
  rfl

-- @site Beta.ln_pp_cache_nat_Bernoulli
theorem Beta_Bernoulli_ln_pp_cache_nat (pr : Gen.Beta R) (xs : List Nat) :
    Gen.Beta.ln_pp_cache_nat_Bernoulli pr (.data xs) = Gen.Beta.ln_pp_cache_bool_Bernoulli pr (.data (xs.map (· == 1))) := by
  simp only [Gen.Beta.ln_pp_cache_nat_Bernoulli, Gen.Beta.ln_pp_cache_bool_Bernoulli,
    Gen.Beta.posterior_nat_Bernoulli, Gen.Beta.posterior_bool_Bernoulli, List.foldl_map]
  rfl

-- @site Beta.ln_pp_with_cache_nat_Bernoulli
theorem Beta_Bernoulli_ln_pp_with_cache_nat (pr : Gen.Beta R) (c : R × R) (y : Nat) :
    Gen.Beta.ln_pp_with_cache_nat_Bernoulli pr c y = Gen.Beta.ln_pp_with_cache_bool_Bernoulli pr c (y == 1) := rfl

-- @site UnitPowerLaw.ln_m_with_cache_nat_Bernoulli
theorem UnitPowerLaw_Bernoulli_ln_m_with_cache_nat (pr : Gen.UnitPowerLaw R) (c : R) (xs : List Nat) :
    Gen.UnitPowerLaw.ln_m_with_cache_nat_Bernoulli pr c (.data xs)
      = Gen.UnitPowerLaw.ln_m_with_cache_bool_Bernoulli pr c (.data (xs.map (· == 1))) := by
  simp only [Gen.UnitPowerLaw.ln_m_with_cache_nat_Bernoulli, Gen.UnitPowerLaw.ln_m_with_cache_bool_Bernoulli,
    Gen.UnitPowerLaw.posterior_nat_Bernoulli, Gen.UnitPowerLaw.posterior_bool_Bernoulli, List.foldl_map]
  rfl

-- @site UnitPowerLaw.ln_pp_cache_nat_Bernoulli
theorem UnitPowerLaw_Bernoulli_ln_pp_cache_nat (pr : Gen.UnitPowerLaw R) (xs : List Nat) :
    Gen.UnitPowerLaw.ln_pp_cache_nat_Bernoulli pr (.data xs)
      = Gen.UnitPowerLaw.ln_pp_cache_bool_Bernoulli pr (.data (xs.map (· == 1))) := by
  simp only [Gen.UnitPowerLaw.ln_pp_cache_nat_Bernoulli, Gen.UnitPowerLaw.ln_pp_cache_bool_Bernoulli,
    Gen.UnitPowerLaw.posterior_nat_Bernoulli, Gen.UnitPowerLaw.posterior_bool_Bernoulli, List.foldl_map]
  rfl

-- @site UnitPowerLaw.ln_pp_with_cache_nat_Bernoulli
theorem UnitPowerLaw_Bernoulli_ln_pp_with_cache_nat (pr : Gen.UnitPowerLaw R) (c : R × R) (y : Nat) :
    Gen.UnitPowerLaw.ln_pp_with_cache_nat_Bernoulli pr c y
      = Gen.UnitPowerLaw.ln_pp_with_cache_bool_Bernoulli pr c (y == 1) := rfl

-- @site Dirichlet.ln_m_with_cache_bool_Categorical
theorem Dirichlet_Categorical_ln_m_with_cache_bool (pr : Gen.Dirichlet R) (c : R × R) (bs : List Bool) :
    Gen.Dirichlet.ln_m_with_cache_bool_Categorical pr c (.data bs)
      = Gen.Dirichlet.ln_m_with_cache_nat_Categorical pr c (.data (bs.map (fun b => if b then 1 else 0))) := by
  simp only [Gen.Dirichlet.ln_m_with_cache_bool_Categorical, Gen.Dirichlet.ln_m_with_cache_nat_Categorical,
    List.foldl_map]
  rfl

-- @site Dirichlet.ln_pp_cache_bool_Categorical
theorem Dirichlet_Categorical_ln_pp_cache_bool (pr : Gen.Dirichlet R) (bs : List Bool) :
    Gen.Dirichlet.ln_pp_cache_bool_Categorical pr (.data bs)
      = Gen.Dirichlet.ln_pp_cache_nat_Categorical pr (.data (bs.map (fun b => if b then 1 else 0))) := by
  simp only [Gen.Dirichlet.ln_pp_cache_bool_Categorical, Gen.Dirichlet.ln_pp_cache_nat_Categorical,
    Gen.Dirichlet.posterior_bool_Categorical, Gen.Dirichlet.posterior_nat_Categorical, List.foldl_map]
  rfl

-- @site Dirichlet.ln_pp_with_cache_bool_Categorical
theorem Dirichlet_Categorical_ln_pp_with_cache_bool (pr : Gen.Dirichlet R) (c : List R × R) (b : Bool) :
    Gen.Dirichlet.ln_pp_with_cache_bool_Categorical pr c b
      = Gen.Dirichlet.ln_pp_with_cache_nat_Categorical pr c (if b then 1 else 0) := rfl

-- @site SymmetricDirichlet.ln_m_with_cache_bool_Categorical
theorem SymmetricDirichlet_Categorical_ln_m_with_cache_bool (pr : Gen.SymmetricDirichlet R) (c : R) (bs : List Bool) :
    Gen.SymmetricDirichlet.ln_m_with_cache_bool_Categorical pr c (.data bs)
      = Gen.SymmetricDirichlet.ln_m_with_cache_nat_Categorical pr c (.data (bs.map (fun b => if b then 1 else 0))) := by
  simp only [Gen.SymmetricDirichlet.ln_m_with_cache_bool_Categorical,
    Gen.SymmetricDirichlet.ln_m_with_cache_nat_Categorical, List.foldl_map]
  rfl

-- @site SymmetricDirichlet.ln_pp_cache_bool_Categorical
theorem SymmetricDirichlet_Categorical_ln_pp_cache_bool (pr : Gen.SymmetricDirichlet R) (bs : List Bool) :
    Gen.SymmetricDirichlet.ln_pp_cache_bool_Categorical pr (.data bs)
      = Gen.SymmetricDirichlet.ln_pp_cache_nat_Categorical pr (.data (bs.map (fun b => if b then 1 else 0))) := by
  simp only [Gen.SymmetricDirichlet.ln_pp_cache_bool_Categorical, Gen.SymmetricDirichlet.ln_pp_cache_nat_Categorical,
    Gen.SymmetricDirichlet.posterior_bool_Categorical, Gen.SymmetricDirichlet.posterior_nat_Categorical,
    List.foldl_map]
  rfl

-- @site SymmetricDirichlet.ln_pp_with_cache_bool_Categorical
theorem SymmetricDirichlet_Categorical_ln_pp_with_cache_bool (pr : Gen.SymmetricDirichlet R) (c : List R × R)
    (b : Bool) :
    Gen.SymmetricDirichlet.ln_pp_with_cache_bool_Categorical pr c b
      = Gen.SymmetricDirichlet.ln_pp_with_cache_nat_Categorical pr c (if b then 1 else 0) := rfl

/-! ## concrete instances (the hypotheses are satisfiable; the theorems apply to literal data) -/

example : (Gen.Beta.ln_pp_bool_Bernoulli (⟨⟨3/2⟩, ⟨5/2⟩⟩ : Gen.Beta R) true (.data [true, false, true])).val
    = (Gen.Beta.ln_m_bool_Bernoulli (⟨⟨3/2⟩, ⟨5/2⟩⟩ : Gen.Beta R) (.data ([true, false, true] ++ [true]))).val
      - (Gen.Beta.ln_m_bool_Bernoulli (⟨⟨3/2⟩, ⟨5/2⟩⟩ : Gen.Beta R) (.data [true, false, true])).val :=
  Beta_Bernoulli_chain_rule _ _ _ (by norm_num) (by norm_num)

example : (Gen.Gamma.ln_pp_nat_Poisson (⟨⟨2⟩, ⟨6/5⟩⟩ : Gen.Gamma R) 2 (.data [1, 4, 0, 7])).val
    = (Gen.Gamma.ln_m_nat_Poisson (⟨⟨2⟩, ⟨6/5⟩⟩ : Gen.Gamma R) (.data ([1, 4, 0, 7] ++ [2]))).val
      - (Gen.Gamma.ln_m_nat_Poisson (⟨⟨2⟩, ⟨6/5⟩⟩ : Gen.Gamma R) (.data [1, 4, 0, 7])).val :=
  Gamma_Poisson_chain_rule _ _ _ (by norm_num) (by norm_num) (ln_fact_small 2 (by norm_num))

example : (Gen.Dirichlet.ln_pp_nat_Categorical (⟨[⟨1/2⟩, ⟨2⟩, ⟨3⟩]⟩ : Gen.Dirichlet R) 1 (.data [0, 2, 2, 1])).val
    = (Gen.Dirichlet.ln_m_nat_Categorical (⟨[⟨1/2⟩, ⟨2⟩, ⟨3⟩]⟩ : Gen.Dirichlet R) (.data ([0, 2, 2, 1] ++ [1]))).val
      - (Gen.Dirichlet.ln_m_nat_Categorical (⟨[⟨1/2⟩, ⟨2⟩, ⟨3⟩]⟩ : Gen.Dirichlet R) (.data [0, 2, 2, 1])).val :=
  Dirichlet_Categorical_chain_rule _ _ _ (by simp)
    (by intro a ha; simp at ha; rcases ha with rfl | rfl | rfl <;> norm_num)
    (by intro x hx; simp at hx; rcases hx with rfl | rfl | rfl <;> simp) (by simp)

example : (Gen.SymmetricDirichlet.ln_m_nat_Categorical (⟨⟨1/2⟩, 4⟩ : Gen.SymmetricDirichlet R) (.data [0, 3, 3])).val
    = (Gen.SymmetricDirichlet.ln_m_nat_Categorical (⟨⟨1/2⟩, 4⟩ : Gen.SymmetricDirichlet R) (.data [3, 0, 3])).val :=
  congrArg R.val (SymmetricDirichlet_Categorical_ln_m_perm _ (by decide))

end C06

-- AXIOMS
#print axioms C06.Beta_Bernoulli_ln_m_cached
#print axioms C06.Beta_Bernoulli_ln_pp_cached
#print axioms C06.Beta_Bernoulli_ln_m_data_eq_stat
#print axioms C06.Beta_Bernoulli_ln_pp_data_eq_stat
#print axioms C06.Beta_Bernoulli_ln_m_empty
#print axioms C06.Beta_Bernoulli_chain_rule_stat
#print axioms C06.Beta_Bernoulli_chain_rule
#print axioms C06.Beta_Bernoulli_ln_m_perm
#print axioms C06.Beta_Bernoulli_ln_pp_perm
#print axioms C06.Beta_Bernoulli_m_eq_exp
#print axioms C06.Beta_Bernoulli_pp_eq_exp
#print axioms C06.Beta_Bernoulli_pp_with_cache_eq_exp
#print axioms C06.Beta_Bernoulli_pp_normalised_stat
#print axioms C06.Beta_Bernoulli_pp_normalised
#print axioms C06.UnitPowerLaw_Bernoulli_ln_m_cached
#print axioms C06.UnitPowerLaw_Bernoulli_ln_pp_cached
#print axioms C06.UnitPowerLaw_Bernoulli_m_eq_exp
#print axioms C06.UnitPowerLaw_Bernoulli_pp_eq_exp
#print axioms C06.UnitPowerLaw_Bernoulli_pp_with_cache_eq_exp
#print axioms C06.UnitPowerLaw_Bernoulli_ln_m_data_eq_stat
#print axioms C06.UnitPowerLaw_Bernoulli_ln_pp_data_eq_stat
#print axioms C06.UnitPowerLaw_Bernoulli_ln_m_empty
#print axioms C06.UnitPowerLaw_Bernoulli_chain_rule_stat
#print axioms C06.UnitPowerLaw_Bernoulli_chain_rule
#print axioms C06.UnitPowerLaw_Bernoulli_ln_m_perm
#print axioms C06.UnitPowerLaw_Bernoulli_pp_normalised_stat
#print axioms C06.UnitPowerLaw_Bernoulli_pp_normalised
#print axioms C06.Gamma_Poisson_ln_m_cached
#print axioms C06.Gamma_Poisson_ln_pp_cached
#print axioms C06.Gamma_Poisson_m_eq_exp
#print axioms C06.Gamma_Poisson_pp_eq_exp
#print axioms C06.Gamma_Poisson_pp_with_cache_eq_exp
#print axioms C06.Gamma_Poisson_ln_m_data_eq_stat
#print axioms C06.Gamma_Poisson_ln_pp_data_eq_stat
#print axioms C06.Gamma_Poisson_ln_m_empty
#print axioms C06.Gamma_Poisson_chain_rule_stat
#print axioms C06.Gamma_Poisson_chain_rule_exact
#print axioms C06.Gamma_Poisson_chain_rule
#print axioms C06.ln_fact_small
#print axioms C06.Gamma_Poisson_ln_m_perm
#print axioms C06.Dirichlet_Categorical_ln_m_cached
#print axioms C06.Dirichlet_Categorical_ln_pp_cached
#print axioms C06.Dirichlet_Categorical_m_eq_exp
#print axioms C06.Dirichlet_Categorical_pp_eq_exp
#print axioms C06.Dirichlet_Categorical_pp_with_cache_eq_exp
#print axioms C06.Dirichlet_Categorical_ln_m_data_eq_stat
#print axioms C06.Dirichlet_Categorical_ln_pp_data_eq_stat
#print axioms C06.Dirichlet_Categorical_ln_m_empty
#print axioms C06.Dirichlet_Categorical_chain_rule_stat
#print axioms C06.Dirichlet_Categorical_chain_rule
#print axioms C06.Dirichlet_Categorical_ln_m_perm
#print axioms C06.Dirichlet_Categorical_pp_normalised_stat
#print axioms C06.Dirichlet_Categorical_pp_normalised
#print axioms C06.SymmetricDirichlet_Categorical_ln_m_cached
#print axioms C06.SymmetricDirichlet_Categorical_ln_pp_cached
#print axioms C06.SymmetricDirichlet_Categorical_m_eq_exp
#print axioms C06.SymmetricDirichlet_Categorical_pp_eq_exp
#print axioms C06.SymmetricDirichlet_Categorical_pp_with_cache_eq_exp
#print axioms C06.SymmetricDirichlet_Categorical_ln_m_data_eq_stat
#print axioms C06.SymmetricDirichlet_Categorical_ln_pp_data_eq_stat
#print axioms C06.SymmetricDirichlet_Categorical_ln_m_empty
#print axioms C06.SymmetricDirichlet_Categorical_chain_rule_stat
#print axioms C06.SymmetricDirichlet_Categorical_chain_rule
#print axioms C06.SymmetricDirichlet_Categorical_ln_m_perm
#print axioms C06.SymmetricDirichlet_Categorical_pp_normalised_stat
#print axioms C06.SymmetricDirichlet_Categorical_pp_normalised
#print axioms C06.Beta_Bernoulli_m_integral
#print axioms C06.Beta_Bernoulli_m_integral_gen
#print axioms C06.UnitPowerLaw_Bernoulli_m_integral
#print axioms C06.Gamma_Poisson_pp_closed_form
#print axioms C06.Gamma_Poisson_pp_normalised_stat
#print axioms C06.Gamma_Poisson_pp_normalised
#print axioms C06.Gamma_Poisson_m_integral
#print axioms C06.Dirichlet_Categorical_m_integral_partial
#print axioms C06.Beta_Bernoulli_ln_m_with_cache_nat
#print axioms C06.Beta_Bernoulli_ln_pp_cache_nat
#print axioms C06.Beta_Bernoulli_ln_pp_with_cache_nat
#print axioms C06.UnitPowerLaw_Bernoulli_ln_m_with_cache_nat
#print axioms C06.UnitPowerLaw_Bernoulli_ln_pp_cache_nat
#print axioms C06.UnitPowerLaw_Bernoulli_ln_pp_with_cache_nat
#print axioms C06.Dirichlet_Categorical_ln_m_with_cache_bool
#print axioms C06.Dirichlet_Categorical_ln_pp_cache_bool
#print axioms C06.Dirichlet_Categorical_ln_pp_with_cache_bool
#print axioms C06.SymmetricDirichlet_Categorical_ln_m_with_cache_bool
#print axioms C06.SymmetricDirichlet_Categorical_ln_pp_cache_bool
#print axioms C06.SymmetricDirichlet_Categorical_ln_pp_with_cache_bool
