import RvModel.RealInst
import RvModel.Gen.Defs
import RvModel.Hand.StickConj
import RvModel.Lemmas.C05S
/-!
  C05S — properties C05 (conjugate posteriors are exactly Bayes' rule) and C06 (marginal likelihood / posterior predictive obey
  the chain rule) on the conjugate pair `StickBreaking` / `StickBreakingDiscrete`
  (`src/experimental/stick_breaking_process/stick_breaking.rs`, `sbd_stat.rs`), over the exact-real carrier `R`.

  The code is the hand model `Hand.StickConj` (tied to the implementation by `props/cases_c05s.py`); a Rust panic is `none`.
  Every theorem holds for ALL priors (any prefix length, any valid parameters — `C05SL.ValidSB sb`: tail `α > 0`, every
  prefix `Beta(a, b)` with `a, b > 0`, as the checked constructors enforce) and ALL data sets / statistics.

  Vocabulary (`Lemmas/C05S.lean`): `paramAt sb i = (α_i, β_i)` of break `i` (the tail `UnitPowerLaw(α)` read as `Beta(α, 1)`),
  `nAt counts i = #{x = i}`, `nBeyond counts i = #{x > i}`, `addC` = padded pointwise sum of count vectors,
  `countsOf xs` = the counts of a data set, `lB a b = ln B(a, b)`, `Dlb a b s c = ln B(a+s, b+c) − ln B(a, b)`;
  `exSB` = the example prior (a posterior used as a prior): prefix `[Beta(2, 3), Beta(7/2, 1)]`, tail `UnitPowerLaw(5)`.

  The last section proves C07's statement on this pair: `StickBreakingDiscrete::ln_f_stat` of the statistic of `xs` equals the sum
  of the pointwise `ln_f`, from any realised state of the lazily extended `StickSequence` (model `sbdLnFStat` / `sbdLnF` on `Hand.Stick`).

  Convention of the code: the break `p_i` is the fraction of the remaining stick that is KEPT, an observation `x` passes breaks
  `< x` and fails break `x`; hence break `i` of the posterior is `Beta(α_i + #{x > i}, β_i + #{x = i})`.
-/
set_option linter.unusedSimpArgs false
set_option linter.unusedVariables false
open Real Hand.StickConj C05SL

namespace C05S

/-! ## C05 — the posterior -/

-- @site StickBreaking.posterior
/-- no data: the posterior IS the prior (structurally; for any prior, valid or not) -/
theorem posterior_no_data (sb : SB R) : posterior sb (.data []) = some sb := by
  simp only [posterior, Stat.observeMany, Stat.new, observeManyC, List.foldl_nil, posteriorFromSuffstat, Stat.breakPairs,
    breakPairsC, breakPairsAux, allSome_postArm_nil, Option.map_some]
example : posterior exSB (.data []) = some exSB := posterior_no_data exSB

-- @site StickBreaking.posterior_from_suffstat
/-- the empty statistic: the posterior is the prior -/
theorem posterior_empty_stat (sb : SB R) : posteriorFromSuffstat sb Stat.new = some sb := by
  simp only [Stat.new, posteriorFromSuffstat, Stat.breakPairs, breakPairsC, breakPairsAux, allSome_postArm_nil,
    Option.map_some]
example : posteriorFromSuffstat exSB Stat.new = some exSB := posterior_empty_stat exSB

-- @site StickBreaking.posterior_from_suffstat
/-- closed form: the tail is unchanged, the prefix grows to cover the data, and break `i` gets
    `Beta(α_i + #{x > i}, β_i + #{x = i})` — for every `i` (beyond both the prefix and the data this reads `(α, 1) = (α, 1)`) -/
theorem posterior_closed_form (sb : SB R) (hv : ValidSB sb) (st : Stat R) :
    ∃ post, posteriorFromSuffstat sb st = some post ∧ post.break_tail = sb.break_tail
      ∧ post.break_prefix.length = max sb.break_prefix.length st.counts.length
      ∧ ∀ i, paramAt post i
          = ((paramAt sb i).1 + (nBeyond st.counts i : ℝ), (paramAt sb i).2 + (nAt st.counts i : ℝ)) := by
  refine ⟨postTot sb st.counts, posteriorFromSuffstat_eq sb hv st, rfl, ?_, ?_⟩
  · simp [postTot, length_postP, length_bp]
  · intro i
    simp only [paramAt, postTot, pAt_postP, getD_bp, nBeyond, nAt]
example : ValidSB exSB := exSB_valid

-- @site StickBreakingDiscreteSuffStat.observe
/-- the statistic of a data set: entry `i` counts the observations equal to `i`; the vector is as long as the largest
    observation requires (no trailing entry) -/
theorem stat_of_data (xs : List ℕ) (i : ℕ) :
    ((Stat.ofData xs : Stat R).counts.getD i 0 = xs.count i)
      ∧ (Stat.ofData xs : Stat R).counts.length = xs.foldr (fun x m => max (x + 1) m) 0 :=
  ⟨getD_countsOf xs i, length_countsOf xs⟩
example : ((Stat.ofData [2, 0, 2] : Stat R).counts.getD 2 0 = 2) := by
  rw [(stat_of_data [2, 0, 2] 2).1]; rfl

-- @site StickBreakingDiscreteSuffStat.break_pairs
/-- `break_pairs()[i] = (#{x > i}, #{x = i})` -/
theorem break_pairs_spec (st : Stat R) (i : ℕ) :
    st.breakPairs.length = st.counts.length
      ∧ st.breakPairs.getD i (0, 0) = (nBeyond st.counts i, nAt st.counts i) := by
  simp only [Stat.breakPairs, breakPairsC_eq, length_bp, getD_bp, nBeyond, nAt, and_self]
example : (Stat.breakPairs (⟨[1, 2, 3]⟩ : Stat R)).getD 0 (0, 0) = (5, 1) := by
  rw [(break_pairs_spec ⟨[1, 2, 3]⟩ 0).2]; rfl

-- @site StickBreaking.posterior
/-- the `Data` arm is the `SuffStat` arm on the statistic of the data -/
theorem posterior_data_eq_stat (sb : SB R) (xs : List ℕ) :
    posterior sb (.data xs) = posterior sb (.suffStat (Stat.ofData xs)) := rfl
example : posterior exSB (.data [1, 4]) = posterior exSB (.suffStat (Stat.ofData [1, 4])) := posterior_data_eq_stat _ _

-- @site StickBreakingDiscreteSuffStat.observe
/-- observing `xs` then `ys` adds the counts (padded to the longer vector), from any starting statistic -/
theorem stat_observe_many_adds (st : Stat R) (xs : List ℕ) :
    (st.observeMany xs).counts = addC st.counts (Stat.ofData xs : Stat R).counts :=
  observeManyC_eq st.counts xs
example : (Stat.observeMany (⟨[1]⟩ : Stat R) [2]).counts = addC [1] (Stat.ofData [2] : Stat R).counts :=
  stat_observe_many_adds _ _

-- @site StickBreakingDiscreteSuffStat.observe
theorem stat_append (xs ys : List ℕ) :
    (Stat.ofData (xs ++ ys) : Stat R).counts = addC (Stat.ofData xs : Stat R).counts (Stat.ofData ys : Stat R).counts :=
  countsOf_append xs ys
example : (Stat.ofData ([3] ++ [0, 3]) : Stat R).counts = addC (Stat.ofData [3] : Stat R).counts (Stat.ofData [0, 3] : Stat R).counts :=
  stat_append _ _

-- @site StickBreakingDiscreteSuffStat.observe
/-- the statistic does not depend on the order of the data -/
theorem stat_perm {xs ys : List ℕ} (h : xs.Perm ys) : (Stat.ofData xs : Stat R) = Stat.ofData ys := by
  show (⟨countsOf xs⟩ : Stat R) = ⟨countsOf ys⟩
  rw [countsOf_perm h]
example : (Stat.ofData [1, 2] : Stat R) = Stat.ofData [2, 1] := stat_perm (List.Perm.swap 2 1 [])

-- @site StickBreaking.posterior_from_suffstat
/-- sequential = batch on statistics: updating on `c1` and then on `c2` is updating once on the summed counts -/
theorem posterior_sequential_stat (sb : SB R) (hv : ValidSB sb) (c1 c2 : List ℕ) :
    (posteriorFromSuffstat sb ⟨c1⟩).bind (fun p => posteriorFromSuffstat p ⟨c2⟩)
      = posteriorFromSuffstat sb ⟨addC c1 c2⟩ := by
  rw [posteriorFromSuffstat_eq sb hv, Option.bind_some, posteriorFromSuffstat_eq _ (valid_postTot sb hv c1),
    posteriorFromSuffstat_eq sb hv, postTot_postTot]
example : ValidSB exSB := exSB_valid

-- @site StickBreaking.posterior
/-- sequential = batch on raw data: updating on `xs` then `ys` equals updating once on their union -/
theorem posterior_sequential_eq_batch (sb : SB R) (hv : ValidSB sb) (xs ys : List ℕ) :
    (posterior sb (.data xs)).bind (fun p => posterior p (.data ys)) = posterior sb (.data (xs ++ ys)) := by
  have h := posterior_sequential_stat sb hv (countsOf xs) (countsOf ys)
  rw [← countsOf_append] at h
  exact h
example : ValidSB exSB := exSB_valid

-- @site StickBreaking.posterior
/-- the posterior does not depend on the order of the data -/
theorem posterior_perm (sb : SB R) {xs ys : List ℕ} (h : xs.Perm ys) :
    posterior sb (.data xs) = posterior sb (.data ys) := by
  rw [posterior_data_eq_stat, posterior_data_eq_stat, stat_perm h]
example : posterior exSB (.data [1, 2]) = posterior exSB (.data [2, 1]) := posterior_perm _ (List.Perm.swap 2 1 [])

-- @site StickBreaking.posterior
/-- the posterior of a valid prior exists (no `unwrap` panics) and is valid, for both arms -/
theorem posterior_valid (sb : SB R) (hv : ValidSB sb) (x : Dos R) :
    ∃ post, posterior sb x = some post ∧ 0 < post.break_tail.alpha.val
      ∧ ∀ b ∈ post.break_prefix, 0 < b.alpha.val ∧ 0 < b.beta.val := by
  cases x with
  | data xs =>
    exact ⟨_, posteriorFromSuffstat_eq sb hv _, (valid_postTot sb hv _).1, (valid_postTot sb hv _).2⟩
  | suffStat st =>
    exact ⟨_, posteriorFromSuffstat_eq sb hv _, (valid_postTot sb hv _).1, (valid_postTot sb hv _).2⟩
example : ValidSB exSB := exSB_valid

-- @site StickBreaking.ln_f
/-- Bayes' rule on the log-density of `PartialWeights`: for weights in the interior of the support (all positive, total < 1)
    covering at least the indices that carry data,
    `ln f_post(w) = ln f_prior(w) + Σ_i c_i ln w_i − ln m(x)`,
    the likelihood term being `StickBreakingDiscrete::ln_f_stat` on these weights (sbd_stat.rs:113-121).
    (Both densities exist: `BreakSequence::from` does not panic.) -/
theorem bayes_log_density (sb : SB R) (hv : ValidSB sb) (st : Stat R) (ws : List R) (hne : ws ≠ [])
    (hpos : ∀ w ∈ ws, 0 < w.val) (hsum : (ws.map R.val).sum < 1) (hlen : st.counts.length ≤ ws.length) :
    ∃ post lpost lprior, posteriorFromSuffstat sb st = some post ∧ lnF post ws = some lpost ∧ lnF sb ws = some lprior
      ∧ lpost.val = lprior.val + (lnFStatOfWeights ws st.counts).val - (lnMStat sb st).val := by
  have hw : PosW 1 ws := posW_of_pos_sum 1 ws hpos hsum
  have hb := breaksOfWeights_ok ws hne hw
  refine ⟨postTot sb st.counts, lnFBreaks (postTot sb st.counts) (breaksOfWeightsAux (1.0 : R) ws),
    lnFBreaks sb (breaksOfWeightsAux (1.0 : R) ws), posteriorFromSuffstat_eq sb hv st, ?_, ?_, ?_⟩
  · simp only [lnF, hb, Option.map_some]
  · simp only [lnF, hb, Option.map_some]
  · have h1 : 0 < ((1.0 : R)).val := by rw [lit1]; norm_num
    have hl : (bp st.counts).length ≤ ((breaksOfWeightsAux (1.0 : R) ws).map R.val).length := by
      simp only [length_bp, List.length_map, length_breaksOfWeightsAux]; exact hlen
    rw [lnFBreaks_val, lnFBreaks_val, lnFStatOfWeights_val, lnMStat_val sb hv,
      LLW_eq (1.0 : R) h1 ws (by simpa only [lit1] using hw) st.counts hlen]
    simp only [postTot]
    rw [lnFR_postP sb.break_tail.alpha hv.1 sb.break_prefix (bp st.counts) _ hl]
    simp only [lit1, Real.log_one, mul_zero, zero_add]
example : (([⟨1 / 5⟩, ⟨3 / 10⟩] : List R) ≠ []) ∧ (∀ w ∈ ([⟨1 / 5⟩, ⟨3 / 10⟩] : List R), 0 < w.val)
    ∧ ((([⟨1 / 5⟩, ⟨3 / 10⟩] : List R).map R.val).sum < 1) ∧ ((⟨[1, 2]⟩ : Stat R).counts.length ≤ 2) := by
  refine ⟨by simp, ?_, by norm_num, by simp⟩
  intro w hw
  simp only [List.mem_cons, List.not_mem_nil, or_false] at hw
  rcases hw with rfl | rfl <;> norm_num

/-! ## C06 — marginal likelihood and posterior predictive -/

-- @site StickBreaking.ln_m
/-- `ln_m` of no data is zero (for any prior: every arm is `Right`, value `0.0`) -/
theorem ln_m_no_data (sb : SB R) : (lnM sb (.data [])).val = 0 := by
  simp only [lnM, Stat.observeMany, Stat.new, observeManyC, List.foldl_nil, lnMStat, Stat.breakPairs, breakPairsC,
    breakPairsAux, sumRust_val]
  exact lnMArm_sum_nil _ _
example : (lnM exSB (.data [])).val = 0 := ln_m_no_data exSB

-- @site StickBreaking.ln_m
theorem ln_m_empty_stat (sb : SB R) : (lnM sb (.suffStat Stat.new)).val = 0 := ln_m_no_data sb
example : (lnM exSB (.suffStat Stat.new)).val = 0 := ln_m_empty_stat exSB

-- @site StickBreaking.ln_m
/-- the `Data` arm is the `SuffStat` arm on the statistic of the data -/
theorem ln_m_data_eq_stat (sb : SB R) (xs : List ℕ) : lnM sb (.data xs) = lnM sb (.suffStat (Stat.ofData xs)) := rfl
example : lnM exSB (.data [0, 3]) = lnM exSB (.suffStat (Stat.ofData [0, 3])) := rfl

-- @site StickBreaking.ln_pp
theorem ln_pp_data_eq_stat (sb : SB R) (y : ℕ) (xs : List ℕ) :
    lnPp sb y (.data xs) = lnPp sb y (.suffStat (Stat.ofData xs)) := rfl
example : lnPp exSB 2 (.data [0, 3]) = lnPp exSB 2 (.suffStat (Stat.ofData [0, 3])) := rfl

-- @site StickBreaking.pp
theorem pp_data_eq_stat (sb : SB R) (y : ℕ) (xs : List ℕ) :
    pp sb y (.data xs) = pp sb y (.suffStat (Stat.ofData xs)) := rfl
example : pp exSB 2 (.data [0, 3]) = pp exSB 2 (.suffStat (Stat.ofData [0, 3])) := rfl

-- @site StickBreaking.ln_m
/-- invariance under reordering of the data -/
theorem ln_m_perm (sb : SB R) {xs ys : List ℕ} (h : xs.Perm ys) : lnM sb (.data xs) = lnM sb (.data ys) := by
  rw [ln_m_data_eq_stat, ln_m_data_eq_stat, stat_perm h]
example : lnM exSB (.data [1, 2]) = lnM exSB (.data [2, 1]) := ln_m_perm _ (List.Perm.swap 2 1 [])

-- @site StickBreaking.ln_m
/-- closed form: `ln m(x) = Σ_{i < len} ln B(α_i + #{x > i}, β_i + #{x = i}) − ln B(α_i, β_i)` — the product over the breaks of the
    Beta–Bernoulli evidences (the `Left` arm through `ln_beta`, the `Both` arm through `ln(rising_beta_prod)`) -/
theorem ln_m_closed_form (sb : SB R) (hv : ValidSB sb) (st : Stat R) :
    (lnM sb (.suffStat st)).val
      = ∑ i ∈ Finset.range st.counts.length,
          (lB ((paramAt sb i).1 + (nBeyond st.counts i : ℝ)) ((paramAt sb i).2 + (nAt st.counts i : ℝ))
            - lB (paramAt sb i).1 (paramAt sb i).2) := by
  show (lnMStat sb st).val = _
  rw [lnMStat_val sb hv, lnMR_eq_sum, length_bp]
  simp only [getD_bp, Dlb, paramAt, nBeyond, nAt]
example : ValidSB exSB := exSB_valid

-- @site StickBreaking.ln_m
/-- general chain rule: the marginal likelihood of `c2` under the posterior given `c1` is `ln m(c1 + c2) − ln m(c1)` -/
theorem ln_m_posterior (sb : SB R) (hv : ValidSB sb) (c1 c2 : List ℕ) :
    ∃ post, posteriorFromSuffstat sb ⟨c1⟩ = some post
      ∧ (lnM post (.suffStat ⟨c2⟩)).val = (lnM sb (.suffStat ⟨addC c1 c2⟩)).val - (lnM sb (.suffStat ⟨c1⟩)).val := by
  refine ⟨postTot sb c1, posteriorFromSuffstat_eq sb hv _, ?_⟩
  show (lnMStat (postTot sb c1) ⟨c2⟩).val = (lnMStat sb ⟨addC c1 c2⟩).val - (lnMStat sb ⟨c1⟩).val
  rw [lnMStat_val _ (valid_postTot sb hv c1), lnMStat_val sb hv, lnMStat_val sb hv]
  simp only [postTot, bp_addC]
  exact lnMR_postP _ _ _ _
example : ValidSB exSB := exSB_valid

-- @site StickBreaking.ln_pp
/-- chain rule on an arbitrary statistic: `ln_pp(y | S) = ln_m(S.observe(y)) − ln_m(S)` -/
theorem chain_rule_stat (sb : SB R) (hv : ValidSB sb) (st : Stat R) (y : ℕ) :
    ∃ v, lnPp sb y (.suffStat st) = some v
      ∧ v.val = (lnM sb (.suffStat (st.observe y))).val - (lnM sb (.suffStat st)).val := by
  obtain ⟨post, hp, he⟩ := ln_m_posterior sb hv st.counts (unitC y)
  refine ⟨lnM post (.data [y]), ?_, ?_⟩
  · simp only [lnPp, lnPpCache, posterior, hp, Option.map_some, lnPpWithCache]
  · have e1 : lnM post (.data [y]) = lnM post (.suffStat ⟨unitC y⟩) := by
      show lnMStat post ⟨countsOf [y]⟩ = lnMStat post ⟨unitC y⟩
      rw [countsOf_singleton]
    have e2 : (st.observe y : Stat R) = ⟨addC st.counts (unitC y)⟩ := by
      simp only [Stat.observe, observeC_eq_addC]
    rw [e1, e2]; exact he
example : ValidSB exSB := exSB_valid

-- @site StickBreaking.ln_pp
/-- chain rule on raw data: `ln_pp(y | xs) = ln_m(xs ++ [y]) − ln_m(xs)` -/
theorem chain_rule (sb : SB R) (hv : ValidSB sb) (xs : List ℕ) (y : ℕ) :
    ∃ v, lnPp sb y (.data xs) = some v
      ∧ v.val = (lnM sb (.data (xs ++ [y]))).val - (lnM sb (.data xs)).val := by
  obtain ⟨v, h1, h2⟩ := chain_rule_stat sb hv (Stat.ofData xs) y
  refine ⟨v, h1, ?_⟩
  have e : (Stat.ofData (xs ++ [y]) : Stat R) = (Stat.ofData xs : Stat R).observe y := by
    show (⟨countsOf (xs ++ [y])⟩ : Stat R) = ⟨observeC (countsOf xs) y⟩
    rw [countsOf_append, countsOf_singleton, observeC_eq_addC]
  rw [ln_m_data_eq_stat, ln_m_data_eq_stat, e]; exact h2
example : ValidSB exSB := exSB_valid

-- @site StickBreaking.ln_m_with_cache
/-- cached = uncached: `ln_m_with_cache(&ln_m_cache(), x) = ln_m(x)` -/
theorem ln_m_cached (sb : SB R) (x : Dos R) : lnMWithCache sb () x = lnM sb x := rfl
example : lnMWithCache exSB () (.data [1]) = lnM exSB (.data [1]) := rfl

-- @site StickBreaking.ln_pp_with_cache
/-- cached = uncached: `ln_pp(y, x) = ln_pp_with_cache(&ln_pp_cache(x), y)`; the cache depends on `x` only, so one cache serves every `y` -/
theorem ln_pp_cached (sb : SB R) (y : ℕ) (x : Dos R) :
    lnPp sb y x = (lnPpCache sb x).map (fun cache => lnPpWithCache sb cache y) := rfl
example : lnPp exSB 3 (.data [1]) = (lnPpCache exSB (.data [1])).map (fun cache => lnPpWithCache exSB cache 3) := rfl

-- @site StickBreaking.pp
/-- the overriding `pp` is `exp ∘ ln_pp` (what the trait default would compute) -/
theorem pp_eq_exp_ln_pp (sb : SB R) (y : ℕ) (x : Dos R) : pp sb y x = (lnPp sb y x).map RealLike.exp := by
  simp only [pp, lnPp, lnPpCache, lnPpWithCache, m, Option.map_map, Function.comp_def]
example : pp exSB 3 (.data [1]) = (lnPp exSB 3 (.data [1])).map RealLike.exp := pp_eq_exp_ln_pp _ _ _

-- @site StickBreaking.pp_with_cache
theorem pp_cached (sb : SB R) (y : ℕ) (x : Dos R) :
    pp sb y x = (lnPpCache sb x).map (fun cache => ppWithCache sb cache y) := by
  simp only [pp, lnPpCache, ppWithCache, lnPpWithCache, m]
example : pp exSB 3 (.data [1]) = (lnPpCache exSB (.data [1])).map (fun cache => ppWithCache exSB cache 3) := pp_cached _ _ _

-- @site StickBreaking.m
theorem m_eq_exp_ln_m (sb : SB R) (x : Dos R) : m sb x = RealLike.exp (lnM sb x) := rfl
example : m exSB (.data [1]) = RealLike.exp (lnM exSB (.data [1])) := rfl

-- @site StickBreaking.pp
/-- as a function of `y` the predictive is a probability distribution on ℕ: every value exists, and the values sum to 1 -/
theorem pp_normalised (sb : SB R) (hv : ValidSB sb) (x : Dos R) :
    ∃ f : ℕ → ℝ, (∀ y, (pp sb y x).map R.val = some (f y)) ∧ (∀ y, 0 ≤ f y) ∧ HasSum f 1 := by
  obtain ⟨post, hp, hvp⟩ : ∃ post, posterior sb x = some post ∧ ValidSB post := by
    cases x with
    | data xs => exact ⟨_, posteriorFromSuffstat_eq sb hv _, valid_postTot sb hv _⟩
    | suffStat st => exact ⟨_, posteriorFromSuffstat_eq sb hv _, valid_postTot sb hv _⟩
  have hq := posQ_paramsR post.break_prefix hvp.2
  refine ⟨predR post.break_tail.alpha.val (paramsR post.break_prefix), ?_, predR_nonneg _ hvp.1 _ hq,
    pred_hasSum _ hvp.1 _ hq⟩
  intro y
  simp only [pp, hp, Option.map_some, Option.some.injEq, m, R.exp_val]
  show Real.exp (lnMStat post ⟨countsOf [y]⟩).val = _
  rw [lnMStat_val post hvp, countsOf_singleton]
  exact exp_lnMR_unit _ hvp.1 _ hq y
example : ValidSB exSB := exSB_valid

/-! ## C07 on this pair — the likelihood computed from the statistic equals the sum of the pointwise log-densities

  `breaks : ℕ → R` is the fixed stream of breaks the seeded generator of the `StickSequence` produces; `C19.SInv breaks s` says
  the stored `ccdf` vector of the state `s` is a prefix of that stream (true of `Stick.init`, i.e. a fresh sequence, and
  preserved by every call: `Lemmas/C19Stick.lean`).  The theorems hold from ANY such state: the value does not depend on
  how far the lazily realised sequence happens to be realised. -/

-- @site StickBreakingDiscrete.ln_f_stat
/-- `ln_f_stat(stat of xs)` evaluated on any realised state = `Σ ln_f(x)` evaluated (in order) on any other realised state -/
theorem ln_f_stat_eq_sum_ln_f (breaks : ℕ → R) (s t : Hand.Stick.S R) (hs : C19.SInv breaks s) (ht : C19.SInv breaks t)
    (xs : List ℕ) :
    (sbdLnFStat breaks s (Stat.ofData xs : Stat R).counts).1.val = (sbdSumLnF breaks t xs).1.val := by
  show (sbdLnFStat breaks s (countsOf xs)).1.val = _
  rw [sbdLnFStat_countsOf breaks s hs xs]
  simp only [sbdSumLnF, sumRust_val, (sbdLnFs_spec breaks t ht xs).1]
example : C19.SInv (fun _ => (⟨1 / 2⟩ : R)) Hand.Stick.init := C19.sinv_init _

-- @site StickBreakingDiscrete.ln_f_stat
/-- in particular on a FRESH sequence (nothing realised) against a fresh sequence -/
theorem ln_f_stat_fresh_eq_sum_ln_f (breaks : ℕ → R) (xs : List ℕ) :
    (sbdLnFStat breaks Hand.Stick.init (Stat.ofData xs : Stat R).counts).1.val
      = (sbdSumLnF breaks Hand.Stick.init xs).1.val :=
  ln_f_stat_eq_sum_ln_f breaks _ _ (C19.sinv_init breaks) (C19.sinv_init breaks) xs
example : (sbdLnFStat (fun _ => (⟨1 / 2⟩ : R)) Hand.Stick.init (Stat.ofData [0, 2, 2] : Stat R).counts).1.val
    = (sbdSumLnF (fun _ => (⟨1 / 2⟩ : R)) Hand.Stick.init [0, 2, 2]).1.val := ln_f_stat_fresh_eq_sum_ln_f _ _

-- @site StickBreakingDiscrete.ln_f_stat
/-- for ANY count vector (trailing zeros included): `ln_f_stat = Σ_{i < len} counts_i · ln w_i` with the true weights
    `w_i = ccdf i − ccdf (i+1)`, from any realised state — hence the same value from any two states -/
theorem ln_f_stat_state_independent (breaks : ℕ → R) (s t : Hand.Stick.S R) (hs : C19.SInv breaks s)
    (ht : C19.SInv breaks t) (counts : List ℕ) :
    (sbdLnFStat breaks s counts).1.val
        = ∑ i ∈ Finset.range counts.length, (counts.getD i 0 : ℝ) * Real.log (Hand.Stick.weightFn breaks i).val
      ∧ (sbdLnFStat breaks s counts).1.val = (sbdLnFStat breaks t counts).1.val
      ∧ C19.SInv breaks (sbdLnFStat breaks s counts).2 := by
  refine ⟨(sbdLnFStat_spec breaks s hs counts).1, ?_, (sbdLnFStat_spec breaks s hs counts).2⟩
  rw [(sbdLnFStat_spec breaks s hs counts).1, (sbdLnFStat_spec breaks t ht counts).1]
example : C19.SInv (fun _ => (⟨1 / 2⟩ : R)) Hand.Stick.init := C19.sinv_init _

-- @site StickBreakingDiscrete.ln_f
/-- `ln_f(x) = ln (ccdf x − ccdf (x+1))` from any realised state, and the state stays a prefix of the stream -/
theorem ln_f_spec (breaks : ℕ → R) (s : Hand.Stick.S R) (hs : C19.SInv breaks s) (x : ℕ) :
    (sbdLnF breaks s x).1.val = Real.log (Hand.Stick.weightFn breaks x).val ∧ C19.SInv breaks (sbdLnF breaks s x).2 :=
  sbdLnF_spec breaks s hs x
example : C19.SInv (fun _ => (⟨1 / 2⟩ : R)) Hand.Stick.init := C19.sinv_init _

end C05S

#print axioms C05S.posterior_no_data
#print axioms C05S.posterior_empty_stat
#print axioms C05S.posterior_closed_form
#print axioms C05S.stat_of_data
#print axioms C05S.break_pairs_spec
#print axioms C05S.posterior_data_eq_stat
#print axioms C05S.stat_observe_many_adds
#print axioms C05S.stat_append
#print axioms C05S.stat_perm
#print axioms C05S.posterior_sequential_stat
#print axioms C05S.posterior_sequential_eq_batch
#print axioms C05S.posterior_perm
#print axioms C05S.posterior_valid
#print axioms C05S.bayes_log_density
#print axioms C05S.ln_m_no_data
#print axioms C05S.ln_m_empty_stat
#print axioms C05S.ln_m_data_eq_stat
#print axioms C05S.ln_pp_data_eq_stat
#print axioms C05S.pp_data_eq_stat
#print axioms C05S.ln_m_perm
#print axioms C05S.ln_m_closed_form
#print axioms C05S.ln_m_posterior
#print axioms C05S.chain_rule_stat
#print axioms C05S.chain_rule
#print axioms C05S.ln_m_cached
#print axioms C05S.ln_pp_cached
#print axioms C05S.pp_eq_exp_ln_pp
#print axioms C05S.pp_cached
#print axioms C05S.m_eq_exp_ln_m
#print axioms C05S.pp_normalised
#print axioms C05S.ln_f_stat_eq_sum_ln_f
#print axioms C05S.ln_f_stat_fresh_eq_sum_ln_f
#print axioms C05S.ln_f_stat_state_independent
#print axioms C05S.ln_f_spec
