import RvModel.RealInst
import RvModel.ExtInst
import RvModel.Gen.Defs
import RvModel.Lemmas.C13A
import Mathlib.Analysis.SpecialFunctions.Log.Basic
import Mathlib.Analysis.SpecialFunctions.Exp
import Mathlib.Analysis.SpecialFunctions.Gamma.Basic
import Mathlib.Algebra.BigOperators.Intervals
import Mathlib.Tactic.NormNum.OfScientific
/-!
  C13 (group A): log-domain arithmetic of `src/misc/func.rs` — generated definitions
  `Gen.logsumexp`, `Gen.log1pexp`, `Gen.logaddexp`, `Gen.cumsum`, `Gen.ln_binom`, `Gen.lnmv_gamma`.

  * carrier `X` (IEEE special values over exact reals): totality, `-inf` handling, NaN-freedom;
  * carrier `R` (exact reals): values and the exact-arithmetic error of the 4-branch `log1pexp`.

  `-- @site` names the generated definition a theorem is about.  Helper lemmas: Lemmas/C13A.lean.
-/
open Real X

namespace C13

/-! ## (a) `logsumexp` over `X` -/

-- @site logsumexp
/-- For every list whose entries are finite or `-inf` (any positions, empty list included):
    `logsumexp xs = -inf` if there is no finite entry, else `ln Σ_{finite} exp xᵢ` — exactly. -/
theorem logsumexp_spec (xs : List X) (hx : ∀ x ∈ xs, IsFinOrNinf x) :
    Gen.logsumexp xs =
      if fins xs = [] then ninf else fin (Real.log ((fins xs).map Real.exp).sum) := by
  unfold Gen.logsumexp
  generalize hst : List.foldl _ _ xs = st
  have key : LInv (fins xs) st := by
    rw [← hst]
    refine foldl_invariant (fun pre st => LInv (fins pre) st) IsFinOrNinf _ _ xs hx ?_ ?_
    · left
      norm_num
    · rintro pre ⟨alpha, r⟩ x hx h
      rw [fins_append]
      cases x with
      | nan => exact absurd hx (by simp)
      | pinf => exact absurd hx (by simp)
      | ninf => simpa using h
      | fin b =>
        rcases h with ⟨h1, h2⟩ | ⟨a, r', h1, h2, h3, h4⟩
        · right
          simp only [Prod.mk.injEq] at h2
          obtain ⟨rfl, rfl⟩ := h2
          refine ⟨b, 1, ?_, one_pos, by simp [h1], by simp⟩
          norm_num [mulAdd]
        · right
          simp only [Prod.mk.injEq] at h1
          obtain ⟨rfl, rfl⟩ := h1
          by_cases hle : b ≤ a
          · refine ⟨a, r' + Real.exp (b - a), ?_, by positivity, ?_, by simp⟩
            · simp [hle]
            · simp only [fins_cons_fin, fins_nil, List.map_append, List.sum_append, List.map_cons,
                List.map_nil, List.sum_cons, List.sum_nil, add_zero, ← h3]
              rw [mul_add, ← Real.exp_add]; ring_nf
          · refine ⟨b, Real.exp (a - b) * r' + 1, ?_, by positivity, ?_, by simp⟩
            · norm_num [hle, mulAdd]
            · simp only [fins_cons_fin, fins_nil, List.map_append, List.sum_append, List.map_cons,
                List.map_nil, List.sum_cons, List.sum_nil, add_zero, ← h3]
              rw [mul_add, ← mul_assoc, ← Real.exp_add]; ring_nf
  rcases key with ⟨h1, h2⟩ | ⟨a, r, h1, h2, h3, h4⟩
  · subst h2; simp [h1]
  · subst h1
    simp only [h4, if_false]
    simp only [X.ln_fin_pos h2, X.fin_add_fin, X.fin_inj_iff]
    rw [← h3, Real.log_mul (Real.exp_pos a).ne' h2.ne', Real.log_exp]

example : Gen.logsumexp [ninf, fin 0, ninf, fin 0] = fin (Real.log 2) := by
  rw [logsumexp_spec _ (by simp), if_neg (by simp)]; norm_num

-- @site logsumexp
/-- never NaN on finite / `-inf` inputs -/
theorem logsumexp_ne_nan (xs : List X) (hx : ∀ x ∈ xs, IsFinOrNinf x) : Gen.logsumexp xs ≠ nan := by
  rw [logsumexp_spec xs hx]; split <;> simp

example : Gen.logsumexp [ninf, fin 3, ninf] ≠ nan := logsumexp_ne_nan _ (by simp)

-- @site logsumexp
/-- never `+inf` on finite / `-inf` inputs (no overflow in exact arithmetic) -/
theorem logsumexp_ne_pinf (xs : List X) (hx : ∀ x ∈ xs, IsFinOrNinf x) : Gen.logsumexp xs ≠ pinf := by
  rw [logsumexp_spec xs hx]; split <;> simp

example : Gen.logsumexp [fin 3, fin (-2)] ≠ pinf := logsumexp_ne_pinf _ (by simp)

-- @site logsumexp
theorem logsumexp_nil : Gen.logsumexp ([] : List X) = ninf := by
  rw [logsumexp_spec _ (by simp)]; simp

-- @site logsumexp
theorem logsumexp_singleton (a : ℝ) : Gen.logsumexp [fin a] = fin a := by
  rw [logsumexp_spec _ (by simp)]; simp

example : Gen.logsumexp [fin (-1000)] = fin (-1000) := logsumexp_singleton _

-- @site logsumexp
theorem logsumexp_pair (a b : ℝ) :
    Gen.logsumexp [fin a, fin b] = fin (Real.log (Real.exp a + Real.exp b)) := by
  rw [logsumexp_spec _ (by simp)]; simp

example : Gen.logsumexp [fin 0, fin 0] = fin (Real.log 2) := by
  rw [logsumexp_pair]; norm_num

-- @site logsumexp
/-- all entries `-inf` (any length) ↦ `-inf` -/
theorem logsumexp_all_ninf (xs : List X) (h : ∀ x ∈ xs, x = ninf) : Gen.logsumexp xs = ninf := by
  have hf : fins xs = [] := by
    induction xs with
    | nil => rfl
    | cons x t ih =>
      have := h x (by simp)
      subst this
      simpa using ih (fun y hy => h y (by simp [hy]))
  rw [logsumexp_spec xs (fun x hx => by rw [h x hx]; trivial), if_pos hf]

example : Gen.logsumexp [ninf, ninf, ninf] = ninf := logsumexp_all_ninf _ (by simp)

-- @site logsumexp
/-- a `-inf` entry at any position does not change the result -/
theorem logsumexp_ninf_insert (xs ys : List X) (hx : ∀ x ∈ xs, IsFinOrNinf x)
    (hy : ∀ y ∈ ys, IsFinOrNinf y) :
    Gen.logsumexp (xs ++ ninf :: ys) = Gen.logsumexp (xs ++ ys) := by
  have h1 : ∀ x ∈ xs ++ ninf :: ys, IsFinOrNinf x := by
    intro x hx'
    rcases List.mem_append.mp hx' with h | h
    · exact hx x h
    · rcases List.mem_cons.mp h with h | h
      · subst h; trivial
      · exact hy x h
  have h2 : ∀ x ∈ xs ++ ys, IsFinOrNinf x := by
    intro x hx'
    rcases List.mem_append.mp hx' with h | h
    · exact hx x h
    · exact hy x h
  rw [logsumexp_spec _ h1, logsumexp_spec _ h2]
  simp [fins_append]

example : Gen.logsumexp ([fin 1] ++ ninf :: [fin 2]) = Gen.logsumexp ([fin 1] ++ [fin 2]) :=
  logsumexp_ninf_insert _ _ (by simp) (by simp)

-- @site logsumexp
/-- the result depends on the finite entries only: dropping every `-inf` entry changes nothing -/
theorem logsumexp_drop_ninf (xs : List X) (hx : ∀ x ∈ xs, IsFinOrNinf x) :
    Gen.logsumexp xs = Gen.logsumexp ((fins xs).map fin) := by
  have hf : ∀ l : List ℝ, fins (l.map fin) = l := by
    intro l; induction l with
    | nil => rfl
    | cons a t ih => simp [ih]
  rw [logsumexp_spec xs hx, logsumexp_spec _ (by simp), hf]

example : Gen.logsumexp [ninf, fin 1, ninf, fin 2] = Gen.logsumexp [fin 1, fin 2] :=
  logsumexp_drop_ninf _ (by simp)

/-! ## (b) `log1pexp` and `logaddexp` -/

-- @site log1pexp
/-- the four branches over exact reals -/
theorem log1pexp_val (x : R) :
    (Gen.log1pexp x).val =
      if x.val ≤ -37 then Real.exp x.val
      else if x.val ≤ 18 then Real.log (1 + Real.exp x.val)
      else if x.val ≤ 33.3 then x.val + Real.exp (-x.val) else x.val := by
  unfold Gen.log1pexp
  simp only [R.le_iff, R.neg_val, R.sci_val, apply_ite R.val, R.exp_val, R.ln1p_val, R.add_val]
  norm_num

example : (Gen.log1pexp (⟨0⟩ : R)).val = Real.log 2 := by
  rw [log1pexp_val]; norm_num

-- @site log1pexp
/-- branch `x ≤ -37`: `|eˣ − ln(1+eˣ)| ≤ e^{2x}` -/
theorem log1pexp_branch_small (x : R) (h : x.val ≤ -37) :
    |(Gen.log1pexp x).val - Real.log (1 + Real.exp x.val)| ≤ Real.exp (2 * x.val) := by
  rw [log1pexp_val, if_pos h]; exact softplus_small _

example : (⟨-40⟩ : R).val ≤ -37 := by norm_num

-- @site log1pexp
/-- branch `-37 < x ≤ 18`: exact -/
theorem log1pexp_branch_exact (x : R) (h1 : -37 < x.val) (h2 : x.val ≤ 18) :
    (Gen.log1pexp x).val = Real.log (1 + Real.exp x.val) := by
  rw [log1pexp_val, if_neg (not_le.mpr h1), if_pos h2]

example : -37 < (⟨1⟩ : R).val ∧ (⟨1⟩ : R).val ≤ 18 := by norm_num

-- @site log1pexp
/-- branch `18 < x ≤ 33.3`: `|x + e⁻ˣ − ln(1+eˣ)| ≤ e^{-2x}` -/
theorem log1pexp_branch_mid (x : R) (h1 : 18 < x.val) (h2 : x.val ≤ 33.3) :
    |(Gen.log1pexp x).val - Real.log (1 + Real.exp x.val)| ≤ Real.exp (-(2 * x.val)) := by
  rw [log1pexp_val, if_neg (by linarith), if_neg (not_le.mpr h1), if_pos h2]; exact softplus_mid _

example : 18 < (⟨20⟩ : R).val ∧ (⟨20⟩ : R).val ≤ 33.3 := by norm_num

-- @site log1pexp
/-- branch `33.3 < x`: `|x − ln(1+eˣ)| ≤ e⁻ˣ` -/
theorem log1pexp_branch_large (x : R) (h : 33.3 < x.val) :
    |(Gen.log1pexp x).val - Real.log (1 + Real.exp x.val)| ≤ Real.exp (-x.val) := by
  have h' : (18:ℝ) < x.val := by norm_num at h; linarith
  rw [log1pexp_val, if_neg (by linarith), if_neg (not_le.mpr h'), if_neg (not_le.mpr h)]
  exact softplus_large _

example : 33.3 < (⟨50⟩ : R).val := by norm_num

-- @site log1pexp
/-- for every real `x`, in exact arithmetic, the relative error of the 4-branch approximation is at most
    one binary64 epsilon: `|log1pexp x − ln(1+eˣ)| ≤ 2⁻⁵²·ln(1+eˣ)` -/
theorem log1pexp_rel_error (x : R) :
    |(Gen.log1pexp x).val - Real.log (1 + Real.exp x.val)|
      ≤ (2:ℝ) ^ (-52 : ℤ) * Real.log (1 + Real.exp x.val) := by
  have hL := softplus_pos x.val
  have hε : (0:ℝ) < (2:ℝ) ^ (-52 : ℤ) := by positivity
  rcases le_or_gt x.val (-37) with h1 | h1
  · -- error ≤ t·t/(1+t) ≤ t·L, t = eˣ ≤ e⁻³⁷ ≤ 2⁻⁵²
    have ht := (Real.exp_pos x.val).le
    rw [log1pexp_val, if_pos h1, abs_of_nonneg (by linarith [log1p_le ht])]
    have ht2 : Real.exp x.val ≤ (2:ℝ) ^ (-52 : ℤ) := (Real.exp_le_exp.mpr h1).trans exp_neg_37_le
    calc Real.exp x.val - Real.log (1 + Real.exp x.val)
        ≤ Real.exp x.val * (Real.exp x.val / (1 + Real.exp x.val)) := sub_log1p_le ht
      _ ≤ Real.exp x.val * Real.log (1 + Real.exp x.val) :=
          mul_le_mul_of_nonneg_left (div_le_log1p ht) ht
      _ ≤ (2:ℝ) ^ (-52 : ℤ) * Real.log (1 + Real.exp x.val) :=
          mul_le_mul_of_nonneg_right ht2 hL.le
  rcases le_or_gt x.val 18 with h2 | h2
  · rw [log1pexp_branch_exact x h1 h2, sub_self, abs_zero]; positivity
  rcases le_or_gt x.val 33.3 with h3 | h3
  · -- error ≤ e^{-2x} ≤ e⁻³⁶ ≤ 18·2⁻⁵² ≤ 2⁻⁵²·x ≤ 2⁻⁵²·L
    calc |(Gen.log1pexp x).val - Real.log (1 + Real.exp x.val)|
        ≤ Real.exp (-(2 * x.val)) := log1pexp_branch_mid x h2 h3
      _ ≤ Real.exp (-36) := Real.exp_le_exp.mpr (by linarith)
      _ ≤ (2:ℝ) ^ (-52 : ℤ) * 18 := exp_neg_36_le
      _ ≤ (2:ℝ) ^ (-52 : ℤ) * Real.log (1 + Real.exp x.val) :=
          mul_le_mul_of_nonneg_left (by linarith [le_softplus x.val]) hε.le
  · -- error ≤ e⁻ˣ ≤ e⁻³³ ≤ 33·2⁻⁵² ≤ 2⁻⁵²·x ≤ 2⁻⁵²·L
    have h3' : (33:ℝ) < x.val := by norm_num at h3; linarith
    calc |(Gen.log1pexp x).val - Real.log (1 + Real.exp x.val)|
        ≤ Real.exp (-x.val) := log1pexp_branch_large x h3
      _ ≤ Real.exp (-33) := Real.exp_le_exp.mpr (by linarith)
      _ ≤ (2:ℝ) ^ (-52 : ℤ) * 33 := exp_neg_33_le
      _ ≤ (2:ℝ) ^ (-52 : ℤ) * Real.log (1 + Real.exp x.val) :=
          mul_le_mul_of_nonneg_left (by linarith [le_softplus x.val]) hε.le

example : |(Gen.log1pexp (⟨-100⟩ : R)).val - Real.log (1 + Real.exp (-100))|
    ≤ (2:ℝ) ^ (-52 : ℤ) * Real.log (1 + Real.exp (-100)) := log1pexp_rel_error ⟨-100⟩

-- @site log1pexp
/-- on a finite argument the `X` model computes the same real number as the `R` model -/
theorem log1pexp_fin (d : ℝ) : Gen.log1pexp (fin d) = fin (Gen.log1pexp (R.mk d)).val := by
  rw [log1pexp_val]
  unfold Gen.log1pexp
  have h : ∀ t : ℝ, -1 < Real.exp t := fun t => by linarith [Real.exp_pos t]
  simp only [X.sci_eq, X.neg_fin, X.le_fin, decide_eq_true_eq, X.exp_fin, X.ln1p_fin_of_gt (h _),
    X.fin_add_fin]
  norm_num
  split_ifs <;> rfl

example : Gen.log1pexp (fin 0) = fin (Real.log 2) := by
  rw [log1pexp_fin, log1pexp_val]; norm_num

-- @site log1pexp
/-- special values: `log1pexp(-inf) = 0`, `log1pexp(+inf) = +inf`, `log1pexp(NaN) = NaN` -/
theorem log1pexp_specials :
    Gen.log1pexp ninf = fin 0 ∧ Gen.log1pexp pinf = pinf ∧ Gen.log1pexp nan = nan := by
  refine ⟨?_, ?_, ?_⟩ <;> simp [Gen.log1pexp]

-- @site logaddexp
/-- `logaddexp x y = max x y + log1pexp(-|x-y|)` over exact reals -/
theorem logaddexp_val (x y : R) :
    (Gen.logaddexp x y).val = max x.val y.val + (Gen.log1pexp (R.mk (-|x.val - y.val|))).val := by
  unfold Gen.logaddexp
  simp only [RealLike.gt, R.lt_iff]
  split_ifs with h h2
  · have e : y - x = R.mk (-|x.val - y.val|) := R.ext' (by simp [abs_of_pos (sub_pos.mpr h)])
    rw [R.add_val, e, max_eq_left h.le]
  · have e : x - y = R.mk (-|x.val - y.val|) := R.ext' (by simp [abs_of_neg (sub_neg.mpr h2)])
    rw [R.add_val, e, max_eq_right h2.le]
  · -- equal arguments: `x + ln 2`, and `log1pexp 0 = ln 2`
    have hxy : x.val = y.val := le_antisymm (not_lt.mp h) (not_lt.mp h2)
    have h0 : R.mk (-|x.val - y.val|) = R.mk 0 := R.ext' (by simp [hxy])
    have h37 : -37 < (R.mk 0).val := by show (-37:ℝ) < 0; norm_num
    have h18 : (R.mk 0).val ≤ 18 := by show (0:ℝ) ≤ 18; norm_num
    rw [R.add_val, R.ln2_val, h0, log1pexp_branch_exact (R.mk 0) h37 h18, hxy, max_self]
    simp only [Real.exp_zero]; norm_num

-- @site logaddexp
/-- exact-arithmetic error of `logaddexp` on reals: at most `e^{-2|x-y|}` (only the branch `x ≤ -37`
    of `log1pexp` is inexact) … -/
theorem logaddexp_R_bound (x y : R) :
    |(Gen.logaddexp x y).val - Real.log (Real.exp x.val + Real.exp y.val)|
      ≤ Real.exp (-(2 * |x.val - y.val|)) := by
  rw [logaddexp_val, log_add_exp, add_sub_add_left_eq_sub]
  rcases le_or_gt (-|x.val - y.val|) (-37) with h | h
  · have := log1pexp_branch_small (R.mk (-|x.val - y.val|)) h
    simpa [mul_neg] using this
  · have h18 : (R.mk (-|x.val - y.val|)).val ≤ 18 := by
      show -|x.val - y.val| ≤ 18; linarith [abs_nonneg (x.val - y.val)]
    rw [log1pexp_branch_exact (R.mk (-|x.val - y.val|)) h h18]
    simp only [sub_self, abs_zero]; positivity

example : |(Gen.logaddexp (⟨0⟩ : R) ⟨-50⟩).val - Real.log (Real.exp 0 + Real.exp (-50))|
    ≤ Real.exp (-(2 * |(0:ℝ) - (-50)|)) := logaddexp_R_bound ⟨0⟩ ⟨-50⟩

-- @site logaddexp
/-- … and exact when `|x-y| < 37` -/
theorem logaddexp_R_exact (x y : R) (h : |x.val - y.val| < 37) :
    (Gen.logaddexp x y).val = Real.log (Real.exp x.val + Real.exp y.val) := by
  have h37 : -37 < (R.mk (-|x.val - y.val|)).val := by
    show -37 < -|x.val - y.val|; linarith
  have h18 : (R.mk (-|x.val - y.val|)).val ≤ 18 := by
    show -|x.val - y.val| ≤ 18; linarith [abs_nonneg (x.val - y.val)]
  rw [logaddexp_val, log_add_exp, log1pexp_branch_exact (R.mk (-|x.val - y.val|)) h37 h18]

example : (Gen.logaddexp (⟨-3⟩ : R) ⟨-7⟩).val = Real.log (Real.exp (-3) + Real.exp (-7)) :=
  logaddexp_R_exact _ _ (by norm_num [abs_of_pos])

-- @site logaddexp
/-- on finite arguments the `X` model computes the same real number as the `R` model -/
theorem logaddexp_fin (a b : ℝ) :
    Gen.logaddexp (fin a) (fin b) = fin (Gen.logaddexp (R.mk a) (R.mk b)).val := by
  unfold Gen.logaddexp
  simp only [RealLike.gt, X.lt_fin, decide_eq_true_eq, R.lt_iff, X.fin_sub_fin, log1pexp_fin,
    X.ln2_eq, X.fin_add_fin]
  split_ifs <;> rfl

-- @site logaddexp
theorem logaddexp_fin_ninf (a : ℝ) : Gen.logaddexp (fin a) ninf = fin a := by
  simp [Gen.logaddexp, Gen.log1pexp]

-- @site logaddexp
theorem logaddexp_ninf_fin (b : ℝ) : Gen.logaddexp ninf (fin b) = fin b := by
  simp [Gen.logaddexp, Gen.log1pexp]

example : Gen.logaddexp (fin 2) ninf = fin 2 ∧ Gen.logaddexp ninf (fin 2) = fin 2 :=
  ⟨logaddexp_fin_ninf 2, logaddexp_ninf_fin 2⟩

-- @site logaddexp
/-- both arguments `-inf`: `ln(0 + 0) = -inf` (equal-arguments branch `x + ln 2`; the unrepaired code
    evaluated `-inf - -inf` and returned NaN) -/
theorem logaddexp_ninf_ninf : Gen.logaddexp ninf ninf = ninf := by
  simp [Gen.logaddexp]

example : Gen.logaddexp ninf ninf = Gen.logsumexp [ninf, ninf] := by
  rw [logaddexp_ninf_ninf, logsumexp_all_ninf _ (by simp)]

-- @site logaddexp
/-- equal real arguments: exactly `x + ln 2` -/
theorem logaddexp_R_self (x : R) : (Gen.logaddexp x x).val = x.val + Real.log 2 := by
  simp [Gen.logaddexp, RealLike.gt]

-- @site logaddexp
/-- equal finite arguments: exactly `a + ln 2` … -/
theorem logaddexp_fin_self (a : ℝ) : Gen.logaddexp (fin a) (fin a) = fin (a + Real.log 2) := by
  simp [Gen.logaddexp, RealLike.gt]

-- @site logaddexp
/-- … which is `ln(2eᵃ) = ln(eᵃ + eᵃ)` -/
theorem logaddexp_fin_self_eq_log (a : ℝ) :
    Gen.logaddexp (fin a) (fin a) = fin (Real.log (2 * Real.exp a)) := by
  rw [logaddexp_fin_self, Real.log_mul (by norm_num) (Real.exp_pos a).ne', Real.log_exp, add_comm]

example : Gen.logaddexp (fin 0) (fin 0) = fin (Real.log 2) := by
  rw [logaddexp_fin_self]; norm_num

-- @site logaddexp
/-- `logaddexp x y = ln(eˣ + eʸ)` for all `x, y ∈ ℝ ∪ {-inf}` (with `e^{-inf} = 0`, `ln 0 = -inf`):
    both `-inf` ↦ `-inf`; otherwise the result is finite, within `e^{-2|x-y|} ≤ e⁻⁷⁴` of the exact value, and
    exact when one argument is `-inf` or `|x-y| < 37` (equal arguments included). -/
theorem logaddexp_spec (x y : X) (hx : IsFinOrNinf x) (hy : IsFinOrNinf y) :
    if fins [x, y] = [] then Gen.logaddexp x y = ninf
    else ∃ r, Gen.logaddexp x y = fin r ∧
      |r - Real.log ((fins [x, y]).map Real.exp).sum| ≤ Real.exp (-74) ∧
      ((x = ninf ∨ y = ninf ∨ |x.toReal - y.toReal| < 37) →
        r = Real.log ((fins [x, y]).map Real.exp).sum) := by
  cases x with
  | nan => exact absurd hx (by simp)
  | pinf => exact absurd hx (by simp)
  | ninf =>
    cases y with
    | nan => exact absurd hy (by simp)
    | pinf => exact absurd hy (by simp)
    | ninf => rw [if_pos (by simp)]; exact logaddexp_ninf_ninf
    | fin b =>
      rw [if_neg (by simp)]
      exact ⟨b, logaddexp_ninf_fin b, by simp [(Real.exp_pos _).le], by simp⟩
  | fin a =>
    cases y with
    | nan => exact absurd hy (by simp)
    | pinf => exact absurd hy (by simp)
    | ninf =>
      rw [if_neg (by simp)]
      exact ⟨a, logaddexp_fin_ninf a, by simp [(Real.exp_pos _).le], by simp⟩
    | fin b =>
      rw [if_neg (by simp)]
      refine ⟨_, logaddexp_fin a b, ?_, ?_⟩
      · simp only [fins_cons_fin, fins_nil, List.map_cons, List.map_nil, List.sum_cons, List.sum_nil,
          add_zero]
        rcases lt_or_ge |a - b| 37 with h | h
        · rw [logaddexp_R_exact _ _ (by simpa using h)]; simp [(Real.exp_pos _).le]
        · refine (logaddexp_R_bound (R.mk a) (R.mk b)).trans (Real.exp_le_exp.mpr ?_)
          show -(2 * |a - b|) ≤ -74; linarith
      · intro h
        simp only [fins_cons_fin, fins_nil, List.map_cons, List.map_nil, List.sum_cons, List.sum_nil,
          add_zero]
        rcases h with h | h | h
        · exact absurd h (by simp)
        · exact absurd h (by simp)
        · exact logaddexp_R_exact _ _ (by simpa using h)

example : ∃ r, Gen.logaddexp (fin (-3)) (fin (-7)) = fin r ∧
    |r - Real.log ((fins [fin (-3), fin (-7)]).map Real.exp).sum| ≤ Real.exp (-74) := by
  have h := logaddexp_spec (fin (-3)) (fin (-7)) (by simp) (by simp)
  rw [if_neg (by simp)] at h
  obtain ⟨r, h1, h2, _⟩ := h
  exact ⟨r, h1, h2⟩

-- @site logaddexp
/-- never NaN on finite / `-inf` inputs — `(-inf, -inf)` included -/
theorem logaddexp_ne_nan (x y : X) (hx : IsFinOrNinf x) (hy : IsFinOrNinf y) :
    Gen.logaddexp x y ≠ nan := by
  have h := logaddexp_spec x y hx hy
  split_ifs at h
  · rw [h]; simp
  · obtain ⟨r, h, _⟩ := h
    rw [h]; simp

example : Gen.logaddexp (fin (-3)) ninf ≠ nan := logaddexp_ne_nan _ _ (by simp) (by simp)
example : Gen.logaddexp ninf ninf ≠ nan := logaddexp_ne_nan _ _ (by simp) (by simp)

-- @site logaddexp
/-- `logaddexp x y` agrees with `logsumexp [x, y]` whenever it is exact: an argument `-inf` (both included)
    or `|x-y| < 37` -/
theorem logaddexp_eq_logsumexp (x y : X) (hx : IsFinOrNinf x) (hy : IsFinOrNinf y)
    (h : x = ninf ∨ y = ninf ∨ |x.toReal - y.toReal| < 37) :
    Gen.logaddexp x y = Gen.logsumexp [x, y] := by
  have hs := logaddexp_spec x y hx hy
  have hl : ∀ z ∈ [x, y], IsFinOrNinf z := by
    intro z hz
    rcases List.mem_cons.mp hz with rfl | hz
    · exact hx
    · rcases List.mem_cons.mp hz with rfl | hz
      · exact hy
      · cases hz
  rw [logsumexp_spec _ hl]
  split_ifs at hs ⊢
  · exact hs
  · obtain ⟨r, h1, _, h3⟩ := hs
    rw [h1, h3 h]

example : Gen.logaddexp (fin (-3)) (fin (-7)) = Gen.logsumexp [fin (-3), fin (-7)] :=
  logaddexp_eq_logsumexp _ _ (by simp) (by simp) (by right; right; norm_num [abs_of_pos])

/-! ## (c) `cumsum`, `ln_binom`, `lnmv_gamma` over `R` -/

-- @site cumsum
theorem cumsum_length (xs : List R) : (Gen.cumsum xs).length = xs.length := by
  unfold Gen.cumsum; exact scanL_length _ _ _

-- @site cumsum
/-- `cumsum xs` is the list of prefix sums: entry `i` is `x₀ + … + xᵢ` -/
theorem cumsum_prefix_sums (xs : List R) :
    (Gen.cumsum xs).map R.val =
      (List.range xs.length).map (fun i => ((xs.map R.val).take (i + 1)).sum) := by
  unfold Gen.cumsum
  rw [scanL_add_val _ (fun a x => by simp) _ xs]
  norm_num

example : (Gen.cumsum [(⟨1⟩ : R), ⟨1⟩, ⟨2⟩, ⟨1⟩]).map R.val = [1, 2, 4, 5] := by
  rw [cumsum_prefix_sums]; norm_num [List.range_succ]

-- @site ln_binom
/-- `ln_binom n k = ln C(n, k)` for naturals `k ≤ n` -/
theorem ln_binom_nat (n k : ℕ) (h : k ≤ n) :
    (Gen.ln_binom (RealLike.ofNatR n : R) (RealLike.ofNatR k)).val = Real.log (n.choose k) := by
  simp only [Gen.ln_binom, R.sub_val, R.add_val, R.lgamma_val, R.sci_val, R.ofNatR_val]
  norm_num
  have e : (n:ℝ) - k + 1 = ((n - k : ℕ) : ℝ) + 1 := by push_cast [Nat.cast_sub h]; ring
  rw [e, Real.Gamma_nat_eq_factorial, Real.Gamma_nat_eq_factorial, Real.Gamma_nat_eq_factorial]
  have hc : ((n.choose k : ℕ) : ℝ) * (k.factorial : ℝ) * ((n - k).factorial : ℝ) = (n.factorial : ℝ) := by
    exact_mod_cast Nat.choose_mul_factorial_mul_factorial h
  have h1 : ((n.choose k : ℕ) : ℝ) ≠ 0 := by exact_mod_cast (Nat.choose_pos h).ne'
  have h2 : (k.factorial : ℝ) ≠ 0 := by exact_mod_cast k.factorial_ne_zero
  have h3 : ((n - k).factorial : ℝ) ≠ 0 := by exact_mod_cast (n - k).factorial_ne_zero
  rw [← hc, Real.log_mul (mul_ne_zero h1 h2) h3, Real.log_mul h1 h2]
  ring

example : (Gen.ln_binom (RealLike.ofNatR 5 : R) (RealLike.ofNatR 2)).val = Real.log 10 := by
  rw [ln_binom_nat 5 2 (by norm_num)]; norm_num [Nat.choose]

-- @site lnmv_gamma
/-- `lnmv_gamma p a = p(p-1)/4 · ln π + Σ_{j=1..p} ln Γ(a + (1-j)/2)` -/
theorem lnmv_gamma_eq (p : ℕ) (a : R) :
    (Gen.lnmv_gamma p a).val =
      (p : ℝ) * ((p : ℝ) - 1) / 4 * Real.log π
        + ∑ j ∈ Finset.Icc 1 p, Real.log (Real.Gamma (a.val + (1 - (j : ℝ)) / 2)) := by
  unfold Gen.lnmv_gamma
  simp only [Nat.add_sub_cancel]
  rw [foldl_add_val _ (fun j : ℕ => Real.log (Real.Gamma (a.val + (1 - (j : ℝ)) / 2)))
    (fun acc j => by simp only [R.add_val, R.lgamma_val, R.sub_val, R.div_val, R.sci_val,
      R.ofNatR_val]; norm_num), sum_map_range'_one]
  simp only [R.mul_val, R.div_val, R.sub_val, R.sci_val, R.ofNatR_val, R.lnPi_val]
  norm_num

example : (Gen.lnmv_gamma 1 (⟨1⟩ : R)).val = 0 := by
  rw [lnmv_gamma_eq]; simp

end C13

#print axioms C13.logsumexp_spec
#print axioms C13.logsumexp_ne_nan
#print axioms C13.logsumexp_ne_pinf
#print axioms C13.logsumexp_nil
#print axioms C13.logsumexp_singleton
#print axioms C13.logsumexp_pair
#print axioms C13.logsumexp_all_ninf
#print axioms C13.logsumexp_ninf_insert
#print axioms C13.logsumexp_drop_ninf
#print axioms C13.log1pexp_val
#print axioms C13.log1pexp_branch_small
#print axioms C13.log1pexp_branch_exact
#print axioms C13.log1pexp_branch_mid
#print axioms C13.log1pexp_branch_large
#print axioms C13.log1pexp_rel_error
#print axioms C13.log1pexp_fin
#print axioms C13.log1pexp_specials
#print axioms C13.logaddexp_val
#print axioms C13.logaddexp_R_bound
#print axioms C13.logaddexp_R_exact
#print axioms C13.logaddexp_fin
#print axioms C13.logaddexp_fin_ninf
#print axioms C13.logaddexp_ninf_fin
#print axioms C13.logaddexp_ninf_ninf
#print axioms C13.logaddexp_R_self
#print axioms C13.logaddexp_fin_self
#print axioms C13.logaddexp_fin_self_eq_log
#print axioms C13.logaddexp_spec
#print axioms C13.logaddexp_ne_nan
#print axioms C13.logaddexp_eq_logsumexp
#print axioms C13.cumsum_length
#print axioms C13.cumsum_prefix_sums
#print axioms C13.ln_binom_nat
#print axioms C13.lnmv_gamma_eq
