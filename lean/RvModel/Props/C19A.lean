import RvModel.RealInst
import RvModel.Gen.Defs
import RvModel.Hand.Partition
import RvModel.Lemmas.C19
import RvModel.Props.C01C
import Mathlib.Tactic.IntervalCases
/-!
  C19 (part A) — `Partition` and the Chinese-restaurant process are coherent random structures.

  Model: `Hand/Partition.lean` (hand model of `data/partition.rs` and of `Crp::draw`, tied to the generated
  `Gen.Partition.{append,k,len,weights,new}` by `append_eq_gen` …), generated `Gen.Crp.ln_f_Partition`.

  1. `WF` (|counts| = k, counts = label multiplicities, no empty block, labels < k) holds after `from_z`, is
     preserved by `append` and `remove`, hence along EVERY history of operations (`history_wf`); a failing
     operation leaves the state unchanged.  `counts` sum to `len` (`wf_sum_counts`).
  2. `Canonical` (labels in order of first appearance): established by `Crp::draw` for every variate stream and
     every carrier (`crpDraw_canonical`), preserved by `append`; NOT preserved by `remove`
     (`remove_canonical_counterexample`), which only preserves the relative order of labels (`remove_relabel`);
     removing the LAST item does preserve it (`remove_last_canonical`).
  3. `Crp::draw` over the exact reals: no panic, well-formed result, `(w + 0.5) as usize` exact, and the weight
     vector handed to `crpPflip` is `counts ++ [α]` with its exact total at every step (`crpDraw_weights`).
  4. EPPF: Σ over ALL set partitions of `n` items of `exp (Crp::ln_f)` = 1 for all `n ≥ 1`, `α > 0`
     (`crp_normalised`, enumeration complete and duplicate free), and `ln_f` depends only on block sizes.
-/
set_option linter.unusedVariables false
set_option linter.unusedSimpArgs false
set_option linter.unusedTactic false

namespace C19
open Hand Hand.P


/-! ### 1. the well-formedness invariant along every history -/

-- @site Partition::from_z
theorem fromZ_wf (z : List Nat) (p : P) (h : fromZ z = .ok p) : WF p ∧ p.z = z := by
  unfold fromZ at h
  split at h
  · cases h
  · simp only at h
    split at h
    · rename_i hall
      injection h with h
      subst h
      have hlen : (tally z (List.replicate (maxL z + 1) 0)).length = maxL z + 1 := by
        rw [tally_length]; simp
      refine ⟨⟨rfl, ?_, ?_, ?_⟩, rfl⟩
      · intro j hj
        simp only [P.k, hlen] at hj
        simp only []
        rw [tally_getD _ _ _ (by simpa using hj)]
        simp [List.getD_eq_getElem?_getD, hj]
      · intro j hj
        simp only [P.k] at hj
        rw [List.all_eq_true] at hall
        have := hall ((tally z (List.replicate (maxL z + 1) 0))[j]) (List.getElem_mem hj)
        simp only [List.getD_eq_getElem?_getD, List.getElem?_eq_getElem hj, Option.getD_some]
        simpa using this
      · intro i hi
        simp only [P.k, hlen]
        have := (le_foldl_max z 0).2 i hi
        simp only [maxL]; omega
    · cases h

example : fromZ [0, 1, 2, 3, 1, 2] = .ok ⟨[0, 1, 2, 3, 1, 2], [1, 2, 2, 1]⟩ := rfl
/-- `from_z` accepts assignments that are not in order of first appearance (observation) -/
example : fromZ [1, 0] = .ok ⟨[1, 0], [1, 1]⟩ := rfl

-- @site Partition::append
theorem append_wf (p q : P) (zi : Nat) (hp : WF p) (h : p.append zi = .ok q) : WF q := by
  obtain ⟨_, h2, h3, h4⟩ := hp
  unfold P.append at h
  simp only at h
  split at h
  · cases h
  · rename_i hle
    injection h with h
    subst h
    by_cases hk : zi = p.k
    · subst hk
      simp only [beq_self_eq_true, if_true]
      refine ⟨rfl, ?_, ?_, ?_⟩
      · intro j hj
        simp only [P.k, List.length_append, List.length_singleton] at hj
        simp only [List.count_append, List.getD_eq_getElem?_getD]
        by_cases hjk : j < p.counts.length
        · rw [List.getElem?_append_left hjk]
          have := h2 j hjk
          simp only [List.getD_eq_getElem?_getD] at this
          rw [this]
          have hne : p.k ≠ j := by simp only [P.k]; omega
          simp [hne]
        · have hjk' : j = p.counts.length := by omega
          subst hjk'
          rw [List.getElem?_append_right (le_refl _)]
          have := count_eq_zero_of_all_lt p.z p.k h4
          simp only [P.k] at this ⊢
          simp [this]
      · intro j hj
        simp only [P.k, List.length_append, List.length_singleton] at hj
        simp only [List.getD_eq_getElem?_getD]
        by_cases hjk : j < p.counts.length
        · rw [List.getElem?_append_left hjk]
          have := h3 j hjk
          simpa [List.getD_eq_getElem?_getD] using this
        · have hjk' : j = p.counts.length := by omega
          subst hjk'
          rw [List.getElem?_append_right (le_refl _)]
          simp
      · intro i hi
        simp only [P.k, List.length_append, List.length_singleton, List.mem_append, List.mem_singleton] at hi ⊢
        rcases hi with hi | hi
        · have := h4 i hi; simp only [P.k] at this; omega
        · omega
    · have hlt : zi < p.k := by omega
      have hb : (zi == p.k) = false := by simpa using hk
      simp only [hb, Bool.false_eq_true, if_false]
      have hlen : (p.counts.set zi (p.counts.getD zi 0 + 1)).length = p.counts.length := by simp
      refine ⟨rfl, ?_, ?_, ?_⟩
      · intro j hj
        simp only [P.k, hlen] at hj
        simp only []
        rw [getD_set, List.count_append, h2 zi hlt]
        by_cases hzj : zi = j
        · subst hzj; simp [hj]
        · have := h2 j hj
          simp only [hzj, false_and, if_false, this]
          rw [List.count_singleton]; simp [hzj]
      · intro j hj
        simp only [P.k, hlen] at hj
        simp only []
        rw [getD_set]
        by_cases hzj : zi = j
        · subst hzj; simp [hj]
        · simp [hzj]; exact h3 j hj
      · intro i hi
        simp only [P.k, hlen, List.mem_append, List.mem_singleton] at hi ⊢
        rcases hi with hi | hi
        · exact h4 i hi
        · subst hi; exact hlt

example : P.append ⟨[0, 1, 0, 2], [2, 1, 1]⟩ 3 = .ok ⟨[0, 1, 0, 2, 3], [2, 1, 1, 1]⟩ := rfl

-- @site Partition::remove
theorem remove_wf (p q : P) (ix : Nat) (hp : WF p) (h : p.remove ix = .ok q) : WF q := by
  obtain ⟨_, h2, h3, h4⟩ := hp
  unfold P.remove at h
  split at h
  · cases h
  · rename_i hix
    have hix : ix < p.z.length := by omega
    simp only at h
    have hmem : p.z.getD ix 0 ∈ p.z := by
      simp only [List.getD_eq_getElem?_getD, List.getElem?_eq_getElem hix, Option.getD_some]
      exact List.getElem_mem hix
    have hzk : p.z.getD ix 0 < p.k := h4 _ hmem
    split at h
    · rename_i hge; simp only [P.k] at hzk; omega
    · generalize hzi : p.z.getD ix 0 = zi at *
      have hce := fun a => count_eraseIdx p.z ix a hix
      split at h
      · rename_i hone
        have hone : p.counts.getD zi 0 = 1 := by simpa using hone
        injection h with h
        subst h
        have hnot : zi ∉ p.z.eraseIdx ix := by
          have := hce zi
          rw [hzi] at this
          simp only [if_true] at this
          rw [← h2 zi hzk, hone] at this
          have : (p.z.eraseIdx ix).count zi = 0 := by omega
          exact List.count_eq_zero.mp this
        have hlen : (p.counts.eraseIdx zi).length = p.counts.length - 1 := by
          rw [List.length_eraseIdx]; simp only [P.k] at hzk; simp [hzk]
        have hget : ∀ j, (p.counts.eraseIdx zi).getD j 0 = p.counts.getD (if j < zi then j else j + 1) 0 := by
          intro j
          simp only [List.getD_eq_getElem?_getD, List.getElem?_eraseIdx]
          split <;> rfl
        have hcnt : ∀ j, j < p.counts.length - 1 →
            (p.z.eraseIdx ix).count (if j < zi then j else j + 1) = p.counts.getD (if j < zi then j else j + 1) 0 := by
          intro j hj
          have hne : zi ≠ (if j < zi then j else j + 1) := by split <;> omega
          have := hce (if j < zi then j else j + 1)
          rw [hzi] at this
          simp only [hne, if_false, add_zero] at this
          rw [this, h2]
          simp only [P.k]; split <;> omega
        refine ⟨rfl, ?_, ?_, ?_⟩
        · intro j hj
          simp only [P.k, hlen] at hj
          simp only []
          rw [count_map_shift _ _ _ hnot, hget, hcnt j hj]
        · intro j hj
          simp only [P.k, hlen] at hj
          simp only []
          rw [hget]
          apply h3
          simp only [P.k]; split <;> omega
        · intro i hi
          simp only [P.k, hlen, List.mem_map] at hi ⊢
          obtain ⟨x, hx, rfl⟩ := hi
          have hxk := h4 x (List.mem_of_mem_eraseIdx hx)
          have hxne : x ≠ zi := fun e => hnot (e ▸ hx)
          simp only [P.k] at hxk hzk
          simp only [shift]
          split <;> omega
      · rename_i hone
        have hone : p.counts.getD zi 0 ≠ 1 := by simpa using hone
        split at h
        · cases h
        · injection h with h
          subst h
          have hlen : (p.counts.set zi (p.counts.getD zi 0 - 1)).length = p.counts.length := by simp
          have hpos := h3 zi hzk
          refine ⟨rfl, ?_, ?_, ?_⟩
          · intro j hj
            simp only [P.k, hlen] at hj
            simp only []
            rw [getD_set]
            have := hce j
            rw [hzi] at this
            by_cases hzj : zi = j
            · subst hzj
              simp only [true_and, hj, if_true] at this ⊢
              rw [h2 zi hzk]; omega
            · simp only [hzj, false_and, if_false, add_zero] at this ⊢
              rw [this, h2 j hj]
          · intro j hj
            simp only [P.k, hlen] at hj
            simp only []
            rw [getD_set]
            by_cases hzj : zi = j
            · subst hzj; simp only [true_and, hj, if_true]; omega
            · simp only [hzj, false_and, if_false]; exact h3 j hj
          · intro i hi
            simp only [P.k, hlen] at hi ⊢
            exact h4 i (List.mem_of_mem_eraseIdx hi)

example : P.remove ⟨[0, 1, 0, 2], [2, 1, 1]⟩ 1 = .ok ⟨[0, 0, 1], [2, 1]⟩ := rfl

-- @site Partition::remove
/-- on a well-formed partition `remove` fails only through the index check of `Vec::remove` -/
theorem remove_ok_of_wf (p : P) (ix : Nat) (hp : WF p) (hix : ix < p.len) : ∃ q, p.remove ix = .ok q := by
  obtain ⟨_, h2, h3, h4⟩ := hp
  have hmem : p.z.getD ix 0 ∈ p.z := by
    simp only [P.len] at hix
    simp only [List.getD_eq_getElem?_getD, List.getElem?_eq_getElem hix, Option.getD_some]
    exact List.getElem_mem hix
  have hzk : p.z.getD ix 0 < p.k := h4 _ hmem
  have hpos := h3 _ hzk
  unfold P.remove
  simp only [P.len, P.k] at hix hzk
  simp only [ge_iff_le, Nat.not_le.mpr hix, Nat.not_le.mpr hzk, if_false]
  by_cases h1 : p.counts.getD (p.z.getD ix 0) 0 = 1
  · simp only [h1, beq_self_eq_true, if_true]; exact ⟨_, rfl⟩
  · have h0 : p.counts.getD (p.z.getD ix 0) 0 ≠ 0 := by omega
    have hb1 : (p.counts.getD (p.z.getD ix 0) 0 == 1) = false := by simpa using h1
    have hb0 : (p.counts.getD (p.z.getD ix 0) 0 == 0) = false := by simpa using h0
    simp only [hb1, hb0, Bool.false_eq_true, if_false]; exact ⟨_, rfl⟩

-- @site Partition::append / Partition::remove
theorem step_wf (p : P) (op : Op) (hp : WF p) : WF (step p op).1 := by
  cases op with
  | append zi =>
    simp only [step]
    cases h : p.append zi with
    | ok q => exact append_wf p q zi hp h
    | error e => exact hp
  | remove ix =>
    simp only [step]
    cases h : p.remove ix with
    | ok q => exact remove_wf p q ix hp h
    | error e => exact hp

-- @site Partition::append / Partition::remove
/-- **history theorem** -/
theorem history_wf (ops : List Op) (p : P) (hp : WF p) : WF (run p ops) := by
  induction ops generalizing p with
  | nil => exact hp
  | cons op ops ih => exact ih _ (step_wf p op hp)

example : run ⟨[0, 1, 0], [2, 1]⟩ [.append 2, .remove 1, .append 7, .remove 9, .remove 0] = ⟨[0, 1], [1, 1]⟩ := rfl
example : runLog ⟨[0, 1, 0], [2, 1]⟩ [.append 2, .remove 1, .append 7, .remove 9] =
    [none, none, some "IndicatorHigherThanNumberOfPartitions", some "PANIC"] := rfl

/-! ### 2. order of first appearance -/

-- @site Partition::from_z
/-- on a well-formed partition the number of labels of `z` is `k` -/
theorem numBlocks_of_wf (p : P) (hp : WF p) : numBlocks p.z = p.k := by
  obtain ⟨_, h2, h3, h4⟩ := hp
  apply le_antisymm
  · exact (foldl_nb p.z 0).2.2 p.k (Nat.zero_le _) h4
  · by_cases hk : p.k = 0
    · omega
    · have hlt : p.k - 1 < p.k := by omega
      have hc := h3 _ hlt
      rw [h2 _ hlt] at hc
      have hm := List.count_pos_iff.mp hc
      have := (foldl_nb p.z 0).2.1 _ hm
      simp only [numBlocks]; omega

-- @site Partition::append
theorem append_canonical (p q : P) (zi : Nat) (hp : WF p) (hc : Canonical p.z) (h : p.append zi = .ok q) :
    Canonical q.z := by
  have hnb := numBlocks_of_wf p hp
  unfold P.append at h
  simp only at h
  split at h
  · cases h
  · rename_i hle
    injection h with h
    subst h
    exact (canonical_snoc _ _).mpr ⟨hc, by omega⟩

-- @site Partition::remove
/-- `[0,1,0].remove(0)` gives `z = [1,0]`, `counts = [1,1]`: well formed but NOT in order of first appearance -/
theorem remove_canonical_counterexample :
    fromZ [0, 1, 0] = .ok ⟨[0, 1, 0], [2, 1]⟩ ∧ Canonical [0, 1, 0] ∧
    P.remove ⟨[0, 1, 0], [2, 1]⟩ 0 = .ok ⟨[1, 0], [1, 1]⟩ ∧ ¬ Canonical [1, 0] := by
  refine ⟨rfl, ?_, rfl, ?_⟩
  · intro i hi
    simp only [List.length_cons, List.length_nil] at hi
    interval_cases i <;> decide
  · intro h
    have := h 0 (by simp)
    revert this; decide

/-! ### 3. `Crp::draw` -/

-- @site Crp::draw
theorem crpInit_inv {α : Type} [RealLike α] (alpha : α) : CrpInv (crpInit alpha) := by
  refine ⟨rfl, ?_, rfl⟩
  intro i hi
  simp only [crpInit, List.length_cons, List.length_nil] at hi
  interval_cases i; simp [crpInit]

-- @site Crp::draw
theorem crpStep_inv {α : Type} [RealLike α] (alpha : α) (s s' : CrpSt α) (u : α) (hs : CrpInv s)
    (h : crpStep alpha s u = some s') : CrpInv s' ∧ s'.z.length = s.z.length + 1 := by
  obtain ⟨h1, h2, h3⟩ := hs
  unfold crpStep at h
  simp only at h
  split at h
  · cases h
  · rename_i zi hz
    have hb := crpPflipGo_bound _ _ _ _ _ hz
    simp only [List.length_append, List.length_singleton, h1, Nat.zero_add] at hb
    split at h
    · rename_i hk
      have hk : zi = s.k := by simpa using hk
      injection h with h; subst h
      refine ⟨⟨by simp [h1], (canonical_snoc _ _).mpr ⟨h2, by omega⟩, ?_⟩, by simp⟩
      simp only [numBlocks_snoc, h3, hk]; simp
    · rename_i hk
      have hk : zi ≠ s.k := by simpa using hk
      injection h with h; subst h
      refine ⟨⟨by simp [h1], (canonical_snoc _ _).mpr ⟨h2, by omega⟩, ?_⟩, by simp⟩
      simp only [numBlocks_snoc, h3]
      have : zi + 1 ≤ s.k := by omega
      simp only [Nat.max_def]; split <;> omega

-- @site Crp::draw
theorem crpLoop_inv {α : Type} [RealLike α] (alpha : α) (us : List α) (s s' : CrpSt α) (hs : CrpInv s)
    (h : crpLoop alpha s us = some s') : CrpInv s' ∧ s'.z.length = s.z.length + us.length := by
  induction us generalizing s with
  | nil => simp only [crpLoop] at h; injection h with h; subst h; exact ⟨hs, rfl⟩
  | cons u us ih =>
    simp only [crpLoop] at h
    split at h
    · cases h
    · rename_i s1 h1
      obtain ⟨hi, hl⟩ := crpStep_inv alpha s s1 u hs h1
      obtain ⟨hi', hl'⟩ := ih s1 hi h
      refine ⟨hi', ?_⟩
      rw [hl', hl]; simp only [List.length_cons]; omega

-- @site Crp::draw
/-- for EVERY variate stream (and every carrier): if `Crp::draw` returns, its `z` is in order of first
    appearance, has one count per label, and `max n 1` items (given at least `n - 1` variates) -/
theorem crpDraw_canonical {α : Type} [RealLike α] (alpha : α) (n : Nat) (us : List α) (p : P)
    (h : crpDraw alpha n us = some p) :
    Canonical p.z ∧ numBlocks p.z = p.k ∧ (n - 1 ≤ us.length → p.len = Nat.max n 1) := by
  unfold crpDraw at h
  cases hl : crpLoop alpha (crpInit alpha) (us.take (n - 1)) with
  | none => simp [hl] at h
  | some s =>
    simp only [hl, Option.map_some, Option.some.injEq] at h
    subst h
    obtain ⟨⟨h1, h2, h3⟩, hlen⟩ := crpLoop_inv alpha _ _ s (crpInit_inv alpha) hl
    refine ⟨h2, ?_, ?_⟩
    · simp only [crpFinish, P.k, List.length_map, h1, h3]
    · intro hn
      simp only [crpFinish, P.len, hlen, crpInit, List.length_take, List.length_cons, List.length_nil]
      simp only [Nat.max_def]; split <;> omega

-- @site Crp::draw
theorem crpInit_invR (alpha : R) : CrpInvR alpha (crpInit alpha) := by
  refine ⟨rfl, ?_, ?_, ?_, ?_⟩
  · intro j hj
    simp only [crpInit] at hj
    interval_cases j
    simp [crpInit]; norm_num
  · simp [crpInit]; norm_num
  · simp [crpInit]; norm_num
  · simp [crpInit]

-- @site Crp::draw
theorem crpStep_invR (alpha : R) (s s' : CrpSt R) (u : R) (hs : CrpInvR alpha s)
    (h : crpStep alpha s u = some s') : CrpInvR alpha s' := by
  obtain ⟨h1, h2, h3, h4, h5⟩ := hs
  unfold crpStep at h
  simp only at h
  split at h
  · cases h
  · rename_i zi hz
    have hb := crpPflipGo_bound _ _ _ _ _ hz
    simp only [List.length_append, List.length_singleton, h1, Nat.zero_add] at hb
    split at h
    · rename_i hk
      have hk : zi = s.k := by simpa using hk
      injection h with h; subst h
      have hset : (s.weights ++ [alpha]).set zi (1.0 : R) = s.weights ++ [(1.0 : R)] := by
        rw [hk, ← h1]; simp
      simp only [hset]
      refine ⟨by simp [h1], ?_, ?_, ?_, ?_⟩
      · intro j hj
        simp only [List.count_append, List.getD_eq_getElem?_getD]
        by_cases hjk : j < s.weights.length
        · rw [List.getElem?_append_left hjk]
          have := h2 j (by omega)
          simp only [List.getD_eq_getElem?_getD] at this
          rw [this, List.count_singleton]
          have : ¬ zi = j := by omega
          simp [this]
        · have : j = s.weights.length := by simp only at hj; omega
          subst this
          rw [List.getElem?_append_right (le_refl _)]
          have hz0 : s.z.count s.weights.length = 0 := by
            rw [List.count_eq_zero]
            intro hm
            have := h5 _ hm
            omega
          simp only [Nat.sub_self, List.getElem?_cons_zero, Option.getD_some, one_val, hz0, hk, h1,
            List.count_singleton, beq_self_eq_true, if_true]
          rw [← h1, hz0]; norm_num
      · simp only [List.map_append, List.sum_append, List.map_cons, List.map_nil, List.sum_cons, List.sum_nil,
          List.length_append, List.length_singleton, h3, one_val]; push_cast; ring
      · simp only [R.add_val, h4, one_val, List.length_append, List.length_singleton]; push_cast; ring
      · intro i hi
        simp only [List.mem_append, List.mem_singleton] at hi
        show i < s.k + 1
        rcases hi with hi | hi
        · have := h5 i hi; omega
        · omega
    · rename_i hk
      have hk : zi ≠ s.k := by simpa using hk
      have hlt : zi < s.k := by omega
      injection h with h; subst h
      have htake : (s.weights ++ [alpha]).take s.k = s.weights := by
        rw [← h1]; simp
      simp only [htake]
      refine ⟨by simp [h1], ?_, ?_, ?_, ?_⟩
      · intro j hj
        simp only at hj
        simp only []
        rw [getD_setR, List.count_append, List.count_singleton]
        by_cases hzj : zi = j
        · subst hzj
          have := h2 zi hlt
          simp only [true_and, h1, hlt, if_true, R.add_val, this, one_val, beq_self_eq_true]
          push_cast; ring
        · have := h2 j hj
          simp only [hzj, false_and, if_false, this, beq_iff_eq]
          simp
      · rw [List.map_set, List.sum_set']
        simp only [List.length_map, h1, hlt, dif_pos, List.getElem_map, h3, R.add_val, one_val,
          List.length_append, List.length_singleton]
        have hlt' : zi < s.weights.length := by omega
        simp only [List.getD_eq_getElem?_getD, List.getElem?_eq_getElem hlt', Option.getD_some]
        push_cast; ring
      · simp only [R.add_val, h4, one_val, List.length_append, List.length_singleton]; push_cast; ring
      · intro i hi
        simp only [List.mem_append, List.mem_singleton] at hi
        show i < s.k
        rcases hi with hi | hi
        · exact h5 i hi
        · omega

-- @site Crp::draw
theorem crpLoop_invR (alpha : R) (us : List R) (s s' : CrpSt R) (hs : CrpInvR alpha s)
    (h : crpLoop alpha s us = some s') : CrpInvR alpha s' := by
  induction us generalizing s with
  | nil => simp only [crpLoop] at h; injection h with h; subst h; exact hs
  | cons u us ih =>
    simp only [crpLoop] at h
    split at h
    · cases h
    · rename_i s1 h1
      exact ih s1 (crpStep_invR alpha s s1 u hs h1) h

-- @site Crp::draw
/-- over the exact reals `crpPflip` cannot reach its `panic!` exit when `0 ≤ u < 1` and `α > 0` -/
theorem crpStep_some (alpha : R) (s : CrpSt R) (u : R) (ha : 0 < alpha.val) (hu0 : 0 ≤ u.val)
    (hu1 : u.val < 1) (hs : CrpInvR alpha s) : ∃ s', crpStep alpha s u = some s' := by
  obtain ⟨h1, h2, h3, h4, h5⟩ := hs
  have hsum : 0 < s.sum.val := by rw [h4]; positivity
  obtain ⟨zi, hz⟩ : ∃ zi, crpPflip (s.weights ++ [alpha]) s.sum u = some zi := by
    unfold crpPflip
    apply crpPflipGo_some
    · simp only [zero_val, R.mul_val]; positivity
    · simp only [zero_val, R.mul_val, List.map_append, List.sum_append, List.map_cons, List.map_nil,
        List.sum_cons, List.sum_nil, h3, zero_add, add_zero, ← h4]
      nlinarith
  unfold crpStep
  simp only [hz]
  split
  · exact ⟨_, rfl⟩
  · exact ⟨_, rfl⟩

-- @site Crp::draw
theorem crpLoop_some (alpha : R) (us : List R) (s : CrpSt R) (ha : 0 < alpha.val)
    (hu : ∀ u ∈ us, 0 ≤ u.val ∧ u.val < 1) (hs : CrpInvR alpha s) : ∃ s', crpLoop alpha s us = some s' := by
  induction us generalizing s with
  | nil => exact ⟨s, rfl⟩
  | cons u us ih =>
    obtain ⟨s1, h1⟩ := crpStep_some alpha s u ha (hu u (List.mem_cons_self ..)).1 (hu u (List.mem_cons_self ..)).2 hs
    simp only [crpLoop, h1]
    exact ih s1 (fun v hv => hu v (List.mem_cons_of_mem _ hv)) (crpStep_invR alpha s s1 u hs h1)

-- @site Partition::from_z
/-- a restricted-growth string with its vector of label counts is a well-formed partition -/
theorem wf_of_canonical (z counts : List Nat) (hc : Canonical z) (hl : counts.length = numBlocks z)
    (hcnt : ∀ j, j < numBlocks z → counts.getD j 0 = z.count j) : WF ⟨z, counts⟩ := by
  refine ⟨rfl, ?_, ?_, ?_⟩
  · intro j hj; simp only [P.k, hl] at hj; exact hcnt j hj
  · intro j hj
    simp only [P.k, hl] at hj
    rw [hcnt j hj]
    exact List.count_pos_iff.mpr (canonical_labels_present z hc j hj)
  · intro i hi
    simp only [P.k, hl]
    have := (foldl_nb z 0).2.1 i hi
    simp only [numBlocks]; omega

-- @site Crp::draw
/-- `crpDraw_weights`: at every iteration `crpPflip` is called with the weight vector `counts ++ [α]` and with
    `sum` equal to its exact total `(items seated) + α`: the seating probabilities are the CRP predictive
    `n_j / (i + α)`, `α / (i + α)`.  (`s` = loop state after any prefix `us` of the variates.) -/
theorem crpDraw_weights (alpha : R) (us : List R) (s : CrpSt R)
    (h : crpLoop alpha (crpInit alpha) us = some s) :
    (s.weights ++ [alpha]).map R.val = ((List.range s.k).map (fun j => (s.z.count j : ℝ))) ++ [alpha.val] ∧
    s.sum.val = ((List.range s.k).map (fun j => (s.z.count j : ℝ))).sum + alpha.val ∧
    s.z.length = us.length + 1 := by
  obtain ⟨h1, h2, h3, h4, h5⟩ := crpLoop_invR alpha us _ s (crpInit_invR alpha) h
  have hw : s.weights.map R.val = (List.range s.k).map (fun j => (s.z.count j : ℝ)) := by
    apply List.ext_getElem
    · simp [h1]
    · intro i hi1 hi2
      simp only [List.length_map] at hi1
      have := h2 i (by omega)
      simp only [List.getD_eq_getElem?_getD, List.getElem?_eq_getElem hi1, Option.getD_some] at this
      simp [this]
  refine ⟨by simp [hw], ?_, ?_⟩
  · rw [← hw, h3, h4]
  · have := (crpLoop_inv alpha us _ s (crpInit_inv alpha) h).2
    simp only [crpInit, List.length_cons, List.length_nil] at this
    omega

-- @site Crp::draw
/-- over the exact reals, for valid `α` and variates in `[0,1)`, `Crp::draw` returns (no panic) a well-formed
    partition in order of first appearance with `n` items (`n ≥ 1` as `Crp::new` enforces): the count
    reconstruction `(w + 0.5) as usize` is exact -/
theorem crpDraw_wf (alpha : R) (n : Nat) (us : List R) (ha : 0 < alpha.val) (hn : 0 < n)
    (hu : ∀ u ∈ us, 0 ≤ u.val ∧ u.val < 1) (hlen : n - 1 ≤ us.length) :
    ∃ p, crpDraw alpha n us = some p ∧ WF p ∧ Canonical p.z ∧ p.len = n := by
  obtain ⟨s, hs⟩ := crpLoop_some alpha (us.take (n - 1)) (crpInit alpha) ha
    (fun u hu' => hu u (List.mem_of_mem_take hu')) (crpInit_invR alpha)
  have hd : crpDraw alpha n us = some (crpFinish s) := by simp [crpDraw, hs]
  obtain ⟨hcan, hnb, hl⟩ := crpDraw_canonical alpha n us _ hd
  obtain ⟨h1, h2, h3, h4, h5⟩ := crpLoop_invR alpha _ _ s (crpInit_invR alpha) hs
  refine ⟨_, hd, ?_, hcan, ?_⟩
  · have hk : numBlocks s.z = s.k := by
      have := hnb; simp only [crpFinish, P.k, List.length_map, h1] at this; exact this
    apply wf_of_canonical _ _ hcan
    · simp only [crpFinish, List.length_map, h1, hk]
    · intro j hj
      have hj' : j < s.weights.length := by simp only [crpFinish] at hj; omega
      have := h2 j (by omega)
      simp only [List.getD_eq_getElem?_getD, List.getElem?_eq_getElem hj', Option.getD_some] at this
      simp only [crpFinish, List.getD_eq_getElem?_getD, List.getElem?_map, List.getElem?_eq_getElem hj',
        Option.map_some, Option.getD_some]
      show ⌊(s.weights[j] + (0.5 : R)).val⌋₊ = _
      rw [R.add_val, this, half_val]
      rw [Nat.floor_eq_iff (by positivity)]
      constructor <;> push_cast <;> linarith
  · have := hl hlen
    simp only [Nat.max_def] at this; split at this <;> omega

-- @site Partition::remove
/-- removing the LAST item (what a sweep that re-seats the newest item does) keeps the order of first appearance -/
theorem remove_last_canonical (p q : P) (hp : WF p) (hc : Canonical p.z) (hn : 0 < p.len)
    (h : p.remove (p.len - 1) = .ok q) : Canonical q.z := by
  obtain ⟨pz, pc⟩ := p
  simp only [P.len] at hn h
  obtain ⟨z', x, rfl⟩ : ∃ z' x, pz = z' ++ [x] := by
    have hne : pz ≠ [] := by intro e; simp [e] at hn
    exact ⟨pz.dropLast, pz.getLast hne, (List.dropLast_append_getLast hne).symm⟩
  obtain ⟨hc1, hx⟩ := (canonical_snoc z' x).mp hc
  obtain ⟨_, h2, h3, h4⟩ := hp
  have hlen : (z' ++ [x]).length - 1 = z'.length := by simp
  have hget : (z' ++ [x]).getD z'.length 0 = x := by simp [List.getD_eq_getElem?_getD]
  have herase : (z' ++ [x]).eraseIdx z'.length = z' := by
    rw [List.eraseIdx_append_of_length_le (le_refl _)]; simp
  have hxk : x < pc.length := h4 x (by simp)
  rw [hlen] at h
  unfold P.remove at h
  simp only [hget, herase, List.length_append, List.length_singleton] at h
  have h1 : ¬ (z'.length ≥ z'.length + 1) := by omega
  have h1' : ¬ (x ≥ pc.length) := by omega
  simp only [h1, h1', if_false] at h
  split at h
  · rename_i hone
    have hone : pc.getD x 0 = 1 := by simpa using hone
    injection h with h
    subst h
    have hcx : (z' ++ [x]).count x = 1 := by rw [← h2 x hxk]; exact hone
    have hnot : x ∉ z' := by
      rw [List.count_append, List.count_singleton_self] at hcx
      exact List.count_eq_zero.mp (by omega)
    have hxe : x = numBlocks z' := by
      apply le_antisymm hx
      by_contra hlt
      exact hnot (canonical_labels_present z' hc1 x (by omega))
    have hid : z'.map (shift x) = z' := by
      conv_rhs => rw [← List.map_id z']
      apply List.map_congr_left
      intro y hy
      have := (foldl_nb z' 0).2.1 y hy
      have hy' : y < x := by rw [hxe]; simp only [numBlocks]; omega
      simp only [shift, id]
      split <;> omega
    simp only [hid]
    exact hc1
  · split at h
    · cases h
    · injection h with h
      subst h
      exact hc1

example : P.remove ⟨[0, 1, 0, 2], [2, 1, 1]⟩ 3 = .ok ⟨[0, 1, 0], [2, 1]⟩ := rfl

/-! ### 4. the EPPF sums to one over all set partitions; block-size dependence -/

-- @site Partition::append
theorem append_eq_seat (p : P) (j : Nat) (hj : j ≤ p.k) : p.append j = .ok (seat p j) := by
  unfold P.append seat
  simp only [gt_iff_lt, Nat.not_lt.mpr hj, if_false]

-- @site Partition::append
theorem children_gW (a : ℝ) (p : P) (hp : WF p) :
    ((children p).map (fun q => gW a q.counts)).sum = gW a p.counts * ((p.counts.sum : ℝ) + a) := by
  obtain ⟨_, h2, h3, h4⟩ := hp
  have hc : ∀ x ∈ p.counts, 1 ≤ x := by
    intro x hx
    obtain ⟨i, hi, rfl⟩ := List.getElem_of_mem hx
    have := h3 i hi
    have : 0 < p.counts[i] := by
      simpa [List.getD_eq_getElem?_getD, List.getElem?_eq_getElem hi] using this
    omega
  simp only [children, List.map_map, P.k, List.range_succ, List.map_append, List.sum_append, List.map_cons,
    List.map_nil, List.sum_cons, List.sum_nil, add_zero]
  have hA : (List.range p.counts.length).map ((fun q => gW a q.counts) ∘ seat p)
      = (List.range p.counts.length).map (fun j => a ^ p.counts.length *
          ((p.counts.set j (p.counts.getD j 0 + 1)).map (fun c => ((c - 1).factorial : ℝ))).prod) := by
    apply List.map_congr_left
    intro j hj
    have hj' : j < p.counts.length := by simpa using hj
    have hne : (j == p.counts.length) = false := by simp; omega
    simp [Function.comp, seat, gW, P.k, hne]
  have hB : gW a (seat p p.counts.length).counts = a * gW a p.counts := by
    simp [seat, gW, P.k, pow_succ]; ring
  rw [hA, hB, List.sum_map_mul_left, sum_set_prod _ hc]
  simp only [gW]; ring

-- @site Partition::from_z
theorem counts_eq_of_wf (p : P) (hp : WF p) : p.counts = (List.range p.k).map (fun j => p.z.count j) := by
  obtain ⟨_, h2, h3, h4⟩ := hp
  apply List.ext_getElem
  · simp [P.k]
  · intro i h1 _
    have := h2 i h1
    simp only [List.getD_eq_getElem?_getD, List.getElem?_eq_getElem h1, Option.getD_some] at this
    simp [this]

-- @site Partition::from_z
/-- "counts matching assignments, n items": the block sizes of a well-formed partition sum to `len` -/
theorem wf_sum_counts (p : P) (hp : WF p) : p.counts.sum = p.len := by
  rw [counts_eq_of_wf p hp]
  exact sum_count_range p.z p.k hp.2.2.2

-- @site Partition::from_z
/-- a well-formed partition is determined by its assignment vector -/
theorem wf_ext (p q : P) (hp : WF p) (hq : WF q) (hz : p.z = q.z) : p = q := by
  have hk : p.k = q.k := by rw [← numBlocks_of_wf p hp, ← numBlocks_of_wf q hq, hz]
  have h1 := counts_eq_of_wf p hp
  have h2 := counts_eq_of_wf q hq
  rw [hk, hz] at h1
  obtain ⟨pz, pc⟩ := p
  obtain ⟨qz, qc⟩ := q
  simp only at hz h1 h2
  subst hz
  rw [← h2] at h1
  rw [h1]

-- @site Partition::append
theorem seat_wf (p : P) (j : Nat) (hp : WF p) (hj : j ≤ p.k) : WF (seat p j) :=
  append_wf p _ j hp (append_eq_seat p j hj)

-- @site Partition::append
theorem seat_canonical (p : P) (j : Nat) (hp : WF p) (hc : Canonical p.z) (hj : j ≤ p.k) :
    Canonical (seat p j).z :=
  append_canonical p _ j hp hc (append_eq_seat p j hj)

-- @site Partition::from_z
theorem wf_new : WF P.new := by
  refine ⟨rfl, ?_, ?_, ?_⟩ <;> simp [P.new, P.k]

-- @site Partition::append
theorem mem_allParts (n : Nat) (p : P) (h : p ∈ allParts n) : WF p ∧ Canonical p.z ∧ p.len = n := by
  induction n generalizing p with
  | zero =>
    simp only [allParts, List.mem_singleton] at h
    subst h
    exact ⟨wf_new, canonical_nil, rfl⟩
  | succ n ih =>
    simp only [allParts, List.mem_flatMap, children, List.mem_map, List.mem_range] at h
    obtain ⟨q, hq, j, hj, rfl⟩ := h
    obtain ⟨h1, h2, h3⟩ := ih q hq
    refine ⟨seat_wf q j h1 (by omega), seat_canonical q j h1 h2 (by omega), ?_⟩
    simp only [seat, P.len, List.length_append, List.length_singleton] at h3 ⊢
    omega

-- @site Partition::append
/-- completeness: EVERY well-formed partition of `n` items whose labels are in order of first appearance is
    enumerated -/
theorem allParts_complete (n : Nat) (p : P) (hp : WF p) (hc : Canonical p.z) (hl : p.len = n) :
    p ∈ allParts n := by
  induction n generalizing p with
  | zero =>
    simp only [allParts, List.mem_singleton]
    apply wf_ext p P.new hp wf_new
    simp only [P.len] at hl
    simpa [P.new] using List.eq_nil_of_length_eq_zero hl
  | succ n ih =>
    obtain ⟨pz, pc⟩ := p
    simp only [P.len] at hl
    obtain ⟨z', x, rfl⟩ : ∃ z' x, pz = z' ++ [x] := by
      have hne : pz ≠ [] := by intro e; simp [e] at hl
      exact ⟨pz.dropLast, pz.getLast hne, (List.dropLast_append_getLast hne).symm⟩
    obtain ⟨hc1, hx⟩ := (canonical_snoc z' x).mp hc
    let q : P := ⟨z', (List.range (numBlocks z')).map (fun j => z'.count j)⟩
    have hq : WF q := wf_of_canonical _ _ hc1 (by simp) (by
      intro j hj; simp [List.getD_eq_getElem?_getD, hj])
    have hqk : q.k = numBlocks z' := by simp [q, P.k]
    have hqm : q ∈ allParts n := ih q hq hc1 (by simp [q, P.len] at hl ⊢; omega)
    simp only [allParts, List.mem_flatMap, children, List.mem_map, List.mem_range]
    refine ⟨q, hqm, x, by omega, ?_⟩
    exact wf_ext _ _ (seat_wf q x hq (by omega)) hp rfl

-- @site Partition::append
theorem children_nodup (p : P) : (children p).Nodup := by
  unfold children
  apply List.Nodup.map_on
  · intro a _ b _ hab
    have : (seat p a).z = (seat p b).z := by rw [hab]
    simpa [seat] using this
  · exact List.nodup_range

-- @site Partition::append
/-- no partition is enumerated twice -/
theorem allParts_nodup (n : Nat) : (allParts n).Nodup := by
  induction n with
  | zero => simp [allParts]
  | succ n ih =>
    simp only [allParts]
    rw [List.nodup_flatMap]
    refine ⟨fun p _ => children_nodup p, ?_⟩
    apply List.Pairwise.imp_of_mem _ ih
    intro a b ha hb hab
    simp only [Function.onFun, List.disjoint_left]
    intro c hca hcb
    apply hab
    simp only [children, List.mem_map, List.mem_range] at hca hcb
    obtain ⟨i, _, rfl⟩ := hca
    obtain ⟨j, _, hj⟩ := hcb
    have hz : (seat b j).z = (seat a i).z := by rw [hj]
    have hz' : a.z = b.z := by
      simp only [seat] at hz
      have := List.append_inj_left' hz rfl
      exact this.symm
    exact wf_ext a b (mem_allParts n a ha).1 (mem_allParts n b hb).1 hz'

example : (allParts 4).length = 15 := by decide

-- @site Partition::append
/-- total unnormalised mass of the partitions of `[n]` is the rising factorial `α (α+1) … (α+n−1)`, here
    in the form `· Γ(α) / Γ(α+n) = 1` -/
theorem sum_gW (a : ℝ) (ha : 0 < a) (n : Nat) :
    ((allParts n).map (fun p => gW a p.counts)).sum * Real.Gamma a / Real.Gamma (a + n) = 1 := by
  induction n with
  | zero =>
    have : Real.Gamma a ≠ 0 := (Real.Gamma_pos_of_pos ha).ne'
    simp [allParts, gW, P.new, this]
  | succ n ih =>
    have hstep : ((allParts (n + 1)).map (fun p => gW a p.counts)).sum
        = ((allParts n).map (fun p => gW a p.counts)).sum * ((n : ℝ) + a) := by
      simp only [allParts]
      rw [sum_map_flatMap, ← List.sum_map_mul_right]
      congr 1
      apply List.map_congr_left
      intro p hp
      obtain ⟨h1, _, h3⟩ := mem_allParts n p hp
      rw [children_gW a p h1, wf_sum_counts p h1, h3]
    have hG : Real.Gamma (a + (n + 1 : ℕ)) = (a + n) * Real.Gamma (a + n) := by
      have : a + ((n + 1 : ℕ) : ℝ) = (a + n) + 1 := by push_cast; ring
      rw [this, Real.Gamma_add_one (by positivity)]
    have hG0 : Real.Gamma (a + n) ≠ 0 := (Real.Gamma_pos_of_pos (by positivity)).ne'
    have han : a + (n : ℝ) ≠ 0 := by positivity
    rw [hstep, hG]
    rw [← ih]
    field_simp
    ring

-- @site Crp.ln_f_Partition
/-- the exponential of the generated `Crp::ln_f` is the EPPF `α^K Π(n_j − 1)! Γ(α)/Γ(α+n)` -/
theorem Crp_f_eq_eppf (alpha : R) (n : Nat) (p : P) (ha : 0 < alpha.val) (hn : 0 < n) (hp : WF p)
    (hl : p.len = n) :
    Real.exp (Gen.Crp.ln_f_Partition (⟨alpha, n⟩ : Gen.Crp R) (toGen p)).val
      = gW alpha.val p.counts * Real.Gamma alpha.val / Real.Gamma (alpha.val + n) := by
  have hc : ∀ c ∈ p.counts, 1 ≤ c := by
    intro x hx
    obtain ⟨i, hi, rfl⟩ := List.getElem_of_mem hx
    have := hp.2.2.1 i hi
    have : 0 < p.counts[i] := by
      simpa [List.getD_eq_getElem?_getD, List.getElem?_eq_getElem hi] using this
    omega
  rw [C01.Crp_ln_f (⟨alpha, n⟩ : Gen.Crp R) (toGen p) hn ha hl hc (by
    show p.counts.sum = n
    rw [wf_sum_counts p hp, hl])]
  rw [C01.Crp_spec_is_textbook (⟨alpha, n⟩ : Gen.Crp R) (toGen p) ha]
  have hprod : (0:ℝ) < (p.counts.map (fun c => ((c - 1).factorial : ℝ))).prod := by
    apply List.prod_pos
    intro a ha'
    obtain ⟨c, _, rfl⟩ := List.mem_map.mp ha'
    exact_mod_cast Nat.factorial_pos _
  have hg1 : 0 < Real.Gamma alpha.val := Real.Gamma_pos_of_pos ha
  have hg2 : 0 < Real.Gamma (alpha.val + n) := Real.Gamma_pos_of_pos (by positivity)
  rw [Real.exp_log (by simp only [toGen]; positivity)]
  simp only [gW, toGen]

-- @site Crp.ln_f_Partition
/-- **CRP normalisation**: for ALL `n ≥ 1` and `α > 0` the probabilities `exp (Crp::ln_f π)` of the generated
    model, summed over all set partitions `π` of `n` items (`allParts n`: complete and duplicate-free by
    `allParts_complete`, `allParts_nodup`), are exactly one -/
theorem crp_normalised (alpha : R) (n : Nat) (ha : 0 < alpha.val) (hn : 0 < n) :
    ((allParts n).map (fun p =>
      Real.exp (Gen.Crp.ln_f_Partition (⟨alpha, n⟩ : Gen.Crp R) (toGen p)).val)).sum = 1 := by
  rw [← sum_gW alpha.val ha n, div_eq_mul_inv, mul_assoc, ← List.sum_map_mul_right]
  congr 1
  apply List.map_congr_left
  intro p hp
  obtain ⟨h1, _, h3⟩ := mem_allParts n p hp
  rw [Crp_f_eq_eppf alpha n p ha hn h1 h3]
  ring

-- @site Crp.ln_f_Partition
/-- **block-size dependence**: `Crp::ln_f` depends on the partition only through the multiset of block sizes
    (and the number of items, which for a well-formed partition is their sum) -/
theorem Crp_ln_f_perm (d : Gen.Crp R) (x y : Gen.Partition R) (hperm : x.counts.Perm y.counts)
    (hlen : x.z.length = y.z.length) :
    (Gen.Crp.ln_f_Partition d x).val = (Gen.Crp.ln_f_Partition d y).val := by
  have h1 := fun (l : List Nat) => C01CLemmas.foldl_add_val
    (fun (acc : R) (ct : Nat) => acc + RealLike.lgamma (RealLike.ofNatR ct))
    (fun ct => Real.log (Real.Gamma (ct : ℝ))) (by intro acc b; simp) (0.0 : R) l
  simp only [Gen.Crp.ln_f_Partition, Gen.Partition.get_counts, Gen.Partition.k, Gen.Partition.len, mulAdd,
    R.add_val, R.sub_val, R.mul_val, R.ln_val, R.lgamma_val, R.ofNatR_val]
  rw [h1, h1, (hperm.map _).sum_eq, hperm.length_eq, hlen]

-- @site Crp.ln_f_Partition
theorem Crp_ln_f_blocksizes (d : Gen.Crp R) (p q : P) (hp : WF p) (hq : WF q)
    (hperm : p.counts.Perm q.counts) :
    (Gen.Crp.ln_f_Partition d (toGen p)).val = (Gen.Crp.ln_f_Partition d (toGen q)).val := by
  apply Crp_ln_f_perm d _ _ hperm
  show p.z.length = q.z.length
  have h1 := wf_sum_counts p hp
  have h2 := wf_sum_counts q hq
  simp only [P.len] at h1 h2
  rw [← h1, ← h2, hperm.sum_eq]

/-! ### 5. tie to the generated model -/

-- @site Partition.append
/-- the hand model's `append` IS the generated `Partition::append` (any carrier) -/
theorem append_eq_gen {α : Type} [RealLike α] (p : P) (zi : Nat) :
    ofGenE (Gen.Partition.append (⟨p.z, p.counts⟩ : Gen.Partition α) zi) = p.append zi := by
  unfold Gen.Partition.append P.append
  simp only [Gen.Partition.k, P.k]
  by_cases h1 : zi > p.counts.length
  · simp [h1, ofGenE]
  · by_cases h2 : zi = p.counts.length
    · simp [h1, h2, ofGenE, ofGen]
    · simp [h1, h2, ofGenE, ofGen]

-- @site Partition.k
theorem k_eq_gen {α : Type} [RealLike α] (p : P) :
    Gen.Partition.k (⟨p.z, p.counts⟩ : Gen.Partition α) = p.k := rfl

-- @site Partition.len
theorem len_eq_gen {α : Type} [RealLike α] (p : P) :
    Gen.Partition.len (⟨p.z, p.counts⟩ : Gen.Partition α) = p.len := rfl

-- @site Partition.weights
theorem weights_eq_gen {α : Type} [RealLike α] (p : P) :
    Gen.Partition.weights (⟨p.z, p.counts⟩ : Gen.Partition α) = p.weights := rfl

-- @site Partition.new
theorem new_eq_gen {α : Type} [RealLike α] : ofGen (Gen.Partition.new : Gen.Partition α) = P.new := rfl

-- @site Partition.weights
/-- the weights of a well-formed non-empty partition sum to one -/
theorem weights_sum_one (p : P) (hp : WF p) (hn : 0 < p.len) :
    ((p.weights (α := R)).map R.val).sum = 1 := by
  have hs := wf_sum_counts p hp
  have hne : (p.len : ℝ) ≠ 0 := by exact_mod_cast hn.ne'
  simp only [P.weights, List.map_map, Function.comp_def, R.div_val, R.ofNatR_val]
  simp only [div_eq_mul_inv]
  rw [List.sum_map_mul_right, ← hs, Nat.cast_list_sum]
  rw [← hs, Nat.cast_list_sum] at hne
  exact mul_inv_cancel₀ hne

example : WF ⟨[0, 1, 0, 2], [2, 1, 1]⟩ ∧ 0 < (⟨[0, 1, 0, 2], [2, 1, 1]⟩ : P).len :=
  ⟨(fromZ_wf [0, 1, 0, 2] _ rfl).1, by decide⟩

-- @site Partition::remove
/-- what `remove` DOES preserve besides `WF`: the remaining items keep their blocks, relabelled by a map that
    preserves the relative order of the labels (not their order of first appearance) -/
theorem remove_relabel (p q : P) (ix : Nat) (hp : WF p) (h : p.remove ix = .ok q) :
    ∃ f : Nat → Nat, q.z = (p.z.eraseIdx ix).map f ∧
      ∀ a ∈ p.z.eraseIdx ix, ∀ b ∈ p.z.eraseIdx ix, (a < b ↔ f a < f b) := by
  obtain ⟨_, h2, h3, h4⟩ := hp
  unfold P.remove at h
  split at h
  · cases h
  · rename_i hix
    have hix : ix < p.z.length := by omega
    simp only at h
    split at h
    · cases h
    · generalize hzi : p.z.getD ix 0 = zi at *
      have hce := count_eraseIdx p.z ix zi hix
      split at h
      · rename_i hone
        have hone : p.counts.getD zi 0 = 1 := by simpa using hone
        injection h with h
        subst h
        rename_i hzk
        have hzk : zi < p.k := by simp only [P.k]; omega
        have hnot : zi ∉ p.z.eraseIdx ix := by
          rw [hzi] at hce
          simp only [if_true] at hce
          rw [← h2 zi hzk, hone] at hce
          have : (p.z.eraseIdx ix).count zi = 0 := by omega
          exact List.count_eq_zero.mp this
        refine ⟨shift zi, rfl, ?_⟩
        intro a ha b hb
        have ha' : a ≠ zi := fun e => hnot (e ▸ ha)
        have hb' : b ≠ zi := fun e => hnot (e ▸ hb)
        simp only [shift]
        split <;> split <;> omega
      · split at h
        · cases h
        · injection h with h
          subst h
          exact ⟨id, by simp, by intro a _ b _; rfl⟩

end C19

#print axioms C19.fromZ_wf
#print axioms C19.append_wf
#print axioms C19.remove_wf
#print axioms C19.remove_ok_of_wf
#print axioms C19.step_wf
#print axioms C19.history_wf
#print axioms C19.numBlocks_of_wf
#print axioms C19.append_canonical
#print axioms C19.remove_canonical_counterexample
#print axioms C19.crpInit_inv
#print axioms C19.crpStep_inv
#print axioms C19.crpLoop_inv
#print axioms C19.crpDraw_canonical
#print axioms C19.crpInit_invR
#print axioms C19.crpStep_invR
#print axioms C19.crpLoop_invR
#print axioms C19.crpStep_some
#print axioms C19.crpLoop_some
#print axioms C19.wf_of_canonical
#print axioms C19.crpDraw_weights
#print axioms C19.crpDraw_wf
#print axioms C19.append_eq_seat
#print axioms C19.children_gW
#print axioms C19.counts_eq_of_wf
#print axioms C19.wf_sum_counts
#print axioms C19.wf_ext
#print axioms C19.seat_wf
#print axioms C19.seat_canonical
#print axioms C19.wf_new
#print axioms C19.mem_allParts
#print axioms C19.allParts_complete
#print axioms C19.children_nodup
#print axioms C19.allParts_nodup
#print axioms C19.sum_gW
#print axioms C19.Crp_f_eq_eppf
#print axioms C19.crp_normalised
#print axioms C19.Crp_ln_f_perm
#print axioms C19.Crp_ln_f_blocksizes
#print axioms C19.append_eq_gen
#print axioms C19.k_eq_gen
#print axioms C19.len_eq_gen
#print axioms C19.weights_eq_gen
#print axioms C19.new_eq_gen
#print axioms C19.weights_sum_one
#print axioms C19.remove_relabel
#print axioms C19.remove_last_canonical
