import RvModel.RealInst
import RvModel.Hand.Kernel
import RvModel.Lemmas.C16
import Mathlib.Analysis.SpecialFunctions.Pow.Real
import Mathlib.Analysis.SpecialFunctions.Trigonometric.Basic
import Mathlib.Analysis.Complex.Exponential
/-!
  C16 (part A) — covariance kernels: structure.  Model: `Hand/Kernel.lean` (hand transcription of
  `/repo/src/process/gaussian/kernel/*.rs`, tied to the code by the correspondence run of `kernel.*` ops).
  Carrier `R` (exact reals).  Every theorem about trees is proved by STRUCTURAL INDUCTION over `K R`
  (leaves, then `add` / `mul`), for point sets of any size and dimension.

  Where a leaf of the real code violates a property, the leaf lemma is a `…_counterexample` with a concrete witness and
  the inductive theorem is stated over the sub-family `GoodLeaves p k` (every leaf of `k` satisfies the Boolean leaf
  predicate `p`, `Lemmas/C16.lean`), so that the induction still carries the combinators.

  * symmetry of `covariance`                               — all trees
  * `diag` value = diagonal of `covariance(x, x)`           — trees without `WhiteKernel`            (+ counterexample)
  * `diag` has one element per row                          — trees without ESS / RQ                 (+ counterexamples,
                                                               and the panic of a composition)
  * covariance returned with the gradient = `covariance`    — trees without SEard / White / Matérn   (+ counterexamples)
  * shapes, `n_parameters`, `parameters` of compositions    — all trees
  * `reparameterize ∘ parameters = id`                      — all trees with positive parameters
  * too many parameters ⇒ `ExtraneousParameters(len − n)`   — trees whose last leaf is not ESS / RQ    (+ counterexamples)
  * too few parameters ⇒ `MissingParameters(n − len)`       — leaves; compositions PANIC (`split_at`) (counterexample);
                                                               `consume_parameters` reports it for every tree
-/
open Real Hand.Kernel

namespace C16

/-! ### symmetry -/

-- @site MaternKernel::covariance
theorem maternCov_comm (nu l : R) (x y : List R) : maternCov nu l x y = maternCov nu l y x := by
  simp only [maternCov, e2norm_comm x y l]

-- @site Kernel::covariance
/-- `covariance(x1, x2)[i][j] = covariance(x2, x1)[j][i]`, every tree -/
theorem cov_symm (k : K R) (x y : List R) : (cov k x y).val = (cov k y x).val := by
  induction k with
  | const c => rfl
  | rbf l => simp only [cov, e2norm_comm x y l]
  | seard ls => simp only [cov, seardSum_comm x y ls]
  | ess l p => simp only [cov, eucDist_comm x y]
  | rq s a => simp only [cov, e2norm_comm x y]
  | matern nu l => simp only [cov, maternCov_comm nu l x y]
  | white s => rfl
  | add a b iha ihb => simp only [cov, R.add_val, iha, ihb]
  | mul a b iha ihb => simp only [cov, R.mul_val, iha, ihb]

example : (cov (.add (.rbf (r 2)) (.mul (.const (r 3)) (.ess (r 1) (r 2)))) [r 1, r 2] [r 0, r 5]).val
    = (cov (.add (.rbf (r 2)) (.mul (.const (r 3)) (.ess (r 1) (r 2)))) [r 0, r 5] [r 1, r 2]).val :=
  cov_symm _ _ _

/-! ### `diag` -/

-- @site Kernel::diag
/-- leaf lemma + induction: the value reported by `diag` is the diagonal of `covariance(x, x)`, for every tree
    without a `WhiteKernel` leaf -/
theorem diag_eq (k : K R) (hk : GoodLeaves diagValueLeaf k) (x : List R) :
    (diagEntry k x).val = (cov k x x).val := by
  induction k with
  | const c => rfl
  | rbf l => simp only [diagEntry, cov, R.exp_val, R.mul_val, R.neg_val, e2norm_self, lit1, mul_zero, Real.exp_zero]
  | seard ls =>
    simp only [diagEntry, cov, R.exp_val, R.mul_val, R.neg_val, seardSum_self, lit0, lit1, mul_zero, Real.exp_zero]
  | ess l p =>
    simp only [diagEntry, cov, R.exp_val, R.mul_val, R.div_val, R.neg_val, R.powi_val, R.sin_val, R.pi_val,
      eucDist_self, lit1, lit2, mul_zero, zero_div, Real.sin_zero]
    norm_num
  | rq s a =>
    simp only [diagEntry, cov, R.powf_val, R.add_val, R.neg_val, e2norm_self, lit1, add_zero, Real.one_rpow]
  | matern nu l =>
    have h : RealLike.lt (RealLike.sqrt (e2norm x x l)) (RealLike.epsilon : R) = true := by
      rw [R.lt_iff, R.sqrt_val, e2norm_self, Real.sqrt_zero]; exact eps_pos
    simp only [diagEntry, cov, maternCov, h, if_true]
  | white s => simp [GoodLeaves, diagValueLeaf] at hk
  | add a b iha ihb =>
    simp only [GoodLeaves] at hk
    simp only [diagEntry, cov, R.add_val, iha hk.1, ihb hk.2]
  | mul a b iha ihb =>
    simp only [GoodLeaves] at hk
    simp only [diagEntry, cov, R.mul_val, iha hk.1, ihb hk.2]

example : (diagEntry (.mul (.const (r 3)) (.add (.rbf (r 2)) (.rq (r 1) (r 2)))) [r 1, r 4]).val
    = (cov (.mul (.const (r 3)) (.add (.rbf (r 2)) (.rq (r 1) (r 2)))) [r 1, r 4] [r 1, r 4]).val :=
  diag_eq _ (by simp [GoodLeaves, diagValueLeaf]) _

-- @site WhiteKernel::diag
/-- `WhiteKernel::diag` says `noise_level` where `WhiteKernel::covariance(x, x)` says `0` -/
theorem white_diag_counterexample :
    (diagEntry (.white (r 2)) [r 1]).val = 2 ∧ (cov (.white (r 2)) [r 1] [r 1]).val = 0 := by
  constructor
  · rfl
  · simp only [cov, lit0]

-- @site Kernel::diag
/-- `diag(x)` has one element per row, carrying `diagEntry`, for every tree without ESS / RQ leaves -/
theorem diag_rows (k : K R) (hk : GoodLeaves diagLenLeaf k) (X : List (List R)) :
    diag k X = .ok (X.map (diagEntry k)) := by
  induction k with
  | ess l p => simp [GoodLeaves, diagLenLeaf] at hk
  | rq s a => simp [GoodLeaves, diagLenLeaf] at hk
  | add a b iha ihb =>
    simp only [GoodLeaves] at hk
    simp only [diag, iha hk.1, ihb hk.2, bind, Except.bind, List.length_map, if_true, pure, Except.pure]
    congr 1
    rw [zipWith_map_map]
    rfl
  | mul a b iha ihb =>
    simp only [GoodLeaves] at hk
    simp only [diag, iha hk.1, ihb hk.2, bind, Except.bind, List.length_map, if_true, pure, Except.pure]
    congr 1
    rw [zipWith_map_map]
    rfl
  | _ => rfl

example : diag (.add (.white (r 2)) (.rbf (r 1))) [[r 0, r 1], [r 2, r 3]]
    = .ok ([[r 0, r 1], [r 2, r 3]].map (diagEntry (.add (.white (r 2)) (.rbf (r 1))))) :=
  diag_rows _ (by simp [GoodLeaves, diagLenLeaf]) _

-- @site Kernel::diag
/-- hence `diag(X)` is the diagonal of `covariance(X, X)` for trees over const / rbf / seard / matern leaves -/
theorem diag_eq_cov_diagonal (k : K R) (h1 : GoodLeaves diagValueLeaf k) (h2 : GoodLeaves diagLenLeaf k)
    (X : List (List R)) :
    (diag k X).map (·.map R.val) = .ok (X.map (fun x => (cov k x x).val)) := by
  rw [diag_rows k h2 X]
  simp only [Except.map, List.map_map]
  congr 1
  apply List.map_congr_left
  intro x _
  exact diag_eq k h1 x

example : (diag (.add (.const (r 2)) (.rbf (r 1))) [[r 0, r 1], [r 2, r 3]]).map (·.map R.val)
    = .ok ([[r 0, r 1], [r 2, r 3]].map (fun x => (cov (.add (.const (r 2)) (.rbf (r 1))) x x).val)) :=
  diag_eq_cov_diagonal _ (by simp [GoodLeaves, diagValueLeaf]) (by simp [GoodLeaves, diagLenLeaf]) _

-- @site ExpSineSquaredKernel::diag
/-- `ExpSineSquaredKernel::diag` uses `x.len()` (elements): one point of dimension 2 gives a vector of length 2 -/
theorem ess_diag_len_counterexample :
    (diag (.ess (r 1) (r 1)) [[r 0, r 0]]).map List.length = .ok 2 := by
  rfl

-- @site RationalQuadratic::diag
/-- `RationalQuadratic::diag` uses `x.len()` (elements): one point of dimension 2 gives a vector of length 2 -/
theorem rq_diag_len_counterexample :
    (diag (.rq (r 1) (r 1)) [[r 0, r 0]]).map List.length = .ok 2 := by
  rfl

-- @site AddKernel::diag
/-- consequently `diag` of a sum (or product) of such a leaf with any other kernel PANICS (`zip_map` / `assert_eq!`
    on vectors of lengths 2 and 1) in dimension ≥ 2 -/
theorem add_diag_panic_counterexample :
    diag (.add (.rq (r 1) (r 1)) (.rbf (r 1))) [[r 0, r 0]] = .error .panic ∧
    diag (.mul (.rbf (r 1)) (.ess (r 1) (r 1))) [[r 0, r 0]] = .error .panic := by
  constructor <;> rfl

/-! ### the covariance returned by `covariance_with_gradient` -/

-- @site Kernel::covariance_with_gradient
/-- the position `upper` is the mirror of `lower` (every tree without Matérn leaves) -/
theorem covGrad_upper (k : K R) (hk : GoodLeaves noMaternLeaf k) (x y : List R) :
    covGradEntry k .upper x y = covGradEntry k .lower y x := by
  induction k with
  | matern nu l => simp [GoodLeaves, noMaternLeaf] at hk
  | add a b iha ihb =>
    simp only [GoodLeaves] at hk
    simp only [covGradEntry, iha hk.1, ihb hk.2]
  | mul a b iha ihb =>
    simp only [GoodLeaves] at hk
    simp only [covGradEntry, iha hk.1, ihb hk.2]
  | _ => rfl

example : covGradEntry (.add (.rbf (r 2)) (.white (r 1))) .upper [r 0] [r 1]
    = covGradEntry (.add (.rbf (r 2)) (.white (r 1))) .lower [r 1] [r 0] :=
  covGrad_upper _ (by simp [GoodLeaves, noMaternLeaf]) _ _

-- @site Kernel::covariance_with_gradient
/-- leaf lemmas + induction: the covariance entry returned together with the gradient is the entry of
    `covariance(x, x)`, at every position, for every tree over const / rbf / ess / rq leaves with valid parameters -/
theorem covGrad_cov_eq (k : K R) (hk : GoodLeaves covGradLeaf k) (hv : Valid k) (pos : Pos) (x y : List R)
    (hd : pos = .diag → y = x) :
    (covGradEntry k pos x y).1.val = (cov k x y).val := by
  induction k with
  | const c => cases pos <;> rfl
  | rbf l =>
    cases pos with
    | lower =>
      simp only [covGradEntry, cov, R.exp_val, R.mul_val, R.div_val, R.neg_val, lit05, lit2]
      congr 1; ring
    | upper =>
      simp only [covGradEntry, cov, R.exp_val, R.mul_val, R.div_val, R.neg_val, lit05, lit2, e2norm_comm y x]
      congr 1; ring
    | diag =>
      rw [hd rfl]
      simp only [covGradEntry, cov, R.exp_val, R.mul_val, R.neg_val, e2norm_self, lit1, mul_zero, Real.exp_zero]
  | seard ls => simp [GoodLeaves, covGradLeaf] at hk
  | ess l p =>
    cases pos with
    | lower => simp only [covGradEntry, cov]
    | upper => simp only [covGradEntry, cov, eucDist_comm y x]
    | diag =>
      rw [hd rfl]
      simp only [covGradEntry, cov, R.exp_val, R.mul_val, R.div_val, R.neg_val, R.powi_val, R.sin_val, R.pi_val,
        eucDist_self, lit1, lit2, mul_zero, zero_div, Real.sin_zero]
      norm_num
  | rq s a =>
    obtain ⟨hs, ha⟩ := hv
    have hD : 0 ≤ 2 * s.val * s.val * a.val := by positivity
    have key : ∀ u v : List R, (e2norm u v (RealLike.sqrt ((2.0 : R) * s * s * a))).val
        = sqSum u v / (2 * a.val * s.val ^ 2) := by
      intro u v
      rw [e2norm_val]
      simp only [R.sqrt_val, R.mul_val, lit2]
      rw [Real.sq_sqrt hD]
      congr 1; ring
    cases pos with
    | lower =>
      simp only [covGradEntry, cov, R.powf_val, R.add_val, R.neg_val, R.div_val, R.mul_val, R.powi_val, key,
        sqDist_val, lit1, lit2]
      norm_cast
    | upper =>
      simp only [covGradEntry, cov, R.powf_val, R.add_val, R.neg_val, R.div_val, R.mul_val, R.powi_val, key,
        sqDist_val, lit1, lit2, sqSum_comm y x]
      norm_cast
    | diag =>
      rw [hd rfl]
      simp only [covGradEntry, cov, R.powf_val, R.add_val, R.neg_val, e2norm_self, lit1, add_zero, Real.one_rpow]
  | matern nu l => simp [GoodLeaves, covGradLeaf] at hk
  | white s => simp [GoodLeaves, covGradLeaf] at hk
  | add a b iha ihb =>
    simp only [GoodLeaves] at hk
    simp only [covGradEntry, cov, R.add_val, iha hk.1 hv.1, ihb hk.2 hv.2]
  | mul a b iha ihb =>
    simp only [GoodLeaves] at hk
    simp only [covGradEntry, cov, R.mul_val, iha hk.1 hv.1, ihb hk.2 hv.2]

example : (covGradEntry (.mul (.const (r 3)) (.rq (r 2) (r 5))) .lower [r 1, r 2] [r 0, r 7]).1.val
    = (cov (.mul (.const (r 3)) (.rq (r 2) (r 5))) [r 1, r 2] [r 0, r 7]).val :=
  covGrad_cov_eq _ (by simp [GoodLeaves, covGradLeaf]) (by simp [Valid]) _ _ _ (by simp)

-- @site SEardKernel::covariance_with_gradient
/-- `SEardKernel::covariance_with_gradient` returns the identity matrix as covariance: an off-diagonal entry of two
    COINCIDENT points is `0` where `covariance` says `1` -/
theorem seard_covGrad_cov_counterexample :
    (covGradEntry (.seard [r 1]) .lower [r 0] [r 0]).1.val = 0 ∧ (cov (.seard [r 1]) [r 0] [r 0]).val = 1 := by
  constructor
  · simp only [covGradEntry, lit0]
  · simp only [cov, seardSum, R.exp_val, R.mul_val, R.neg_val, R.add_val, R.div_val, R.sub_val, lit0, lit05]
    norm_num

-- @site WhiteKernel::covariance_with_gradient
/-- `WhiteKernel::covariance_with_gradient` puts `noise_level` on the diagonal where `covariance(x, x)` is `0` -/
theorem white_covGrad_cov_counterexample :
    (covGradEntry (.white (r 2)) .diag [r 0] [r 0]).1.val = 2 ∧ (cov (.white (r 2)) [r 0] [r 0]).val = 0 := by
  constructor
  · rfl
  · simp only [cov, lit0]

-- @site MaternKernel::autocov
/-- `MaternKernel::autocov` does not mirror the entry of two coincident points (`matern.rs:73-74` writes only
    `dm[(i, j)]`): for `x₀ = x₁` the returned covariance has `1` at `(1, 0)` and `0` at `(0, 1)` — not symmetric, and
    different from `covariance`, which says `1` -/
theorem matern_covGrad_cov_counterexample :
    (covGradEntry (.matern (r 1) (r 1)) .lower [r 0] [r 0]).1.val = 1 ∧
    (covGradEntry (.matern (r 1) (r 1)) .upper [r 0] [r 0]).1.val = 0 ∧
    (cov (.matern (r 1) (r 1)) [r 0] [r 0]).val = 1 := by
  have h : RealLike.lt (RealLike.sqrt (e2norm [r 0] [r 0] (r 1))) (RealLike.epsilon : R) = true := by
    rw [R.lt_iff, R.sqrt_val, e2norm_self, Real.sqrt_zero]; exact eps_pos
  refine ⟨?_, ?_, ?_⟩
  · simp only [covGradEntry, maternAutocov, maternCov, h, if_true, lit1]
  · simp only [covGradEntry, maternAutocov, h, if_true, lit0]
  · simp only [cov, maternCov, h, if_true, lit1]

-- @site MaternKernel::autocov
/-- on and below the diagonal the Matérn covariance returned with the gradient IS `covariance` -/
theorem matern_covGrad_cov_lower (nu l : R) (x y : List R) :
    (covGradEntry (.matern nu l) .lower x y).1 = cov (.matern nu l) x y ∧
    (covGradEntry (.matern nu l) .diag x x).1.val = (cov (.matern nu l) x x).val := by
  constructor
  · rfl
  · have h : RealLike.lt (RealLike.sqrt (e2norm x x l)) (RealLike.epsilon : R) = true := by
      rw [R.lt_iff, R.sqrt_val, e2norm_self, Real.sqrt_zero]; exact eps_pos
    simp only [covGradEntry, maternAutocov, cov, maternCov, h, if_true]

/-! ### the textbook Matérn closed forms (Spec `maternClosed`, the oracle of the Matérn leaf for ν = 1/2, 3/2, 5/2)

  That the transcribed Bessel algorithm (`besselIkvTemme`: truncated series / continued fractions) evaluates to these
  closed forms is NOT provable (it is an approximation scheme); the correspondence run compares the implementation with
  them to `1e-8`.  What is proved: the closed forms themselves are a sane covariance (symmetric, unit diagonal, values
  in `(0, 1]`). -/

-- @site MaternKernel::covariance
theorem maternClosed_comm (sel : Nat) (l : R) (x y : List R) : maternClosed sel l x y = maternClosed sel l y x := by
  simp only [maternClosed, sqDist_comm x y]

-- @site MaternKernel::covariance
theorem maternClosed_self (sel : Nat) (l : R) (x : List R) : (maternClosed sel l x x).val = 1 := by
  rcases sel with _ | _ | n <;>
    simp only [maternClosed, sqDist_self, R.sqrt_val, R.div_val, R.exp_val, R.neg_val, R.mul_val, R.add_val, lit1,
      lit3, lit5, Real.sqrt_zero, zero_div, mul_zero, neg_zero, Real.exp_zero, add_zero, mul_one]

-- @site MaternKernel::covariance
/-- `0 < k(x, x') ≤ 1 = k(x, x)` (necessary for positive semidefiniteness): `(1 + t + t²/3) e^{-t} ≤ 1` because
    `e^t ≥ 1 + t + t²/2` -/
theorem maternClosed_range (sel : Nat) (l : R) (hl : 0 < l.val) (x y : List R) :
    0 < (maternClosed sel l x y).val ∧ (maternClosed sel l x y).val ≤ 1 := by
  have hr : 0 ≤ Real.sqrt (sqSum x y) / l.val := div_nonneg (Real.sqrt_nonneg _) hl.le
  have key : ∀ t : ℝ, 0 ≤ t → 0 < (1 + t + t * t / 3) * Real.exp (-t) ∧ (1 + t + t * t / 3) * Real.exp (-t) ≤ 1 ∧
      (1 + t) * Real.exp (-t) ≤ 1 ∧ 0 < (1 + t) * Real.exp (-t) := by
    intro t ht
    have he := Real.quadratic_le_exp_of_nonneg ht
    have hpos := Real.exp_pos (-t)
    have hinv : Real.exp (-t) * Real.exp t = 1 := by rw [← Real.exp_add]; simp
    have h1 : (1 + t + t * t / 3) ≤ Real.exp t := by nlinarith [mul_nonneg ht ht]
    have h2 : (1 + t) ≤ Real.exp t := by nlinarith [mul_nonneg ht ht]
    refine ⟨by positivity, ?_, ?_, by positivity⟩
    · calc (1 + t + t * t / 3) * Real.exp (-t) ≤ Real.exp t * Real.exp (-t) := by
            exact mul_le_mul_of_nonneg_right h1 hpos.le
        _ = 1 := by rw [mul_comm]; exact hinv
    · calc (1 + t) * Real.exp (-t) ≤ Real.exp t * Real.exp (-t) := mul_le_mul_of_nonneg_right h2 hpos.le
        _ = 1 := by rw [mul_comm]; exact hinv
  rcases sel with _ | _ | n
  · simp only [maternClosed, R.exp_val, R.neg_val, R.div_val, R.sqrt_val, sqDist_val]
    exact ⟨Real.exp_pos _, Real.exp_le_one_iff.mpr (by linarith)⟩
  · simp only [maternClosed, R.exp_val, R.neg_val, R.div_val, R.sqrt_val, R.mul_val, R.add_val, sqDist_val, lit1,
      lit3]
    have ht : 0 ≤ Real.sqrt (3 : ℝ) * (Real.sqrt (sqSum x y) / l.val) := mul_nonneg (Real.sqrt_nonneg _) hr
    obtain ⟨_, _, h3, h4⟩ := key _ ht
    exact ⟨h4, h3⟩
  · simp only [maternClosed, R.exp_val, R.neg_val, R.div_val, R.sqrt_val, R.mul_val, R.add_val, sqDist_val, lit1,
      lit3, lit5]
    have ht : 0 ≤ Real.sqrt (5 : ℝ) * (Real.sqrt (sqSum x y) / l.val) := mul_nonneg (Real.sqrt_nonneg _) hr
    obtain ⟨h1, h2, _, _⟩ := key _ ht
    exact ⟨h1, h2⟩

example : (maternClosed 2 (r 2) [r 0, r 1] [r 3, r 1]).val ≤ 1 := (maternClosed_range 2 (r 2) (by norm_num) _ _).2

/-! ### shapes -/

-- @site Kernel::n_parameters
theorem nParameters_add (a b : K R) : nParameters (.add a b) = nParameters a + nParameters b := rfl
-- @site Kernel::n_parameters
theorem nParameters_mul (a b : K R) : nParameters (.mul a b) = nParameters a + nParameters b := rfl

-- @site Kernel::parameters
/-- compositions concatenate their parameters in order -/
theorem parameters_add (a b : K R) : parameters (.add a b) = parameters a ++ parameters b := rfl
-- @site Kernel::parameters
theorem parameters_mul (a b : K R) : parameters (.mul a b) = parameters a ++ parameters b := rfl

-- @site Kernel::parameters
/-- `parameters()` has `n_parameters()` elements, every tree -/
theorem parameters_len (k : K R) : (parameters k).length = nParameters k := parameters_length k

-- @site Kernel::covariance_with_gradient
/-- every entry carries exactly `n_parameters()` gradient values, every tree, every position -/
theorem covGrad_len (k : K R) (pos : Pos) (x y : List R) : (covGradEntry k pos x y).2.length = nParameters k := by
  induction k generalizing pos with
  | seard ls => cases pos <;> simp [covGradEntry, nParameters, seardGrad_length]
  | add a b iha ihb => simp only [covGradEntry, nParameters, List.length_append, iha, ihb]
  | mul a b iha ihb => simp only [covGradEntry, nParameters, List.length_append, List.length_map, iha, ihb]
  | _ => cases pos <;> rfl

-- @site Kernel::covariance
/-- `covariance(X, X')` is `|X| × |X'|`, whatever the kernel and the coordinates -/
theorem covMatrix_shape (k : K R) (X X' : List (List R)) (M : List (List R)) (h : covMatrix k X X' = .ok M) :
    M.length = X.length ∧ ∀ row ∈ M, row.length = X'.length := by
  unfold covMatrix at h
  split at h
  · cases h
  · injection h with h
    subst h
    refine ⟨by simp, ?_⟩
    intro row hrow
    simp only [List.mem_map] at hrow
    obtain ⟨x, _, rfl⟩ := hrow
    simp

example : ∃ M, covMatrix (.mul (.const (r 2)) (.rbf (r 1))) [[r 0], [r 1]] [[r 5]] = .ok M := ⟨_, rfl⟩

-- @site Kernel::covariance_with_gradient
/-- `covariance_with_gradient(X)` returns an `|X| × |X|` covariance and `n_parameters()` slices of `|X| × |X|` -/
theorem covWithGrad_shape (k : K R) (X : List (List R)) (C : List (List R)) (G : List (List (List R)))
    (h : covWithGrad k X = .ok (C, G)) :
    (C.length = X.length ∧ ∀ row ∈ C, row.length = X.length) ∧
    G.length = nParameters k ∧ ∀ S ∈ G, (S.length = X.length ∧ ∀ row ∈ S, row.length = X.length) := by
  unfold covWithGrad at h
  split at h
  · cases h
  · split at h
    · cases h
    · injection h with h
      injection h with hC hG
      subst hC; subst hG
      have hrows : ∀ row ∈ entries k X, row.length = X.length := by
        intro row hrow
        simp only [entries, List.mem_map] at hrow
        obtain ⟨ix, _, rfl⟩ := hrow
        simp [enumL_length]
      have hlen : (entries k X).length = X.length := by simp [entries, enumL_length]
      refine ⟨⟨by simp [hlen], ?_⟩, by simp, ?_⟩
      · intro row hrow
        simp only [List.mem_map] at hrow
        obtain ⟨e, he, rfl⟩ := hrow
        simp [hrows e he]
      · intro S hS
        simp only [List.mem_map] at hS
        obtain ⟨p, _, rfl⟩ := hS
        refine ⟨by simp [hlen], ?_⟩
        intro row hrow
        simp only [List.mem_map] at hrow
        obtain ⟨e, he, rfl⟩ := hrow
        simp [hrows e he]

example : ∃ C G, covWithGrad (.mul (.const (r 2)) (.rbf (r 1))) [[r 0], [r 1]] = .ok (C, G) := ⟨_, _, rfl⟩

-- @site Kernel::covariance_with_gradient
/-- matrix level: the covariance returned by `covariance_with_gradient(X)` is `covariance(X, X)` entry by entry, for
    every tree over const / rbf / ess / rq leaves with valid parameters -/
theorem covWithGrad_cov_eq (k : K R) (hk : GoodLeaves covGradLeaf k) (hv : Valid k) (X : List (List R))
    (C : List (List R)) (G : List (List (List R))) (h : covWithGrad k X = .ok (C, G)) :
    C.map (·.map R.val) = X.map (fun x => X.map (fun y => (cov k x y).val)) := by
  unfold covWithGrad at h
  split at h
  · cases h
  · split at h
    · cases h
    · injection h with h
      injection h with hC _
      subst hC
      rw [map_via_enumL (fun x => X.map (fun y => (cov k x y).val)) X]
      simp only [entries, List.map_map]
      apply List.map_congr_left
      intro ix hix
      simp only [Function.comp]
      rw [map_via_enumL (fun y => (cov k ix.2 y).val) X, List.map_map, List.map_map]
      apply List.map_congr_left
      intro jy hjy
      simp only [Function.comp]
      apply covGrad_cov_eq k hk hv
      intro hpos
      have : ix.1 = jy.1 := by
        unfold Pos.ofIdx at hpos
        split at hpos
        · cases hpos
        · split at hpos
          · assumption
          · cases hpos
      exact (enumL_fst_inj X ix jy hix hjy this).symm

example (C : List (List R)) (G : List (List (List R)))
    (h : covWithGrad (.mul (.const (r 2)) (.rq (r 1) (r 3))) [[r 0], [r 1]] = .ok (C, G)) :
    C.map (·.map R.val) = [[r 0], [r 1]].map (fun x => [[r 0], [r 1]].map (fun y =>
      (cov (.mul (.const (r 2)) (.rq (r 1) (r 3))) x y).val)) :=
  covWithGrad_cov_eq _ (by simp [GoodLeaves, covGradLeaf]) (by simp [Valid]) _ C G h

-- @site Kernel::covariance_with_gradient
/-- matrix level: entry `(i, j)` of the returned covariance and of slice `p` of the returned gradient are the components
    of `covGradEntry` at the position of `(i, j)` relative to the diagonal — this is how `covWithGrad` is assembled, and
    what carries the per-entry theorems (`covGrad_cov_eq`, `grad_hasDerivAt`) to the matrices -/
theorem covWithGrad_entry (k : K R) (X : List (List R)) (C : List (List R)) (G : List (List (List R)))
    (h : covWithGrad k X = .ok (C, G)) (p i j : Nat) (hp : p < nParameters k) (hi : i < X.length) (hj : j < X.length) :
    ((G.getD p []).getD i []).getD j (r 0) = (covGradEntry k (Pos.ofIdx i j) X[i] X[j]).2.getD p (r 0) ∧
    ((C.getD i []).getD j (r 0)) = (covGradEntry k (Pos.ofIdx i j) X[i] X[j]).1 := by
  unfold covWithGrad at h
  split at h
  · cases h
  · split at h
    · cases h
    · injection h with h
      injection h with hC hG
      subst hC; subst hG
      have hi' : i < (enumL X).length := by rw [enumL_length]; exact hi
      have hj' : j < (enumL X).length := by rw [enumL_length]; exact hj
      have hie : i < (entries k X).length := by simpa [entries] using hi'
      have hrow : (entries k X)[i] = (enumL X).map (fun jy => covGradEntry k (Pos.ofIdx i jy.1) X[i] jy.2) := by
        simp only [entries, List.getElem_map, enumL_getElem X i hi]
      have hlen := covGrad_len k (Pos.ofIdx i j) X[i] X[j]
      constructor
      · rw [getD_map' _ _ p _ (by simpa using hp), List.getElem_range, getD_map' _ _ i _ hie, hrow, List.map_map,
          getD_map' _ _ j _ hj', enumL_getElem X j hj]
        simp only [Function.comp]
        rw [List.getD_eq_getElem _ _ (by rw [hlen]; exact hp), List.getD_eq_getElem _ _ (by rw [hlen]; exact hp)]
      · rw [getD_map' _ _ i _ hie, hrow, List.map_map, getD_map' _ _ j _ hj', enumL_getElem X j hj]
        rfl

/-! ### `parameters` / `reparameterize` -/

-- @site Kernel::reparameterize
/-- `reparameterize(parameters()) = Ok(self)` for every tree with positive parameters (`exp ∘ ln = id`) -/
theorem reparameterize_parameters (k : K R) (hv : Valid k) : reparameterize k (parameters k) = .ok k := by
  have hexp : ∀ c : R, 0 < c.val → RealLike.exp (RealLike.ln c) = c := by
    intro c hc; apply R.ext'; simp only [R.exp_val, R.ln_val, Real.exp_log hc]
  have hle : ∀ c : R, 0 < c.val → RealLike.le c (0.0 : R) = false := by
    intro c hc; rw [R.le_false_iff, lit0]; exact not_le.mpr hc
  induction k with
  | const c => simp only [parameters, reparameterize, chk1, hexp c hv, hle c hv]; rfl
  | rbf l => simp only [parameters, reparameterize, chk1, hexp l hv, hle l hv]; rfl
  | white s => simp only [parameters, reparameterize, chk1, hexp s hv, hle s hv]; rfl
  | ess l p =>
    simp only [parameters, reparameterize, chk2, hexp l hv.1, hexp p hv.2, hle l hv.1, hle p hv.2]; rfl
  | rq s a =>
    simp only [parameters, reparameterize, chk2, hexp s hv.1, hexp a hv.2, hle s hv.1, hle a hv.2]; rfl
  | matern nu l =>
    simp only [parameters, reparameterize, chk2, hexp nu hv.1, hexp l hv.2, hle nu hv.1, hle l hv.2]; rfl
  | seard ls =>
    have hmap : (ls.map RealLike.ln).map RealLike.exp = ls := by
      rw [List.map_map]
      conv_rhs => rw [← List.map_id ls]
      apply List.map_congr_left
      intro c hc
      exact hexp c (hv c hc)
    have hall : ls.all (fun v => RealLike.gt v (0.0 : R)) = true := by
      rw [List.all_eq_true]
      intro c hc
      show RealLike.lt (0.0 : R) c = true
      rw [R.lt_iff, lit0]; exact hv c hc
    simp only [parameters, reparameterize, List.length_map, if_true, hmap, hall]
  | add a b iha ihb =>
    have hlt : ¬ (parameters a ++ parameters b).length < nParameters a := by
      rw [List.length_append, parameters_length]; omega
    simp only [parameters, reparameterize, hlt, if_false]
    rw [← parameters_length a, List.take_left', List.drop_left', iha hv.1, ihb hv.2] <;> rfl
  | mul a b iha ihb =>
    have hlt : ¬ (parameters a ++ parameters b).length < nParameters a := by
      rw [List.length_append, parameters_length]; omega
    simp only [parameters, reparameterize, hlt, if_false]
    rw [← parameters_length a, List.take_left', List.drop_left', iha hv.1, ihb hv.2] <;> rfl

example : reparameterize (.add (.rbf (r 2)) (.mul (.const (r 3)) (.seard [r 1, r 4])))
      (parameters (.add (.rbf (r 2)) (.mul (.const (r 3)) (.seard [r 1, r 4]))))
    = .ok (.add (.rbf (r 2)) (.mul (.const (r 3)) (.seard [r 1, r 4]))) :=
  reparameterize_parameters _ (by simp [Valid, r])

-- @site Kernel::reparameterize
/-- the round trip as the harness runs it (op `kernel.roundtrip`): rebuilding a kernel from its own `parameters()` gives
    back the same parameters and the same covariance matrix — every tree with positive parameters, in particular
    products and sums whose operands have DIFFERENT numbers of parameters (the split index is `a.n_parameters()`) -/
theorem roundTrip_eq (k : K R) (hv : Valid k) (X : List (List R)) :
    roundTrip k X = (covMatrix k X X).map (fun m => (parameters k, m)) := by
  simp only [roundTrip, reparameterize_parameters k hv, bind, Except.bind]
  cases covMatrix k X X <;> rfl

example : roundTrip (.mul (.rq (r 1) (r 3)) (.rbf (r 2))) [[r 0], [r 1]]
    = (covMatrix (.mul (.rq (r 1) (r 3)) (.rbf (r 2))) [[r 0], [r 1]] [[r 0], [r 1]]).map
        (fun m => (parameters (.mul (.rq (r 1) (r 3)) (.rbf (r 2))), m)) :=
  roundTrip_eq _ (by simp [Valid]) _

-- @site ProductKernel::reparameterize
/-- the split index matters: a product of a two-parameter and a one-parameter kernel hands the first TWO values to the
    left factor — `[θ₀, θ₁ | θ₂]`, not `[θ₀ | θ₁, θ₂]` -/
theorem reparameterize_mul_split (s a l : R) (t0 t1 t2 : R) :
    reparameterize (.mul (.rq s a) (.rbf l)) [t0, t1, t2]
      = (do let x ← reparameterize (.rq s a) [t0, t1]; let y ← reparameterize (.rbf l) [t2]; pure (.mul x y)) := by
  rfl

-- @site Kernel::parameters
/-- and the other way round: the parameters of the kernel rebuilt from `θ` are `θ`, for every tree and every `θ` of the
    right length (`ln ∘ exp = id`; on exact reals `exp` is always positive, so the checked constructors accept) -/
theorem parameters_reparameterize (k : K R) (θ : List R) (hθ : θ.length = nParameters k) :
    ∃ k', reparameterize k θ = .ok k' ∧ parameters k' = θ ∧ nParameters k' = nParameters k := by
  have hln : ∀ v : R, RealLike.ln (RealLike.exp v) = v := by
    intro v; apply R.ext'; simp only [R.exp_val, R.ln_val, Real.log_exp]
  have hle : ∀ v : R, RealLike.le (RealLike.exp v) (0.0 : R) = false := by
    intro v; rw [R.le_false_iff, lit0, R.exp_val]; exact not_le.mpr (Real.exp_pos _)
  induction k generalizing θ with
  | const c =>
    match θ, hθ with
    | [v], _ => exact ⟨.const (RealLike.exp v), by simp only [reparameterize, chk1, hle]; rfl, by simp [parameters, hln], rfl⟩
  | rbf l =>
    match θ, hθ with
    | [v], _ => exact ⟨.rbf (RealLike.exp v), by simp only [reparameterize, chk1, hle]; rfl, by simp [parameters, hln], rfl⟩
  | white s =>
    match θ, hθ with
    | [v], _ => exact ⟨.white (RealLike.exp v), by simp only [reparameterize, chk1, hle]; rfl, by simp [parameters, hln], rfl⟩
  | ess l p =>
    match θ, hθ with
    | [v, w], _ =>
      exact ⟨.ess (RealLike.exp v) (RealLike.exp w), by simp only [reparameterize, chk2, hle]; rfl,
        by simp [parameters, hln], rfl⟩
  | rq s a =>
    match θ, hθ with
    | [v, w], _ =>
      exact ⟨.rq (RealLike.exp v) (RealLike.exp w), by simp only [reparameterize, chk2, hle]; rfl,
        by simp [parameters, hln], rfl⟩
  | matern nu l =>
    match θ, hθ with
    | [v, w], _ =>
      exact ⟨.matern (RealLike.exp v) (RealLike.exp w), by simp only [reparameterize, chk2, hle]; rfl,
        by simp [parameters, hln], rfl⟩
  | seard ls =>
    simp only [nParameters] at hθ
    have hall : (θ.map RealLike.exp).all (fun v => RealLike.gt v (0.0 : R)) = true := by
      rw [List.all_eq_true]
      intro c hc
      simp only [List.mem_map] at hc
      obtain ⟨v, _, rfl⟩ := hc
      show RealLike.lt (0.0 : R) (RealLike.exp v) = true
      rw [R.lt_iff, lit0, R.exp_val]; exact Real.exp_pos _
    refine ⟨.seard (θ.map RealLike.exp), by simp only [reparameterize, hθ, if_true, hall], ?_, by simp [nParameters, hθ]⟩
    simp only [parameters, List.map_map]
    conv_rhs => rw [← List.map_id θ]
    apply List.map_congr_left
    intro v _
    exact hln v
  | add a b iha ihb =>
    simp only [nParameters] at hθ
    obtain ⟨a', ha1, ha2, ha3⟩ := iha (θ.take (nParameters a)) (by simp; omega)
    obtain ⟨b', hb1, hb2, hb3⟩ := ihb (θ.drop (nParameters a)) (by simp; omega)
    refine ⟨.add a' b', ?_, ?_, by simp [nParameters, ha3, hb3]⟩
    · have : ¬ θ.length < nParameters a := by omega
      simp only [reparameterize, this, if_false, ha1, hb1]; rfl
    · simp only [parameters, ha2, hb2, List.take_append_drop]
  | mul a b iha ihb =>
    simp only [nParameters] at hθ
    obtain ⟨a', ha1, ha2, ha3⟩ := iha (θ.take (nParameters a)) (by simp; omega)
    obtain ⟨b', hb1, hb2, hb3⟩ := ihb (θ.drop (nParameters a)) (by simp; omega)
    refine ⟨.mul a' b', ?_, ?_, by simp [nParameters, ha3, hb3]⟩
    · have : ¬ θ.length < nParameters a := by omega
      simp only [reparameterize, this, if_false, ha1, hb1]; rfl
    · simp only [parameters, ha2, hb2, List.take_append_drop]

example : ∃ k', reparameterize (.mul (.const (r 3)) (.ess (r 1) (r 2))) [r 0, r (-1), r 5] = .ok k' ∧
    parameters k' = [r 0, r (-1), r 5] ∧ nParameters k' = 3 :=
  parameters_reparameterize _ _ rfl

-- @site Kernel::reparameterize
/-- too MANY parameters: every tree whose last leaf is not ESS / RQ reports `ExtraneousParameters(len − n)` -/
theorem reparameterize_extraneous (k : K R) (hk : extraGood k = true) (θ : List R) (hθ : nParameters k < θ.length) :
    reparameterize k θ = .error (.extraneous (θ.length - nParameters k)) := by
  induction k generalizing θ with
  | const c =>
    match θ, hθ with
    | _ :: _ :: _, _ => simp [reparameterize, nParameters]
  | rbf l =>
    match θ, hθ with
    | _ :: _ :: _, _ => simp [reparameterize, nParameters]
  | white s =>
    match θ, hθ with
    | _ :: _ :: _, _ => simp [reparameterize, nParameters]
  | ess l p => simp [extraGood] at hk
  | rq s a => simp [extraGood] at hk
  | matern nu l =>
    match θ, hθ with
    | _ :: _ :: _ :: _, _ => simp [reparameterize, nParameters]
  | seard ls =>
    simp only [nParameters] at hθ
    have h1 : θ.length ≠ ls.length := by omega
    simp only [reparameterize, h1, if_false, gt_iff_lt, hθ, if_true, nParameters]
  | add a b _ ihb =>
    simp only [nParameters] at hθ
    simp only [extraGood] at hk
    obtain ⟨a', ha1, _, _⟩ := parameters_reparameterize a (θ.take (nParameters a)) (by simp; omega)
    have : ¬ θ.length < nParameters a := by omega
    simp only [reparameterize, this, if_false, ha1, ihb hk (θ.drop (nParameters a)) (by simp; omega)]
    simp only [bind, Except.bind, List.length_drop, nParameters]
    congr 2; omega
  | mul a b _ ihb =>
    simp only [nParameters] at hθ
    simp only [extraGood] at hk
    obtain ⟨a', ha1, _, _⟩ := parameters_reparameterize a (θ.take (nParameters a)) (by simp; omega)
    have : ¬ θ.length < nParameters a := by omega
    simp only [reparameterize, this, if_false, ha1, ihb hk (θ.drop (nParameters a)) (by simp; omega)]
    simp only [bind, Except.bind, List.length_drop, nParameters]
    congr 2; omega

example : reparameterize (.add (.ess (r 1) (r 2)) (.const (r 3))) [r 0, r 0, r 0, r 0, r 0]
    = .error (.extraneous 2) :=
  reparameterize_extraneous _ rfl _ (by simp [nParameters])

-- @site ExpSineSquaredKernel::reparameterize
/-- ESS (`exp_sin_squared.rs:118`) and RQ (`rational_quadratic.rs:101`) report `len − 1` instead of `len − 2`:
    three values for a two-parameter kernel are reported as TWO extraneous parameters -/
theorem ess_rq_extraneous_counterexample :
    reparameterize (.ess (r 1) (r 1)) [r 0, r 0, r 0] = .error (.extraneous 2) ∧
    reparameterize (.rq (r 1) (r 1)) [r 0, r 0, r 0] = .error (.extraneous 2) ∧
    nParameters (.ess (r 1) (r 1)) = 2 ∧ nParameters (.rq (r 1) (r 1)) = 2 := by
  refine ⟨rfl, rfl, rfl, rfl⟩

-- @site Kernel::reparameterize
/-- too FEW parameters: every LEAF reports `MissingParameters(n − len)` -/
theorem reparameterize_missing_leaf (k : K R) (hk : isLeaf k = true) (θ : List R) (hθ : θ.length < nParameters k) :
    reparameterize k θ = .error (.missing (nParameters k - θ.length)) := by
  cases k with
  | const c => match θ, hθ with
    | [], _ => rfl
  | rbf l => match θ, hθ with
    | [], _ => rfl
  | white s => match θ, hθ with
    | [], _ => rfl
  | ess l p => match θ, hθ with
    | [], _ => rfl
    | [_], _ => rfl
  | rq s a => match θ, hθ with
    | [], _ => rfl
    | [_], _ => rfl
  | matern nu l => match θ, hθ with
    | [], _ => rfl
    | [_], _ => rfl
  | seard ls =>
    simp only [nParameters] at hθ
    have h1 : θ.length ≠ ls.length := by omega
    have h2 : ¬ θ.length > ls.length := by omega
    simp only [reparameterize, h1, if_false, h2, nParameters]
  | add a b => simp [isLeaf] at hk
  | mul a b => simp [isLeaf] at hk

example : reparameterize (.matern (r 1) (r 2)) [r 0] = .error (.missing 1) :=
  reparameterize_missing_leaf _ rfl _ (by simp [nParameters])

-- @site AddKernel::reparameterize
/-- a COMPOSITION given fewer values than its left operand needs does not report `MissingParameters`: it PANICS
    (`params.split_at(self.a.n_parameters())`, `ops.rs:115` / `:246`), every tree -/
theorem reparameterize_composition_panics (a b : K R) (θ : List R) (hθ : θ.length < nParameters a) :
    reparameterize (.add a b) θ = .error .panic ∧ reparameterize (.mul a b) θ = .error .panic := by
  simp only [reparameterize, hθ, if_true, and_self]

example : reparameterize (.add (.ess (r 1) (r 1)) (.rbf (r 1))) [r 0] = .error .panic :=
  (reparameterize_composition_panics _ _ _ (by simp [nParameters])).1

-- @site AddKernel::reparameterize
theorem reparameterize_missing_counterexample :
    reparameterize (.add (.const (r 1)) (.const (r 1))) ([] : List R) = .error .panic := by
  rfl

-- @site Kernel::consume_parameters
/-- `consume_parameters` does report the missing count, for every tree -/
theorem consumeParameters_missing (k : K R) (θ : List R) (hθ : θ.length < nParameters k) :
    consumeParameters k θ = .error (.missing (nParameters k - θ.length)) := by
  simp only [consumeParameters, hθ, if_true]

example : consumeParameters (.add (.ess (r 1) (r 1)) (.rbf (r 1))) [r 0] = .error (.missing 2) :=
  consumeParameters_missing _ _ (by simp [nParameters])

-- @site Kernel::consume_parameters
/-- `consume_parameters` rebuilds the kernel from the first `n_parameters()` values and hands back the rest -/
theorem consumeParameters_ok (k : K R) (θ : List R) (hθ : nParameters k ≤ θ.length) :
    ∃ k', consumeParameters k θ = .ok (k', θ.drop (nParameters k)) ∧ parameters k' = θ.take (nParameters k) := by
  obtain ⟨k', h1, h2, _⟩ := parameters_reparameterize k (θ.take (nParameters k)) (by simp; omega)
  refine ⟨k', ?_, h2⟩
  have : ¬ θ.length < nParameters k := by omega
  simp only [consumeParameters, this, if_false, h1]; rfl

example : ∃ k', consumeParameters (.rbf (r 2)) [r 0, r 7] = .ok (k', [r 7]) ∧ parameters k' = [r 0] :=
  consumeParameters_ok _ _ (by simp [nParameters])

end C16

#print axioms C16.maternCov_comm
#print axioms C16.cov_symm
#print axioms C16.diag_eq
#print axioms C16.white_diag_counterexample
#print axioms C16.diag_rows
#print axioms C16.diag_eq_cov_diagonal
#print axioms C16.ess_diag_len_counterexample
#print axioms C16.rq_diag_len_counterexample
#print axioms C16.add_diag_panic_counterexample
#print axioms C16.covGrad_upper
#print axioms C16.covGrad_cov_eq
#print axioms C16.seard_covGrad_cov_counterexample
#print axioms C16.white_covGrad_cov_counterexample
#print axioms C16.matern_covGrad_cov_counterexample
#print axioms C16.matern_covGrad_cov_lower
#print axioms C16.maternClosed_comm
#print axioms C16.maternClosed_self
#print axioms C16.maternClosed_range
#print axioms C16.nParameters_add
#print axioms C16.nParameters_mul
#print axioms C16.parameters_add
#print axioms C16.parameters_mul
#print axioms C16.parameters_len
#print axioms C16.covGrad_len
#print axioms C16.covMatrix_shape
#print axioms C16.covWithGrad_shape
#print axioms C16.covWithGrad_cov_eq
#print axioms C16.covWithGrad_entry
#print axioms C16.reparameterize_parameters
#print axioms C16.roundTrip_eq
#print axioms C16.reparameterize_mul_split
#print axioms C16.parameters_reparameterize
#print axioms C16.reparameterize_extraneous
#print axioms C16.ess_rq_extraneous_counterexample
#print axioms C16.reparameterize_missing_leaf
#print axioms C16.reparameterize_composition_panics
#print axioms C16.reparameterize_missing_counterexample
#print axioms C16.consumeParameters_missing
#print axioms C16.consumeParameters_ok
