import RvModel.Hand.CacheSM
/-!
  C09 — cached quantities never go stale; results do not depend on call history.

  Part 1 (generic, once): for the cache state machine of `Hand/CacheSM.lean`, if every setter resets every
  cache whose initialiser reads a field it writes (`SoundOp`), then after ANY finite history of setters and
  queries every query returns exactly what a freshly constructed object with the current parameters returns.
  Every operation of the real code is atomic (`&mut self` setters; `OnceLock::get_or_init` for queries), so an
  arbitrary interleaving of threads is one such history: the schedule quantifier is covered by the same
  induction.  Part 2 (per type, facts regenerated from /repo/src on every run): the extracted facts satisfy
  the soundness condition (`by decide`), equality compares exactly the parameters.
-/
open CacheSM

namespace C09

theorem assign_of_not_mem {V : Type} (p : Nat → V) (ws : List (Nat × V)) (f : Nat)
    (h : f ∉ ws.map Prod.fst) : assign p ws f = p f := by
  induction ws generalizing p with
  | nil => rfl
  | cons w ws ih =>
    obtain ⟨g, v⟩ := w
    simp only [List.map_cons, List.mem_cons, not_or] at h
    simp only [assign]
    rw [ih _ h.2]
    simp [h.1]

-- @site CacheSM.step
/-- one step preserves the freshness invariant -/
theorem inv_step {V : Type} (sp : Spec V) (hdep : Dep sp) (s : State V) (op : Op V)
    (hinv : Inv sp s) (hs : SoundOp sp op) : Inv sp (step sp s op).1 := by
  cases op with
  | set ws rs =>
    intro c v hst
    simp only [step] at hst ⊢
    by_cases hc : c ∈ rs
    · simp [hc] at hst
    · simp only [hc, if_false] at hst
      have h1 := hinv c v hst
      rw [h1]
      apply hdep
      intro f hf
      have : f ∉ ws.map Prod.fst := by
        intro hmem
        exact hc (hs c ⟨f, hf, hmem⟩)
      exact (assign_of_not_mem _ _ _ this).symm
  | query c =>
    intro d v hst
    simp only [step] at hst ⊢
    cases hsc : s.stored c with
    | some w =>
      simp only [hsc] at hst ⊢
      exact hinv d v hst
    | none =>
      simp only [hsc] at hst ⊢
      by_cases hd : d = c
      · subst hd
        simp at hst
        exact hst.symm
      · simp only [hd, if_false] at hst
        exact hinv d v hst

-- @site CacheSM.step
/-- under the invariant a query returns the fresh value -/
theorem query_fresh {V : Type} (sp : Spec V) (s : State V) (c : Nat) (hinv : Inv sp s) :
    (step sp s (.query c)).2 = some (sp.init c s.params) := by
  simp only [step]
  cases hsc : s.stored c with
  | some w => simp only; rw [hinv c w hsc]
  | none => rfl

-- @site CacheSM.step
/-- a query never changes the parameters -/
theorem query_params {V : Type} (sp : Spec V) (s : State V) (c : Nat) :
    (step sp s (.query c)).1.params = s.params := by
  simp only [step]
  cases s.stored c <;> rfl

-- @site CacheSM.run
/-- **history theorem**: along every history of sound operations, started in any state satisfying the
    invariant (in particular a freshly constructed object, whose caches are empty), every query returns the
    value a freshly constructed object with the then-current parameters returns. -/
theorem history_fresh {V : Type} (sp : Spec V) (hdep : Dep sp) (ops : List (Op V)) (s : State V)
    (hinv : Inv sp s) (hs : ∀ op ∈ ops, SoundOp sp op) :
    ∀ r ∈ run sp s ops, r.2 = none ∨ r.1 = r.2 := by
  induction ops generalizing s with
  | nil => intro r hr; simp [run] at hr
  | cons op ops ih =>
    intro r hr
    simp only [run, List.mem_cons] at hr
    rcases hr with hr | hr
    · subst hr
      cases op with
      | set ws rs => left; rfl
      | query c => right; exact query_fresh sp s c hinv
    · exact ih (step sp s op).1 (inv_step sp hdep s op hinv (hs op (List.mem_cons_self ..)))
        (fun o ho => hs o (List.mem_cons_of_mem _ ho)) r hr

/-- a fresh object (all caches empty) satisfies the invariant -/
theorem inv_fresh {V : Type} (sp : Spec V) (p : Nat → V) : Inv sp ⟨p, fun _ => none⟩ := by
  intro c v h; simp at h

-- @site CacheSM.step
/-- evaluating one query never changes the result of another: after a query on `c`, a query on `d` still
    returns the fresh value -/
theorem queries_commute {V : Type} (sp : Spec V) (hdep : Dep sp) (s : State V) (c d : Nat) (hinv : Inv sp s) :
    (step sp (step sp s (.query c)).1 (.query d)).2 = some (sp.init d s.params) := by
  have h := query_fresh sp (step sp s (.query c)).1 d (inv_step sp hdep s (.query c) hinv trivial)
  rw [h, query_params]

/-- bridge from the decidable table check to `SoundOp`: the operation induced by a table row -/
theorem soundOp_of_table {V : Type} (sp : Spec V) (reads : List (Nat × List Nat)) (ws : List (Nat × V)) (rs : List Nat)
    (hreads : ∀ c, sp.reads c = (reads.filter (fun cr => cr.1 == c)).flatMap Prod.snd)
    (hrow : reads.all (fun cr => !(cr.2.any (fun f => (ws.map Prod.fst).contains f)) || rs.contains cr.1) = true) :
    SoundOp sp (.set ws rs) := by
  intro c ⟨f, hf, hmem⟩
  rw [hreads c] at hf
  simp only [List.mem_flatMap, List.mem_filter] at hf
  obtain ⟨cr, ⟨hcr, hc⟩, hfc⟩ := hf
  rw [List.all_eq_true] at hrow
  have := hrow cr hcr
  simp only [Bool.or_eq_true, Bool.not_eq_true', List.any_eq_false, List.contains_eq_mem,
    decide_eq_true_eq] at this
  have hc' : cr.1 = c := by simpa using hc
  rcases this with h | h
  · exact absurd hmem (by simpa using h f hfc)
  · simpa [hc'] using h

example : Inv (V := Nat) ⟨fun _ => [0], fun _ p => p 0 + 1⟩ ⟨fun _ => 5, fun _ => none⟩ := inv_fresh _ _

/-! ### Part 2 — the facts extracted from today's source -/
open GenFacts

-- @site Beta
theorem Beta_sound : soundB GenFacts.Beta = true := by decide
-- @site BetaBinomial
theorem BetaBinomial_sound : soundB GenFacts.BetaBinomial = true := by decide
-- @site Gamma
theorem Gamma_sound : soundB GenFacts.Gamma = true := by decide
-- @site Gaussian
theorem Gaussian_sound : soundB GenFacts.Gaussian = true := by decide
-- @site Geometric
theorem Geometric_sound : soundB GenFacts.Geometric = true := by decide
-- @site InvChiSquared
theorem InvChiSquared_sound : soundB GenFacts.InvChiSquared = true := by decide
-- @site InvGaussian
theorem InvGaussian_sound : soundB GenFacts.InvGaussian = true := by decide
-- @site Kumaraswamy
theorem Kumaraswamy_sound : soundB GenFacts.Kumaraswamy = true := by decide
-- @site Mixture
theorem Mixture_sound : soundB GenFacts.Mixture = true := by decide
-- @site MvGaussian
theorem MvGaussian_sound : soundB GenFacts.MvGaussian = true := by decide
-- @site NegBinomial
theorem NegBinomial_sound : soundB GenFacts.NegBinomial = true := by decide
-- @site NormalInvChiSquared
theorem NormalInvChiSquared_sound : soundB GenFacts.NormalInvChiSquared = true := by decide
-- @site Poisson
theorem Poisson_sound : soundB GenFacts.Poisson = true := by decide
-- @site ScaledInvChiSquared
theorem ScaledInvChiSquared_sound : soundB GenFacts.ScaledInvChiSquared = true := by decide
-- @site SymmetricDirichlet
theorem SymmetricDirichlet_sound : soundB GenFacts.SymmetricDirichlet = true := by decide
-- @site Uniform
theorem Uniform_sound : soundB GenFacts.Uniform = true := by decide
-- @site UnitPowerLaw
theorem UnitPowerLaw_sound : soundB GenFacts.UnitPowerLaw = true := by decide
-- @site VonMises
theorem VonMises_sound : soundB GenFacts.VonMises = true := by decide
-- @site Skellam
theorem Skellam_sound : soundB GenFacts.Skellam = true := by decide

/-! equality compares exactly the parameters -/
-- @site Beta
theorem Beta_eq : eqB GenFacts.Beta = true := by decide
-- @site BetaBinomial
theorem BetaBinomial_eq : eqB GenFacts.BetaBinomial = true := by decide
-- @site Gamma
theorem Gamma_eq : eqB GenFacts.Gamma = true := by decide
-- @site Gaussian
theorem Gaussian_eq : eqB GenFacts.Gaussian = true := by decide
-- @site Geometric
theorem Geometric_eq : eqB GenFacts.Geometric = true := by decide
-- @site InvChiSquared
theorem InvChiSquared_eq : eqB GenFacts.InvChiSquared = true := by decide
-- @site InvGaussian
theorem InvGaussian_eq : eqB GenFacts.InvGaussian = true := by decide
-- @site Kumaraswamy
theorem Kumaraswamy_eq : eqB GenFacts.Kumaraswamy = true := by decide
-- @site Mixture
theorem Mixture_eq : eqB GenFacts.Mixture = true := by decide
-- @site MvGaussian
theorem MvGaussian_eq : eqB GenFacts.MvGaussian = true := by decide
-- @site NegBinomial
theorem NegBinomial_eq : eqB GenFacts.NegBinomial = true := by decide
-- @site NormalInvChiSquared
theorem NormalInvChiSquared_eq : eqB GenFacts.NormalInvChiSquared = true := by decide
-- @site Poisson
theorem Poisson_eq : eqB GenFacts.Poisson = true := by decide
-- @site ScaledInvChiSquared
theorem ScaledInvChiSquared_eq : eqB GenFacts.ScaledInvChiSquared = true := by decide
-- @site SymmetricDirichlet
theorem SymmetricDirichlet_eq : eqB GenFacts.SymmetricDirichlet = true := by decide
-- @site Uniform
theorem Uniform_eq : eqB GenFacts.Uniform = true := by decide
-- @site UnitPowerLaw
theorem UnitPowerLaw_eq : eqB GenFacts.UnitPowerLaw = true := by decide
-- @site VonMises
theorem VonMises_eq : eqB GenFacts.VonMises = true := by decide
-- @site Skellam
theorem Skellam_eq : eqB GenFacts.Skellam = true := by decide

/-! ### Part 3 — the operation alphabet is closed
The state machine of Part 1 has two kinds of operations on an object: its `&mut self` setters and queries on `self`
(which fill a cache through `get_or_init`). `history_fresh` quantifies over all histories of THOSE operations; it says
nothing about a function that writes the cache of some OTHER object (an associated function that builds a value and then
assigns `value.cache = …`, or moves a cache out of an argument with `.take()`). The extracted fact
`foreignCacheWrites` lists every such write found in the source of the type; the theorems below state that there is none,
so the alphabet of Part 1 is the whole set of operations that can touch a cache. -/
-- @site Beta
theorem Beta_closed : GenFacts.Beta.foreignCacheWrites = [] := rfl
-- @site BetaBinomial
theorem BetaBinomial_closed : GenFacts.BetaBinomial.foreignCacheWrites = [] := rfl
-- @site Gamma
theorem Gamma_closed : GenFacts.Gamma.foreignCacheWrites = [] := rfl
-- @site Gaussian
theorem Gaussian_closed : GenFacts.Gaussian.foreignCacheWrites = [] := rfl
-- @site Geometric
theorem Geometric_closed : GenFacts.Geometric.foreignCacheWrites = [] := rfl
-- @site InvChiSquared
theorem InvChiSquared_closed : GenFacts.InvChiSquared.foreignCacheWrites = [] := rfl
-- @site InvGaussian
theorem InvGaussian_closed : GenFacts.InvGaussian.foreignCacheWrites = [] := rfl
-- @site Kumaraswamy
theorem Kumaraswamy_closed : GenFacts.Kumaraswamy.foreignCacheWrites = [] := rfl
-- @site Mixture
theorem Mixture_closed : GenFacts.Mixture.foreignCacheWrites = [] := rfl
-- @site MvGaussian
theorem MvGaussian_closed : GenFacts.MvGaussian.foreignCacheWrites = [] := rfl
-- @site NegBinomial
theorem NegBinomial_closed : GenFacts.NegBinomial.foreignCacheWrites = [] := rfl
-- @site NormalInvChiSquared
theorem NormalInvChiSquared_closed : GenFacts.NormalInvChiSquared.foreignCacheWrites = [] := rfl
-- @site Poisson
theorem Poisson_closed : GenFacts.Poisson.foreignCacheWrites = [] := rfl
-- @site ScaledInvChiSquared
theorem ScaledInvChiSquared_closed : GenFacts.ScaledInvChiSquared.foreignCacheWrites = [] := rfl
-- @site Skellam
theorem Skellam_closed : GenFacts.Skellam.foreignCacheWrites = [] := rfl
-- @site StickSequence
theorem StickSequence_closed : GenFacts.StickSequence.foreignCacheWrites = [] := rfl
-- @site SymmetricDirichlet
theorem SymmetricDirichlet_closed : GenFacts.SymmetricDirichlet.foreignCacheWrites = [] := rfl
-- @site Uniform
theorem Uniform_closed : GenFacts.Uniform.foreignCacheWrites = [] := rfl
-- @site UnitPowerLaw
theorem UnitPowerLaw_closed : GenFacts.UnitPowerLaw.foreignCacheWrites = [] := rfl

end C09

#print axioms C09.history_fresh
#print axioms C09.inv_step
#print axioms C09.queries_commute
#print axioms C09.soundOp_of_table
