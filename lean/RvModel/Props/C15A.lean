import RvModel.RealInst
import RvModel.ExtInst
import RvModel.Hand.Mvg
import RvModel.Hand.CacheSM
import RvModel.Lemmas.C15
import Mathlib.LinearAlgebra.Matrix.Trace
import Mathlib.LinearAlgebra.Matrix.NonsingularInverse
import Mathlib.LinearAlgebra.Matrix.Block
import Mathlib.LinearAlgebra.Matrix.Notation
import Mathlib.Analysis.SpecialFunctions.Log.Basic
import Mathlib.Tactic.FieldSimp
import Mathlib.Tactic.Ring
import Mathlib.Tactic.Linarith
import Mathlib.Tactic.FinCases
/-!
  C15 (part A): `MvGaussian` and `MvGaussianSuffStat` — for EVERY dimension `d` (matrices `Matrix (Fin d) (Fin d) ℝ`).

  Two layers (see `Hand/Mvg.lean`, `Lemmas/C15.lean`):
  * abstract layer `C15L.AMvg / AStat`: the formulas of the code — literally the scalar cores `Hand.Mvg.lnFCore`,
    `entropyCore`, `lnFStatCore` that the executable model evaluates, at the carrier `R` — with the cached Cholesky factor
    `L` and the cached inverse characterised by `AMvg.Valid` (`L` lower triangular, positive diagonal, `L Lᵀ = Σ`,
    `Σ⁻¹ Σ = 1`: what `nalgebra::Cholesky` establishes — TRUSTED);
  * executable layer `Hand.Mvg.MvGaussian` (lists): validation ladders, cache refresh, history independence; these
    theorems hold for every carrier `[RealLike α]`.
  `-- @site` names the Rust function a theorem is about.
-/
open Matrix Hand.Mvg C15L Real

namespace C15
variable {d : ℕ}

/-! ## density, entropy, draws -/

-- @site MvGaussian::ln_f
/-- the code's `−½(ln(∏Lᵢᵢ)² + d·ln 2π + (x−μ)ᵀ·cov_inv·(x−μ))` is the textbook log-density -/
theorem mvg_ln_f_eq (g : AMvg d) (h : g.Valid) (x : V d) :
    g.lnF x = -(1 / 2 : ℝ) * ((d : ℝ) * Real.log (2 * π) + Real.log g.cov.det
                + (x - g.mu) ⬝ᵥ (g.cov⁻¹ *ᵥ (x - g.mu))) := by
  rw [← inv_eq h, ← quadA_eq, det_cov h]
  simp only [AMvg.lnF, lnFCore, mulAdd, R.add_val, R.mul_val, R.neg_val, R.ln_val, R.sci_val, R.ofNatR_val, R.ln2Pi_val]
  rw [pow_two]
  norm_num
  ring

-- @site MvGaussian::entropy
/-- `½ ln det Σ + d/2 (1 + ln 2π)` -/
theorem mvg_entropy_eq (g : AMvg d) (h : g.Valid) :
    g.entropy = (1 / 2 : ℝ) * Real.log g.cov.det + (d : ℝ) / 2 * (1 + Real.log (2 * π)) := by
  rw [det_cov h]
  simp only [AMvg.entropy, entropyCore, mulAdd, R.add_val, R.mul_val, R.ln_val, R.sci_val, R.ofNatR_val, R.halfLn2PiE_val]
  have : Real.log (2 * π * Real.exp 1) = Real.log (2 * π) + 1 := by
    rw [Real.log_mul (by positivity) (Real.exp_pos 1).ne', Real.log_exp]
  rw [this, pow_two]
  norm_num
  ring

-- @site MvGaussian::draw
/-- the loop `μᵢ + Σ_{j ≤ i} Lᵢⱼ zⱼ` is `μ + L z` (the entries above the diagonal are never read) -/
theorem mvg_draw_eq (g : AMvg d) (h : g.Valid) (z : V d) : g.drawZ z = g.mu + g.L *ᵥ z := by
  funext i
  simp only [AMvg.drawZ, Pi.add_apply, mulVec, dotProduct]
  congr 1
  rw [Finset.sum_filter]
  refine Finset.sum_congr rfl fun j _ => ?_
  split_ifs with hj
  · rfl
  · rw [h.lower i j (not_le.mp hj), zero_mul]

-- @site MvGaussian::draw
/-- `z ↦ μ + L z` maps covariance `1` to `L·1·Lᵀ = Σ` -/
theorem mvg_draw_cov (g : AMvg d) (h : g.Valid) : g.L * (1 : Mx d) * g.Lᵀ = g.cov := by
  rw [Matrix.mul_one, h.chol]

-- @site MvGaussian::draw
/-- the scatter of a draw about `μ` is the image of the scatter of its variates: `(x−μ)(x−μ)ᵀ = L (z zᵀ) Lᵀ`
    (so variates of covariance `1` give draws of covariance `Σ`) -/
theorem mvg_draw_outer (g : AMvg d) (h : g.Valid) (z : V d) :
    vecMulVec (g.drawZ z - g.mu) (g.drawZ z - g.mu) = g.L * vecMulVec z z * g.Lᵀ := by
  rw [mvg_draw_eq g h, add_sub_cancel_left, mul_vecMulVec, vecMulVec_mul, vecMul_transpose]

/-- a concrete valid object (d = 2, correlated): `L = [[2,0],[1,3]]`, `Σ = L Lᵀ = [[4,2],[2,10]]`, `Σ⁻¹ = [[10,−2],[−2,4]]/36` -/
noncomputable def exMvg : AMvg 2 :=
  { mu := ![1, -2], cov := !![4, 2; 2, 10], L := !![2, 0; 1, 3], inv := !![10/36, -2/36; -2/36, 4/36] }

theorem exMvg_valid : exMvg.Valid := by
  refine ⟨?_, ?_, ?_, ?_⟩
  · intro i j hij; fin_cases i <;> fin_cases j <;> simp_all [exMvg]
  · intro i; fin_cases i <;> simp [exMvg]
  · ext i j; fin_cases i <;> fin_cases j <;> simp [exMvg, Matrix.mul_apply, Fin.sum_univ_two] <;> norm_num
  · ext i j; fin_cases i <;> fin_cases j <;> simp [exMvg, Matrix.mul_apply, Fin.sum_univ_two] <;> norm_num

example : ∃ g : AMvg 2, g.Valid := ⟨exMvg, exMvg_valid⟩

example : (2 : ℝ) * π ≠ 0 := by positivity

/-! ## the sufficient statistic: `new / observe / forget` against the data, scatter identity, `ln_f_stat` -/

-- @site MvGaussianSuffStat::observe
/-- observing the data one by one from `new` gives `n = |xs|`, `sum_x = Σ x`, `sum_x_sq = Σ x xᵀ` — the `n == 1` branch
    (assignment instead of `+=`) included -/
theorem stat_of_data (xs : List (V d)) :
    (AStat.ofData xs).n = xs.length ∧ (AStat.ofData xs).sumx = xs.sum
      ∧ (AStat.ofData xs).sumxsq = (xs.map fun x => vecMulVec x x).sum := AStat.abs_ofData xs

-- @site MvGaussianSuffStat::observe
theorem stat_observe (s : AStat d) (xs : List (V d)) (h : s.Abs xs) (x : V d) : (s.observe x).Abs (xs ++ [x]) :=
  AStat.abs_observe h x

-- @site MvGaussianSuffStat::forget
/-- forgetting an observed datum gives the statistic of the remaining data — the reset branch (`n` reaches 0) included -/
theorem stat_forget (s : AStat d) (xs : List (V d)) (h : s.Abs xs) (x : V d) (hx : x ∈ xs) :
    (s.forget x).Abs (xs.erase x) := AStat.abs_forget h x hx

-- @site MvGaussianSuffStat::forget
/-- forgetting everything that was observed gives back exactly `new` -/
theorem stat_forget_all (x : V d) : ((AStat.new : AStat d).observe x).forget x = AStat.new := by
  simp [AStat.observe, AStat.forget, AStat.new]

example : (AStat.ofData [![1, 2], ![3, (4:ℝ)]]).n = 2 := (stat_of_data _).1

-- @site MvGaussian::ln_f_stat
/-- scatter identity: `Σᵢ (xᵢ−μ)(xᵢ−μ)ᵀ = S + n (x̄−μ)(x̄−μ)ᵀ` with `S = Σ xᵢxᵢᵀ − n x̄ x̄ᵀ`, `x̄ = (Σ xᵢ)/n` -/
theorem scatter_identity (xs : List (V d)) (hxs : xs ≠ []) (μ : V d) :
    let n : ℝ := xs.length
    let xbar : V d := n⁻¹ • xs.sum
    let S : Mx d := (xs.map fun x => vecMulVec x x).sum - n • vecMulVec xbar xbar
    (xs.map fun x => vecMulVec (x - μ) (x - μ)).sum = S + n • vecMulVec (xbar - μ) (xbar - μ) :=
  C15L.scatter_identity xs hxs μ

example : ([![1, 2], ![3, (4:ℝ)]] : List (V 2)) ≠ [] := by simp

private theorem list_sum_affine {β : Type} (xs : List β) (a b : ℝ) (f : β → ℝ) :
    (xs.map fun x => a * (b + f x)).sum = a * ((xs.length : ℝ) * b + (xs.map f).sum) := by
  induction xs with
  | nil => simp
  | cons x xs ih => simp only [List.map_cons, List.sum_cons, ih, List.length_cons, Nat.cast_add, Nat.cast_one]; ring

-- @site MvGaussian::ln_f_stat
/-- the sufficient-statistic likelihood is the sum of the pointwise log-densities, for EVERY data set: `n = 0` (early
    return `0.0` = the empty sum, `mvg.rs:504-506`), `n = 1` and `n ≥ 2` -/
theorem mvg_ln_f_stat_eq (g : AMvg d) (h : g.Valid) (xs : List (V d)) :
    g.lnFStat (AStat.ofData xs) = (xs.map g.lnF).sum := by
  obtain ⟨hn, h1, h2⟩ := AStat.abs_ofData xs
  rcases List.eq_nil_or_concat xs with hnil | ⟨ys, y, hcons⟩
  · subst hnil
    simp only [AMvg.lnFStat, AStat.ofData, List.foldl_nil, AStat.new, if_true, List.map_nil, List.sum_nil]
    exact zero_val
  have hxs : xs ≠ [] := by rw [hcons]; simp
  have hn0 : (AStat.ofData xs).n ≠ 0 := by
    rw [hn]; exact fun h0 => hxs (List.length_eq_zero_iff.mp h0)
  have hq : (xs.map fun x => quadA g.inv (x - g.mu)).sum
      = trace (g.inv * ((xs.map fun x => vecMulVec x x).sum - (xs.length : ℝ)⁻¹ • vecMulVec xs.sum xs.sum))
        + (xs.length : ℝ) * quadA g.inv ((xs.length : ℝ)⁻¹ • xs.sum - g.mu) := by
    have := sum_quadA g.inv (xs.map fun x => x - g.mu)
    simp only [List.map_map, Function.comp_def] at this
    rw [this, scatter_identity xs hxs g.mu, ← sigmaHat_eq xs hxs, Matrix.mul_add, trace_add, Matrix.mul_smul,
      trace_smul, ← quadA_trace, smul_eq_mul]
  have hlog : Real.log (detSqrtA g.L * detSqrtA g.L) = cholLnDetA g.L := by
    rw [cholLnDetA_eq h, det_cov h, pow_two]
  have e : (xs.map g.lnF).sum
      = (xs.map fun x => (-(1/2 : ℝ)) * ((Real.log (detSqrtA g.L * detSqrtA g.L) + (d : ℝ) * Real.log (2 * π))
            + quadA g.inv (x - g.mu))).sum := by
    congr 1
    refine List.map_congr_left fun x _ => ?_
    simp only [AMvg.lnF, lnFCore, mulAdd, R.add_val, R.mul_val, R.neg_val, R.ln_val, R.sci_val, R.ofNatR_val,
      R.ln2Pi_val]
    norm_num
    ring
  rw [e, list_sum_affine, hq, hlog]
  unfold AMvg.lnFStat
  rw [if_neg hn0]
  simp only [lnFStatCore, mulAdd, R.add_val, R.mul_val, R.neg_val, R.div_val, R.sci_val, R.ofNatR_val,
    R.ln2Pi_val, hn, h1, h2]
  norm_num
  ring

-- @site MvGaussian::ln_f_stat
/-- REPAIRED (commit ed8aba1; before: `x_bar = sum_x / 0 = NaN`): on the empty statistic `ln_f_stat` returns `0.0` — executable
    model, EVERY carrier (so also `Float` and `X`: no NaN), whatever the parameters and the cache -/
theorem mvg_ln_f_stat_empty {α : Type} [RealLike α] (g : MvGaussian α) (s : MvGaussianSuffStat α) (h : s.n = 0) :
    g.ln_f_stat s = (0.0 : α) := by
  simp [MvGaussian.ln_f_stat, h]

-- @site MvGaussian::ln_f_stat
/-- the former witness (`mvg.ln_f_stat - L1 x0000000000000000 1 1 L1 x3ff0000000000000 0 1 L0`, was `xNaN`) on the carrier `X` -/
theorem mvg_ln_f_stat_empty_X :
    (MvGaussian.ln_f_stat (⟨[X.fin 0], [[X.fin 1]], ⟨[[X.fin 1]], [[X.fin 1]]⟩⟩ : MvGaussian X)
        (MvGaussianSuffStat.new 1)) = X.fin 0 := by
  rw [mvg_ln_f_stat_empty _ _ rfl, X.sci_eq]; norm_num

-- @site MvGaussian::ln_f_stat
/-- abstract layer: the empty statistic has log-likelihood `0` -/
theorem mvg_ln_f_stat_new (g : AMvg d) : g.lnFStat AStat.new = 0 := by
  simp only [AMvg.lnFStat, AStat.new, if_true]; exact zero_val

example : ((MvGaussianSuffStat.new 3 : MvGaussianSuffStat X)).n = 0 := rfl

section Validation
variable {α : Type} [RealLike α]

/-! ## validation ladders and the cache (executable model, every carrier) -/

-- @site MvGaussian::new
/-- `MvGaussian::new`: the complete decision ladder -/
theorem mvg_new_ladder (mu : Vec α) (cov : Mat α) :
    (nrows cov ≠ ncols cov →
        MvGaussian.new mu cov = .error (Err.mk "CovNotSquare" [RealLike.ofNatR (nrows cov), RealLike.ofNatR (ncols cov)]))
    ∧ (nrows cov = ncols cov → mu.length ≠ nrows cov →
        MvGaussian.new mu cov
          = .error (Err.mk "MuCovDimensionMismatch" [RealLike.ofNatR mu.length, RealLike.ofNatR (nrows cov)]))
    ∧ (nrows cov = ncols cov → mu.length = nrows cov → cholesky cov = none →
        MvGaussian.new mu cov = .error (Err.mk "CovNotPositiveSemiDefinite" []))
    ∧ (∀ l, nrows cov = ncols cov → mu.length = nrows cov → cholesky cov = some l →
        MvGaussian.new mu cov = .ok ⟨mu, cov, ⟨l, cholInverse l⟩⟩) := by
  refine ⟨fun h => ?_, fun h1 h2 => ?_, fun h1 h2 h3 => ?_, fun l h1 h2 h3 => ?_⟩
  all_goals
    simp only [MvGaussian.new, MvgCache.from_cov]
    split_ifs <;> first | rfl | (exfalso; omega) | simp_all

-- @site MvGaussian::new
/-- `MvGaussian::new` succeeds exactly on square matrices of the dimension of `mu` that the Cholesky routine accepts -/
theorem mvg_new_ok_iff (mu : Vec α) (cov : Mat α) :
    (∃ g, MvGaussian.new mu cov = .ok g)
      ↔ nrows cov = ncols cov ∧ mu.length = nrows cov ∧ (cholesky cov).isSome = true := by
  obtain ⟨h1, h2, h3, h4⟩ := mvg_new_ladder mu cov
  constructor
  · rintro ⟨g, hg⟩
    by_cases a : nrows cov = ncols cov
    · by_cases b : mu.length = nrows cov
      · cases c : cholesky cov with
        | none => rw [h3 a b c] at hg; cases hg
        | some l => exact ⟨a, b, rfl⟩
      · rw [h2 a b] at hg; cases hg
    · rw [h1 a] at hg; cases hg
  · rintro ⟨a, b, c⟩
    obtain ⟨l, hl⟩ := Option.isSome_iff_exists.mp c
    exact ⟨_, h4 l a b hl⟩

-- @site MvGaussian::set_cov
/-- `set_cov` as a state transformer (object after the call, result): ladder.  On every error path the object after the
    call IS the object before the call; on success the cache is the one of the new matrix.
    (Dimension mismatch is tested BEFORE squareness, the other way round in `new`.) -/
theorem mvg_set_cov_st_ladder (g : MvGaussian α) (cov : Mat α) :
    (g.mu.length ≠ nrows cov →
        g.set_cov_st cov
          = (g, .error (Err.mk "MuCovDimensionMismatch" [RealLike.ofNatR g.mu.length, RealLike.ofNatR (nrows cov)])))
    ∧ (g.mu.length = nrows cov → nrows cov ≠ ncols cov →
        g.set_cov_st cov = (g, .error (Err.mk "CovNotSquare" [RealLike.ofNatR (nrows cov), RealLike.ofNatR (ncols cov)])))
    ∧ (g.mu.length = nrows cov → nrows cov = ncols cov → cholesky cov = none →
        g.set_cov_st cov = (g, .error (Err.mk "CovNotPositiveSemiDefinite" [])))
    ∧ (∀ l, g.mu.length = nrows cov → nrows cov = ncols cov → cholesky cov = some l →
        g.set_cov_st cov = (⟨g.mu, cov, ⟨l, cholInverse l⟩⟩, .ok ())) := by
  refine ⟨fun h => ?_, fun h1 h2 => ?_, fun h1 h2 h3 => ?_, fun l h1 h2 h3 => ?_⟩
  all_goals
    simp only [MvGaussian.set_cov_st, MvgCache.from_cov]
    split_ifs <;> first | rfl | (exfalso; omega) | simp_all

-- @site MvGaussian::set_cov
/-- a FAILING `set_cov` leaves the object unchanged (mu, cov and cache): validation precedes every assignment -/
theorem mvg_set_cov_err_unchanged (g : MvGaussian α) (cov : Mat α) (e : Err α)
    (h : (g.set_cov_st cov).2 = .error e) : (g.set_cov_st cov).1 = g := by
  obtain ⟨h1, h2, h3, h4⟩ := mvg_set_cov_st_ladder g cov
  by_cases a : g.mu.length = nrows cov
  · by_cases b : nrows cov = ncols cov
    · cases c : cholesky cov with
      | none => rw [h3 a b c]
      | some l => rw [h4 l a b c] at h; cases h
    · rw [h2 a b]
  · rw [h1 a]

-- @site MvGaussian::set_mu
/-- `set_mu` as a state transformer: ladder -/
theorem mvg_set_mu_st_ladder (g : MvGaussian α) (mu : Vec α) :
    (mu.length ≠ nrows g.cov →
        g.set_mu_st mu
          = (g, .error (Err.mk "MuCovDimensionMismatch" [RealLike.ofNatR mu.length, RealLike.ofNatR (nrows g.cov)])))
    ∧ (mu.length = nrows g.cov → g.set_mu_st mu = (⟨mu, g.cov, g.cache⟩, .ok ())) := by
  refine ⟨fun h => ?_, fun h => ?_⟩
  all_goals
    simp only [MvGaussian.set_mu_st]
    split_ifs <;> first | rfl | (exfalso; omega)

-- @site MvGaussian::set_mu
/-- a FAILING `set_mu` leaves the object unchanged -/
theorem mvg_set_mu_err_unchanged (g : MvGaussian α) (mu : Vec α) (e : Err α)
    (h : (g.set_mu_st mu).2 = .error e) : (g.set_mu_st mu).1 = g := by
  obtain ⟨h1, h2⟩ := mvg_set_mu_st_ladder g mu
  by_cases a : mu.length = nrows g.cov
  · rw [h2 a] at h; cases h
  · rw [h1 a]

-- @site MvGaussian::set_cov
/-- `set_cov` in the `Except` convention: ladder -/
theorem mvg_set_cov_ladder (g : MvGaussian α) (cov : Mat α) :
    (g.mu.length ≠ nrows cov →
        g.set_cov cov = .error (Err.mk "MuCovDimensionMismatch" [RealLike.ofNatR g.mu.length, RealLike.ofNatR (nrows cov)]))
    ∧ (g.mu.length = nrows cov → nrows cov ≠ ncols cov →
        g.set_cov cov = .error (Err.mk "CovNotSquare" [RealLike.ofNatR (nrows cov), RealLike.ofNatR (ncols cov)]))
    ∧ (g.mu.length = nrows cov → nrows cov = ncols cov → cholesky cov = none →
        g.set_cov cov = .error (Err.mk "CovNotPositiveSemiDefinite" []))
    ∧ (∀ l, g.mu.length = nrows cov → nrows cov = ncols cov → cholesky cov = some l →
        g.set_cov cov = .ok ⟨g.mu, cov, ⟨l, cholInverse l⟩⟩) := by
  obtain ⟨h1, h2, h3, h4⟩ := mvg_set_cov_st_ladder g cov
  refine ⟨fun a => ?_, fun a b => ?_, fun a b c => ?_, fun l a b c => ?_⟩
  · simp only [MvGaussian.set_cov, h1 a]
  · simp only [MvGaussian.set_cov, h2 a b]
  · simp only [MvGaussian.set_cov, h3 a b c]
  · simp only [MvGaussian.set_cov, h4 l a b c]

-- @site MvGaussian::set_mu
/-- `set_mu`: ladder -/
theorem mvg_set_mu_ladder (g : MvGaussian α) (mu : Vec α) :
    (mu.length ≠ nrows g.cov →
        g.set_mu mu = .error (Err.mk "MuCovDimensionMismatch" [RealLike.ofNatR mu.length, RealLike.ofNatR (nrows g.cov)]))
    ∧ (mu.length = nrows g.cov → g.set_mu mu = .ok ⟨mu, g.cov, g.cache⟩) := by
  obtain ⟨h1, h2⟩ := mvg_set_mu_st_ladder g mu
  refine ⟨fun a => ?_, fun a => ?_⟩
  · simp only [MvGaussian.set_mu, h1 a]
  · simp only [MvGaussian.set_mu, h2 a]

/-! ### cache coherence (C09-style): after ANY history of setters the object is the freshly constructed one -/

/-- dimensions agree and the cache is what `MvgCache::from_cov` computes from the CURRENT covariance -/
def MvgWF (g : MvGaussian α) : Prop :=
  nrows g.cov = ncols g.cov ∧ g.mu.length = nrows g.cov ∧ ∃ l, cholesky g.cov = some l ∧ g.cache = ⟨l, cholInverse l⟩

-- @site MvGaussian::new
theorem mvg_new_wf (mu : Vec α) (cov : Mat α) (g : MvGaussian α) (h : MvGaussian.new mu cov = .ok g) : MvgWF g := by
  obtain ⟨a, b, c⟩ := (mvg_new_ok_iff mu cov).mp ⟨g, h⟩
  obtain ⟨l, hl⟩ := Option.isSome_iff_exists.mp c
  rw [(mvg_new_ladder mu cov).2.2.2 l a b hl] at h
  cases h
  exact ⟨a, b, l, hl, rfl⟩

-- @site MvgCache::from_cov
/-- a well-formed object IS the result of the checked constructor on its current parameters -/
theorem mvg_wf_eq_new (g : MvGaussian α) (h : MvgWF g) : MvGaussian.new g.mu g.cov = .ok g := by
  obtain ⟨a, b, l, hl, hc⟩ := h
  rw [(mvg_new_ladder g.mu g.cov).2.2.2 l a b hl]
  cases g; simp_all

-- @site MvGaussian::set_cov
/-- `set_cov` REPLACES the cached Cholesky factor and inverse by those of the new matrix -/
theorem mvg_set_cov_refreshes (g g' : MvGaussian α) (cov : Mat α) (_hg : MvgWF g) (h : g.set_cov cov = .ok g') :
    g'.mu = g.mu ∧ g'.cov = cov ∧ MvgWF g' ∧ MvGaussian.new g.mu cov = .ok g' := by
  obtain ⟨h1, h2, h3, h4⟩ := mvg_set_cov_ladder g cov
  by_cases a : g.mu.length = nrows cov
  · by_cases b : nrows cov = ncols cov
    · cases c : cholesky cov with
      | none => rw [h3 a b c] at h; cases h
      | some l =>
        rw [h4 l a b c] at h
        cases h
        refine ⟨rfl, rfl, ⟨b, a, l, c, rfl⟩, ?_⟩
        rw [(mvg_new_ladder g.mu cov).2.2.2 l b a c]
    · rw [h2 a b] at h; cases h
  · rw [h1 a] at h; cases h

-- @site MvGaussian::set_mu
theorem mvg_set_mu_preserves (g g' : MvGaussian α) (mu : Vec α) (hg : MvgWF g) (h : g.set_mu mu = .ok g') :
    g'.mu = mu ∧ g'.cov = g.cov ∧ g'.cache = g.cache ∧ MvgWF g' := by
  obtain ⟨h1, h2⟩ := mvg_set_mu_ladder g mu
  by_cases a : mu.length = nrows g.cov
  · rw [h2 a] at h; cases h
    obtain ⟨p, _, q⟩ := hg
    exact ⟨rfl, rfl, rfl, p, a, q⟩
  · rw [h1 a] at h; cases h

/-- a setter call: `set_mu v` or `set_cov m`; `apply` is the object AFTER the call, whether it succeeded or failed
    (first component of the state transformers) -/
inductive MvgOp (α : Type) where
  | setMu (mu : Vec α)
  | setCov (cov : Mat α)

def MvgOp.apply (g : MvGaussian α) : MvgOp α → MvGaussian α
  | .setMu mu => (g.set_mu_st mu).1
  | .setCov cov => (g.set_cov_st cov).1

-- @site MvGaussian::set_cov
/-- one setter call (successful or failing) preserves well-formedness -/
theorem mvg_op_wf (g : MvGaussian α) (hg : MvgWF g) (op : MvgOp α) : MvgWF (op.apply g) := by
  cases op with
  | setMu mu =>
    simp only [MvgOp.apply]
    obtain ⟨h1, h2⟩ := mvg_set_mu_st_ladder g mu
    by_cases a : mu.length = nrows g.cov
    · rw [h2 a]; obtain ⟨p, _, q⟩ := hg; exact ⟨p, a, q⟩
    · rw [h1 a]; exact hg
  | setCov cov =>
    simp only [MvgOp.apply]
    obtain ⟨h1, h2, h3, h4⟩ := mvg_set_cov_st_ladder g cov
    by_cases a : g.mu.length = nrows cov
    · by_cases b : nrows cov = ncols cov
      · cases c : cholesky cov with
        | none => rw [h3 a b c]; exact hg
        | some l => rw [h4 l a b c]; exact ⟨b, a, l, c, rfl⟩
      · rw [h2 a b]; exact hg
    · rw [h1 a]; exact hg

-- @site MvGaussian::set_cov
/-- history independence: after any sequence of (successful or failing) `set_mu` / `set_cov` calls the object equals
    `MvGaussian::new` of its current parameters — every query (`ln_f`, `entropy`, `draw`, `ln_f_stat`, `cov()`, `==`)
    therefore answers as the fresh object does -/
theorem mvg_history_fresh (g : MvGaussian α) (hg : MvgWF g) (ops : List (MvgOp α)) :
    let g' := ops.foldl MvgOp.apply g
    MvGaussian.new g'.mu g'.cov = .ok g' := by
  intro g'
  apply mvg_wf_eq_new
  show MvgWF (ops.foldl MvgOp.apply g)
  induction ops generalizing g with
  | nil => exact hg
  | cons op ops ih => rw [List.foldl_cons]; exact ih _ (mvg_op_wf g hg op)

end Validation

-- @site MvGaussian::set_cov
/-- the facts extracted from `dist/mvg.rs` on every run (`Gen/Facts.lean`): every setter that writes `cov` resets the
    cache (the fact `C09.MvGaussian_sound` is about) -/
theorem mvg_cache_facts_sound : GenFacts.soundB GenFacts.MvGaussian = true := by decide

-- @site MvGaussian::set_cov
/-- the two ladders test in different orders: a `3 × 2` matrix for a 2-vector is `CovNotSquare` for `new` but
    `MuCovDimensionMismatch` for `set_cov` (both reject; only the reported variant differs) -/
theorem mvg_new_vs_set_cov_order (g : MvGaussian R) (hg : g.mu.length = 2) :
    (MvGaussian.new g.mu ([[⟨1⟩, ⟨0⟩], [⟨0⟩, ⟨1⟩], [⟨0⟩, ⟨0⟩]] : Mat R)
        = .error (Err.mk "CovNotSquare" [RealLike.ofNatR 3, RealLike.ofNatR 2]))
    ∧ (g.set_cov ([[⟨1⟩, ⟨0⟩], [⟨0⟩, ⟨1⟩], [⟨0⟩, ⟨0⟩]] : Mat R)
        = .error (Err.mk "MuCovDimensionMismatch" [RealLike.ofNatR 2, RealLike.ofNatR 3])) := by
  constructor
  · exact (mvg_new_ladder _ _).1 (by simp [nrows, ncols])
  · have := (mvg_set_cov_ladder g ([[⟨1⟩, ⟨0⟩], [⟨0⟩, ⟨1⟩], [⟨0⟩, ⟨0⟩]] : Mat R)).1 (by simp [nrows, hg])
    rw [this, hg]; rfl

-- @site MvgCache::from_cov
/-- the pivot test of the Cholesky routine on exact reals: a pivot is accepted iff it is `> 0` -/
theorem sqrtDenom_R (v : R) : sqrtDenom v = none ↔ v.val ≤ 0 := by
  unfold sqrtDenom
  have h0 : ((0.0 : R)).val = 0 := zero_val
  by_cases h1 : v.val = 0
  · have : RealLike.feq v (0.0 : R) = true := by rw [R.feq_iff, h0]; exact h1
    simp [this, h1]
  · have : ¬ (RealLike.feq v (0.0 : R) = true) := by rw [R.feq_iff, h0]; exact h1
    by_cases h2 : (0:ℝ) ≤ v.val
    · have h3 : RealLike.ge v (0.0 : R) = true := by show RealLike.le (0.0 : R) v = true; rw [R.le_iff, h0]; exact h2
      simp only [this, h3, if_true]
      constructor
      · intro h; cases h
      · intro h; exact absurd (le_antisymm h h2) h1
    · have h3 : ¬ (RealLike.ge v (0.0 : R) = true) := by
        show ¬ (RealLike.le (0.0 : R) v = true); rw [R.le_iff, h0]; exact h2
      simp only [this, h3]
      constructor
      · intro _; linarith
      · intro _; trivial

-- @site MvgCache::from_cov
/-- … and a NaN pivot is rejected (carrier `X`) -/
theorem sqrtDenom_nan : sqrtDenom (X.nan : X) = none := by
  simp [sqrtDenom, RealLike.ge]

private theorem foldl_none {β γ : Type} (f : Option γ → β → Option γ) (hf : ∀ b, f none b = none) (xs : List β) :
    xs.foldl f none = none := by
  induction xs with
  | nil => rfl
  | cons x xs ih => rw [List.foldl_cons, hf, ih]

-- @site MvGaussian::new
/-- a matrix whose first diagonal entry is not positive is rejected, in every dimension -/
theorem cholesky_first_pivot (r : List R) (rest : Mat R) (h : (idxR r 0).val ≤ 0) :
    cholesky (r :: rest) = none := by
  have h1 : cholRow ([] : List (List R)) r = none := by
    simp [cholRow, (sqrtDenom_R _).mpr h]
  unfold cholesky
  rw [List.foldl_cons]
  simp only [h1]
  rw [foldl_none]
  intro b; rfl

-- @site MvGaussian::new
/-- dimension 1: `MvGaussian::new([m], [[v]])` succeeds iff `v > 0` -/
theorem mvg_new_1d (m v : R) : (∃ g, MvGaussian.new [m] [[v]] = .ok g) ↔ 0 < v.val := by
  rw [mvg_new_ok_iff]
  have hc : (cholesky ([[v]] : Mat R)).isSome = true ↔ 0 < v.val := by
    have e : idxR [v] 0 = v := rfl
    by_cases h : v.val ≤ 0
    · rw [cholesky_first_pivot [v] [] (by rw [e]; exact h)]
      simp only [Option.isSome_none, Bool.false_eq_true, false_iff, not_lt]; exact h
    · obtain ⟨s, hs⟩ := Option.ne_none_iff_exists'.mp (fun hn => h ((sqrtDenom_R v).mp hn))
      have : cholesky ([[v]] : Mat R) = some [[s]] := by
        simp [cholesky, cholRow, e, hs, nrows]
      rw [this]; simp only [Option.isSome_some, true_iff]; exact not_le.mp h
  simp [nrows, ncols, hc]

example : ∃ g, MvGaussian.new [(⟨0.3⟩ : R)] [[⟨2⟩]] = .ok g := (mvg_new_1d _ _).mpr (by norm_num)

private theorem sqrtDenom_one_X : sqrtDenom (X.fin 1) = some (X.fin 1) := by
  simp [sqrtDenom, RealLike.ge, show (0.0:ℝ) = 0 by norm_num]

-- @site MvGaussian::new
/-- DEFECT (validation gap): the positive-definiteness test is nalgebra's Cholesky, which reads ONLY the lower triangle:
    a matrix whose upper triangle is arbitrary — here NaN — is accepted, and `cov()` / `variance()` return it unchanged.
    Confirmed on the real code: `mvg.new - L2 x0… x0… 2 2 L4 x3ff0000000000000 xNaN x0000000000000000 x3ff0000000000000` ↦ `ok`
    (likewise with `100.0` in place of NaN: an asymmetric "covariance"). -/
theorem mvg_new_upper_triangle_counterexample :
    ∃ g, MvGaussian.new [X.fin 0, X.fin 0] [[X.fin 1, X.nan], [X.fin 0, X.fin 1]] = .ok g
      ∧ g.variance = some [[X.fin 1, X.nan], [X.fin 0, X.fin 1]] := by
  have hc : cholesky ([[X.fin 1, X.nan], [X.fin 0, X.fin 1]] : Mat X) = some [[X.fin 1, X.fin 0], [X.fin 0, X.fin 1]] := by
    simp [cholesky, cholRow, idxR, nrows, sqrtDenom_one_X, List.range_succ, show (0.0:ℝ) = 0 by norm_num]
  refine ⟨_, (mvg_new_ladder _ _).2.2.2 _ (by simp [nrows, ncols]) (by simp [nrows]) hc, rfl⟩
-- @site MvGaussian::mean
/-- `mean`, `mode`, `variance` return the parameters -/
theorem mvg_mean_variance {α : Type} [RealLike α] (g : MvGaussian α) :
    g.mean = some g.mu ∧ g.mode = some g.mu ∧ g.variance = some g.cov := ⟨rfl, rfl, rfl⟩

example : ∃ cov : Mat R, nrows cov ≠ ncols cov := ⟨[[⟨1⟩, ⟨2⟩]], by simp [nrows, ncols]⟩

/-! ## tie: the executable model at the carrier `R` IS the abstract layer (the cache contents being given) -/

-- @site MvGaussian::ln_f
/-- `Hand.Mvg.MvGaussian.ln_f` on the list encoding of `(μ, Σ, L, Σ⁻¹)` and `x` is the abstract `lnF` -/
theorem exec_ln_f (g : AMvg d) (x : V d) : (g.toExec.ln_f (toVec x)).val = g.lnF x := ln_f_bridge g x

-- @site MvGaussian::ln_f
/-- hence the executable `ln_f` is the textbook density whenever the cache holds a Cholesky factor and the inverse -/
theorem exec_ln_f_eq (g : AMvg d) (h : g.Valid) (x : V d) :
    (g.toExec.ln_f (toVec x)).val
      = -(1 / 2 : ℝ) * ((d : ℝ) * Real.log (2 * π) + Real.log g.cov.det + (x - g.mu) ⬝ᵥ (g.cov⁻¹ *ᵥ (x - g.mu))) := by
  rw [exec_ln_f, mvg_ln_f_eq g h]

-- @site MvGaussian::entropy
theorem exec_entropy (g : AMvg d) : g.toExec.entropy.val = g.entropy := entropy_bridge g

-- @site MvGaussian::draw
theorem exec_draw_z (g : AMvg d) (z : V d) : g.toExec.draw_z (toVec z) = toVec (g.drawZ z) := draw_z_bridge g z

-- @site MvGaussianSuffStat::observe
theorem exec_stat_of_data (xs : List (V d)) :
    (MvGaussianSuffStat.new d : MvGaussianSuffStat R).observe_many (xs.map toVec) = (AStat.ofData xs).toExec :=
  stat_ofData_bridge xs

-- @site MvGaussianSuffStat::forget
theorem exec_stat_forget (s : AStat d) (x : V d) : s.toExec.forget (toVec x) = (s.forget x).toExec :=
  stat_forget_bridge s x

-- @site MvGaussian::ln_f_stat
theorem exec_ln_f_stat (g : AMvg d) (s : AStat d) : (g.toExec.ln_f_stat s.toExec).val = g.lnFStat s :=
  ln_f_stat_bridge g s

-- @site MvGaussian::ln_f_stat
/-- statement purely about the executable model: `ln_f_stat` of the observed statistic = `Σ ln_f` over the data -/
theorem exec_ln_f_stat_eq_sum (g : AMvg d) (h : g.Valid) (xs : List (V d)) :
    (g.toExec.ln_f_stat ((MvGaussianSuffStat.new d).observe_many (xs.map toVec))).val
      = (xs.map fun x => (g.toExec.ln_f (toVec x)).val).sum := by
  rw [exec_stat_of_data, exec_ln_f_stat, mvg_ln_f_stat_eq g h xs]
  congr 1
  exact List.map_congr_left fun x _ => (exec_ln_f g x).symm

/-! ## the Cholesky constructors, `emit_params` / `from_params` -/

section Ctors
variable {α : Type} [RealLike α]

-- @site MvGaussian::new_cholesky_unchecked
/-- both Cholesky constructors report the covariance `l() · l()ᵀ` and carry the cache of the supplied factor: whenever the
    checked one succeeds it returns exactly the object of the unchecked one -/
theorem mvg_new_cholesky_agree (mu : Vec α) (l : Mat α) (g : MvGaussian α) (h : MvGaussian.new_cholesky mu l = .ok g) :
    g = MvGaussian.new_cholesky_unchecked mu l := by
  simp only [MvGaussian.new_cholesky] at h
  split_ifs at h
  cases h
  rfl

-- @site MvGaussian::new_cholesky
/-- `new_cholesky`: ladder -/
theorem mvg_new_cholesky_ladder (mu : Vec α) (l : Mat α) :
    (mu.length ≠ nrows (matMul l (Hand.Mvg.transpose l)) →
        MvGaussian.new_cholesky mu l = .error (Err.mk "MuCovDimensionMismatch"
          [RealLike.ofNatR mu.length, RealLike.ofNatR (nrows (matMul l (Hand.Mvg.transpose l)))]))
    ∧ (mu.length = nrows (matMul l (Hand.Mvg.transpose l)) →
        MvGaussian.new_cholesky mu l = .ok (MvGaussian.new_cholesky_unchecked mu l)) := by
  refine ⟨fun h => ?_, fun h => ?_⟩
  all_goals
    simp only [MvGaussian.new_cholesky]
    split_ifs <;> first | rfl | (exfalso; omega)

-- @site MvGaussian::from_params
/-- `from_params(emit_params(g)) = g` for every well-formed object (the cache is recomputed from the same matrix) -/
theorem mvg_params_roundtrip (g : MvGaussian α) (hg : MvgWF g) :
    MvGaussian.from_params g.emit_params = .ok g := by
  obtain ⟨_, _, l, hl, hc⟩ := hg
  simp only [MvGaussian.from_params, MvGaussian.emit_params, MvGaussian.new_unchecked, MvgCache.from_cov, hl]
  cases g; simp_all

end Ctors

-- @site MvgCache::cov
/-- the covariance rebuilt from the cached factor IS the covariance: on the list encoding of a valid object,
    `new_cholesky_unchecked(μ, chol).cov() = Σ` (entries above the diagonal of the factor must be zero for this) -/
theorem exec_new_cholesky_cov (g : AMvg d) (h : g.Valid) :
    (MvGaussian.new_cholesky_unchecked (toVec g.mu) (toMat g.L)).cov = toMat g.cov
    ∧ (MvGaussian.new_cholesky_unchecked (toVec g.mu) (toMat g.L)).mu = toVec g.mu := by
  refine ⟨?_, rfl⟩
  simp only [MvGaussian.new_cholesky_unchecked, MvgCache.cov, MvgCache.from_chol, transpose_toMat, matMul_toMat, h.chol]

example : ∃ g : AMvg 2, g.Valid := ⟨exMvg, exMvg_valid⟩
end C15

#print axioms C15.mvg_ln_f_eq
#print axioms C15.mvg_entropy_eq
#print axioms C15.mvg_draw_eq
#print axioms C15.mvg_draw_cov
#print axioms C15.mvg_draw_outer
#print axioms C15.stat_of_data
#print axioms C15.stat_observe
#print axioms C15.stat_forget
#print axioms C15.stat_forget_all
#print axioms C15.scatter_identity
#print axioms C15.mvg_ln_f_stat_eq
#print axioms C15.mvg_ln_f_stat_empty
#print axioms C15.mvg_ln_f_stat_empty_X
#print axioms C15.mvg_ln_f_stat_new
#print axioms C15.mvg_new_ladder
#print axioms C15.mvg_new_ok_iff
#print axioms C15.mvg_set_cov_st_ladder
#print axioms C15.mvg_set_cov_err_unchanged
#print axioms C15.mvg_set_mu_st_ladder
#print axioms C15.mvg_set_mu_err_unchanged
#print axioms C15.mvg_set_cov_ladder
#print axioms C15.mvg_set_mu_ladder
#print axioms C15.mvg_new_wf
#print axioms C15.mvg_wf_eq_new
#print axioms C15.mvg_set_cov_refreshes
#print axioms C15.mvg_set_mu_preserves
#print axioms C15.mvg_op_wf
#print axioms C15.mvg_history_fresh
#print axioms C15.mvg_cache_facts_sound
#print axioms C15.mvg_new_vs_set_cov_order
#print axioms C15.mvg_mean_variance
#print axioms C15.exMvg_valid
#print axioms C15.exec_ln_f
#print axioms C15.exec_ln_f_eq
#print axioms C15.exec_entropy
#print axioms C15.exec_draw_z
#print axioms C15.exec_stat_of_data
#print axioms C15.exec_stat_forget
#print axioms C15.exec_ln_f_stat
#print axioms C15.exec_ln_f_stat_eq_sum
#print axioms C15.sqrtDenom_R
#print axioms C15.sqrtDenom_nan
#print axioms C15.cholesky_first_pivot
#print axioms C15.mvg_new_1d
#print axioms C15.mvg_new_upper_triangle_counterexample
#print axioms C15.mvg_new_cholesky_agree
#print axioms C15.mvg_new_cholesky_ladder
#print axioms C15.mvg_params_roundtrip
#print axioms C15.exec_new_cholesky_cov
