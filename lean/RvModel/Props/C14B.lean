import RvModel.RealInst
import RvModel.Gen.Defs
import RvModel.Hand.LnFact
import RvModel.Lemmas.C14LnFact
import Mathlib.Analysis.SpecialFunctions.Log.Basic
import Mathlib.Data.Rat.Cast.Order
import Mathlib.Tactic.Ring
import Mathlib.Tactic.Linarith
import Mathlib.Tactic.NormNum
/-!
  C14 (group B): the `ln n!` table `LN_FACT` of `/repo/src/misc/func.rs:472-728` and the table/Stirling switch of
  `ln_fact` (`func.rs:413-421`).

  `T n = LN_FACT[n]` is the exact rational value of the binary64 literal (`RvModel.Gen.Tables`, regenerated from the
  Rust source on every run).  `Hand.LnFact.lnEnc n = (lo, hi)` is a rational enclosure of `log n` computed from
  `log((k+1)/k) = 2·artanh(1/(2k+1))` (20 series terms + geometric tail, outward rounding to 2⁻¹⁰⁰), proved sound
  against `Real.log` (`lnEnc_sound`); the table facts are `decide +kernel` about these enclosures.
-/
open Hand.LnFact

namespace C14

private theorem shape_ok : tableShapeOk = true := by decide +kernel
private theorem diff_ok : diffOk (1 / 10 ^ 12) = true := by decide +kernel
private theorem cum_ok : cumOk (5 / 10 ^ 13) (1 / 10 ^ 15) = true := by decide +kernel
private theorem width_ok : widthOk (1 / 10 ^ 18) = true := by decide +kernel
private theorem switch_ok : switchOk (2 / 10 ^ 10) = true := by decide +kernel
private theorem jump_ok : switchJumpOk (15 / 10 ^ 11) = true := by decide +kernel
private theorem ln2pi_ok : ln2PiOk (15 / 10 ^ 17) = true := by decide +kernel

/-! ### (d.i) shape of the table -/

/-- 255 entries; `LN_FACT[0] = LN_FACT[1] = 0`; strictly increasing from index 1 on. -/
-- @site ln_fact
theorem ln_fact_table_shape :
    GenTables.LN_FACT.length = 255 ∧ T 0 = 0 ∧ T 1 = 0 ∧ ∀ i, 1 ≤ i → i < 254 → T i < T (i + 1) := by
  have h := shape_ok
  simp only [tableShapeOk, Bool.and_eq_true, beq_iff_eq, List.all_eq_true, List.mem_range,
    decide_eq_true_eq] at h
  refine ⟨h.1.1.1, h.1.1.2, h.1.2, ?_⟩
  intro i h1 h254
  obtain ⟨j, rfl⟩ : ∃ j, i = j + 1 := ⟨i - 1, by omega⟩
  exact h.2 j (by omega)

/-! ### (d.ii) certified enclosure of `log n`, and the table against it -/

/-- soundness of the enclosure: `lo ≤ log n ≤ hi` for every `n ≥ 1` -/
-- @site ln_fact
theorem lnEnc_sound (n : ℕ) (hn : 1 ≤ n) :
    ((lnEnc n).1 : ℝ) ≤ Real.log (n : ℝ) ∧ Real.log (n : ℝ) ≤ ((lnEnc n).2 : ℝ) :=
  C14L.lnEnc_sound n hn

/-- soundness of the cumulated enclosure: `lo ≤ log n! ≤ hi` -/
-- @site ln_fact
theorem lnFactEnc_sound (n : ℕ) :
    ((lnFactEnc n).1 : ℝ) ≤ Real.log ((n.factorial : ℕ) : ℝ) ∧
      Real.log ((n.factorial : ℕ) : ℝ) ≤ ((lnFactEnc n).2 : ℝ) :=
  C14L.lnFactEnc_sound n

/-- the enclosures are tight: width ≤ 10⁻¹⁸ for `log n`, ≤ 255·10⁻¹⁸ for `log n!`, n ≤ 255 -/
-- @site ln_fact
theorem lnEnc_width (n : ℕ) (hn : n ≤ 255) :
    (lnEnc n).2 - (lnEnc n).1 ≤ 1 / 10 ^ 18 ∧ (lnFactEnc n).2 - (lnFactEnc n).1 ≤ 255 * (1 / 10 ^ 18) := by
  have h := width_ok
  simp only [widthOk, List.all_eq_true, Bool.and_eq_true, decide_eq_true_eq] at h
  have hlen : 255 - n < (encRev 255).length := by
    have : (encRev 255).length = 256 := by decide +kernel
    omega
  have hm : (encRev 255).getD (255 - n) ((0, 0), (0, 0)) ∈ encRev 255 := by
    simp only [List.getD_eq_getElem?_getD, List.getElem?_eq_getElem hlen, Option.getD_some]
    exact List.getElem_mem hlen
  have := h _ hm
  rw [C14L.encRev_getD 255 (255 - n) (Nat.sub_le _ _)] at this
  have e : 255 - (255 - n) = n := by omega
  rw [e] at this
  exact this

private theorem diff_n (n : ℕ) (h2 : 2 ≤ n) (h254 : n ≤ 254) :
    (lnEnc n).2 - 1 / 10 ^ 12 ≤ T n - T (n - 1) ∧ T n - T (n - 1) ≤ (lnEnc n).1 + 1 / 10 ^ 12 := by
  have h := diff_ok
  simp only [diffOk, List.all_eq_true, List.mem_range, Bool.and_eq_true, decide_eq_true_eq] at h
  obtain ⟨i, rfl⟩ : ∃ i, n = i + 2 := ⟨n - 2, by omega⟩
  have := h i (by omega)
  rw [C14L.encRev_getD 254 (254 - (i + 2)) (Nat.sub_le _ _)] at this
  have e : 254 - (254 - (i + 2)) = i + 2 := by omega
  rw [e] at this
  exact this

/-- consecutive differences of the table are `log n` within 10⁻¹²:  |LN_FACT[n] − LN_FACT[n−1] − log n| ≤ 10⁻¹² -/
-- @site ln_fact
theorem ln_fact_table_diff (n : ℕ) (h2 : 2 ≤ n) (h254 : n ≤ 254) :
    |((T n : ℚ) : ℝ) - ((T (n - 1) : ℚ) : ℝ) - Real.log (n : ℝ)| ≤ 1 / 10 ^ 12 := by
  have hd := diff_n n h2 h254
  have hs := C14L.lnEnc_sound n (by omega)
  have h1 : (((lnEnc n).2 - 1 / 10 ^ 12 : ℚ) : ℝ) ≤ ((T n - T (n - 1) : ℚ) : ℝ) := by exact_mod_cast hd.1
  have h2' : ((T n - T (n - 1) : ℚ) : ℝ) ≤ (((lnEnc n).1 + 1 / 10 ^ 12 : ℚ) : ℝ) := by exact_mod_cast hd.2
  push_cast at h1 h2'
  rw [abs_le]
  constructor <;> linarith [hs.1, hs.2]

example : (2 ≤ 254 ∧ 254 ≤ 254) := by decide

private theorem cum_n (n : ℕ) (h254 : n ≤ 254) :
    ((lnFactEnc n).2 - 5 / 10 ^ 13 ≤ T n ∧ T n ≤ (lnFactEnc n).1 + 5 / 10 ^ 13) ∧
    ((lnFactEnc n).2 * (1 - 1 / 10 ^ 15) ≤ T n ∧ T n ≤ (lnFactEnc n).1 * (1 + 1 / 10 ^ 15)) := by
  have h := cum_ok
  simp only [cumOk, List.all_eq_true, List.mem_range, Bool.and_eq_true, decide_eq_true_eq] at h
  have := h n (by omega)
  rw [C14L.encRev_getD 254 (254 - n) (Nat.sub_le _ _)] at this
  have e : 254 - (254 - n) = n := by omega
  rw [e] at this
  exact ⟨⟨this.1.1.1, this.1.1.2⟩, ⟨this.1.2, this.2⟩⟩

/-- absolute accuracy of the table: |LN_FACT[n] − log n!| ≤ 5·10⁻¹³ for every index n ≤ 254 -/
-- @site ln_fact
theorem ln_fact_table_acc (n : ℕ) (h254 : n ≤ 254) :
    |((T n : ℚ) : ℝ) - Real.log ((n.factorial : ℕ) : ℝ)| ≤ 5 / 10 ^ 13 := by
  have hd := (cum_n n h254).1
  have hs := C14L.lnFactEnc_sound n
  have h1 : (((lnFactEnc n).2 - 5 / 10 ^ 13 : ℚ) : ℝ) ≤ ((T n : ℚ) : ℝ) := by exact_mod_cast hd.1
  have h2' : ((T n : ℚ) : ℝ) ≤ (((lnFactEnc n).1 + 5 / 10 ^ 13 : ℚ) : ℝ) := by exact_mod_cast hd.2
  push_cast at h1 h2'
  rw [abs_le]
  constructor <;> linarith [hs.1, hs.2]

/-- relative accuracy of the table: |LN_FACT[n] − log n!| ≤ 10⁻¹⁵ · log n! for every index n ≤ 254 -/
-- @site ln_fact
theorem ln_fact_table_rel (n : ℕ) (h254 : n ≤ 254) :
    |((T n : ℚ) : ℝ) - Real.log ((n.factorial : ℕ) : ℝ)| ≤ 1 / 10 ^ 15 * Real.log ((n.factorial : ℕ) : ℝ) := by
  have hd := (cum_n n h254).2
  have hs := C14L.lnFactEnc_sound n
  have h1 : (((lnFactEnc n).2 * (1 - 1 / 10 ^ 15) : ℚ) : ℝ) ≤ ((T n : ℚ) : ℝ) := by exact_mod_cast hd.1
  have h2' : ((T n : ℚ) : ℝ) ≤ (((lnFactEnc n).1 * (1 + 1 / 10 ^ 15) : ℚ) : ℝ) := by exact_mod_cast hd.2
  push_cast at h1 h2'
  rw [abs_le]
  constructor <;> nlinarith [hs.1, hs.2]

/-! ### (d.iii) continuity at the table/Stirling switch n = 254 -/

/-- the Stirling branch of `ln_fact` at `n = 254` (`func.rs:417-419`, y = 255, binary64 literal `LN_2PI`) over exact
    reals:  (y − ½)·log y − y + ½·LN_2PI + 1/(12y) -/
noncomputable def stirling254 : ℝ :=
  (255 - 1 / 2) * Real.log 255 - 255 + (1 / 2 * ((GenTables.LN_2PI : ℚ) : ℝ) + 1 / (12 * 255))

private theorem stirlingWith_cast (l : ℚ) : ((stirlingWith 254 l : ℚ) : ℝ) =
    (255 - 1 / 2) * (l : ℝ) - 255 + (1 / 2 * ((GenTables.LN_2PI : ℚ) : ℝ) + 1 / (12 * 255)) := by
  unfold stirlingWith
  push_cast
  ring

private theorem switch_n :
    stirlingWith 254 (lnEnc 255).2 - (T 253 + (lnEnc 254).1) ≤ 2 / 10 ^ 10 ∧
    15 / 10 ^ 11 ≤ stirlingWith 254 (lnEnc 255).1 - (T 253 + (lnEnc 254).2) := by
  have h := switch_ok
  have hj := jump_ok
  simp only [switchOk, Bool.and_eq_true, decide_eq_true_eq] at h
  simp only [switchJumpOk, decide_eq_true_eq] at hj
  rw [C14L.encRev_getD 255 0 (Nat.zero_le _), C14L.encRev_getD 255 1 (by omega)] at h hj
  exact ⟨h.1, hj⟩

/-- continuity across the switch: `ln_fact(254)` (Stirling) and `ln_fact(253) + log 254` (table) agree within
    2·10⁻¹⁰ (< 10⁻⁹); the jump is positive, between 1.5·10⁻¹⁰ and 2·10⁻¹⁰ (it is the first neglected Stirling term
    1/(360·255³) ≈ 1.675·10⁻¹⁰, i.e. 1.4·10⁻¹³ relative to ln 254! ≈ 1156). -/
-- @site ln_fact
theorem ln_fact_switch :
    15 / 10 ^ 11 ≤ stirling254 - (((T 253 : ℚ) : ℝ) + Real.log 254) ∧
    stirling254 - (((T 253 : ℚ) : ℝ) + Real.log 254) ≤ 2 / 10 ^ 10 := by
  have hsw := switch_n
  have h5 := C14L.lnEnc_sound 255 (by omega)
  have h4 := C14L.lnEnc_sound 254 (by omega)
  have a1 : ((stirlingWith 254 (lnEnc 255).2 - (T 253 + (lnEnc 254).1) : ℚ) : ℝ) ≤ ((2 / 10 ^ 10 : ℚ) : ℝ) := by
    exact_mod_cast hsw.1
  have a2 : ((15 / 10 ^ 11 : ℚ) : ℝ) ≤ ((stirlingWith 254 (lnEnc 255).1 - (T 253 + (lnEnc 254).2) : ℚ) : ℝ) := by
    exact_mod_cast hsw.2
  rw [Rat.cast_sub, stirlingWith_cast] at a1 a2
  push_cast at a1 a2 h5 h4
  unfold stirling254
  constructor <;> linarith [h5.1, h5.2, h4.1, h4.2]

/-! ### the same on the generated model `Gen.ln_fact` over exact reals (uses the exact `log 2π`, not the literal) -/

/-- the literal `LN_2PI = 1.837_877_066_409_345_3` of `consts.rs:14` is within 1.5·10⁻¹⁶ of `log 2π`
    (it is 0.65 ulp below: the neighbouring double 1.8378770664093455611 would be the correctly rounded one). -/
-- @site ln_fact
theorem ln_2pi_literal : |((GenTables.LN_2PI : ℚ) : ℝ) - Real.log (2 * Real.pi)| ≤ 15 / 10 ^ 17 := by
  have h := ln2pi_ok
  simp only [ln2PiOk, Bool.and_eq_true, decide_eq_true_eq] at h
  have hs := C14L.ln2PiEnc_sound
  have h1 : ((ln2PiEnc.2 - 15 / 10 ^ 17 : ℚ) : ℝ) ≤ ((GenTables.LN_2PI : ℚ) : ℝ) := by exact_mod_cast h.1
  have h2 : ((GenTables.LN_2PI : ℚ) : ℝ) ≤ ((ln2PiEnc.1 + 15 / 10 ^ 17 : ℚ) : ℝ) := by exact_mod_cast h.2
  push_cast at h1 h2
  rw [abs_le]
  constructor <;> linarith [hs.1, hs.2]

/-- the generated `ln_fact` on the Stirling branch (`n ≥ 254`, `func.rs:417-419`) over exact reals -/
-- @site ln_fact
theorem ln_fact_stirling_R (n : ℕ) (hn : 254 ≤ n) :
    (Gen.ln_fact (α := R) n).val =
      ((n : ℝ) + 1 - 1 / 2) * Real.log ((n : ℝ) + 1) - ((n : ℝ) + 1) +
        (1 / 2 * Real.log (2 * Real.pi) + 1 / (12 * ((n : ℝ) + 1))) := by
  have hlt : ¬ n < 254 := by omega
  simp only [Gen.ln_fact, hlt, decide_false, Bool.false_eq_true, if_false, mulAdd, RealLike.recip,
    R.add_val, R.sub_val, R.mul_val, R.div_val, R.neg_val, R.ln_val, R.sci_val, R.ofNatR_val, R.ln2Pi_val]
  norm_num
  ring

example : 254 ≤ 254 := le_refl _

/-- continuity of the generated `ln_fact` across the switch, with the exact `log 2π`:
    10⁻¹⁰ ≤ ln_fact(254) − (LN_FACT[253] + log 254) ≤ 10⁻⁹ -/
-- @site ln_fact
theorem ln_fact_switch_R :
    1 / 10 ^ 10 ≤ (Gen.ln_fact (α := R) 254).val - (((T 253 : ℚ) : ℝ) + Real.log 254) ∧
    (Gen.ln_fact (α := R) 254).val - (((T 253 : ℚ) : ℝ) + Real.log 254) ≤ 1 / 10 ^ 9 := by
  have hsw := ln_fact_switch
  have hl := abs_le.mp ln_2pi_literal
  rw [ln_fact_stirling_R 254 (le_refl _)]
  unfold stirling254 at hsw
  have e : ((254 : ℕ) : ℝ) + 1 = 255 := by norm_num
  rw [e]
  constructor <;> linarith [hsw.1, hsw.2, hl.1, hl.2]

end C14

#print axioms C14.ln_fact_table_shape
#print axioms C14.lnEnc_sound
#print axioms C14.lnFactEnc_sound
#print axioms C14.lnEnc_width
#print axioms C14.ln_fact_table_diff
#print axioms C14.ln_fact_table_acc
#print axioms C14.ln_fact_table_rel
#print axioms C14.ln_fact_switch
#print axioms C14.ln_2pi_literal
#print axioms C14.ln_fact_stirling_R
#print axioms C14.ln_fact_switch_R
