import RvModel.RealInst
import RvModel.ExtInst
import RvModel.Gen.Defs
import RvModel.Hand.Samplers
import RvModel.Hand.Draw
import RvModel.Lemmas.C04
import RvModel.Props.C13B
import RvModel.Props.C12A
import RvModel.Props.C03A
import Mathlib.Tactic.Ring
import Mathlib.Tactic.Linarith
import Mathlib.Tactic.FieldSimp
import Mathlib.Analysis.SpecialFunctions.Log.Basic
import Mathlib.Analysis.SpecialFunctions.Exp
import Mathlib.Analysis.SpecialFunctions.Pow.Real
import Mathlib.Analysis.SpecialFunctions.Gamma.Basic
/-!
  C04: samplers draw from the distribution the density describes.

  Objects: the hand models of Hand/Draw.lean (tied to `/repo/src/dist/*.rs` by the bit-exact correspondence ops of
  harness/src/manual_c04.rs) + the generated `cdf / supports / ln_f / invcdf` of Gen/Defs.lean.

  (a) inversion samplers on `R`: `cdf (draw u) = u` on `(0,1)` and `draw` strictly increasing — with C03 (the cdf is the
      integral of the density) this is "the law of the draws is the object's own cdf"; Bernoulli / Geometric: the set of
      variates mapped to each value is an interval whose length is the pmf;
  (b) support / totality for EVERY 64-bit generator word on `X` (exact variate of the map the code uses: the ranges are
      `C13.std01_range / open01_range / uniform01_range`).  After the repairs 703a0fb fb54024 c9b85ee ca0686c 29e267e e962348
      of /repo (Laplace, Kumaraswamy, UnitPowerLaw, Geometric, VonMises, KsTwoAsymptotic) these hold at full strength; the
      former `_counterexample` theorems are gone with the defects.  What `X` does not see — binary64 rounding to `0.0` / `1.0`
      at extreme variates, rand's `Uniform` scale loop, rand_distr underflow for tiny shapes — stays a float-only finding
      class of props/C04.py;
  (c) termination: Geometric search (exact arithmetic; the binary64 stagnation `break` is modelled and compared bitwise),
      VonMises: an explicit rectangle of variates accepted at the first test for every `κ > 0` (geometric bound on the passes);
  (d) `sample n` = `n` draws for every type whose `sample` is a separate implementation (Mixture: same law, permuted stream);
  (e) re-parameterisation of the delegating samplers: pointwise density identities between the generated `ln_f` and the
      density documented by `rand_distr` at the constructor arguments the code passes.

  `-- @site <Dist>.draw` / `<Dist>.sample` names the Rust function (`impl Sampleable for <Dist>`) a theorem is about — the same site
  names as the obligations and failures of props/C04.py.  Harness lines quoted in docstrings were run on the real code.
-/
set_option linter.unusedSimpArgs false
set_option linter.unusedVariables false
open Real X Hand

namespace C04

/-! ## Bernoulli -/

-- @site Bernoulli.draw
/-- the draw is `true` exactly on the variates below `p`: an interval of length `p` of the unit interval -/
theorem Bernoulli_draw_iff (d : Gen.Bernoulli R) (u : R) : bernoulliDraw d u = true ↔ u.val < d.p.val := by
  simp [bernoulliDraw]

example : bernoulliDraw (⟨⟨0.3⟩⟩ : Gen.Bernoulli R) ⟨0.2⟩ = true := by
  rw [Bernoulli_draw_iff]; norm_num

-- @site Bernoulli.draw
/-- every draw is supported, for every word and every parameter (NaN included), bool kind … -/
theorem Bernoulli_draw_supported_bool (d : Gen.Bernoulli X) (w : Nat) :
    Gen.Bernoulli.supports_bool d (bernoulliDraw d (open01 w)) = true := by
  simp [Gen.Bernoulli.supports_bool]

example : Gen.Bernoulli.supports_bool (⟨X.nan⟩ : Gen.Bernoulli X) (bernoulliDraw ⟨X.nan⟩ (open01 0)) = true :=
  Bernoulli_draw_supported_bool _ _

-- @site Bernoulli.draw
/-- … and integer kinds (`from_bool` gives `0` or `1`) -/
theorem Bernoulli_draw_supported_nat (d : Gen.Bernoulli X) (w : Nat) :
    Gen.Bernoulli.supports_nat d (boolToNat (bernoulliDraw d (open01 w))) = true := by
  cases bernoulliDraw d (open01 w) <;> simp [Gen.Bernoulli.supports_nat, boolToNat]

example : Gen.Bernoulli.supports_nat (⟨X.fin 0.5⟩ : Gen.Bernoulli X) (boolToNat (bernoulliDraw ⟨X.fin 0.5⟩ (open01 7))) = true :=
  Bernoulli_draw_supported_nat _ _

-- @site Bernoulli.draw
/-- `p = 1` is drawn `true` and `p = 0` is drawn `false` for EVERY word (`Open01` never delivers `0` or `1`) -/
theorem Bernoulli_draw_degenerate (w : Nat) (hw : w < 2 ^ 64) :
    bernoulliDraw (⟨⟨1⟩⟩ : Gen.Bernoulli R) (open01 w) = true ∧
      bernoulliDraw (⟨⟨0⟩⟩ : Gen.Bernoulli R) (open01 w) = false := by
  obtain ⟨h0, h1⟩ := C13.open01_range w hw
  have hpos : (0:ℝ) < 1 / 2 ^ 53 := by positivity
  constructor
  · rw [Bernoulli_draw_iff]; show (open01 w : R).val < 1; linarith
  · rw [← Bool.not_eq_true, Bernoulli_draw_iff]; show ¬ (open01 w : R).val < 0; linarith

example : bernoulliDraw (⟨⟨1⟩⟩ : Gen.Bernoulli R) (open01 (2 ^ 64 - 1)) = true :=
  (Bernoulli_draw_degenerate _ (by norm_num)).1

-- @site Bernoulli.sample
/-- the separate `sample` maps the same per-element function over the variates (any carrier, `Float` included) -/
theorem Bernoulli_sample_eq_map_draw {α : Type} [RealLike α] (d : Gen.Bernoulli α) (us : List α) :
    bernoulliSample d us = us.map (bernoulliDraw d) := rfl

example : bernoulliSample (⟨⟨0.3⟩⟩ : Gen.Bernoulli R) [⟨0.2⟩, ⟨0.4⟩] =
    [bernoulliDraw (⟨⟨0.3⟩⟩ : Gen.Bernoulli R) ⟨0.2⟩, bernoulliDraw (⟨⟨0.3⟩⟩ : Gen.Bernoulli R) ⟨0.4⟩] :=
  Bernoulli_sample_eq_map_draw _ _

-- @site Bernoulli.sample
theorem Bernoulli_sample_length {α : Type} [RealLike α] (d : Gen.Bernoulli α) (us : List α) :
    (bernoulliSample d us).length = us.length := by simp [bernoulliSample]

example : (bernoulliSample (⟨⟨0.3⟩⟩ : Gen.Bernoulli R) [⟨0.2⟩, ⟨0.4⟩]).length = 2 := Bernoulli_sample_length _ _

/-! ## Laplace -/

-- @site Laplace.draw
/-- INVERSION: the object's own cdf at the draw is the variate, for every variate in `(0,1)` -/
theorem Laplace_draw_cdf (d : Gen.Laplace R) (u : R) (hb : 0 < d.b.val) (h0 : 0 < u.val) (h1 : u.val < 1) :
    (Gen.Laplace.cdf_real d (laplaceDraw d u)).val = u.val := by
  by_cases hu : 0 ≤ u.val - 1 / 2
  · -- upper half: draw = mu - b·ln(2 - 2u) ≥ mu
    have hx : (laplaceDraw d u).val = d.mu.val - d.b.val * Real.log (2 - 2 * u.val) := by
      rw [laplaceDraw_val, if_pos hu, abs_of_nonneg hu]; ring_nf
    have hlog : Real.log (2 - 2 * u.val) ≤ 0 := Real.log_nonpos (by linarith) (by linarith)
    have hge : ¬ (laplaceDraw d u).val < d.mu.val := by rw [hx]; nlinarith
    simp only [Gen.Laplace.cdf_real, mulAdd]
    rw [if_neg (by simpa using hge)]
    simp only [R.add_val, R.mul_val, R.neg_val, R.exp_val, R.div_val, R.sub_val, R.sci_val, hx]
    have e : -(d.mu.val - d.b.val * Real.log (2 - 2 * u.val) - d.mu.val) / d.b.val = Real.log (2 - 2 * u.val) := by
      rw [div_eq_iff hb.ne']; ring
    rw [e, Real.exp_log (by linarith)]; norm_num; ring
  · -- lower half: draw = mu + b·ln(2u) < mu
    rw [not_le] at hu
    have hx : (laplaceDraw d u).val = d.mu.val + d.b.val * Real.log (2 * u.val) := by
      rw [laplaceDraw_val, if_neg (by linarith), abs_of_neg hu]; ring_nf
    have hlog : Real.log (2 * u.val) < 0 := Real.log_neg (by linarith) (by linarith)
    have hlt : (laplaceDraw d u).val < d.mu.val := by rw [hx]; nlinarith
    simp only [Gen.Laplace.cdf_real, mulAdd]
    rw [if_pos (by simpa using hlt)]
    simp only [R.mul_val, R.exp_val, R.div_val, R.sub_val, R.sci_val, hx]
    have e : (d.mu.val + d.b.val * Real.log (2 * u.val) - d.mu.val) / d.b.val = Real.log (2 * u.val) := by
      rw [div_eq_iff hb.ne']; ring
    rw [e, Real.exp_log (by linarith)]; norm_num; ring

example : (Gen.Laplace.cdf_real (⟨⟨1⟩, ⟨2⟩⟩ : Gen.Laplace R) (laplaceDraw ⟨⟨1⟩, ⟨2⟩⟩ ⟨0.3⟩)).val = 0.3 := by
  have := Laplace_draw_cdf (⟨⟨1⟩, ⟨2⟩⟩ : Gen.Laplace R) ⟨0.3⟩ (by norm_num) (by norm_num) (by norm_num)
  simpa using this

-- @site Laplace.draw
/-- the draw is strictly increasing in the variate on `(0,1)` -/
theorem Laplace_draw_mono (d : Gen.Laplace R) (u v : R) (hb : 0 < d.b.val) (h0 : 0 < u.val) (huv : u.val < v.val)
    (h1 : v.val < 1) : (laplaceDraw d u).val < (laplaceDraw d v).val := by
  by_contra hc
  rw [not_lt] at hc
  have hm := C03.Laplace_cdf_mono d hb hc
  simp only at hm
  have e1 := Laplace_draw_cdf d u hb h0 (by linarith)
  have e2 := Laplace_draw_cdf d v hb (by linarith) h1
  have r1 : (⟨(laplaceDraw d u).val⟩ : R) = laplaceDraw d u := rfl
  have r2 : (⟨(laplaceDraw d v).val⟩ : R) = laplaceDraw d v := rfl
  rw [r1, r2, e1, e2] at hm
  linarith

example : (laplaceDraw (⟨⟨1⟩, ⟨2⟩⟩ : Gen.Laplace R) ⟨0.3⟩).val < (laplaceDraw (⟨⟨1⟩, ⟨2⟩⟩ : Gen.Laplace R) ⟨0.6⟩).val :=
  Laplace_draw_mono _ _ _ (by norm_num) (by norm_num) (by norm_num) (by norm_num)

-- @site Laplace.draw
/-- TOTALITY (after the repair 703a0fb: `Open01`): for EVERY 64-bit generator word and all finite parameters the draw is a
    finite number, hence supported.  (With the former `OpenClosed01` the word `u64::MAX` gave the variate `1`,
    `laplace_partial_draw(1) = ln 0 = −inf` and the draw `+inf`.) -/
theorem Laplace_draw_supported (mu b : ℝ) (w : Nat) (hw : w < 2 ^ 64) :
    ∃ r : ℝ, laplaceDraw (⟨fin mu, fin b⟩ : Gen.Laplace X) (open01 w) = fin r ∧
      Gen.Laplace.supports_real (⟨fin mu, fin b⟩ : Gen.Laplace X) (laplaceDraw ⟨fin mu, fin b⟩ (open01 w)) = true := by
  obtain ⟨h0, h1⟩ := C13.open01_range w hw
  have hpos : (0:ℝ) < 1 / 2 ^ 53 := by positivity
  have ha : 0 < 2 * -|(open01 w : R).val - 1 / 2| + 1 := by
    have : |(open01 w : R).val - 1 / 2| < 1 / 2 := by rw [abs_lt]; constructor <;> linarith
    linarith
  rw [open01_X, laplaceDraw_X mu b _ ha]
  exact ⟨_, rfl, rfl⟩

example : ∃ r : ℝ, laplaceDraw (⟨fin 3, fin 2⟩ : Gen.Laplace X) (open01 (2 ^ 64 - 1)) = fin r :=
  (Laplace_draw_supported 3 2 _ (by norm_num)).imp fun _ h => h.1

/-! ## Gev -/

-- @site Gev.draw
/-- INVERSION, both branches (`shape = 0` Gumbel and `shape ≠ 0`): the object's own cdf at the draw is the variate -/
theorem Gev_draw_cdf (d : Gen.Gev R) (u : R) (hσ : 0 < d.scale.val) (h0 : 0 < u.val) (h1 : u.val < 1) :
    (Gen.Gev.cdf_real d (gevDraw d u)).val = u.val := by
  have hL : 0 < -(Real.log u.val) := by have := Real.log_neg h0 h1; linarith
  rw [gev_cdf_val]
  by_cases hs : d.shape.val = 0
  · rw [if_pos hs, gevDraw_val0 d u hs]
    have e : (d.loc.val - (d.scale.val * -(Real.log (-(Real.log u.val))) + d.loc.val)) / d.scale.val =
        Real.log (-(Real.log u.val)) := by rw [div_eq_iff hσ.ne']; ring
    rw [e, Real.exp_log hL, neg_neg, Real.exp_log h0]
  · rw [if_neg hs, gevDraw_val_ne0 d u hs]
    have e : 1 + d.shape.val * (d.loc.val + d.scale.val * ((-(Real.log u.val)) ^ (-d.shape.val) - 1) / d.shape.val -
        d.loc.val) / d.scale.val = (-(Real.log u.val)) ^ (-d.shape.val) := by
      field_simp; ring
    rw [e, ← Real.rpow_mul hL.le]
    have e2 : -d.shape.val * (-1 / d.shape.val) = 1 := by field_simp
    rw [e2, Real.rpow_one, neg_neg, Real.exp_log h0]

example : (Gen.Gev.cdf_real (⟨⟨1⟩, ⟨2⟩, ⟨0.5⟩⟩ : Gen.Gev R) (gevDraw ⟨⟨1⟩, ⟨2⟩, ⟨0.5⟩⟩ ⟨0.3⟩)).val = 0.3 := by
  have := Gev_draw_cdf (⟨⟨1⟩, ⟨2⟩, ⟨0.5⟩⟩ : Gen.Gev R) ⟨0.3⟩ (by norm_num) (by norm_num) (by norm_num)
  simpa using this

-- @site Gev.draw
/-- TOTALITY: for EVERY 64-bit generator word (`Open01`: variate in `(0,1)`) and all finite parameters with `scale > 0`,
    the draw is a finite number inside the support reported by `Gev::supports` (all three shape regimes) -/
theorem Gev_draw_supported (loc scale shape : ℝ) (hsc : 0 < scale) (w : Nat) (hw : w < 2 ^ 64) :
    ∃ r : ℝ, gevDraw (⟨fin loc, fin scale, fin shape⟩ : Gen.Gev X) (open01 w) = fin r ∧
      Gen.Gev.supports_real (⟨fin loc, fin scale, fin shape⟩ : Gen.Gev X)
        (gevDraw ⟨fin loc, fin scale, fin shape⟩ (open01 w)) = true := by
  obtain ⟨h0, h1⟩ := C13.open01_range w hw
  have hpos : (0:ℝ) < 1 / 2 ^ 53 := by positivity
  have ha0 : 0 < (open01 w : R).val := by linarith
  have ha1 : (open01 w : R).val < 1 := by linarith
  have hL : 0 < -(Real.log (open01 w : R).val) := by have := Real.log_neg ha0 ha1; linarith
  have hP : 0 < (-(Real.log (open01 w : R).val)) ^ (-shape) := Real.rpow_pos_of_pos hL _
  rw [open01_X, gevDraw_X loc scale shape _ ha0 ha1]
  refine ⟨_, rfl, ?_⟩
  rcases lt_trichotomy shape 0 with hs | hs | hs
  · have hne : shape ≠ 0 := hs.ne
    simp only [Gen.Gev.supports_real, X_zero, lt_fin, feq_fin, if_neg hne, isFinite_fin, Bool.true_and,
      fin_div_fin_of_ne _ hne, fin_sub_fin, le_fin, not_lt.mpr hs.le, decide_false, Bool.false_eq_true, if_false,
      decide_eq_true_eq]
    have : scale * (-(Real.log (open01 w : R).val)) ^ (-shape) / shape ≤ 0 :=
      div_nonpos_of_nonneg_of_nonpos (by positivity) hs.le
    have e : loc + scale * ((-(Real.log (open01 w : R).val)) ^ (-shape) - 1) / shape =
        loc - scale / shape + scale * (-(Real.log (open01 w : R).val)) ^ (-shape) / shape := by
      field_simp; ring
    rw [e]; linarith
  · simp only [Gen.Gev.supports_real, X_zero, lt_fin, feq_fin, hs, lt_irrefl, decide_false, Bool.false_eq_true,
      if_false, decide_true, if_true, isFinite_fin]
  · have hne : shape ≠ 0 := hs.ne'
    simp only [Gen.Gev.supports_real, X_zero, lt_fin, hs, decide_true, if_true, if_neg hne, isFinite_fin,
      Bool.true_and, fin_div_fin_of_ne _ hne, fin_sub_fin, le_fin, decide_eq_true_eq]
    have : 0 ≤ scale * (-(Real.log (open01 w : R).val)) ^ (-shape) / shape := by positivity
    have e : loc + scale * ((-(Real.log (open01 w : R).val)) ^ (-shape) - 1) / shape =
        loc - scale / shape + scale * (-(Real.log (open01 w : R).val)) ^ (-shape) / shape := by
      field_simp; ring
    rw [e]; linarith

example : ∃ r : ℝ, gevDraw (⟨fin 0, fin 1, fin (-1 / 2)⟩ : Gen.Gev X) (open01 (2 ^ 64 - 1)) = fin r :=
  (Gev_draw_supported 0 1 (-1 / 2) one_pos _ (by norm_num)).imp fun _ h => h.1

-- @site Gev.draw
/-- the draw is strictly increasing in the variate on `(0,1)` (both branches) -/
theorem Gev_draw_mono (d : Gen.Gev R) (u v : R) (hσ : 0 < d.scale.val) (h0 : 0 < u.val) (huv : u.val < v.val)
    (h1 : v.val < 1) : (gevDraw d u).val < (gevDraw d v).val := by
  by_contra hc
  rw [not_lt] at hc
  have e1 := Gev_draw_cdf d u hσ h0 (by linarith)
  have e2 := Gev_draw_cdf d v hσ (by linarith) h1
  have r1 : (⟨(gevDraw d u).val⟩ : R) = gevDraw d u := rfl
  have r2 : (⟨(gevDraw d v).val⟩ : R) = gevDraw d v := rfl
  by_cases hs : d.shape.val = 0
  · have hm := C03.Gev_cdf_mono_shape0 d hσ hs hc
    simp only at hm
    rw [r1, r2, e1, e2] at hm
    linarith
  · have mem : ∀ t : R, 0 < t.val → t.val < 1 →
        0 < 1 + d.shape.val * ((gevDraw d t).val - d.loc.val) / d.scale.val := by
      intro t ht0 ht1
      have hL : 0 < -(Real.log t.val) := by have := Real.log_neg ht0 ht1; linarith
      rw [gevDraw_val_ne0 d t hs]
      have e : 1 + d.shape.val * (d.loc.val + d.scale.val * ((-(Real.log t.val)) ^ (-d.shape.val) - 1) / d.shape.val -
          d.loc.val) / d.scale.val = (-(Real.log t.val)) ^ (-d.shape.val) := by
        field_simp; ring
      rw [e]; exact Real.rpow_pos_of_pos hL _
    have hm := C03.Gev_cdf_mono_shape_ne0 d hσ hs (mem v (by linarith) h1) (mem u h0 (by linarith)) hc
    simp only at hm
    rw [r1, r2, e1, e2] at hm
    linarith

example : (gevDraw (⟨⟨1⟩, ⟨2⟩, ⟨0⟩⟩ : Gen.Gev R) ⟨0.3⟩).val < (gevDraw (⟨⟨1⟩, ⟨2⟩, ⟨0⟩⟩ : Gen.Gev R) ⟨0.6⟩).val :=
  Gev_draw_mono _ _ _ (by norm_num) (by norm_num) (by norm_num) (by norm_num)

/-! ## Kumaraswamy -/

-- @site Kumaraswamy.draw
/-- INVERSION (`draw = invcdf ∘ std01`, C12): the object's own cdf at the draw is the variate -/
theorem Kumaraswamy_draw_cdf (d : Gen.Kumaraswamy R) (u : R) (ha : 0 < d.a.val) (hb : 0 < d.b.val)
    (h0 : 0 < u.val) (h1 : u.val < 1) :
    (Gen.Kumaraswamy.cdf_real d (kumaraswamyDraw d u)).val = u.val :=
  C12.Kumaraswamy_cdf_invcdf d u ha hb h0 h1

example : (Gen.Kumaraswamy.cdf_real (⟨⟨2⟩, ⟨3⟩⟩ : Gen.Kumaraswamy R) (kumaraswamyDraw ⟨⟨2⟩, ⟨3⟩⟩ ⟨0.3⟩)).val = 0.3 := by
  have := Kumaraswamy_draw_cdf (⟨⟨2⟩, ⟨3⟩⟩ : Gen.Kumaraswamy R) ⟨0.3⟩ (by norm_num) (by norm_num) (by norm_num) (by norm_num)
  simpa using this

-- @site Kumaraswamy.draw
theorem Kumaraswamy_draw_mono (d : Gen.Kumaraswamy R) (u v : R) (ha : 0 < d.a.val) (hb : 0 < d.b.val)
    (h0 : 0 < u.val) (huv : u.val < v.val) (h1 : v.val < 1) :
    (kumaraswamyDraw d u).val < (kumaraswamyDraw d v).val :=
  C12.Kumaraswamy_invcdf_mono d u v ha hb h0 huv h1

example : (kumaraswamyDraw (⟨⟨2⟩, ⟨3⟩⟩ : Gen.Kumaraswamy R) ⟨0.3⟩).val < (kumaraswamyDraw (⟨⟨2⟩, ⟨3⟩⟩ : Gen.Kumaraswamy R) ⟨0.6⟩).val :=
  Kumaraswamy_draw_mono _ _ _ (by norm_num) (by norm_num) (by norm_num) (by norm_num) (by norm_num)

-- @site Kumaraswamy.draw
/-- TOTALITY (after the repair fb54024: `Open01`): for EVERY 64-bit generator word and all `a, b > 0` the draw is a finite
    number in `(0,1)`: supported.  Over exact arithmetic — in binary64 `(1 − u)^{1/b}` may round to `1` (draw `0.0`) and the
    result may round to `1.0`: the float-only finding class `float_rounding_boundary` of props/C04.py, e.g.
    `draw.Kumaraswamy f64 x4000000000000000 x4008000000000000 L1 0` ↦ `x0000000000000000 F 1`. -/
theorem Kumaraswamy_draw_supported (a b : ℝ) (ha : 0 < a) (hb : 0 < b) (w : Nat) (hw : w < 2 ^ 64) :
    ∃ r : ℝ, kumaraswamyDraw (⟨fin a, fin b⟩ : Gen.Kumaraswamy X) (open01 w) = fin r ∧
      Gen.Kumaraswamy.supports_real (⟨fin a, fin b⟩ : Gen.Kumaraswamy X)
        (kumaraswamyDraw ⟨fin a, fin b⟩ (open01 w)) = true := by
  obtain ⟨h0, h1⟩ := C13.open01_range w hw
  have hpos : (0:ℝ) < 1 / 2 ^ 53 := by positivity
  have hu0 : 0 < (open01 w : R).val := by linarith
  have hu1 : (open01 w : R).val < 1 := by linarith
  obtain ⟨m0, m1⟩ := C12.kuma_q_mem a b _ ha hb hu0 hu1
  rw [open01_X, kumaraswamyDraw_X a b _ ha hb hu0 hu1]
  refine ⟨_, rfl, ?_⟩
  simp only [Gen.Kumaraswamy.supports_real, X_zero, X_one, isFinite_fin, lt_fin, Bool.true_and, Bool.and_eq_true,
    decide_eq_true_eq]
  exact ⟨m0, m1⟩

example : ∃ r : ℝ, kumaraswamyDraw (⟨fin 2, fin 3⟩ : Gen.Kumaraswamy X) (open01 0) = fin r :=
  (Kumaraswamy_draw_supported 2 3 (by norm_num) (by norm_num) _ (by norm_num)).imp fun _ h => h.1

/-! ## UnitPowerLaw -/

-- @site UnitPowerLaw.draw
/-- INVERSION (`draw = invcdf ∘ std01`, C12) -/
theorem UnitPowerLaw_draw_cdf (d : Gen.UnitPowerLaw R) (u : R) (ha : 0 < d.alpha.val) (h0 : 0 < u.val) :
    (Gen.UnitPowerLaw.cdf_real d (unitPowerLawDraw d u)).val = u.val :=
  C12.UnitPowerLaw_cdf_invcdf d u ha h0

example : (Gen.UnitPowerLaw.cdf_real (⟨⟨2⟩⟩ : Gen.UnitPowerLaw R) (unitPowerLawDraw ⟨⟨2⟩⟩ ⟨0.3⟩)).val = 0.3 := by
  have := UnitPowerLaw_draw_cdf (⟨⟨2⟩⟩ : Gen.UnitPowerLaw R) ⟨0.3⟩ (by norm_num) (by norm_num)
  simpa using this

-- @site UnitPowerLaw.draw
theorem UnitPowerLaw_draw_mono (d : Gen.UnitPowerLaw R) (u v : R) (ha : 0 < d.alpha.val) (h0 : 0 < u.val)
    (huv : u.val < v.val) : (unitPowerLawDraw d u).val < (unitPowerLawDraw d v).val :=
  C12.UnitPowerLaw_invcdf_mono d u v ha h0 huv

example : (unitPowerLawDraw (⟨⟨2⟩⟩ : Gen.UnitPowerLaw R) ⟨0.3⟩).val < (unitPowerLawDraw (⟨⟨2⟩⟩ : Gen.UnitPowerLaw R) ⟨0.6⟩).val :=
  UnitPowerLaw_draw_mono _ _ _ (by norm_num) (by norm_num) (by norm_num)

-- @site UnitPowerLaw.sample
/-- the separate `sample` (`rng.gen::<f64>().powf(alpha_inv)`) maps the same function as `draw` (`invcdf`) over the
    variates — on every carrier, `Float` included -/
theorem UnitPowerLaw_sample_eq_map_draw {α : Type} [RealLike α] (d : Gen.UnitPowerLaw α) (us : List α) :
    unitPowerLawSample d us = us.map (unitPowerLawDraw d) := rfl

example : unitPowerLawSample (⟨⟨2⟩⟩ : Gen.UnitPowerLaw R) [⟨0.2⟩, ⟨0.4⟩] =
    [unitPowerLawDraw (⟨⟨2⟩⟩ : Gen.UnitPowerLaw R) ⟨0.2⟩, unitPowerLawDraw (⟨⟨2⟩⟩ : Gen.UnitPowerLaw R) ⟨0.4⟩] :=
  UnitPowerLaw_sample_eq_map_draw _ _

-- @site UnitPowerLaw.sample
/-- as real functions: each element is `u^(1/α)` -/
theorem UnitPowerLaw_sample_val (d : Gen.UnitPowerLaw R) (us : List R) :
    (unitPowerLawSample d us).map R.val = us.map (fun u => u.val ^ (1 / d.alpha.val)) := by
  rw [UnitPowerLaw_sample_eq_map_draw, List.map_map]
  apply List.map_congr_left
  intro u _
  exact C12.UnitPowerLaw_invcdf_val d u

example : (unitPowerLawSample (⟨⟨2⟩⟩ : Gen.UnitPowerLaw R) [⟨0.25⟩]).map R.val = [(0.25:ℝ) ^ (1 / (2:ℝ))] := by
  rw [UnitPowerLaw_sample_val]; simp

-- @site UnitPowerLaw.draw
/-- TOTALITY (after the repair c9b85ee: `Open01` in `draw` and in `sample`): for EVERY 64-bit generator word and `α > 0` the
    draw is a finite number in `(0,1)`: supported.  Over exact arithmetic — in binary64 `u^{1/α}` rounds to `1.0` at the top
    variate for `α ≥ 2` (float-only class `float_rounding_boundary`: `draw.UnitPowerLaw f64 x4000000000000000 L1 18446744073709551615`
    ↦ `x3ff0000000000000 F 1`). -/
theorem UnitPowerLaw_draw_supported (alpha : ℝ) (ha : 0 < alpha) (w : Nat) (hw : w < 2 ^ 64) :
    ∃ r : ℝ, unitPowerLawDraw (⟨fin alpha⟩ : Gen.UnitPowerLaw X) (open01 w) = fin r ∧
      Gen.UnitPowerLaw.supports_real (⟨fin alpha⟩ : Gen.UnitPowerLaw X)
        (unitPowerLawDraw ⟨fin alpha⟩ (open01 w)) = true := by
  obtain ⟨h0, h1⟩ := C13.open01_range w hw
  have hpos : (0:ℝ) < 1 / 2 ^ 53 := by positivity
  have hu0 : 0 < (open01 w : R).val := by linarith
  have hu1 : (open01 w : R).val < 1 := by linarith
  obtain ⟨m0, m1⟩ := C12.rpow_mem_unit _ (1 / alpha) hu0 hu1 (by positivity)
  have h : unitPowerLawDraw (⟨fin alpha⟩ : Gen.UnitPowerLaw X) (fin (open01 w : R).val) =
      fin ((open01 w : R).val ^ (1 / alpha)) := by
    simp only [unitPowerLawDraw, Gen.UnitPowerLaw.invcdf_real, Gen.UnitPowerLaw.alpha_inv, RealLike.recip, X_one,
      fin_div_fin_of_ne _ ha.ne', powf_fin_pos hu0]
  rw [open01_X, h]
  refine ⟨_, rfl, ?_⟩
  simp only [Gen.UnitPowerLaw.supports_real, X_zero, X_one, lt_fin, Bool.and_eq_true, decide_eq_true_eq]
  exact ⟨m0, m1⟩

example : ∃ r : ℝ, unitPowerLawDraw (⟨fin 2⟩ : Gen.UnitPowerLaw X) (open01 0) = fin r :=
  (UnitPowerLaw_draw_supported 2 (by norm_num) _ (by norm_num)).imp fun _ h => h.1

-- @site UnitPowerLaw.sample
/-- … and so is every element of the separate `sample` (same function of the same `Open01` variates) -/
theorem UnitPowerLaw_sample_supported (alpha : ℝ) (ha : 0 < alpha) (ws : List Nat) (hws : ∀ w ∈ ws, w < 2 ^ 64) :
    ∀ x ∈ unitPowerLawSample (⟨fin alpha⟩ : Gen.UnitPowerLaw X) (ws.map open01),
      Gen.UnitPowerLaw.supports_real (⟨fin alpha⟩ : Gen.UnitPowerLaw X) x = true := by
  intro x hx
  rw [UnitPowerLaw_sample_eq_map_draw, List.map_map] at hx
  obtain ⟨w, hw, rfl⟩ := List.mem_map.mp hx
  exact (UnitPowerLaw_draw_supported alpha ha w (hws w hw)).choose_spec.2

example : ∀ x ∈ unitPowerLawSample (⟨fin 2⟩ : Gen.UnitPowerLaw X) ([0, 2 ^ 64 - 1].map open01),
    Gen.UnitPowerLaw.supports_real (⟨fin 2⟩ : Gen.UnitPowerLaw X) x = true :=
  UnitPowerLaw_sample_supported 2 (by norm_num) _ (by intro w hw; simp at hw; rcases hw with rfl | rfl <;> norm_num)

/-! ## Geometric -/

-- @site Geometric.draw
/-- LAW of the inversion method (used for `3p ≤ 1`): for a variate `u < 1`, the value is the index `k` of the interval
    `cdf(k−1) < u ≤ cdf(k)` (`cdf(k) = 1 − (1−p)^{k+1}`, `cdf(−1) = 0`), saturated at the largest value of the kind.
    These intervals partition `(0, 1)`, each has length `pmf(k) = p(1−p)^k`; the variate `0` belongs to none of them —
    see `Geometric_inversion_counterexample`. -/
theorem Geometric_inversion_interval (kbits : Nat) (p u : R) (hp0 : 0 < p.val) (hp1 : p.val < 1) (hu1 : u.val < 1)
    (k : Nat) (hlo : 1 - (1 - p.val) ^ k < u.val) (hhi : u.val ≤ 1 - (1 - p.val) ^ (k + 1)) :
    geomInversion kbits p u = min k (2 ^ kbits - 1) := by
  have hq0 : 0 < 1 - p.val := by linarith
  have hq1 : 1 - p.val < 1 := by linarith
  have hlq : Real.log (1 - p.val) < 0 := Real.log_neg hq0 hq1
  have hm : 0 < 1 - u.val := by linarith
  have hL1 : (k : ℝ) < Real.log (1 - u.val) / Real.log (1 - p.val) := by
    rw [lt_div_iff_of_neg hlq, ← Real.log_pow]
    exact Real.log_lt_log hm (by linarith)
  have hL2 : Real.log (1 - u.val) / Real.log (1 - p.val) ≤ (k : ℝ) + 1 := by
    rw [div_le_iff_of_neg hlq]
    have : ((k : ℝ) + 1) * Real.log (1 - p.val) = Real.log ((1 - p.val) ^ (k + 1)) := by
      rw [Real.log_pow]; push_cast; ring
    rw [this]
    exact Real.log_le_log (by positivity) (by linarith)
  have hceil : ⌈Real.log (1 - u.val) / Real.log (1 - p.val)⌉ = (k : ℤ) + 1 := by
    rw [Int.ceil_eq_iff]; push_cast; constructor <;> linarith
  have hv : RealLike.ceil (RealLike.logb ((1.0 : R) - u) ((1.0 : R) - p)) - (1.0 : R) = ⟨(k : ℝ)⟩ := by
    apply R.ext'
    show ((⌈(RealLike.logb ((1.0 : R) - u) ((1.0 : R) - p)).val⌉ : ℤ) : ℝ) - (1.0 : R).val = (k : ℝ)
    have e : (RealLike.logb ((1.0 : R) - u) ((1.0 : R) - p)).val =
        Real.log (1 - u.val) / Real.log (1 - p.val) := by
      simp only [RealLike.logb, R.div_val, R.ln_val, R.sub_val, R.sci_val]; norm_num
    rw [e, hceil, R.sci_val]; push_cast; norm_num
  unfold geomInversion
  rw [hv, fromF64OrMax_natCast]

example : geomInversion 8 (⟨1/4⟩ : R) ⟨1/2⟩ = 2 := by
  rw [Geometric_inversion_interval 8 ⟨1/4⟩ ⟨1/2⟩ (by norm_num) (by norm_num) (by norm_num) 2 (by norm_num) (by norm_num)]
  norm_num

-- @site Geometric.draw
/-- LAW for EVERY generator word (after the repair ca0686c: `Open01`, variate in `(0,1)`): the value is the index `k ≥ 0` of
    the interval `cdf(k−1) < u ≤ cdf(k)` containing the variate, saturated at the largest value of the kind — the extremes
    `w = 0` and `w = u64::MAX` included.  (With the former `Uniform::new(0,1)` the variate `0` lay in no interval and gave
    `X::MAX`.) -/
theorem Geometric_inversion_every_word (kbits : Nat) (p : R) (hp0 : 0 < p.val) (hp1 : p.val < 1) (w : Nat)
    (hw : w < 2 ^ 64) :
    ∃ k : Nat, geomInversion kbits p (open01 w) = min k (2 ^ kbits - 1) ∧
      1 - (1 - p.val) ^ k < (open01 w : R).val ∧ (open01 w : R).val ≤ 1 - (1 - p.val) ^ (k + 1) := by
  obtain ⟨h0, h1⟩ := C13.open01_range w hw
  have hpos : (0:ℝ) < 1 / 2 ^ 53 := by positivity
  set u := (open01 w : R).val with hu
  have hu0 : 0 < u := by linarith
  have hu1 : u < 1 := by linarith
  have hq0 : 0 < 1 - p.val := by linarith
  have hq1 : 1 - p.val < 1 := by linarith
  have hlq : Real.log (1 - p.val) < 0 := Real.log_neg hq0 hq1
  have hlm : Real.log (1 - u) < 0 := Real.log_neg (by linarith) (by linarith)
  have hL : 0 < Real.log (1 - u) / Real.log (1 - p.val) := div_pos_of_neg_of_neg hlm hlq
  have hc1 : 1 ≤ ⌈Real.log (1 - u) / Real.log (1 - p.val)⌉ := by
    have := Int.ceil_pos.mpr hL; omega
  obtain ⟨k, hk⟩ : ∃ k : Nat, ⌈Real.log (1 - u) / Real.log (1 - p.val)⌉ = (k : ℤ) + 1 :=
    ⟨(⌈Real.log (1 - u) / Real.log (1 - p.val)⌉ - 1).toNat, by omega⟩
  have hk1 : (k : ℝ) < Real.log (1 - u) / Real.log (1 - p.val) := by
    have := Int.lt_ceil.mp (show (k : ℤ) < ⌈Real.log (1 - u) / Real.log (1 - p.val)⌉ by omega)
    simpa using this
  have hk2 : Real.log (1 - u) / Real.log (1 - p.val) ≤ (k : ℝ) + 1 := by
    have := Int.le_ceil (Real.log (1 - u) / Real.log (1 - p.val))
    rw [hk] at this; push_cast at this; exact this
  have hlo : 1 - (1 - p.val) ^ k < u := by
    rw [lt_div_iff_of_neg hlq, ← Real.log_pow] at hk1
    have := (Real.log_lt_log_iff (by linarith) (by positivity)).mp hk1
    linarith
  have hhi : u ≤ 1 - (1 - p.val) ^ (k + 1) := by
    rw [div_le_iff_of_neg hlq] at hk2
    have e : ((k : ℝ) + 1) * Real.log (1 - p.val) = Real.log ((1 - p.val) ^ (k + 1)) := by
      rw [Real.log_pow]; push_cast; ring
    rw [e] at hk2
    have := (Real.log_le_log_iff (by positivity) (by linarith)).mp hk2
    linarith
  exact ⟨k, Geometric_inversion_interval kbits p (open01 w) hp0 hp1 hu1 k hlo hhi, hlo, hhi⟩

example : ∃ k : Nat, geomInversion 8 (⟨1/4⟩ : R) (open01 0) = min k (2 ^ 8 - 1) ∧
    1 - (1 - (1/4 : ℝ)) ^ k < (open01 0 : R).val :=
  (Geometric_inversion_every_word 8 ⟨1/4⟩ (by norm_num) (by norm_num) 0 (by norm_num)).imp fun _ h => ⟨h.1, h.2.1⟩

-- @site Geometric.draw
/-- LAW of the search method (used for `3p > 1`), `0 < p < 1`: whenever the loop returns, the value is the index `k` with
    `cdf(k−1) < u ≤ cdf(k)` (saturated at the largest value of the kind); the variate `0` gives `0`.  Over exact arithmetic
    the stagnation `break` added by the repair ca0686c never fires (`prod·q > 0`). -/
theorem Geometric_search_interval (kbits fuel : Nat) (p u : R) (hp0 : 0 < p.val) (hp1 : p.val < 1) (t : Nat)
    (h : geomSearch kbits fuel p u = some t) :
    ∃ k, t = min k (2 ^ kbits - 1) ∧ u.val ≤ 1 - (1 - p.val) ^ (k + 1) ∧ (k = 0 ∨ 1 - (1 - p.val) ^ k < u.val) := by
  unfold geomSearch at h
  have e1 : ((1.0 : R) - p).val = 1 - p.val := by simp only [R.sub_val, R.sci_val]; norm_num
  obtain ⟨k, _, h1, h2, h3⟩ := geomSearchLoop_spec kbits ((1.0 : R) - p) u (by rw [e1]; linarith) (by rw [e1]; linarith)
    fuel 0 0 p p t (by simp) (by rw [e1]; ring) (by rw [e1]; ring) h
  rw [e1] at h2 h3
  exact ⟨k, h1, h2, h3⟩

example (t : Nat) (h : geomSearch 8 100 (⟨1/2⟩ : R) ⟨0.7⟩ = some t) :
    ∃ k, t = min k (2 ^ 8 - 1) ∧ (0.7 : ℝ) ≤ 1 - (1 - (1/2 : ℝ)) ^ (k + 1) := by
  obtain ⟨k, h1, h2, _⟩ := Geometric_search_interval 8 100 ⟨1/2⟩ ⟨0.7⟩ (by norm_num) (by norm_num) t h
  exact ⟨k, h1, by simpa using h2⟩

-- @site Geometric.draw
/-- TERMINATION over exact arithmetic: for `1/3 < p ≤ 1` (the range in which `draw` uses the search) and EVERY 64-bit
    generator word the `while u > sum` loop stops within 100 iterations (`(2/3)^{100} < 2⁻⁵³ ≤ 1 − std01 w`).
    In binary64 the partial sums can stagnate below the top variate; since the repair ca0686c the loop then leaves through
    `if next == sum { break; }` (modelled in `geomSearchLoop`; implementation and model agree bit for bit on the former
    hang witnesses, e.g. `draw.Geometric u8 x3fec23dc0bf3cd12 L1 18446744073709551615` ↦ `17 T 1`). -/
theorem Geometric_search_terminates (kbits : Nat) (p : R) (hp0 : 1 / 3 < p.val) (hp1 : p.val ≤ 1) (w : Nat)
    (hw : w < 2 ^ 64) : ∃ t, geomSearch kbits 100 p (std01 w) = some t := by
  obtain ⟨_, h1, _⟩ := C13.std01_range w hw
  have e1 : ((1.0 : R) - p).val = 1 - p.val := by simp only [R.sub_val, R.sci_val]; norm_num
  unfold geomSearch
  apply geomSearchLoop_terminates kbits ((1.0 : R) - p) (std01 w) 100 0 0 p p (by norm_num)
    (by rw [e1]; ring) (by rw [e1]; ring)
  rw [e1]
  have hq : (1 - p.val) ^ (0 + 100) ≤ ((2:ℝ) / 3) ^ 100 :=
    pow_le_pow_left₀ (by linarith) (by linarith) _
  have : ((2:ℝ) / 3) ^ 100 < 1 / 2 ^ 53 := by norm_num
  have hq' := lt_of_le_of_lt hq this
  generalize (1 - p.val) ^ (0 + 100) = A at hq' ⊢
  linarith

example : ∃ t, geomSearch 32 100 (⟨1/2⟩ : R) (std01 (2 ^ 64 - 1)) = some t :=
  Geometric_search_terminates 32 _ (by norm_num) (by norm_num) _ (by norm_num)

-- @site Geometric.draw
/-- every value of an unsigned kind is supported (`Geometric::supports` is `k >= 0`) -/
theorem Geometric_draw_supported (d : Gen.Geometric X) (k : Nat) : Gen.Geometric.supports_nat d k = true := by
  simp [Gen.Geometric.supports_nat]

example : Gen.Geometric.supports_nat (⟨fin 0.5⟩ : Gen.Geometric X) 255 = true := Geometric_draw_supported _ _

/-! ## DiscreteUniform (through `rand`'s `UniformInt`) -/

-- @site DiscreteUniform.draw
/-- SUPPORT for every word stream: whenever the widening-multiply rejection loop of `Uniform::new_inclusive(a, b)` returns
    (`a ≤ b`, the range fits the type), the value lies in `[a, b]` -/
theorem DiscreteUniform_draw_in_range (tbits : Nat) (ht : 0 < tbits) (signed : Bool) (fuel : Nat)
    (d : Gen.DiscreteUniform R) (ws : List Nat) (x : Int) (c : Nat) (hab : d.a ≤ d.b)
    (hfit : d.b - d.a + 1 < 2 ^ tbits)
    (h : discreteUniformDraw tbits signed fuel d ws = .ok x c) : d.a ≤ x ∧ x ≤ d.b := by
  unfold discreteUniformDraw uniformIntDraw at h
  rw [if_neg (by omega)] at h
  simp only [] at h
  have hmod : (d.b - d.a + 1) % (2 ^ tbits : Int) = d.b - d.a + 1 := Int.emod_eq_of_lt (by omega) hfit
  rw [hmod] at h
  have hr : 0 < (d.b - d.a + 1).toNat := by omega
  rw [if_neg (by omega)] at h
  have hl : largeBits tbits = 32 ∨ largeBits tbits = 64 := by
    unfold largeBits; split <;> simp
  obtain ⟨h1, h2, _⟩ := uniformIntLoop_range _ hl d.a _ _ hr ws fuel 0 x c h
  have : ((d.b - d.a + 1).toNat : Int) = d.b - d.a + 1 := Int.toNat_of_nonneg (by omega)
  omega

example (x : Int) (c : Nat) (h : discreteUniformDraw 8 false 100 (⟨3, 10⟩ : Gen.DiscreteUniform R) [2 ^ 64 - 1, 0] = .ok x c) :
    3 ≤ x ∧ x ≤ 10 :=
  DiscreteUniform_draw_in_range 8 (by norm_num) false 100 _ _ x c (by norm_num) (by norm_num) h

-- @site DiscreteUniform.sample
/-- the separate `sample` (`rng.sample_iter(&d).take(n)`) threads the SAME per-element sampler as `draw` over the stream -/
theorem DiscreteUniform_sample_eq_iter_draw {α : Type} [RealLike α] (tbits : Nat) (signed : Bool) (fuel : Nat)
    (d : Gen.DiscreteUniform α) (n : Nat) (ws : List Nat) :
    discreteUniformSample tbits signed fuel d n ws = iterDraws (uniformIntDraw tbits signed fuel d.a d.b ws) n 0 ∧
      discreteUniformDraw tbits signed fuel d ws = uniformIntDraw tbits signed fuel d.a d.b ws 0 := ⟨rfl, rfl⟩

example : discreteUniformDraw 8 false 100 (⟨3, 10⟩ : Gen.DiscreteUniform R) [7] = uniformIntDraw 8 false 100 3 10 [7] 0 :=
  (DiscreteUniform_sample_eq_iter_draw 8 false 100 (⟨3, 10⟩ : Gen.DiscreteUniform R) 0 [7]).2

-- @site DiscreteUniform.sample
/-- `sample(n)` returns `n` values whenever it returns -/
theorem DiscreteUniform_sample_length {α : Type} [RealLike α] (tbits : Nat) (signed : Bool) (fuel : Nat)
    (d : Gen.DiscreteUniform α) (n : Nat) (ws : List Nat) (xs : List Int) (c : Nat)
    (h : discreteUniformSample tbits signed fuel d n ws = .ok xs c) : xs.length = n :=
  iterDraws_length _ n 0 xs c h

example : discreteUniformSample 8 false 100 (⟨3, 10⟩ : Gen.DiscreteUniform R) 0 [] = .ok [] 0 := rfl

/-! ## Categorical -/

-- @site Categorical.sample
/-- the separate `sample` (`ln_pflips(…, n, true, rng)`, cumulative weights computed once) maps the same per-element
    function as `draw` (`ln_pflips(…, 1, true, rng)[0]`) over the variates; a panic of one element is a panic of the call -/
theorem Categorical_sample_eq_draws {α : Type} [RealLike α] (d : Gen.Categorical α) (us : List α) :
    categoricalSample d us = collect (us.map (categoricalDraw d)) := by
  have e : categoricalDraw d = fun u => Gen.catflip (lnCws d.ln_weights true)
      (u * (lnCws d.ln_weights true).getLast?.getD (1.0 : α)) := by
    funext u; simp [categoricalDraw, lnPflips]
  simp [categoricalSample, lnPflipsAll, lnPflips, e]

example : categoricalSample (⟨[⟨0⟩]⟩ : Gen.Categorical R) [⟨0.5⟩] =
    collect ([(⟨0.5⟩ : R)].map (categoricalDraw (⟨[⟨0⟩]⟩ : Gen.Categorical R))) := Categorical_sample_eq_draws _ _

-- @site Categorical.draw
/-- TOTALITY for every generator word (`Open01`), log-weights in `ℝ ∪ {-inf}` with at least one finite entry and
    `Σ exp = 1` over exact arithmetic (`C13.lnPflips_every_word`): the draw is an index inside the weight vector
    (`Categorical::supports`) and never one of weight zero.  (In binary64 the rounded sum may fall below the largest
    variate: the panic found by C13B; repaired by 2d99e05 — `ln_pflips` now scales the variate by the rounded total,
    `C13.scaled_variate_rounds_below`.) -/
theorem Categorical_draw_supported (lnw : List X) (hw : ∀ w ∈ lnw, IsFinOrNinf w) (hfin : fins lnw ≠ [])
    (hl : C13.FuelOK lnw.length) (hn : ((fins lnw).map Real.exp).sum = 1) (w : Nat) (hw64 : w < 2 ^ 64) :
    ∃ i, categoricalDraw (⟨lnw⟩ : Gen.Categorical X) (open01 w) = some i ∧ i < lnw.length ∧ idxR lnw i ≠ ninf := by
  have h := C13.lnPflips_every_word lnw hw hfin hl true (fun _ => hn) [w] (by simpa using hw64)
  simp only [lnPflips, List.map_cons, List.map_nil, List.mem_singleton, forall_eq] at h
  simpa [categoricalDraw, lnPflips] using h

example : ∃ i, categoricalDraw (⟨[fin 0, ninf]⟩ : Gen.Categorical X) (open01 (2 ^ 64 - 1)) = some i ∧ i < 2 := by
  obtain ⟨i, h1, h2, _⟩ := Categorical_draw_supported [fin 0, ninf] (by simp) (by simp)
    (C13.length_lt_fuel _ (by simp)) (by simp) (2 ^ 64 - 1) (by norm_num)
  exact ⟨i, h1, h2⟩

/-! ## InvGaussian (transform of a normal variate `v` and a uniform variate `z`) -/

-- @site InvGaussian.draw
/-- for valid parameters and EVERY normal variate `v` and uniform variate `z` the draw is a positive real: the smaller root
    `x` of the Michael–Schucany–Haas transform is positive, and the other branch returns `mu²/x` -/
theorem InvGaussian_draw_pos (d : Gen.InvGaussian R) (v z : R) (hm : 0 < d.mu.val) (hl : 0 < d.lambda'.val) :
    0 < (invGaussianDraw d v z).val := by
  have hx := igRoot_pos d v hm hl
  rw [invGaussianDraw_eq]
  split
  · exact hx
  · exact div_pos (mul_pos hm hm) hx

example : 0 < (invGaussianDraw (⟨⟨1⟩, ⟨2⟩⟩ : Gen.InvGaussian R) ⟨-0.7⟩ ⟨0.9⟩).val :=
  InvGaussian_draw_pos _ _ _ (by norm_num) (by norm_num)

-- @site InvGaussian.draw
/-- the two branches are the two roots `x` and `mu²/x` (product `mu²`); `x` is returned iff `z ≤ mu / (mu + x)`, i.e. with
    probability `mu / (mu + x)` when `z` is uniform — the Michael–Schucany–Haas selection rule -/
theorem InvGaussian_draw_branches (d : Gen.InvGaussian R) (v z : R) (hm : 0 < d.mu.val) (hl : 0 < d.lambda'.val) :
    ((invGaussianDraw d v z).val = (igRoot d v).val ↔ z.val ≤ d.mu.val / (d.mu.val + (igRoot d v).val) ∨
        (igRoot d v).val = d.mu.val) ∧
      ((invGaussianDraw d v z).val = (igRoot d v).val ∨
        (invGaussianDraw d v z).val * (igRoot d v).val = d.mu.val * d.mu.val) := by
  have hx := igRoot_pos d v hm hl
  rw [invGaussianDraw_eq]
  split
  · rename_i h
    rw [R.le_iff] at h
    exact ⟨⟨fun _ => Or.inl h, fun _ => rfl⟩, Or.inl rfl⟩
  · rename_i h
    rw [Bool.not_eq_true, R.le_false_iff] at h
    refine ⟨⟨fun e => Or.inr ?_, fun e => ?_⟩, Or.inr ?_⟩
    · simp only [R.div_val, R.mul_val] at e
      rw [div_eq_iff hx.ne'] at e
      nlinarith
    · rcases e with e | e
      · exact absurd e h
      · simp only [R.div_val, R.mul_val, e]; field_simp
    · simp only [R.div_val, R.mul_val]; field_simp

example : 0 < (igRoot (⟨⟨1⟩, ⟨2⟩⟩ : Gen.InvGaussian R) ⟨-0.7⟩).val := igRoot_pos _ _ (by norm_num) (by norm_num)

/-! ## VonMises (Best–Fisher rejection loop) -/

-- @site VonMises.draw
/-- the `panic!("VonMises does not support {}")` branch is dead over exact arithmetic: `rem_euclid(2π)` lands in `[0, 2π)`,
    for every word stream, every parameter, every amount of fuel -/
theorem VonMises_draw_no_panic (fuel : Nat) (d : Gen.VonMises R) (ws : List Nat) (i : Nat) :
    vonMisesDraw fuel d ws i ≠ .panic := by
  unfold vonMisesDraw vonMisesDrawWith
  generalize vonMisesRWith mulAdd d.k = r
  induction fuel generalizing i with
  | zero => simp [vonMisesLoopWith]
  | succ f ih =>
    unfold vonMisesLoopWith
    have hnp := vonMisesStep_not_panic d r (open01 (wordAt ws i)) (open01 (wordAt ws (i + 1))) (open01 (wordAt ws (i + 2)))
    split
    · simp
    · rename_i h; exact absurd h hnp
    · exact ih (i + 2)

example : vonMisesDraw 10 (⟨⟨1⟩, ⟨2⟩, ⟨0⟩⟩ : Gen.VonMises R) [1, 2, 3] 0 ≠ .panic := VonMises_draw_no_panic _ _ _ _

-- @site VonMises.draw
/-- every returned draw is in the support `[0, 2π]` (the code checks it before returning) -/
theorem VonMises_draw_supported {α : Type} [RealLike α] (fma : α → α → α → α) (fuel : Nat) (d : Gen.VonMises α)
    (ws : List Nat) (i : Nat) (x : α) (c : Nat) (h : vonMisesDrawWith fma fuel d ws i = .ok x c) :
    Gen.VonMises.supports_real d x = true := by
  unfold vonMisesDrawWith at h
  generalize vonMisesRWith fma d.k = r at h
  induction fuel generalizing i with
  | zero => simp [vonMisesLoopWith] at h
  | succ f ih =>
    unfold vonMisesLoopWith at h
    split at h
    · rename_i y hstep
      simp only [Outcome.ok.injEq] at h
      unfold vonMisesStepWith at hstep
      simp only [] at hstep
      split at hstep
      · split at hstep
        · rename_i hs
          simp only [Option.some.injEq] at hstep
          rw [← h.1, ← hstep]; exact hs
        · simp at hstep
      · simp at hstep
    · cases h
    · exact ih (i + 2) h

example (x : R) (c : Nat) (h : vonMisesDrawWith mulAdd 10 (⟨⟨1⟩, ⟨2⟩, ⟨0⟩⟩ : Gen.VonMises R) [1, 2, 3] 0 = .ok x c) :
    Gen.VonMises.supports_real (⟨⟨1⟩, ⟨2⟩, ⟨0⟩⟩ : Gen.VonMises R) x = true :=
  VonMises_draw_supported _ _ _ _ _ _ _ h

-- @site VonMises.draw
/-- NO HANG (after the repair 29e267e: Best & Fisher's `ρ = (τ − √(2τ))/(2κ)`, hence `r = τ/(2κ)` and `c₀ = κ(r−1) ∈ (½, 1)`):
    for EVERY `κ > 0` a pass of the loop is accepted by the first test `c(2 − c) − u₂ ≥ 0` whenever `κ·(π u₁)² ≤ 1` and
    `u₂ ≤ ¾` — a rectangle of area `¾ · min(1, 1/(π√κ))` of the unit square of `(u₁, u₂)`.  With independent uniform variates
    the number of passes is therefore dominated by a geometric variable of mean `(4/3)·max(1, π√κ)`.  (Before the repair
    EVERY pair of variates was rejected for `κ = 30`.) -/
theorem VonMises_accept_region (d : Gen.VonMises R) (hk : 0 < d.k.val) (u1 u2 u3 : R)
    (h1 : d.k.val * (π * u1.val) ^ 2 ≤ 1) (h2 : u2.val ≤ 3 / 4) :
    ∃ x : R, vonMisesStepWith mulAdd d (vonMisesRWith mulAdd d.k) u1 u2 u3 = some (some x) ∧
      Gen.VonMises.supports_real d x = true := by
  have ha := vonMisesStep_accepts d hk u1 u2 u3 h1 h2
  have hp := vonMisesStep_not_panic d (vonMisesRWith mulAdd d.k) u1 u2 u3
  cases h : vonMisesStepWith mulAdd d (vonMisesRWith mulAdd d.k) u1 u2 u3 with
  | none => exact absurd h ha
  | some o =>
    cases o with
    | none => exact absurd h hp
    | some x =>
      refine ⟨x, rfl, ?_⟩
      unfold vonMisesStepWith at h
      simp only [] at h
      split at h
      · split at h
        · rename_i hs
          simp only [Option.some.injEq] at h
          rw [← h]; exact hs
        · simp at h
      · simp at h

example : ∃ x : R, vonMisesStepWith mulAdd (⟨⟨1⟩, ⟨30⟩, ⟨0⟩⟩ : Gen.VonMises R) (vonMisesRWith mulAdd ⟨30⟩) ⟨0.01⟩ ⟨0.5⟩ ⟨0.9⟩ =
    some (some x) := by
  obtain ⟨x, h, _⟩ := VonMises_accept_region (⟨⟨1⟩, ⟨30⟩, ⟨0⟩⟩ : Gen.VonMises R) (by norm_num) ⟨0.01⟩ ⟨0.5⟩ ⟨0.9⟩
    (by
      have h4 := Real.pi_le_four
      have hp := Real.pi_pos
      show (30:ℝ) * (π * 0.01) ^ 2 ≤ 1
      have : π * 0.01 ≤ 0.04 := by linarith
      have h0 : 0 ≤ π * 0.01 := by positivity
      nlinarith) (by norm_num)
  exact ⟨x, h⟩

-- @site VonMises.draw
/-- consequently `draw` returns at its FIRST pass (three words consumed, supported value) on every word stream whose first
    two `Open01` variates lie in that rectangle, for every `κ > 0` and any positive fuel -/
theorem VonMises_draw_first_pass (fuel : Nat) (d : Gen.VonMises R) (hk : 0 < d.k.val) (ws : List Nat) (i : Nat)
    (h1 : d.k.val * (π * (open01 (wordAt ws i) : R).val) ^ 2 ≤ 1) (h2 : (open01 (wordAt ws (i + 1)) : R).val ≤ 3 / 4) :
    ∃ x : R, vonMisesDraw (fuel + 1) d ws i = .ok x (i + 3) ∧ Gen.VonMises.supports_real d x = true := by
  obtain ⟨x, hx, hs⟩ := VonMises_accept_region d hk (open01 (wordAt ws i)) (open01 (wordAt ws (i + 1)))
    (open01 (wordAt ws (i + 2))) h1 h2
  refine ⟨x, ?_, hs⟩
  unfold vonMisesDraw vonMisesDrawWith vonMisesLoopWith
  rw [hx]

example : ∃ x : R, vonMisesDraw 1 (⟨⟨1⟩, ⟨2⟩, ⟨0⟩⟩ : Gen.VonMises R) [0, 0, 0] 0 = .ok x 3 := by
  have hv : (open01 0 : R).val = 1 / 2 ^ 53 := by rw [C13.open01_val]; norm_num
  obtain ⟨x, h, _⟩ := VonMises_draw_first_pass 0 (⟨⟨1⟩, ⟨2⟩, ⟨0⟩⟩ : Gen.VonMises R) (by norm_num) [0, 0, 0] 0
    (by
      show (2:ℝ) * (π * (open01 0 : R).val) ^ 2 ≤ 1
      rw [hv]
      have h4 := Real.pi_le_four
      have hp := Real.pi_pos
      have : π * (1 / 2 ^ 53) ≤ 1 / 2 := by
        have : (1:ℝ) / 2 ^ 53 ≤ 1 / 8 := by norm_num
        nlinarith
      have h0 : 0 ≤ π * (1 / 2 ^ 53) := by positivity
      nlinarith)
    (by show (open01 0 : R).val ≤ 3 / 4; rw [hv]; norm_num)
  exact ⟨x, h⟩

/-! ## (e) re-parameterisation of the delegating samplers

  `Hand.RD.*Pdf` are the densities documented by `rand_distr-0.4.3` for its constructors; the theorems say that, at the
  constructor arguments the code passes (`Hand.*Call`, transcribed from the Rust lines cited in Hand/Draw.lean), that density
  is the exponential of the object's own generated `ln_f`.  (That `rand_distr`'s samplers have the documented law is outside
  the model: it is tested statistically by `drawchk` / `props/C04.py`.) -/

-- @site Gamma.draw
/-- `Gamma::draw` calls `rand_distr::Gamma::new(shape, 1/rate)` (shape, SCALE): the density rand_distr documents for these
    arguments is the exponential of rv's own `Gamma::ln_f` (shape, RATE) -/
theorem Gamma_reparam (d : Gen.Gamma R) (y : R) (hs : 0 < d.shape.val) (hr : 0 < d.rate.val) (hy : 0 < y.val) :
    (gammaCall d).args = [d.shape, (1.0 : R) / d.rate] ∧
      (RD.gammaPdf d.shape ((1.0 : R) / d.rate) y).val = Real.exp (Gen.Gamma.ln_f_real d y).val := by
  refine ⟨rfl, ?_⟩
  have hθ : ((1.0 : R) / d.rate).val = 1 / d.rate.val := by simp only [R.div_val, R.sci_val]; norm_num
  rw [gammaPdf_val _ _ _ hs (by rw [hθ]; positivity) hy, hθ]
  congr 1
  simp only [Gen.Gamma.ln_f_real, Gen.Gamma.ln_rate, Gen.Gamma.ln_gamma_shape, mulAdd, R.add_val, R.mul_val,
    R.neg_val, R.sub_val, R.ln_val, R.lgamma_val, R.sci_val]
  rw [one_div, Real.log_inv]
  norm_num
  field_simp
  ring

example : (RD.gammaPdf (⟨2⟩ : R) ((1.0 : R) / ⟨3⟩) ⟨0.5⟩).val =
    Real.exp (Gen.Gamma.ln_f_real (⟨⟨2⟩, ⟨3⟩⟩ : Gen.Gamma R) ⟨0.5⟩).val :=
  (Gamma_reparam (⟨⟨2⟩, ⟨3⟩⟩ : Gen.Gamma R) ⟨0.5⟩ (by norm_num) (by norm_num) (by norm_num)).2

-- @site InvGamma.draw
/-- `InvGamma::draw` returns `1 / Y`, `Y ~ rand_distr::Gamma::new(shape, 1/scale)`: the density of `1/Y` (change of variables
    `g(1/x)/x²`) is the exponential of rv's own `InvGamma::ln_f` -/
theorem InvGamma_reparam (d : Gen.InvGamma R) (x : R) (hs : 0 < d.shape.val) (hb : 0 < d.scale.val) (hx : 0 < x.val) :
    (invGammaCall d).args = [d.shape, RealLike.recip d.scale] ∧ (invGammaCall d).post = "recip" ∧
      (RD.recipPdf (RD.gammaPdf d.shape (RealLike.recip d.scale)) x).val =
        Real.exp (Gen.InvGamma.ln_f_real d x).val := by
  refine ⟨rfl, rfl, ?_⟩
  have hθ : (RealLike.recip d.scale).val = 1 / d.scale.val := by
    simp only [RealLike.recip, R.div_val, R.sci_val]; norm_num
  have hix : ((1.0 : R) / x).val = 1 / x.val := by simp only [R.div_val, R.sci_val]; norm_num
  have e : (RD.recipPdf (RD.gammaPdf d.shape (RealLike.recip d.scale)) x).val =
      (RD.gammaPdf d.shape (RealLike.recip d.scale) ((1.0 : R) / x)).val / (x.val * x.val) := rfl
  rw [e, gammaPdf_val _ _ _ hs (by rw [hθ]; positivity) (by rw [hix]; positivity), hθ, hix]
  have hxx : x.val * x.val = Real.exp (2 * Real.log x.val) := by
    rw [two_mul, Real.exp_add, Real.exp_log hx]
  rw [hxx, ← Real.exp_sub]
  congr 1
  simp only [Gen.InvGamma.ln_f_real, mulAdd, R.add_val, R.mul_val, R.neg_val, R.sub_val, R.ln_val, R.lgamma_val,
    R.div_val, R.sci_val]
  rw [one_div, one_div, Real.log_inv, Real.log_inv]
  norm_num
  field_simp
  ring

example : (RD.recipPdf (RD.gammaPdf (⟨2⟩ : R) (RealLike.recip ⟨3⟩)) ⟨0.5⟩).val =
    Real.exp (Gen.InvGamma.ln_f_real (⟨⟨2⟩, ⟨3⟩⟩ : Gen.InvGamma R) ⟨0.5⟩).val :=
  (InvGamma_reparam (⟨⟨2⟩, ⟨3⟩⟩ : Gen.InvGamma R) ⟨0.5⟩ (by norm_num) (by norm_num) (by norm_num)).2.2

-- @site ScaledInvChiSquared.draw
/-- `ScaledInvChiSquared(v, t2)::draw` draws from `InvGamma(v/2, v·t2/2)`: the two generated log-densities coincide -/
theorem ScaledInvChiSquared_reparam (d : Gen.ScaledInvChiSquared R) (x : R) (hv : 0 < d.v.val) (ht : 0 < d.t2.val)
    (hx : 0 < x.val) :
    (Gen.ScaledInvChiSquared.ln_f_real d x).val =
      (Gen.InvGamma.ln_f_real (scaledInvChiSquaredAsInvGamma d) x).val := by
  simp only [Gen.ScaledInvChiSquared.ln_f_real, Gen.ScaledInvChiSquared.ln_f_const,
    Gen.ScaledInvChiSquared.ln_gamma_v_2, Gen.InvGamma.ln_f_real, scaledInvChiSquaredAsInvGamma, mulAdd, R.add_val,
    R.mul_val, R.neg_val, R.sub_val, R.ln_val, R.lgamma_val, R.div_val, R.sci_val]
  have e1 : d.t2.val * d.v.val * (0.5:ℝ) = (0.5:ℝ) * d.v.val * d.t2.val := by ring
  have e2 : d.v.val / (2.0:ℝ) = (0.5:ℝ) * d.v.val := by norm_num; ring
  rw [e1, e2]
  norm_num
  field_simp
  ring

example : (Gen.ScaledInvChiSquared.ln_f_real (⟨⟨3⟩, ⟨2⟩⟩ : Gen.ScaledInvChiSquared R) ⟨0.5⟩).val =
    (Gen.InvGamma.ln_f_real (scaledInvChiSquaredAsInvGamma (⟨⟨3⟩, ⟨2⟩⟩ : Gen.ScaledInvChiSquared R)) ⟨0.5⟩).val :=
  ScaledInvChiSquared_reparam _ _ (by norm_num) (by norm_num) (by norm_num)

-- @site ChiSquared.draw
/-- `ChiSquared::draw` calls `rand_distr::ChiSquared::new(k)`, documented as `Gamma(k/2, scale 2)`: its density is the
    exponential of rv's own `ChiSquared::ln_f` -/
theorem ChiSquared_reparam (d : Gen.ChiSquared R) (x : R) (hk : 0 < d.k.val) (hx : 0 < x.val) :
    (chiSquaredCall d).args = [d.k] ∧
      (RD.chiSquaredPdf d.k x).val = Real.exp (Gen.ChiSquared.ln_f_real d x).val := by
  refine ⟨rfl, ?_⟩
  have hk2 : (d.k / (2.0 : R)).val = d.k.val / 2 := by simp only [R.div_val, R.sci_val]; norm_num
  have h2 : ((2.0 : R)).val = 2 := by simp only [R.sci_val]; norm_num
  unfold RD.chiSquaredPdf
  rw [gammaPdf_val _ _ _ (by rw [hk2]; positivity) (by rw [h2]; norm_num) hx, hk2, h2]
  congr 1
  simp only [Gen.ChiSquared.ln_f_real, mulAdd, R.add_val, R.mul_val, R.neg_val, R.sub_val, R.ln_val, R.lgamma_val,
    R.div_val, R.sci_val, R.ln2_val]
  norm_num
  ring

example : (RD.chiSquaredPdf (⟨3⟩ : R) ⟨0.5⟩).val = Real.exp (Gen.ChiSquared.ln_f_real (⟨⟨3⟩⟩ : Gen.ChiSquared R) ⟨0.5⟩).val :=
  (ChiSquared_reparam (⟨⟨3⟩⟩ : Gen.ChiSquared R) ⟨0.5⟩ (by norm_num) (by norm_num)).2

-- @site InvChiSquared.draw
/-- `InvChiSquared::draw` returns the reciprocal of a `rand_distr::ChiSquared::new(v)` variate: the density of the reciprocal
    is the exponential of rv's own `InvChiSquared::ln_f` -/
theorem InvChiSquared_reparam (d : Gen.InvChiSquared R) (x : R) (hv : 0 < d.v.val) (hx : 0 < x.val) :
    (invChiSquaredCall d).args = [d.v] ∧ (invChiSquaredCall d).post = "recip" ∧
      (RD.recipPdf (RD.chiSquaredPdf d.v) x).val = Real.exp (Gen.InvChiSquared.ln_f_real d x).val := by
  refine ⟨rfl, rfl, ?_⟩
  have hk2 : (d.v / (2.0 : R)).val = d.v.val / 2 := by simp only [R.div_val, R.sci_val]; norm_num
  have h2 : ((2.0 : R)).val = 2 := by simp only [R.sci_val]; norm_num
  have hix : ((1.0 : R) / x).val = 1 / x.val := by simp only [R.div_val, R.sci_val]; norm_num
  have e : (RD.recipPdf (RD.chiSquaredPdf d.v) x).val =
      (RD.gammaPdf (d.v / (2.0 : R)) (2.0 : R) ((1.0 : R) / x)).val / (x.val * x.val) := rfl
  rw [e, gammaPdf_val _ _ _ (by rw [hk2]; positivity) (by rw [h2]; norm_num) (by rw [hix]; positivity), hk2, h2, hix]
  have hxx : x.val * x.val = Real.exp (2 * Real.log x.val) := by
    rw [two_mul, Real.exp_add, Real.exp_log hx]
  rw [hxx, ← Real.exp_sub]
  congr 1
  simp only [Gen.InvChiSquared.ln_f_real, Gen.InvChiSquared.ln_f_const, RealLike.recip, mulAdd, R.add_val, R.mul_val,
    R.neg_val, R.sub_val, R.ln_val, R.lgamma_val, R.div_val, R.sci_val, R.ln2_val]
  rw [one_div, Real.log_inv]
  norm_num
  field_simp
  ring

example : (RD.recipPdf (RD.chiSquaredPdf (⟨3⟩ : R)) ⟨0.5⟩).val =
    Real.exp (Gen.InvChiSquared.ln_f_real (⟨⟨3⟩⟩ : Gen.InvChiSquared R) ⟨0.5⟩).val :=
  (InvChiSquared_reparam (⟨⟨3⟩⟩ : Gen.InvChiSquared R) ⟨0.5⟩ (by norm_num) (by norm_num)).2.2

-- @site Exponential.draw
/-- `Exponential::draw` calls `rand_distr::Exp::new(rate)` (`f(x) = λ·exp(−λx)`): the exponential of rv's own `ln_f` -/
theorem Exponential_reparam (d : Gen.Exponential R) (x : R) (hr : 0 < d.rate.val) (hx : 0 ≤ x.val) :
    (exponentialCall d).args = [d.rate] ∧
      (RD.expPdf d.rate x).val = Real.exp (Gen.Exponential.ln_f_real d x).val := by
  refine ⟨rfl, ?_⟩
  have hlt : RealLike.lt x (0.0 : R) = false := by rw [R.lt_false_iff]; simp only [R.sci_val]; norm_num; exact hx
  simp only [Gen.Exponential.ln_f_real, hlt, Bool.false_eq_true, if_false, RD.expPdf, mulAdd, R.add_val, R.mul_val,
    R.neg_val, R.ln_val, R.exp_val]
  rw [Real.exp_add, Real.exp_log hr]; ring_nf

example : (RD.expPdf (⟨2⟩ : R) ⟨0.5⟩).val = Real.exp (Gen.Exponential.ln_f_real (⟨⟨2⟩⟩ : Gen.Exponential R) ⟨0.5⟩).val :=
  (Exponential_reparam (⟨⟨2⟩⟩ : Gen.Exponential R) ⟨0.5⟩ (by norm_num) (by norm_num)).2

-- @site Pareto.draw
/-- `Pareto::draw` calls `rand_distr::Pareto::new(self.scale, self.shape)` — scale FIRST, the opposite order of rv's own
    `Pareto::new(shape, scale)`: with that order the Pareto density is the exponential of rv's own `ln_f` -/
theorem Pareto_reparam (d : Gen.Pareto R) (x : R) (hk : 0 < d.shape.val) (hs : 0 < d.scale.val) (hx : 0 < x.val) :
    (paretoCall d).args = [d.scale, d.shape] ∧
      (RD.paretoPdf d.scale d.shape x).val = Real.exp (Gen.Pareto.ln_f_real d x).val := by
  refine ⟨rfl, ?_⟩
  have e : (RD.paretoPdf d.scale d.shape x).val =
      d.shape.val * d.scale.val ^ d.shape.val / x.val ^ (d.shape.val + 1) := by
    simp only [RD.paretoPdf, R.mul_val, R.div_val, R.powf_val, R.add_val, R.sci_val]; norm_num
  rw [e]
  have hpos : 0 < d.shape.val * d.scale.val ^ d.shape.val / x.val ^ (d.shape.val + 1) := by
    have := Real.rpow_pos_of_pos hs d.shape.val
    have := Real.rpow_pos_of_pos hx (d.shape.val + 1)
    positivity
  rw [← Real.exp_log hpos]
  congr 1
  rw [Real.log_div (by positivity) (by positivity), Real.log_mul hk.ne' (by positivity), Real.log_rpow hs,
    Real.log_rpow hx]
  simp only [Gen.Pareto.ln_f_real, mulAdd, R.add_val, R.mul_val, R.neg_val, R.ln_val, R.sci_val]
  norm_num
  ring

example : (RD.paretoPdf (⟨2⟩ : R) ⟨3⟩ ⟨5⟩).val = Real.exp (Gen.Pareto.ln_f_real (⟨⟨3⟩, ⟨2⟩⟩ : Gen.Pareto R) ⟨5⟩).val :=
  (Pareto_reparam (⟨⟨3⟩, ⟨2⟩⟩ : Gen.Pareto R) ⟨5⟩ (by norm_num) (by norm_num) (by norm_num)).2

-- @site NegBinomial.draw
/-- `NegBinomial::draw` mixes a Poisson over `Gamma::new(r, q/(1−q))`, `q = 1 − p`: the scale is `(1−p)/p`, the textbook
    Gamma–Poisson representation of `NegBinomial(r, p)` (number of failures before the `r`-th success).
    PARTIAL.  Full statement, NOT proved: `∫₀^∞ Poisson(k; λ) · gammaPdf(r, (1−p)/p; λ) dλ = exp (NegBinomial.ln_f k)`
    (needs the Gamma integral `∫ λ^{k+r−1} e^{−λ/p'} dλ`); it is tested statistically. -/
theorem NegBinomial_reparam_partial (d : Gen.NegBinomial R) (hp0 : 0 < d.p.val) :
    ((negBinomialGammaCall d).args.map R.val) = [d.r.val, (1 - d.p.val) / d.p.val] := by
  simp only [negBinomialGammaCall, List.map_cons, List.map_nil, R.div_val, R.sub_val, R.sci_val]
  norm_num

example : ((negBinomialGammaCall (⟨⟨3⟩, ⟨0.25⟩⟩ : Gen.NegBinomial R)).args.map R.val) = [3, (1 - 0.25) / 0.25] :=
  NegBinomial_reparam_partial _ (by norm_num)


/-! ## Uniform (through `rand`'s `UniformFloat`), Empirical (through `gen_range`) -/

-- @site Uniform.draw
/-- over exact arithmetic, for every generator word and `a < b`: the draw exists (no failed `assert!`), lies in `[a, b)`
    (supported) and the object's own cdf at the draw is the variate `uniform01 w`.
    (In binary64 `rand`'s constructor additionally lowers `scale` ulp by ulp — `uniformScaleF?` in Hand/DispatchC04.lean —
    a loop of about `ulp(b)·2⁵¹/(b−a)` steps that rv re-runs at EVERY draw: see the notes for the resulting hang.) -/
theorem Uniform_draw_supported (d : Gen.Uniform R) (hab : d.a.val < d.b.val) (w : Nat) (hw : w < 2 ^ 64) :
    ∃ x : R, uniformDraw d (uniform01 w) = some x ∧ d.a.val ≤ x.val ∧ x.val < d.b.val ∧
      Gen.Uniform.supports_real d x = true ∧ (Gen.Uniform.cdf_real d x).val = (uniform01 w : R).val := by
  obtain ⟨h0, h1⟩ := C13.uniform01_range w hw
  have h1' : (uniform01 w : R).val < 1 := lt_of_le_of_lt h1 (by norm_num)
  have hc : (RealLike.lt d.a d.b && RealLike.isFinite d.a && RealLike.isFinite d.b &&
      RealLike.isFinite (d.b - d.a)) = true := by simp [hab]
  refine ⟨uniform01 w * (d.b - d.a) + d.a, ?_, ?_, ?_, ?_, ?_⟩
  · unfold uniformDraw uniformDrawWith; rw [if_pos hc]
  · simp only [R.add_val, R.mul_val, R.sub_val]; nlinarith
  · simp only [R.add_val, R.mul_val, R.sub_val]; nlinarith
  · simp only [Gen.Uniform.supports_real, R.isFinite_eq, Bool.true_and, Bool.and_eq_true, R.le_iff, R.add_val,
      R.mul_val, R.sub_val]
    constructor <;> nlinarith
  · rw [C12.Uniform_cdf_val]
    simp only [R.add_val, R.mul_val, R.sub_val]
    rw [if_neg (by nlinarith), if_neg (by nlinarith)]
    have hne : d.b.val - d.a.val ≠ 0 := by linarith
    rw [div_eq_iff hne]; ring

example : ∃ x : R, uniformDraw (⟨⟨-1⟩, ⟨3⟩⟩ : Gen.Uniform R) (uniform01 (2 ^ 64 - 1)) = some x ∧ x.val < 3 := by
  obtain ⟨x, h, _, h2, _⟩ := Uniform_draw_supported (⟨⟨-1⟩, ⟨3⟩⟩ : Gen.Uniform R) (by norm_num) _ (by norm_num : 2 ^ 64 - 1 < 2 ^ 64)
  exact ⟨x, h, h2⟩

-- @site Empirical.draw
/-- whenever `gen_range(0..n)` returns, the draw is one of the data points (index inside the vector) -/
theorem Empirical_draw_mem (fuel : Nat) (xs : List R) (ws : List Nat) (x : R) (c : Nat)
    (h : empiricalDraw fuel xs ws = .ok x c) : x ∈ xs := by
  unfold empiricalDraw at h
  split at h
  · rename_i ix c' hg
    simp only [Outcome.ok.injEq] at h
    unfold genRangeUsize at hg
    split at hg
    · cases hg
    · rename_i hn
      obtain ⟨h0, h1, _⟩ := uniformIntLoop_range 64 (Or.inr rfl) 0 xs.length _ (Nat.pos_of_ne_zero hn) ws fuel 0 ix c' hg
      have hlt : ix.toNat < xs.length := by omega
      rw [← h.1, List.getD_eq_getElem _ _ hlt]
      exact List.getElem_mem _
  · cases h
  · cases h

example (x : R) (c : Nat) (h : empiricalDraw 10 [(⟨1⟩ : R), ⟨2⟩] [0] = .ok x c) : x ∈ [(⟨1⟩ : R), ⟨2⟩] :=
  Empirical_draw_mem _ _ _ _ _ h

/-! ## Mixture: `sample` uses the word stream in a different ORDER than `n` calls of `draw` -/

-- @site Mixture.sample
/-- one element: `sample(1)` is `draw` (index word, then component word) -/
theorem Mixture_sample_one {α : Type} [RealLike α] (fma : α → α → α → α) (weights : List α)
    (comps : List (Gen.Laplace α)) (ws : List Nat) (hne : weights ≠ []) :
    mixtureLaplaceSampleWith fma weights comps 1 ws =
      (mixtureLaplaceDrawWith fma weights comps (wordAt ws 0) (wordAt ws 1)).map (fun x => [x]) := by
  have hemp : weights.isEmpty = false := by
    cases weights with
    | nil => exact absurd rfl hne
    | cons _ _ => rfl
  unfold mixtureLaplaceSampleWith mixtureLaplaceDrawWith pflipsAll pflips
  simp only [hemp, Bool.false_eq_true, if_false, List.range_one, List.map_cons, List.map_nil]
  cases h : pflips1 weights (uniform01 (wordAt ws 0)) with
  | none => simp [collect]
  | some k =>
    simp only [collect, Option.map_some, enumL]
    cases hc : comps[k]? with
    | none => simp [collect, List.zip, hc]
    | some cpt => simp [collect, List.zip, hc]

example (fma : R → R → R → R) :
    mixtureLaplaceSampleWith fma [(⟨1⟩ : R), ⟨1⟩] [⟨⟨0⟩, ⟨1⟩⟩, ⟨⟨5⟩, ⟨1⟩⟩] 1 [10, 20] =
      (mixtureLaplaceDrawWith fma [(⟨1⟩ : R), ⟨1⟩] [⟨⟨0⟩, ⟨1⟩⟩, ⟨⟨5⟩, ⟨1⟩⟩] 10 20).map (fun x => [x]) :=
  Mixture_sample_one fma [(⟨1⟩ : R), ⟨1⟩] _ [10, 20] (by simp)

-- @site Mixture.sample
/-- two elements: `sample(2)` on the words `w₀ w₁ w₂ w₃` equals the two successive `draw`s on the PERMUTED words
    `w₀ w₂ w₁ w₃` (all component indices are drawn first).  Same law for independent words, a different function of the
    generator state: `sample(n)` with a seeded generator does NOT reproduce `n` seeded calls of `draw`
    (`drawchk.MixtureGaussian` reports `seq = F`; likewise `Skellam::sample`). -/
theorem Mixture_sample_two {α : Type} [RealLike α] (fma : α → α → α → α) (weights : List α)
    (comps : List (Gen.Laplace α)) (w0 w1 w2 w3 : Nat) (hne : weights ≠ []) :
    mixtureLaplaceSampleWith fma weights comps 2 [w0, w1, w2, w3] =
      (mixtureLaplaceDrawWith fma weights comps w0 w2).bind (fun x =>
        (mixtureLaplaceDrawWith fma weights comps w1 w3).map (fun y => [x, y])) := by
  have hemp : weights.isEmpty = false := by
    cases weights with
    | nil => exact absurd rfl hne
    | cons _ _ => rfl
  unfold mixtureLaplaceSampleWith mixtureLaplaceDrawWith pflipsAll pflips
  have r2 : List.range 2 = [0, 1] := rfl
  simp only [hemp, Bool.false_eq_true, if_false, r2, List.map_cons, List.map_nil]
  have e0 : wordAt [w0, w1, w2, w3] 0 = w0 := rfl
  have e1 : wordAt [w0, w1, w2, w3] 1 = w1 := rfl
  have e2 : wordAt [w0, w1, w2, w3] (2 + 0) = w2 := rfl
  have e3 : wordAt [w0, w1, w2, w3] (2 + 1) = w3 := rfl
  rw [e0, e1]
  cases h0 : pflips1 weights (uniform01 w0) with
  | none => simp [collect]
  | some k0 =>
    cases h1 : pflips1 weights (uniform01 w1) with
    | none => cases hc0 : comps[k0]? <;> simp [collect, hc0]
    | some k1 =>
      simp only [collect, Option.map_some, enumL, List.length_cons, List.length_nil, r2, List.zip_cons_cons,
        List.zip_nil_right, List.map_cons, List.map_nil, e2, e3]
      cases hc0 : comps[k0]? <;> cases hc1 : comps[k1]? <;> simp [collect, hc0, hc1]

example (fma : R → R → R → R) :
    mixtureLaplaceSampleWith fma [(⟨1⟩ : R), ⟨1⟩] [⟨⟨0⟩, ⟨1⟩⟩, ⟨⟨5⟩, ⟨1⟩⟩] 2 [10, 20, 30, 40] =
      (mixtureLaplaceDrawWith fma [(⟨1⟩ : R), ⟨1⟩] [⟨⟨0⟩, ⟨1⟩⟩, ⟨⟨5⟩, ⟨1⟩⟩] 10 30).bind (fun x =>
        (mixtureLaplaceDrawWith fma [(⟨1⟩ : R), ⟨1⟩] [⟨⟨0⟩, ⟨1⟩⟩, ⟨⟨5⟩, ⟨1⟩⟩] 20 40).map (fun y => [x, y])) :=
  Mixture_sample_two fma [(⟨1⟩ : R), ⟨1⟩] _ _ _ _ _ (by simp)

/-! ## KsTwoAsymptotic -/

-- @site KsTwoAsymptotic.supports_real
/-- after the repair e962348 the support is `[0, ∞)`: exactly the finite non-negative values (the draws `invcdf(p)` exceed `1`
    for `p > 0.73`; with the former `0 ≤ x ≤ 1` a quarter of the object's own draws were unsupported).  `draw` itself
    (`invcdf` of ks.rs, a bracketed Newton iteration) is not modelled: implementation-only checks in props/C04.py. -/
theorem KsTwoAsymptotic_supports_iff (d : Gen.KsTwoAsymptotic X) (x : X) :
    Gen.KsTwoAsymptotic.supports_real d x = true ↔ ∃ a : ℝ, 0 ≤ a ∧ x = fin a := by
  cases x with
  | nan => simp [Gen.KsTwoAsymptotic.supports_real]
  | ninf => simp [Gen.KsTwoAsymptotic.supports_real, X_zero]
  | pinf => simp [Gen.KsTwoAsymptotic.supports_real]
  | fin r =>
    simp only [Gen.KsTwoAsymptotic.supports_real, RealLike.ge, X_zero, le_fin, isFinite_fin, Bool.and_true,
      decide_eq_true_eq, fin_inj_iff]
    exact ⟨fun h => ⟨r, h, rfl⟩, fun ⟨a, ha, e⟩ => e ▸ ha⟩

example : Gen.KsTwoAsymptotic.supports_real (⟨⟩ : Gen.KsTwoAsymptotic X) (fin 4.33) = true :=
  (KsTwoAsymptotic_supports_iff _ _).mpr ⟨4.33, by norm_num, rfl⟩

-- @site Mixture.draw
/-- TOTALITY of the index draw: for EVERY generator word, non-negative weights with positive sum and as many components as
    weights, `Mixture::draw` selects a component inside the vector (`pflips` scales the variate by the ACTUAL cumulative sum
    — `C13.pflips_every_word`) and returns its draw; no panic.  (A variant that assumes the total `1.0` panics at the top
    variate when the rounded sum is below 1, e.g. `[1/6; 6]`, `[0.1; 10]`: covered by the scripted lines of props/cases_c04.py.) -/
theorem Mixture_draw_total (fma : R → R → R → R) (weights : List R) (comps : List (Gen.Laplace R))
    (hw : ∀ w ∈ weights, 0 ≤ w.val) (hS : 0 < (weights.map R.val).sum) (hl : C13.FuelOK weights.length)
    (hc : comps.length = weights.length) (w0 w1 : Nat) (hw0 : w0 < 2 ^ 64) :
    ∃ x, mixtureLaplaceDrawWith fma weights comps w0 w1 = some x := by
  obtain ⟨i, hi, hlt, _⟩ := C13.pflips_every_word weights hw hS hl w0 hw0
  unfold mixtureLaplaceDrawWith
  rw [hi]
  have : i < comps.length := by omega
  simp [List.getElem?_eq_getElem this]

example : ∃ x, mixtureLaplaceDrawWith mulAdd [(⟨1/3⟩ : R), ⟨1/3⟩, ⟨1/3⟩] [⟨⟨0⟩, ⟨1⟩⟩, ⟨⟨1⟩, ⟨1⟩⟩, ⟨⟨2⟩, ⟨1⟩⟩] (2 ^ 64 - 1) 5 = some x :=
  Mixture_draw_total _ _ _ (by intro w hw; simp at hw; rw [hw]; norm_num) (by norm_num)
    (C13.length_lt_fuel _ (by simp)) rfl _ _ (by norm_num)

/-! ## ConjugateModel -/

-- @site ConjugateModel.sample
/-- the separate `sample` threads the SAME per-element function as `draw` (posterior draw, then likelihood draw) over the word
    stream: `sample(n)` is `n` successive `draw`s from the same generator state, for every prior / likelihood sampler
    (tested seed for seed on the real code by `cmseq.*`) -/
theorem ConjugateModel_sample_eq_iter_draw {θ β : Type} (postDraw : Nat → Outcome θ) (likDraw : θ → Nat → Outcome β) (n : Nat) :
    conjugateSample postDraw likDraw n = iterDraws (conjugateDraw postDraw likDraw) n 0 := rfl

example : conjugateSample (fun i => Outcome.ok (i : Nat) (i + 1)) (fun t j => Outcome.ok (t + j) (j + 1)) 1 = .ok [1] 2 := rfl

-- @site ConjugateModel.sample
/-- in particular every element gets a FRESH likelihood parameter: the two elements of `sample(2)` of a Bernoulli likelihood
    are drawn with the parameters of two successive posterior draws (a shared parameter would make them dependent:
    `P(x₀ = x₁) = E[θ² + (1−θ)²]` instead of `p̄² + (1−p̄)²` — the joint-law test of props/cases_c04.py) -/
theorem ConjugateModel_sample_two_fresh {α : Type} [RealLike α] (postDraw : Nat → Outcome α) (ws : List Nat)
    (t1 t2 : α) (j1 j2 : Nat) (h1 : postDraw 0 = .ok t1 j1) (h2 : postDraw (j1 + 1) = .ok t2 j2) :
    conjugateSample postDraw (bernoulliLik ws) 2 =
      .ok [bernoulliDraw ⟨t1⟩ (open01 (wordAt ws j1)), bernoulliDraw ⟨t2⟩ (open01 (wordAt ws j2))] (j2 + 1) := by
  simp [conjugateSample, iterDraws, bernoulliLik, h1, h2]

example : conjugateSample (fun i => Outcome.ok (⟨(i : ℝ) / 10⟩ : R) (i + 1)) (bernoulliLik [0, 1, 2, 3]) 2 =
    .ok [bernoulliDraw (⟨⟨((0 : Nat) : ℝ) / 10⟩⟩ : Gen.Bernoulli R) (open01 (wordAt [0, 1, 2, 3] 1)),
      bernoulliDraw (⟨⟨((2 : Nat) : ℝ) / 10⟩⟩ : Gen.Bernoulli R) (open01 (wordAt [0, 1, 2, 3] 3))] 4 :=
  ConjugateModel_sample_two_fresh _ _ _ _ 1 3 rfl rfl

-- @site UnitPowerLaw.draw
/-- after `set_alpha_unchecked` (and `set_alpha`) the draw uses the NEW exponent `1/α` (the `alpha_inv` cache is reset by the
    setter, unit_powerlaw.rs:176-180: in the generated model the cache getter is inlined); tied to the code by the history
    lines `hist.UnitPowerLaw` of the correspondence run -/
theorem UnitPowerLaw_draw_after_set_alpha (d : Gen.UnitPowerLaw R) (a u : R) :
    (unitPowerLawDraw (Gen.UnitPowerLaw.set_alpha_unchecked d a) u).val = u.val ^ (1 / a.val) := by
  have := C12.UnitPowerLaw_invcdf_val (Gen.UnitPowerLaw.set_alpha_unchecked d a) u
  simpa [unitPowerLawDraw, Gen.UnitPowerLaw.set_alpha_unchecked] using this

example : (unitPowerLawDraw (Gen.UnitPowerLaw.set_alpha_unchecked (⟨⟨0.5⟩⟩ : Gen.UnitPowerLaw R) ⟨6⟩) ⟨0.25⟩).val = (0.25 : ℝ) ^ (1 / (6 : ℝ)) := by
  have := UnitPowerLaw_draw_after_set_alpha (⟨⟨0.5⟩⟩ : Gen.UnitPowerLaw R) ⟨6⟩ ⟨0.25⟩
  simpa using this

end C04

#print axioms C04.Bernoulli_draw_iff
#print axioms C04.Bernoulli_draw_supported_bool
#print axioms C04.Bernoulli_draw_supported_nat
#print axioms C04.Bernoulli_draw_degenerate
#print axioms C04.Bernoulli_sample_eq_map_draw
#print axioms C04.Bernoulli_sample_length
#print axioms C04.Laplace_draw_cdf
#print axioms C04.Laplace_draw_mono
#print axioms C04.Laplace_draw_supported
#print axioms C04.Gev_draw_cdf
#print axioms C04.Gev_draw_supported
#print axioms C04.Gev_draw_mono
#print axioms C04.Kumaraswamy_draw_cdf
#print axioms C04.Kumaraswamy_draw_mono
#print axioms C04.Kumaraswamy_draw_supported
#print axioms C04.UnitPowerLaw_draw_cdf
#print axioms C04.UnitPowerLaw_draw_mono
#print axioms C04.UnitPowerLaw_sample_eq_map_draw
#print axioms C04.UnitPowerLaw_sample_val
#print axioms C04.UnitPowerLaw_draw_supported
#print axioms C04.UnitPowerLaw_sample_supported
#print axioms C04.Geometric_inversion_interval
#print axioms C04.Geometric_inversion_every_word
#print axioms C04.Geometric_search_interval
#print axioms C04.Geometric_search_terminates
#print axioms C04.Geometric_draw_supported
#print axioms C04.DiscreteUniform_draw_in_range
#print axioms C04.DiscreteUniform_sample_eq_iter_draw
#print axioms C04.DiscreteUniform_sample_length
#print axioms C04.Categorical_sample_eq_draws
#print axioms C04.Categorical_draw_supported
#print axioms C04.InvGaussian_draw_pos
#print axioms C04.InvGaussian_draw_branches
#print axioms C04.VonMises_draw_no_panic
#print axioms C04.VonMises_draw_supported
#print axioms C04.VonMises_accept_region
#print axioms C04.VonMises_draw_first_pass
#print axioms C04.Gamma_reparam
#print axioms C04.InvGamma_reparam
#print axioms C04.ScaledInvChiSquared_reparam
#print axioms C04.ChiSquared_reparam
#print axioms C04.InvChiSquared_reparam
#print axioms C04.Exponential_reparam
#print axioms C04.Pareto_reparam
#print axioms C04.NegBinomial_reparam_partial
#print axioms C04.Uniform_draw_supported
#print axioms C04.Empirical_draw_mem
#print axioms C04.Mixture_sample_one
#print axioms C04.Mixture_sample_two
#print axioms C04.KsTwoAsymptotic_supports_iff
#print axioms C04.Mixture_draw_total
#print axioms C04.ConjugateModel_sample_eq_iter_draw
#print axioms C04.ConjugateModel_sample_two_fresh
#print axioms C04.UnitPowerLaw_draw_after_set_alpha
