import RvModel.RealInst
import RvModel.Gen.Defs
import RvModel.Lemmas.C05
/-!
  C05 (group B): the three conjugate priors of the Gaussian likelihood (NormalGamma, NormalInvGamma,
  NormalInvChiSquared) are exactly Bayes' rule.  Carrier `R`.  `lgamma` only enters as an opaque term.

  The Gaussian statistic is Welford's `(n, mean, sx)`; the priors read it through `n`, `sum_x = mean·n`,
  `sum_x_sq = mean²·n + sx` (and `mean` for NIX).  `gaussStat xs` is the statistic `posterior` builds from raw data;
  `gaussStat_facts`: its `n, sum_x, sum_x_sq` are `xs.length, Σx, Σx²`, and `sx ≥ 0`.
-/
open Real C05L

namespace C05

/-! ## NormalGamma – Gaussian   (`ρ ~ Gamma(v/2, s/2)`, `μ | ρ ~ N(m, 1/(rρ))`) -/

-- @site NormalGamma.posterior_real_Gaussian
theorem NormalGamma_posterior_data_eq_stat (pr : Gen.NormalGamma R) (xs : List R) :
    Gen.NormalGamma.posterior_real_Gaussian pr (.data xs)
      = Gen.NormalGamma.posterior_real_Gaussian pr
          (.suffStat (xs.foldl (fun st y => Gen.GaussianSuffStat.observe_real st y) Gen.GaussianSuffStat.new)) := rfl

-- @site NormalGamma.posterior_from_suffstat_real_Gaussian
theorem NormalGamma_posterior_from_suffstat (pr : Gen.NormalGamma R) (st : Gen.GaussianSuffStat R) :
    Gen.NormalGamma.posterior_from_suffstat_real_Gaussian pr st
      = Gen.NormalGamma.posterior_real_Gaussian pr (.suffStat st) := rfl

-- @site posterior_from_stat_normal_gamma
/-- sufficient-statistic arm (statistic valid: `sx ≥ 0`): `NormalGamma::new` succeeds on the updated
    hyper-parameters `ngM … ngV` (the literal arguments of the call), so the `.expect` never fires -/
theorem NormalGamma_posterior_valid_stat (pr : Gen.NormalGamma R) (hpr : NormalGammaValid pr)
    (st : Gen.GaussianSuffStat R) (hst : 0 ≤ st.sx.val) :
    Gen.NormalGamma.new (ngM pr st) (ngR pr st) (ngS pr st) (ngV pr st)
        = .ok ⟨ngM pr st, ngR pr st, ngS pr st, ngV pr st⟩
    ∧ Gen.NormalGamma.posterior_real_Gaussian pr (.suffStat st) = ⟨ngM pr st, ngR pr st, ngS pr st, ngV pr st⟩
    ∧ NormalGammaValid (Gen.NormalGamma.posterior_real_Gaussian pr (.suffStat st)) := by
  obtain ⟨h1, h2, _, _, _, _, h7⟩ := NG_post_stat pr hpr st hst
  exact ⟨h1, h2, h7⟩

-- @site NormalGamma.posterior_real_Gaussian
/-- data arm: the `.expect` never fires and the posterior is valid; the hyper-parameters as the code computes
    them, in terms of `n = |xs|`, `Σx`, `Σx²` -/
theorem NormalGamma_posterior_valid (pr : Gen.NormalGamma R) (hpr : NormalGammaValid pr) (xs : List R) :
    Gen.NormalGamma.new (ngM pr (gaussStat xs)) (ngR pr (gaussStat xs)) (ngS pr (gaussStat xs)) (ngV pr (gaussStat xs))
        = .ok ⟨ngM pr (gaussStat xs), ngR pr (gaussStat xs), ngS pr (gaussStat xs), ngV pr (gaussStat xs)⟩
    ∧ Gen.NormalGamma.posterior_real_Gaussian pr (.data xs)
        = ⟨ngM pr (gaussStat xs), ngR pr (gaussStat xs), ngS pr (gaussStat xs), ngV pr (gaussStat xs)⟩
    ∧ NormalGammaValid (Gen.NormalGamma.posterior_real_Gaussian pr (.data xs))
    ∧ (Gen.NormalGamma.posterior_real_Gaussian pr (.data xs)).m.val
        = (pr.m.val * pr.r.val + (xs.map R.val).sum) / (pr.r.val + (xs.length : ℝ))
    ∧ (Gen.NormalGamma.posterior_real_Gaussian pr (.data xs)).r.val = pr.r.val + (xs.length : ℝ)
    ∧ (Gen.NormalGamma.posterior_real_Gaussian pr (.data xs)).s.val
        = pr.s.val + (xs.map (fun x => x.val ^ 2)).sum + pr.r.val * pr.m.val ^ 2
          - (pr.m.val * pr.r.val + (xs.map R.val).sum) ^ 2 / (pr.r.val + (xs.length : ℝ))
    ∧ (Gen.NormalGamma.posterior_real_Gaussian pr (.data xs)).v.val = pr.v.val + (xs.length : ℝ) := by
  obtain ⟨hn, hA, hB, hsx⟩ := gaussStat_facts xs
  obtain ⟨h1, h2, h3, h4, h5, h6, h7⟩ := NG_post_stat pr hpr (gaussStat xs) hsx
  have e : Gen.NormalGamma.posterior_real_Gaussian pr (.data xs)
      = Gen.posterior_from_stat_normal_gamma pr (gaussStat xs) := rfl
  rw [e]
  rw [hn, hA] at h3
  rw [hn] at h4 h6
  rw [hn, hA, hB] at h5
  exact ⟨h1, h2, h7, h3, h4, h5, h6⟩

example : NormalGammaValid (⟨⟨0.1⟩, ⟨1.2⟩, ⟨2.3⟩, ⟨3.4⟩⟩ : Gen.NormalGamma R) := by
  refine ⟨?_, ?_, ?_⟩ <;> norm_num

-- @site posterior_from_stat_normal_gamma
/-- the computed update coincides with the textbook Normal-Gamma update (Murphy 2007, "Conjugate Bayesian analysis of
    the Gaussian distribution", §3.3 eq. 86–89, with `μ₀ = m, κ₀ = r, α₀ = v/2, β₀ = s/2`):
    `μₙ = (κ₀μ₀ + n x̄)/(κ₀+n)`, `κₙ = κ₀+n`, `αₙ = α₀ + n/2`,
    `βₙ = β₀ + ½ Σ(xᵢ − x̄)² + κ₀ n (x̄ − μ₀)² / (2(κ₀+n))` -/
theorem NormalGamma_posterior_textbook (pr : Gen.NormalGamma R) (hpr : NormalGammaValid pr) (xs : List R)
    (hxs : xs ≠ []) (n xbar : ℝ) (hn : n = (xs.length : ℝ)) (hxbar : xbar = (xs.map R.val).sum / n) :
    (Gen.NormalGamma.posterior_real_Gaussian pr (.data xs)).m.val = (pr.r.val * pr.m.val + n * xbar) / (pr.r.val + n)
    ∧ (Gen.NormalGamma.posterior_real_Gaussian pr (.data xs)).r.val = pr.r.val + n
    ∧ (Gen.NormalGamma.posterior_real_Gaussian pr (.data xs)).v.val / 2 = pr.v.val / 2 + n / 2
    ∧ (Gen.NormalGamma.posterior_real_Gaussian pr (.data xs)).s.val / 2
        = pr.s.val / 2 + (xs.map (fun x => (x.val - xbar) ^ 2)).sum / 2
          + pr.r.val * n * (xbar - pr.m.val) ^ 2 / (2 * (pr.r.val + n)) := by
  obtain ⟨_, _, _, hm, hr, hs, hv⟩ := NormalGamma_posterior_valid pr hpr xs
  have hn' : (0 : ℝ) < (xs.length : ℝ) := by
    have : 0 < xs.length := List.length_pos_iff.mpr hxs
    exact_mod_cast this
  subst hn
  subst hxbar
  have hrn : pr.r.val + (xs.length : ℝ) ≠ 0 := by have := hpr.1; positivity
  have hn0 : (xs.length : ℝ) ≠ 0 := hn'.ne'
  refine ⟨?_, hr, ?_, ?_⟩
  · rw [hm]; field_simp
  · rw [hv]; ring
  · rw [hs, sum_sq_dev]; field_simp; ring

-- @site NormalGamma.posterior_real_Gaussian
theorem NormalGamma_posterior_empty (pr : Gen.NormalGamma R) (hpr : NormalGammaValid pr) :
    (Gen.NormalGamma.posterior_real_Gaussian pr (.data [])).m.val = pr.m.val
    ∧ (Gen.NormalGamma.posterior_real_Gaussian pr (.data [])).r.val = pr.r.val
    ∧ (Gen.NormalGamma.posterior_real_Gaussian pr (.data [])).s.val = pr.s.val
    ∧ (Gen.NormalGamma.posterior_real_Gaussian pr (.data [])).v.val = pr.v.val := by
  obtain ⟨_, _, _, hm, hr, hs, hv⟩ := NormalGamma_posterior_valid pr hpr []
  have hr0 : pr.r.val ≠ 0 := hpr.1.ne'
  rw [hm, hr, hs, hv]
  simp only [List.map_nil, List.sum_nil, List.length_nil, Nat.cast_zero, add_zero]
  refine ⟨by field_simp, trivial, by field_simp; ring, trivial⟩

-- @site NormalGamma.posterior_real_Gaussian
theorem NormalGamma_posterior_sequential (pr : Gen.NormalGamma R) (hpr : NormalGammaValid pr) (xs ys : List R) :
    let p12 := Gen.NormalGamma.posterior_real_Gaussian (Gen.NormalGamma.posterior_real_Gaussian pr (.data xs)) (.data ys)
    let p := Gen.NormalGamma.posterior_real_Gaussian pr (.data (xs ++ ys))
    p12.m.val = p.m.val ∧ p12.r.val = p.r.val ∧ p12.s.val = p.s.val ∧ p12.v.val = p.v.val := by
  intro p12 p
  obtain ⟨_, _, hv1, m1, r1, s1, v1⟩ := NormalGamma_posterior_valid pr hpr xs
  obtain ⟨_, _, _, m2, r2, s2, v2⟩ := NormalGamma_posterior_valid _ hv1 ys
  obtain ⟨_, _, _, m3, r3, s3, v3⟩ := NormalGamma_posterior_valid pr hpr (xs ++ ys)
  have hx : (0 : ℝ) ≤ (xs.length : ℝ) := by positivity
  have hy : (0 : ℝ) ≤ (ys.length : ℝ) := by positivity
  have hr := hpr.1
  have h1 : pr.r.val + (xs.length : ℝ) ≠ 0 := by positivity
  have h2 : pr.r.val + (xs.length : ℝ) + (ys.length : ℝ) ≠ 0 := by positivity
  have h3 : pr.r.val + ((xs.length : ℝ) + (ys.length : ℝ)) ≠ 0 := by positivity
  refine ⟨?_, ?_, ?_, ?_⟩
  · show p12.m.val = p.m.val
    rw [m2, m3, m1, r1]
    simp only [List.map_append, List.sum_append, List.length_append, Nat.cast_add]
    field_simp; ring
  · show p12.r.val = p.r.val
    rw [r2, r3, r1]; simp only [List.length_append, Nat.cast_add]; ring
  · show p12.s.val = p.s.val
    rw [s2, s3, s1, m1, r1]
    simp only [List.map_append, List.sum_append, List.length_append, Nat.cast_add]
    field_simp; ring
  · show p12.v.val = p.v.val
    rw [v2, v3, v1]; simp only [List.length_append, Nat.cast_add]; ring

-- @site NormalGamma.ln_f_Gaussian
/-- Bayes' rule in log form at every Gaussian `θ = (μ, σ)`, `σ > 0`; all four terms are generated code -/
theorem NormalGamma_bayes (pr : Gen.NormalGamma R) (hpr : NormalGammaValid pr) (xs : List R) (θ : Gen.Gaussian R)
    (hσ : 0 < θ.sigma.val) :
    (Gen.NormalGamma.ln_f_Gaussian (Gen.NormalGamma.posterior_real_Gaussian pr (.data xs)) θ).val
      = (Gen.NormalGamma.ln_f_Gaussian pr θ).val + (xs.map (fun x => (Gen.Gaussian.ln_f_real θ x).val)).sum
        - (Gen.NormalGamma.ln_m_real_Gaussian pr (.data xs)).val := by
  obtain ⟨_, _, hv, hm, hr, hs, hvv⟩ := NormalGamma_posterior_valid pr hpr xs
  obtain ⟨hn, _, _, _⟩ := gaussStat_facts xs
  have e2 : (Gen.NormalGamma.ln_m_real_Gaussian pr (.data xs)).val
      = -(xs.length : ℝ) * (Real.log (2 * π) / 2)
        + (Gen.ln_z_normal_gamma (Gen.NormalGamma.posterior_real_Gaussian pr (.data xs)).r
            (Gen.NormalGamma.posterior_real_Gaussian pr (.data xs)).s
            (Gen.NormalGamma.posterior_real_Gaussian pr (.data xs)).v).val
        - (Gen.ln_z_normal_gamma pr.r pr.s pr.v).val := by
    have e : Gen.NormalGamma.ln_m_real_Gaussian pr (.data xs)
        = Gen.NormalGamma.ln_m_real_Gaussian pr (.suffStat (gaussStat xs)) := rfl
    rw [e]
    simp only [Gen.NormalGamma.ln_m_real_Gaussian, Gen.NormalGamma.ln_m_with_cache_real_Gaussian,
      Gen.NormalGamma.ln_m_cache_real_Gaussian, Gen.NormalGamma.get_r, Gen.GaussianSuffStat.get_n, mulAdd, R.add_val,
      R.sub_val, R.mul_val, R.neg_val, R.ofNatR_val, R.halfLn2Pi_val, hn]
    rfl
  have hr0 := hpr.1
  have hs0 := hpr.2.1
  have hrn : pr.r.val + (xs.length : ℝ) ≠ 0 := by positivity
  have hσ0 : θ.sigma.val ≠ 0 := hσ.ne'
  rw [e2, NG_ln_f_closed _ hv θ hσ, NG_ln_f_closed pr hpr θ hσ, NG_ln_z_closed, NG_ln_z_closed, gauss_loglik θ hσ xs,
    hm, hr, hvv]
  generalize (Gen.NormalGamma.posterior_real_Gaussian pr (.data xs)).s.val = S at hs ⊢
  generalize Real.log S = LS
  subst hs
  field_simp
  ring

example : ∃ θ : Gen.Gaussian R, 0 < θ.sigma.val := ⟨⟨⟨-0.3⟩, ⟨1.7⟩⟩, by norm_num⟩

/-! ## NormalInvGamma – Gaussian   (`σ² ~ InvGamma(a, b)`, `μ | σ² ~ N(m, v σ²)`) -/

-- @site NormalInvGamma.posterior_real_Gaussian
theorem NormalInvGamma_posterior_data_eq_stat (pr : Gen.NormalInvGamma R) (xs : List R) :
    Gen.NormalInvGamma.posterior_real_Gaussian pr (.data xs)
      = Gen.NormalInvGamma.posterior_real_Gaussian pr
          (.suffStat (xs.foldl (fun st y => Gen.GaussianSuffStat.observe_real st y) Gen.GaussianSuffStat.new)) := rfl

-- @site NormalInvGamma.posterior_from_suffstat_real_Gaussian
theorem NormalInvGamma_posterior_from_suffstat (pr : Gen.NormalInvGamma R) (st : Gen.GaussianSuffStat R) :
    Gen.NormalInvGamma.posterior_from_suffstat_real_Gaussian pr st
      = Gen.NormalInvGamma.posterior_real_Gaussian pr (.suffStat st) := rfl

-- @site posterior_from_stat_normal_inv_gamma
/-- sufficient-statistic arm (statistic valid: `sx ≥ 0`): `NormalInvGamma::new` succeeds on the updated
    hyper-parameters `nigM … nigB` (the literal arguments of the call), so the `.expect` never fires -/
theorem NormalInvGamma_posterior_valid_stat (pr : Gen.NormalInvGamma R) (hpr : NormalInvGammaValid pr)
    (st : Gen.GaussianSuffStat R) (hst : 0 ≤ st.sx.val) :
    Gen.NormalInvGamma.new (nigM pr st) (nigV pr st) (nigA pr st) (nigB pr st)
        = .ok ⟨nigM pr st, nigV pr st, nigA pr st, nigB pr st⟩
    ∧ Gen.NormalInvGamma.posterior_real_Gaussian pr (.suffStat st)
        = ⟨nigM pr st, nigV pr st, nigA pr st, nigB pr st⟩
    ∧ NormalInvGammaValid (Gen.NormalInvGamma.posterior_real_Gaussian pr (.suffStat st)) := by
  obtain ⟨h1, h2, _, _, _, _, h7⟩ := NIG_post_stat pr hpr st hst
  exact ⟨h1, h2, h7⟩

-- @site NormalInvGamma.posterior_real_Gaussian
/-- data arm: the `.expect` never fires and the posterior is valid; the hyper-parameters as the code computes
    them, in terms of `n = |xs|`, `Σx`, `Σx²`.  These are literally the textbook Normal-Inverse-Gamma update
    (Murphy 2007, §6.3 eq. 197–200): `Vₙ⁻¹ = V₀⁻¹ + n`, `mₙ = Vₙ (V₀⁻¹ m₀ + Σx)`, `aₙ = a₀ + n/2`,
    `bₙ = b₀ + ½ (m₀² V₀⁻¹ + Σx² − mₙ² Vₙ⁻¹)` — see `NormalInvGamma_posterior_textbook`. -/
theorem NormalInvGamma_posterior_valid (pr : Gen.NormalInvGamma R) (hpr : NormalInvGammaValid pr) (xs : List R) :
    Gen.NormalInvGamma.new (nigM pr (gaussStat xs)) (nigV pr (gaussStat xs)) (nigA pr (gaussStat xs))
          (nigB pr (gaussStat xs))
        = .ok ⟨nigM pr (gaussStat xs), nigV pr (gaussStat xs), nigA pr (gaussStat xs), nigB pr (gaussStat xs)⟩
    ∧ Gen.NormalInvGamma.posterior_real_Gaussian pr (.data xs)
        = ⟨nigM pr (gaussStat xs), nigV pr (gaussStat xs), nigA pr (gaussStat xs), nigB pr (gaussStat xs)⟩
    ∧ NormalInvGammaValid (Gen.NormalInvGamma.posterior_real_Gaussian pr (.data xs))
    ∧ (Gen.NormalInvGamma.posterior_real_Gaussian pr (.data xs)).m.val
        = (pr.m.val / pr.v.val + (xs.map R.val).sum) / (1 / pr.v.val + (xs.length : ℝ))
    ∧ (Gen.NormalInvGamma.posterior_real_Gaussian pr (.data xs)).v.val = 1 / (1 / pr.v.val + (xs.length : ℝ))
    ∧ (Gen.NormalInvGamma.posterior_real_Gaussian pr (.data xs)).a.val = pr.a.val + (xs.length : ℝ) / 2
    ∧ (Gen.NormalInvGamma.posterior_real_Gaussian pr (.data xs)).b.val
        = pr.b.val + (pr.m.val ^ 2 / pr.v.val + (xs.map (fun x => x.val ^ 2)).sum
            - (pr.m.val / pr.v.val + (xs.map R.val).sum) ^ 2 / (1 / pr.v.val + (xs.length : ℝ))) / 2 := by
  obtain ⟨hn, hA, hB, hsx⟩ := gaussStat_facts xs
  obtain ⟨h1, h2, h3, h4, h5, h6, h7⟩ := NIG_post_stat pr hpr (gaussStat xs) hsx
  have e : Gen.NormalInvGamma.posterior_real_Gaussian pr (.data xs)
      = Gen.posterior_from_stat_normal_inv_gamma pr (gaussStat xs) := rfl
  rw [e]
  rw [hn, hA] at h3
  rw [hn] at h4 h5
  rw [hn, hA, hB] at h6
  exact ⟨h1, h2, h7, h3, h4, h5, h6⟩

example : NormalInvGammaValid (⟨⟨0.1⟩, ⟨1.2⟩, ⟨2.3⟩, ⟨3.4⟩⟩ : Gen.NormalInvGamma R) := by
  refine ⟨?_, ?_, ?_⟩ <;> norm_num

-- @site posterior_from_stat_normal_inv_gamma
/-- textbook form (Murphy 2007, eq. 197–200) -/
theorem NormalInvGamma_posterior_textbook (pr : Gen.NormalInvGamma R) (hpr : NormalInvGammaValid pr) (xs : List R)
    (n A B : ℝ) (hn : n = (xs.length : ℝ)) (hA : A = (xs.map R.val).sum) (hB : B = (xs.map (fun x => x.val ^ 2)).sum) :
    (Gen.NormalInvGamma.posterior_real_Gaussian pr (.data xs)).v.val⁻¹ = pr.v.val⁻¹ + n
    ∧ (Gen.NormalInvGamma.posterior_real_Gaussian pr (.data xs)).m.val
        = (Gen.NormalInvGamma.posterior_real_Gaussian pr (.data xs)).v.val * (pr.v.val⁻¹ * pr.m.val + A)
    ∧ (Gen.NormalInvGamma.posterior_real_Gaussian pr (.data xs)).a.val = pr.a.val + n / 2
    ∧ (Gen.NormalInvGamma.posterior_real_Gaussian pr (.data xs)).b.val
        = pr.b.val + (pr.m.val ^ 2 * pr.v.val⁻¹ + B
            - (Gen.NormalInvGamma.posterior_real_Gaussian pr (.data xs)).m.val ^ 2
              * (Gen.NormalInvGamma.posterior_real_Gaussian pr (.data xs)).v.val⁻¹) / 2 := by
  obtain ⟨_, _, _, hm, hv, ha, hb⟩ := NormalInvGamma_posterior_valid pr hpr xs
  subst hn hA hB
  have hv0 : pr.v.val ≠ 0 := hpr.1.ne'
  have hw : 1 / pr.v.val + (xs.length : ℝ) ≠ 0 := by have := hpr.1; positivity
  rw [hm, hv, ha, hb]
  refine ⟨?_, ?_, rfl, ?_⟩
  · field_simp
  · field_simp
  · field_simp

-- @site NormalInvGamma.posterior_real_Gaussian
theorem NormalInvGamma_posterior_empty (pr : Gen.NormalInvGamma R) (hpr : NormalInvGammaValid pr) :
    (Gen.NormalInvGamma.posterior_real_Gaussian pr (.data [])).m.val = pr.m.val
    ∧ (Gen.NormalInvGamma.posterior_real_Gaussian pr (.data [])).v.val = pr.v.val
    ∧ (Gen.NormalInvGamma.posterior_real_Gaussian pr (.data [])).a.val = pr.a.val
    ∧ (Gen.NormalInvGamma.posterior_real_Gaussian pr (.data [])).b.val = pr.b.val := by
  obtain ⟨_, _, _, hm, hv, ha, hb⟩ := NormalInvGamma_posterior_valid pr hpr []
  have hv0 : pr.v.val ≠ 0 := hpr.1.ne'
  rw [hm, hv, ha, hb]
  simp only [List.map_nil, List.sum_nil, List.length_nil, Nat.cast_zero, add_zero]
  refine ⟨by field_simp, by field_simp, by ring, by field_simp; ring⟩

-- @site NormalInvGamma.posterior_real_Gaussian
theorem NormalInvGamma_posterior_sequential (pr : Gen.NormalInvGamma R) (hpr : NormalInvGammaValid pr)
    (xs ys : List R) :
    let p12 := Gen.NormalInvGamma.posterior_real_Gaussian
                (Gen.NormalInvGamma.posterior_real_Gaussian pr (.data xs)) (.data ys)
    let p := Gen.NormalInvGamma.posterior_real_Gaussian pr (.data (xs ++ ys))
    p12.m.val = p.m.val ∧ p12.v.val = p.v.val ∧ p12.a.val = p.a.val ∧ p12.b.val = p.b.val := by
  intro p12 p
  obtain ⟨_, _, hv1, m1, v1, a1, b1⟩ := NormalInvGamma_posterior_valid pr hpr xs
  obtain ⟨_, _, _, m2, v2, a2, b2⟩ := NormalInvGamma_posterior_valid _ hv1 ys
  obtain ⟨_, _, _, m3, v3, a3, b3⟩ := NormalInvGamma_posterior_valid pr hpr (xs ++ ys)
  have hx : (0 : ℝ) ≤ (xs.length : ℝ) := by positivity
  have hy : (0 : ℝ) ≤ (ys.length : ℝ) := by positivity
  have hv := hpr.1
  have hv0 : pr.v.val ≠ 0 := hv.ne'
  have h1 : 1 + pr.v.val * (xs.length : ℝ) ≠ 0 := by positivity
  have h2 : 1 + pr.v.val * ((xs.length : ℝ) + (ys.length : ℝ)) ≠ 0 := by positivity
  have h1' : 1 / pr.v.val + (xs.length : ℝ) ≠ 0 := by positivity
  have h2' : 1 / pr.v.val + ((xs.length : ℝ) + (ys.length : ℝ)) ≠ 0 := by positivity
  have h3' : 1 / pr.v.val + (xs.length : ℝ) + (ys.length : ℝ) ≠ 0 := by positivity
  refine ⟨?_, ?_, ?_, ?_⟩
  · show p12.m.val = p.m.val
    rw [m2, m3, m1, v1]
    simp only [List.map_append, List.sum_append, List.length_append, Nat.cast_add]
    field_simp; ring
  · show p12.v.val = p.v.val
    rw [v2, v3, v1]; simp only [List.length_append, Nat.cast_add]
    field_simp; ring
  · show p12.a.val = p.a.val
    rw [a2, a3, a1]; simp only [List.length_append, Nat.cast_add]; ring
  · show p12.b.val = p.b.val
    rw [b2, b3, b1, m1, v1]
    simp only [List.map_append, List.sum_append, List.length_append, Nat.cast_add]
    field_simp; ring

-- @site NormalInvGamma.ln_f_Gaussian
/-- Bayes' rule in log form at every Gaussian `θ = (μ, σ)`, `σ > 0`; all four terms are generated code -/
theorem NormalInvGamma_bayes (pr : Gen.NormalInvGamma R) (hpr : NormalInvGammaValid pr) (xs : List R)
    (θ : Gen.Gaussian R) (hσ : 0 < θ.sigma.val) :
    (Gen.NormalInvGamma.ln_f_Gaussian (Gen.NormalInvGamma.posterior_real_Gaussian pr (.data xs)) θ).val
      = (Gen.NormalInvGamma.ln_f_Gaussian pr θ).val + (xs.map (fun x => (Gen.Gaussian.ln_f_real θ x).val)).sum
        - (Gen.NormalInvGamma.ln_m_real_Gaussian pr (.data xs)).val := by
  obtain ⟨_, _, hvalid, hm, hv, ha, hb⟩ := NormalInvGamma_posterior_valid pr hpr xs
  obtain ⟨hn, _, _, _⟩ := gaussStat_facts xs
  have e2 : (Gen.NormalInvGamma.ln_m_real_Gaussian pr (.data xs)).val
      = -(xs.length : ℝ) * (Real.log (2 * π) / 2)
        + (Gen.ln_z_normal_inv_gamma (Gen.NormalInvGamma.posterior_real_Gaussian pr (.data xs)).v
            (Gen.NormalInvGamma.posterior_real_Gaussian pr (.data xs)).a
            (Gen.NormalInvGamma.posterior_real_Gaussian pr (.data xs)).b).val
        - (Gen.ln_z_normal_inv_gamma pr.v pr.a pr.b).val := by
    have e : Gen.NormalInvGamma.ln_m_real_Gaussian pr (.data xs)
        = Gen.NormalInvGamma.ln_m_real_Gaussian pr (.suffStat (gaussStat xs)) := rfl
    have e' : Gen.NormalInvGamma.posterior_real_Gaussian pr (.data xs)
        = Gen.posterior_from_stat_normal_inv_gamma pr (gaussStat xs) := rfl
    rw [e, e']
    simp only [Gen.NormalInvGamma.ln_m_real_Gaussian, Gen.NormalInvGamma.ln_m_with_cache_real_Gaussian,
      Gen.NormalInvGamma.ln_m_cache_real_Gaussian, Gen.GaussianSuffStat.get_n, mulAdd, R.add_val,
      R.sub_val, R.mul_val, R.neg_val, R.ofNatR_val, R.halfLn2Pi_val, hn]
    ring
  have hv0 := hpr.1
  have hv0' : pr.v.val ≠ 0 := hv0.ne'
  have hw : 1 / pr.v.val + (xs.length : ℝ) ≠ 0 := by positivity
  have hw' : 1 + pr.v.val * (xs.length : ℝ) ≠ 0 := by positivity
  have hσ0 : θ.sigma.val ≠ 0 := hσ.ne'
  have hlv : Real.log (Gen.NormalInvGamma.posterior_real_Gaussian pr (.data xs)).v.val
      = Real.log pr.v.val - Real.log (1 + pr.v.val * (xs.length : ℝ)) := by
    rw [hv, show 1 / (1 / pr.v.val + (xs.length : ℝ)) = pr.v.val / (1 + pr.v.val * (xs.length : ℝ)) by field_simp,
      Real.log_div hv0' hw']
  rw [e2, NIG_ln_f_closed _ hvalid θ hσ, NIG_ln_f_closed pr hpr θ hσ, NIG_ln_z_closed, NIG_ln_z_closed,
    gauss_loglik θ hσ xs, hlv, hm, hv, ha]
  generalize (Gen.NormalInvGamma.posterior_real_Gaussian pr (.data xs)).b.val = Bn at hb ⊢
  generalize Real.log Bn = LB
  subst hb
  field_simp
  ring

/-! ## NormalInvChiSquared – Gaussian   (`σ² ~ Scaled-Inv-χ²(v, s2)`, `μ | σ² ~ N(m, σ²/k)`) -/

-- @site NormalInvChiSquared.posterior_real_Gaussian
theorem NormalInvChiSquared_posterior_data_eq_stat (pr : Gen.NormalInvChiSquared R) (xs : List R) :
    Gen.NormalInvChiSquared.posterior_real_Gaussian pr (.data xs)
      = Gen.NormalInvChiSquared.posterior_real_Gaussian pr
          (.suffStat (xs.foldl (fun st y => Gen.GaussianSuffStat.observe_real st y) Gen.GaussianSuffStat.new)) := rfl

-- @site NormalInvChiSquared.posterior_from_suffstat_real_Gaussian
theorem NormalInvChiSquared_posterior_from_suffstat (pr : Gen.NormalInvChiSquared R) (st : Gen.GaussianSuffStat R) :
    Gen.NormalInvChiSquared.posterior_from_suffstat_real_Gaussian pr st
      = Gen.NormalInvChiSquared.posterior_real_Gaussian pr (.suffStat st) := rfl

-- @site posterior_from_stat_normal_inv_chi_squared
/-- sufficient-statistic arm (statistic valid: `sx ≥ 0`, and `sx = 0` when `n = 0`): either the early return
    (`n = 0`, posterior = prior) or `NormalInvChiSquared::new` succeeds on the literal arguments `nixM … nixS2`
    of the call; the result is valid in both cases -/
theorem NormalInvChiSquared_posterior_valid_stat (pr : Gen.NormalInvChiSquared R) (hpr : NormalInvChiSquaredValid pr)
    (st : Gen.GaussianSuffStat R) (hst : 0 ≤ st.sx.val) (hst0 : st.n = 0 → st.sx.val = 0) :
    (st.n = 0 → Gen.NormalInvChiSquared.posterior_real_Gaussian pr (.suffStat st) = pr)
    ∧ (st.n ≠ 0 →
        Gen.NormalInvChiSquared.new (nixM pr st) (nixK pr st) (nixV pr st) (nixS2 pr st)
          = .ok ⟨nixM pr st, nixK pr st, nixV pr st, nixS2 pr st⟩
        ∧ Gen.NormalInvChiSquared.posterior_real_Gaussian pr (.suffStat st)
          = ⟨nixM pr st, nixK pr st, nixV pr st, nixS2 pr st⟩)
    ∧ NormalInvChiSquaredValid (Gen.NormalInvChiSquared.posterior_real_Gaussian pr (.suffStat st)) := by
  obtain ⟨h1, h2, _, _, _, _, h7⟩ := NIX_post_stat pr hpr st hst hst0
  exact ⟨h1, h2, h7⟩

-- @site NormalInvChiSquared.posterior_real_Gaussian
/-- data arm: the `.expect` never fires and the posterior is valid; hyper-parameters as the code computes them,
    in terms of `n = |xs|`, `Σx`, `Σx²` (valid for `n = 0` too) -/
theorem NormalInvChiSquared_posterior_valid (pr : Gen.NormalInvChiSquared R) (hpr : NormalInvChiSquaredValid pr)
    (xs : List R) :
    (xs ≠ [] →
      Gen.NormalInvChiSquared.new (nixM pr (gaussStat xs)) (nixK pr (gaussStat xs)) (nixV pr (gaussStat xs))
          (nixS2 pr (gaussStat xs))
        = .ok ⟨nixM pr (gaussStat xs), nixK pr (gaussStat xs), nixV pr (gaussStat xs), nixS2 pr (gaussStat xs)⟩
      ∧ Gen.NormalInvChiSquared.posterior_real_Gaussian pr (.data xs)
        = ⟨nixM pr (gaussStat xs), nixK pr (gaussStat xs), nixV pr (gaussStat xs), nixS2 pr (gaussStat xs)⟩)
    ∧ NormalInvChiSquaredValid (Gen.NormalInvChiSquared.posterior_real_Gaussian pr (.data xs))
    ∧ (Gen.NormalInvChiSquared.posterior_real_Gaussian pr (.data xs)).m.val
        = (pr.k.val * pr.m.val + (xs.map R.val).sum) / (pr.k.val + (xs.length : ℝ))
    ∧ (Gen.NormalInvChiSquared.posterior_real_Gaussian pr (.data xs)).k.val = pr.k.val + (xs.length : ℝ)
    ∧ (Gen.NormalInvChiSquared.posterior_real_Gaussian pr (.data xs)).v.val = pr.v.val + (xs.length : ℝ)
    ∧ (Gen.NormalInvChiSquared.posterior_real_Gaussian pr (.data xs)).s2.val
        = (pr.v.val * pr.s2.val + (xs.map (fun x => x.val ^ 2)).sum + pr.k.val * pr.m.val ^ 2
            - (pr.k.val * pr.m.val + (xs.map R.val).sum) ^ 2 / (pr.k.val + (xs.length : ℝ)))
          / (pr.v.val + (xs.length : ℝ)) := by
  obtain ⟨hn, hA, hB, hsx⟩ := gaussStat_facts xs
  obtain ⟨_, h2, h3, h4, h5, h6, h7⟩ := NIX_post_stat pr hpr (gaussStat xs) hsx (gaussStat_sx_zero xs)
  have e : Gen.NormalInvChiSquared.posterior_real_Gaussian pr (.data xs)
      = Gen.posterior_from_stat_normal_inv_chi_squared pr (gaussStat xs) := rfl
  rw [e]
  rw [hn, hA] at h3
  rw [hn] at h4 h5
  rw [hn, hA, hB] at h6
  refine ⟨fun hx => h2 ?_, h7, h3, h4, h5, h6⟩
  rw [hn]; exact fun h => hx (List.length_eq_zero_iff.mp h)

example : NormalInvChiSquaredValid (⟨⟨0.1⟩, ⟨1.2⟩, ⟨2.3⟩, ⟨3.4⟩⟩ : Gen.NormalInvChiSquared R) := by
  refine ⟨?_, ?_, ?_⟩ <;> norm_num

-- @site posterior_from_stat_normal_inv_chi_squared
/-- the computed update coincides with the textbook Normal-Inverse-χ² update (Murphy 2007, §5.3 eq. 141–144):
    `κₙ = κ₀ + n`, `μₙ = (κ₀μ₀ + n x̄)/κₙ`, `νₙ = ν₀ + n`,
    `νₙ σₙ² = ν₀σ₀² + Σ(xᵢ − x̄)² + n κ₀ (μ₀ − x̄)²/(κ₀ + n)` -/
theorem NormalInvChiSquared_posterior_textbook (pr : Gen.NormalInvChiSquared R) (hpr : NormalInvChiSquaredValid pr)
    (xs : List R) (hxs : xs ≠ []) (n xbar : ℝ) (hn : n = (xs.length : ℝ)) (hxbar : xbar = (xs.map R.val).sum / n) :
    (Gen.NormalInvChiSquared.posterior_real_Gaussian pr (.data xs)).k.val = pr.k.val + n
    ∧ (Gen.NormalInvChiSquared.posterior_real_Gaussian pr (.data xs)).m.val
        = (pr.k.val * pr.m.val + n * xbar) / (pr.k.val + n)
    ∧ (Gen.NormalInvChiSquared.posterior_real_Gaussian pr (.data xs)).v.val = pr.v.val + n
    ∧ (Gen.NormalInvChiSquared.posterior_real_Gaussian pr (.data xs)).v.val
        * (Gen.NormalInvChiSquared.posterior_real_Gaussian pr (.data xs)).s2.val
        = pr.v.val * pr.s2.val + (xs.map (fun x => (x.val - xbar) ^ 2)).sum
          + n * pr.k.val * (pr.m.val - xbar) ^ 2 / (pr.k.val + n) := by
  obtain ⟨_, _, hm, hk, hv, hs2⟩ := NormalInvChiSquared_posterior_valid pr hpr xs
  have hn' : (0 : ℝ) < (xs.length : ℝ) := by
    have : 0 < xs.length := List.length_pos_iff.mpr hxs
    exact_mod_cast this
  subst hn
  subst hxbar
  have hkn : pr.k.val + (xs.length : ℝ) ≠ 0 := by have := hpr.1; positivity
  have hvn : pr.v.val + (xs.length : ℝ) ≠ 0 := by have := hpr.2.1; positivity
  have hn0 : (xs.length : ℝ) ≠ 0 := hn'.ne'
  refine ⟨hk, ?_, hv, ?_⟩
  · rw [hm]; field_simp
  · rw [hv, hs2, sum_sq_dev]; field_simp; ring

-- @site posterior_from_stat_normal_inv_chi_squared
/-- no data: the early return gives back the prior itself -/
theorem NormalInvChiSquared_posterior_empty (pr : Gen.NormalInvChiSquared R) :
    Gen.NormalInvChiSquared.posterior_real_Gaussian pr (.data []) = pr := by
  simp [Gen.NormalInvChiSquared.posterior_real_Gaussian, Gen.posterior_from_stat_normal_inv_chi_squared,
    Gen.GaussianSuffStat.get_n, Gen.GaussianSuffStat.new]

-- @site NormalInvChiSquared.posterior_real_Gaussian
theorem NormalInvChiSquared_posterior_sequential (pr : Gen.NormalInvChiSquared R)
    (hpr : NormalInvChiSquaredValid pr) (xs ys : List R) :
    let p12 := Gen.NormalInvChiSquared.posterior_real_Gaussian
                (Gen.NormalInvChiSquared.posterior_real_Gaussian pr (.data xs)) (.data ys)
    let p := Gen.NormalInvChiSquared.posterior_real_Gaussian pr (.data (xs ++ ys))
    p12.m.val = p.m.val ∧ p12.k.val = p.k.val ∧ p12.v.val = p.v.val ∧ p12.s2.val = p.s2.val := by
  intro p12 p
  obtain ⟨_, hv1, m1, k1, v1, s1⟩ := NormalInvChiSquared_posterior_valid pr hpr xs
  obtain ⟨_, _, m2, k2, v2, s2⟩ := NormalInvChiSquared_posterior_valid _ hv1 ys
  obtain ⟨_, _, m3, k3, v3, s3⟩ := NormalInvChiSquared_posterior_valid pr hpr (xs ++ ys)
  have hx : (0 : ℝ) ≤ (xs.length : ℝ) := by positivity
  have hy : (0 : ℝ) ≤ (ys.length : ℝ) := by positivity
  have hk := hpr.1
  have hv := hpr.2.1
  have h1 : pr.k.val + (xs.length : ℝ) ≠ 0 := by positivity
  have h2 : pr.k.val + (xs.length : ℝ) + (ys.length : ℝ) ≠ 0 := by positivity
  have h3 : pr.k.val + ((xs.length : ℝ) + (ys.length : ℝ)) ≠ 0 := by positivity
  have g1 : pr.v.val + (xs.length : ℝ) ≠ 0 := by positivity
  have g2 : pr.v.val + (xs.length : ℝ) + (ys.length : ℝ) ≠ 0 := by positivity
  have g3 : pr.v.val + ((xs.length : ℝ) + (ys.length : ℝ)) ≠ 0 := by positivity
  refine ⟨?_, ?_, ?_, ?_⟩
  · show p12.m.val = p.m.val
    rw [m2, m3, m1, k1]
    simp only [List.map_append, List.sum_append, List.length_append, Nat.cast_add]
    field_simp; ring
  · show p12.k.val = p.k.val
    rw [k2, k3, k1]; simp only [List.length_append, Nat.cast_add]; ring
  · show p12.v.val = p.v.val
    rw [v2, v3, v1]; simp only [List.length_append, Nat.cast_add]; ring
  · show p12.s2.val = p.s2.val
    rw [s2, s3, s1, m1, k1, v1]
    simp only [List.map_append, List.sum_append, List.length_append, Nat.cast_add]
    field_simp; ring

-- @site NormalInvChiSquared.ln_f_Gaussian
/-- Bayes' rule in log form at every Gaussian `θ = (μ, σ)`, `σ > 0`; all four terms are generated code -/
theorem NormalInvChiSquared_bayes (pr : Gen.NormalInvChiSquared R) (hpr : NormalInvChiSquaredValid pr) (xs : List R)
    (θ : Gen.Gaussian R) (hσ : 0 < θ.sigma.val) :
    (Gen.NormalInvChiSquared.ln_f_Gaussian (Gen.NormalInvChiSquared.posterior_real_Gaussian pr (.data xs)) θ).val
      = (Gen.NormalInvChiSquared.ln_f_Gaussian pr θ).val + (xs.map (fun x => (Gen.Gaussian.ln_f_real θ x).val)).sum
        - (Gen.NormalInvChiSquared.ln_m_real_Gaussian pr (.data xs)).val := by
  obtain ⟨_, hvalid, hm, hk, hv, hs2⟩ := NormalInvChiSquared_posterior_valid pr hpr xs
  obtain ⟨hn, _, _, _⟩ := gaussStat_facts xs
  have e2 : (Gen.NormalInvChiSquared.ln_m_real_Gaussian pr (.data xs)).val
      = -(xs.length : ℝ) * (Real.log π / 2)
        + (Gen.NormalInvChiSquared.ln_z (Gen.NormalInvChiSquared.posterior_real_Gaussian pr (.data xs))).val
        - (Gen.NormalInvChiSquared.ln_z pr).val := by
    have e : Gen.NormalInvChiSquared.ln_m_real_Gaussian pr (.data xs)
        = Gen.NormalInvChiSquared.ln_m_real_Gaussian pr (.suffStat (gaussStat xs)) := rfl
    have e' : Gen.NormalInvChiSquared.posterior_real_Gaussian pr (.data xs)
        = Gen.posterior_from_stat_normal_inv_chi_squared pr (gaussStat xs) := rfl
    rw [e, e']
    simp only [Gen.NormalInvChiSquared.ln_m_real_Gaussian, Gen.NormalInvChiSquared.ln_m_with_cache_real_Gaussian,
      Gen.NormalInvChiSquared.ln_m_cache_real_Gaussian, Gen.GaussianSuffStat.get_n, mulAdd, R.add_val,
      R.sub_val, R.mul_val, R.neg_val, R.ofNatR_val, R.halfLnPi_val, hn]
    ring
  have hk0 := hpr.1
  have hv0 := hpr.2.1
  have hkn : pr.k.val + (xs.length : ℝ) ≠ 0 := by positivity
  have hvn : pr.v.val + (xs.length : ℝ) ≠ 0 := by positivity
  have hσ0 : θ.sigma.val ≠ 0 := hσ.ne'
  have h2pi : Real.log (2 * π) = Real.log 2 + Real.log π :=
    Real.log_mul two_ne_zero Real.pi_ne_zero
  rw [e2, NIX_ln_f_closed _ hvalid θ hσ, NIX_ln_f_closed pr hpr θ hσ, NIX_ln_z_closed _ hvalid, NIX_ln_z_closed pr hpr,
    gauss_loglik θ hσ xs, h2pi, hm, hk, hv]
  generalize (Gen.NormalInvChiSquared.posterior_real_Gaussian pr (.data xs)).s2.val = S at hs2 ⊢
  generalize Real.log S = LS
  subst hs2
  field_simp
  ring

/-! satisfiable hypotheses on the statistic -/
example : 0 ≤ ((⟨3, ⟨0.5⟩, ⟨2.25⟩⟩ : Gen.GaussianSuffStat R)).sx.val := by norm_num

end C05

#print axioms C05.NormalGamma_posterior_data_eq_stat
#print axioms C05.NormalGamma_posterior_from_suffstat
#print axioms C05.NormalGamma_posterior_valid_stat
#print axioms C05.NormalGamma_posterior_valid
#print axioms C05.NormalGamma_posterior_textbook
#print axioms C05.NormalGamma_posterior_empty
#print axioms C05.NormalGamma_posterior_sequential
#print axioms C05.NormalGamma_bayes
#print axioms C05.NormalInvGamma_posterior_data_eq_stat
#print axioms C05.NormalInvGamma_posterior_from_suffstat
#print axioms C05.NormalInvGamma_posterior_valid_stat
#print axioms C05.NormalInvGamma_posterior_valid
#print axioms C05.NormalInvGamma_posterior_textbook
#print axioms C05.NormalInvGamma_posterior_empty
#print axioms C05.NormalInvGamma_posterior_sequential
#print axioms C05.NormalInvGamma_bayes
#print axioms C05.NormalInvChiSquared_posterior_data_eq_stat
#print axioms C05.NormalInvChiSquared_posterior_from_suffstat
#print axioms C05.NormalInvChiSquared_posterior_valid_stat
#print axioms C05.NormalInvChiSquared_posterior_valid
#print axioms C05.NormalInvChiSquared_posterior_textbook
#print axioms C05.NormalInvChiSquared_posterior_empty
#print axioms C05.NormalInvChiSquared_posterior_sequential
#print axioms C05.NormalInvChiSquared_bayes
