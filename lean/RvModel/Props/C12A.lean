import RvModel.RealInst
import RvModel.Gen.Defs
import RvModel.Spec.C12
import RvModel.Hand.C12
import RvModel.Lemmas.C12
/-!
  C12 (group A): the quantile function is the inverse of the CDF — over exact reals.

  For every distribution with a generated `invcdf_real` (Exponential, Uniform, Cauchy, Kumaraswamy, UnitPowerLaw,
  Gaussian, LogNormal), for all parameters accepted by the checked constructor:
  `cdf (invcdf p) = p` on (0,1), `invcdf (cdf x) = x` on the support, `invcdf` strictly increasing on (0,1),
  `invcdf p ∈ support`, `quantile = invcdf`, `interval p` is the central interval of probability exactly `p`,
  and `invcdf` equals the textbook quantile function of `Spec/C12.lean`.
  Gaussian / LogNormal: the facts `erf (erf⁻¹ y) = y` on (−1,1) and `erf⁻¹ (erf x) = x` are *proved* for the exact
  error function (`Lemmas/C12.lean`), so no contract hypothesis on `inv_error` remains on the carrier `R`.
  DiscreteUniform: the code is NOT the generalised inverse of its own cdf — `DiscreteUniform_invcdf_counterexample`.
  `-- @site` names the generated definition a theorem is about.  Hypotheses that a proof does not need are
  omitted (e.g. `invcdf (cdf x) = x` holds for every real `x` for the Exponential).
-/
set_option linter.unusedSimpArgs false
set_option linter.unusedVariables false
open Real

namespace C12

/-! ### Exponential(rate), rate > 0 -/

-- @site Exponential.invcdf_real
theorem Exponential_cdf_invcdf (d : Gen.Exponential R) (p : R) (hr : 0 < d.rate.val) (hp1 : p.val < 1) :
    (Gen.Exponential.cdf_real d (Gen.Exponential.invcdf_real d p)).val = p.val := by
  rw [Exponential_cdf_val, Exponential_invcdf_val]
  have e : -(d.rate.val * (-Real.log (1 - p.val) / d.rate.val)) = Real.log (1 - p.val) := by field_simp
  rw [e, Real.exp_log (by linarith)]
  ring

-- @site Exponential.invcdf_real
theorem Exponential_invcdf_cdf (d : Gen.Exponential R) (x : R) (hr : 0 < d.rate.val) :
    (Gen.Exponential.invcdf_real d (Gen.Exponential.cdf_real d x)).val = x.val := by
  rw [Exponential_invcdf_val, Exponential_cdf_val, sub_sub_cancel, Real.log_exp]
  field_simp

-- @site Exponential.invcdf_real
theorem Exponential_invcdf_mono (d : Gen.Exponential R) (p q : R) (hr : 0 < d.rate.val) (hpq : p.val < q.val)
    (hq1 : q.val < 1) :
    (Gen.Exponential.invcdf_real d p).val < (Gen.Exponential.invcdf_real d q).val := by
  rw [Exponential_invcdf_val, Exponential_invcdf_val]
  have : Real.log (1 - q.val) < Real.log (1 - p.val) := Real.log_lt_log (by linarith) (by linarith)
  exact div_lt_div_of_pos_right (by linarith) hr

-- @site Exponential.invcdf_real
theorem Exponential_invcdf_support (d : Gen.Exponential R) (p : R) (hr : 0 < d.rate.val) (hp0 : 0 < p.val)
    (hp1 : p.val < 1) :
    Gen.Exponential.supports_real d (Gen.Exponential.invcdf_real d p) = true := by
  simp only [Gen.Exponential.supports_real, RealLike.ge, R.isFinite_eq, Bool.and_true, R.le_iff, R.sci_val]
  rw [Exponential_invcdf_val]
  have : Real.log (1 - p.val) < 0 := Real.log_neg (by linarith) (by linarith)
  have : 0 ≤ -Real.log (1 - p.val) / d.rate.val := div_nonneg (by linarith) hr.le
  norm_num
  exact this

-- @site Exponential.quantile_real
theorem Exponential_quantile_eq (d : Gen.Exponential R) (p : R) :
    Gen.Exponential.quantile_real d p = Gen.Exponential.invcdf_real d p := rfl

-- @site Exponential.interval_real
theorem Exponential_interval (d : Gen.Exponential R) (p : R) (hr : 0 < d.rate.val) (hp0 : 0 < p.val)
    (hp1 : p.val < 1) :
    (Gen.Exponential.cdf_real d (Gen.Exponential.interval_real d p).2).val
      - (Gen.Exponential.cdf_real d (Gen.Exponential.interval_real d p).1).val = p.val ∧
    (Gen.Exponential.cdf_real d (Gen.Exponential.interval_real d p).1).val
      = 1 - (Gen.Exponential.cdf_real d (Gen.Exponential.interval_real d p).2).val := by
  simp only [Gen.Exponential.interval_real, Gen.Exponential.quantile_real]
  exact interval_of_cdf_invcdf (Gen.Exponential.cdf_real d) (Gen.Exponential.invcdf_real d)
    (fun q _ h1 => Exponential_cdf_invcdf d q hr h1) p hp0 hp1

-- @site Exponential.invcdf_real
theorem Exponential_invcdf_spec (d : Gen.Exponential R) (p : R) :
    (Gen.Exponential.invcdf_real d p).val = (Spec.Exponential.quantile d p).val := by
  rw [Exponential_invcdf_val]
  simp only [Spec.Exponential.quantile, R.sub_val, R.div_val, R.neg_val, R.ln_val, R.sci_val]
  norm_num

example : ∃ (d : Gen.Exponential R) (p q x : R), 0 < d.rate.val ∧ 0 < p.val ∧ p.val < q.val ∧ q.val < 1 ∧ 0 < x.val :=
  ⟨⟨⟨2⟩⟩, ⟨1/3⟩, ⟨1/2⟩, ⟨5⟩, by norm_num, by norm_num, by norm_num, by norm_num, by norm_num⟩

/-! ### Uniform(a, b), a < b -/

-- @site Uniform.invcdf_real
theorem Uniform_cdf_invcdf (d : Gen.Uniform R) (p : R) (hab : d.a.val < d.b.val) (hp0 : 0 < p.val)
    (hp1 : p.val < 1) :
    (Gen.Uniform.cdf_real d (Gen.Uniform.invcdf_real d p)).val = p.val := by
  rw [Uniform_cdf_val, Uniform_invcdf_val]
  have hba : 0 < d.b.val - d.a.val := by linarith
  have h1 : ¬ (d.a.val + p.val * (d.b.val - d.a.val) < d.a.val) := by nlinarith
  have h2 : ¬ (d.b.val ≤ d.a.val + p.val * (d.b.val - d.a.val)) := by nlinarith
  rw [if_neg h1, if_neg h2]
  field_simp
  ring

-- @site Uniform.invcdf_real
theorem Uniform_invcdf_cdf (d : Gen.Uniform R) (x : R) (hab : d.a.val < d.b.val) (hx0 : d.a.val ≤ x.val)
    (hx1 : x.val ≤ d.b.val) :
    (Gen.Uniform.invcdf_real d (Gen.Uniform.cdf_real d x)).val = x.val := by
  rw [Uniform_invcdf_val, Uniform_cdf_val, if_neg (not_lt.mpr hx0)]
  have hba : d.b.val - d.a.val ≠ 0 := by linarith
  by_cases h : d.b.val ≤ x.val
  · rw [if_pos h]; linarith
  · rw [if_neg h]; field_simp; ring

-- @site Uniform.invcdf_real
theorem Uniform_invcdf_mono (d : Gen.Uniform R) (p q : R) (hab : d.a.val < d.b.val) (hpq : p.val < q.val) :
    (Gen.Uniform.invcdf_real d p).val < (Gen.Uniform.invcdf_real d q).val := by
  rw [Uniform_invcdf_val, Uniform_invcdf_val]
  have hba : 0 < d.b.val - d.a.val := by linarith
  nlinarith

-- @site Uniform.invcdf_real
theorem Uniform_invcdf_support (d : Gen.Uniform R) (p : R) (hab : d.a.val < d.b.val) (hp0 : 0 < p.val)
    (hp1 : p.val < 1) :
    Gen.Uniform.supports_real d (Gen.Uniform.invcdf_real d p) = true := by
  simp only [Gen.Uniform.supports_real, R.isFinite_eq, Bool.true_and, Bool.and_eq_true, R.le_iff]
  rw [Uniform_invcdf_val]
  have hba : 0 < d.b.val - d.a.val := by linarith
  constructor <;> nlinarith

-- @site Uniform.quantile_real
theorem Uniform_quantile_eq (d : Gen.Uniform R) (p : R) :
    Gen.Uniform.quantile_real d p = Gen.Uniform.invcdf_real d p := rfl

-- @site Uniform.interval_real
theorem Uniform_interval (d : Gen.Uniform R) (p : R) (hab : d.a.val < d.b.val) (hp0 : 0 < p.val)
    (hp1 : p.val < 1) :
    (Gen.Uniform.cdf_real d (Gen.Uniform.interval_real d p).2).val
      - (Gen.Uniform.cdf_real d (Gen.Uniform.interval_real d p).1).val = p.val ∧
    (Gen.Uniform.cdf_real d (Gen.Uniform.interval_real d p).1).val
      = 1 - (Gen.Uniform.cdf_real d (Gen.Uniform.interval_real d p).2).val := by
  simp only [Gen.Uniform.interval_real, Gen.Uniform.quantile_real]
  exact interval_of_cdf_invcdf (Gen.Uniform.cdf_real d) (Gen.Uniform.invcdf_real d)
    (fun q h0 h1 => Uniform_cdf_invcdf d q hab h0 h1) p hp0 hp1

-- @site Uniform.invcdf_real
theorem Uniform_invcdf_spec (d : Gen.Uniform R) (p : R) :
    (Gen.Uniform.invcdf_real d p).val = (Spec.Uniform.quantile d p).val := by
  rw [Uniform_invcdf_val]
  simp only [Spec.Uniform.quantile, R.add_val, R.sub_val, R.mul_val]

example : ∃ (d : Gen.Uniform R) (p q x : R), d.a.val < d.b.val ∧ 0 < p.val ∧ p.val < q.val ∧ q.val < 1 ∧
    d.a.val ≤ x.val ∧ x.val ≤ d.b.val :=
  ⟨⟨⟨-1⟩, ⟨3⟩⟩, ⟨1/3⟩, ⟨1/2⟩, ⟨2⟩, by norm_num, by norm_num, by norm_num, by norm_num, by norm_num, by norm_num⟩

/-! ### Cauchy(loc, scale), scale > 0 -/

-- @site Cauchy.invcdf_real
theorem Cauchy_cdf_invcdf (d : Gen.Cauchy R) (p : R) (hs : 0 < d.scale.val) (hp0 : 0 < p.val) (hp1 : p.val < 1) :
    (Gen.Cauchy.cdf_real d (Gen.Cauchy.invcdf_real d p)).val = p.val := by
  rw [Cauchy_cdf_val, Cauchy_invcdf_val]
  obtain ⟨h1, h2⟩ := cauchy_angle p.val hp0 hp1
  have e : (d.loc.val + d.scale.val * Real.tan (π * (p.val - 1 / 2)) - d.loc.val) / d.scale.val
      = Real.tan (π * (p.val - 1 / 2)) := by field_simp; ring
  rw [e, Real.arctan_tan h1 h2]
  have := Real.pi_pos
  field_simp
  ring

-- @site Cauchy.invcdf_real
theorem Cauchy_invcdf_cdf (d : Gen.Cauchy R) (x : R) (hs : 0 < d.scale.val) :
    (Gen.Cauchy.invcdf_real d (Gen.Cauchy.cdf_real d x)).val = x.val := by
  rw [Cauchy_invcdf_val, Cauchy_cdf_val]
  have hpi := Real.pi_pos
  have e : π * (1 / 2 + Real.arctan ((x.val - d.loc.val) / d.scale.val) / π - 1 / 2)
      = Real.arctan ((x.val - d.loc.val) / d.scale.val) := by field_simp; ring
  rw [e, Real.tan_arctan]
  field_simp
  ring

-- @site Cauchy.invcdf_real
theorem Cauchy_invcdf_mono (d : Gen.Cauchy R) (p q : R) (hs : 0 < d.scale.val) (hp0 : 0 < p.val)
    (hpq : p.val < q.val) (hq1 : q.val < 1) :
    (Gen.Cauchy.invcdf_real d p).val < (Gen.Cauchy.invcdf_real d q).val := by
  rw [Cauchy_invcdf_val, Cauchy_invcdf_val]
  obtain ⟨h1, _⟩ := cauchy_angle p.val hp0 (by linarith)
  obtain ⟨_, h2⟩ := cauchy_angle q.val (by linarith) hq1
  have hlt : π * (p.val - 1 / 2) < π * (q.val - 1 / 2) := by
    have := Real.pi_pos
    nlinarith
  have := Real.tan_lt_tan_of_lt_of_lt_pi_div_two h1 h2 hlt
  nlinarith

-- @site Cauchy.invcdf_real
theorem Cauchy_invcdf_support (d : Gen.Cauchy R) (p : R) :
    Gen.Cauchy.supports_real d (Gen.Cauchy.invcdf_real d p) = true := by
  simp only [Gen.Cauchy.supports_real, R.isFinite_eq]

-- @site Cauchy.quantile_real
theorem Cauchy_quantile_eq (d : Gen.Cauchy R) (p : R) :
    Gen.Cauchy.quantile_real d p = Gen.Cauchy.invcdf_real d p := rfl

-- @site Cauchy.interval_real
theorem Cauchy_interval (d : Gen.Cauchy R) (p : R) (hs : 0 < d.scale.val) (hp0 : 0 < p.val) (hp1 : p.val < 1) :
    (Gen.Cauchy.cdf_real d (Gen.Cauchy.interval_real d p).2).val
      - (Gen.Cauchy.cdf_real d (Gen.Cauchy.interval_real d p).1).val = p.val ∧
    (Gen.Cauchy.cdf_real d (Gen.Cauchy.interval_real d p).1).val
      = 1 - (Gen.Cauchy.cdf_real d (Gen.Cauchy.interval_real d p).2).val := by
  simp only [Gen.Cauchy.interval_real, Gen.Cauchy.quantile_real]
  exact interval_of_cdf_invcdf (Gen.Cauchy.cdf_real d) (Gen.Cauchy.invcdf_real d)
    (fun q h0 h1 => Cauchy_cdf_invcdf d q hs h0 h1) p hp0 hp1

-- @site Cauchy.invcdf_real
theorem Cauchy_invcdf_spec (d : Gen.Cauchy R) (p : R) :
    (Gen.Cauchy.invcdf_real d p).val = (Spec.Cauchy.quantile d p).val := by
  rw [Cauchy_invcdf_val]
  simp only [Spec.Cauchy.quantile, R.add_val, R.sub_val, R.mul_val, R.tan_val, R.pi_val, R.sci_val]
  norm_num

example : ∃ (d : Gen.Cauchy R) (p q x : R), 0 < d.scale.val ∧ 0 < p.val ∧ p.val < q.val ∧ q.val < 1 ∧ x.val < 0 :=
  ⟨⟨⟨1⟩, ⟨3⟩⟩, ⟨1/3⟩, ⟨1/2⟩, ⟨-2⟩, by norm_num, by norm_num, by norm_num, by norm_num, by norm_num⟩

/-! ### Kumaraswamy(a, b), a > 0, b > 0 -/

-- @site Kumaraswamy.invcdf_real
theorem Kumaraswamy_cdf_invcdf (d : Gen.Kumaraswamy R) (p : R) (ha : 0 < d.a.val) (hb : 0 < d.b.val)
    (hp0 : 0 < p.val) (hp1 : p.val < 1) :
    (Gen.Kumaraswamy.cdf_real d (Gen.Kumaraswamy.invcdf_real d p)).val = p.val := by
  rw [Kumaraswamy_cdf_val, Kumaraswamy_invcdf_val]
  exact kuma_cdf_q _ _ _ ha hb hp0 hp1

-- @site Kumaraswamy.invcdf_real
theorem Kumaraswamy_invcdf_cdf (d : Gen.Kumaraswamy R) (x : R) (ha : 0 < d.a.val) (hb : 0 < d.b.val)
    (hx0 : 0 < x.val) (hx1 : x.val < 1) :
    (Gen.Kumaraswamy.invcdf_real d (Gen.Kumaraswamy.cdf_real d x)).val = x.val := by
  rw [Kumaraswamy_invcdf_val, Kumaraswamy_cdf_val]
  exact kuma_q_cdf _ _ _ ha hb hx0 hx1

-- @site Kumaraswamy.invcdf_real
theorem Kumaraswamy_invcdf_mono (d : Gen.Kumaraswamy R) (p q : R) (ha : 0 < d.a.val) (hb : 0 < d.b.val)
    (hp0 : 0 < p.val) (hpq : p.val < q.val) (hq1 : q.val < 1) :
    (Gen.Kumaraswamy.invcdf_real d p).val < (Gen.Kumaraswamy.invcdf_real d q).val := by
  rw [Kumaraswamy_invcdf_val, Kumaraswamy_invcdf_val]
  exact kuma_q_lt _ _ _ _ ha hb hp0 hpq hq1

-- @site Kumaraswamy.invcdf_real
theorem Kumaraswamy_invcdf_support (d : Gen.Kumaraswamy R) (p : R) (ha : 0 < d.a.val) (hb : 0 < d.b.val)
    (hp0 : 0 < p.val) (hp1 : p.val < 1) :
    Gen.Kumaraswamy.supports_real d (Gen.Kumaraswamy.invcdf_real d p) = true := by
  simp only [Gen.Kumaraswamy.supports_real, R.isFinite_eq, Bool.true_and, Bool.and_eq_true, R.lt_iff, R.sci_val]
  rw [Kumaraswamy_invcdf_val]
  have := kuma_q_mem _ _ _ ha hb hp0 hp1
  norm_num at this ⊢
  exact this

-- @site Kumaraswamy.quantile_real
theorem Kumaraswamy_quantile_eq (d : Gen.Kumaraswamy R) (p : R) :
    Gen.Kumaraswamy.quantile_real d p = Gen.Kumaraswamy.invcdf_real d p := rfl

-- @site Kumaraswamy.interval_real
theorem Kumaraswamy_interval (d : Gen.Kumaraswamy R) (p : R) (ha : 0 < d.a.val) (hb : 0 < d.b.val)
    (hp0 : 0 < p.val) (hp1 : p.val < 1) :
    (Gen.Kumaraswamy.cdf_real d (Gen.Kumaraswamy.interval_real d p).2).val
      - (Gen.Kumaraswamy.cdf_real d (Gen.Kumaraswamy.interval_real d p).1).val = p.val ∧
    (Gen.Kumaraswamy.cdf_real d (Gen.Kumaraswamy.interval_real d p).1).val
      = 1 - (Gen.Kumaraswamy.cdf_real d (Gen.Kumaraswamy.interval_real d p).2).val := by
  simp only [Gen.Kumaraswamy.interval_real, Gen.Kumaraswamy.quantile_real]
  exact interval_of_cdf_invcdf (Gen.Kumaraswamy.cdf_real d) (Gen.Kumaraswamy.invcdf_real d)
    (fun q h0 h1 => Kumaraswamy_cdf_invcdf d q ha hb h0 h1) p hp0 hp1

-- @site Kumaraswamy.invcdf_real
theorem Kumaraswamy_invcdf_spec (d : Gen.Kumaraswamy R) (p : R) :
    (Gen.Kumaraswamy.invcdf_real d p).val = (Spec.Kumaraswamy.quantile d p).val := by
  rw [Kumaraswamy_invcdf_val]
  simp only [Spec.Kumaraswamy.quantile, R.sub_val, R.div_val, R.powf_val, R.sci_val]
  norm_num

example : ∃ (d : Gen.Kumaraswamy R) (p q x : R), 0 < d.a.val ∧ 0 < d.b.val ∧ 0 < p.val ∧ p.val < q.val ∧
    q.val < 1 ∧ 0 < x.val ∧ x.val < 1 :=
  ⟨⟨⟨2⟩, ⟨3⟩⟩, ⟨1/3⟩, ⟨1/2⟩, ⟨1/4⟩, by norm_num, by norm_num, by norm_num, by norm_num, by norm_num, by norm_num,
    by norm_num⟩

/-! ### UnitPowerLaw(alpha), alpha > 0 -/

-- @site UnitPowerLaw.invcdf_real
theorem UnitPowerLaw_cdf_invcdf (d : Gen.UnitPowerLaw R) (p : R) (ha : 0 < d.alpha.val) (hp0 : 0 < p.val) :
    (Gen.UnitPowerLaw.cdf_real d (Gen.UnitPowerLaw.invcdf_real d p)).val = p.val := by
  rw [UnitPowerLaw_cdf_val, UnitPowerLaw_invcdf_val]
  exact rpow_inv_rpow _ _ hp0.le ha.ne'

-- @site UnitPowerLaw.invcdf_real
theorem UnitPowerLaw_invcdf_cdf (d : Gen.UnitPowerLaw R) (x : R) (ha : 0 < d.alpha.val) (hx0 : 0 < x.val) :
    (Gen.UnitPowerLaw.invcdf_real d (Gen.UnitPowerLaw.cdf_real d x)).val = x.val := by
  rw [UnitPowerLaw_invcdf_val, UnitPowerLaw_cdf_val]
  exact rpow_rpow_inv' _ _ hx0.le ha.ne'

-- @site UnitPowerLaw.invcdf_real
theorem UnitPowerLaw_invcdf_mono (d : Gen.UnitPowerLaw R) (p q : R) (ha : 0 < d.alpha.val) (hp0 : 0 < p.val)
    (hpq : p.val < q.val) :
    (Gen.UnitPowerLaw.invcdf_real d p).val < (Gen.UnitPowerLaw.invcdf_real d q).val := by
  rw [UnitPowerLaw_invcdf_val, UnitPowerLaw_invcdf_val]
  exact Real.rpow_lt_rpow hp0.le hpq (by positivity)

-- @site UnitPowerLaw.invcdf_real
theorem UnitPowerLaw_invcdf_support (d : Gen.UnitPowerLaw R) (p : R) (ha : 0 < d.alpha.val) (hp0 : 0 < p.val)
    (hp1 : p.val < 1) :
    Gen.UnitPowerLaw.supports_real d (Gen.UnitPowerLaw.invcdf_real d p) = true := by
  simp only [Gen.UnitPowerLaw.supports_real, Bool.and_eq_true, R.lt_iff, R.sci_val]
  rw [UnitPowerLaw_invcdf_val]
  have := rpow_mem_unit p.val (1 / d.alpha.val) hp0 hp1 (by positivity)
  norm_num at this ⊢
  exact this

-- @site UnitPowerLaw.quantile_real
theorem UnitPowerLaw_quantile_eq (d : Gen.UnitPowerLaw R) (p : R) :
    Gen.UnitPowerLaw.quantile_real d p = Gen.UnitPowerLaw.invcdf_real d p := rfl

-- @site UnitPowerLaw.interval_real
theorem UnitPowerLaw_interval (d : Gen.UnitPowerLaw R) (p : R) (ha : 0 < d.alpha.val) (hp0 : 0 < p.val)
    (hp1 : p.val < 1) :
    (Gen.UnitPowerLaw.cdf_real d (Gen.UnitPowerLaw.interval_real d p).2).val
      - (Gen.UnitPowerLaw.cdf_real d (Gen.UnitPowerLaw.interval_real d p).1).val = p.val ∧
    (Gen.UnitPowerLaw.cdf_real d (Gen.UnitPowerLaw.interval_real d p).1).val
      = 1 - (Gen.UnitPowerLaw.cdf_real d (Gen.UnitPowerLaw.interval_real d p).2).val := by
  simp only [Gen.UnitPowerLaw.interval_real, Gen.UnitPowerLaw.quantile_real]
  exact interval_of_cdf_invcdf (Gen.UnitPowerLaw.cdf_real d) (Gen.UnitPowerLaw.invcdf_real d)
    (fun q h0 _ => UnitPowerLaw_cdf_invcdf d q ha h0) p hp0 hp1

-- @site UnitPowerLaw.invcdf_real
theorem UnitPowerLaw_invcdf_spec (d : Gen.UnitPowerLaw R) (p : R) :
    (Gen.UnitPowerLaw.invcdf_real d p).val = (Spec.UnitPowerLaw.quantile d p).val := by
  rw [UnitPowerLaw_invcdf_val]
  simp only [Spec.UnitPowerLaw.quantile, R.div_val, R.powf_val, R.sci_val]
  norm_num

example : ∃ (d : Gen.UnitPowerLaw R) (p q : R), 0 < d.alpha.val ∧ 0 < p.val ∧ p.val < q.val ∧ q.val < 1 :=
  ⟨⟨⟨3⟩⟩, ⟨1/3⟩, ⟨1/2⟩, by norm_num, by norm_num, by norm_num, by norm_num⟩

/-! ### Gaussian(mu, sigma), sigma > 0 — `erf`/`erf⁻¹` inverse to each other is proved, not assumed -/

-- @site Gaussian.invcdf_real
theorem Gaussian_cdf_invcdf (d : Gen.Gaussian R) (p : R) (hs : 0 < d.sigma.val) (hp0 : 0 < p.val)
    (hp1 : p.val < 1) :
    (Gen.Gaussian.cdf_real d (Gen.Gaussian.invcdf_real d p)).val = p.val := by
  rw [Gaussian_cdf_val, Gaussian_invcdf_val]
  have h := sigma_sqrt2_pos _ hs
  have e : (d.mu.val + d.sigma.val * Real.sqrt 2 * Function.invFun R.erfR (2 * p.val - 1) - d.mu.val)
      / (d.sigma.val * Real.sqrt 2) = Function.invFun R.erfR (2 * p.val - 1) := by
    field_simp; ring
  rw [e, erfR_invFun_right _ (by linarith) (by linarith)]
  ring

-- @site Gaussian.cdf_real
/-- the cdf takes values in (0,1): the dropped `assert!(0 < p < 1)` of `invcdf` holds at `p = cdf x` -/
theorem Gaussian_cdf_in_unit (d : Gen.Gaussian R) (x : R) :
    0 < (Gen.Gaussian.cdf_real d x).val ∧ (Gen.Gaussian.cdf_real d x).val < 1 := by
  rw [Gaussian_cdf_val]
  have h1 := neg_one_lt_erfR ((x.val - d.mu.val) / (d.sigma.val * Real.sqrt 2))
  have h2 := erfR_lt_one ((x.val - d.mu.val) / (d.sigma.val * Real.sqrt 2))
  constructor <;> linarith

-- @site Gaussian.invcdf_real
theorem Gaussian_invcdf_cdf (d : Gen.Gaussian R) (x : R) (hs : 0 < d.sigma.val) :
    (Gen.Gaussian.invcdf_real d (Gen.Gaussian.cdf_real d x)).val = x.val := by
  rw [Gaussian_invcdf_val, Gaussian_cdf_val]
  have h := sigma_sqrt2_pos _ hs
  have e : 2 * ((1 + R.erfR ((x.val - d.mu.val) / (d.sigma.val * Real.sqrt 2))) / 2) - 1
      = R.erfR ((x.val - d.mu.val) / (d.sigma.val * Real.sqrt 2)) := by ring
  rw [e, erfR_invFun_left]
  field_simp
  ring

-- @site Gaussian.invcdf_real
theorem Gaussian_invcdf_mono (d : Gen.Gaussian R) (p q : R) (hs : 0 < d.sigma.val) (hp0 : 0 < p.val)
    (hpq : p.val < q.val) (hq1 : q.val < 1) :
    (Gen.Gaussian.invcdf_real d p).val < (Gen.Gaussian.invcdf_real d q).val := by
  rw [Gaussian_invcdf_val, Gaussian_invcdf_val]
  have h := sigma_sqrt2_pos _ hs
  have := erfInv_lt (2 * p.val - 1) (2 * q.val - 1) (by linarith) (by linarith) (by linarith)
  nlinarith

-- @site Gaussian.invcdf_real
theorem Gaussian_invcdf_support (d : Gen.Gaussian R) (p : R) (hp0 : 0 < p.val) (hp1 : p.val < 1) :
    Gen.Gaussian.supports_real d (Gen.Gaussian.invcdf_real d p) = true := by
  simp only [Gen.Gaussian.supports_real, R.isFinite_eq]

-- @site Gaussian.quantile_real
theorem Gaussian_quantile_eq (d : Gen.Gaussian R) (p : R) :
    Gen.Gaussian.quantile_real d p = Gen.Gaussian.invcdf_real d p := rfl

-- @site Gaussian.interval_real
theorem Gaussian_interval (d : Gen.Gaussian R) (p : R) (hs : 0 < d.sigma.val) (hp0 : 0 < p.val) (hp1 : p.val < 1) :
    (Gen.Gaussian.cdf_real d (Gen.Gaussian.interval_real d p).2).val
      - (Gen.Gaussian.cdf_real d (Gen.Gaussian.interval_real d p).1).val = p.val ∧
    (Gen.Gaussian.cdf_real d (Gen.Gaussian.interval_real d p).1).val
      = 1 - (Gen.Gaussian.cdf_real d (Gen.Gaussian.interval_real d p).2).val := by
  simp only [Gen.Gaussian.interval_real, Gen.Gaussian.quantile_real]
  exact interval_of_cdf_invcdf (Gen.Gaussian.cdf_real d) (Gen.Gaussian.invcdf_real d)
    (fun q h0 h1 => Gaussian_cdf_invcdf d q hs h0 h1) p hp0 hp1

-- @site Gaussian.invcdf_real
theorem Gaussian_invcdf_spec (d : Gen.Gaussian R) (p : R) (hp0 : 0 < p.val) (hp1 : p.val < 1) :
    (Gen.Gaussian.invcdf_real d p).val = (Spec.Gaussian.quantile d p).val := by
  rw [Gaussian_invcdf_val]
  simp only [Spec.Gaussian.quantile, R.add_val, R.sub_val, R.mul_val, R.erfInv_val, R.sqrt2_val, R.sci_val]
  norm_num

example : ∃ (d : Gen.Gaussian R) (p q : R), 0 < d.sigma.val ∧ 0 < p.val ∧ p.val < q.val ∧ q.val < 1 :=
  ⟨⟨⟨-1⟩, ⟨3⟩⟩, ⟨1/3⟩, ⟨1/2⟩, by norm_num, by norm_num, by norm_num, by norm_num⟩

/-! ### LogNormal(mu, sigma), sigma > 0 -/

-- @site LogNormal.invcdf_real
theorem LogNormal_cdf_invcdf (d : Gen.LogNormal R) (p : R) (hs : 0 < d.sigma.val) (hp0 : 0 < p.val)
    (hp1 : p.val < 1) :
    (Gen.LogNormal.cdf_real d (Gen.LogNormal.invcdf_real d p)).val = p.val := by
  rw [LogNormal_cdf_val, LogNormal_invcdf_val, Real.log_exp]
  have h := sigma_sqrt2_pos _ hs
  have e : (d.mu.val + d.sigma.val * Real.sqrt 2 * Function.invFun R.erfR (2 * p.val - 1) - d.mu.val)
      / (d.sigma.val * Real.sqrt 2) = Function.invFun R.erfR (2 * p.val - 1) := by
    field_simp; ring
  rw [e, erfR_invFun_right _ (by linarith) (by linarith)]
  ring

-- @site LogNormal.invcdf_real
theorem LogNormal_invcdf_cdf (d : Gen.LogNormal R) (x : R) (hs : 0 < d.sigma.val) (hx : 0 < x.val) :
    (Gen.LogNormal.invcdf_real d (Gen.LogNormal.cdf_real d x)).val = x.val := by
  rw [LogNormal_invcdf_val, LogNormal_cdf_val]
  have h := sigma_sqrt2_pos _ hs
  have e : 2 * ((1 + R.erfR ((Real.log x.val - d.mu.val) / (d.sigma.val * Real.sqrt 2))) / 2) - 1
      = R.erfR ((Real.log x.val - d.mu.val) / (d.sigma.val * Real.sqrt 2)) := by ring
  rw [e, erfR_invFun_left]
  have e2 : d.mu.val + d.sigma.val * Real.sqrt 2 * ((Real.log x.val - d.mu.val) / (d.sigma.val * Real.sqrt 2))
      = Real.log x.val := by field_simp; ring
  rw [e2, Real.exp_log hx]

-- @site LogNormal.invcdf_real
theorem LogNormal_invcdf_mono (d : Gen.LogNormal R) (p q : R) (hs : 0 < d.sigma.val) (hp0 : 0 < p.val)
    (hpq : p.val < q.val) (hq1 : q.val < 1) :
    (Gen.LogNormal.invcdf_real d p).val < (Gen.LogNormal.invcdf_real d q).val := by
  rw [LogNormal_invcdf_val, LogNormal_invcdf_val, Real.exp_lt_exp]
  have h := sigma_sqrt2_pos _ hs
  have := erfInv_lt (2 * p.val - 1) (2 * q.val - 1) (by linarith) (by linarith) (by linarith)
  nlinarith

-- @site LogNormal.invcdf_real
theorem LogNormal_invcdf_support (d : Gen.LogNormal R) (p : R) :
    Gen.LogNormal.supports_real d (Gen.LogNormal.invcdf_real d p) = true := by
  simp only [Gen.LogNormal.supports_real, RealLike.gt, R.isFinite_eq, Bool.and_true, R.lt_iff, R.sci_val]
  rw [LogNormal_invcdf_val]
  have := Real.exp_pos (d.mu.val + d.sigma.val * Real.sqrt 2 * Function.invFun R.erfR (2 * p.val - 1))
  norm_num
  exact this

-- @site LogNormal.quantile_real
theorem LogNormal_quantile_eq (d : Gen.LogNormal R) (p : R) :
    Gen.LogNormal.quantile_real d p = Gen.LogNormal.invcdf_real d p := rfl

-- @site LogNormal.interval_real
theorem LogNormal_interval (d : Gen.LogNormal R) (p : R) (hs : 0 < d.sigma.val) (hp0 : 0 < p.val)
    (hp1 : p.val < 1) :
    (Gen.LogNormal.cdf_real d (Gen.LogNormal.interval_real d p).2).val
      - (Gen.LogNormal.cdf_real d (Gen.LogNormal.interval_real d p).1).val = p.val ∧
    (Gen.LogNormal.cdf_real d (Gen.LogNormal.interval_real d p).1).val
      = 1 - (Gen.LogNormal.cdf_real d (Gen.LogNormal.interval_real d p).2).val := by
  simp only [Gen.LogNormal.interval_real, Gen.LogNormal.quantile_real]
  exact interval_of_cdf_invcdf (Gen.LogNormal.cdf_real d) (Gen.LogNormal.invcdf_real d)
    (fun q h0 h1 => LogNormal_cdf_invcdf d q hs h0 h1) p hp0 hp1

-- @site LogNormal.invcdf_real
theorem LogNormal_invcdf_spec (d : Gen.LogNormal R) (p : R) :
    (Gen.LogNormal.invcdf_real d p).val = (Spec.LogNormal.quantile d p).val := by
  rw [LogNormal_invcdf_val]
  simp only [Spec.LogNormal.quantile, R.add_val, R.sub_val, R.mul_val, R.erfInv_val, R.exp_val, R.sqrt2_val,
    R.sci_val]
  norm_num

example : ∃ (d : Gen.LogNormal R) (p q x : R), 0 < d.sigma.val ∧ 0 < p.val ∧ p.val < q.val ∧ q.val < 1 ∧ 0 < x.val :=
  ⟨⟨⟨-1⟩, ⟨3⟩⟩, ⟨1/3⟩, ⟨1/2⟩, ⟨7⟩, by norm_num, by norm_num, by norm_num, by norm_num, by norm_num⟩

/-! ### DiscreteUniform{a..b}, a < b

  Rust (`dist/discrete_uniform.rs:231-240`): `X::from_f64(p * diff).unwrap() + X::from(self.a)` with `X` an integer
  type, i.e. `a + trunc(p (b−a))`.  The generated `Gen.DiscreteUniform.invcdf_real` instantiates `X` with the real
  carrier and loses the truncation (`DiscreteUniform_gen_invcdf_untruncated`), so the theorems are stated on the
  hand model `Hand.DiscreteUniform.invcdf` (`Hand/C12.lean`), the generated cdf being evaluated at integers. -/

-- @site DiscreteUniform.invcdf_real
theorem DiscreteUniform_invcdf_counterexample :
    Hand.DiscreteUniform.invcdf (⟨0, 1⟩ : Gen.DiscreteUniform R) (⟨3/5⟩ : R) = 0 ∧
    (Gen.DiscreteUniform.cdf_real (⟨0, 1⟩ : Gen.DiscreteUniform R)
        (RealLike.ofIntR (Hand.DiscreteUniform.invcdf (⟨0, 1⟩ : Gen.DiscreteUniform R) (⟨3/5⟩ : R)))).val = 1 / 2 ∧
    (Gen.DiscreteUniform.cdf_real (⟨0, 1⟩ : Gen.DiscreteUniform R)
        (RealLike.ofIntR (Hand.DiscreteUniform.invcdf (⟨0, 1⟩ : Gen.DiscreteUniform R) (⟨3/5⟩ : R)))).val
      < (⟨3/5⟩ : R).val ∧
    Spec.DiscreteUniform.quantile (⟨0, 1⟩ : Gen.DiscreteUniform R) (⟨3/5⟩ : R) = 1 := by
  have h0 : Hand.DiscreteUniform.invcdf (⟨0, 1⟩ : Gen.DiscreteUniform R) (⟨3/5⟩ : R) = 0 := by
    rw [DiscreteUniform_hand_invcdf_val _ _ (by decide) (by norm_num)]
    norm_num
  have hq : Spec.DiscreteUniform.quantile (⟨0, 1⟩ : Gen.DiscreteUniform R) (⟨3/5⟩ : R) = 1 := by
    rw [DiscreteUniform_spec_quantile_val]
    have : ⌈(3/5 : ℝ) * ((1:ℤ) - (0:ℤ) + 1)⌉ = 2 := by
      rw [Int.ceil_eq_iff]; norm_num
    simp only [R.mk_val, this]
    decide
  refine ⟨h0, ?_, ?_, hq⟩
  · rw [h0, DiscreteUniform_cdf_val]; norm_num
  · rw [h0, DiscreteUniform_cdf_val]; norm_num

-- @site DiscreteUniform.invcdf_real
/-- since the repair "DiscreteUniform widens its bounds before subtracting" the source truncates in f64
    (`(p * diff).trunc() + a`), so the generated definition carries the truncation too and agrees with the hand model:
    for every `d` and every `p ≥ 0` its value is the integer `Hand.DiscreteUniform.invcdf d p`. -/
theorem DiscreteUniform_gen_invcdf_eq_hand (d : Gen.DiscreteUniform R) (p : R) (hp : 0 ≤ p.val) (hab : d.a ≤ d.b) :
    (Gen.DiscreteUniform.invcdf_real d p).val = ((Hand.DiscreteUniform.invcdf d p : Int) : ℝ) := by
  have hd : (0:ℝ) ≤ p.val * ((d.b : ℝ) - (d.a : ℝ)) := by
    apply mul_nonneg hp
    have : (d.a : ℝ) ≤ d.b := by exact_mod_cast hab
    linarith
  simp only [Gen.DiscreteUniform.invcdf_real, Hand.DiscreteUniform.invcdf, Option.getD_some, R.add_val, R.mul_val, R.sub_val,
    R.ofIntR_val, RealLike.trunc, RealLike.toInt]
  have h1 : (0:ℝ) ≤ p.val * (((d.b - d.a : Int)) : ℝ) := by push_cast; exact hd
  simp only [if_pos hd, if_pos h1]
  push_cast
  ring_nf

example : (Gen.DiscreteUniform.invcdf_real (⟨0, 1⟩ : Gen.DiscreteUniform R) (⟨3/5⟩ : R)).val
    = ((Hand.DiscreteUniform.invcdf (⟨0, 1⟩ : Gen.DiscreteUniform R) (⟨3/5⟩ : R) : Int) : ℝ) :=
  DiscreteUniform_gen_invcdf_eq_hand _ _ (by norm_num) (by decide)

-- @site DiscreteUniform.invcdf_real
theorem DiscreteUniform_invcdf_cdf (d : Gen.DiscreteUniform R) (k : Int) (hab : d.a < d.b) (hk0 : d.a ≤ k)
    (hk1 : k ≤ d.b) :
    Hand.DiscreteUniform.invcdf d (Gen.DiscreteUniform.cdf_real d (RealLike.ofIntR k)) = k := by
  have hA : (d.a : ℝ) < d.b := by exact_mod_cast hab
  have hK0 : (d.a : ℝ) ≤ k := by exact_mod_cast hk0
  have hK1 : (k : ℝ) ≤ d.b := by exact_mod_cast hk1
  have hc : (Gen.DiscreteUniform.cdf_real d (RealLike.ofIntR k)).val
      = if d.b ≤ k then 1 else ((k : ℝ) - (d.a : ℝ) + 1) / ((d.b : ℝ) - (d.a : ℝ) + 1) := by
    rw [DiscreteUniform_cdf_val, if_neg (not_lt.mpr hk0)]
  have hN : (0:ℝ) < (d.b : ℝ) - (d.a : ℝ) + 1 := by linarith
  by_cases hb : d.b ≤ k
  · have : k = d.b := le_antisymm hk1 hb
    rw [DiscreteUniform_hand_invcdf_val _ _ hab.le (by rw [hc, if_pos hb]; norm_num), hc, if_pos hb, one_mul]
    have : ((d.b : ℝ) - (d.a : ℝ)) = ((d.b - d.a : ℤ) : ℝ) := by push_cast; ring
    rw [this, Int.floor_intCast]; omega
  · have hK2 : (k : ℝ) < d.b := by exact_mod_cast (not_le.mp hb)
    have hnn : (0:ℝ) ≤ ((k : ℝ) - (d.a : ℝ) + 1) / ((d.b : ℝ) - (d.a : ℝ) + 1) := by
      apply div_nonneg <;> linarith
    rw [DiscreteUniform_hand_invcdf_val _ _ hab.le (by rw [hc, if_neg hb]; exact hnn), hc, if_neg hb]
    have hf : ⌊((k : ℝ) - (d.a : ℝ) + 1) / ((d.b : ℝ) - (d.a : ℝ) + 1) * ((d.b : ℝ) - (d.a : ℝ))⌋ = k - d.a := by
      rw [Int.floor_eq_iff]
      push_cast
      constructor
      · rw [div_mul_eq_mul_div, le_div_iff₀ hN]; nlinarith
      · rw [div_mul_eq_mul_div, div_lt_iff₀ hN]; nlinarith
    rw [hf]; ring

-- @site DiscreteUniform.invcdf_real
theorem DiscreteUniform_invcdf_support (d : Gen.DiscreteUniform R) (p : R) (hab : d.a < d.b) (hp0 : 0 ≤ p.val)
    (hp1 : p.val ≤ 1) :
    Gen.DiscreteUniform.supports_real d (RealLike.ofIntR (Hand.DiscreteUniform.invcdf d p)) = true := by
  have hA : (0:ℝ) ≤ (d.b : ℝ) - (d.a : ℝ) := by
    have : (d.a : ℝ) < d.b := by exact_mod_cast hab
    linarith
  simp only [Gen.DiscreteUniform.supports_real, RealLike.ge, Bool.and_eq_true, R.le_iff, R.ofIntR_val]
  rw [DiscreteUniform_hand_invcdf_val _ _ hab.le hp0]
  have h0 : 0 ≤ ⌊p.val * ((d.b : ℝ) - (d.a : ℝ))⌋ := Int.floor_nonneg.mpr (mul_nonneg hp0 hA)
  have h1 : ⌊p.val * ((d.b : ℝ) - (d.a : ℝ))⌋ ≤ d.b - d.a := by
    rw [Int.floor_le_iff]; push_cast; nlinarith
  constructor
  · exact_mod_cast (by omega : d.a ≤ ⌊p.val * ((d.b : ℝ) - (d.a : ℝ))⌋ + d.a)
  · exact_mod_cast (by omega : ⌊p.val * ((d.b : ℝ) - (d.a : ℝ))⌋ + d.a ≤ d.b)

-- @site DiscreteUniform.invcdf_real
theorem DiscreteUniform_invcdf_mono (d : Gen.DiscreteUniform R) (p q : R) (hab : d.a < d.b) (hp0 : 0 ≤ p.val)
    (hpq : p.val ≤ q.val) :
    Hand.DiscreteUniform.invcdf d p ≤ Hand.DiscreteUniform.invcdf d q := by
  have hA : (0:ℝ) ≤ (d.b : ℝ) - (d.a : ℝ) := by
    have : (d.a : ℝ) < d.b := by exact_mod_cast hab
    linarith
  rw [DiscreteUniform_hand_invcdf_val _ _ hab.le hp0, DiscreteUniform_hand_invcdf_val _ _ hab.le (hp0.trans hpq)]
  have := Int.floor_le_floor (mul_le_mul_of_nonneg_right hpq hA)
  omega

-- @site DiscreteUniform.invcdf_real
/-- the Spec (closed form with a ceiling) is the generalised inverse of the textbook cdf: it lies in the support,
    its cdf reaches `p`, and no smaller support point reaches `p` -/
theorem DiscreteUniform_spec_quantile_is_min (d : Gen.DiscreteUniform R) (p : R) (hab : d.a < d.b)
    (hp0 : 0 < p.val) (hp1 : p.val ≤ 1) :
    d.a ≤ Spec.DiscreteUniform.quantile d p ∧ Spec.DiscreteUniform.quantile d p ≤ d.b ∧
    p.val ≤ (Spec.DiscreteUniform.cdf d (Spec.DiscreteUniform.quantile d p)).val ∧
    ∀ k : Int, d.a ≤ k → k ≤ d.b → p.val ≤ (Spec.DiscreteUniform.cdf d k).val →
      Spec.DiscreteUniform.quantile d p ≤ k := by
  have hA : (d.a : ℝ) < d.b := by exact_mod_cast hab
  have hN : (0:ℝ) < (d.b : ℝ) - (d.a : ℝ) + 1 := by linarith
  set c : Int := ⌈p.val * ((d.b : ℝ) - (d.a : ℝ) + 1)⌉ with hc
  have hc1 : 1 ≤ c := by
    have : 0 < c := Int.ceil_pos.mpr (mul_pos hp0 hN)
    omega
  have hc2 : c ≤ d.b - d.a + 1 := by
    rw [hc, Int.ceil_le]; push_cast; nlinarith
  have hcp : p.val * ((d.b : ℝ) - (d.a : ℝ) + 1) ≤ c := Int.le_ceil _
  have hQ : Spec.DiscreteUniform.quantile d p = d.a + c - 1 := by
    rw [DiscreteUniform_spec_quantile_val, ← hc]; omega
  rw [hQ]
  refine ⟨by omega, by omega, ?_, ?_⟩
  · rw [DiscreteUniform_spec_cdf_val, if_neg (by omega)]
    split_ifs with h
    · exact hp1
    · rw [le_div_iff₀ hN]; push_cast; linarith
  · intro k hk0 hk1 hpk
    rw [DiscreteUniform_spec_cdf_val, if_neg (by omega)] at hpk
    split_ifs at hpk with h
    · omega
    · rw [le_div_iff₀ hN] at hpk
      have : c ≤ k - d.a + 1 := by
        rw [hc, Int.ceil_le]; push_cast; linarith
      omega

-- @site DiscreteUniform.cdf_real
/-- the textbook cdf of the Spec and the generated cdf agree on the integers -/
theorem DiscreteUniform_cdf_spec (d : Gen.DiscreteUniform R) (k : Int) :
    (Gen.DiscreteUniform.cdf_real d (RealLike.ofIntR k)).val = (Spec.DiscreteUniform.cdf d k).val := by
  rw [DiscreteUniform_cdf_val, DiscreteUniform_spec_cdf_val]

-- @site DiscreteUniform.invcdf_real
/-- the code never overshoots: its answer is at most the true quantile -/
theorem DiscreteUniform_invcdf_le_quantile (d : Gen.DiscreteUniform R) (p : R) (hab : d.a < d.b)
    (hp0 : 0 < p.val) (hp1 : p.val ≤ 1) :
    Hand.DiscreteUniform.invcdf d p ≤ Spec.DiscreteUniform.quantile d p := by
  have hA : (d.a : ℝ) < d.b := by exact_mod_cast hab
  rw [DiscreteUniform_hand_invcdf_val _ _ hab.le hp0.le, DiscreteUniform_spec_quantile_val]
  have h1 : ⌊p.val * ((d.b : ℝ) - (d.a : ℝ))⌋ < ⌈p.val * ((d.b : ℝ) - (d.a : ℝ) + 1)⌉ := by
    rw [Int.floor_lt]
    calc p.val * ((d.b : ℝ) - (d.a : ℝ)) < p.val * ((d.b : ℝ) - (d.a : ℝ) + 1) := by nlinarith
      _ ≤ _ := Int.le_ceil _
  have := le_max_right d.a (d.a + ⌈p.val * ((d.b : ℝ) - (d.a : ℝ) + 1)⌉ - 1)
  omega

example : ∃ (d : Gen.DiscreteUniform R) (p q : R) (k : Int), d.a < d.b ∧ 0 < p.val ∧ p.val ≤ q.val ∧ q.val ≤ 1 ∧
    d.a ≤ k ∧ k ≤ d.b :=
  ⟨⟨-2, 5⟩, ⟨1/3⟩, ⟨1/2⟩, 3, by decide, by norm_num, by norm_num, by norm_num, by decide, by decide⟩

end C12

#print axioms C12.Exponential_cdf_invcdf
#print axioms C12.Exponential_invcdf_cdf
#print axioms C12.Exponential_invcdf_mono
#print axioms C12.Exponential_invcdf_support
#print axioms C12.Exponential_quantile_eq
#print axioms C12.Exponential_interval
#print axioms C12.Exponential_invcdf_spec
#print axioms C12.Uniform_cdf_invcdf
#print axioms C12.Uniform_invcdf_cdf
#print axioms C12.Uniform_invcdf_mono
#print axioms C12.Uniform_invcdf_support
#print axioms C12.Uniform_quantile_eq
#print axioms C12.Uniform_interval
#print axioms C12.Uniform_invcdf_spec
#print axioms C12.Cauchy_cdf_invcdf
#print axioms C12.Cauchy_invcdf_cdf
#print axioms C12.Cauchy_invcdf_mono
#print axioms C12.Cauchy_invcdf_support
#print axioms C12.Cauchy_quantile_eq
#print axioms C12.Cauchy_interval
#print axioms C12.Cauchy_invcdf_spec
#print axioms C12.Kumaraswamy_cdf_invcdf
#print axioms C12.Kumaraswamy_invcdf_cdf
#print axioms C12.Kumaraswamy_invcdf_mono
#print axioms C12.Kumaraswamy_invcdf_support
#print axioms C12.Kumaraswamy_quantile_eq
#print axioms C12.Kumaraswamy_interval
#print axioms C12.Kumaraswamy_invcdf_spec
#print axioms C12.UnitPowerLaw_cdf_invcdf
#print axioms C12.UnitPowerLaw_invcdf_cdf
#print axioms C12.UnitPowerLaw_invcdf_mono
#print axioms C12.UnitPowerLaw_invcdf_support
#print axioms C12.UnitPowerLaw_quantile_eq
#print axioms C12.UnitPowerLaw_interval
#print axioms C12.UnitPowerLaw_invcdf_spec
#print axioms C12.Gaussian_cdf_invcdf
#print axioms C12.Gaussian_cdf_in_unit
#print axioms C12.Gaussian_invcdf_cdf
#print axioms C12.Gaussian_invcdf_mono
#print axioms C12.Gaussian_invcdf_support
#print axioms C12.Gaussian_quantile_eq
#print axioms C12.Gaussian_interval
#print axioms C12.Gaussian_invcdf_spec
#print axioms C12.LogNormal_cdf_invcdf
#print axioms C12.LogNormal_invcdf_cdf
#print axioms C12.LogNormal_invcdf_mono
#print axioms C12.LogNormal_invcdf_support
#print axioms C12.LogNormal_quantile_eq
#print axioms C12.LogNormal_interval
#print axioms C12.LogNormal_invcdf_spec
#print axioms C12.DiscreteUniform_invcdf_counterexample
#print axioms C12.DiscreteUniform_gen_invcdf_eq_hand
#print axioms C12.DiscreteUniform_invcdf_cdf
#print axioms C12.DiscreteUniform_invcdf_support
#print axioms C12.DiscreteUniform_invcdf_mono
#print axioms C12.DiscreteUniform_spec_quantile_is_min
#print axioms C12.DiscreteUniform_cdf_spec
#print axioms C12.DiscreteUniform_invcdf_le_quantile
