import RvModel.RealInst
import RvModel.Gen.Defs
import RvModel.Hand.Ks
import RvModel.Hand.Empirical
import RvModel.Spec.C20
import RvModel.Lemmas.C20
import Mathlib.Tactic.NormNum.OfScientific
import Mathlib.Tactic.FieldSimp
import Mathlib.Tactic.Positivity
import Mathlib.Tactic.Linarith
/-!
  C20 — goodness-of-fit statistics and p-values are the ones they are named after.

  Carrier `R` (exact reals), samples are lists.  The models are `Hand/Ks.lean`, `Hand/Empirical.lean` (hand models of the code the
  translator rejects) and the generated `Gen.x2_test`, `Gen.Empirical.mean_real/variance_real`, `Gen.paths_outside_proportion`,
  `Gen.mmul`.  Specifications: `Spec/C20.lean`.  `-- @site` names the Rust function a theorem is about.

  Findings proved here (all confirmed on the real code, see props/C20_notes.md):
    * `ks_test` looks only at the left limit of each ECDF step: its statistic is ≤ the Kolmogorov–Smirnov distance and
      differs from it e.g. for `xs = [0.1]`, `F = id` (0.1 instead of 0.9).
    * `Empirical::cdf` returns the strictly-less count at a sample point below the maximum (`[1,2,3].cdf(2) = 1/3`).
    * `ks_two_sample`, exact two-sided p-value for unequal sample sizes, is not the lattice-path proportion (and not in [0,1]).
    * `ks_two_sample`, exact one-sided p-value for unequal sizes, wraps around in `usize`.
-/
open Real

namespace C20
open C20L

/-! ## 1. the one-sample statistic -/

-- @site ks_test
/-- the statistic of `ks_test` is `max(0, max_i |i/n − F x₍ᵢ₎|)` over the sorted sample (0-based `i`): only the LEFT limit
    `F_n(x₍ᵢ₎−) = i/n` of each step of the empirical CDF is compared with `F`. -/
theorem ksStat_formula (xs : List R) (F : R → R) :
    (Hand.ksStat xs F).val =
      fmax (fun iv : Nat × R => |(iv.1 : ℝ) / (xs.length : ℝ) - iv.2.val|) (enumL ((Hand.sortR xs).map F)) 0 := by
  unfold Hand.ksStat
  rw [ksStatVals_val, List.length_map, sortR_length]

-- @site ks_test
/-- code ≤ true distance -/
theorem ksStat_le_ksD (xs : List R) (F : R → R) :
    (Hand.ksStat xs F).val ≤ (Spec.C20.ksD ((Hand.sortR xs).map F)).val := by
  unfold Hand.ksStat
  rw [ksD_eq_max]
  exact le_max_left _ _

-- @site ks_test
/-- the true distance is the larger of what the code computes and of the part it misses (the ECDF values AT the sample
    points, `|(i+1)/n − F x₍ᵢ₎|`) -/
theorem ksD_eq_max_code_upper (xs : List R) (F : R → R) :
    (Spec.C20.ksD ((Hand.sortR xs).map F)).val =
      max (Hand.ksStat xs F).val (Spec.C20.ksUpper ((Hand.sortR xs).map F)).val := by
  unfold Hand.ksStat
  exact ksD_eq_max _

-- @site ks_test
/-- the code returns the Kolmogorov–Smirnov distance exactly when the distance is attained on a left limit, i.e. when no
    `|(i+1)/n − F x₍ᵢ₎|` exceeds the returned value -/
theorem ksStat_eq_ksD_iff (xs : List R) (F : R → R) :
    (Hand.ksStat xs F).val = (Spec.C20.ksD ((Hand.sortR xs).map F)).val ↔
      (Spec.C20.ksUpper ((Hand.sortR xs).map F)).val ≤ (Hand.ksStat xs F).val := by
  rw [ksD_eq_max_code_upper]
  constructor
  · intro h; rw [h]; exact le_max_right _ _
  · intro h; rw [max_eq_left h]

-- @site ks_test
/-- in index form: equality iff every `|(j+1)/n − F x₍ⱼ₎|` is bounded by the returned value -/
theorem ksStat_eq_ksD_iff_index (xs : List R) (F : R → R) :
    (Hand.ksStat xs F).val = (Spec.C20.ksD ((Hand.sortR xs).map F)).val ↔
      ∀ j (hj : j < (Hand.sortR xs).length),
        |((j + 1 : ℕ) : ℝ) / (xs.length : ℝ) - (F (Hand.sortR xs)[j]).val| ≤ (Hand.ksStat xs F).val := by
  have hl : ((Hand.sortR xs).length : ℝ) = (xs.length : ℝ) := by rw [sortR_length]
  rw [ksStat_eq_ksD_iff, ksUpper_val, List.length_map, hl]
  constructor
  · intro h j hj
    have hm := mem_enumL ((Hand.sortR xs).map F) j (by simpa using hj)
    have := le_fmax_of_mem (fun iv : Nat × R => |((iv.1 + 1 : ℕ) : ℝ) / (xs.length : ℝ) - iv.2.val|) _ 0 _ hm
    simp only [List.getElem_map] at this
    exact le_trans this h
  · intro h
    apply fmax_le
    · rw [ksStat_formula]; exact le_fmax_init _ _ _
    · intro p hp
      obtain ⟨hi, he⟩ := of_mem_enumL _ p hp
      have := h p.1 (by simpa using hi)
      rw [← he]
      simpa using this

-- @site ks_test
/-- `Spec.ksD` dominates both one-sided gaps at every sample point, and is one of them (or 0 for the empty sample) -/
theorem ksD_is_max (vals : List R) :
    (∀ i (hi : i < vals.length),
        |(i : ℝ) / (vals.length : ℝ) - vals[i].val| ≤ (Spec.C20.ksD vals).val ∧
        |((i + 1 : ℕ) : ℝ) / (vals.length : ℝ) - vals[i].val| ≤ (Spec.C20.ksD vals).val) ∧
    ((Spec.C20.ksD vals).val = 0 ∨ ∃ i, ∃ hi : i < vals.length,
        (Spec.C20.ksD vals).val = |(i : ℝ) / (vals.length : ℝ) - vals[i].val| ∨
        (Spec.C20.ksD vals).val = |((i + 1 : ℕ) : ℝ) / (vals.length : ℝ) - vals[i].val|) := by
  rw [ksD_val]
  constructor
  · intro i hi
    have := le_fmax_of_mem (fun iv : Nat × R => max |(iv.1 : ℝ) / (vals.length : ℝ) - iv.2.val|
      |((iv.1 + 1 : ℕ) : ℝ) / (vals.length : ℝ) - iv.2.val|) _ 0 _ (mem_enumL vals i hi)
    exact ⟨le_trans (le_max_left _ _) this, le_trans (le_max_right _ _) this⟩
  · rcases fmax_attained (fun iv : Nat × R => max |(iv.1 : ℝ) / (vals.length : ℝ) - iv.2.val|
      |((iv.1 + 1 : ℕ) : ℝ) / (vals.length : ℝ) - iv.2.val|) (enumL vals) 0 with h | ⟨p, hp, h⟩
    · left; exact h
    · right
      obtain ⟨hi, he⟩ := of_mem_enumL _ p hp
      refine ⟨p.1, hi, ?_⟩
      rw [h, he]
      rcases max_cases |(p.1 : ℝ) / (vals.length : ℝ) - p.2.val| |((p.1 + 1 : ℕ) : ℝ) / (vals.length : ℝ) - p.2.val|
        with ⟨hm, _⟩ | ⟨hm, _⟩
      · left; exact hm
      · right; exact hm


-- @site ks_test
/-- `Spec.ksD` IS the Kolmogorov–Smirnov distance.  Full statement (not proved in this form): for a continuous monotone `F`
    with values in `[0,1]`, `Spec.ksD ((sort xs).map F) = sup_t |F_n t − F t|`.  Proved:
    (a) it bounds `|F_n t − F t|` at every `t` (no continuity needed);
    (b) for pairwise distinct observations its two terms at `x₍ᵢ₎` are `|F_n(x₍ᵢ₎) − F x₍ᵢ₎|` — attained at `t = x₍ᵢ₎` — and
        `|F_n(x₍ᵢ₎−) − F x₍ᵢ₎|`, the left limit of `|F_n − F|` at `x₍ᵢ₎` when `F` is continuous.
    Missing: the topological step "a left limit of `|F_n − F|` is ≤ its supremum" (no Mathlib topology imported here). -/
theorem ksD_is_sup_partial (xs : List R) (F : R → R)
    (hF : ∀ a b : R, a.val ≤ b.val → (F a).val ≤ (F b).val) (h01 : ∀ x, 0 ≤ (F x).val ∧ (F x).val ≤ 1)
    (hne : 0 < xs.length) :
    (∀ t, |(Spec.C20.ecdf xs t).val - (F t).val| ≤ (Spec.C20.ksD ((Hand.sortR xs).map F)).val) ∧
    (xs.Pairwise (fun a b => a.val ≠ b.val) → ∀ i (hi : i < (Hand.sortR xs).length),
      (Spec.C20.ecdf xs (Hand.sortR xs)[i]).val = ((i + 1 : ℕ) : ℝ) / (xs.length : ℝ) ∧
      (Spec.C20.ecdfLeft xs (Hand.sortR xs)[i]).val = (i : ℝ) / (xs.length : ℝ)) := by
  constructor
  · intro t
    have := ksD_upper_bound (Hand.sortR xs) F (sortR_sorted xs) hF h01 (by rw [sortR_length]; exact hne) t
    rw [ecdf_val, countLe_perm (sortR_perm xs), sortR_length] at this
    rw [ecdf_val]
    exact this
  · intro hd i hi
    obtain ⟨h1, h2⟩ := ecdf_at_sorted_point (Hand.sortR xs) (sortR_strict hd) i hi
    rw [ecdf_val, ecdfLeft_val, ← countLe_perm (sortR_perm xs), ← countLt_perm (sortR_perm xs), h1, h2]
    exact ⟨rfl, rfl⟩

example : ∀ a b : R, a.val ≤ b.val → ((fun x : R => (⟨max 0 (min 1 x.val)⟩ : R)) a).val ≤
    ((fun x : R => (⟨max 0 (min 1 x.val)⟩ : R)) b).val := by
  intro a b h; exact max_le_max (le_refl _) (min_le_min (le_refl _) h)

-- @site ks_test
/-- **counterexample** (design-phase measurement `ks_test(&[0.1], |x| x) = (0.1, 1.0)`): one observation `0.1`, `F = id` on
    `[0,1]`.  `F_n` jumps from 0 to 1 at 0.1, so `sup |F_n − F| = 1 − 0.1 = 0.9`; the code returns `|0/1 − 0.1| = 0.1`. -/
theorem ksStat_counterexample :
    (Hand.ksStat [(0.1 : R)] id).val = 0.1 ∧ (Spec.C20.ksD ((Hand.sortR [(0.1 : R)]).map id)).val = 0.9 ∧
    (Hand.ksStat [(0.1 : R)] id).val ≠ (Spec.C20.ksD ((Hand.sortR [(0.1 : R)]).map id)).val := by
  have hs : Hand.sortR [(0.1 : R)] = [(0.1 : R)] := by simp [Hand.sortR]
  have h1 : (Hand.ksStat [(0.1 : R)] id).val = 0.1 := by
    rw [ksStat_formula, hs]
    simp only [List.map_cons, List.map_nil, enumL, List.length_cons, List.length_nil, List.range_succ, List.range_zero,
      List.nil_append, List.zip_cons_cons, List.zip_nil_right, fmax_cons, fmax_nil, id, R.sci_val]
    norm_num
  have h2 : (Spec.C20.ksD ((Hand.sortR [(0.1 : R)]).map id)).val = 0.9 := by
    rw [hs, ksD_val]
    simp only [List.map_cons, List.map_nil, enumL, List.length_cons, List.length_nil, List.range_succ, List.range_zero,
      List.nil_append, List.zip_cons_cons, List.zip_nil_right, fmax_cons, fmax_nil, id, R.sci_val]
    norm_num
  refine ⟨h1, h2, ?_⟩
  rw [h1, h2]; norm_num

example : ∃ xs : List R, ∃ F : R → R, (Hand.ksStat xs F).val < (Spec.C20.ksD ((Hand.sortR xs).map F)).val :=
  ⟨[(0.1 : R)], id, by rw [ksStat_counterexample.1, ksStat_counterexample.2.1]; norm_num⟩

/-! ## 2. `Empirical` -/

-- @site Empirical::cdf
/-- **what the code computes, away from the sample**: for `x` different from every observation, `cdf x = #{xᵢ ≤ x}/n`
    (there the strict and the non-strict counts agree) -/
theorem Empirical_cdf_not_mem (xs : List R) (e : Gen.Empirical R) (x : R) (h : Hand.Empirical.new? xs = some e)
    (hx : ∀ y ∈ xs, y.val ≠ x.val) : (Hand.Empirical.cdf e x).val = (Spec.C20.ecdf xs x).val := by
  obtain ⟨hxs, hpos, _, _⟩ := new?_some h
  have hs : e.xs.Pairwise (fun a b => a.val ≤ b.val) := by rw [hxs]; exact sortR_sorted xs
  have hperm : e.xs.Perm xs := by rw [hxs]; exact sortR_perm xs
  have hlen : xs.length = e.xs.length := hperm.length_eq.symm
  rw [ecdf_val, ← countLe_perm hperm, hlen]
  have hn : ((e.xs.length : ℕ) : ℝ) ≠ 0 := by exact_mod_cast (Nat.pos_iff_ne_zero.mp hpos)
  rcases cdf_val_cases h x with ⟨c, hc⟩ | ⟨c, hc⟩ | ⟨c1, c2, hc⟩
  · rw [hc]
    have : Spec.C20.countLe e.xs x = 0 := by
      rw [countLe_val]
      apply countP_eq_of_split _ _ 0 (Nat.zero_le _)
      · intro k _ hk; omega
      · intro k hk _
        have := sorted_gv hs (Nat.zero_le k) hk
        rw [gv_eq e.xs k hk] at this
        simpa using lt_of_lt_of_le c this
    rw [this]; simp
  · rw [hc]
    have : Spec.C20.countLe e.xs x = e.xs.length := by
      rw [countLe_val]
      apply countP_eq_of_split _ _ _ (le_refl _)
      · intro k hk _
        have := sorted_gv hs (by omega : k ≤ e.xs.length - 1) (by omega)
        rw [gv_eq e.xs k hk] at this
        simpa using le_trans this c
      · intro k hk hk2; omega
    rw [this, div_self hn]
  · rw [hc]
    have hf : (Hand.bsearch e.xs x).1 = false := by
      by_contra hne
      have ht : (Hand.bsearch e.xs x).1 = true := by simpa using hne
      obtain ⟨hz, he⟩ := (bsearch_spec e.xs x hs).1 ht
      rw [gv_eq e.xs _ hz] at he
      exact hx _ (hperm.subset (List.getElem_mem hz)) he
    rw [(bsearch_err_count e.xs x hs hf).2]

-- @site Empirical::cdf
/-- **at a sample point below the maximum the value is too small**, whatever index the binary search returns among ties:
    `#{xᵢ < x}/n ≤ cdf x < #{xᵢ ≤ x}/n` -/
theorem Empirical_cdf_at_sample_point (xs : List R) (e : Gen.Empirical R) (x : R) (h : Hand.Empirical.new? xs = some e)
    (hx : ∃ y ∈ xs, y.val = x.val) (hmax : ∃ y ∈ xs, x.val < y.val) :
    (Spec.C20.ecdfLeft xs x).val ≤ (Hand.Empirical.cdf e x).val ∧
    (Hand.Empirical.cdf e x).val < (Spec.C20.ecdf xs x).val := by
  obtain ⟨hxs, hpos, _, _⟩ := new?_some h
  have hs : e.xs.Pairwise (fun a b => a.val ≤ b.val) := by rw [hxs]; exact sortR_sorted xs
  have hperm : e.xs.Perm xs := by rw [hxs]; exact sortR_perm xs
  have hlen : xs.length = e.xs.length := hperm.length_eq.symm
  rw [ecdf_val, ecdfLeft_val, ← countLe_perm hperm, ← countLt_perm hperm, hlen]
  have hn : (0 : ℝ) < ((e.xs.length : ℕ) : ℝ) := by exact_mod_cast hpos
  obtain ⟨y, hy, hyx⟩ := hx
  obtain ⟨w, hw, hxw⟩ := hmax
  have hy' : y ∈ e.xs := hperm.symm.subset hy
  have hw' : w ∈ e.xs := hperm.symm.subset hw
  rcases cdf_val_cases h x with ⟨c, _⟩ | ⟨c, _⟩ | ⟨_, _, hc⟩
  · have := (mem_bounds hs hy').1; rw [hyx] at this; exact absurd c (not_lt.mpr this)
  · have := (mem_bounds hs hw').2; exact absurd (lt_of_lt_of_le hxw this) (not_lt.mpr c)
  · rw [hc]
    have ht := bsearch_found_of_mem e.xs x hs ⟨y, hy', hyx⟩
    obtain ⟨h1, h2⟩ := bsearch_ok_count e.xs x hs ht
    constructor
    · exact div_le_div_of_nonneg_right (by exact_mod_cast h1) (le_of_lt hn)
    · exact div_lt_div_of_pos_right (by exact_mod_cast (Nat.lt_of_succ_le h2)) hn

-- @site Empirical::cdf
/-- with pairwise distinct observations: at a sample point below the maximum, `cdf x = #{xᵢ < x}/n` — the left limit of the
    empirical CDF, one step `1/n` short of `P(X ≤ x)` -/
theorem Empirical_cdf_at_sample_point_distinct (xs : List R) (e : Gen.Empirical R) (x : R)
    (h : Hand.Empirical.new? xs = some e) (hd : xs.Pairwise (fun a b => a.val ≠ b.val))
    (hx : ∃ y ∈ xs, y.val = x.val) (hmax : ∃ y ∈ xs, x.val < y.val) :
    (Hand.Empirical.cdf e x).val = (Spec.C20.ecdfLeft xs x).val := by
  obtain ⟨hxs, hpos, _, _⟩ := new?_some h
  have hs : e.xs.Pairwise (fun a b => a.val ≤ b.val) := by rw [hxs]; exact sortR_sorted xs
  have hperm : e.xs.Perm xs := by rw [hxs]; exact sortR_perm xs
  have hlen : xs.length = e.xs.length := hperm.length_eq.symm
  have hd' : e.xs.Pairwise (fun a b => a.val ≠ b.val) :=
    (hperm.pairwise_iff (fun hab => Ne.symm hab)).mpr hd
  have hss : e.xs.Pairwise (fun a b => a.val < b.val) :=
    (hs.and hd').imp (fun hab => lt_of_le_of_ne hab.1 hab.2)
  rw [ecdfLeft_val, ← countLt_perm hperm, hlen]
  obtain ⟨y, hy, hyx⟩ := hx
  obtain ⟨w, hw, hxw⟩ := hmax
  have hy' : y ∈ e.xs := hperm.symm.subset hy
  have hw' : w ∈ e.xs := hperm.symm.subset hw
  rcases cdf_val_cases h x with ⟨c, _⟩ | ⟨c, _⟩ | ⟨_, _, hc⟩
  · have := (mem_bounds hs hy').1; rw [hyx] at this; exact absurd c (not_lt.mpr this)
  · have := (mem_bounds hs hw').2; exact absurd (lt_of_lt_of_le hxw this) (not_lt.mpr c)
  · rw [hc]
    have ht := bsearch_found_of_mem e.xs x hs ⟨y, hy', hyx⟩
    rw [bsearch_ok_count_distinct e.xs x hss ht]

-- @site Empirical::cdf
/-- from the maximum on the value is 1 (correct) -/
theorem Empirical_cdf_at_max (xs : List R) (e : Gen.Empirical R) (x : R) (h : Hand.Empirical.new? xs = some e)
    (hx : ∀ y ∈ xs, y.val ≤ x.val) : (Hand.Empirical.cdf e x).val = 1 := by
  obtain ⟨hxs, hpos, _, _⟩ := new?_some h
  have hperm : e.xs.Perm xs := by rw [hxs]; exact sortR_perm xs
  have hlast : gv e.xs (e.xs.length - 1) ≤ x.val := by
    rw [gv_eq e.xs _ (by omega)]
    exact hx _ (hperm.subset (List.getElem_mem _))
  have hs : e.xs.Pairwise (fun a b => a.val ≤ b.val) := by rw [hxs]; exact sortR_sorted xs
  rcases cdf_val_cases h x with ⟨c, _⟩ | ⟨_, hc⟩ | ⟨_, c, _⟩
  · exact absurd (lt_of_lt_of_le c (sorted_gv hs (Nat.zero_le _) (by omega))) (not_lt.mpr hlast)
  · exact hc
  · exact absurd c (not_lt.mpr hlast)

-- @site Empirical::cdf
/-- **counterexample** (design-phase measurement `Empirical::new(vec![1.,2.,3.]).cdf(&2.0) = 0.333…`):
    `P(X ≤ 2) = 2/3` for the sample `1, 2, 3`; the code returns `1/3`. -/
theorem Empirical_cdf_counterexample (e : Gen.Empirical R)
    (h : Hand.Empirical.new? [(1.0 : R), (2.0 : R), (3.0 : R)] = some e) :
    (Hand.Empirical.cdf e (2.0 : R)).val = 1 / 3 ∧
    (Spec.C20.ecdf [(1.0 : R), (2.0 : R), (3.0 : R)] (2.0 : R)).val = 2 / 3 := by
  constructor
  · rw [Empirical_cdf_at_sample_point_distinct _ e _ h]
    · simp only [ecdfLeft_val, countLt_val, List.countP_cons, List.countP_nil, R.sci_val, List.length_cons, List.length_nil]
      norm_num
    · simp only [List.pairwise_cons, List.mem_cons, List.not_mem_nil, or_false, forall_eq_or_imp, forall_eq, R.sci_val,
        List.Pairwise.nil, and_true, IsEmpty.forall_iff, implies_true]
      norm_num
    · exact ⟨(2.0 : R), by simp, rfl⟩
    · exact ⟨(3.0 : R), by simp, by simp only [R.sci_val]; norm_num⟩
  · simp only [ecdf_val, countLe_val, List.countP_cons, List.countP_nil, R.sci_val, List.length_cons, List.length_nil]
    norm_num

example : ∃ e, Hand.Empirical.new? [(1.0 : R), (2.0 : R), (3.0 : R)] = some e := new?_isSome (by simp)

-- @site Empirical::mean
/-- `mean` is the sample mean `Σ xᵢ / n` -/
theorem Empirical_mean (e : Gen.Empirical R) :
    (Gen.Empirical.mean_real e).map R.val = some ((e.xs.map R.val).sum / (e.xs.length : ℝ)) := by
  simp [Gen.Empirical.mean_real, R.sumL_val]

-- @site Empirical::variance
/-- `variance` is the POPULATION variance `Σ (xᵢ − m)² / n` (divisor `n`, not `n − 1`) — the variance of the distribution that
    puts mass `1/n` on every observation, which is what the `Variance` trait of a *distribution* promises -/
theorem Empirical_variance (e : Gen.Empirical R) :
    (Gen.Empirical.variance_real e).map R.val =
      some ((e.xs.map (fun x => (x.val - (e.xs.map R.val).sum / (e.xs.length : ℝ)) ^ 2)).sum / (e.xs.length : ℝ)) := by
  simp [Gen.Empirical.variance_real, Gen.Empirical.mean_real, R.sumL_val, List.map_map, Function.comp_def, sq]

-- @site Empirical::new
/-- degenerate input: `Empirical::new(vec![])` reads `xs[0]` — a panic (`none`), not a reported error -/
theorem Empirical_new_empty : Hand.Empirical.new? ([] : List R) = none := new?_nil

/-! ## 3. permutation invariance -/

-- @site ks_test
theorem ks_test_perm (xs ys : List R) (F : R → R) (h : xs.Perm ys) : Hand.ksTest xs F = Hand.ksTest ys F := by
  unfold Hand.ksTest Hand.ksStat
  rw [sortR_eq_of_perm h, h.length_eq]

-- @site ks_two_sample
/-- for every admissible binary search `bs` and either integer semantics `M` -/
theorem ks_two_sample_perm (bs : List R → R → Bool × Nat) (M : Nat) (xs xs' ys ys' : List R)
    (mode : Hand.KsMode) (alt : Hand.KsAlternative) (hx : xs.Perm xs') (hy : ys.Perm ys') :
    Hand.ksTwoSampleWith bs M xs ys mode alt = Hand.ksTwoSampleWith bs M xs' ys' mode alt := by
  unfold Hand.ksTwoSampleWith Hand.ksTwoStat
  rw [sortR_eq_of_perm hx, sortR_eq_of_perm hy, hx.length_eq, hy.length_eq]

-- @site Empirical::new
/-- the constructed object — hence `cdf`, `mean`, `variance`, `err`, … — depends only on the multiset of the sample -/
theorem empirical_perm (xs ys : List R) (h : xs.Perm ys) : Hand.Empirical.new? xs = Hand.Empirical.new? ys := by
  unfold Hand.Empirical.new?
  rw [sortR_eq_of_perm h]

example : ([(1.0 : R), (2.0 : R)]).Perm [(2.0 : R), (1.0 : R)] := List.Perm.swap _ _ _


/-! ## 4. `x2_test` -/

-- @site x2_test
/-- the statistic is Pearson's `Σ (oᵢ − n pᵢ)² / (n pᵢ)`, `n = Σ oᵢ` (over the cells present in both slices) -/
theorem x2_test_stat (obs : List Nat) (ps : List R) (hn : 0 < obs.sum) (hp : ∀ p ∈ ps, 0 < p.val) :
    (Gen.x2_test obs ps).1.val = (Spec.C20.x2Stat obs ps).val := by
  have hn' : (0 : ℝ) < ((obs.sum : ℕ) : ℝ) := by exact_mod_cast hn
  simp only [Gen.x2_test, Spec.C20.x2Stat, R.mul_val]
  rw [foldl_val_add _ (fun op : Nat × R => ((op.1 : ℝ) / (obs.sum : ℝ) - op.2.val) *
      ((op.1 : ℝ) / (obs.sum : ℝ) - op.2.val) / op.2.val)
    (by intro acc op; obtain ⟨o, p⟩ := op; simp only [R.add_val, R.mul_val, R.div_val, R.sub_val, R.ofNatR_val])]
  rw [R.sumL_val, zero_val, zero_add, List.map_map, R.ofNatR_val, ← List.sum_map_mul_left]
  congr 1
  apply List.map_congr_left
  intro op hop
  have hp2 : 0 < op.2.val := hp _ (List.of_mem_zip hop).2
  simp only [Function.comp, R.mul_val, R.div_val, R.sub_val, R.ofNatR_val]
  field_simp

example : 0 < ([28, 31, 40, 35] : List Nat).sum ∧ ∀ p ∈ [(0.25 : R), (0.25 : R), (0.25 : R), (0.25 : R)], 0 < p.val := by
  refine ⟨by decide, ?_⟩
  intro p hp
  simp only [List.mem_cons, List.not_mem_nil, or_false, or_self] at hp
  subst hp; rw [R.sci_val]; norm_num

-- @site x2_test
/-- the p-value is the chi-square survival function with `k − 1` degrees of freedom, `1 − P((k−1)/2, x²/2)`, `P` the
    regularised lower incomplete gamma function (`R.incGammaR x a = ∫₀ˣ t^(a−1) e^(−t) dt / Γ(a)`) -/
theorem x2_test_pvalue (obs : List Nat) (ps : List R) :
    (Gen.x2_test obs ps).2.val =
      1 - R.incGammaR ((Gen.x2_test obs ps).1.val / 2) (((obs.length - 1 : ℕ) : ℝ) / 2) := by
  simp only [Gen.x2_test, R.sub_val, R.incGamma_val, R.div_val, R.ofNatR_val, R.sci_val]
  norm_num

-- @site x2_test
/-- degenerate input, not reported: with slices of different lengths the extra cells are dropped from the sum but still counted
    in `n` and in the degrees of freedom.  `x2_test(&[1,2,3], &[0.2,0.3])` silently returns `x² = 1/18` (real code:
    `0.05555555555555558`) -/
theorem x2_test_length_mismatch_silent :
    (Gen.x2_test [1, 2, 3] [(0.2 : R), (0.3 : R)]).1.val = 1 / 18 := by
  simp only [Gen.x2_test, List.zip_cons_cons, List.zip_nil_right, List.foldl_cons, List.foldl_nil, List.sum_cons,
    List.sum_nil, R.mul_val, R.add_val, R.div_val, R.sub_val, R.ofNatR_val, R.sci_val]
  norm_num

/-! ## 5. exact p-values: lattice paths -/

-- @site paths_outside
/-- `paths_outside(m, n, g, h)` over exact naturals counts the monotone lattice paths `(0,0) → (max m n, min m n)` that visit a
    point with `ng·x − mg·y ≥ h` — equal to a brute-force enumeration of all `C(m+n, n)` paths, for all sizes `≤ 6` and every
    `h` the caller can produce (`0 ≤ h ≤ lcm(m,n)`, `g = gcd(m,n)`) -/
theorem pathsOutside_eq_brute : ∀ m ∈ List.range' 1 6, ∀ n ∈ List.range' 1 6, ∀ h ∈ List.range (m / Nat.gcd m n * n + 1),
    Hand.pathsOutsideNat m n (Nat.gcd m n) h = Spec.C20.bruteOutside m n (Nat.gcd m n) h := by decide +kernel

-- @site paths_outside
/-- the specification recurrence (`A(x,y) = A(x−1,y) + A(x,y−1)`, `0` outside the band; outside = `C(m+n,n) − A(m,n)`) agrees with
    the enumeration on the same range (including one `h` beyond `lcm`) -/
theorem pathsOutside_spec_eq_brute : ∀ m ∈ List.range' 1 6, ∀ n ∈ List.range' 1 6,
    ∀ h ∈ List.range (m / Nat.gcd m n * n + 2),
    Spec.C20.pathsOutside m n (Nat.gcd m n) h = Spec.C20.bruteOutside m n (Nat.gcd m n) h := by decide +kernel

-- @site paths_outside
/-- `num_integer::binomial` (as transcribed, without overflow) is Pascal's triangle -/
theorem binomial_eq_choose : ∀ n ∈ List.range 14, ∀ k ∈ List.range 16, Hand.binomialW 0 n k = Spec.C20.choose n k := by
  decide +kernel

-- @site paths_outside
/-- count ≤ total on the same range, so the exact one-sided p-value `paths/binomial` is in `[0,1]` -/
theorem pathsOutside_le_total : ∀ m ∈ List.range' 1 6, ∀ n ∈ List.range' 1 6, ∀ h ∈ List.range (m / Nat.gcd m n * n + 1),
    Hand.pathsOutsideNat m n (Nat.gcd m n) h ≤ Hand.binomialW 0 (m + n) m ∧ 0 < Hand.binomialW 0 (m + n) m := by
  decide +kernel

-- @site paths_outside
/-- the floating-point form of the abscissae (`ceil((mg·j + h)/ng) as usize`) is, over exact reals and for an integral `h`, the
    integer ceiling: the `α`-version of the counter IS the exact integer counter -/
theorem pathsOutside_real_eq_nat (M m n g h : Nat) (hg : 0 < Nat.min m n / g) :
    Hand.pathsOutside M m n g (RealLike.ofNatR h : R) = Hand.pathsOutsideNatW M m n g h := by
  unfold Hand.pathsOutside Hand.pathsOutsideNatW
  simp only []
  congr 2
  apply List.map_congr_left
  intro j _
  exact xj_real _ _ _ _ hg

example : 0 < Nat.min 4 6 / Nat.gcd 4 6 := by decide

-- @site ks_two_sample
/-- exact one-sided p-value, unequal sizes, exact integer arithmetic: in `[0,1]` (sizes ≤ 6, every reachable `h`) -/
theorem ks_two_sample_exact_onesided_unit : ∀ m ∈ List.range' 1 6, ∀ n ∈ List.range' 1 6,
    ∀ h ∈ List.range (m / Nat.gcd m n * n + 1),
    0 ≤ ((RealLike.ofNatR (Hand.pathsOutside 0 m n (Nat.gcd m n) (RealLike.ofNatR h : R)) : R) /
          RealLike.ofNatR (Hand.binomialW 0 (m + n) m)).val ∧
    ((RealLike.ofNatR (Hand.pathsOutside 0 m n (Nat.gcd m n) (RealLike.ofNatR h : R)) : R) /
          RealLike.ofNatR (Hand.binomialW 0 (m + n) m)).val ≤ 1 := by
  intro m hm n hn h hh
  have hg : 0 < Nat.min m n / Nat.gcd m n := by
    have hm1 : 1 ≤ m := by simp [List.mem_range'] at hm; omega
    have hn1 : 1 ≤ n := by simp [List.mem_range'] at hn; omega
    exact Nat.div_pos (Nat.le_min.mpr ⟨Nat.gcd_le_left n hm1, Nat.gcd_le_right m hn1⟩)
      (Nat.gcd_pos_of_pos_left n hm1)
  rw [pathsOutside_real_eq_nat 0 m n _ h hg]
  obtain ⟨hle, hpos⟩ := pathsOutside_le_total m hm n hn h hh
  simp only [R.div_val, R.ofNatR_val]
  have hpos' : (0 : ℝ) < ((Hand.binomialW 0 (m + n) m : ℕ) : ℝ) := by exact_mod_cast hpos
  constructor
  · positivity
  · rw [div_le_one hpos']; exact_mod_cast hle

-- @site ks_two_sample
/-- exact one-sided p-value, equal sizes (`Π_{j<h} (n−j)/(n+j+1)`, ks.rs:222-225): in `[0,1]` for every `n`, `h` -/
theorem ks_two_sample_exact_onesided_equal_unit (n : Nat) (h : R) :
    0 ≤ (Hand.oneSidedEqualP n h).val ∧ (Hand.oneSidedEqualP n h).val ≤ 1 := by
  unfold Hand.oneSidedEqualP
  generalize List.range (RealLike.toNat h) = l
  have key : ∀ (l : List Nat) (p : R), 0 ≤ p.val → p.val ≤ 1 →
      0 ≤ (l.foldl (fun p j => (RealLike.ofNatR (n - j) : R) * p /
        ((RealLike.ofNatR n : R) + RealLike.ofNatR j + (1.0 : R))) p).val ∧
      (l.foldl (fun p j => (RealLike.ofNatR (n - j) : R) * p /
        ((RealLike.ofNatR n : R) + RealLike.ofNatR j + (1.0 : R))) p).val ≤ 1 := by
    intro l
    induction l with
    | nil => intro p h0 h1; exact ⟨h0, h1⟩
    | cons j l ih =>
      intro p h0 h1
      rw [List.foldl_cons]
      have hd : (0 : ℝ) < (n : ℝ) + (j : ℝ) + 1 := by positivity
      have hnj : ((n - j : ℕ) : ℝ) ≤ (n : ℝ) := by exact_mod_cast Nat.sub_le n j
      apply ih
      · simp only [R.div_val, R.mul_val, R.add_val, R.ofNatR_val, one_val]
        positivity
      · simp only [R.div_val, R.mul_val, R.add_val, R.ofNatR_val, one_val]
        rw [div_le_one hd]
        have h2 : ((n - j : ℕ) : ℝ) * p.val ≤ (n : ℝ) * 1 := mul_le_mul hnj h1 h0 (Nat.cast_nonneg n)
        have h3 : (0:ℝ) ≤ (j : ℝ) := Nat.cast_nonneg j
        linarith
  exact key l (1.0 : R) (by rw [one_val]; norm_num) (by rw [one_val])

-- @site paths_outside
/-- **counterexample (usize wrap-around)**: sizes 31 and 37, `h = 111` (`ks_two_sample.ij 31 37 3 0 exact greater`; real code:
    p = 4.286…, correct 0.678).  With 64-bit wrapping arithmetic the total `C(68,31) = 21912870037044995008 > 2^64` wraps to
    `3466125963335443392`, less than the path count `14855888431361965648`: the "p-value" is > 1, while the exact count is
    ≤ the exact total. -/
theorem pathsOutside_wrap_counterexample :
    Hand.binomialW (2 ^ 64) 68 31 ≠ Hand.binomialW 0 68 31 ∧
    Hand.binomialW (2 ^ 64) 68 31 < Hand.pathsOutsideNatW (2 ^ 64) 31 37 1 111 ∧
    Hand.pathsOutsideNatW 0 31 37 1 111 ≤ Hand.binomialW 0 68 31 := by decide +kernel

-- @site paths_inside_proportion
/-- the specification of the exact two-sided p-value: recurrence = enumeration, sizes ≤ 5 -/
theorem pathsInsideTwo_spec_eq_brute : ∀ m ∈ List.range' 1 5, ∀ n ∈ List.range' 1 5,
    ∀ h ∈ List.range (m / Nat.gcd m n * n + 2),
    Spec.C20.pathsInsideTwo m n (Nat.gcd m n) h + Spec.C20.bruteOutsideTwo m n (Nat.gcd m n) h
      = Spec.C20.choose (m + n) (Nat.min m n) := by decide +kernel

-- @site ks_two_sample
/-- **counterexample (exact two-sided p-value, unequal sizes)**: `xs = [1]`, `ys = [0, 2, 3]`.  `D = 2/3`; EVERY arrangement of
    one `x` among three `y` has `D ≥ 2/3` (no lattice path stays inside the band: `pathsInsideTwo 1 3 1 2 = 0`), so the p-value
    is 1.  The code (`paths_inside_proportion`: `max` for `min` in the window bound, a whole-slice sum for a cumulative sum)
    returns `3/4`.  Real code: `(0.6666666666666666, 0.75)`. -/
theorem ks_two_sample_twosided_counterexample :
    (∃ s p, Hand.ksTwoSample [(1.0 : R)] [(0.0 : R), (2.0 : R), (3.0 : R)] .exact .twoSided = .ok (s, p) ∧
      s.val = 2 / 3 ∧ p.val = 3 / 4) ∧ Spec.C20.pathsInsideTwo 1 3 1 2 = 0 := by
  refine ⟨?_, by decide⟩
  have h1 : Hand.sortR [(1.0 : R)] = [(1.0 : R)] := by simp [Hand.sortR]
  have h2 : Hand.sortR [(0.0 : R), (2.0 : R), (3.0 : R)] = [(0.0 : R), (2.0 : R), (3.0 : R)] := by
    apply sortR_of_sorted; norm_num [R.sci_val]
  unfold Hand.ksTwoSample Hand.ksTwoSampleWith Hand.ksTwoStat
  rw [h1, h2]
  norm_num [Hand.ksTwoStatSorted, Hand.minMaxS, Hand.ecdfPairs, Hand.bsearch, bsearchLoop_pos, bsearchLoop_zero, idxR,
    feq_R, lt_R, le_R, min_maxFinite, max_neg_maxFinite, Hand.ksTwoExact, round_R,
    Hand.pathsInsideProportion, Hand.piStep, Hand.piFill, Hand.sliceR, toNat_R, floor_R, ceil_R, mulAdd,
    List.range', range1, range2, range3, range4, sumL, enumL]
  have hb : ¬ ((RealLike.maxFinite : R).val / 3 < 1) := by
    have := thousand_le_maxFinite; intro h; linarith
  simp only [hb, if_false]
  refine ⟨_, _, rfl, ?_, ?_⟩
  · norm_num [round_R, min_maxFinite, max_neg_maxFinite]
  · norm_num

-- @site ks_two_sample
/-- **counterexample (p-value outside [0,1])**: `xs = [2, 4]`, `ys = [0, 1, 3]`: the returned "p-value" is `−3`.
    Real code: `(0.6666666666666666, -2.9999999999999996)`, also in `Auto` mode. -/
theorem ks_two_sample_pvalue_range_counterexample :
    ∃ s p, Hand.ksTwoSample [(2.0 : R), (4.0 : R)] [(0.0 : R), (1.0 : R), (3.0 : R)] .auto .twoSided = .ok (s, p) ∧
      s.val = 2 / 3 ∧ p.val = -3 := by
  have h1 : Hand.sortR [(2.0 : R), (4.0 : R)] = [(2.0 : R), (4.0 : R)] := by
    apply sortR_of_sorted; norm_num [R.sci_val]
  have h2 : Hand.sortR [(0.0 : R), (1.0 : R), (3.0 : R)] = [(0.0 : R), (1.0 : R), (3.0 : R)] := by
    apply sortR_of_sorted; norm_num [R.sci_val]
  unfold Hand.ksTwoSample Hand.ksTwoSampleWith Hand.ksTwoStat
  rw [h1, h2]
  norm_num [Hand.ksTwoStatSorted, Hand.minMaxS, Hand.ecdfPairs, Hand.bsearch, bsearchLoop_pos, bsearchLoop_zero, idxR,
    feq_R, lt_R, le_R, min_maxFinite, max_neg_maxFinite, Hand.ksTwoExact, round_R, Hand.KS_AUTO_CUTOVER,
    Hand.pathsInsideProportion, Hand.piStep, Hand.piFill, Hand.sliceR, toNat_R, floor_R, ceil_R, mulAdd,
    List.range', range1, range2, range3, range4, sumL, enumL]
  refine ⟨_, _, ⟨rfl, rfl⟩, ?_, ?_⟩
  · norm_num [round_R, min_maxFinite, max_neg_maxFinite]
  · norm_num

-- @site ks_two_sample
/-- **counterexample (panic)**: `xs = [3]`, `ys = [1, 2]`, two-sided, exact: the slice `a[1..3]` of a 2-element vector.
    Real code: `PANIC` (also in `Auto` mode). -/
theorem ks_two_sample_panic_counterexample :
    Hand.ksTwoSample [(3.0 : R)] [(1.0 : R), (2.0 : R)] .auto .twoSided = .error "PANIC" := by
  have h1 : Hand.sortR [(3.0 : R)] = [(3.0 : R)] := by simp [Hand.sortR]
  have h2 : Hand.sortR [(1.0 : R), (2.0 : R)] = [(1.0 : R), (2.0 : R)] := by
    apply sortR_of_sorted; norm_num [R.sci_val]
  unfold Hand.ksTwoSample Hand.ksTwoSampleWith Hand.ksTwoStat
  rw [h1, h2]
  norm_num [Hand.ksTwoStatSorted, Hand.minMaxS, Hand.ecdfPairs, Hand.bsearch, bsearchLoop_pos, bsearchLoop_zero, idxR,
    feq_R, lt_R, le_R, min_maxFinite, max_neg_maxFinite, Hand.ksTwoExact, round_R, Hand.KS_AUTO_CUTOVER,
    Hand.pathsInsideProportion, Hand.piStep, Hand.piFill, Hand.sliceR, toNat_R, floor_R, ceil_R, mulAdd,
    List.range', range1, range2, range3, range4, sumL, enumL]

/-! ## 6. the two-sample statistic -/

-- @site ks_two_sample
/-- with pairwise distinct values inside each sample, the "ECDF" the code evaluates at every pooled point `t` is the
    strictly-less count: `(#{x < t}/m, #{y < t}/n)` — the LEFT limits `F_m(t−), G_n(t−)`.  (With ties the index
    `binary_search` returns is unspecified, and the pair is not a function of the sample alone.) -/
theorem ks_two_sample_ecdf_distinct (xs ys : List R) (hdx : xs.Pairwise (fun a b => a.val ≠ b.val))
    (hdy : ys.Pairwise (fun a b => a.val ≠ b.val)) :
    Hand.ecdfPairs Hand.bsearch (Hand.sortR xs) (Hand.sortR ys) =
      (Hand.sortR xs ++ Hand.sortR ys).map (fun t => (Spec.C20.ecdfLeft xs t, Spec.C20.ecdfLeft ys t)) := by
  unfold Hand.ecdfPairs Spec.C20.ecdfLeft
  simp only []
  apply List.map_congr_left
  intro t _
  rw [bsearch_ix_distinct _ t (sortR_strict hdx), bsearch_ix_distinct _ t (sortR_strict hdy),
    countLt_perm (sortR_perm xs), countLt_perm (sortR_perm ys), sortR_length, sortR_length]

-- @site ks_two_sample
/-- full statement (not proved): for distinct values the statistic equals `sup_t (F_m t − G_n t)` (resp. the `Less` and
    two-sided forms) — the left limits at the pooled points are the values at the preceding pooled points, plus the value 0
    before the first one, so the two maxima agree.  Proved: the `Greater` statistic is the maximum over the pooled points of the
    left-limit differences (started from `−f64::MAX`). -/
theorem ks_two_sample_stat_partial (xs ys : List R) (hdx : xs.Pairwise (fun a b => a.val ≠ b.val))
    (hdy : ys.Pairwise (fun a b => a.val ≠ b.val)) :
    (Hand.ksTwoStat Hand.bsearch xs ys .greater).val =
      fmax (fun t : R => (Spec.C20.ecdfLeft xs t).val - (Spec.C20.ecdfLeft ys t).val) (Hand.sortR xs ++ Hand.sortR ys)
        (-(RealLike.maxFinite : R).val) := by
  unfold Hand.ksTwoStat Hand.ksTwoStatSorted Hand.minMaxS
  rw [ks_two_sample_ecdf_distinct xs ys hdx hdy]
  simp only []
  rw [foldl_minMax_snd, R.neg_val]
  generalize (Hand.sortR xs ++ Hand.sortR ys) = l
  generalize (-(RealLike.maxFinite : R).val) = a
  induction l generalizing a with
  | nil => rfl
  | cons t l ih => rw [List.map_cons, fmax_cons, fmax_cons, ih]

-- @site ks_two_sample
/-- **counterexample (ties)**: `xs = [1, 1]`, `ys = [2]`, alternative `Less`.  `G − F ≤ 0` everywhere, so `D⁻ = 0`; the binary
    search lands on the LAST of the two equal observations (index 1, "ECDF" 1/2 at `t = 1`), the minimum of the differences
    is `+1/2` and the returned statistic is `−1/2` — negative.  Real code: `ks_two_sample(&[1.,1.], &[2.], Asymptotic, Less) =
    (-0.5, 1.1175190687418637)`: a p-value above 1. -/
theorem ks_two_sample_ties_counterexample :
    (Hand.ksTwoStat Hand.bsearch [(1.0 : R), (1.0 : R)] [(2.0 : R)] .less).val = -(1 / 2) ∧
    (∀ t : R, (Spec.C20.ecdf [(2.0 : R)] t).val - (Spec.C20.ecdf [(1.0 : R), (1.0 : R)] t).val ≤ 0) := by
  constructor
  · have h1 : Hand.sortR [(1.0 : R), (1.0 : R)] = [(1.0 : R), (1.0 : R)] := by
      apply sortR_of_sorted; norm_num [R.sci_val]
    have h2 : Hand.sortR [(2.0 : R)] = [(2.0 : R)] := by simp [Hand.sortR]
    unfold Hand.ksTwoStat
    rw [h1, h2]
    norm_num [Hand.ksTwoStatSorted, Hand.minMaxS, Hand.ecdfPairs, Hand.bsearch, bsearchLoop_pos, bsearchLoop_zero, idxR,
      feq_R, lt_R, le_R, min_maxFinite, max_neg_maxFinite]
  · intro t
    simp only [ecdf_val, countLe_val, List.countP_cons, List.countP_nil, R.sci_val, List.length_cons, List.length_nil]
    by_cases h2 : (2.0 : ℝ) ≤ t.val
    · have h1 : (1.0 : ℝ) ≤ t.val := by norm_num at h2 ⊢; linarith
      simp [h1, h2]
    · by_cases h1 : (1.0 : ℝ) ≤ t.val
      · simp [h1, h2]
      · simp [h1, h2]

/-! ## 7. degenerate inputs -/

-- @site ks_two_sample
/-- an empty sample is reported -/
theorem ks_two_sample_empty (bs : List R → R → Bool × Nat) (M : Nat) (ys : List R) (mode : Hand.KsMode)
    (alt : Hand.KsAlternative) :
    Hand.ksTwoSampleWith bs M [] ys mode alt = .error "E:EmptySlice" ∧
    Hand.ksTwoSampleWith bs M ys [] mode alt = .error "E:EmptySlice" := by
  constructor <;> simp [Hand.ksTwoSampleWith]

-- @site ks_test
/-- an empty sample is NOT reported: `ks_test(&[], cdf)` reaches `mpow(…, 0)`, which calls itself with `0/2 = 0` forever; the
    model has no value (`none`), the real code dies of stack overflow (harness: `ABORT`) -/
theorem ks_test_empty (F : R → R) : Hand.ksTest ([] : List R) F = none := by
  norm_num [Hand.ksTest, Hand.ksStat, Hand.ksStatVals, Hand.sortR, enumL, Hand.ksCdf?, Hand.mpow, lt_R, toNat_R, R.sci_val]

-- @site ks_cdf
/-- full statement (not proved; correspondence and range checks only): `ks_cdf(n, d) = P(D_n ≤ d)` (Marsaglia–Tsang–Wang), in
    `[0,1]`, and `1 − ks_cdf` is the p-value of `ks_test`.  Proved: the case `n = 1`, where `D_1 = max(U, 1−U)`:
    `P(D_1 ≤ d) = 2d − 1` for `1/2 ≤ d < 1`. -/
theorem ks_cdf_partial (d : R) (h1 : 1 / 2 ≤ d.val) (h2 : d.val < 1) :
    (Hand.ksCdf? 1 d).map R.val = some (2 * d.val - 1) := by
  have hfl : ⌊d.val⌋₊ = 0 := Nat.floor_eq_zero.mpr h2
  norm_num [Hand.ksCdf?, Hand.mpow, Hand.ksH, lt_R, toNat_R, R.sci_val, hfl, mulAdd, idxR, range1]
  split_ifs with c1 c2
  · exfalso; nlinarith
  · exfalso; linarith
  · refine ⟨_, rfl, ?_⟩
    simp only [R.mul_val, R.div_val, R.sub_val, R.add_val, R.neg_val, R.powi_val, R.ofNatR_val, R.sci_val]
    norm_num
    ring

example : ∃ d : R, 1 / 2 ≤ d.val ∧ d.val < 1 := ⟨⟨0.7⟩, by norm_num, by norm_num⟩


/-! ## 8. `from_params`, exchange of the samples (round 2) -/

-- @site Empirical::from_params
/-- `Parameterized::from_params(p)` IS `Empirical::new(p.xs)` (empirical.rs:60-62): the parameter vector is sorted again and the
    range recomputed, whatever order the caller left `p.xs` in -/
theorem empirical_from_params_eq_new (p : Gen.EmpiricalParameters R) :
    Hand.Empirical.fromParams? p = Hand.Empirical.new? p.xs := rfl

-- @site Empirical::from_params
/-- hence the rebuilt object — and with it `cdf`, `empcdfs`, `pp`, `err`, `mean`, `variance`, `range`, `draw` — depends only on the
    multiset of the parameter vector -/
theorem empirical_from_params_perm (xs ys : List R) (h : xs.Perm ys) :
    Hand.Empirical.fromParams? { xs := xs } = Hand.Empirical.fromParams? { xs := ys } := by
  unfold Hand.Empirical.fromParams? Hand.Empirical.new?
  simp only []
  rw [sortR_eq_of_perm h]

-- @site Empirical::from_params
/-- `from_params` on any rearrangement of a sample is the object `new` builds from the sample -/
theorem empirical_from_params_any_order (xs ys : List R) (h : xs.Perm ys) (e : Gen.Empirical R)
    (he : Hand.Empirical.new? xs = some e) : Hand.Empirical.fromParams? { xs := ys } = some e := by
  rw [← empirical_from_params_perm xs ys h]; exact he

-- @site Empirical::from_params
/-- `from_params(emit_params(e)) = e` for every constructed `e` -/
theorem empirical_emit_from_params_roundtrip (xs : List R) (e : Gen.Empirical R) (he : Hand.Empirical.new? xs = some e) :
    Hand.Empirical.fromParams? (Gen.Empirical.emit_params e) = some e := by
  have hxs := (new?_some he).1
  have hid : Hand.sortR (Hand.sortR xs) = Hand.sortR xs := sortR_of_sorted (sortR_sorted xs)
  unfold Hand.Empirical.fromParams? Gen.Empirical.emit_params
  simp only [hxs]
  unfold Hand.Empirical.new? at he ⊢
  simp only [] at he ⊢
  rw [hid]
  exact he

-- @site ks_two_sample
/-- exchanging the samples exchanges the two one-sided statistics, exactly, for every admissible search function:
    `D⁻(xs, ys) = D⁺(ys, xs)` -/
theorem ks_two_sample_stat_symmetry (bs : List R → R → Bool × Nat) (xs ys : List R) :
    Hand.ksTwoStat bs xs ys .less = Hand.ksTwoStat bs ys xs .greater ∧
    Hand.ksTwoStat bs xs ys .greater = Hand.ksTwoStat bs ys xs .less := by
  unfold Hand.ksTwoStat
  exact ⟨R.ext' (ksTwoStatSorted_swap bs _ _).1, R.ext' (ksTwoStatSorted_swap bs _ _).2⟩

-- @site ks_two_sample
/-- `ks_two_sample(xs, ys, Asymptotic, Less) = ks_two_sample(ys, xs, Asymptotic, Greater)` (statistic and p-value): the one-sided
    asymptotic branch only sees `max(n_x, n_y)` and `min(n_x, n_y)` (ks.rs:245-246) -/
theorem ks_two_sample_asymptotic_symmetry (bs : List R → R → Bool × Nat) (M : Nat) (xs ys : List R) :
    Hand.ksTwoSampleWith bs M xs ys .asymptotic .less = Hand.ksTwoSampleWith bs M ys xs .asymptotic .greater ∧
    Hand.ksTwoSampleWith bs M xs ys .asymptotic .greater = Hand.ksTwoSampleWith bs M ys xs .asymptotic .less := by
  unfold Hand.ksTwoSampleWith
  by_cases h : xs.length = 0 ∨ ys.length = 0
  · have h' : ys.length = 0 ∨ xs.length = 0 := h.symm
    simp only [h, h', if_true, and_self]
  · have h' : ¬ (ys.length = 0 ∨ xs.length = 0) := fun c => h c.symm
    simp only [h, h', if_false]
    rw [(ks_two_sample_stat_symmetry bs xs ys).1, (ks_two_sample_stat_symmetry bs xs ys).2]
    simp only [Hand.ksTwoAsymp, Nat.max_comm ys.length xs.length, Nat.min_comm ys.length xs.length, and_self]

-- @site ks_two_sample
/-- the one-sided asymptotic p-value is Hodges' (1958) approximation `exp(−2z² − 2z(m + 2n)/(3√(mn(m+n))))`, `z = √(mn/(m+n))·D`,
    with `m` the LARGER and `n` the smaller sample size (argument mapping only; the quality of the approximation is not a theorem) -/
theorem ks_two_sample_asymptotic_onesided_formula (nx ny : Nat) (stat : R) (alt : Hand.KsAlternative) (ha : alt ≠ .twoSided) :
    (Hand.ksTwoAsymp nx ny stat alt).1 = stat ∧
    (Hand.ksTwoAsymp nx ny stat alt).2.val =
      Real.exp (-2 * (Real.sqrt ((Nat.max nx ny : ℝ) * (Nat.min nx ny : ℝ) / ((Nat.max nx ny : ℝ) + (Nat.min nx ny : ℝ))) * stat.val) ^ 2
        - 2 * (Real.sqrt ((Nat.max nx ny : ℝ) * (Nat.min nx ny : ℝ) / ((Nat.max nx ny : ℝ) + (Nat.min nx ny : ℝ))) * stat.val)
            * ((Nat.max nx ny : ℝ) + 2 * (Nat.min nx ny : ℝ))
            / Real.sqrt ((Nat.max nx ny : ℝ) * (Nat.min nx ny : ℝ) * ((Nat.max nx ny : ℝ) + (Nat.min nx ny : ℝ))) / 3) := by
  cases alt with
  | twoSided => exact absurd rfl ha
  | less =>
    refine ⟨rfl, ?_⟩
    simp only [Hand.ksTwoAsymp, mulAdd, R.exp_val, R.add_val, R.mul_val, R.div_val, R.neg_val, R.sqrt_val, R.ofNatR_val, R.sci_val]
    congr 1
    norm_num
    ring
  | greater =>
    refine ⟨rfl, ?_⟩
    simp only [Hand.ksTwoAsymp, mulAdd, R.exp_val, R.add_val, R.mul_val, R.div_val, R.neg_val, R.sqrt_val, R.ofNatR_val, R.sci_val]
    congr 1
    norm_num
    ring

example : ([(2.5 : R), (0.5 : R)]).Perm [(0.5 : R), (2.5 : R)] := List.Perm.swap _ _ _

end C20

#print axioms C20.ksStat_formula
#print axioms C20.ksStat_le_ksD
#print axioms C20.ksD_eq_max_code_upper
#print axioms C20.ksStat_eq_ksD_iff
#print axioms C20.ksStat_eq_ksD_iff_index
#print axioms C20.ksD_is_max
#print axioms C20.ksStat_counterexample
#print axioms C20.Empirical_cdf_not_mem
#print axioms C20.Empirical_cdf_at_sample_point
#print axioms C20.Empirical_cdf_at_sample_point_distinct
#print axioms C20.Empirical_cdf_at_max
#print axioms C20.Empirical_cdf_counterexample
#print axioms C20.Empirical_mean
#print axioms C20.Empirical_variance
#print axioms C20.Empirical_new_empty
#print axioms C20.ks_test_perm
#print axioms C20.ks_two_sample_perm
#print axioms C20.empirical_perm
#print axioms C20.x2_test_stat
#print axioms C20.x2_test_pvalue
#print axioms C20.x2_test_length_mismatch_silent
#print axioms C20.pathsOutside_eq_brute
#print axioms C20.pathsOutside_spec_eq_brute
#print axioms C20.binomial_eq_choose
#print axioms C20.pathsOutside_le_total
#print axioms C20.pathsOutside_real_eq_nat
#print axioms C20.ks_two_sample_exact_onesided_unit
#print axioms C20.ks_two_sample_exact_onesided_equal_unit
#print axioms C20.pathsOutside_wrap_counterexample
#print axioms C20.pathsInsideTwo_spec_eq_brute
#print axioms C20.ks_two_sample_twosided_counterexample
#print axioms C20.ks_two_sample_pvalue_range_counterexample
#print axioms C20.ks_two_sample_panic_counterexample
#print axioms C20.ks_two_sample_ecdf_distinct
#print axioms C20.ks_two_sample_stat_partial
#print axioms C20.ks_two_sample_empty
#print axioms C20.ks_test_empty
#print axioms C20.ks_cdf_partial
#print axioms C20.ksD_is_sup_partial
#print axioms C20.ks_two_sample_ties_counterexample
#print axioms C20.empirical_from_params_eq_new
#print axioms C20.empirical_from_params_perm
#print axioms C20.empirical_from_params_any_order
#print axioms C20.empirical_emit_from_params_roundtrip
#print axioms C20.ks_two_sample_stat_symmetry
#print axioms C20.ks_two_sample_asymptotic_symmetry
#print axioms C20.ks_two_sample_asymptotic_onesided_formula
