import RvModel.RealInst
import RvModel.ExtInst
import RvModel.Gen.Defs
import RvModel.Lemmas.C02
import RvModel.Props.C13A
import Mathlib.Analysis.SpecialFunctions.Log.Basic
import Mathlib.Analysis.SpecialFunctions.Exp
import Mathlib.Analysis.SpecialFunctions.Pow.Real
import Mathlib.Analysis.SpecialFunctions.Gamma.Basic
import Mathlib.Tactic.NormNum.OfScientific
/-!
  C02 (part B): *total on the support*, carrier `X` (IEEE special values over exact reals).

  For finite parameters in the **closed** domain accepted by the checked constructor `new` and **every**
  `x : X` (`nan`, `±inf`, finite) that the distribution reports as supported, `ln_f` is a number:

  * `<D>_ln_f_total : … → ∃ r : ℝ, Gen.<D>.ln_f d x = fin r`  — finite, hence (`C02Lemmas.fin_total`)
    `≠ nan`, `≠ pinf`, `≠ ninf` (the density is positive and bounded on the support);
  * where the density may vanish on the support (Bernoulli / Binomial / Geometric / NegBinomial boundary `p`,
    zero Categorical weights) the conclusion is `IsFinOrNinf (ln_f …)`, i.e. (`C02Lemmas.isFinOrNinf_total`)
    `≠ nan ∧ ≠ pinf`;
  * where this is **false** for the code: a `_counterexample` with a concrete witness (each confirmed on the Rust
    code with `rvharness`, quoted in the docstring) and the totality theorem restricted to the sub-domain where it
    holds (`_partial`);
  * `<D>_supports_finite_only`: no `supports` of a real-valued kind accepts `nan` or `±inf`, for any parameters
    (the suspicion "`supports` accepts `+inf`/NaN somewhere" is refuted for these distributions).

  What the carrier does not see: rounding, overflow/underflow of finite values (e.g. `exp` overflow in GEV,
  `lgamma` overflow), signed zeros.  `lgamma`/`lnBeta` at finite positive arguments are finite reals.
  `-- @site` names the generated definition a theorem is about.  Helper lemmas: Lemmas/C02.lean.
-/
set_option linter.unusedVariables false
set_option linter.unusedSimpArgs false
open Real X C02Lemmas

namespace C02

-- @site Gaussian.ln_f_real
theorem Gaussian_ln_f_total (mu sigma : ℝ) (hσ : 0 < sigma) (x : X)
    (hs : Gen.Gaussian.supports_real (⟨fin mu, fin sigma⟩ : Gen.Gaussian X) x = true) :
    ∃ r, Gen.Gaussian.ln_f_real (⟨fin mu, fin sigma⟩ : Gen.Gaussian X) x = fin r := by
  cases x <;> norm_num [Gen.Gaussian.supports_real] at hs
  norm_num [Gen.Gaussian.ln_f_real, Gen.Gaussian.ln_sigma, mulAdd, hσ.ne', hσ]

example : Gen.Gaussian.ln_f_real (⟨fin 0, fin 2⟩ : Gen.Gaussian X) (fin 3) ≠ nan :=
  (fin_total (Gaussian_ln_f_total 0 2 (by norm_num) (fin 3) rfl)).1

-- @site Laplace.ln_f_real
theorem Laplace_ln_f_total (mu b : ℝ) (hb : 0 < b) (x : X)
    (hs : Gen.Laplace.supports_real (⟨fin mu, fin b⟩ : Gen.Laplace X) x = true) :
    ∃ r, Gen.Laplace.ln_f_real (⟨fin mu, fin b⟩ : Gen.Laplace X) x = fin r := by
  cases x <;> norm_num [Gen.Laplace.supports_real] at hs
  norm_num [Gen.Laplace.ln_f_real, mulAdd, hb.ne', hb]

example : Gen.Laplace.ln_f_real (⟨fin (-1), fin 3⟩ : Gen.Laplace X) (fin 3) ≠ nan :=
  (fin_total (Laplace_ln_f_total (-1) 3 (by norm_num) (fin 3) rfl)).1

-- @site Cauchy.ln_f_real
/-- Cauchy: goes through `logaddexp` (C13); at `x = loc` one argument is `-inf`, still finite -/
theorem Cauchy_ln_f_total (loc scale : ℝ) (hsc : 0 < scale) (x : X)
    (hs : Gen.Cauchy.supports_real (⟨fin loc, fin scale⟩ : Gen.Cauchy X) x = true) :
    ∃ r, Gen.Cauchy.ln_f_real (⟨fin loc, fin scale⟩ : Gen.Cauchy X) x = fin r := by
  cases x <;> norm_num [Gen.Cauchy.supports_real] at hs
  rename_i a
  by_cases h : a = loc
  · subst h
    norm_num [Gen.Cauchy.ln_f_real, mulAdd, hsc, hsc.ne', C13.logaddexp_fin_ninf]
  · have h' : 0 < |a - loc| := abs_pos.mpr (sub_ne_zero.mpr h)
    norm_num [Gen.Cauchy.ln_f_real, mulAdd, hsc, hsc.ne', h', h'.ne', C13.logaddexp_fin]

/-- at the mode `x = loc` the code evaluates `ln 0 = -inf` and `logaddexp(ln γ, -inf)`: still a number -/
example : Gen.Cauchy.ln_f_real (⟨fin 1, fin 2⟩ : Gen.Cauchy X) (fin 1) ≠ nan :=
  (fin_total (Cauchy_ln_f_total 1 2 (by norm_num) (fin 1) rfl)).1

-- @site Exponential.ln_f_real
theorem Exponential_ln_f_total (rate : ℝ) (hr : 0 < rate) (x : X)
    (hs : Gen.Exponential.supports_real (⟨fin rate⟩ : Gen.Exponential X) x = true) :
    ∃ r, Gen.Exponential.ln_f_real (⟨fin rate⟩ : Gen.Exponential X) x = fin r := by
  cases x <;> norm_num [Gen.Exponential.supports_real] at hs
  rename_i a
  norm_num [Gen.Exponential.ln_f_real, mulAdd, hr.ne', hr, not_lt.mpr hs]

/-- support end point `x = 0` included -/
example : Gen.Exponential.ln_f_real (⟨fin 3⟩ : Gen.Exponential X) (fin 0) ≠ nan :=
  (fin_total (Exponential_ln_f_total 3 (by norm_num) (fin 0) (by norm_num [Gen.Exponential.supports_real]))).1

-- @site Uniform.ln_f_real
theorem Uniform_ln_f_total (a b : ℝ) (hab : a < b) (x : X)
    (hs : Gen.Uniform.supports_real (⟨fin a, fin b⟩ : Gen.Uniform X) x = true) :
    ∃ r, Gen.Uniform.ln_f_real (⟨fin a, fin b⟩ : Gen.Uniform X) x = fin r := by
  cases x <;> norm_num [Gen.Uniform.supports_real] at hs
  have h : 0 < b - a := sub_pos.mpr hab
  norm_num [Gen.Uniform.ln_f_real, Gen.Uniform.lnf, hs.1, hs.2, h, h.ne']

/-- both support end points included -/
example : Gen.Uniform.ln_f_real (⟨fin 2, fin 3⟩ : Gen.Uniform X) (fin 2) ≠ nan ∧
    Gen.Uniform.ln_f_real (⟨fin 2, fin 3⟩ : Gen.Uniform X) (fin 3) ≠ nan :=
  ⟨(fin_total (Uniform_ln_f_total 2 3 (by norm_num) (fin 2) (by norm_num [Gen.Uniform.supports_real]))).1,
   (fin_total (Uniform_ln_f_total 2 3 (by norm_num) (fin 3) (by norm_num [Gen.Uniform.supports_real]))).1⟩

-- @site LogNormal.ln_f_real
theorem LogNormal_ln_f_total (mu sigma : ℝ) (hσ : 0 < sigma) (x : X)
    (hs : Gen.LogNormal.supports_real (⟨fin mu, fin sigma⟩ : Gen.LogNormal X) x = true) :
    ∃ r, Gen.LogNormal.ln_f_real (⟨fin mu, fin sigma⟩ : Gen.LogNormal X) x = fin r := by
  cases x <;> norm_num [Gen.LogNormal.supports_real] at hs
  norm_num [Gen.LogNormal.ln_f_real, mulAdd, hσ.ne', hσ, hs, hs.ne']

example : Gen.LogNormal.ln_f_real (⟨fin (-1), fin 3⟩ : Gen.LogNormal X) (fin (1/2)) ≠ nan :=
  (fin_total (LogNormal_ln_f_total (-1) 3 (by norm_num) (fin (1/2)) (by norm_num [Gen.LogNormal.supports_real]))).1

-- @site Pareto.ln_f_real
theorem Pareto_ln_f_total (shape scale : ℝ) (hsh : 0 < shape) (hsc : 0 < scale) (x : X)
    (hs : Gen.Pareto.supports_real (⟨fin shape, fin scale⟩ : Gen.Pareto X) x = true) :
    ∃ r, Gen.Pareto.ln_f_real (⟨fin shape, fin scale⟩ : Gen.Pareto X) x = fin r := by
  cases x <;> norm_num [Gen.Pareto.supports_real] at hs
  have hx := lt_of_lt_of_le hsc hs
  norm_num [Gen.Pareto.ln_f_real, mulAdd, hsh, hsh.ne', hsc, hsc.ne', hx, hx.ne']

/-- support end point `x = scale` included -/
example : Gen.Pareto.ln_f_real (⟨fin 2, fin 3⟩ : Gen.Pareto X) (fin 3) ≠ nan :=
  (fin_total (Pareto_ln_f_total 2 3 (by norm_num) (by norm_num) (fin 3) (by norm_num [Gen.Pareto.supports_real, RealLike.ge]))).1

-- @site Kumaraswamy.ln_f_real
theorem Kumaraswamy_ln_f_total (a b : ℝ) (ha : 0 < a) (hb : 0 < b) (x : X)
    (hs : Gen.Kumaraswamy.supports_real (⟨fin a, fin b⟩ : Gen.Kumaraswamy X) x = true) :
    ∃ r, Gen.Kumaraswamy.ln_f_real (⟨fin a, fin b⟩ : Gen.Kumaraswamy X) x = fin r := by
  cases x <;> norm_num [Gen.Kumaraswamy.supports_real] at hs
  rename_i t
  have h1 : t ^ a < 1 := Real.rpow_lt_one hs.1.le hs.2 ha
  have h2 : 0 < 1 - t ^ a := sub_pos.mpr h1
  norm_num [Gen.Kumaraswamy.ln_f_real, Gen.Kumaraswamy.ab_ln, mulAdd, ha, ha.ne', hb, hb.ne', hs.1, hs.1.ne',
    h2, h2.ne']

example : Gen.Kumaraswamy.ln_f_real (⟨fin 2, fin 3⟩ : Gen.Kumaraswamy X) (fin (1/2)) ≠ nan :=
  (fin_total (Kumaraswamy_ln_f_total 2 3 (by norm_num) (by norm_num) (fin (1/2)) (by norm_num [Gen.Kumaraswamy.supports_real]))).1

-- @site UnitPowerLaw.ln_f_real
theorem UnitPowerLaw_ln_f_total (alpha : ℝ) (ha : 0 < alpha) (x : X)
    (hs : Gen.UnitPowerLaw.supports_real (⟨fin alpha⟩ : Gen.UnitPowerLaw X) x = true) :
    ∃ r, Gen.UnitPowerLaw.ln_f_real (⟨fin alpha⟩ : Gen.UnitPowerLaw X) x = fin r := by
  cases x <;> norm_num [Gen.UnitPowerLaw.supports_real] at hs
  norm_num [Gen.UnitPowerLaw.ln_f_real, Gen.UnitPowerLaw.alpha_ln, mulAdd, ha, ha.ne', hs.1, hs.1.ne']

example : Gen.UnitPowerLaw.ln_f_real (⟨fin 3⟩ : Gen.UnitPowerLaw X) (fin (1/2)) ≠ nan :=
  (fin_total (UnitPowerLaw_ln_f_total 3 (by norm_num) (fin (1/2)) (by norm_num [Gen.UnitPowerLaw.supports_real]))).1

-- @site Gamma.ln_f_real
theorem Gamma_ln_f_total (shape rate : ℝ) (hsh : 0 < shape) (hr : 0 < rate) (x : X)
    (hs : Gen.Gamma.supports_real (⟨fin shape, fin rate⟩ : Gen.Gamma X) x = true) :
    ∃ r, Gen.Gamma.ln_f_real (⟨fin shape, fin rate⟩ : Gen.Gamma X) x = fin r := by
  cases x <;> norm_num [Gen.Gamma.supports_real] at hs
  norm_num [Gen.Gamma.ln_f_real, Gen.Gamma.ln_rate, Gen.Gamma.ln_gamma_shape, mulAdd, hr, hr.ne', hs, hs.ne',
    (Real.Gamma_pos_of_pos hsh).ne']

example : Gen.Gamma.ln_f_real (⟨fin 2, fin 3⟩ : Gen.Gamma X) (fin (1/2)) ≠ nan :=
  (fin_total (Gamma_ln_f_total 2 3 (by norm_num) (by norm_num) (fin (1/2)) (by norm_num [Gen.Gamma.supports_real, RealLike.gt]))).1

-- @site Beta.ln_f_real
theorem Beta_ln_f_total (alpha beta : ℝ) (ha : 0 < alpha) (hb : 0 < beta) (x : X)
    (hs : Gen.Beta.supports_real (⟨fin alpha, fin beta⟩ : Gen.Beta X) x = true) :
    ∃ r, Gen.Beta.ln_f_real (⟨fin alpha, fin beta⟩ : Gen.Beta X) x = fin r := by
  cases x <;> norm_num [Gen.Beta.supports_real] at hs
  have h2 := sub_pos.mpr hs.2
  norm_num [Gen.Beta.ln_f_real, Gen.Beta.ln_beta_ab, mulAdd, hs.1, hs.1.ne', h2, h2.ne']

example : Gen.Beta.ln_f_real (⟨fin 2, fin 3⟩ : Gen.Beta X) (fin (1/2)) ≠ nan :=
  (fin_total (Beta_ln_f_total 2 3 (by norm_num) (by norm_num) (fin (1/2)) (by norm_num [Gen.Beta.supports_real]))).1

-- @site InvGamma.ln_f_real
theorem InvGamma_ln_f_total (shape scale : ℝ) (hsh : 0 < shape) (hsc : 0 < scale) (x : X)
    (hs : Gen.InvGamma.supports_real (⟨fin shape, fin scale⟩ : Gen.InvGamma X) x = true) :
    ∃ r, Gen.InvGamma.ln_f_real (⟨fin shape, fin scale⟩ : Gen.InvGamma X) x = fin r := by
  cases x <;> norm_num [Gen.InvGamma.supports_real] at hs
  norm_num [Gen.InvGamma.ln_f_real, mulAdd, hsc, hsc.ne', hs, hs.ne', (Real.Gamma_pos_of_pos hsh).ne']

example : Gen.InvGamma.ln_f_real (⟨fin 2, fin 3⟩ : Gen.InvGamma X) (fin (1/2)) ≠ nan :=
  (fin_total (InvGamma_ln_f_total 2 3 (by norm_num) (by norm_num) (fin (1/2)) (by norm_num [Gen.InvGamma.supports_real, RealLike.gt]))).1

-- @site ChiSquared.ln_f_real
theorem ChiSquared_ln_f_total (k : ℝ) (hk : 0 < k) (x : X)
    (hs : Gen.ChiSquared.supports_real (⟨fin k⟩ : Gen.ChiSquared X) x = true) :
    ∃ r, Gen.ChiSquared.ln_f_real (⟨fin k⟩ : Gen.ChiSquared X) x = fin r := by
  cases x <;> norm_num [Gen.ChiSquared.supports_real] at hs
  have hk2 : 0 < k / 2 := by positivity
  norm_num [Gen.ChiSquared.ln_f_real, mulAdd, hs, hs.ne', (Real.Gamma_pos_of_pos hk2).ne']

example : Gen.ChiSquared.ln_f_real (⟨fin 3⟩ : Gen.ChiSquared X) (fin (1/2)) ≠ nan :=
  (fin_total (ChiSquared_ln_f_total 3 (by norm_num) (fin (1/2)) (by norm_num [Gen.ChiSquared.supports_real, RealLike.gt]))).1

-- @site StudentsT.ln_f_real
theorem StudentsT_ln_f_total (v : ℝ) (hv : 0 < v) (x : X)
    (hs : Gen.StudentsT.supports_real (⟨fin v⟩ : Gen.StudentsT X) x = true) :
    ∃ r, Gen.StudentsT.ln_f_real (⟨fin v⟩ : Gen.StudentsT X) x = fin r := by
  cases x <;> norm_num [Gen.StudentsT.supports_real] at hs
  rename_i t
  have h1 : 0 < (v + 1) / 2 := by positivity
  have h2 : 0 < v / 2 := by positivity
  have h3 : (-1:ℝ) < t * t / v := by
    have : 0 ≤ t * t / v := div_nonneg (mul_self_nonneg t) hv.le
    linarith
  have h4 : 0 < v * π := by positivity
  norm_num [Gen.StudentsT.ln_f_real, mulAdd, hv.ne', X.ln1p_fin_of_gt h3, h4, h4.ne',
    (Real.Gamma_pos_of_pos h1).ne', (Real.Gamma_pos_of_pos h2).ne']

example : Gen.StudentsT.ln_f_real (⟨fin 3⟩ : Gen.StudentsT X) (fin (-7)) ≠ nan :=
  (fin_total (StudentsT_ln_f_total 3 (by norm_num) (fin (-7)) rfl)).1

-- @site InvChiSquared.ln_f_real
theorem InvChiSquared_ln_f_total (v : ℝ) (hv : 0 < v) (x : X)
    (hs : Gen.InvChiSquared.supports_real (⟨fin v⟩ : Gen.InvChiSquared X) x = true) :
    ∃ r, Gen.InvChiSquared.ln_f_real (⟨fin v⟩ : Gen.InvChiSquared X) x = fin r := by
  cases x <;> norm_num [Gen.InvChiSquared.supports_real] at hs
  have hv2 : 0 < v / 2 := by positivity
  norm_num [Gen.InvChiSquared.ln_f_real, Gen.InvChiSquared.ln_f_const, RealLike.recip, mulAdd, hs, hs.ne',
    (Real.Gamma_pos_of_pos hv2).ne']

example : Gen.InvChiSquared.ln_f_real (⟨fin 3⟩ : Gen.InvChiSquared X) (fin (1/2)) ≠ nan :=
  (fin_total (InvChiSquared_ln_f_total 3 (by norm_num) (fin (1/2)) (by norm_num [Gen.InvChiSquared.supports_real, RealLike.gt]))).1

-- @site ScaledInvChiSquared.ln_f_real
theorem ScaledInvChiSquared_ln_f_total (v t2 : ℝ) (hv : 0 < v) (ht : 0 < t2) (x : X)
    (hs : Gen.ScaledInvChiSquared.supports_real (⟨fin v, fin t2⟩ : Gen.ScaledInvChiSquared X) x = true) :
    ∃ r, Gen.ScaledInvChiSquared.ln_f_real (⟨fin v, fin t2⟩ : Gen.ScaledInvChiSquared X) x = fin r := by
  cases x <;> norm_num [Gen.ScaledInvChiSquared.supports_real] at hs
  have hv2 : 0 < v / 2 := by positivity
  have h3 : 0 < t2 * v * (1/2) := by positivity
  norm_num [Gen.ScaledInvChiSquared.ln_f_real, Gen.ScaledInvChiSquared.ln_f_const,
    Gen.ScaledInvChiSquared.ln_gamma_v_2, mulAdd, hs, hs.ne', hv.ne', ht.ne',
    (Real.Gamma_pos_of_pos hv2).ne'] 
  norm_num at h3
  norm_num [h3, h3.ne', hv, ht]

example : Gen.ScaledInvChiSquared.ln_f_real (⟨fin 2, fin 3⟩ : Gen.ScaledInvChiSquared X) (fin (1/2)) ≠ nan :=
  (fin_total (ScaledInvChiSquared_ln_f_total 2 3 (by norm_num) (by norm_num) (fin (1/2))
    (by norm_num [Gen.ScaledInvChiSquared.supports_real, RealLike.gt]))).1

-- @site t
/-- the helper `t(x)` of `dist/gev.rs` on the interior of the support, `shape ≠ 0` -/
theorem Gev_t_fin (loc scale shape a : ℝ) (hsc : 0 < scale) (hsh : shape ≠ 0)
    (hw : 0 < 1 + shape * (a - loc) / scale) :
    Gen.t (fin loc) (fin shape) (fin scale) (fin a) = fin ((1 + shape * (a - loc) / scale) ^ (-1 / shape)) := by
  simp only [Gen.t, lit_zero, lit_one, X.feq_fin, hsh, decide_false, Bool.false_eq_true, if_false,
    X.fin_sub_fin, X.fin_mul_fin, X.fin_div_fin_of_ne _ hsc.ne', X.fin_add_fin, X.neg_fin,
    X.fin_div_fin_of_ne _ hsh, X.powf_fin_pos hw]

-- @site Gev.ln_f_real
/-- GEV: total on the support **minus its finite end point** `loc - scale/shape` (`shape ≠ 0`); for `shape = 0`
    (Gumbel) on the whole support. -/
theorem Gev_ln_f_total_partial (loc scale shape : ℝ) (hsc : 0 < scale) (x : X)
    (hs : Gen.Gev.supports_real (⟨fin loc, fin scale, fin shape⟩ : Gen.Gev X) x = true)
    (hne : shape ≠ 0 → x ≠ fin (loc - scale / shape)) :
    ∃ r, Gen.Gev.ln_f_real (⟨fin loc, fin scale, fin shape⟩ : Gen.Gev X) x = fin r := by
  cases x with
  | nan => norm_num [Gen.Gev.supports_real] at hs
  | pinf => norm_num [Gen.Gev.supports_real] at hs
  | ninf => norm_num [Gen.Gev.supports_real] at hs
  | fin a =>
    by_cases h0 : shape = 0
    · subst h0
      norm_num [Gen.Gev.ln_f_real, Gen.t, mulAdd, hsc, hsc.ne', Real.exp_pos]
    · have hne' : a ≠ loc - scale / shape := fun h => hne h0 (by rw [h])
      have hw : 0 < 1 + shape * (a - loc) / scale := by
        rcases lt_or_gt_of_ne h0 with hneg | hpos
        · have hs' : a ≤ loc - scale / shape := by
            norm_num [Gen.Gev.supports_real, not_lt.mpr hneg.le, h0, hneg.ne, RealLike.ge, RealLike.gt] at hs
            linarith
          have hlt : a < loc - scale / shape := lt_of_le_of_ne hs' hne'
          have h1 : shape * (a - loc) > -scale := by
            have : a - loc < -(scale / shape) := by linarith
            have h2 := mul_lt_mul_of_neg_left this hneg
            have h3 : shape * -(scale / shape) = -scale := by field_simp
            linarith
          have : shape * (a - loc) / scale > -1 := by
            rw [gt_iff_lt, lt_div_iff₀ hsc]; linarith
          linarith
        · have hs' : loc - scale / shape ≤ a := by
            norm_num [Gen.Gev.supports_real, hpos, h0, RealLike.ge, RealLike.gt] at hs
            linarith
          have hlt : loc - scale / shape < a := lt_of_le_of_ne hs' (Ne.symm hne')
          have h1 : shape * (a - loc) > -scale := by
            have : -(scale / shape) < a - loc := by linarith
            have h2 := mul_lt_mul_of_pos_left this hpos
            have h3 : shape * -(scale / shape) = -scale := by field_simp
            linarith
          have : shape * (a - loc) / scale > -1 := by
            rw [gt_iff_lt, lt_div_iff₀ hsc]; linarith
          linarith
      have hp : 0 < (1 + shape * (a - loc) / scale) ^ (-1 / shape) := Real.rpow_pos_of_pos hw _
      simp only [Gen.Gev.ln_f_real, Gev_t_fin loc scale shape a hsc h0 hw, mulAdd, lit_one, X.fin_add_fin,
        X.ln_fin_pos hp, X.ln_fin_pos hsc, X.fin_mul_fin, X.neg_fin, X.fin_sub_fin]
      exact ⟨_, rfl⟩

example : Gen.Gev.ln_f_real (⟨fin 0, fin 1, fin 1⟩ : Gen.Gev X) (fin 2) ≠ nan :=
  (fin_total (Gev_ln_f_total_partial 0 1 1 one_pos (fin 2) (by norm_num [Gen.Gev.supports_real, RealLike.ge, RealLike.gt])
    (fun _ => by norm_num))).1
example : Gen.Gev.ln_f_real (⟨fin 0, fin 1, fin 0⟩ : Gen.Gev X) (fin (-5)) ≠ nan :=
  (fin_total (Gev_ln_f_total_partial 0 1 0 one_pos (fin (-5)) (by norm_num [Gen.Gev.supports_real, RealLike.ge, RealLike.gt])
    (fun h => absurd rfl h))).1

-- @site Gev.ln_f_real
/-- DEFECT.  At the finite end point of the support `x = loc - scale/shape`, which `supports` accepts (`>=` / `<=`):
    * `shape > 0` (lower end point): `t = 0^(-1/shape) = +inf`, `ln_f = (shape+1)·inf - ln scale - inf = NaN`
      (true density: `0`, `ln = -inf`).   rvharness: `Gev.ln_f_real loc=0 scale=1 shape=1 x=-1 ↦ NaN`.
    * `shape = -1` (upper end point): `t = 0`, `ln_f = 0·(-inf) - … = NaN` (true density `1/scale`).
      rvharness: `Gev.ln_f_real loc=0 scale=1 shape=-1 x=1 ↦ NaN`. -/
theorem Gev_ln_f_total_counterexample :
    Gen.Gev.supports_real (⟨fin 0, fin 1, fin 1⟩ : Gen.Gev X) (fin (-1)) = true ∧
    Gen.Gev.ln_f_real (⟨fin 0, fin 1, fin 1⟩ : Gen.Gev X) (fin (-1)) = nan ∧
    Gen.Gev.supports_real (⟨fin 0, fin 1, fin (-1)⟩ : Gen.Gev X) (fin 1) = true ∧
    Gen.Gev.ln_f_real (⟨fin 0, fin 1, fin (-1)⟩ : Gen.Gev X) (fin 1) = nan := by
  refine ⟨?_, ?_, ?_, ?_⟩
  · norm_num [Gen.Gev.supports_real]
  · norm_num [Gen.Gev.ln_f_real, Gen.t, mulAdd]
  · norm_num [Gen.Gev.supports_real]
  · norm_num [Gen.Gev.ln_f_real, Gen.t, mulAdd]

-- @site Gev.ln_f_real
/-- not a defect, recorded for the `≠ pinf` clause: for `shape < -1` the GEV density is unbounded at the upper end
    point and `ln_f = +inf` there (rvharness: `shape=-2 x=0.5 ↦ +inf`). -/
theorem Gev_ln_f_endpoint_pinf :
    Gen.Gev.supports_real (⟨fin 0, fin 1, fin (-2)⟩ : Gen.Gev X) (fin (1/2)) = true ∧
    Gen.Gev.ln_f_real (⟨fin 0, fin 1, fin (-2)⟩ : Gen.Gev X) (fin (1/2)) = pinf := by
  refine ⟨?_, ?_⟩
  · norm_num [Gen.Gev.supports_real]
  · norm_num [Gen.Gev.ln_f_real, Gen.t, mulAdd]

-- @site InvGaussian.ln_f_real
/-- InvGaussian: total on the true support `x > 0` (the code's `supports` is larger, see the counterexample) -/
theorem InvGaussian_ln_f_total_partial (mu lam : ℝ) (hm : 0 < mu) (hl : 0 < lam) (a : ℝ) (ha : 0 < a) :
    ∃ r, Gen.InvGaussian.ln_f_real (⟨fin mu, fin lam⟩ : Gen.InvGaussian X) (fin a) = fin r := by
  norm_num [Gen.InvGaussian.ln_f_real, Gen.InvGaussian.emit_params, Gen.InvGaussian.get_mu,
    Gen.InvGaussian.get_lambda, Gen.InvGaussian.ln_lambda, mulAdd, hm.ne', hl, hl.ne', ha, ha.ne']

example : Gen.InvGaussian.ln_f_real (⟨fin 2, fin 3⟩ : Gen.InvGaussian X) (fin (1/2)) ≠ nan :=
  (fin_total (InvGaussian_ln_f_total_partial 2 3 (by norm_num) (by norm_num) (1/2) (by norm_num))).1

-- @site InvGaussian.supports_real
/-- DEFECT.  `InvGaussian::supports` is `x.is_finite()` — it reports every `x ≤ 0` as supported although the
    density lives on `x > 0` — and `ln_f` is NaN there (`ln(-1)`; at `0`: `inf - inf`), so `ln_pdf`, `pdf` are NaN
    instead of `-inf`, `0`.  rvharness: `InvGaussian.supports_real 1 1 -1 ↦ T`, `ln_f_real ↦ NaN`,
    `pdf_real ↦ NaN`; same at `x = 0`. -/
theorem InvGaussian_ln_f_total_counterexample :
    Gen.InvGaussian.supports_real (⟨fin 1, fin 1⟩ : Gen.InvGaussian X) (fin (-1)) = true ∧
    Gen.InvGaussian.ln_f_real (⟨fin 1, fin 1⟩ : Gen.InvGaussian X) (fin (-1)) = nan ∧
    Gen.InvGaussian.supports_real (⟨fin 1, fin 1⟩ : Gen.InvGaussian X) (fin 0) = true ∧
    Gen.InvGaussian.ln_f_real (⟨fin 1, fin 1⟩ : Gen.InvGaussian X) (fin 0) = nan := by
  refine ⟨rfl, ?_, rfl, ?_⟩
  · norm_num [Gen.InvGaussian.ln_f_real, Gen.InvGaussian.emit_params, Gen.InvGaussian.get_mu,
      Gen.InvGaussian.get_lambda, Gen.InvGaussian.ln_lambda, mulAdd]
  · norm_num [Gen.InvGaussian.ln_f_real, Gen.InvGaussian.emit_params, Gen.InvGaussian.get_mu,
      Gen.InvGaussian.get_lambda, Gen.InvGaussian.ln_lambda, mulAdd]

-- @site Bernoulli.ln_f_bool
/-- Bernoulli on the closed domain `p ∈ [0,1]`: finite or `-inf` (never NaN, never `+inf`) -/
theorem Bernoulli_ln_f_total_bool (p : ℝ) (hp0 : 0 ≤ p) (hp1 : p ≤ 1) (x : Bool) :
    IsFinOrNinf (Gen.Bernoulli.ln_f_bool (⟨fin p⟩ : Gen.Bernoulli X) x) := by
  cases x
  · have h : (0:ℝ) ≤ 1 - p := by linarith
    simpa only [Gen.Bernoulli.ln_f_bool, Gen.Bernoulli.f_bool, Bool.false_eq_true, if_false, lit_one,
      X.fin_sub_fin] using ln_fin_isFinOrNinf h
  · simpa only [Gen.Bernoulli.ln_f_bool, Gen.Bernoulli.f_bool, if_true] using ln_fin_isFinOrNinf hp0

/-- boundary `p = 0`: `ln_f(true) = -inf`, a number -/
example : Gen.Bernoulli.ln_f_bool (⟨fin 0⟩ : Gen.Bernoulli X) true ≠ nan :=
  (isFinOrNinf_total (Bernoulli_ln_f_total_bool 0 (le_refl _) zero_le_one true)).1

-- @site Bernoulli.ln_f_nat
/-- integer kinds — **model only**: the model maps `into_bool` to `x == 1`; the Rust code panics for `x ∉ {0,1}`
    (`Bernoulli.ln_f_nat u8 p=0.5 2 ↦ PANIC`), see `Bernoulli_f_unsupported_nat_counterexample` in C02A; `pmf`/`ln_pmf` panic as well (documented). -/
theorem Bernoulli_ln_f_total_nat (p : ℝ) (hp0 : 0 ≤ p) (hp1 : p ≤ 1) (x : Nat) :
    IsFinOrNinf (Gen.Bernoulli.ln_f_nat (⟨fin p⟩ : Gen.Bernoulli X) x) :=
  Bernoulli_ln_f_total_bool p hp0 hp1 (x == 1)

example : Gen.Bernoulli.ln_f_nat (⟨fin 1⟩ : Gen.Bernoulli X) 0 ≠ nan :=
  (isFinOrNinf_total (Bernoulli_ln_f_total_nat 1 zero_le_one (le_refl _) 0)).1

-- @site Categorical.ln_f_nat
/-- Categorical: `ln_f` is finite or `-inf` at every supported index when the `ln_weights` are (zero weights allowed) -/
theorem Categorical_ln_f_total_nat (ws : List X) (hw : ∀ w ∈ ws, IsFinOrNinf w) (x : Nat)
    (hs : Gen.Categorical.supports_nat (⟨ws⟩ : Gen.Categorical X) x = true) :
    IsFinOrNinf (Gen.Categorical.ln_f_nat (⟨ws⟩ : Gen.Categorical X) x) := by
  simp only [Gen.Categorical.supports_nat, decide_eq_true_eq] at hs
  have e : ws.getD x RealLike.nan = ws[x] := by simp [List.getD, hs]
  simp only [Gen.Categorical.ln_f_nat, idxR, e]
  exact hw _ (List.getElem_mem hs)

/-- a zero weight (`ln_weight = -inf`) is fine for `ln_f` -/
example : Gen.Categorical.ln_f_nat (⟨[ninf, fin 0]⟩ : Gen.Categorical X) 0 ≠ nan :=
  (isFinOrNinf_total (Categorical_ln_f_total_nat [ninf, fin 0] (by simp) 0 (by decide))).1

-- @site Categorical.new
/-- DEFECT.  `Categorical::new(&[0.0, 0.0])` is accepted (weights are only checked `>= 0` and finite) and
    normalises with `ln 0 - ln 0 = -inf + inf = NaN`: every `ln_weight` is NaN, `ln_f` is NaN at every supported
    point.  rvharness: `Categorical.new - L2 0 0 ↦ L2 NaN NaN`. -/
theorem Categorical_new_all_zero_counterexample :
    Gen.Categorical.new [fin 0, fin 0] = Except.ok (⟨[nan, nan]⟩ : Gen.Categorical X) ∧
    Gen.Categorical.supports_nat (⟨[nan, nan]⟩ : Gen.Categorical X) 0 = true ∧
    Gen.Categorical.ln_f_nat (⟨[nan, nan]⟩ : Gen.Categorical X) 0 = nan := by
  refine ⟨?_, rfl, rfl⟩
  norm_num [Gen.Categorical.new, Gen.Categorical.new_unchecked, tryForEach, enumL, sumL, List.range, List.range.loop]

-- @site Categorical.ln_f_stat_nat
/-- DEFECT (the zero-weight finding of DESIGN §C02).  `ln_f` itself is fine with a zero weight (`-inf`, see
    `Categorical_ln_f_total_nat`) but `ln_f_stat = Σ countₖ·ln wₖ` evaluates `0·(-inf) = NaN` as soon as a
    zero-weight category has count 0 — i.e. for **every** data set of positive likelihood.
    rvharness: `Categorical.ln_f_stat_nat usize L2 -inf 0  3 L2 0 3 ↦ NaN` (true value `0`). -/
theorem Categorical_ln_f_stat_zero_weight_counterexample :
    Gen.Categorical.new [fin 0, fin 1] = Except.ok (⟨[ninf, fin 0]⟩ : Gen.Categorical X) ∧
    Gen.Categorical.ln_f_stat_nat (⟨[ninf, fin 0]⟩ : Gen.Categorical X) ⟨3, [fin 0, fin 3]⟩ = nan := by
  refine ⟨?_, ?_⟩
  · norm_num [Gen.Categorical.new, Gen.Categorical.new_unchecked, tryForEach, enumL, sumL, List.range, List.range.loop]
  · norm_num [Gen.Categorical.ln_f_stat_nat, Gen.Categorical.get_ln_weights, Gen.CategoricalSuffStat.get_counts, sumL]

-- @site Geometric.ln_f_nat
/-- Geometric: total for `p < 1`, and for `p = 1` at every `k ≥ 1` (value `-inf`) -/
theorem Geometric_ln_f_total_partial (p : ℝ) (hp0 : 0 < p) (hp1 : p ≤ 1) (k : Nat) (h : p < 1 ∨ 0 < k) :
    IsFinOrNinf (Gen.Geometric.ln_f_nat (⟨fin p⟩ : Gen.Geometric X) k) := by
  rcases hp1.lt_or_eq with h1 | h1
  · have : 0 < 1 - p := by linarith
    norm_num [Gen.Geometric.ln_f_nat, Gen.Geometric.ln_1mp, Gen.Geometric.ln_p, mulAdd, hp0, hp0.ne', this, this.ne']
  · subst h1
    have hk : 0 < k := by rcases h with h | h; exact absurd h (lt_irrefl _); exact h
    have hk' : (0:ℝ) < k := by exact_mod_cast hk
    norm_num [Gen.Geometric.ln_f_nat, Gen.Geometric.ln_1mp, Gen.Geometric.ln_p, mulAdd, hk', hk'.ne']

example : Gen.Geometric.ln_f_nat (⟨fin 1⟩ : Gen.Geometric X) 4 ≠ nan :=
  (isFinOrNinf_total (Geometric_ln_f_total_partial 1 one_pos (le_refl _) 4 (Or.inr (by norm_num)))).1

-- @site Geometric.ln_f_nat
/-- DEFECT.  `Geometric::new(1.0)` is accepted (`p ∈ (0,1]`); `ln_f(0) = 0·ln(1-1) + ln 1 = 0·(-inf) = NaN`
    (true value `ln 1 = 0`).  rvharness: `Geometric.ln_f_nat u32 p=1 0 ↦ NaN`. -/
theorem Geometric_ln_f_total_counterexample :
    Gen.Geometric.supports_nat (⟨fin 1⟩ : Gen.Geometric X) 0 = true ∧
    Gen.Geometric.ln_f_nat (⟨fin 1⟩ : Gen.Geometric X) 0 = nan := by
  refine ⟨rfl, ?_⟩
  norm_num [Gen.Geometric.ln_f_nat, Gen.Geometric.ln_1mp, Gen.Geometric.ln_p, mulAdd]

-- @site Poisson.ln_f_nat
/-- Poisson: uses the 255-entry table `LN_FACT` below 254 and the Stirling series above -/
theorem Poisson_ln_f_total (rate : ℝ) (hr : 0 < rate) (k : Nat) :
    ∃ r, Gen.Poisson.ln_f_nat (⟨fin rate⟩ : Gen.Poisson X) k = fin r := by
  obtain ⟨r, hr'⟩ := ln_fact_fin k
  norm_num [Gen.Poisson.ln_f_nat, Gen.Poisson.ln_rate, mulAdd, hr', hr, hr.ne']

example : Gen.Poisson.ln_f_nat (⟨fin 3⟩ : Gen.Poisson X) 300 ≠ nan :=
  (fin_total (Poisson_ln_f_total 3 (by norm_num) 300)).1

-- @site Binomial.supports_nat
/-- `supports` implies `k ≤ n` whatever the width of the kind (`n as $kind` can only shrink `n`) -/
theorem Binomial_supports_le (n : Nat) (p : X) (kbits k : Nat)
    (hs : Gen.Binomial.supports_nat (⟨n, p⟩ : Gen.Binomial X) kbits k = true) : k ≤ n := by
  simp [Gen.Binomial.supports_nat, wrapNat] at hs
  exact (of_decide_eq_true hs).trans (Nat.mod_le _ _)

-- @site Binomial.ln_f_nat
/-- Binomial: total (finite or `-inf`) on the support except at the two points `(p=0, k=0)`, `(p=1, k=n)` -/
theorem Binomial_ln_f_total_partial (n : Nat) (p : ℝ) (hp0 : 0 ≤ p) (hp1 : p ≤ 1) (kbits k : Nat)
    (hs : Gen.Binomial.supports_nat (⟨n, fin p⟩ : Gen.Binomial X) kbits k = true)
    (h0 : ¬ (p = 0 ∧ k = 0)) (h1 : ¬ (p = 1 ∧ k = n)) :
    IsFinOrNinf (Gen.Binomial.ln_f_nat (⟨n, fin p⟩ : Gen.Binomial X) k) := by
  have hkn : k ≤ n := Binomial_supports_le n _ kbits k hs
  have hkn' : (k:ℝ) ≤ n := by exact_mod_cast hkn
  obtain ⟨r, hr⟩ := ln_binom_fin n k (by positivity) (by positivity) (by linarith)
  rcases hp0.eq_or_lt with e0 | hp0'
  · subst e0
    have hk : (0:ℝ) < k := by
      have : k ≠ 0 := fun h => h0 ⟨rfl, h⟩
      exact_mod_cast Nat.pos_of_ne_zero this
    norm_num [Gen.Binomial.ln_f_nat, Gen.Binomial.q, mulAdd, hr, hk, hk.ne']
  rcases hp1.eq_or_lt with e1 | hp1'
  · subst e1
    have hk : (0:ℝ) < (n:ℝ) - k := by
      have : k ≠ n := fun h => h1 ⟨rfl, h⟩
      have : k < n := lt_of_le_of_ne hkn this
      have : (k:ℝ) < n := by exact_mod_cast this
      linarith
    norm_num [Gen.Binomial.ln_f_nat, Gen.Binomial.q, mulAdd, hr, hk, hk.ne']
  · have hq : 0 < 1 - p := by linarith
    norm_num [Gen.Binomial.ln_f_nat, Gen.Binomial.q, mulAdd, hr, hp0', hp0'.ne', hq, hq.ne']

example : Gen.Binomial.ln_f_nat (⟨5, fin 0⟩ : Gen.Binomial X) 2 ≠ nan :=
  (isFinOrNinf_total (Binomial_ln_f_total_partial 5 0 (le_refl _) zero_le_one 8 2 (by decide) (by norm_num) (by norm_num))).1

-- @site Binomial.ln_f_nat
/-- DEFECT.  `Binomial::new(n, 0.0)` and `(n, 1.0)` are accepted; `ln_f(0)` at `p = 0` is `ln(1)·n + ln(0)·0 = NaN`,
    `ln_f(n)` at `p = 1` is `ln(0)·0 + … = NaN` (true value `ln 1 = 0` in both cases; `f`, `pmf`, `ln_pmf` are NaN too).
    rvharness: `Binomial.ln_f_nat u8 n=5 p=0 0 ↦ NaN`, `n=5 p=1 5 ↦ NaN`, `Binomial.pmf_nat u8 5 0 0 ↦ NaN`. -/
theorem Binomial_ln_f_total_counterexample :
    Gen.Binomial.supports_nat (⟨5, fin 0⟩ : Gen.Binomial X) 8 0 = true ∧
    Gen.Binomial.ln_f_nat (⟨5, fin 0⟩ : Gen.Binomial X) 0 = nan ∧
    Gen.Binomial.supports_nat (⟨5, fin 1⟩ : Gen.Binomial X) 8 5 = true ∧
    Gen.Binomial.ln_f_nat (⟨5, fin 1⟩ : Gen.Binomial X) 5 = nan := by
  refine ⟨by decide, ?_, by decide, ?_⟩
  · norm_num [Gen.Binomial.ln_f_nat, Gen.Binomial.q, mulAdd]
  · norm_num [Gen.Binomial.ln_f_nat, Gen.Binomial.q, mulAdd]

-- @site NegBinomial.ln_f_nat
/-- NegBinomial: total for `p < 1` (incl. `p = 0`: `-inf`), and for `p = 1` at every `k ≥ 1` -/
theorem NegBinomial_ln_f_total_partial (r p : ℝ) (hr : 1 ≤ r) (hp0 : 0 ≤ p) (hp1 : p ≤ 1) (k : Nat)
    (h : p < 1 ∨ 0 < k) :
    IsFinOrNinf (Gen.NegBinomial.ln_f_nat (⟨fin r, fin p⟩ : Gen.NegBinomial X) k) := by
  have hk0 : (0:ℝ) ≤ k := Nat.cast_nonneg k
  have hr0 : 0 < r := by linarith
  obtain ⟨b, hb⟩ := ln_binom_fin ((k:ℝ) + r - 1) (r - 1) (by linarith) (by linarith) (by linarith)
  rcases hp0.eq_or_lt with e0 | hp0'
  · subst e0
    norm_num [Gen.NegBinomial.ln_f_nat, Gen.NegBinomial.ln_1mp, Gen.NegBinomial.r_ln_p, mulAdd, hb, hr0, hr0.ne']
  rcases hp1.eq_or_lt with e1 | hp1'
  · subst e1
    have hk : (0:ℝ) < k := by
      rcases h with h | h
      · exact absurd h (lt_irrefl _)
      · exact_mod_cast h
    norm_num [Gen.NegBinomial.ln_f_nat, Gen.NegBinomial.ln_1mp, Gen.NegBinomial.r_ln_p, mulAdd, hb, hk, hk.ne']
  · have hq : 0 < 1 - p := by linarith
    norm_num [Gen.NegBinomial.ln_f_nat, Gen.NegBinomial.ln_1mp, Gen.NegBinomial.r_ln_p, mulAdd, hb, hp0', hp0'.ne', hq, hq.ne']

example : Gen.NegBinomial.ln_f_nat (⟨fin 3, fin 0⟩ : Gen.NegBinomial X) 0 ≠ nan :=
  (isFinOrNinf_total (NegBinomial_ln_f_total_partial 3 0 (by norm_num) (le_refl _) zero_le_one 0 (Or.inl one_pos))).1

-- @site NegBinomial.ln_f_nat
/-- DEFECT.  `NegBinomial::new(r, 1.0)` is accepted (`p ∈ [0,1]`); `ln_f(0) = … + 0·ln(0) + r·ln 1 = NaN`
    (true value `0`).  rvharness: `NegBinomial.ln_f_nat u8 r=3 p=1 0 ↦ NaN`. -/
theorem NegBinomial_ln_f_total_counterexample :
    Gen.NegBinomial.supports_nat (⟨fin 3, fin 1⟩ : Gen.NegBinomial X) 0 = true ∧
    Gen.NegBinomial.ln_f_nat (⟨fin 3, fin 1⟩ : Gen.NegBinomial X) 0 = nan := by
  refine ⟨rfl, ?_⟩
  norm_num [Gen.NegBinomial.ln_f_nat, Gen.NegBinomial.ln_1mp, Gen.NegBinomial.r_ln_p, mulAdd, Gen.ln_binom]

/-! ### `supports` never accepts a non-finite point (real-valued kinds) -/

-- @site Beta.supports_real
theorem Beta_supports_finite_only (d : Gen.Beta X) :
    Gen.Beta.supports_real d nan = false ∧ Gen.Beta.supports_real d pinf = false ∧
      Gen.Beta.supports_real d ninf = false := by
  refine ⟨?_, ?_, ?_⟩ <;> norm_num [Gen.Beta.supports_real, RealLike.ge, RealLike.gt]

-- @site Cauchy.supports_real
theorem Cauchy_supports_finite_only (d : Gen.Cauchy X) :
    Gen.Cauchy.supports_real d nan = false ∧ Gen.Cauchy.supports_real d pinf = false ∧
      Gen.Cauchy.supports_real d ninf = false := by
  refine ⟨?_, ?_, ?_⟩ <;> norm_num [Gen.Cauchy.supports_real, RealLike.ge, RealLike.gt]

-- @site ChiSquared.supports_real
theorem ChiSquared_supports_finite_only (d : Gen.ChiSquared X) :
    Gen.ChiSquared.supports_real d nan = false ∧ Gen.ChiSquared.supports_real d pinf = false ∧
      Gen.ChiSquared.supports_real d ninf = false := by
  refine ⟨?_, ?_, ?_⟩ <;> norm_num [Gen.ChiSquared.supports_real, RealLike.ge, RealLike.gt]

-- @site Exponential.supports_real
theorem Exponential_supports_finite_only (d : Gen.Exponential X) :
    Gen.Exponential.supports_real d nan = false ∧ Gen.Exponential.supports_real d pinf = false ∧
      Gen.Exponential.supports_real d ninf = false := by
  refine ⟨?_, ?_, ?_⟩ <;> norm_num [Gen.Exponential.supports_real, RealLike.ge, RealLike.gt]

-- @site Gamma.supports_real
theorem Gamma_supports_finite_only (d : Gen.Gamma X) :
    Gen.Gamma.supports_real d nan = false ∧ Gen.Gamma.supports_real d pinf = false ∧
      Gen.Gamma.supports_real d ninf = false := by
  refine ⟨?_, ?_, ?_⟩ <;> norm_num [Gen.Gamma.supports_real, RealLike.ge, RealLike.gt]

-- @site Gaussian.supports_real
theorem Gaussian_supports_finite_only (d : Gen.Gaussian X) :
    Gen.Gaussian.supports_real d nan = false ∧ Gen.Gaussian.supports_real d pinf = false ∧
      Gen.Gaussian.supports_real d ninf = false := by
  refine ⟨?_, ?_, ?_⟩ <;> norm_num [Gen.Gaussian.supports_real, RealLike.ge, RealLike.gt]

-- @site Gev.supports_real
theorem Gev_supports_finite_only (d : Gen.Gev X) :
    Gen.Gev.supports_real d nan = false ∧ Gen.Gev.supports_real d pinf = false ∧
      Gen.Gev.supports_real d ninf = false := by
  refine ⟨?_, ?_, ?_⟩ <;> simp [Gen.Gev.supports_real]

-- @site InvChiSquared.supports_real
theorem InvChiSquared_supports_finite_only (d : Gen.InvChiSquared X) :
    Gen.InvChiSquared.supports_real d nan = false ∧ Gen.InvChiSquared.supports_real d pinf = false ∧
      Gen.InvChiSquared.supports_real d ninf = false := by
  refine ⟨?_, ?_, ?_⟩ <;> norm_num [Gen.InvChiSquared.supports_real, RealLike.ge, RealLike.gt]

-- @site InvGamma.supports_real
theorem InvGamma_supports_finite_only (d : Gen.InvGamma X) :
    Gen.InvGamma.supports_real d nan = false ∧ Gen.InvGamma.supports_real d pinf = false ∧
      Gen.InvGamma.supports_real d ninf = false := by
  refine ⟨?_, ?_, ?_⟩ <;> norm_num [Gen.InvGamma.supports_real, RealLike.ge, RealLike.gt]

-- @site InvGaussian.supports_real
theorem InvGaussian_supports_finite_only (d : Gen.InvGaussian X) :
    Gen.InvGaussian.supports_real d nan = false ∧ Gen.InvGaussian.supports_real d pinf = false ∧
      Gen.InvGaussian.supports_real d ninf = false := by
  refine ⟨?_, ?_, ?_⟩ <;> norm_num [Gen.InvGaussian.supports_real, RealLike.ge, RealLike.gt]

-- @site Kumaraswamy.supports_real
theorem Kumaraswamy_supports_finite_only (d : Gen.Kumaraswamy X) :
    Gen.Kumaraswamy.supports_real d nan = false ∧ Gen.Kumaraswamy.supports_real d pinf = false ∧
      Gen.Kumaraswamy.supports_real d ninf = false := by
  refine ⟨?_, ?_, ?_⟩ <;> norm_num [Gen.Kumaraswamy.supports_real, RealLike.ge, RealLike.gt]

-- @site Laplace.supports_real
theorem Laplace_supports_finite_only (d : Gen.Laplace X) :
    Gen.Laplace.supports_real d nan = false ∧ Gen.Laplace.supports_real d pinf = false ∧
      Gen.Laplace.supports_real d ninf = false := by
  refine ⟨?_, ?_, ?_⟩ <;> norm_num [Gen.Laplace.supports_real, RealLike.ge, RealLike.gt]

-- @site LogNormal.supports_real
theorem LogNormal_supports_finite_only (d : Gen.LogNormal X) :
    Gen.LogNormal.supports_real d nan = false ∧ Gen.LogNormal.supports_real d pinf = false ∧
      Gen.LogNormal.supports_real d ninf = false := by
  refine ⟨?_, ?_, ?_⟩ <;> norm_num [Gen.LogNormal.supports_real, RealLike.ge, RealLike.gt]

-- @site Pareto.supports_real
theorem Pareto_supports_finite_only (d : Gen.Pareto X) :
    Gen.Pareto.supports_real d nan = false ∧ Gen.Pareto.supports_real d pinf = false ∧
      Gen.Pareto.supports_real d ninf = false := by
  refine ⟨?_, ?_, ?_⟩ <;> norm_num [Gen.Pareto.supports_real, RealLike.ge, RealLike.gt]

-- @site ScaledInvChiSquared.supports_real
theorem ScaledInvChiSquared_supports_finite_only (d : Gen.ScaledInvChiSquared X) :
    Gen.ScaledInvChiSquared.supports_real d nan = false ∧ Gen.ScaledInvChiSquared.supports_real d pinf = false ∧
      Gen.ScaledInvChiSquared.supports_real d ninf = false := by
  refine ⟨?_, ?_, ?_⟩ <;> norm_num [Gen.ScaledInvChiSquared.supports_real, RealLike.ge, RealLike.gt]

-- @site StudentsT.supports_real
theorem StudentsT_supports_finite_only (d : Gen.StudentsT X) :
    Gen.StudentsT.supports_real d nan = false ∧ Gen.StudentsT.supports_real d pinf = false ∧
      Gen.StudentsT.supports_real d ninf = false := by
  refine ⟨?_, ?_, ?_⟩ <;> norm_num [Gen.StudentsT.supports_real, RealLike.ge, RealLike.gt]

-- @site Uniform.supports_real
theorem Uniform_supports_finite_only (d : Gen.Uniform X) :
    Gen.Uniform.supports_real d nan = false ∧ Gen.Uniform.supports_real d pinf = false ∧
      Gen.Uniform.supports_real d ninf = false := by
  refine ⟨?_, ?_, ?_⟩ <;> norm_num [Gen.Uniform.supports_real, RealLike.ge, RealLike.gt]

-- @site UnitPowerLaw.supports_real
theorem UnitPowerLaw_supports_finite_only (d : Gen.UnitPowerLaw X) :
    Gen.UnitPowerLaw.supports_real d nan = false ∧ Gen.UnitPowerLaw.supports_real d pinf = false ∧
      Gen.UnitPowerLaw.supports_real d ninf = false := by
  refine ⟨?_, ?_, ?_⟩ <;> norm_num [Gen.UnitPowerLaw.supports_real, RealLike.ge, RealLike.gt]

-- @site VonMises.supports_real
theorem VonMises_supports_finite_only (d : Gen.VonMises X) :
    Gen.VonMises.supports_real d nan = false ∧ Gen.VonMises.supports_real d pinf = false ∧
      Gen.VonMises.supports_real d ninf = false := by
  refine ⟨?_, ?_, ?_⟩ <;> norm_num [Gen.VonMises.supports_real, RealLike.ge, RealLike.gt]

-- @site DiscreteUniform.supports_real
theorem DiscreteUniform_supports_finite_only (d : Gen.DiscreteUniform X) :
    Gen.DiscreteUniform.supports_real d nan = false ∧ Gen.DiscreteUniform.supports_real d pinf = false ∧
      Gen.DiscreteUniform.supports_real d ninf = false := by
  refine ⟨?_, ?_, ?_⟩ <;> norm_num [Gen.DiscreteUniform.supports_real, RealLike.ge, RealLike.gt]

example : Gen.Pareto.supports_real (⟨fin 2, fin 3⟩ : Gen.Pareto X) pinf = false :=
  (Pareto_supports_finite_only _).2.1

end C02

#print axioms C02.Gaussian_ln_f_total
#print axioms C02.Laplace_ln_f_total
#print axioms C02.Cauchy_ln_f_total
#print axioms C02.Exponential_ln_f_total
#print axioms C02.Uniform_ln_f_total
#print axioms C02.LogNormal_ln_f_total
#print axioms C02.Pareto_ln_f_total
#print axioms C02.Kumaraswamy_ln_f_total
#print axioms C02.UnitPowerLaw_ln_f_total
#print axioms C02.Gamma_ln_f_total
#print axioms C02.Beta_ln_f_total
#print axioms C02.InvGamma_ln_f_total
#print axioms C02.ChiSquared_ln_f_total
#print axioms C02.StudentsT_ln_f_total
#print axioms C02.InvChiSquared_ln_f_total
#print axioms C02.ScaledInvChiSquared_ln_f_total
#print axioms C02.Gev_t_fin
#print axioms C02.Gev_ln_f_total_partial
#print axioms C02.Gev_ln_f_total_counterexample
#print axioms C02.Gev_ln_f_endpoint_pinf
#print axioms C02.InvGaussian_ln_f_total_partial
#print axioms C02.InvGaussian_ln_f_total_counterexample
#print axioms C02.Bernoulli_ln_f_total_bool
#print axioms C02.Bernoulli_ln_f_total_nat
#print axioms C02.Categorical_ln_f_total_nat
#print axioms C02.Categorical_new_all_zero_counterexample
#print axioms C02.Categorical_ln_f_stat_zero_weight_counterexample
#print axioms C02.Geometric_ln_f_total_partial
#print axioms C02.Geometric_ln_f_total_counterexample
#print axioms C02.Poisson_ln_f_total
#print axioms C02.Binomial_supports_le
#print axioms C02.Binomial_ln_f_total_partial
#print axioms C02.Binomial_ln_f_total_counterexample
#print axioms C02.NegBinomial_ln_f_total_partial
#print axioms C02.NegBinomial_ln_f_total_counterexample
#print axioms C02.Beta_supports_finite_only
#print axioms C02.Cauchy_supports_finite_only
#print axioms C02.ChiSquared_supports_finite_only
#print axioms C02.Exponential_supports_finite_only
#print axioms C02.Gamma_supports_finite_only
#print axioms C02.Gaussian_supports_finite_only
#print axioms C02.Gev_supports_finite_only
#print axioms C02.InvChiSquared_supports_finite_only
#print axioms C02.InvGamma_supports_finite_only
#print axioms C02.InvGaussian_supports_finite_only
#print axioms C02.Kumaraswamy_supports_finite_only
#print axioms C02.Laplace_supports_finite_only
#print axioms C02.LogNormal_supports_finite_only
#print axioms C02.Pareto_supports_finite_only
#print axioms C02.ScaledInvChiSquared_supports_finite_only
#print axioms C02.StudentsT_supports_finite_only
#print axioms C02.Uniform_supports_finite_only
#print axioms C02.UnitPowerLaw_supports_finite_only
#print axioms C02.VonMises_supports_finite_only
#print axioms C02.DiscreteUniform_supports_finite_only
