import RvModel.RealInst
import RvModel.Gen.Defs
import RvModel.Lemmas.C03
import Mathlib.Analysis.SpecialFunctions.Pow.Real
import Mathlib.Algebra.BigOperators.Group.Finset.Basic
import Mathlib.Analysis.SpecificLimits.Basic
import Mathlib.Data.List.GetD
/-!
  C03 (group C): discrete CDFs.  `cdf k = Σ_{j ≤ k} pmf j` for the generated objects (structural for the fold-based
  ones: Binomial, BetaBinomial, Categorical; closed forms for Bernoulli, Geometric), monotone in `k`, in `[0,1]`
  where the closed form gives it.  DiscreteUniform: closed form proved, and the sum identity *fails* for the
  object's own `ln_f` (counterexample).  Carrier `R`.
-/
open Real Finset

namespace C03

/-! ### Bernoulli (0 ≤ p ≤ 1) -/

-- @site Bernoulli.cdf_bool
theorem Bernoulli_cdf_false (d : Gen.Bernoulli R) :
    (Gen.Bernoulli.cdf_bool d false).val = (Gen.Bernoulli.pmf_bool d false).val := by
  simp [Gen.Bernoulli.cdf_bool, Gen.Bernoulli.pmf_bool, Gen.Bernoulli.f_bool, Gen.Bernoulli.q]

-- @site Bernoulli.cdf_bool
theorem Bernoulli_cdf_true (d : Gen.Bernoulli R) :
    (Gen.Bernoulli.cdf_bool d true).val =
      (Gen.Bernoulli.pmf_bool d false).val + (Gen.Bernoulli.pmf_bool d true).val := by
  simp [Gen.Bernoulli.cdf_bool, Gen.Bernoulli.pmf_bool, Gen.Bernoulli.f_bool]

-- @site Bernoulli.cdf_bool
theorem Bernoulli_cdf_mono (d : Gen.Bernoulli R) (hp0 : 0 ≤ d.p.val) :
    (Gen.Bernoulli.cdf_bool d false).val ≤ (Gen.Bernoulli.cdf_bool d true).val := by
  simp [Gen.Bernoulli.cdf_bool, Gen.Bernoulli.q]; linarith

-- @site Bernoulli.cdf_bool
theorem Bernoulli_cdf_range (d : Gen.Bernoulli R) (x : Bool) (hp0 : 0 ≤ d.p.val) (hp1 : d.p.val ≤ 1) :
    0 ≤ (Gen.Bernoulli.cdf_bool d x).val ∧ (Gen.Bernoulli.cdf_bool d x).val ≤ 1 := by
  cases x <;> simp [Gen.Bernoulli.cdf_bool, Gen.Bernoulli.q] <;> constructor <;> linarith

-- @site Bernoulli.cdf_nat
/-- integer observations 0 / 1: the cdf is the partial sum of the pmf -/
theorem Bernoulli_cdf_nat_sum (d : Gen.Bernoulli R) (k : ℕ) (hk : k ≤ 1) :
    (Gen.Bernoulli.cdf_nat d k).val = ∑ j ∈ Finset.range (k + 1), (Gen.Bernoulli.pmf_nat d j).val := by
  interval_cases k
  · simp [Gen.Bernoulli.cdf_nat, Gen.Bernoulli.pmf_nat, Gen.Bernoulli.f_bool, Gen.Bernoulli.q]
  · simp [Gen.Bernoulli.cdf_nat, Gen.Bernoulli.pmf_nat, Gen.Bernoulli.f_bool, Finset.sum_range_succ]

-- @site Bernoulli.sf_bool
theorem Bernoulli_sf (d : Gen.Bernoulli R) (x : Bool) :
    (Gen.Bernoulli.sf_bool d x).val = 1 - (Gen.Bernoulli.cdf_bool d x).val := by
  simp only [Gen.Bernoulli.sf_bool, R.sub_val, one_val]

example : (0:ℝ) ≤ (⟨⟨1/3⟩⟩ : Gen.Bernoulli R).p.val ∧ (⟨⟨1/3⟩⟩ : Gen.Bernoulli R).p.val ≤ 1 := by
  constructor <;> norm_num

/-! ### Geometric (0 < p < 1, support ℕ) -/

-- @site Geometric.ln_f_nat
theorem Geometric_pmf_val (d : Gen.Geometric R) (j : ℕ) (hp0 : 0 < d.p.val) (hp1 : d.p.val < 1) :
    (Gen.Geometric.pmf_nat d j).val = (1 - d.p.val) ^ j * d.p.val := by
  have hq : 0 < 1 - d.p.val := by linarith
  simp only [Gen.Geometric.pmf_nat, Gen.Geometric.ln_pmf_nat, Gen.Geometric.supports_nat, Gen.Geometric.ln_f_nat,
    Gen.Geometric.ln_1mp, Gen.Geometric.ln_p, mulAdd, ge_iff_le, Nat.zero_le, decide_true, if_true,
    Option.getD_some, R.exp_val, R.add_val, R.mul_val, R.ln_val, R.sub_val, R.ofNatR_val, one_val]
  rw [Real.exp_add, Real.exp_nat_mul, Real.exp_log hq, Real.exp_log hp0]

-- @site Geometric.cdf_nat
/-- the closed form `1 - (1-p)^(k+1)` of the generated cdf is the partial sum of the generated pmf -/
theorem Geometric_cdf_sum (d : Gen.Geometric R) (k : ℕ) (hp0 : 0 < d.p.val) (hp1 : d.p.val < 1) :
    (Gen.Geometric.cdf_nat d k).val = ∑ j ∈ Finset.range (k + 1), (Gen.Geometric.pmf_nat d j).val := by
  have hcdf : (Gen.Geometric.cdf_nat d k).val = 1 - (1 - d.p.val) ^ (k + 1) := by
    simp only [Gen.Geometric.cdf_nat, Option.getD_some, R.sub_val, R.powf_val, R.add_val, R.ofNatR_val, one_val]
    rw [show ((k:ℝ) + 1) = ((k + 1 : ℕ) : ℝ) by push_cast; ring, Real.rpow_natCast]
  rw [hcdf]
  clear hcdf
  simp only [Geometric_pmf_val d _ hp0 hp1]
  induction k with
  | zero => simp
  | succ k ih => rw [Finset.sum_range_succ, ← ih]; ring

example : (0:ℝ) < (⟨⟨1/3⟩⟩ : Gen.Geometric R).p.val ∧ (⟨⟨1/3⟩⟩ : Gen.Geometric R).p.val < 1 := by
  constructor <;> norm_num

-- @site Geometric.cdf_nat
theorem Geometric_cdf_closed (d : Gen.Geometric R) (k : ℕ) :
    (Gen.Geometric.cdf_nat d k).val = 1 - (1 - d.p.val) ^ (k + 1) := by
  simp only [Gen.Geometric.cdf_nat, Option.getD_some, R.sub_val, R.powf_val, R.add_val, R.ofNatR_val, one_val]
  rw [show ((k:ℝ) + 1) = ((k + 1 : ℕ) : ℝ) by push_cast; ring, Real.rpow_natCast]

-- @site Geometric.cdf_nat
theorem Geometric_cdf_mono (d : Gen.Geometric R) (hp0 : 0 < d.p.val) (hp1 : d.p.val ≤ 1) :
    Monotone (fun k : ℕ => (Gen.Geometric.cdf_nat d k).val) := by
  apply monotone_nat_of_le_succ
  intro k
  simp only [Geometric_cdf_closed]
  have hq0 : 0 ≤ 1 - d.p.val := by linarith
  have hq1 : 1 - d.p.val ≤ 1 := by linarith
  have := pow_le_pow_of_le_one hq0 hq1 (by omega : k + 1 ≤ k + 1 + 1)
  linarith

-- @site Geometric.cdf_nat
theorem Geometric_cdf_range (d : Gen.Geometric R) (k : ℕ) (hp0 : 0 < d.p.val) (hp1 : d.p.val ≤ 1) :
    0 ≤ (Gen.Geometric.cdf_nat d k).val ∧ (Gen.Geometric.cdf_nat d k).val ≤ 1 := by
  rw [Geometric_cdf_closed]
  have hq0 : 0 ≤ 1 - d.p.val := by linarith
  have hq1 : 1 - d.p.val ≤ 1 := by linarith
  have h1 : 0 ≤ (1 - d.p.val) ^ (k + 1) := pow_nonneg hq0 _
  have h2 : (1 - d.p.val) ^ (k + 1) ≤ 1 := pow_le_one₀ hq0 hq1
  constructor <;> linarith

-- @site Geometric.cdf_nat
theorem Geometric_cdf_tendsto_top (d : Gen.Geometric R) (hp0 : 0 < d.p.val) (hp1 : d.p.val ≤ 1) :
    Filter.Tendsto (fun k : ℕ => (Gen.Geometric.cdf_nat d k).val) Filter.atTop (nhds 1) := by
  simp only [Geometric_cdf_closed]
  have hq0 : 0 ≤ 1 - d.p.val := by linarith
  have hq1 : 1 - d.p.val < 1 := by linarith
  have h := (tendsto_pow_atTop_nhds_zero_of_lt_one hq0 hq1).comp (Filter.tendsto_add_atTop_nat 1)
  simpa [Function.comp_def] using h.const_sub 1

-- @site Geometric.sf_nat
theorem Geometric_sf (d : Gen.Geometric R) (k : ℕ) :
    (Gen.Geometric.sf_nat d k).val = 1 - (Gen.Geometric.cdf_nat d k).val := by
  simp only [Gen.Geometric.sf_nat, R.sub_val, one_val]

/-! ### DiscreteUniform (a < b integers, support {a, …, b}) -/

-- @site DiscreteUniform.cdf_real
/-- closed form at the integer points of the support: (number of support points ≤ k) / (number of support points) -/
theorem DiscreteUniform_cdf_closed (d : Gen.DiscreteUniform R) (k : ℤ) (hab : d.a < d.b) (hka : d.a ≤ k)
    (hkb : k ≤ d.b) :
    (Gen.DiscreteUniform.cdf_real d ⟨(k : ℝ)⟩).val = ((k - d.a + 1 : ℤ) : ℝ) / ((d.b - d.a + 1 : ℤ) : ℝ) := by
  have h1 : ¬ (k : ℝ) < (d.a : ℝ) := by exact_mod_cast not_lt.mpr hka
  simp only [Gen.DiscreteUniform.cdf_real, RealLike.ge, R.lt_iff, R.le_iff, R.ofIntR_val, h1, if_false,
    Option.getD_some]
  by_cases h2 : (d.b : ℝ) ≤ (k : ℝ)
  · have : k = d.b := le_antisymm hkb (by exact_mod_cast h2)
    rw [if_pos h2, this, one_val]
    have : ((d.b - d.a + 1 : ℤ) : ℝ) ≠ 0 := by
      have : (0:ℤ) < d.b - d.a + 1 := by omega
      exact_mod_cast this.ne'
    rw [div_self this]
  · rw [if_neg h2]
    simp only [R.div_val, R.add_val, R.sub_val, R.ofIntR_val, one_val]
    push_cast; ring

example : ((⟨0, 5⟩ : Gen.DiscreteUniform R).a < (⟨0, 5⟩ : Gen.DiscreteUniform R).b) ∧
    (⟨0, 5⟩ : Gen.DiscreteUniform R).a ≤ 2 ∧ (2:ℤ) ≤ (⟨0, 5⟩ : Gen.DiscreteUniform R).b := by decide

-- @site DiscreteUniform.cdf_real
theorem DiscreteUniform_cdf_range (d : Gen.DiscreteUniform R) (k : ℤ) (hab : d.a < d.b) (hka : d.a ≤ k)
    (hkb : k ≤ d.b) :
    0 ≤ (Gen.DiscreteUniform.cdf_real d ⟨(k : ℝ)⟩).val ∧ (Gen.DiscreteUniform.cdf_real d ⟨(k : ℝ)⟩).val ≤ 1 := by
  rw [DiscreteUniform_cdf_closed d k hab hka hkb]
  have hden : (0:ℝ) < ((d.b - d.a + 1 : ℤ) : ℝ) := by exact_mod_cast (by omega : (0:ℤ) < d.b - d.a + 1)
  have hnum : (0:ℝ) ≤ ((k - d.a + 1 : ℤ) : ℝ) := by exact_mod_cast (by omega : (0:ℤ) ≤ k - d.a + 1)
  have hle : ((k - d.a + 1 : ℤ) : ℝ) ≤ ((d.b - d.a + 1 : ℤ) : ℝ) := by exact_mod_cast (by omega : k - d.a + 1 ≤ d.b - d.a + 1)
  exact ⟨div_nonneg hnum hden.le, (div_le_one hden).mpr hle⟩

-- @site DiscreteUniform.cdf_real
theorem DiscreteUniform_cdf_mono (d : Gen.DiscreteUniform R) (j k : ℤ) (hab : d.a < d.b) (hja : d.a ≤ j)
    (hjk : j ≤ k) (hkb : k ≤ d.b) :
    (Gen.DiscreteUniform.cdf_real d ⟨(j : ℝ)⟩).val ≤ (Gen.DiscreteUniform.cdf_real d ⟨(k : ℝ)⟩).val := by
  rw [DiscreteUniform_cdf_closed d j hab hja (le_trans hjk hkb),
    DiscreteUniform_cdf_closed d k hab (le_trans hja hjk) hkb]
  have hden : (0:ℝ) < ((d.b - d.a + 1 : ℤ) : ℝ) := by exact_mod_cast (by omega : (0:ℤ) < d.b - d.a + 1)
  exact div_le_div_of_nonneg_right (by exact_mod_cast (by omega : j - d.a + 1 ≤ k - d.a + 1)) hden.le

/- Full statement (FALSE for the generated object): for a ≤ k ≤ b,
     cdf k = Σ_{a ≤ j ≤ k} pmf j          with pmf = exp ∘ ln_pmf of the same object.
   `DiscreteUniform::ln_f` (src/dist/discrete_uniform.rs:126-132) returns 0.0 on the support, i.e. pmf ≡ 1 instead of
   1/(b-a+1); the cdf itself is the textbook one.  Witness a = 0, b = 1, k = 0: cdf = 1/2, pmf(0) = 1. -/
-- @site DiscreteUniform.ln_f_real
theorem DiscreteUniform_cdf_sum_counterexample :
    (Gen.DiscreteUniform.cdf_real (⟨0, 1⟩ : Gen.DiscreteUniform R) ⟨0⟩).val ≠
      (Gen.DiscreteUniform.pmf_real (⟨0, 1⟩ : Gen.DiscreteUniform R) ⟨0⟩).val := by
  have h1 : (Gen.DiscreteUniform.cdf_real (⟨0, 1⟩ : Gen.DiscreteUniform R) ⟨0⟩).val = 1 / 2 := by
    simp [Gen.DiscreteUniform.cdf_real, RealLike.ge]
    norm_num
  have h2 : (Gen.DiscreteUniform.pmf_real (⟨0, 1⟩ : Gen.DiscreteUniform R) ⟨0⟩).val = 1 := by
    simp [Gen.DiscreteUniform.pmf_real, Gen.DiscreteUniform.ln_pmf_real, Gen.DiscreteUniform.supports_real,
      Gen.DiscreteUniform.ln_f_real, RealLike.ge]
    norm_num
  rw [h1, h2]; norm_num

-- @site DiscreteUniform.sf_real
theorem DiscreteUniform_sf (d : Gen.DiscreteUniform R) (x : R) :
    (Gen.DiscreteUniform.sf_real d x).val = 1 - (Gen.DiscreteUniform.cdf_real d x).val := by
  simp only [Gen.DiscreteUniform.sf_real, R.sub_val, one_val]

/-! ### Binomial, BetaBinomial: cdf is a fold of the pmf -/

-- @site Binomial.cdf_nat
theorem Binomial_cdf_sum (d : Gen.Binomial R) (kbits k : ℕ) (hk : k ≤ wrapNat kbits d.n) :
    (Gen.Binomial.cdf_nat d kbits k).val =
      ∑ j ∈ Finset.range (k + 1), Real.exp (Gen.Binomial.ln_f_nat d j).val := by
  simp only [Gen.Binomial.cdf_nat, Nat.sub_zero, ← List.range_eq_range']
  rw [foldl_add_val, list_range_map_sum, zero_val, zero_add]
  refine Finset.sum_congr rfl ?_
  intro j hj
  have hj' : j ≤ wrapNat kbits d.n := le_trans (Nat.lt_succ_iff.mp (Finset.mem_range.mp hj)) hk
  simp only [Gen.Binomial.pmf_nat, Gen.Binomial.ln_pmf_nat, Gen.Binomial.supports_nat, ge_iff_le, Nat.zero_le,
    decide_true, Bool.true_and, hj', if_true, R.exp_val]

example : (3:ℕ) ≤ wrapNat 8 (⟨10, ⟨1/2⟩⟩ : Gen.Binomial R).n := by decide

-- @site Binomial.cdf_nat
theorem Binomial_cdf_succ (d : Gen.Binomial R) (kbits k : ℕ) :
    (Gen.Binomial.cdf_nat d kbits (k + 1)).val =
      (Gen.Binomial.cdf_nat d kbits k).val + (Gen.Binomial.pmf_nat d kbits (k + 1)).val := by
  simp only [Gen.Binomial.cdf_nat, Nat.sub_zero, ← List.range_eq_range']
  rw [List.range_succ, List.foldl_append]
  simp [List.foldl]

-- @site Binomial.cdf_nat
theorem Binomial_cdf_mono (d : Gen.Binomial R) (kbits : ℕ) :
    Monotone (fun k : ℕ => (Gen.Binomial.cdf_nat d kbits k).val) := by
  apply monotone_nat_of_le_succ
  intro k
  rw [Binomial_cdf_succ]
  have : 0 < (Gen.Binomial.pmf_nat d kbits (k + 1)).val := by
    simp only [Gen.Binomial.pmf_nat, R.exp_val]; exact Real.exp_pos _
  linarith

-- @site Binomial.sf_nat
theorem Binomial_sf (d : Gen.Binomial R) (kbits k : ℕ) :
    (Gen.Binomial.sf_nat d kbits k).val = 1 - (Gen.Binomial.cdf_nat d kbits k).val := by
  simp only [Gen.Binomial.sf_nat, R.sub_val, one_val]

-- @site BetaBinomial.cdf_nat
theorem BetaBinomial_cdf_sum (d : Gen.BetaBinomial R) (kbits k : ℕ) (hk : k ≤ wrapNat kbits d.n) :
    (Gen.BetaBinomial.cdf_nat d kbits k).val =
      ∑ j ∈ Finset.range (k + 1), Real.exp (Gen.BetaBinomial.ln_f_nat d j).val := by
  simp only [Gen.BetaBinomial.cdf_nat, Nat.sub_zero, ← List.range_eq_range']
  rw [foldl_add_val, list_range_map_sum, zero_val, zero_add]
  refine Finset.sum_congr rfl ?_
  intro j hj
  have hj' : j ≤ wrapNat kbits d.n := le_trans (Nat.lt_succ_iff.mp (Finset.mem_range.mp hj)) hk
  simp only [Gen.BetaBinomial.pmf_nat, Gen.BetaBinomial.ln_pmf_nat, Gen.BetaBinomial.supports_nat, ge_iff_le,
    Nat.zero_le, decide_true, Bool.true_and, hj', if_true, R.exp_val]

example : (3:ℕ) ≤ wrapNat 8 (⟨10, ⟨1/2⟩, ⟨2⟩⟩ : Gen.BetaBinomial R).n := by decide

-- @site BetaBinomial.cdf_nat
theorem BetaBinomial_cdf_succ (d : Gen.BetaBinomial R) (kbits k : ℕ) :
    (Gen.BetaBinomial.cdf_nat d kbits (k + 1)).val =
      (Gen.BetaBinomial.cdf_nat d kbits k).val + (Gen.BetaBinomial.pmf_nat d kbits (k + 1)).val := by
  simp only [Gen.BetaBinomial.cdf_nat, Nat.sub_zero, ← List.range_eq_range']
  rw [List.range_succ, List.foldl_append]
  simp [List.foldl]

-- @site BetaBinomial.cdf_nat
theorem BetaBinomial_cdf_mono (d : Gen.BetaBinomial R) (kbits : ℕ) :
    Monotone (fun k : ℕ => (Gen.BetaBinomial.cdf_nat d kbits k).val) := by
  apply monotone_nat_of_le_succ
  intro k
  rw [BetaBinomial_cdf_succ]
  have : 0 < (Gen.BetaBinomial.pmf_nat d kbits (k + 1)).val := by
    simp only [Gen.BetaBinomial.pmf_nat, R.exp_val]; exact Real.exp_pos _
  linarith

-- @site BetaBinomial.sf_nat
theorem BetaBinomial_sf (d : Gen.BetaBinomial R) (kbits k : ℕ) :
    (Gen.BetaBinomial.sf_nat d kbits k).val = 1 - (Gen.BetaBinomial.cdf_nat d kbits k).val := by
  simp only [Gen.BetaBinomial.sf_nat, R.sub_val, one_val]

/-! ### Binomial / BetaBinomial with `n` wider than the observation type: the cdf loses mass (defect of the code)

  `Binomial::supports` / `BetaBinomial::supports` (src/dist/binomial.rs:288-290, src/dist/beta_binom.rs:376-378) compare
  `*k <= self.n as $kind`: for `u8` observations and n = 300 the bound wraps to 44 (for `i8` and n = 253 to -3), so
  `pmf(&k)` is 0 for textbook-support points k ∈ (44, 255] and `cdf` — the fold of `pmf` — stops growing there.
  Observed on the real code: `Binomial::new(300, 0.5).cdf(&136u8)` = 7.9e-38 (textbook 0.0594);
  `Binomial::new(253, 0.1683).cdf(&38i8)` = 0.0 (textbook 0.2487).  Textbook statement that fails:
     k ≤ n → cdf k = Σ_{j ≤ k} C(n,j) p^j (1-p)^(n-j).                                                                -/

-- @site Binomial.supports_nat
theorem Binomial_cdf_u8_counterexample (p : R) :
    (100 : ℕ) ≤ (⟨300, p⟩ : Gen.Binomial R).n ∧
      Gen.Binomial.supports_nat (⟨300, p⟩ : Gen.Binomial R) 8 100 = false := by
  constructor
  · show (100 : ℕ) ≤ 300; omega
  · simp [Gen.Binomial.supports_nat, wrapNat]

-- @site Binomial.supports_int
theorem Binomial_cdf_i8_counterexample (p : R) :
    (38 : ℤ) ≤ ((⟨253, p⟩ : Gen.Binomial R).n : ℤ) ∧
      Gen.Binomial.supports_int (⟨253, p⟩ : Gen.Binomial R) 8 38 = false := by
  constructor
  · show (38 : ℤ) ≤ ((253 : ℕ) : ℤ); omega
  · simp [Gen.Binomial.supports_int, wrapInt]

-- @site BetaBinomial.supports_nat
theorem BetaBinomial_cdf_u8_counterexample (a b : R) :
    (100 : ℕ) ≤ (⟨300, a, b⟩ : Gen.BetaBinomial R).n ∧
      Gen.BetaBinomial.supports_nat (⟨300, a, b⟩ : Gen.BetaBinomial R) 8 100 = false := by
  constructor
  · show (100 : ℕ) ≤ 300; omega
  · simp [Gen.BetaBinomial.supports_nat, wrapNat]

/-! ### Categorical: cdf is the sum of the first x+1 weights -/

-- @site Categorical.cdf_nat
theorem Categorical_cdf_sum (d : Gen.Categorical R) (x : ℕ) (hx : x < d.ln_weights.length) :
    (Gen.Categorical.cdf_nat d x).val =
      ∑ j ∈ Finset.range (x + 1), Real.exp (Gen.Categorical.ln_f_nat d j).val := by
  simp only [Gen.Categorical.cdf_nat, Gen.Categorical.ln_f_nat, idxR]
  rw [foldl_add_val' (fun w => RealLike.exp w), zero_val, zero_add]
  have := take_map_sum d.ln_weights (fun w => Real.exp w.val) RealLike.nan (x + 1) hx
  simpa only [R.exp_val] using this

example : (1:ℕ) < (⟨[⟨Real.log (1/2)⟩, ⟨Real.log (1/4)⟩, ⟨Real.log (1/4)⟩]⟩ : Gen.Categorical R).ln_weights.length := by
  simp

-- @site Categorical.cdf_nat
theorem Categorical_cdf_mono (d : Gen.Categorical R) :
    Monotone (fun x : ℕ => (Gen.Categorical.cdf_nat d x).val) := by
  apply monotone_nat_of_le_succ
  intro x
  simp only [Gen.Categorical.cdf_nat]
  rw [foldl_add_val' (fun w => RealLike.exp w), foldl_add_val' (fun w => RealLike.exp w)]
  by_cases h : x + 1 < d.ln_weights.length
  · rw [List.take_succ_eq_append_getElem h, List.map_append, List.sum_append]
    have : 0 < (RealLike.exp d.ln_weights[x + 1]).val := by simp only [R.exp_val]; exact Real.exp_pos _
    simp only [List.map_cons, List.map_nil, List.sum_cons, List.sum_nil, add_zero]
    linarith
  · rw [List.take_of_length_le (not_lt.mp h), List.take_of_length_le (by omega)]

-- @site Categorical.sf_nat
theorem Categorical_sf (d : Gen.Categorical R) (x : ℕ) :
    (Gen.Categorical.sf_nat d x).val = 1 - (Gen.Categorical.cdf_nat d x).val := by
  simp only [Gen.Categorical.sf_nat, R.sub_val, one_val]

end C03

#print axioms C03.Bernoulli_cdf_false
#print axioms C03.Bernoulli_cdf_true
#print axioms C03.Bernoulli_cdf_mono
#print axioms C03.Bernoulli_cdf_range
#print axioms C03.Bernoulli_cdf_nat_sum
#print axioms C03.Bernoulli_sf
#print axioms C03.Geometric_pmf_val
#print axioms C03.Geometric_cdf_sum
#print axioms C03.Geometric_cdf_closed
#print axioms C03.Geometric_cdf_mono
#print axioms C03.Geometric_cdf_range
#print axioms C03.Geometric_cdf_tendsto_top
#print axioms C03.Geometric_sf
#print axioms C03.DiscreteUniform_cdf_closed
#print axioms C03.DiscreteUniform_cdf_range
#print axioms C03.DiscreteUniform_cdf_mono
#print axioms C03.DiscreteUniform_cdf_sum_counterexample
#print axioms C03.DiscreteUniform_sf
#print axioms C03.Binomial_cdf_sum
#print axioms C03.Binomial_cdf_succ
#print axioms C03.Binomial_cdf_mono
#print axioms C03.Binomial_sf
#print axioms C03.BetaBinomial_cdf_sum
#print axioms C03.BetaBinomial_cdf_succ
#print axioms C03.BetaBinomial_cdf_mono
#print axioms C03.BetaBinomial_sf
#print axioms C03.Categorical_cdf_sum
#print axioms C03.Categorical_cdf_mono
#print axioms C03.Categorical_sf
#print axioms C03.Binomial_cdf_u8_counterexample
#print axioms C03.Binomial_cdf_i8_counterexample
#print axioms C03.BetaBinomial_cdf_u8_counterexample
