import RvModel.RealInst
import RvModel.Hand.Kernel
import RvModel.Lemmas.C16
import RvModel.Props.C16A
import Mathlib.LinearAlgebra.Matrix.PosDef
import Mathlib.LinearAlgebra.Matrix.Hadamard
import Mathlib.Analysis.Matrix.Order
import Mathlib.Analysis.SpecialFunctions.Trigonometric.Basic
import Mathlib.Analysis.SpecialFunctions.Exp
/-!
  C16 (part C) — positive semidefiniteness of `covariance(X, X)`.  Carrier `R`; Mathlib linear algebra.

  `covMat k X` is the matrix `(cov k xᵢ xⱼ)ᵢⱼ` of a point set `X` (any size, any dimension).

  * `AddKernel` preserves PSD (`Matrix.PosSemidef.add`), `ProductKernel` preserves PSD (Schur product theorem,
    `Matrix.PosSemidef.hadamard`); Constant (positive scale) and White (`covariance ≡ 0`) leaves are PSD — proved.
  * PSD of the RBF / SEard / ExpSineSquared / RationalQuadratic / Matérn leaf matrices is an EXPLICIT HYPOTHESIS,
    `LeafPSD X k` (Bochner-type facts, not in Mathlib): `cov_psd` says that every tree is PSD on `X` as soon as each
    of its leaves of these five families is.
  * The hypothesis is FALSE for ExpSineSquared in dimension ≥ 2 (`ess_psd_counterexample`): the code feeds the
    Euclidean distance of the points into the periodic kernel, which is a valid kernel on the line only.
-/
open Real Hand.Kernel Matrix

namespace C16

-- @site ConstantKernel::covariance
/-- the constant kernel with a non-negative scale is PSD: `c · 𝟙𝟙ᵀ` -/
theorem const_psd (c : R) (hc : 0 ≤ c.val) (X : List (List R)) : (covMat (.const c) X).PosSemidef := by
  have h : covMat (.const c) X = c.val • vecMulVec (fun _ => (1 : ℝ)) (star (fun _ => (1 : ℝ))) := by
    ext i j; simp [covMat, cov, vecMulVec_apply]
  rw [h]
  exact (posSemidef_vecMulVec_self_star _).smul hc

-- @site WhiteKernel::covariance
/-- `WhiteKernel::covariance` is identically zero — trivially PSD (the matrix it returns with the gradient,
    `σ·I`, is PSD as well, but it is not `covariance(X, X)`) -/
theorem white_psd (s : R) (X : List (List R)) : (covMat (.white s) X).PosSemidef := by
  have h : covMat (.white s) X = 0 := by
    ext i j; simp only [covMat, cov, lit0, Matrix.zero_apply]
  rw [h]
  exact PosSemidef.zero

-- @site AddKernel::covariance
theorem add_psd (a b : K R) (X : List (List R)) (ha : (covMat a X).PosSemidef) (hb : (covMat b X).PosSemidef) :
    (covMat (.add a b) X).PosSemidef := by
  rw [covMat_add]; exact ha.add hb

-- @site ProductKernel::covariance
/-- Schur product theorem -/
theorem mul_psd (a b : K R) (X : List (List R)) (ha : (covMat a X).PosSemidef) (hb : (covMat b X).PosSemidef) :
    (covMat (.mul a b) X).PosSemidef := by
  rw [covMat_mul]; exact ha.hadamard hb

-- @site Kernel::covariance
/-- by structural induction: `covariance(X, X)` of every tree with positive parameters is symmetric positive
    semidefinite, PROVIDED the matrices of its RBF / SEard / ESS / RQ / Matérn leaves are (`LeafPSD`, assumed) -/
theorem cov_psd (k : K R) (hv : Valid k) (X : List (List R)) (h : LeafPSD X k) : (covMat k X).PosSemidef := by
  induction k with
  | const c => exact const_psd c (le_of_lt hv) X
  | white s => exact white_psd s X
  | add a b iha ihb => exact add_psd a b X (iha hv.1 h.1) (ihb hv.2 h.2)
  | mul a b iha ihb => exact mul_psd a b X (iha hv.1 h.1) (ihb hv.2 h.2)
  | rbf l => exact h
  | seard ls => exact h
  | ess l p => exact h
  | rq s a => exact h
  | matern nu l => exact h

example : (covMat (.add (.const (r 2)) (.mul (.white (r 1)) (.const (r 3)))) [[r 0], [r 1], [r 1]]).PosSemidef :=
  cov_psd _ (by simp [Valid]) _ (by simp [LeafPSD])

-- @site Kernel::covariance
/-- in particular `covariance(X, X)` is a symmetric matrix (this half needs no hypothesis: `cov_symm`) -/
theorem covMat_symm (k : K R) (X : List (List R)) : (covMat k X)ᵀ = covMat k X := by
  ext i j; simp only [covMat, Matrix.transpose_apply]; exact cov_symm k _ _

-- @site ExpSineSquaredKernel::covariance
/-- **ESS is not a positive semidefinite kernel in dimension 2.**  `ℓ = p = 1`, the isosceles triangle
    `P₀ = (0, 0)`, `P₁ = (3/4, √7/4)`, `P₂ = (3/2, 0)` with sides `|P₀P₁| = |P₁P₂| = 1` (one period: covariance 1)
    and `|P₀P₂| = 3/2` (covariance `e⁻²`): the quadratic form at `v = (1, -2, 1)` is `2e⁻² − 2 < 0`.
    (On the line three such points do not exist: `|P₀P₂| = 2` there.) -/
theorem ess_psd_counterexample :
    ¬ (covMat (.ess (r 1) (r 1)) [[r 0, r 0], [r (3 / 4), r (Real.sqrt 7 / 4)], [r (3 / 2), r 0]]).PosSemidef := by
  intro hpsd
  have h7 : Real.sqrt 7 ^ 2 = 7 := Real.sq_sqrt (by norm_num)
  have hz : ∀ u : ℝ, u ^ (2 : ℤ) = u ^ 2 := fun u => by norm_cast
  -- the three distances
  have d01 : sqSum [r 0, r 0] [r (3 / 4), r (Real.sqrt 7 / 4)] = 1 := by
    simp only [sqSum, List.zip_cons_cons, List.zip_nil_right, List.map_cons, List.map_nil, List.sum_cons,
      List.sum_nil]
    nlinarith [h7]
  have d12 : sqSum [r (3 / 4), r (Real.sqrt 7 / 4)] [r (3 / 2), r 0] = 1 := by
    simp only [sqSum, List.zip_cons_cons, List.zip_nil_right, List.map_cons, List.map_nil, List.sum_cons,
      List.sum_nil]
    nlinarith [h7]
  have d02 : sqSum [r 0, r 0] [r (3 / 2), r 0] = (3 / 2) ^ 2 := by
    simp only [sqSum, List.zip_cons_cons, List.zip_nil_right, List.map_cons, List.map_nil, List.sum_cons,
      List.sum_nil]
    norm_num
  -- the covariance as a function of the squared distance
  have hcov : ∀ u v : List R, (cov (.ess (r 1) (r 1)) u v).val
      = Real.exp (-2 * Real.sin (π * Real.sqrt (sqSum u v)) ^ 2) := by
    intro u v
    simp only [cov, R.exp_val, R.mul_val, R.div_val, R.neg_val, R.powi_val, R.sin_val, R.pi_val, eucDist_val, lit2,
      hz]
    norm_num
  have c01 : (cov (.ess (r 1) (r 1)) [r 0, r 0] [r (3 / 4), r (Real.sqrt 7 / 4)]).val = 1 := by
    rw [hcov, d01]; simp
  have c12 : (cov (.ess (r 1) (r 1)) [r (3 / 4), r (Real.sqrt 7 / 4)] [r (3 / 2), r 0]).val = 1 := by
    rw [hcov, d12]; simp
  have c02 : (cov (.ess (r 1) (r 1)) [r 0, r 0] [r (3 / 2), r 0]).val = Real.exp (-2) := by
    rw [hcov, d02, Real.sqrt_sq (by norm_num)]
    have : Real.sin (π * (3 / 2)) = -1 := by
      have : π * (3 / 2) = π / 2 + π := by ring
      rw [this, Real.sin_add_pi, Real.sin_pi_div_two]
    rw [this]; norm_num
  have cself : ∀ u : List R, (cov (.ess (r 1) (r 1)) u u).val = 1 := by
    intro u; rw [hcov, sqSum_self]; simp
  -- the quadratic form at (1, -2, 1)
  obtain ⟨M, hMdef⟩ : ∃ M : Matrix (Fin 3) (Fin 3) ℝ,
      M = covMat (.ess (r 1) (r 1)) [[r 0, r 0], [r (3 / 4), r (Real.sqrt 7 / 4)], [r (3 / 2), r 0]] := ⟨_, rfl⟩
  have hM : M.PosSemidef := by rw [hMdef]; exact hpsd
  have e00 : M 0 0 = 1 := by rw [hMdef]; exact cself _
  have e11 : M 1 1 = 1 := by rw [hMdef]; exact cself _
  have e22 : M 2 2 = 1 := by rw [hMdef]; exact cself _
  have e01 : M 0 1 = 1 := by rw [hMdef]; exact c01
  have e10 : M 1 0 = 1 := by rw [hMdef]; exact (cov_symm _ _ _).trans c01
  have e12 : M 1 2 = 1 := by rw [hMdef]; exact c12
  have e21 : M 2 1 = 1 := by rw [hMdef]; exact (cov_symm _ _ _).trans c12
  have e02 : M 0 2 = Real.exp (-2) := by rw [hMdef]; exact c02
  have e20 : M 2 0 = Real.exp (-2) := by rw [hMdef]; exact (cov_symm _ _ _).trans c02
  have hq := hM.dotProduct_mulVec_nonneg ![1, -2, 1]
  simp only [dotProduct, mulVec, Fin.sum_univ_three, star_trivial, Matrix.cons_val_zero, Matrix.cons_val_one,
    Matrix.cons_val_two, Matrix.head_cons, Matrix.tail_cons, e00, e11, e22, e01, e10, e12, e21, e02, e20] at hq
  have hlt : Real.exp (-2) < 1 := by
    rw [Real.exp_lt_one_iff]; norm_num
  nlinarith [hq, hlt]

end C16

#print axioms C16.const_psd
#print axioms C16.white_psd
#print axioms C16.add_psd
#print axioms C16.mul_psd
#print axioms C16.cov_psd
#print axioms C16.covMat_symm
#print axioms C16.ess_psd_counterexample
