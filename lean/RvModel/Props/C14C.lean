import RvModel.RealInst
import RvModel.Hand.Bessel
import RvModel.Lemmas.C14Bessel
import Mathlib.Algebra.Order.Floor.Ring
import Mathlib.Tactic.Ring
import Mathlib.Tactic.Linarith
import Mathlib.Tactic.NormNum
/-!
  C14 (group C): decision table of `rv::misc::bessel::bessel_iv` (`/repo/src/misc/bessel.rs:207-255`) — which branch or
  which error for which `(v, z)` — on the hand model `Hand.Bessel.besselIvDispatch`, over exact reals (`R`);
  `C14L.eps = 2⁻⁵²` (`f64::EPSILON`).  The numerical accuracy of the kernels behind the `compute` outcome
  (Temme / uniform asymptotic expansion) is NOT proved; it is explored against the oracle by the correspondence check.
-/
open Hand.Bessel C14L

namespace C14

/-- NaN in ⇒ `Ok(NaN)` (any carrier; `bessel.rs:208-210`) -/
-- @site bessel_iv
theorem bessel_iv_nan {α : Type} [RealLike α] (v z : α)
    (h : RealLike.isNaN v = true ∨ RealLike.isNaN z = true) : besselIvDispatch v z = IvOut.okNaN := by
  unfold besselIvDispatch
  have : (RealLike.isNaN v || RealLike.isNaN z) = true := by
    rcases h with h | h <;> simp [h]
  rw [if_pos this]

private theorem disp_R (v z : R) : besselIvDispatch v z =
    if z.val < 0 ∧ eps < v.val - ⌊v.val⌋ then IvOut.err "OrderNotIntegerForNegativeZ"
    else if z.val = 0 then
      (if (ivOrder v).val = 0 then IvOut.okConst (1.0 : R)
       else if (ivOrder v).val < 0 then IvOut.err "Overflow" else IvOut.okConst (0.0 : R))
    else IvOut.compute (RealLike.gt (RealLike.abs (ivOrder v)) (50.0 : R)) (ivOrder v) (RealLike.abs z) (ivSign v z) := by
  unfold besselIvDispatch
  have hnan : (RealLike.isNaN v || RealLike.isNaN z) = false := rfl
  rw [hnan, if_neg (by simp)]
  have c1 : (RealLike.lt z (0.0 : R) && ivNotInteger v) = true ↔ (z.val < 0 ∧ eps < v.val - ⌊v.val⌋) := by
    rw [Bool.and_eq_true, R.lt_iff, lit0, ivNotInteger_iff]
  have c2 : RealLike.feq z (0.0 : R) = true ↔ z.val = 0 := by rw [R.feq_iff, lit0]
  have c3 : RealLike.feq (ivOrder v) (0.0 : R) = true ↔ (ivOrder v).val = 0 := by rw [R.feq_iff, lit0]
  have c4 : RealLike.lt (ivOrder v) (0.0 : R) = true ↔ (ivOrder v).val < 0 := by rw [R.lt_iff, lit0]
  simp only [c1, c2, c3, c4]

/-- negative `z` with an order that is not (within ε of) an integer is *signalled*:
    the result is `Err(OrderNotIntegerForNegativeZ)` **iff** `z < 0` and `v − ⌊v⌋ > ε`. -/
-- @site bessel_iv
theorem bessel_iv_err_iff (v z : R) :
    besselIvDispatch v z = IvOut.err "OrderNotIntegerForNegativeZ" ↔ (z.val < 0 ∧ eps < v.val - ⌊v.val⌋) := by
  rw [disp_R]
  constructor
  · intro h
    by_contra hc
    rw [if_neg hc] at h
    split_ifs at h
    all_goals simp at h
  · intro h; rw [if_pos h]

example : ((⟨-1⟩ : R).val < 0 ∧ eps < (⟨1 / 2⟩ : R).val - ⌊(⟨1 / 2⟩ : R).val⌋) := by
  refine ⟨by norm_num, ?_⟩
  have : ⌊(1 / 2 : ℝ)⌋ = 0 := by norm_num
  show eps < (1 / 2 : ℝ) - ⌊(1 / 2 : ℝ)⌋
  rw [this]; have := eps_lt_one; unfold eps at *; norm_num

/-- integer order `n` and `z < 0`: no error; the kernel is called with order `|n|` (reflection `I_{-n} = I_n`) and
    argument `|z|`, the result is multiplied by `(−1)^n` (sign rule `I_n(−x) = (−1)^n I_n(x)`), and the uniform
    asymptotic expansion is used iff `|n| > 50`. -/
-- @site bessel_iv
theorem bessel_iv_neg_z_integer (v z : R) (n : ℤ) (hv : v.val = n) (hz : z.val < 0) :
    besselIvDispatch v z =
      IvOut.compute (RealLike.gt (RealLike.abs (ivOrder v)) (50.0 : R)) (ivOrder v) (RealLike.abs z) (ivSign v z) ∧
    (ivOrder v).val = |(n : ℝ)| ∧ (RealLike.abs z).val = -z.val ∧ (ivSign v z).val = (-1 : ℝ) ^ n.natAbs ∧
    (RealLike.gt (RealLike.abs (ivOrder v)) (50.0 : R) = true ↔ 50 < |(n : ℝ)|) := by
  have hord := ivOrder_int v n hv
  have hfrac : v.val - ⌊v.val⌋ = 0 := by rw [hv, Int.floor_intCast]; ring
  refine ⟨?_, hord, ?_, ?_, ?_⟩
  · rw [disp_R, if_neg (fun h => absurd h.2 (by rw [hfrac]; exact not_lt.mpr (le_of_lt eps_pos))),
      if_neg (ne_of_lt hz)]
  · rw [R.abs_val, abs_of_neg hz]
  · unfold ivSign
    have : RealLike.lt z (0.0 : R) = true := by rw [R.lt_iff, lit0]; exact hz
    rw [if_pos this]
    apply ivParitySign_nat
    rw [hord, ← Int.cast_abs, Int.abs_eq_natAbs]; simp
  · unfold RealLike.gt
    rw [R.lt_iff, lit50, R.abs_val, hord, abs_abs]

example : ((⟨((-3 : ℤ) : ℝ)⟩ : R).val = ((-3 : ℤ) : ℝ) ∧ (⟨-2⟩ : R).val < 0) := ⟨rfl, by norm_num⟩

/-- `z = 0`: `I_0(0) = 1`; `I_v(0) = 0` for `v > 0` and for negative integer `v` (reflected);
    `Err(Overflow)` for negative `v` at distance ≥ ε above its floor (the function diverges there). -/
-- @site bessel_iv
theorem bessel_iv_zero (v z : R) (hz : z.val = 0) :
    (v.val = 0 → besselIvDispatch v z = IvOut.okConst (1.0 : R)) ∧
    (0 < v.val → besselIvDispatch v z = IvOut.okConst (0.0 : R)) ∧
    (∀ n : ℤ, n < 0 → v.val = n → besselIvDispatch v z = IvOut.okConst (0.0 : R)) ∧
    (v.val < 0 → eps ≤ v.val - ⌊v.val⌋ → besselIvDispatch v z = IvOut.err "Overflow") := by
  have hnz : ¬ (z.val < 0 ∧ eps < v.val - ⌊v.val⌋) := fun h => absurd h.1 (by rw [hz]; exact lt_irrefl 0)
  refine ⟨?_, ?_, ?_, ?_⟩
  · intro h0
    have : (ivOrder v).val = 0 := by
      rw [ivOrder_val, h0]; simp
    rw [disp_R, if_neg hnz, if_pos hz, if_pos this]
  · intro hpos
    have : (ivOrder v).val = v.val := by
      rw [ivOrder_val, if_neg (fun h => absurd h.1 (not_lt.mpr (le_of_lt hpos)))]
    rw [disp_R, if_neg hnz, if_pos hz, if_neg (by rw [this]; exact ne_of_gt hpos),
      if_neg (by rw [this]; exact not_lt.mpr (le_of_lt hpos))]
  · intro n hn hv
    have hord := ivOrder_int v n hv
    have hnR : (n : ℝ) < 0 := by exact_mod_cast hn
    have hpos : 0 < (ivOrder v).val := by rw [hord]; exact abs_pos.mpr (ne_of_lt hnR)
    rw [disp_R, if_neg hnz, if_pos hz, if_neg (ne_of_gt hpos), if_neg (not_lt.mpr (le_of_lt hpos))]
  · intro hneg hfrac
    have : (ivOrder v).val = v.val := by
      rw [ivOrder_val, if_neg (fun h => absurd h.2 (not_lt.mpr hfrac))]
    rw [disp_R, if_neg hnz, if_pos hz, if_neg (by rw [this]; exact ne_of_lt hneg), if_pos (by rw [this]; exact hneg)]

example : ((⟨0⟩ : R).val = 0) := rfl

/-- `z > 0`: never an error from the dispatcher; sign `+1`, argument `z`; the order passed to the kernel is `v`,
    except negative `v` within ε above an integer, which is reflected to `−v`; asymptotic kernel iff `|v| > 50`. -/
-- @site bessel_iv
theorem bessel_iv_pos_z (v z : R) (hz : 0 < z.val) :
    besselIvDispatch v z =
      IvOut.compute (RealLike.gt (RealLike.abs (ivOrder v)) (50.0 : R)) (ivOrder v) (RealLike.abs z) (ivSign v z) ∧
    (ivOrder v).val = (if v.val < 0 ∧ v.val - ⌊v.val⌋ < eps then -v.val else v.val) ∧
    (RealLike.abs z).val = z.val ∧ (ivSign v z).val = 1 ∧
    (RealLike.gt (RealLike.abs (ivOrder v)) (50.0 : R) = true ↔ 50 < |v.val|) := by
  refine ⟨?_, ivOrder_val v, ?_, ?_, ?_⟩
  · rw [disp_R, if_neg (fun h => absurd h.1 (not_lt.mpr (le_of_lt hz))), if_neg (ne_of_gt hz)]
  · rw [R.abs_val, abs_of_pos hz]
  · unfold ivSign
    have : ¬ RealLike.lt z (0.0 : R) = true := by rw [R.lt_iff, lit0]; exact not_lt.mpr (le_of_lt hz)
    rw [if_neg this, lit1]
  · unfold RealLike.gt
    rw [R.lt_iff, lit50, R.abs_val, ivOrder_val]
    split_ifs <;> simp [abs_neg]

example : (0 < (⟨3⟩ : R).val) := by norm_num

/-! ### continuity of `i0`, `i1` across their internal switch `|x| = 8` -/

private theorem i0_sw_ok : switchSqOk (1 / 10 ^ 16) i0A8 i0B8 = true := by decide +kernel
private theorem i1_sw_ok : switchSqOk (5 / 10 ^ 16) i1A8 i1B8 = true := by decide +kernel

/-- `i0` (`bessel.rs:141-151`): at `|x| = 8` the branch `≤ 8` gives `e⁸·A` with `A = chbevl(2, BESSI0_COEFFS_A)`, the
    limit of the branch `> 8` is `e⁸·B/√8` with `B = chbevl(2, BESSI0_COEFFS_B)`; in exact arithmetic on the binary64
    coefficients the two agree to a relative 10⁻¹⁶:  `|A − B/√8| ≤ 10⁻¹⁶·A`. -/
-- @site i0
theorem i0_switch_continuous : |((i0A8 : ℚ) : ℝ) - ((i0B8 : ℚ) : ℝ) / Real.sqrt 8| ≤ 1 / 10 ^ 16 * ((i0A8 : ℚ) : ℝ) := by
  have h := switchSq_sound (1 / 10 ^ 16) i0A8 i0B8 (by norm_num) (by norm_num) i0_sw_ok
  push_cast at h
  exact h

/-- `i1` (`bessel.rs:154-165`) at `x = 8`: `e⁸·8·chbevl(2, BESSI1_COEFFS_A)` vs `e⁸·chbevl(2, BESSI1_COEFFS_B)/√8`
    agree to a relative 5·10⁻¹⁶ (measured 4.3·10⁻¹⁶; the bound 10⁻¹⁶ is false). -/
-- @site i1
theorem i1_switch_continuous : |((i1A8 : ℚ) : ℝ) - ((i1B8 : ℚ) : ℝ) / Real.sqrt 8| ≤ 5 / 10 ^ 16 * ((i1A8 : ℚ) : ℝ) := by
  have h := switchSq_sound (5 / 10 ^ 16) i1A8 i1B8 (by norm_num) (by norm_num) i1_sw_ok
  push_cast at h
  exact h

end C14

#print axioms C14.bessel_iv_nan
#print axioms C14.bessel_iv_err_iff
#print axioms C14.bessel_iv_neg_z_integer
#print axioms C14.bessel_iv_zero
#print axioms C14.bessel_iv_pos_z
#print axioms C14.i0_switch_continuous
#print axioms C14.i1_switch_continuous
