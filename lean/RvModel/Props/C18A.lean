import RvModel.Hand.CacheSM
/-!
  C18 — serialisation and parameter extraction round-trip without changing behaviour.

  Record model: `ser t` is the ordered list of non-skipped (field, value) pairs; `de` rebuilds the record with every
  skipped field at its default (an EMPTY cache).  Generic theorem: if every cache field is skipped, every parameter
  field is serialised and no derived field is, then `de (ser t)` has the parameters of `t` and empty caches —
  whatever the cache state of `t` was (cold, warm, or warmed before a parameter change) — hence by C09
  (`C09.history_fresh`) every query on it equals the query on `t`.  Per type the side conditions are facts extracted
  from the serde attributes in /repo/src on every run and checked by `decide`.
-/
open CacheSM GenFacts

namespace C18

/-- the record model of serialisation: keep the listed fields -/
def ser {V : Type} (serialized : List Nat) (s : State V) : List (Nat × V) :=
  serialized.map (fun f => (f, s.params f))

/-- deserialisation: parameters from the document (missing ones from `dflt`), every cache empty -/
def de {V : Type} (dflt : Nat → V) (doc : List (Nat × V)) : State V :=
  { params := fun f => match doc.find? (fun p => p.1 == f) with
      | some p => p.2
      | none => dflt f,
    stored := fun _ => none }

-- @site serde
/-- every serialised parameter survives the round trip, whatever the caches held -/
theorem roundtrip_params {V : Type} (serialized : List Nat) (dflt : Nat → V) (s : State V) (f : Nat)
    (hf : f ∈ serialized) : (de dflt (ser serialized s)).params f = s.params f := by
  simp only [de, ser]
  have : (List.map (fun f => (f, s.params f)) serialized).find? (fun p => p.1 == f) = some (f, s.params f) := by
    induction serialized with
    | nil => simp at hf
    | cons g gs ih =>
      simp only [List.map_cons, List.find?_cons]
      by_cases hg : g = f
      · subst hg; simp
      · have : (g == f) = false := by simpa using hg
        simp only [this]
        exact ih (by simpa [Ne.symm hg] using hf)
  rw [this]

-- @site serde
/-- caches are rebuilt, never carried over: the deserialised object starts with empty caches, so it satisfies the
    freshness invariant of C09 for ANY previous cache content of the original -/
theorem roundtrip_inv {V : Type} (sp : Spec V) (serialized : List Nat) (dflt : Nat → V) (s : State V) :
    Inv sp (de dflt (ser serialized s)) := by
  intro c v h; simp [de] at h

-- @site serde
/-- a query on the deserialised object returns what a fresh object with the original parameters returns, provided
    the initialiser only reads serialised fields -/
theorem roundtrip_query {V : Type} (sp : Spec V) (hdep : Dep sp) (serialized : List Nat) (dflt : Nat → V) (s : State V) (c : Nat)
    (hreads : ∀ f, f ∈ sp.reads c → f ∈ serialized) :
    (step sp (de dflt (ser serialized s)) (.query c)).2 = some (sp.init c s.params) := by
  have h1 : (step sp (de dflt (ser serialized s)) (.query c)).2 = some (sp.init c (de dflt (ser serialized s)).params) := by
    simp [step, de]
  rw [h1]
  congr 1
  apply hdep
  intro f hf
  exact roundtrip_params serialized dflt s f (hreads f hf)

example : (de (fun _ => 0) (ser [0, 1] ⟨fun f => f + 5, fun _ => some 9⟩)).params 1 = 6 := by decide

/-! ### per type: the serde facts extracted from today's source -/

-- @site AddKernel
theorem AddKernel_serde : serdeB GenFacts.AddKernel = true := by decide
-- @site Bernoulli
theorem Bernoulli_serde : serdeB GenFacts.Bernoulli = true := by decide
-- @site BernoulliSuffStat
theorem BernoulliSuffStat_serde : serdeB GenFacts.BernoulliSuffStat = true := by decide
-- @site Beta
theorem Beta_serde : serdeB GenFacts.Beta = true := by decide
-- @site BetaBinomial
theorem BetaBinomial_serde : serdeB GenFacts.BetaBinomial = true := by decide
-- @site BetaSuffStat
theorem BetaSuffStat_serde : serdeB GenFacts.BetaSuffStat = true := by decide
-- @site Binomial
theorem Binomial_serde : serdeB GenFacts.Binomial = true := by decide
-- @site Categorical
theorem Categorical_serde : serdeB GenFacts.Categorical = true := by decide
-- @site CategoricalSuffStat
theorem CategoricalSuffStat_serde : serdeB GenFacts.CategoricalSuffStat = true := by decide
-- @site Cauchy
theorem Cauchy_serde : serdeB GenFacts.Cauchy = true := by decide
-- @site ChiSquared
theorem ChiSquared_serde : serdeB GenFacts.ChiSquared = true := by decide
-- @site ConstantKernel
theorem ConstantKernel_serde : serdeB GenFacts.ConstantKernel = true := by decide
-- @site CovGrad
theorem CovGrad_serde : serdeB GenFacts.CovGrad = true := by decide
-- @site Crp
theorem Crp_serde : serdeB GenFacts.Crp = true := by decide
-- @site Dirichlet
theorem Dirichlet_serde : serdeB GenFacts.Dirichlet = true := by decide
-- @site DiscreteUniform
theorem DiscreteUniform_serde : serdeB GenFacts.DiscreteUniform = true := by decide
-- @site Empirical
/-- FINDING: a derived quantity is serialised -/
theorem Empirical_serde_counterexample : serdeB GenFacts.Empirical = false := by decide
-- @site ExpSineSquaredKernel
theorem ExpSineSquaredKernel_serde : serdeB GenFacts.ExpSineSquaredKernel = true := by decide
-- @site Exponential
theorem Exponential_serde : serdeB GenFacts.Exponential = true := by decide
-- @site Gamma
theorem Gamma_serde : serdeB GenFacts.Gamma = true := by decide
-- @site Gaussian
theorem Gaussian_serde : serdeB GenFacts.Gaussian = true := by decide
-- @site GaussianProcess
/-- FINDING: `alpha = K⁻¹ y` (derived from the training targets by `train`) is serialised, with `k_chol` and `k_inv` -/
theorem GaussianProcess_serde_counterexample : serdeB GenFacts.GaussianProcess = false := by decide
-- @site GaussianSuffStat
theorem GaussianSuffStat_serde : serdeB GenFacts.GaussianSuffStat = true := by decide
-- @site Geometric
theorem Geometric_serde : serdeB GenFacts.Geometric = true := by decide
-- @site Gev
theorem Gev_serde : serdeB GenFacts.Gev = true := by decide
-- @site InvChiSquared
theorem InvChiSquared_serde : serdeB GenFacts.InvChiSquared = true := by decide
-- @site InvGamma
theorem InvGamma_serde : serdeB GenFacts.InvGamma = true := by decide
-- @site InvGammaSuffStat
theorem InvGammaSuffStat_serde : serdeB GenFacts.InvGammaSuffStat = true := by decide
-- @site InvGaussian
theorem InvGaussian_serde : serdeB GenFacts.InvGaussian = true := by decide
-- @site InvGaussianSuffStat
theorem InvGaussianSuffStat_serde : serdeB GenFacts.InvGaussianSuffStat = true := by decide
-- @site InvWishart
theorem InvWishart_serde : serdeB GenFacts.InvWishart = true := by decide
-- @site KsTwoAsymptotic
theorem KsTwoAsymptotic_serde : serdeB GenFacts.KsTwoAsymptotic = true := by decide
-- @site Kumaraswamy
theorem Kumaraswamy_serde : serdeB GenFacts.Kumaraswamy = true := by decide
-- @site Laplace
theorem Laplace_serde : serdeB GenFacts.Laplace = true := by decide
-- @site LogNormal
theorem LogNormal_serde : serdeB GenFacts.LogNormal = true := by decide
-- @site MaternKernel
theorem MaternKernel_serde : serdeB GenFacts.MaternKernel = true := by decide
-- @site MvGaussian
theorem MvGaussian_serde : serdeB GenFacts.MvGaussian = true := by decide
-- @site MvGaussianSuffStat
theorem MvGaussianSuffStat_serde : serdeB GenFacts.MvGaussianSuffStat = true := by decide
-- @site NegBinomial
theorem NegBinomial_serde : serdeB GenFacts.NegBinomial = true := by decide
-- @site NormalGamma
theorem NormalGamma_serde : serdeB GenFacts.NormalGamma = true := by decide
-- @site NormalInvChiSquared
theorem NormalInvChiSquared_serde : serdeB GenFacts.NormalInvChiSquared = true := by decide
-- @site NormalInvGamma
theorem NormalInvGamma_serde : serdeB GenFacts.NormalInvGamma = true := by decide
-- @site NormalInvWishart
theorem NormalInvWishart_serde : serdeB GenFacts.NormalInvWishart = true := by decide
-- @site Pareto
theorem Pareto_serde : serdeB GenFacts.Pareto = true := by decide
-- @site Partition
theorem Partition_serde : serdeB GenFacts.Partition = true := by decide
-- @site Poisson
theorem Poisson_serde : serdeB GenFacts.Poisson = true := by decide
-- @site PoissonSuffStat
theorem PoissonSuffStat_serde : serdeB GenFacts.PoissonSuffStat = true := by decide
-- @site ProductKernel
theorem ProductKernel_serde : serdeB GenFacts.ProductKernel = true := by decide
-- @site RBFKernel
theorem RBFKernel_serde : serdeB GenFacts.RBFKernel = true := by decide
-- @site RationalQuadratic
theorem RationalQuadratic_serde : serdeB GenFacts.RationalQuadratic = true := by decide
-- @site SEardKernel
theorem SEardKernel_serde : serdeB GenFacts.SEardKernel = true := by decide
-- @site ScaledInvChiSquared
theorem ScaledInvChiSquared_serde : serdeB GenFacts.ScaledInvChiSquared = true := by decide
-- @site Skellam
theorem Skellam_serde : serdeB GenFacts.Skellam = true := by decide
-- @site StickBreaking
theorem StickBreaking_serde : serdeB GenFacts.StickBreaking = true := by decide
-- @site StickBreakingDiscrete
theorem StickBreakingDiscrete_serde : serdeB GenFacts.StickBreakingDiscrete = true := by decide
-- @site StickBreakingDiscreteSuffStat
theorem StickBreakingDiscreteSuffStat_serde : serdeB GenFacts.StickBreakingDiscreteSuffStat = true := by decide
-- @site StickBreakingSuffStat
theorem StickBreakingSuffStat_serde : serdeB GenFacts.StickBreakingSuffStat = true := by decide
-- @site StickSequence
theorem StickSequence_serde : serdeB GenFacts.StickSequence = true := by decide
-- @site StickSequenceFmt
theorem StickSequenceFmt_serde : serdeB GenFacts.StickSequenceFmt = true := by decide
-- @site StudentsT
theorem StudentsT_serde : serdeB GenFacts.StudentsT = true := by decide
-- @site SymmetricDirichlet
theorem SymmetricDirichlet_serde : serdeB GenFacts.SymmetricDirichlet = true := by decide
-- @site Uniform
theorem Uniform_serde : serdeB GenFacts.Uniform = true := by decide
-- @site UnitPowerLaw
theorem UnitPowerLaw_serde : serdeB GenFacts.UnitPowerLaw = true := by decide
-- @site UnitPowerLawSuffStat
theorem UnitPowerLawSuffStat_serde : serdeB GenFacts.UnitPowerLawSuffStat = true := by decide
-- @site VonMises
/-- FINDING: a derived quantity is serialised -/
theorem VonMises_serde_counterexample : serdeB GenFacts.VonMises = false := by decide
-- @site WhiteKernel
theorem WhiteKernel_serde : serdeB GenFacts.WhiteKernel = true := by decide
-- @site _Inner
theorem _Inner_serde : serdeB GenFacts._Inner = true := by decide

-- @site NoiseModel
/-- every enum that derives `Serialize` (NoiseModel and the error enums) renames its variants to snake_case — the
    documented spelling (`per_point`, `uniform`); the list is extracted from /repo/src on every run -/
theorem enums_snake_case : GenFacts.enums.all (fun e => !e.2.1 || e.2.2) = true := by decide

example : ("NoiseModel", true, true) ∈ GenFacts.enums := by decide

end C18

#print axioms C18.roundtrip_params
#print axioms C18.roundtrip_inv
#print axioms C18.roundtrip_query
#print axioms C18.enums_snake_case
