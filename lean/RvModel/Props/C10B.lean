import RvModel.ExtInst
import RvModel.Gen.Defs
import RvModel.Spec.C10
import RvModel.Lemmas.C10
import Mathlib.Tactic.NormNum.OfScientific
import Mathlib.Tactic.Linarith
import Mathlib.Tactic.SplitIfs
/-!
  C10 (part B): checked constructors and setters accept exactly the documented domain — carrier `X`
  (NaN, ±inf and "comparisons with NaN are false" are in the model).  Distributions: NormalGamma, NormalInvGamma, NormalInvChiSquared, Pareto, Poisson, ScaledInvChiSquared, Skellam, StudentsT, UnitPowerLaw, VonMises, SymmetricDirichlet.

  Per distribution `D` (argument order = documented order of `D::new`):
  * `D_new_ok_iff`          `(∃ d, new θ = .ok d) ↔ Spec.D.Valid θ` for ALL `θ` (case split on `nan|ninf|pinf|fin`);
  * `D_new_ok_fields`, `D_new_eq_unchecked`, `D_new_inv`;
  * `D_new_err_offending`   the error names an argument that is outside its domain, with its value as payload;
  * `D_new_err_first`       … and it is the FIRST such argument; where the code checks in another order:
                            `D_new_err_first_partial` + `D_new_err_order_counterexample` (witness checked on the real code);
  * `D_set_p_ok_iff / _err / _ok_fields / _atomic / _inv`, `D_build_eq` (setters ≡ `new`),
    `D_from_emit`, `D_new_eq_from_params`.
  "Never panics" is structural: every generated function is a total `Except`-valued function.
  `-- @site` names the generated definition a theorem is about.  Spec: `Spec/C10.lean` (from the rustdoc);
  tactics (`c10_close`, `c10_eval`, `c10_spec`, `c10_elem`) and the `try_for_each` lemmas: `Lemmas/C10.lean`.

  Proof pattern (robust against harmless rewrites of the Rust validation ladders): per distribution the generated
  definitions are section-local simp lemmas; semantic theorems split every `X` argument into `nan|ninf|pinf|fin r`
  and close by `simp` + linear arithmetic; structural theorems (`_ok_fields`, `_atomic`, …) only split the `if`s.
-/
set_option linter.unusedSimpArgs false
set_option linter.unnecessarySeqFocus false
set_option linter.unreachableTactic false
set_option linter.unusedTactic false
set_option linter.unusedVariables false
open X

namespace C10

attribute [local simp] Spec.C10.IsFin Spec.C10.IsPos Spec.C10.IsUnit Spec.C10.IsPosLeOne Spec.C10.IsGeOne
  Spec.C10.IsCircle Spec.C10.IsLt Spec.C10.IsNonneg

/-! ## NormalGamma  (`src/dist/normal_gamma.rs`) -/
section NormalGamma
attribute [local simp] Gen.NormalGamma.emit_params Gen.NormalGamma.from_params Gen.NormalGamma.get_m Gen.NormalGamma.get_r Gen.NormalGamma.get_s Gen.NormalGamma.get_v Gen.NormalGamma.new Gen.NormalGamma.new_unchecked Gen.NormalGamma.set_m Gen.NormalGamma.set_m_unchecked Gen.NormalGamma.set_r Gen.NormalGamma.set_r_unchecked Gen.NormalGamma.set_s Gen.NormalGamma.set_s_unchecked Gen.NormalGamma.set_v Gen.NormalGamma.set_v_unchecked Spec.NormalGamma.Valid Spec.NormalGamma.Inv

-- @site NormalGamma.new
/-- `NormalGamma::new` succeeds iff every parameter is in the documented domain — for ALL values incl. NaN, ±inf -/
theorem NormalGamma_new_ok_iff (m : X) (r : X) (s : X) (v : X) :
    (∃ d, Gen.NormalGamma.new m r s v = .ok d) ↔ Spec.NormalGamma.Valid m r s v := by
  rcases m with _|_|_|m <;> (try simp) <;>
    rcases r with _|_|_|r <;> (try simp) <;>
    rcases s with _|_|_|s <;> (try simp) <;>
    rcases v with _|_|_|v <;>
    (try simp) <;> c10_close

example : ∃ d, Gen.NormalGamma.new (fin (-1)) (fin 2) (fin 2) (fin 2) = .ok d := (NormalGamma_new_ok_iff ..).mpr (by c10_spec [Spec.NormalGamma.Valid])

example : ¬ ∃ d, Gen.NormalGamma.new (nan) (fin 2) (fin 2) (fin 2) = .ok d := by rw [NormalGamma_new_ok_iff]; c10_spec [Spec.NormalGamma.Valid]

-- @site NormalGamma.new
/-- on success the object carries exactly the given parameters -/
theorem NormalGamma_new_ok_fields (m : X) (r : X) (s : X) (v : X) (d : Gen.NormalGamma X) :
    Gen.NormalGamma.new m r s v = .ok d → d = ({ m := m, r := r, s := s, v := v } : Gen.NormalGamma X) := by
  simp only [Gen.NormalGamma.emit_params, Gen.NormalGamma.from_params, Gen.NormalGamma.get_m, Gen.NormalGamma.get_r, Gen.NormalGamma.get_s, Gen.NormalGamma.get_v, Gen.NormalGamma.new, Gen.NormalGamma.new_unchecked, Gen.NormalGamma.set_m, Gen.NormalGamma.set_m_unchecked, Gen.NormalGamma.set_r, Gen.NormalGamma.set_r_unchecked, Gen.NormalGamma.set_s, Gen.NormalGamma.set_s_unchecked, Gen.NormalGamma.set_v, Gen.NormalGamma.set_v_unchecked]
  split_ifs <;> simp <;> c10_close

example : Gen.NormalGamma.new (fin (-1)) (fin 2) (fin 2) (fin 2) = .ok ({ m := fin (-1), r := fin 2, s := fin 2, v := fin 2 } : Gen.NormalGamma X) := by c10_eval []

-- @site NormalGamma.new
/-- checked and unchecked constructors build the same object -/
theorem NormalGamma_new_eq_unchecked (m : X) (r : X) (s : X) (v : X) (d : Gen.NormalGamma X) :
    Gen.NormalGamma.new m r s v = .ok d → d = Gen.NormalGamma.new_unchecked m r s v := by
  simp only [Gen.NormalGamma.emit_params, Gen.NormalGamma.from_params, Gen.NormalGamma.get_m, Gen.NormalGamma.get_r, Gen.NormalGamma.get_s, Gen.NormalGamma.get_v, Gen.NormalGamma.new, Gen.NormalGamma.new_unchecked, Gen.NormalGamma.set_m, Gen.NormalGamma.set_m_unchecked, Gen.NormalGamma.set_r, Gen.NormalGamma.set_r_unchecked, Gen.NormalGamma.set_s, Gen.NormalGamma.set_s_unchecked, Gen.NormalGamma.set_v, Gen.NormalGamma.set_v_unchecked]
  split_ifs <;> simp <;> c10_close

example : Gen.NormalGamma.new (fin (-1)) (fin 2) (fin 2) (fin 2) = .ok (Gen.NormalGamma.new_unchecked (fin (-1)) (fin 2) (fin 2) (fin 2)) := by c10_eval []

-- @site NormalGamma.new
/-- an object obtained from the checked constructor satisfies the parameter invariant -/
theorem NormalGamma_new_inv (m : X) (r : X) (s : X) (v : X) (d : Gen.NormalGamma X) :
    Gen.NormalGamma.new m r s v = .ok d → Spec.NormalGamma.Inv d := by
  intro h
  rw [NormalGamma_new_ok_fields m r s v d h]
  exact (NormalGamma_new_ok_iff m r s v).mp ⟨d, h⟩

example : Spec.NormalGamma.Inv ({ m := fin (-1), r := fin 2, s := fin 2, v := fin 2 } : Gen.NormalGamma X) := NormalGamma_new_inv (fin (-1)) (fin 2) (fin 2) (fin 2) _ (by c10_eval [])

-- @site NormalGamma.new
/-- on failure the error names an argument that IS outside its documented domain and carries its value -/
theorem NormalGamma_new_err_offending (m : X) (r : X) (s : X) (v : X) (e : Err X) :
    Gen.NormalGamma.new m r s v = .error e →
     (¬ Spec.C10.IsFin m ∧ (e = Err.mk "MNotFinite" [m])) ∨
     (¬ Spec.C10.IsPos r ∧ (e = Err.mk "RTooLow" [r] ∨ e = Err.mk "RNotFinite" [r])) ∨
     (¬ Spec.C10.IsPos s ∧ (e = Err.mk "STooLow" [s] ∨ e = Err.mk "SNotFinite" [s])) ∨
     (¬ Spec.C10.IsPos v ∧ (e = Err.mk "VTooLow" [v] ∨ e = Err.mk "VNotFinite" [v])) := by
  rcases m with _|_|_|m <;> (try simp) <;>
    rcases r with _|_|_|r <;> (try simp) <;>
    rcases s with _|_|_|s <;> (try simp) <;>
    rcases v with _|_|_|v <;>
    (try simp) <;> c10_close

example : ∃ e, Gen.NormalGamma.new (nan) (fin 2) (fin 2) (fin 2) = .error e := by c10_eval []

/- FULL STATEMENT (false, see the counterexample below — the code first tests the finiteness of all four arguments and only then the signs of r, s, v):
   theorem NormalGamma_new_err_first (m : X) (r : X) (s : X) (v : X) (e : Err X) :
     Gen.NormalGamma.new m r s v = .error e →
     (¬ Spec.C10.IsFin m → (e = Err.mk "MNotFinite" [m])) ∧
     (Spec.C10.IsFin m → ¬ Spec.C10.IsPos r → (e = Err.mk "RTooLow" [r] ∨ e = Err.mk "RNotFinite" [r])) ∧
     (Spec.C10.IsFin m → Spec.C10.IsPos r → ¬ Spec.C10.IsPos s → (e = Err.mk "STooLow" [s] ∨ e = Err.mk "SNotFinite" [s])) ∧
     (Spec.C10.IsFin m → Spec.C10.IsPos r → Spec.C10.IsPos s → ¬ Spec.C10.IsPos v → (e = Err.mk "VTooLow" [v] ∨ e = Err.mk "VNotFinite" [v]))
-/

-- @site NormalGamma.new
/-- first-offending-argument order holds only under the extra hypotheses; the code first tests the finiteness of all four arguments and only then the signs of r, s, v -/
theorem NormalGamma_new_err_first_partial (m : X) (r : X) (s : X) (v : X) (e : Err X) :
    Spec.C10.IsFin r → Spec.C10.IsFin s → Spec.C10.IsFin v → Gen.NormalGamma.new m r s v = .error e →
     (¬ Spec.C10.IsFin m → (e = Err.mk "MNotFinite" [m])) ∧
     (Spec.C10.IsFin m → ¬ Spec.C10.IsPos r → (e = Err.mk "RTooLow" [r] ∨ e = Err.mk "RNotFinite" [r])) ∧
     (Spec.C10.IsFin m → Spec.C10.IsPos r → ¬ Spec.C10.IsPos s → (e = Err.mk "STooLow" [s] ∨ e = Err.mk "SNotFinite" [s])) ∧
     (Spec.C10.IsFin m → Spec.C10.IsPos r → Spec.C10.IsPos s → ¬ Spec.C10.IsPos v → (e = Err.mk "VTooLow" [v] ∨ e = Err.mk "VNotFinite" [v])) := by
  rcases m with _|_|_|m <;> (try simp) <;>
    rcases r with _|_|_|r <;> (try simp) <;>
    rcases s with _|_|_|s <;> (try simp) <;>
    rcases v with _|_|_|v <;>
    (try simp) <;> c10_close

example : ∃ e, Gen.NormalGamma.new (fin (-1)) (fin 2) (fin 2) (fin 0) = .error e := by c10_eval []

-- @site NormalGamma.new
/-- DEFECT (order clause only): an earlier argument is invalid but the error names a later one; the code first tests the finiteness of all four arguments and only then the signs of r, s, v -/
theorem NormalGamma_new_err_order_counterexample :
    ¬ Spec.C10.IsPos (fin (-1) : X) ∧
    Gen.NormalGamma.new (fin 0) (fin (-1)) (nan) (fin 1) = .error (Err.mk "SNotFinite" [nan] : Err X) := by
  c10_eval []

-- @site NormalGamma.set_m
/-- `set_m` succeeds iff the new value is in the documented domain of `m` (finite) -/
theorem NormalGamma_set_m_ok_iff (d : Gen.NormalGamma X) (v : X) :
    (∃ d', Gen.NormalGamma.set_m d v = .ok d') ↔ Spec.C10.IsFin v := by
  rcases v with _|_|_|v <;>
    simp <;> c10_close

example : ∃ d', Gen.NormalGamma.set_m ({ m := fin (-1), r := fin 2, s := fin 2, v := fin 2 } : Gen.NormalGamma X) (fin 5) = .ok d' := (NormalGamma_set_m_ok_iff ..).mpr (by c10_spec [])

-- @site NormalGamma.set_m
/-- on failure the error carries the offending value -/
theorem NormalGamma_set_m_err (d : Gen.NormalGamma X) (v : X) (e : Err X) :
    Gen.NormalGamma.set_m d v = .error e → ¬ Spec.C10.IsFin v ∧ (e = Err.mk "MNotFinite" [v]) := by
  rcases v with _|_|_|v <;>
    simp <;> c10_close

example : ∃ e, Gen.NormalGamma.set_m ({ m := fin (-1), r := fin 2, s := fin 2, v := fin 2 } : Gen.NormalGamma X) (nan) = .error e := by c10_eval []

-- @site NormalGamma.set_m
/-- on success only that field (and its cache) changes; same object as the unchecked setter -/
theorem NormalGamma_set_m_ok_fields (d d' : Gen.NormalGamma X) (v : X) :
    Gen.NormalGamma.set_m d v = .ok d' → d' = { d with m := v } ∧ d' = Gen.NormalGamma.set_m_unchecked d v := by
  simp only [Gen.NormalGamma.emit_params, Gen.NormalGamma.from_params, Gen.NormalGamma.get_m, Gen.NormalGamma.get_r, Gen.NormalGamma.get_s, Gen.NormalGamma.get_v, Gen.NormalGamma.new, Gen.NormalGamma.new_unchecked, Gen.NormalGamma.set_m, Gen.NormalGamma.set_m_unchecked, Gen.NormalGamma.set_r, Gen.NormalGamma.set_r_unchecked, Gen.NormalGamma.set_s, Gen.NormalGamma.set_s_unchecked, Gen.NormalGamma.set_v, Gen.NormalGamma.set_v_unchecked]
  split_ifs <;> simp <;> c10_close

example : Gen.NormalGamma.set_m ({ m := fin (-1), r := fin 2, s := fin 2, v := fin 2 } : Gen.NormalGamma X) (fin 5) = .ok ({ m := fin 5, r := fin 2, s := fin 2, v := fin 2 } : Gen.NormalGamma X) := by c10_eval []

-- @site NormalGamma.set_m
/-- failure atomicity (structural): either an error without a new state, or exactly the updated state -/
theorem NormalGamma_set_m_atomic (d : Gen.NormalGamma X) (v : X) :
    (∃ e, Gen.NormalGamma.set_m d v = .error e) ∨ (∃ d', Gen.NormalGamma.set_m d v = .ok d' ∧ d' = { d with m := v }) := by
  simp only [Gen.NormalGamma.emit_params, Gen.NormalGamma.from_params, Gen.NormalGamma.get_m, Gen.NormalGamma.get_r, Gen.NormalGamma.get_s, Gen.NormalGamma.get_v, Gen.NormalGamma.new, Gen.NormalGamma.new_unchecked, Gen.NormalGamma.set_m, Gen.NormalGamma.set_m_unchecked, Gen.NormalGamma.set_r, Gen.NormalGamma.set_r_unchecked, Gen.NormalGamma.set_s, Gen.NormalGamma.set_s_unchecked, Gen.NormalGamma.set_v, Gen.NormalGamma.set_v_unchecked]
  split_ifs <;> simp <;> c10_close

example : ∃ e, Gen.NormalGamma.set_m ({ m := fin (-1), r := fin 2, s := fin 2, v := fin 2 } : Gen.NormalGamma X) (nan) = .error e := by c10_eval []

-- @site NormalGamma.set_m
/-- a successful checked setter preserves the parameter invariant -/
theorem NormalGamma_set_m_inv (d d' : Gen.NormalGamma X) (v : X) :
    Spec.NormalGamma.Inv d → Gen.NormalGamma.set_m d v = .ok d' → Spec.NormalGamma.Inv d' := by
  rcases d with ⟨f0, f1, f2, f3⟩
  rcases v with _|_|_|v <;>
    simp <;> c10_close

example : Spec.NormalGamma.Inv ({ m := fin (-1), r := fin 2, s := fin 2, v := fin 2 } : Gen.NormalGamma X) := by c10_spec [Spec.NormalGamma.Inv, Spec.NormalGamma.Valid]

-- @site NormalGamma.set_r
/-- `set_r` succeeds iff the new value is in the documented domain of `r` (finite, > 0) -/
theorem NormalGamma_set_r_ok_iff (d : Gen.NormalGamma X) (v : X) :
    (∃ d', Gen.NormalGamma.set_r d v = .ok d') ↔ Spec.C10.IsPos v := by
  rcases v with _|_|_|v <;>
    simp <;> c10_close

example : ∃ d', Gen.NormalGamma.set_r ({ m := fin (-1), r := fin 2, s := fin 2, v := fin 2 } : Gen.NormalGamma X) (fin 7) = .ok d' := (NormalGamma_set_r_ok_iff ..).mpr (by c10_spec [])

-- @site NormalGamma.set_r
/-- on failure the error carries the offending value -/
theorem NormalGamma_set_r_err (d : Gen.NormalGamma X) (v : X) (e : Err X) :
    Gen.NormalGamma.set_r d v = .error e → ¬ Spec.C10.IsPos v ∧ (e = Err.mk "RTooLow" [v] ∨ e = Err.mk "RNotFinite" [v]) := by
  rcases v with _|_|_|v <;>
    simp <;> c10_close

example : ∃ e, Gen.NormalGamma.set_r ({ m := fin (-1), r := fin 2, s := fin 2, v := fin 2 } : Gen.NormalGamma X) (fin 0) = .error e := by c10_eval []

-- @site NormalGamma.set_r
/-- on success only that field (and its cache) changes; same object as the unchecked setter -/
theorem NormalGamma_set_r_ok_fields (d d' : Gen.NormalGamma X) (v : X) :
    Gen.NormalGamma.set_r d v = .ok d' → d' = { d with r := v } ∧ d' = Gen.NormalGamma.set_r_unchecked d v := by
  simp only [Gen.NormalGamma.emit_params, Gen.NormalGamma.from_params, Gen.NormalGamma.get_m, Gen.NormalGamma.get_r, Gen.NormalGamma.get_s, Gen.NormalGamma.get_v, Gen.NormalGamma.new, Gen.NormalGamma.new_unchecked, Gen.NormalGamma.set_m, Gen.NormalGamma.set_m_unchecked, Gen.NormalGamma.set_r, Gen.NormalGamma.set_r_unchecked, Gen.NormalGamma.set_s, Gen.NormalGamma.set_s_unchecked, Gen.NormalGamma.set_v, Gen.NormalGamma.set_v_unchecked]
  split_ifs <;> simp <;> c10_close

example : Gen.NormalGamma.set_r ({ m := fin (-1), r := fin 2, s := fin 2, v := fin 2 } : Gen.NormalGamma X) (fin 7) = .ok ({ m := fin (-1), r := fin 7, s := fin 2, v := fin 2 } : Gen.NormalGamma X) := by c10_eval []

-- @site NormalGamma.set_r
/-- failure atomicity (structural): either an error without a new state, or exactly the updated state -/
theorem NormalGamma_set_r_atomic (d : Gen.NormalGamma X) (v : X) :
    (∃ e, Gen.NormalGamma.set_r d v = .error e) ∨ (∃ d', Gen.NormalGamma.set_r d v = .ok d' ∧ d' = { d with r := v }) := by
  simp only [Gen.NormalGamma.emit_params, Gen.NormalGamma.from_params, Gen.NormalGamma.get_m, Gen.NormalGamma.get_r, Gen.NormalGamma.get_s, Gen.NormalGamma.get_v, Gen.NormalGamma.new, Gen.NormalGamma.new_unchecked, Gen.NormalGamma.set_m, Gen.NormalGamma.set_m_unchecked, Gen.NormalGamma.set_r, Gen.NormalGamma.set_r_unchecked, Gen.NormalGamma.set_s, Gen.NormalGamma.set_s_unchecked, Gen.NormalGamma.set_v, Gen.NormalGamma.set_v_unchecked]
  split_ifs <;> simp <;> c10_close

example : ∃ e, Gen.NormalGamma.set_r ({ m := fin (-1), r := fin 2, s := fin 2, v := fin 2 } : Gen.NormalGamma X) (fin 0) = .error e := by c10_eval []

-- @site NormalGamma.set_r
/-- a successful checked setter preserves the parameter invariant -/
theorem NormalGamma_set_r_inv (d d' : Gen.NormalGamma X) (v : X) :
    Spec.NormalGamma.Inv d → Gen.NormalGamma.set_r d v = .ok d' → Spec.NormalGamma.Inv d' := by
  rcases d with ⟨f0, f1, f2, f3⟩
  rcases v with _|_|_|v <;>
    simp <;> c10_close

example : Spec.NormalGamma.Inv ({ m := fin (-1), r := fin 2, s := fin 2, v := fin 2 } : Gen.NormalGamma X) := by c10_spec [Spec.NormalGamma.Inv, Spec.NormalGamma.Valid]

-- @site NormalGamma.set_s
/-- `set_s` succeeds iff the new value is in the documented domain of `s` (finite, > 0) -/
theorem NormalGamma_set_s_ok_iff (d : Gen.NormalGamma X) (v : X) :
    (∃ d', Gen.NormalGamma.set_s d v = .ok d') ↔ Spec.C10.IsPos v := by
  rcases v with _|_|_|v <;>
    simp <;> c10_close

example : ∃ d', Gen.NormalGamma.set_s ({ m := fin (-1), r := fin 2, s := fin 2, v := fin 2 } : Gen.NormalGamma X) (fin 7) = .ok d' := (NormalGamma_set_s_ok_iff ..).mpr (by c10_spec [])

-- @site NormalGamma.set_s
/-- on failure the error carries the offending value -/
theorem NormalGamma_set_s_err (d : Gen.NormalGamma X) (v : X) (e : Err X) :
    Gen.NormalGamma.set_s d v = .error e → ¬ Spec.C10.IsPos v ∧ (e = Err.mk "STooLow" [v] ∨ e = Err.mk "SNotFinite" [v]) := by
  rcases v with _|_|_|v <;>
    simp <;> c10_close

example : ∃ e, Gen.NormalGamma.set_s ({ m := fin (-1), r := fin 2, s := fin 2, v := fin 2 } : Gen.NormalGamma X) (fin 0) = .error e := by c10_eval []

-- @site NormalGamma.set_s
/-- on success only that field (and its cache) changes; same object as the unchecked setter -/
theorem NormalGamma_set_s_ok_fields (d d' : Gen.NormalGamma X) (v : X) :
    Gen.NormalGamma.set_s d v = .ok d' → d' = { d with s := v } ∧ d' = Gen.NormalGamma.set_s_unchecked d v := by
  simp only [Gen.NormalGamma.emit_params, Gen.NormalGamma.from_params, Gen.NormalGamma.get_m, Gen.NormalGamma.get_r, Gen.NormalGamma.get_s, Gen.NormalGamma.get_v, Gen.NormalGamma.new, Gen.NormalGamma.new_unchecked, Gen.NormalGamma.set_m, Gen.NormalGamma.set_m_unchecked, Gen.NormalGamma.set_r, Gen.NormalGamma.set_r_unchecked, Gen.NormalGamma.set_s, Gen.NormalGamma.set_s_unchecked, Gen.NormalGamma.set_v, Gen.NormalGamma.set_v_unchecked]
  split_ifs <;> simp <;> c10_close

example : Gen.NormalGamma.set_s ({ m := fin (-1), r := fin 2, s := fin 2, v := fin 2 } : Gen.NormalGamma X) (fin 7) = .ok ({ m := fin (-1), r := fin 2, s := fin 7, v := fin 2 } : Gen.NormalGamma X) := by c10_eval []

-- @site NormalGamma.set_s
/-- failure atomicity (structural): either an error without a new state, or exactly the updated state -/
theorem NormalGamma_set_s_atomic (d : Gen.NormalGamma X) (v : X) :
    (∃ e, Gen.NormalGamma.set_s d v = .error e) ∨ (∃ d', Gen.NormalGamma.set_s d v = .ok d' ∧ d' = { d with s := v }) := by
  simp only [Gen.NormalGamma.emit_params, Gen.NormalGamma.from_params, Gen.NormalGamma.get_m, Gen.NormalGamma.get_r, Gen.NormalGamma.get_s, Gen.NormalGamma.get_v, Gen.NormalGamma.new, Gen.NormalGamma.new_unchecked, Gen.NormalGamma.set_m, Gen.NormalGamma.set_m_unchecked, Gen.NormalGamma.set_r, Gen.NormalGamma.set_r_unchecked, Gen.NormalGamma.set_s, Gen.NormalGamma.set_s_unchecked, Gen.NormalGamma.set_v, Gen.NormalGamma.set_v_unchecked]
  split_ifs <;> simp <;> c10_close

example : ∃ e, Gen.NormalGamma.set_s ({ m := fin (-1), r := fin 2, s := fin 2, v := fin 2 } : Gen.NormalGamma X) (fin 0) = .error e := by c10_eval []

-- @site NormalGamma.set_s
/-- a successful checked setter preserves the parameter invariant -/
theorem NormalGamma_set_s_inv (d d' : Gen.NormalGamma X) (v : X) :
    Spec.NormalGamma.Inv d → Gen.NormalGamma.set_s d v = .ok d' → Spec.NormalGamma.Inv d' := by
  rcases d with ⟨f0, f1, f2, f3⟩
  rcases v with _|_|_|v <;>
    simp <;> c10_close

example : Spec.NormalGamma.Inv ({ m := fin (-1), r := fin 2, s := fin 2, v := fin 2 } : Gen.NormalGamma X) := by c10_spec [Spec.NormalGamma.Inv, Spec.NormalGamma.Valid]

-- @site NormalGamma.set_v
/-- `set_v` succeeds iff the new value is in the documented domain of `v` (finite, > 0) -/
theorem NormalGamma_set_v_ok_iff (d : Gen.NormalGamma X) (v : X) :
    (∃ d', Gen.NormalGamma.set_v d v = .ok d') ↔ Spec.C10.IsPos v := by
  rcases v with _|_|_|v <;>
    simp <;> c10_close

example : ∃ d', Gen.NormalGamma.set_v ({ m := fin (-1), r := fin 2, s := fin 2, v := fin 2 } : Gen.NormalGamma X) (fin 7) = .ok d' := (NormalGamma_set_v_ok_iff ..).mpr (by c10_spec [])

-- @site NormalGamma.set_v
/-- on failure the error carries the offending value -/
theorem NormalGamma_set_v_err (d : Gen.NormalGamma X) (v : X) (e : Err X) :
    Gen.NormalGamma.set_v d v = .error e → ¬ Spec.C10.IsPos v ∧ (e = Err.mk "VTooLow" [v] ∨ e = Err.mk "VNotFinite" [v]) := by
  rcases v with _|_|_|v <;>
    simp <;> c10_close

example : ∃ e, Gen.NormalGamma.set_v ({ m := fin (-1), r := fin 2, s := fin 2, v := fin 2 } : Gen.NormalGamma X) (fin 0) = .error e := by c10_eval []

-- @site NormalGamma.set_v
/-- on success only that field (and its cache) changes; same object as the unchecked setter -/
theorem NormalGamma_set_v_ok_fields (d d' : Gen.NormalGamma X) (v : X) :
    Gen.NormalGamma.set_v d v = .ok d' → d' = { d with v := v } ∧ d' = Gen.NormalGamma.set_v_unchecked d v := by
  simp only [Gen.NormalGamma.emit_params, Gen.NormalGamma.from_params, Gen.NormalGamma.get_m, Gen.NormalGamma.get_r, Gen.NormalGamma.get_s, Gen.NormalGamma.get_v, Gen.NormalGamma.new, Gen.NormalGamma.new_unchecked, Gen.NormalGamma.set_m, Gen.NormalGamma.set_m_unchecked, Gen.NormalGamma.set_r, Gen.NormalGamma.set_r_unchecked, Gen.NormalGamma.set_s, Gen.NormalGamma.set_s_unchecked, Gen.NormalGamma.set_v, Gen.NormalGamma.set_v_unchecked]
  split_ifs <;> simp <;> c10_close

example : Gen.NormalGamma.set_v ({ m := fin (-1), r := fin 2, s := fin 2, v := fin 2 } : Gen.NormalGamma X) (fin 7) = .ok ({ m := fin (-1), r := fin 2, s := fin 2, v := fin 7 } : Gen.NormalGamma X) := by c10_eval []

-- @site NormalGamma.set_v
/-- failure atomicity (structural): either an error without a new state, or exactly the updated state -/
theorem NormalGamma_set_v_atomic (d : Gen.NormalGamma X) (v : X) :
    (∃ e, Gen.NormalGamma.set_v d v = .error e) ∨ (∃ d', Gen.NormalGamma.set_v d v = .ok d' ∧ d' = { d with v := v }) := by
  simp only [Gen.NormalGamma.emit_params, Gen.NormalGamma.from_params, Gen.NormalGamma.get_m, Gen.NormalGamma.get_r, Gen.NormalGamma.get_s, Gen.NormalGamma.get_v, Gen.NormalGamma.new, Gen.NormalGamma.new_unchecked, Gen.NormalGamma.set_m, Gen.NormalGamma.set_m_unchecked, Gen.NormalGamma.set_r, Gen.NormalGamma.set_r_unchecked, Gen.NormalGamma.set_s, Gen.NormalGamma.set_s_unchecked, Gen.NormalGamma.set_v, Gen.NormalGamma.set_v_unchecked]
  split_ifs <;> simp <;> c10_close

example : ∃ e, Gen.NormalGamma.set_v ({ m := fin (-1), r := fin 2, s := fin 2, v := fin 2 } : Gen.NormalGamma X) (fin 0) = .error e := by c10_eval []

-- @site NormalGamma.set_v
/-- a successful checked setter preserves the parameter invariant -/
theorem NormalGamma_set_v_inv (d d' : Gen.NormalGamma X) (v : X) :
    Spec.NormalGamma.Inv d → Gen.NormalGamma.set_v d v = .ok d' → Spec.NormalGamma.Inv d' := by
  rcases d with ⟨f0, f1, f2, f3⟩
  rcases v with _|_|_|v <;>
    simp <;> c10_close

example : Spec.NormalGamma.Inv ({ m := fin (-1), r := fin 2, s := fin 2, v := fin 2 } : Gen.NormalGamma X) := by c10_spec [Spec.NormalGamma.Inv, Spec.NormalGamma.Valid]

-- @site NormalGamma.new
/-- a sequence of accepted setters ending in parameters θ yields the object `new θ` builds -/
theorem NormalGamma_build_eq (d d1 d2 d3 d4 : Gen.NormalGamma X) (m : X) (r : X) (s : X) (v : X) :
    Gen.NormalGamma.set_m d m = .ok d1 →
    Gen.NormalGamma.set_r d1 r = .ok d2 →
    Gen.NormalGamma.set_s d2 s = .ok d3 →
    Gen.NormalGamma.set_v d3 v = .ok d4 →
    Gen.NormalGamma.new m r s v = .ok d4 := by
  rcases d with ⟨f0, f1, f2, f3⟩
  simp only [Gen.NormalGamma.emit_params, Gen.NormalGamma.from_params, Gen.NormalGamma.get_m, Gen.NormalGamma.get_r, Gen.NormalGamma.get_s, Gen.NormalGamma.get_v, Gen.NormalGamma.new, Gen.NormalGamma.new_unchecked, Gen.NormalGamma.set_m, Gen.NormalGamma.set_m_unchecked, Gen.NormalGamma.set_r, Gen.NormalGamma.set_r_unchecked, Gen.NormalGamma.set_s, Gen.NormalGamma.set_s_unchecked, Gen.NormalGamma.set_v, Gen.NormalGamma.set_v_unchecked]
  split_ifs <;> simp <;> c10_close

example : ∃ d', Gen.NormalGamma.set_m ({ m := fin (-1), r := fin 2, s := fin 2, v := fin 2 } : Gen.NormalGamma X) (fin 5) = .ok d' := by c10_eval []

-- @site NormalGamma.from_params
/-- parameter round trip -/
theorem NormalGamma_from_emit (d : Gen.NormalGamma X) :
    Gen.NormalGamma.from_params (Gen.NormalGamma.emit_params d) = d := by
  rfl

example : Gen.NormalGamma.from_params (Gen.NormalGamma.emit_params ({ m := fin (-1), r := fin 2, s := fin 2, v := fin 2 } : Gen.NormalGamma X)) = ({ m := fin (-1), r := fin 2, s := fin 2, v := fin 2 } : Gen.NormalGamma X) := by c10_eval []

-- @site NormalGamma.from_params
/-- `from_params (emit_params ·)` is the identity on every object built by the checked constructor -/
theorem NormalGamma_new_eq_from_params (m : X) (r : X) (s : X) (v : X) (d : Gen.NormalGamma X) :
    Gen.NormalGamma.new m r s v = .ok d → Gen.NormalGamma.from_params (Gen.NormalGamma.emit_params d) = d := by
  simp only [Gen.NormalGamma.emit_params, Gen.NormalGamma.from_params, Gen.NormalGamma.get_m, Gen.NormalGamma.get_r, Gen.NormalGamma.get_s, Gen.NormalGamma.get_v, Gen.NormalGamma.new, Gen.NormalGamma.new_unchecked, Gen.NormalGamma.set_m, Gen.NormalGamma.set_m_unchecked, Gen.NormalGamma.set_r, Gen.NormalGamma.set_r_unchecked, Gen.NormalGamma.set_s, Gen.NormalGamma.set_s_unchecked, Gen.NormalGamma.set_v, Gen.NormalGamma.set_v_unchecked]
  split_ifs <;> simp <;> c10_close

example : Gen.NormalGamma.new (fin (-1)) (fin 2) (fin 2) (fin 2) = .ok ({ m := fin (-1), r := fin 2, s := fin 2, v := fin 2 } : Gen.NormalGamma X) := by c10_eval []

end NormalGamma

/-! ## NormalInvGamma  (`src/dist/normal_inv_gamma.rs`) -/
section NormalInvGamma
attribute [local simp] Gen.NormalInvGamma.emit_params Gen.NormalInvGamma.from_params Gen.NormalInvGamma.get_a Gen.NormalInvGamma.get_b Gen.NormalInvGamma.get_m Gen.NormalInvGamma.get_v Gen.NormalInvGamma.new Gen.NormalInvGamma.new_unchecked Gen.NormalInvGamma.set_a Gen.NormalInvGamma.set_a_unchecked Gen.NormalInvGamma.set_b Gen.NormalInvGamma.set_b_unchecked Gen.NormalInvGamma.set_m Gen.NormalInvGamma.set_m_unchecked Gen.NormalInvGamma.set_v Gen.NormalInvGamma.set_v_unchecked Spec.NormalInvGamma.Valid Spec.NormalInvGamma.Inv

-- @site NormalInvGamma.new
/-- `NormalInvGamma::new` succeeds iff every parameter is in the documented domain — for ALL values incl. NaN, ±inf -/
theorem NormalInvGamma_new_ok_iff (m : X) (v : X) (a : X) (b : X) :
    (∃ d, Gen.NormalInvGamma.new m v a b = .ok d) ↔ Spec.NormalInvGamma.Valid m v a b := by
  rcases m with _|_|_|m <;> (try simp) <;>
    rcases v with _|_|_|v <;> (try simp) <;>
    rcases a with _|_|_|a <;> (try simp) <;>
    rcases b with _|_|_|b <;>
    (try simp) <;> c10_close

example : ∃ d, Gen.NormalInvGamma.new (fin (-1)) (fin 2) (fin 2) (fin 2) = .ok d := (NormalInvGamma_new_ok_iff ..).mpr (by c10_spec [Spec.NormalInvGamma.Valid])

example : ¬ ∃ d, Gen.NormalInvGamma.new (nan) (fin 2) (fin 2) (fin 2) = .ok d := by rw [NormalInvGamma_new_ok_iff]; c10_spec [Spec.NormalInvGamma.Valid]

-- @site NormalInvGamma.new
/-- on success the object carries exactly the given parameters -/
theorem NormalInvGamma_new_ok_fields (m : X) (v : X) (a : X) (b : X) (d : Gen.NormalInvGamma X) :
    Gen.NormalInvGamma.new m v a b = .ok d → d = ({ m := m, v := v, a := a, b := b } : Gen.NormalInvGamma X) := by
  simp only [Gen.NormalInvGamma.emit_params, Gen.NormalInvGamma.from_params, Gen.NormalInvGamma.get_a, Gen.NormalInvGamma.get_b, Gen.NormalInvGamma.get_m, Gen.NormalInvGamma.get_v, Gen.NormalInvGamma.new, Gen.NormalInvGamma.new_unchecked, Gen.NormalInvGamma.set_a, Gen.NormalInvGamma.set_a_unchecked, Gen.NormalInvGamma.set_b, Gen.NormalInvGamma.set_b_unchecked, Gen.NormalInvGamma.set_m, Gen.NormalInvGamma.set_m_unchecked, Gen.NormalInvGamma.set_v, Gen.NormalInvGamma.set_v_unchecked]
  split_ifs <;> simp <;> c10_close

example : Gen.NormalInvGamma.new (fin (-1)) (fin 2) (fin 2) (fin 2) = .ok ({ m := fin (-1), v := fin 2, a := fin 2, b := fin 2 } : Gen.NormalInvGamma X) := by c10_eval []

-- @site NormalInvGamma.new
/-- checked and unchecked constructors build the same object -/
theorem NormalInvGamma_new_eq_unchecked (m : X) (v : X) (a : X) (b : X) (d : Gen.NormalInvGamma X) :
    Gen.NormalInvGamma.new m v a b = .ok d → d = Gen.NormalInvGamma.new_unchecked m v a b := by
  simp only [Gen.NormalInvGamma.emit_params, Gen.NormalInvGamma.from_params, Gen.NormalInvGamma.get_a, Gen.NormalInvGamma.get_b, Gen.NormalInvGamma.get_m, Gen.NormalInvGamma.get_v, Gen.NormalInvGamma.new, Gen.NormalInvGamma.new_unchecked, Gen.NormalInvGamma.set_a, Gen.NormalInvGamma.set_a_unchecked, Gen.NormalInvGamma.set_b, Gen.NormalInvGamma.set_b_unchecked, Gen.NormalInvGamma.set_m, Gen.NormalInvGamma.set_m_unchecked, Gen.NormalInvGamma.set_v, Gen.NormalInvGamma.set_v_unchecked]
  split_ifs <;> simp <;> c10_close

example : Gen.NormalInvGamma.new (fin (-1)) (fin 2) (fin 2) (fin 2) = .ok (Gen.NormalInvGamma.new_unchecked (fin (-1)) (fin 2) (fin 2) (fin 2)) := by c10_eval []

-- @site NormalInvGamma.new
/-- an object obtained from the checked constructor satisfies the parameter invariant -/
theorem NormalInvGamma_new_inv (m : X) (v : X) (a : X) (b : X) (d : Gen.NormalInvGamma X) :
    Gen.NormalInvGamma.new m v a b = .ok d → Spec.NormalInvGamma.Inv d := by
  intro h
  rw [NormalInvGamma_new_ok_fields m v a b d h]
  exact (NormalInvGamma_new_ok_iff m v a b).mp ⟨d, h⟩

example : Spec.NormalInvGamma.Inv ({ m := fin (-1), v := fin 2, a := fin 2, b := fin 2 } : Gen.NormalInvGamma X) := NormalInvGamma_new_inv (fin (-1)) (fin 2) (fin 2) (fin 2) _ (by c10_eval [])

-- @site NormalInvGamma.new
/-- on failure the error names an argument that IS outside its documented domain and carries its value -/
theorem NormalInvGamma_new_err_offending (m : X) (v : X) (a : X) (b : X) (e : Err X) :
    Gen.NormalInvGamma.new m v a b = .error e →
     (¬ Spec.C10.IsFin m ∧ (e = Err.mk "MNotFinite" [m])) ∨
     (¬ Spec.C10.IsPos v ∧ (e = Err.mk "VTooLow" [v] ∨ e = Err.mk "VNotFinite" [v])) ∨
     (¬ Spec.C10.IsPos a ∧ (e = Err.mk "ATooLow" [a] ∨ e = Err.mk "ANotFinite" [a])) ∨
     (¬ Spec.C10.IsPos b ∧ (e = Err.mk "BTooLow" [b] ∨ e = Err.mk "BNotFinite" [b])) := by
  rcases m with _|_|_|m <;> (try simp) <;>
    rcases v with _|_|_|v <;> (try simp) <;>
    rcases a with _|_|_|a <;> (try simp) <;>
    rcases b with _|_|_|b <;>
    (try simp) <;> c10_close

example : ∃ e, Gen.NormalInvGamma.new (nan) (fin 2) (fin 2) (fin 2) = .error e := by c10_eval []

/- FULL STATEMENT (false, see the counterexample below — the code first tests the finiteness of all four arguments and only then the signs of v, a, b):
   theorem NormalInvGamma_new_err_first (m : X) (v : X) (a : X) (b : X) (e : Err X) :
     Gen.NormalInvGamma.new m v a b = .error e →
     (¬ Spec.C10.IsFin m → (e = Err.mk "MNotFinite" [m])) ∧
     (Spec.C10.IsFin m → ¬ Spec.C10.IsPos v → (e = Err.mk "VTooLow" [v] ∨ e = Err.mk "VNotFinite" [v])) ∧
     (Spec.C10.IsFin m → Spec.C10.IsPos v → ¬ Spec.C10.IsPos a → (e = Err.mk "ATooLow" [a] ∨ e = Err.mk "ANotFinite" [a])) ∧
     (Spec.C10.IsFin m → Spec.C10.IsPos v → Spec.C10.IsPos a → ¬ Spec.C10.IsPos b → (e = Err.mk "BTooLow" [b] ∨ e = Err.mk "BNotFinite" [b]))
-/

-- @site NormalInvGamma.new
/-- first-offending-argument order holds only under the extra hypotheses; the code first tests the finiteness of all four arguments and only then the signs of v, a, b -/
theorem NormalInvGamma_new_err_first_partial (m : X) (v : X) (a : X) (b : X) (e : Err X) :
    Spec.C10.IsFin v → Spec.C10.IsFin a → Spec.C10.IsFin b → Gen.NormalInvGamma.new m v a b = .error e →
     (¬ Spec.C10.IsFin m → (e = Err.mk "MNotFinite" [m])) ∧
     (Spec.C10.IsFin m → ¬ Spec.C10.IsPos v → (e = Err.mk "VTooLow" [v] ∨ e = Err.mk "VNotFinite" [v])) ∧
     (Spec.C10.IsFin m → Spec.C10.IsPos v → ¬ Spec.C10.IsPos a → (e = Err.mk "ATooLow" [a] ∨ e = Err.mk "ANotFinite" [a])) ∧
     (Spec.C10.IsFin m → Spec.C10.IsPos v → Spec.C10.IsPos a → ¬ Spec.C10.IsPos b → (e = Err.mk "BTooLow" [b] ∨ e = Err.mk "BNotFinite" [b])) := by
  rcases m with _|_|_|m <;> (try simp) <;>
    rcases v with _|_|_|v <;> (try simp) <;>
    rcases a with _|_|_|a <;> (try simp) <;>
    rcases b with _|_|_|b <;>
    (try simp) <;> c10_close

example : ∃ e, Gen.NormalInvGamma.new (fin (-1)) (fin 2) (fin 2) (fin 0) = .error e := by c10_eval []

-- @site NormalInvGamma.new
/-- DEFECT (order clause only): an earlier argument is invalid but the error names a later one; the code first tests the finiteness of all four arguments and only then the signs of v, a, b -/
theorem NormalInvGamma_new_err_order_counterexample :
    ¬ Spec.C10.IsPos (fin (-1) : X) ∧
    Gen.NormalInvGamma.new (fin 0) (fin (-1)) (nan) (fin 1) = .error (Err.mk "ANotFinite" [nan] : Err X) := by
  c10_eval []

-- @site NormalInvGamma.set_m
/-- `set_m` succeeds iff the new value is in the documented domain of `m` (finite) -/
theorem NormalInvGamma_set_m_ok_iff (d : Gen.NormalInvGamma X) (v : X) :
    (∃ d', Gen.NormalInvGamma.set_m d v = .ok d') ↔ Spec.C10.IsFin v := by
  rcases v with _|_|_|v <;>
    simp <;> c10_close

example : ∃ d', Gen.NormalInvGamma.set_m ({ m := fin (-1), v := fin 2, a := fin 2, b := fin 2 } : Gen.NormalInvGamma X) (fin 5) = .ok d' := (NormalInvGamma_set_m_ok_iff ..).mpr (by c10_spec [])

-- @site NormalInvGamma.set_m
/-- on failure the error carries the offending value -/
theorem NormalInvGamma_set_m_err (d : Gen.NormalInvGamma X) (v : X) (e : Err X) :
    Gen.NormalInvGamma.set_m d v = .error e → ¬ Spec.C10.IsFin v ∧ (e = Err.mk "MNotFinite" [v]) := by
  rcases v with _|_|_|v <;>
    simp <;> c10_close

example : ∃ e, Gen.NormalInvGamma.set_m ({ m := fin (-1), v := fin 2, a := fin 2, b := fin 2 } : Gen.NormalInvGamma X) (nan) = .error e := by c10_eval []

-- @site NormalInvGamma.set_m
/-- on success only that field (and its cache) changes; same object as the unchecked setter -/
theorem NormalInvGamma_set_m_ok_fields (d d' : Gen.NormalInvGamma X) (v : X) :
    Gen.NormalInvGamma.set_m d v = .ok d' → d' = { d with m := v } ∧ d' = Gen.NormalInvGamma.set_m_unchecked d v := by
  simp only [Gen.NormalInvGamma.emit_params, Gen.NormalInvGamma.from_params, Gen.NormalInvGamma.get_a, Gen.NormalInvGamma.get_b, Gen.NormalInvGamma.get_m, Gen.NormalInvGamma.get_v, Gen.NormalInvGamma.new, Gen.NormalInvGamma.new_unchecked, Gen.NormalInvGamma.set_a, Gen.NormalInvGamma.set_a_unchecked, Gen.NormalInvGamma.set_b, Gen.NormalInvGamma.set_b_unchecked, Gen.NormalInvGamma.set_m, Gen.NormalInvGamma.set_m_unchecked, Gen.NormalInvGamma.set_v, Gen.NormalInvGamma.set_v_unchecked]
  split_ifs <;> simp <;> c10_close

example : Gen.NormalInvGamma.set_m ({ m := fin (-1), v := fin 2, a := fin 2, b := fin 2 } : Gen.NormalInvGamma X) (fin 5) = .ok ({ m := fin 5, v := fin 2, a := fin 2, b := fin 2 } : Gen.NormalInvGamma X) := by c10_eval []

-- @site NormalInvGamma.set_m
/-- failure atomicity (structural): either an error without a new state, or exactly the updated state -/
theorem NormalInvGamma_set_m_atomic (d : Gen.NormalInvGamma X) (v : X) :
    (∃ e, Gen.NormalInvGamma.set_m d v = .error e) ∨ (∃ d', Gen.NormalInvGamma.set_m d v = .ok d' ∧ d' = { d with m := v }) := by
  simp only [Gen.NormalInvGamma.emit_params, Gen.NormalInvGamma.from_params, Gen.NormalInvGamma.get_a, Gen.NormalInvGamma.get_b, Gen.NormalInvGamma.get_m, Gen.NormalInvGamma.get_v, Gen.NormalInvGamma.new, Gen.NormalInvGamma.new_unchecked, Gen.NormalInvGamma.set_a, Gen.NormalInvGamma.set_a_unchecked, Gen.NormalInvGamma.set_b, Gen.NormalInvGamma.set_b_unchecked, Gen.NormalInvGamma.set_m, Gen.NormalInvGamma.set_m_unchecked, Gen.NormalInvGamma.set_v, Gen.NormalInvGamma.set_v_unchecked]
  split_ifs <;> simp <;> c10_close

example : ∃ e, Gen.NormalInvGamma.set_m ({ m := fin (-1), v := fin 2, a := fin 2, b := fin 2 } : Gen.NormalInvGamma X) (nan) = .error e := by c10_eval []

-- @site NormalInvGamma.set_m
/-- a successful checked setter preserves the parameter invariant -/
theorem NormalInvGamma_set_m_inv (d d' : Gen.NormalInvGamma X) (v : X) :
    Spec.NormalInvGamma.Inv d → Gen.NormalInvGamma.set_m d v = .ok d' → Spec.NormalInvGamma.Inv d' := by
  rcases d with ⟨f0, f1, f2, f3⟩
  rcases v with _|_|_|v <;>
    simp <;> c10_close

example : Spec.NormalInvGamma.Inv ({ m := fin (-1), v := fin 2, a := fin 2, b := fin 2 } : Gen.NormalInvGamma X) := by c10_spec [Spec.NormalInvGamma.Inv, Spec.NormalInvGamma.Valid]

-- @site NormalInvGamma.set_v
/-- `set_v` succeeds iff the new value is in the documented domain of `v` (finite, > 0) -/
theorem NormalInvGamma_set_v_ok_iff (d : Gen.NormalInvGamma X) (v : X) :
    (∃ d', Gen.NormalInvGamma.set_v d v = .ok d') ↔ Spec.C10.IsPos v := by
  rcases v with _|_|_|v <;>
    simp <;> c10_close

example : ∃ d', Gen.NormalInvGamma.set_v ({ m := fin (-1), v := fin 2, a := fin 2, b := fin 2 } : Gen.NormalInvGamma X) (fin 7) = .ok d' := (NormalInvGamma_set_v_ok_iff ..).mpr (by c10_spec [])

-- @site NormalInvGamma.set_v
/-- on failure the error carries the offending value -/
theorem NormalInvGamma_set_v_err (d : Gen.NormalInvGamma X) (v : X) (e : Err X) :
    Gen.NormalInvGamma.set_v d v = .error e → ¬ Spec.C10.IsPos v ∧ (e = Err.mk "VTooLow" [v] ∨ e = Err.mk "VNotFinite" [v]) := by
  rcases v with _|_|_|v <;>
    simp <;> c10_close

example : ∃ e, Gen.NormalInvGamma.set_v ({ m := fin (-1), v := fin 2, a := fin 2, b := fin 2 } : Gen.NormalInvGamma X) (fin 0) = .error e := by c10_eval []

-- @site NormalInvGamma.set_v
/-- on success only that field (and its cache) changes; same object as the unchecked setter -/
theorem NormalInvGamma_set_v_ok_fields (d d' : Gen.NormalInvGamma X) (v : X) :
    Gen.NormalInvGamma.set_v d v = .ok d' → d' = { d with v := v } ∧ d' = Gen.NormalInvGamma.set_v_unchecked d v := by
  simp only [Gen.NormalInvGamma.emit_params, Gen.NormalInvGamma.from_params, Gen.NormalInvGamma.get_a, Gen.NormalInvGamma.get_b, Gen.NormalInvGamma.get_m, Gen.NormalInvGamma.get_v, Gen.NormalInvGamma.new, Gen.NormalInvGamma.new_unchecked, Gen.NormalInvGamma.set_a, Gen.NormalInvGamma.set_a_unchecked, Gen.NormalInvGamma.set_b, Gen.NormalInvGamma.set_b_unchecked, Gen.NormalInvGamma.set_m, Gen.NormalInvGamma.set_m_unchecked, Gen.NormalInvGamma.set_v, Gen.NormalInvGamma.set_v_unchecked]
  split_ifs <;> simp <;> c10_close

example : Gen.NormalInvGamma.set_v ({ m := fin (-1), v := fin 2, a := fin 2, b := fin 2 } : Gen.NormalInvGamma X) (fin 7) = .ok ({ m := fin (-1), v := fin 7, a := fin 2, b := fin 2 } : Gen.NormalInvGamma X) := by c10_eval []

-- @site NormalInvGamma.set_v
/-- failure atomicity (structural): either an error without a new state, or exactly the updated state -/
theorem NormalInvGamma_set_v_atomic (d : Gen.NormalInvGamma X) (v : X) :
    (∃ e, Gen.NormalInvGamma.set_v d v = .error e) ∨ (∃ d', Gen.NormalInvGamma.set_v d v = .ok d' ∧ d' = { d with v := v }) := by
  simp only [Gen.NormalInvGamma.emit_params, Gen.NormalInvGamma.from_params, Gen.NormalInvGamma.get_a, Gen.NormalInvGamma.get_b, Gen.NormalInvGamma.get_m, Gen.NormalInvGamma.get_v, Gen.NormalInvGamma.new, Gen.NormalInvGamma.new_unchecked, Gen.NormalInvGamma.set_a, Gen.NormalInvGamma.set_a_unchecked, Gen.NormalInvGamma.set_b, Gen.NormalInvGamma.set_b_unchecked, Gen.NormalInvGamma.set_m, Gen.NormalInvGamma.set_m_unchecked, Gen.NormalInvGamma.set_v, Gen.NormalInvGamma.set_v_unchecked]
  split_ifs <;> simp <;> c10_close

example : ∃ e, Gen.NormalInvGamma.set_v ({ m := fin (-1), v := fin 2, a := fin 2, b := fin 2 } : Gen.NormalInvGamma X) (fin 0) = .error e := by c10_eval []

-- @site NormalInvGamma.set_v
/-- a successful checked setter preserves the parameter invariant -/
theorem NormalInvGamma_set_v_inv (d d' : Gen.NormalInvGamma X) (v : X) :
    Spec.NormalInvGamma.Inv d → Gen.NormalInvGamma.set_v d v = .ok d' → Spec.NormalInvGamma.Inv d' := by
  rcases d with ⟨f0, f1, f2, f3⟩
  rcases v with _|_|_|v <;>
    simp <;> c10_close

example : Spec.NormalInvGamma.Inv ({ m := fin (-1), v := fin 2, a := fin 2, b := fin 2 } : Gen.NormalInvGamma X) := by c10_spec [Spec.NormalInvGamma.Inv, Spec.NormalInvGamma.Valid]

-- @site NormalInvGamma.set_a
/-- `set_a` succeeds iff the new value is in the documented domain of `a` (finite, > 0) -/
theorem NormalInvGamma_set_a_ok_iff (d : Gen.NormalInvGamma X) (v : X) :
    (∃ d', Gen.NormalInvGamma.set_a d v = .ok d') ↔ Spec.C10.IsPos v := by
  rcases v with _|_|_|v <;>
    simp <;> c10_close

example : ∃ d', Gen.NormalInvGamma.set_a ({ m := fin (-1), v := fin 2, a := fin 2, b := fin 2 } : Gen.NormalInvGamma X) (fin 7) = .ok d' := (NormalInvGamma_set_a_ok_iff ..).mpr (by c10_spec [])

-- @site NormalInvGamma.set_a
/-- on failure the error carries the offending value -/
theorem NormalInvGamma_set_a_err (d : Gen.NormalInvGamma X) (v : X) (e : Err X) :
    Gen.NormalInvGamma.set_a d v = .error e → ¬ Spec.C10.IsPos v ∧ (e = Err.mk "ATooLow" [v] ∨ e = Err.mk "ANotFinite" [v]) := by
  rcases v with _|_|_|v <;>
    simp <;> c10_close

example : ∃ e, Gen.NormalInvGamma.set_a ({ m := fin (-1), v := fin 2, a := fin 2, b := fin 2 } : Gen.NormalInvGamma X) (fin 0) = .error e := by c10_eval []

-- @site NormalInvGamma.set_a
/-- on success only that field (and its cache) changes; same object as the unchecked setter -/
theorem NormalInvGamma_set_a_ok_fields (d d' : Gen.NormalInvGamma X) (v : X) :
    Gen.NormalInvGamma.set_a d v = .ok d' → d' = { d with a := v } ∧ d' = Gen.NormalInvGamma.set_a_unchecked d v := by
  simp only [Gen.NormalInvGamma.emit_params, Gen.NormalInvGamma.from_params, Gen.NormalInvGamma.get_a, Gen.NormalInvGamma.get_b, Gen.NormalInvGamma.get_m, Gen.NormalInvGamma.get_v, Gen.NormalInvGamma.new, Gen.NormalInvGamma.new_unchecked, Gen.NormalInvGamma.set_a, Gen.NormalInvGamma.set_a_unchecked, Gen.NormalInvGamma.set_b, Gen.NormalInvGamma.set_b_unchecked, Gen.NormalInvGamma.set_m, Gen.NormalInvGamma.set_m_unchecked, Gen.NormalInvGamma.set_v, Gen.NormalInvGamma.set_v_unchecked]
  split_ifs <;> simp <;> c10_close

example : Gen.NormalInvGamma.set_a ({ m := fin (-1), v := fin 2, a := fin 2, b := fin 2 } : Gen.NormalInvGamma X) (fin 7) = .ok ({ m := fin (-1), v := fin 2, a := fin 7, b := fin 2 } : Gen.NormalInvGamma X) := by c10_eval []

-- @site NormalInvGamma.set_a
/-- failure atomicity (structural): either an error without a new state, or exactly the updated state -/
theorem NormalInvGamma_set_a_atomic (d : Gen.NormalInvGamma X) (v : X) :
    (∃ e, Gen.NormalInvGamma.set_a d v = .error e) ∨ (∃ d', Gen.NormalInvGamma.set_a d v = .ok d' ∧ d' = { d with a := v }) := by
  simp only [Gen.NormalInvGamma.emit_params, Gen.NormalInvGamma.from_params, Gen.NormalInvGamma.get_a, Gen.NormalInvGamma.get_b, Gen.NormalInvGamma.get_m, Gen.NormalInvGamma.get_v, Gen.NormalInvGamma.new, Gen.NormalInvGamma.new_unchecked, Gen.NormalInvGamma.set_a, Gen.NormalInvGamma.set_a_unchecked, Gen.NormalInvGamma.set_b, Gen.NormalInvGamma.set_b_unchecked, Gen.NormalInvGamma.set_m, Gen.NormalInvGamma.set_m_unchecked, Gen.NormalInvGamma.set_v, Gen.NormalInvGamma.set_v_unchecked]
  split_ifs <;> simp <;> c10_close

example : ∃ e, Gen.NormalInvGamma.set_a ({ m := fin (-1), v := fin 2, a := fin 2, b := fin 2 } : Gen.NormalInvGamma X) (fin 0) = .error e := by c10_eval []

-- @site NormalInvGamma.set_a
/-- a successful checked setter preserves the parameter invariant -/
theorem NormalInvGamma_set_a_inv (d d' : Gen.NormalInvGamma X) (v : X) :
    Spec.NormalInvGamma.Inv d → Gen.NormalInvGamma.set_a d v = .ok d' → Spec.NormalInvGamma.Inv d' := by
  rcases d with ⟨f0, f1, f2, f3⟩
  rcases v with _|_|_|v <;>
    simp <;> c10_close

example : Spec.NormalInvGamma.Inv ({ m := fin (-1), v := fin 2, a := fin 2, b := fin 2 } : Gen.NormalInvGamma X) := by c10_spec [Spec.NormalInvGamma.Inv, Spec.NormalInvGamma.Valid]

-- @site NormalInvGamma.set_b
/-- `set_b` succeeds iff the new value is in the documented domain of `b` (finite, > 0) -/
theorem NormalInvGamma_set_b_ok_iff (d : Gen.NormalInvGamma X) (v : X) :
    (∃ d', Gen.NormalInvGamma.set_b d v = .ok d') ↔ Spec.C10.IsPos v := by
  rcases v with _|_|_|v <;>
    simp <;> c10_close

example : ∃ d', Gen.NormalInvGamma.set_b ({ m := fin (-1), v := fin 2, a := fin 2, b := fin 2 } : Gen.NormalInvGamma X) (fin 7) = .ok d' := (NormalInvGamma_set_b_ok_iff ..).mpr (by c10_spec [])

-- @site NormalInvGamma.set_b
/-- on failure the error carries the offending value -/
theorem NormalInvGamma_set_b_err (d : Gen.NormalInvGamma X) (v : X) (e : Err X) :
    Gen.NormalInvGamma.set_b d v = .error e → ¬ Spec.C10.IsPos v ∧ (e = Err.mk "BTooLow" [v] ∨ e = Err.mk "BNotFinite" [v]) := by
  rcases v with _|_|_|v <;>
    simp <;> c10_close

example : ∃ e, Gen.NormalInvGamma.set_b ({ m := fin (-1), v := fin 2, a := fin 2, b := fin 2 } : Gen.NormalInvGamma X) (fin 0) = .error e := by c10_eval []

-- @site NormalInvGamma.set_b
/-- on success only that field (and its cache) changes; same object as the unchecked setter -/
theorem NormalInvGamma_set_b_ok_fields (d d' : Gen.NormalInvGamma X) (v : X) :
    Gen.NormalInvGamma.set_b d v = .ok d' → d' = { d with b := v } ∧ d' = Gen.NormalInvGamma.set_b_unchecked d v := by
  simp only [Gen.NormalInvGamma.emit_params, Gen.NormalInvGamma.from_params, Gen.NormalInvGamma.get_a, Gen.NormalInvGamma.get_b, Gen.NormalInvGamma.get_m, Gen.NormalInvGamma.get_v, Gen.NormalInvGamma.new, Gen.NormalInvGamma.new_unchecked, Gen.NormalInvGamma.set_a, Gen.NormalInvGamma.set_a_unchecked, Gen.NormalInvGamma.set_b, Gen.NormalInvGamma.set_b_unchecked, Gen.NormalInvGamma.set_m, Gen.NormalInvGamma.set_m_unchecked, Gen.NormalInvGamma.set_v, Gen.NormalInvGamma.set_v_unchecked]
  split_ifs <;> simp <;> c10_close

example : Gen.NormalInvGamma.set_b ({ m := fin (-1), v := fin 2, a := fin 2, b := fin 2 } : Gen.NormalInvGamma X) (fin 7) = .ok ({ m := fin (-1), v := fin 2, a := fin 2, b := fin 7 } : Gen.NormalInvGamma X) := by c10_eval []

-- @site NormalInvGamma.set_b
/-- failure atomicity (structural): either an error without a new state, or exactly the updated state -/
theorem NormalInvGamma_set_b_atomic (d : Gen.NormalInvGamma X) (v : X) :
    (∃ e, Gen.NormalInvGamma.set_b d v = .error e) ∨ (∃ d', Gen.NormalInvGamma.set_b d v = .ok d' ∧ d' = { d with b := v }) := by
  simp only [Gen.NormalInvGamma.emit_params, Gen.NormalInvGamma.from_params, Gen.NormalInvGamma.get_a, Gen.NormalInvGamma.get_b, Gen.NormalInvGamma.get_m, Gen.NormalInvGamma.get_v, Gen.NormalInvGamma.new, Gen.NormalInvGamma.new_unchecked, Gen.NormalInvGamma.set_a, Gen.NormalInvGamma.set_a_unchecked, Gen.NormalInvGamma.set_b, Gen.NormalInvGamma.set_b_unchecked, Gen.NormalInvGamma.set_m, Gen.NormalInvGamma.set_m_unchecked, Gen.NormalInvGamma.set_v, Gen.NormalInvGamma.set_v_unchecked]
  split_ifs <;> simp <;> c10_close

example : ∃ e, Gen.NormalInvGamma.set_b ({ m := fin (-1), v := fin 2, a := fin 2, b := fin 2 } : Gen.NormalInvGamma X) (fin 0) = .error e := by c10_eval []

-- @site NormalInvGamma.set_b
/-- a successful checked setter preserves the parameter invariant -/
theorem NormalInvGamma_set_b_inv (d d' : Gen.NormalInvGamma X) (v : X) :
    Spec.NormalInvGamma.Inv d → Gen.NormalInvGamma.set_b d v = .ok d' → Spec.NormalInvGamma.Inv d' := by
  rcases d with ⟨f0, f1, f2, f3⟩
  rcases v with _|_|_|v <;>
    simp <;> c10_close

example : Spec.NormalInvGamma.Inv ({ m := fin (-1), v := fin 2, a := fin 2, b := fin 2 } : Gen.NormalInvGamma X) := by c10_spec [Spec.NormalInvGamma.Inv, Spec.NormalInvGamma.Valid]

-- @site NormalInvGamma.new
/-- a sequence of accepted setters ending in parameters θ yields the object `new θ` builds -/
theorem NormalInvGamma_build_eq (d d1 d2 d3 d4 : Gen.NormalInvGamma X) (m : X) (v : X) (a : X) (b : X) :
    Gen.NormalInvGamma.set_m d m = .ok d1 →
    Gen.NormalInvGamma.set_v d1 v = .ok d2 →
    Gen.NormalInvGamma.set_a d2 a = .ok d3 →
    Gen.NormalInvGamma.set_b d3 b = .ok d4 →
    Gen.NormalInvGamma.new m v a b = .ok d4 := by
  rcases d with ⟨f0, f1, f2, f3⟩
  simp only [Gen.NormalInvGamma.emit_params, Gen.NormalInvGamma.from_params, Gen.NormalInvGamma.get_a, Gen.NormalInvGamma.get_b, Gen.NormalInvGamma.get_m, Gen.NormalInvGamma.get_v, Gen.NormalInvGamma.new, Gen.NormalInvGamma.new_unchecked, Gen.NormalInvGamma.set_a, Gen.NormalInvGamma.set_a_unchecked, Gen.NormalInvGamma.set_b, Gen.NormalInvGamma.set_b_unchecked, Gen.NormalInvGamma.set_m, Gen.NormalInvGamma.set_m_unchecked, Gen.NormalInvGamma.set_v, Gen.NormalInvGamma.set_v_unchecked]
  split_ifs <;> simp <;> c10_close

example : ∃ d', Gen.NormalInvGamma.set_m ({ m := fin (-1), v := fin 2, a := fin 2, b := fin 2 } : Gen.NormalInvGamma X) (fin 5) = .ok d' := by c10_eval []

-- @site NormalInvGamma.from_params
/-- parameter round trip -/
theorem NormalInvGamma_from_emit (d : Gen.NormalInvGamma X) :
    Gen.NormalInvGamma.from_params (Gen.NormalInvGamma.emit_params d) = d := by
  rfl

example : Gen.NormalInvGamma.from_params (Gen.NormalInvGamma.emit_params ({ m := fin (-1), v := fin 2, a := fin 2, b := fin 2 } : Gen.NormalInvGamma X)) = ({ m := fin (-1), v := fin 2, a := fin 2, b := fin 2 } : Gen.NormalInvGamma X) := by c10_eval []

-- @site NormalInvGamma.from_params
/-- `from_params (emit_params ·)` is the identity on every object built by the checked constructor -/
theorem NormalInvGamma_new_eq_from_params (m : X) (v : X) (a : X) (b : X) (d : Gen.NormalInvGamma X) :
    Gen.NormalInvGamma.new m v a b = .ok d → Gen.NormalInvGamma.from_params (Gen.NormalInvGamma.emit_params d) = d := by
  simp only [Gen.NormalInvGamma.emit_params, Gen.NormalInvGamma.from_params, Gen.NormalInvGamma.get_a, Gen.NormalInvGamma.get_b, Gen.NormalInvGamma.get_m, Gen.NormalInvGamma.get_v, Gen.NormalInvGamma.new, Gen.NormalInvGamma.new_unchecked, Gen.NormalInvGamma.set_a, Gen.NormalInvGamma.set_a_unchecked, Gen.NormalInvGamma.set_b, Gen.NormalInvGamma.set_b_unchecked, Gen.NormalInvGamma.set_m, Gen.NormalInvGamma.set_m_unchecked, Gen.NormalInvGamma.set_v, Gen.NormalInvGamma.set_v_unchecked]
  split_ifs <;> simp <;> c10_close

example : Gen.NormalInvGamma.new (fin (-1)) (fin 2) (fin 2) (fin 2) = .ok ({ m := fin (-1), v := fin 2, a := fin 2, b := fin 2 } : Gen.NormalInvGamma X) := by c10_eval []

end NormalInvGamma

/-! ## NormalInvChiSquared  (`src/dist/normal_inv_chi_squared.rs`) -/
section NormalInvChiSquared
attribute [local simp] Gen.NormalInvChiSquared.emit_params Gen.NormalInvChiSquared.from_params Gen.NormalInvChiSquared.get_k Gen.NormalInvChiSquared.get_m Gen.NormalInvChiSquared.get_s2 Gen.NormalInvChiSquared.get_v Gen.NormalInvChiSquared.new Gen.NormalInvChiSquared.new_unchecked Gen.NormalInvChiSquared.set_k Gen.NormalInvChiSquared.set_k_unchecked Gen.NormalInvChiSquared.set_m Gen.NormalInvChiSquared.set_m_unchecked Gen.NormalInvChiSquared.set_s2 Gen.NormalInvChiSquared.set_s2_unchecked Gen.NormalInvChiSquared.set_v Gen.NormalInvChiSquared.set_v_unchecked Spec.NormalInvChiSquared.Valid Spec.NormalInvChiSquared.Inv

-- @site NormalInvChiSquared.new
/-- `NormalInvChiSquared::new` succeeds iff every parameter is in the documented domain — for ALL values incl. NaN, ±inf -/
theorem NormalInvChiSquared_new_ok_iff (m : X) (k : X) (v : X) (s2 : X) :
    (∃ d, Gen.NormalInvChiSquared.new m k v s2 = .ok d) ↔ Spec.NormalInvChiSquared.Valid m k v s2 := by
  rcases m with _|_|_|m <;> (try simp) <;>
    rcases k with _|_|_|k <;> (try simp) <;>
    rcases v with _|_|_|v <;> (try simp) <;>
    rcases s2 with _|_|_|s2 <;>
    (try simp) <;> c10_close

example : ∃ d, Gen.NormalInvChiSquared.new (fin (-1)) (fin 2) (fin 2) (fin 2) = .ok d := (NormalInvChiSquared_new_ok_iff ..).mpr (by c10_spec [Spec.NormalInvChiSquared.Valid])

example : ¬ ∃ d, Gen.NormalInvChiSquared.new (nan) (fin 2) (fin 2) (fin 2) = .ok d := by rw [NormalInvChiSquared_new_ok_iff]; c10_spec [Spec.NormalInvChiSquared.Valid]

-- @site NormalInvChiSquared.new
/-- on success the object carries exactly the given parameters -/
theorem NormalInvChiSquared_new_ok_fields (m : X) (k : X) (v : X) (s2 : X) (d : Gen.NormalInvChiSquared X) :
    Gen.NormalInvChiSquared.new m k v s2 = .ok d → d = ({ m := m, k := k, v := v, s2 := s2 } : Gen.NormalInvChiSquared X) := by
  simp only [Gen.NormalInvChiSquared.emit_params, Gen.NormalInvChiSquared.from_params, Gen.NormalInvChiSquared.get_k, Gen.NormalInvChiSquared.get_m, Gen.NormalInvChiSquared.get_s2, Gen.NormalInvChiSquared.get_v, Gen.NormalInvChiSquared.new, Gen.NormalInvChiSquared.new_unchecked, Gen.NormalInvChiSquared.set_k, Gen.NormalInvChiSquared.set_k_unchecked, Gen.NormalInvChiSquared.set_m, Gen.NormalInvChiSquared.set_m_unchecked, Gen.NormalInvChiSquared.set_s2, Gen.NormalInvChiSquared.set_s2_unchecked, Gen.NormalInvChiSquared.set_v, Gen.NormalInvChiSquared.set_v_unchecked]
  split_ifs <;> simp <;> c10_close

example : Gen.NormalInvChiSquared.new (fin (-1)) (fin 2) (fin 2) (fin 2) = .ok ({ m := fin (-1), k := fin 2, v := fin 2, s2 := fin 2 } : Gen.NormalInvChiSquared X) := by c10_eval []

-- @site NormalInvChiSquared.new
/-- checked and unchecked constructors build the same object -/
theorem NormalInvChiSquared_new_eq_unchecked (m : X) (k : X) (v : X) (s2 : X) (d : Gen.NormalInvChiSquared X) :
    Gen.NormalInvChiSquared.new m k v s2 = .ok d → d = Gen.NormalInvChiSquared.new_unchecked m k v s2 := by
  simp only [Gen.NormalInvChiSquared.emit_params, Gen.NormalInvChiSquared.from_params, Gen.NormalInvChiSquared.get_k, Gen.NormalInvChiSquared.get_m, Gen.NormalInvChiSquared.get_s2, Gen.NormalInvChiSquared.get_v, Gen.NormalInvChiSquared.new, Gen.NormalInvChiSquared.new_unchecked, Gen.NormalInvChiSquared.set_k, Gen.NormalInvChiSquared.set_k_unchecked, Gen.NormalInvChiSquared.set_m, Gen.NormalInvChiSquared.set_m_unchecked, Gen.NormalInvChiSquared.set_s2, Gen.NormalInvChiSquared.set_s2_unchecked, Gen.NormalInvChiSquared.set_v, Gen.NormalInvChiSquared.set_v_unchecked]
  split_ifs <;> simp <;> c10_close

example : Gen.NormalInvChiSquared.new (fin (-1)) (fin 2) (fin 2) (fin 2) = .ok (Gen.NormalInvChiSquared.new_unchecked (fin (-1)) (fin 2) (fin 2) (fin 2)) := by c10_eval []

-- @site NormalInvChiSquared.new
/-- an object obtained from the checked constructor satisfies the parameter invariant -/
theorem NormalInvChiSquared_new_inv (m : X) (k : X) (v : X) (s2 : X) (d : Gen.NormalInvChiSquared X) :
    Gen.NormalInvChiSquared.new m k v s2 = .ok d → Spec.NormalInvChiSquared.Inv d := by
  intro h
  rw [NormalInvChiSquared_new_ok_fields m k v s2 d h]
  exact (NormalInvChiSquared_new_ok_iff m k v s2).mp ⟨d, h⟩

example : Spec.NormalInvChiSquared.Inv ({ m := fin (-1), k := fin 2, v := fin 2, s2 := fin 2 } : Gen.NormalInvChiSquared X) := NormalInvChiSquared_new_inv (fin (-1)) (fin 2) (fin 2) (fin 2) _ (by c10_eval [])

-- @site NormalInvChiSquared.new
/-- on failure the error names an argument that IS outside its documented domain and carries its value -/
theorem NormalInvChiSquared_new_err_offending (m : X) (k : X) (v : X) (s2 : X) (e : Err X) :
    Gen.NormalInvChiSquared.new m k v s2 = .error e →
     (¬ Spec.C10.IsFin m ∧ (e = Err.mk "MNotFinite" [m])) ∨
     (¬ Spec.C10.IsPos k ∧ (e = Err.mk "KTooLow" [k] ∨ e = Err.mk "KNotFinite" [k])) ∨
     (¬ Spec.C10.IsPos v ∧ (e = Err.mk "VTooLow" [v] ∨ e = Err.mk "VNotFinite" [v])) ∨
     (¬ Spec.C10.IsPos s2 ∧ (e = Err.mk "S2TooLow" [s2] ∨ e = Err.mk "S2NotFinite" [s2])) := by
  rcases m with _|_|_|m <;> (try simp) <;>
    rcases k with _|_|_|k <;> (try simp) <;>
    rcases v with _|_|_|v <;> (try simp) <;>
    rcases s2 with _|_|_|s2 <;>
    (try simp) <;> c10_close

example : ∃ e, Gen.NormalInvChiSquared.new (nan) (fin 2) (fin 2) (fin 2) = .error e := by c10_eval []

/- FULL STATEMENT (false, see the counterexample below — the code first tests the finiteness of all four arguments, then the sign of v BEFORE that of k):
   theorem NormalInvChiSquared_new_err_first (m : X) (k : X) (v : X) (s2 : X) (e : Err X) :
     Gen.NormalInvChiSquared.new m k v s2 = .error e →
     (¬ Spec.C10.IsFin m → (e = Err.mk "MNotFinite" [m])) ∧
     (Spec.C10.IsFin m → ¬ Spec.C10.IsPos k → (e = Err.mk "KTooLow" [k] ∨ e = Err.mk "KNotFinite" [k])) ∧
     (Spec.C10.IsFin m → Spec.C10.IsPos k → ¬ Spec.C10.IsPos v → (e = Err.mk "VTooLow" [v] ∨ e = Err.mk "VNotFinite" [v])) ∧
     (Spec.C10.IsFin m → Spec.C10.IsPos k → Spec.C10.IsPos v → ¬ Spec.C10.IsPos s2 → (e = Err.mk "S2TooLow" [s2] ∨ e = Err.mk "S2NotFinite" [s2]))
-/

-- @site NormalInvChiSquared.new
/-- first-offending-argument order holds only under the extra hypotheses; the code first tests the finiteness of all four arguments, then the sign of v BEFORE that of k -/
theorem NormalInvChiSquared_new_err_first_partial (m : X) (k : X) (v : X) (s2 : X) (e : Err X) :
    Spec.C10.IsFin k → Spec.C10.IsFin v → Spec.C10.IsFin s2 → Spec.C10.IsPos k ∨ Spec.C10.IsPos v → Gen.NormalInvChiSquared.new m k v s2 = .error e →
     (¬ Spec.C10.IsFin m → (e = Err.mk "MNotFinite" [m])) ∧
     (Spec.C10.IsFin m → ¬ Spec.C10.IsPos k → (e = Err.mk "KTooLow" [k] ∨ e = Err.mk "KNotFinite" [k])) ∧
     (Spec.C10.IsFin m → Spec.C10.IsPos k → ¬ Spec.C10.IsPos v → (e = Err.mk "VTooLow" [v] ∨ e = Err.mk "VNotFinite" [v])) ∧
     (Spec.C10.IsFin m → Spec.C10.IsPos k → Spec.C10.IsPos v → ¬ Spec.C10.IsPos s2 → (e = Err.mk "S2TooLow" [s2] ∨ e = Err.mk "S2NotFinite" [s2])) := by
  rcases m with _|_|_|m <;> (try simp) <;>
    rcases k with _|_|_|k <;> (try simp) <;>
    rcases v with _|_|_|v <;> (try simp) <;>
    rcases s2 with _|_|_|s2 <;>
    (try simp) <;> c10_close

example : ∃ e, Gen.NormalInvChiSquared.new (fin (-1)) (fin 2) (fin 2) (fin 0) = .error e := by c10_eval []

-- @site NormalInvChiSquared.new
/-- DEFECT (order clause only): an earlier argument is invalid but the error names a later one; the code first tests the finiteness of all four arguments, then the sign of v BEFORE that of k -/
theorem NormalInvChiSquared_new_err_order_counterexample :
    ¬ Spec.C10.IsPos (fin (-1) : X) ∧
    Gen.NormalInvChiSquared.new (fin 0) (fin (-1)) (nan) (fin 1) = .error (Err.mk "VNotFinite" [nan] : Err X) := by
  c10_eval []

-- @site NormalInvChiSquared.new
/-- DEFECT (order clause only): an earlier argument is invalid but the error names a later one; the code first tests the finiteness of all four arguments, then the sign of v BEFORE that of k -/
theorem NormalInvChiSquared_new_err_order_counterexample2 :
    ¬ Spec.C10.IsPos (fin (-1) : X) ∧
    Gen.NormalInvChiSquared.new (fin 0) (fin (-1)) (fin (-2)) (fin 1) = .error (Err.mk "VTooLow" [fin (-2)] : Err X) := by
  c10_eval []

-- @site NormalInvChiSquared.set_m
/-- `set_m` succeeds iff the new value is in the documented domain of `m` (finite) -/
theorem NormalInvChiSquared_set_m_ok_iff (d : Gen.NormalInvChiSquared X) (v : X) :
    (∃ d', Gen.NormalInvChiSquared.set_m d v = .ok d') ↔ Spec.C10.IsFin v := by
  rcases v with _|_|_|v <;>
    simp <;> c10_close

example : ∃ d', Gen.NormalInvChiSquared.set_m ({ m := fin (-1), k := fin 2, v := fin 2, s2 := fin 2 } : Gen.NormalInvChiSquared X) (fin 5) = .ok d' := (NormalInvChiSquared_set_m_ok_iff ..).mpr (by c10_spec [])

-- @site NormalInvChiSquared.set_m
/-- on failure the error carries the offending value -/
theorem NormalInvChiSquared_set_m_err (d : Gen.NormalInvChiSquared X) (v : X) (e : Err X) :
    Gen.NormalInvChiSquared.set_m d v = .error e → ¬ Spec.C10.IsFin v ∧ (e = Err.mk "MNotFinite" [v]) := by
  rcases v with _|_|_|v <;>
    simp <;> c10_close

example : ∃ e, Gen.NormalInvChiSquared.set_m ({ m := fin (-1), k := fin 2, v := fin 2, s2 := fin 2 } : Gen.NormalInvChiSquared X) (nan) = .error e := by c10_eval []

-- @site NormalInvChiSquared.set_m
/-- on success only that field (and its cache) changes; same object as the unchecked setter -/
theorem NormalInvChiSquared_set_m_ok_fields (d d' : Gen.NormalInvChiSquared X) (v : X) :
    Gen.NormalInvChiSquared.set_m d v = .ok d' → d' = { d with m := v } ∧ d' = Gen.NormalInvChiSquared.set_m_unchecked d v := by
  simp only [Gen.NormalInvChiSquared.emit_params, Gen.NormalInvChiSquared.from_params, Gen.NormalInvChiSquared.get_k, Gen.NormalInvChiSquared.get_m, Gen.NormalInvChiSquared.get_s2, Gen.NormalInvChiSquared.get_v, Gen.NormalInvChiSquared.new, Gen.NormalInvChiSquared.new_unchecked, Gen.NormalInvChiSquared.set_k, Gen.NormalInvChiSquared.set_k_unchecked, Gen.NormalInvChiSquared.set_m, Gen.NormalInvChiSquared.set_m_unchecked, Gen.NormalInvChiSquared.set_s2, Gen.NormalInvChiSquared.set_s2_unchecked, Gen.NormalInvChiSquared.set_v, Gen.NormalInvChiSquared.set_v_unchecked]
  split_ifs <;> simp <;> c10_close

example : Gen.NormalInvChiSquared.set_m ({ m := fin (-1), k := fin 2, v := fin 2, s2 := fin 2 } : Gen.NormalInvChiSquared X) (fin 5) = .ok ({ m := fin 5, k := fin 2, v := fin 2, s2 := fin 2 } : Gen.NormalInvChiSquared X) := by c10_eval []

-- @site NormalInvChiSquared.set_m
/-- failure atomicity (structural): either an error without a new state, or exactly the updated state -/
theorem NormalInvChiSquared_set_m_atomic (d : Gen.NormalInvChiSquared X) (v : X) :
    (∃ e, Gen.NormalInvChiSquared.set_m d v = .error e) ∨ (∃ d', Gen.NormalInvChiSquared.set_m d v = .ok d' ∧ d' = { d with m := v }) := by
  simp only [Gen.NormalInvChiSquared.emit_params, Gen.NormalInvChiSquared.from_params, Gen.NormalInvChiSquared.get_k, Gen.NormalInvChiSquared.get_m, Gen.NormalInvChiSquared.get_s2, Gen.NormalInvChiSquared.get_v, Gen.NormalInvChiSquared.new, Gen.NormalInvChiSquared.new_unchecked, Gen.NormalInvChiSquared.set_k, Gen.NormalInvChiSquared.set_k_unchecked, Gen.NormalInvChiSquared.set_m, Gen.NormalInvChiSquared.set_m_unchecked, Gen.NormalInvChiSquared.set_s2, Gen.NormalInvChiSquared.set_s2_unchecked, Gen.NormalInvChiSquared.set_v, Gen.NormalInvChiSquared.set_v_unchecked]
  split_ifs <;> simp <;> c10_close

example : ∃ e, Gen.NormalInvChiSquared.set_m ({ m := fin (-1), k := fin 2, v := fin 2, s2 := fin 2 } : Gen.NormalInvChiSquared X) (nan) = .error e := by c10_eval []

-- @site NormalInvChiSquared.set_m
/-- a successful checked setter preserves the parameter invariant -/
theorem NormalInvChiSquared_set_m_inv (d d' : Gen.NormalInvChiSquared X) (v : X) :
    Spec.NormalInvChiSquared.Inv d → Gen.NormalInvChiSquared.set_m d v = .ok d' → Spec.NormalInvChiSquared.Inv d' := by
  rcases d with ⟨f0, f1, f2, f3⟩
  rcases v with _|_|_|v <;>
    simp <;> c10_close

example : Spec.NormalInvChiSquared.Inv ({ m := fin (-1), k := fin 2, v := fin 2, s2 := fin 2 } : Gen.NormalInvChiSquared X) := by c10_spec [Spec.NormalInvChiSquared.Inv, Spec.NormalInvChiSquared.Valid]

-- @site NormalInvChiSquared.set_k
/-- `set_k` succeeds iff the new value is in the documented domain of `k` (finite, > 0) -/
theorem NormalInvChiSquared_set_k_ok_iff (d : Gen.NormalInvChiSquared X) (v : X) :
    (∃ d', Gen.NormalInvChiSquared.set_k d v = .ok d') ↔ Spec.C10.IsPos v := by
  rcases v with _|_|_|v <;>
    simp <;> c10_close

example : ∃ d', Gen.NormalInvChiSquared.set_k ({ m := fin (-1), k := fin 2, v := fin 2, s2 := fin 2 } : Gen.NormalInvChiSquared X) (fin 7) = .ok d' := (NormalInvChiSquared_set_k_ok_iff ..).mpr (by c10_spec [])

-- @site NormalInvChiSquared.set_k
/-- on failure the error carries the offending value -/
theorem NormalInvChiSquared_set_k_err (d : Gen.NormalInvChiSquared X) (v : X) (e : Err X) :
    Gen.NormalInvChiSquared.set_k d v = .error e → ¬ Spec.C10.IsPos v ∧ (e = Err.mk "KTooLow" [v] ∨ e = Err.mk "KNotFinite" [v]) := by
  rcases v with _|_|_|v <;>
    simp <;> c10_close

example : ∃ e, Gen.NormalInvChiSquared.set_k ({ m := fin (-1), k := fin 2, v := fin 2, s2 := fin 2 } : Gen.NormalInvChiSquared X) (fin 0) = .error e := by c10_eval []

-- @site NormalInvChiSquared.set_k
/-- on success only that field (and its cache) changes; same object as the unchecked setter -/
theorem NormalInvChiSquared_set_k_ok_fields (d d' : Gen.NormalInvChiSquared X) (v : X) :
    Gen.NormalInvChiSquared.set_k d v = .ok d' → d' = { d with k := v } ∧ d' = Gen.NormalInvChiSquared.set_k_unchecked d v := by
  simp only [Gen.NormalInvChiSquared.emit_params, Gen.NormalInvChiSquared.from_params, Gen.NormalInvChiSquared.get_k, Gen.NormalInvChiSquared.get_m, Gen.NormalInvChiSquared.get_s2, Gen.NormalInvChiSquared.get_v, Gen.NormalInvChiSquared.new, Gen.NormalInvChiSquared.new_unchecked, Gen.NormalInvChiSquared.set_k, Gen.NormalInvChiSquared.set_k_unchecked, Gen.NormalInvChiSquared.set_m, Gen.NormalInvChiSquared.set_m_unchecked, Gen.NormalInvChiSquared.set_s2, Gen.NormalInvChiSquared.set_s2_unchecked, Gen.NormalInvChiSquared.set_v, Gen.NormalInvChiSquared.set_v_unchecked]
  split_ifs <;> simp <;> c10_close

example : Gen.NormalInvChiSquared.set_k ({ m := fin (-1), k := fin 2, v := fin 2, s2 := fin 2 } : Gen.NormalInvChiSquared X) (fin 7) = .ok ({ m := fin (-1), k := fin 7, v := fin 2, s2 := fin 2 } : Gen.NormalInvChiSquared X) := by c10_eval []

-- @site NormalInvChiSquared.set_k
/-- failure atomicity (structural): either an error without a new state, or exactly the updated state -/
theorem NormalInvChiSquared_set_k_atomic (d : Gen.NormalInvChiSquared X) (v : X) :
    (∃ e, Gen.NormalInvChiSquared.set_k d v = .error e) ∨ (∃ d', Gen.NormalInvChiSquared.set_k d v = .ok d' ∧ d' = { d with k := v }) := by
  simp only [Gen.NormalInvChiSquared.emit_params, Gen.NormalInvChiSquared.from_params, Gen.NormalInvChiSquared.get_k, Gen.NormalInvChiSquared.get_m, Gen.NormalInvChiSquared.get_s2, Gen.NormalInvChiSquared.get_v, Gen.NormalInvChiSquared.new, Gen.NormalInvChiSquared.new_unchecked, Gen.NormalInvChiSquared.set_k, Gen.NormalInvChiSquared.set_k_unchecked, Gen.NormalInvChiSquared.set_m, Gen.NormalInvChiSquared.set_m_unchecked, Gen.NormalInvChiSquared.set_s2, Gen.NormalInvChiSquared.set_s2_unchecked, Gen.NormalInvChiSquared.set_v, Gen.NormalInvChiSquared.set_v_unchecked]
  split_ifs <;> simp <;> c10_close

example : ∃ e, Gen.NormalInvChiSquared.set_k ({ m := fin (-1), k := fin 2, v := fin 2, s2 := fin 2 } : Gen.NormalInvChiSquared X) (fin 0) = .error e := by c10_eval []

-- @site NormalInvChiSquared.set_k
/-- a successful checked setter preserves the parameter invariant -/
theorem NormalInvChiSquared_set_k_inv (d d' : Gen.NormalInvChiSquared X) (v : X) :
    Spec.NormalInvChiSquared.Inv d → Gen.NormalInvChiSquared.set_k d v = .ok d' → Spec.NormalInvChiSquared.Inv d' := by
  rcases d with ⟨f0, f1, f2, f3⟩
  rcases v with _|_|_|v <;>
    simp <;> c10_close

example : Spec.NormalInvChiSquared.Inv ({ m := fin (-1), k := fin 2, v := fin 2, s2 := fin 2 } : Gen.NormalInvChiSquared X) := by c10_spec [Spec.NormalInvChiSquared.Inv, Spec.NormalInvChiSquared.Valid]

-- @site NormalInvChiSquared.set_v
/-- `set_v` succeeds iff the new value is in the documented domain of `v` (finite, > 0) -/
theorem NormalInvChiSquared_set_v_ok_iff (d : Gen.NormalInvChiSquared X) (v : X) :
    (∃ d', Gen.NormalInvChiSquared.set_v d v = .ok d') ↔ Spec.C10.IsPos v := by
  rcases v with _|_|_|v <;>
    simp <;> c10_close

example : ∃ d', Gen.NormalInvChiSquared.set_v ({ m := fin (-1), k := fin 2, v := fin 2, s2 := fin 2 } : Gen.NormalInvChiSquared X) (fin 7) = .ok d' := (NormalInvChiSquared_set_v_ok_iff ..).mpr (by c10_spec [])

-- @site NormalInvChiSquared.set_v
/-- on failure the error carries the offending value -/
theorem NormalInvChiSquared_set_v_err (d : Gen.NormalInvChiSquared X) (v : X) (e : Err X) :
    Gen.NormalInvChiSquared.set_v d v = .error e → ¬ Spec.C10.IsPos v ∧ (e = Err.mk "VTooLow" [v] ∨ e = Err.mk "VNotFinite" [v]) := by
  rcases v with _|_|_|v <;>
    simp <;> c10_close

example : ∃ e, Gen.NormalInvChiSquared.set_v ({ m := fin (-1), k := fin 2, v := fin 2, s2 := fin 2 } : Gen.NormalInvChiSquared X) (fin 0) = .error e := by c10_eval []

-- @site NormalInvChiSquared.set_v
/-- on success only that field (and its cache) changes; same object as the unchecked setter -/
theorem NormalInvChiSquared_set_v_ok_fields (d d' : Gen.NormalInvChiSquared X) (v : X) :
    Gen.NormalInvChiSquared.set_v d v = .ok d' → d' = { d with v := v } ∧ d' = Gen.NormalInvChiSquared.set_v_unchecked d v := by
  simp only [Gen.NormalInvChiSquared.emit_params, Gen.NormalInvChiSquared.from_params, Gen.NormalInvChiSquared.get_k, Gen.NormalInvChiSquared.get_m, Gen.NormalInvChiSquared.get_s2, Gen.NormalInvChiSquared.get_v, Gen.NormalInvChiSquared.new, Gen.NormalInvChiSquared.new_unchecked, Gen.NormalInvChiSquared.set_k, Gen.NormalInvChiSquared.set_k_unchecked, Gen.NormalInvChiSquared.set_m, Gen.NormalInvChiSquared.set_m_unchecked, Gen.NormalInvChiSquared.set_s2, Gen.NormalInvChiSquared.set_s2_unchecked, Gen.NormalInvChiSquared.set_v, Gen.NormalInvChiSquared.set_v_unchecked]
  split_ifs <;> simp <;> c10_close

example : Gen.NormalInvChiSquared.set_v ({ m := fin (-1), k := fin 2, v := fin 2, s2 := fin 2 } : Gen.NormalInvChiSquared X) (fin 7) = .ok ({ m := fin (-1), k := fin 2, v := fin 7, s2 := fin 2 } : Gen.NormalInvChiSquared X) := by c10_eval []

-- @site NormalInvChiSquared.set_v
/-- failure atomicity (structural): either an error without a new state, or exactly the updated state -/
theorem NormalInvChiSquared_set_v_atomic (d : Gen.NormalInvChiSquared X) (v : X) :
    (∃ e, Gen.NormalInvChiSquared.set_v d v = .error e) ∨ (∃ d', Gen.NormalInvChiSquared.set_v d v = .ok d' ∧ d' = { d with v := v }) := by
  simp only [Gen.NormalInvChiSquared.emit_params, Gen.NormalInvChiSquared.from_params, Gen.NormalInvChiSquared.get_k, Gen.NormalInvChiSquared.get_m, Gen.NormalInvChiSquared.get_s2, Gen.NormalInvChiSquared.get_v, Gen.NormalInvChiSquared.new, Gen.NormalInvChiSquared.new_unchecked, Gen.NormalInvChiSquared.set_k, Gen.NormalInvChiSquared.set_k_unchecked, Gen.NormalInvChiSquared.set_m, Gen.NormalInvChiSquared.set_m_unchecked, Gen.NormalInvChiSquared.set_s2, Gen.NormalInvChiSquared.set_s2_unchecked, Gen.NormalInvChiSquared.set_v, Gen.NormalInvChiSquared.set_v_unchecked]
  split_ifs <;> simp <;> c10_close

example : ∃ e, Gen.NormalInvChiSquared.set_v ({ m := fin (-1), k := fin 2, v := fin 2, s2 := fin 2 } : Gen.NormalInvChiSquared X) (fin 0) = .error e := by c10_eval []

-- @site NormalInvChiSquared.set_v
/-- a successful checked setter preserves the parameter invariant -/
theorem NormalInvChiSquared_set_v_inv (d d' : Gen.NormalInvChiSquared X) (v : X) :
    Spec.NormalInvChiSquared.Inv d → Gen.NormalInvChiSquared.set_v d v = .ok d' → Spec.NormalInvChiSquared.Inv d' := by
  rcases d with ⟨f0, f1, f2, f3⟩
  rcases v with _|_|_|v <;>
    simp <;> c10_close

example : Spec.NormalInvChiSquared.Inv ({ m := fin (-1), k := fin 2, v := fin 2, s2 := fin 2 } : Gen.NormalInvChiSquared X) := by c10_spec [Spec.NormalInvChiSquared.Inv, Spec.NormalInvChiSquared.Valid]

-- @site NormalInvChiSquared.set_s2
/-- `set_s2` succeeds iff the new value is in the documented domain of `s2` (finite, > 0) -/
theorem NormalInvChiSquared_set_s2_ok_iff (d : Gen.NormalInvChiSquared X) (v : X) :
    (∃ d', Gen.NormalInvChiSquared.set_s2 d v = .ok d') ↔ Spec.C10.IsPos v := by
  rcases v with _|_|_|v <;>
    simp <;> c10_close

example : ∃ d', Gen.NormalInvChiSquared.set_s2 ({ m := fin (-1), k := fin 2, v := fin 2, s2 := fin 2 } : Gen.NormalInvChiSquared X) (fin 7) = .ok d' := (NormalInvChiSquared_set_s2_ok_iff ..).mpr (by c10_spec [])

-- @site NormalInvChiSquared.set_s2
/-- on failure the error carries the offending value -/
theorem NormalInvChiSquared_set_s2_err (d : Gen.NormalInvChiSquared X) (v : X) (e : Err X) :
    Gen.NormalInvChiSquared.set_s2 d v = .error e → ¬ Spec.C10.IsPos v ∧ (e = Err.mk "S2TooLow" [v] ∨ e = Err.mk "S2NotFinite" [v]) := by
  rcases v with _|_|_|v <;>
    simp <;> c10_close

example : ∃ e, Gen.NormalInvChiSquared.set_s2 ({ m := fin (-1), k := fin 2, v := fin 2, s2 := fin 2 } : Gen.NormalInvChiSquared X) (fin 0) = .error e := by c10_eval []

-- @site NormalInvChiSquared.set_s2
/-- on success only that field (and its cache) changes; same object as the unchecked setter -/
theorem NormalInvChiSquared_set_s2_ok_fields (d d' : Gen.NormalInvChiSquared X) (v : X) :
    Gen.NormalInvChiSquared.set_s2 d v = .ok d' → d' = { d with s2 := v } ∧ d' = Gen.NormalInvChiSquared.set_s2_unchecked d v := by
  simp only [Gen.NormalInvChiSquared.emit_params, Gen.NormalInvChiSquared.from_params, Gen.NormalInvChiSquared.get_k, Gen.NormalInvChiSquared.get_m, Gen.NormalInvChiSquared.get_s2, Gen.NormalInvChiSquared.get_v, Gen.NormalInvChiSquared.new, Gen.NormalInvChiSquared.new_unchecked, Gen.NormalInvChiSquared.set_k, Gen.NormalInvChiSquared.set_k_unchecked, Gen.NormalInvChiSquared.set_m, Gen.NormalInvChiSquared.set_m_unchecked, Gen.NormalInvChiSquared.set_s2, Gen.NormalInvChiSquared.set_s2_unchecked, Gen.NormalInvChiSquared.set_v, Gen.NormalInvChiSquared.set_v_unchecked]
  split_ifs <;> simp <;> c10_close

example : Gen.NormalInvChiSquared.set_s2 ({ m := fin (-1), k := fin 2, v := fin 2, s2 := fin 2 } : Gen.NormalInvChiSquared X) (fin 7) = .ok ({ m := fin (-1), k := fin 2, v := fin 2, s2 := fin 7 } : Gen.NormalInvChiSquared X) := by c10_eval []

-- @site NormalInvChiSquared.set_s2
/-- failure atomicity (structural): either an error without a new state, or exactly the updated state -/
theorem NormalInvChiSquared_set_s2_atomic (d : Gen.NormalInvChiSquared X) (v : X) :
    (∃ e, Gen.NormalInvChiSquared.set_s2 d v = .error e) ∨ (∃ d', Gen.NormalInvChiSquared.set_s2 d v = .ok d' ∧ d' = { d with s2 := v }) := by
  simp only [Gen.NormalInvChiSquared.emit_params, Gen.NormalInvChiSquared.from_params, Gen.NormalInvChiSquared.get_k, Gen.NormalInvChiSquared.get_m, Gen.NormalInvChiSquared.get_s2, Gen.NormalInvChiSquared.get_v, Gen.NormalInvChiSquared.new, Gen.NormalInvChiSquared.new_unchecked, Gen.NormalInvChiSquared.set_k, Gen.NormalInvChiSquared.set_k_unchecked, Gen.NormalInvChiSquared.set_m, Gen.NormalInvChiSquared.set_m_unchecked, Gen.NormalInvChiSquared.set_s2, Gen.NormalInvChiSquared.set_s2_unchecked, Gen.NormalInvChiSquared.set_v, Gen.NormalInvChiSquared.set_v_unchecked]
  split_ifs <;> simp <;> c10_close

example : ∃ e, Gen.NormalInvChiSquared.set_s2 ({ m := fin (-1), k := fin 2, v := fin 2, s2 := fin 2 } : Gen.NormalInvChiSquared X) (fin 0) = .error e := by c10_eval []

-- @site NormalInvChiSquared.set_s2
/-- a successful checked setter preserves the parameter invariant -/
theorem NormalInvChiSquared_set_s2_inv (d d' : Gen.NormalInvChiSquared X) (v : X) :
    Spec.NormalInvChiSquared.Inv d → Gen.NormalInvChiSquared.set_s2 d v = .ok d' → Spec.NormalInvChiSquared.Inv d' := by
  rcases d with ⟨f0, f1, f2, f3⟩
  rcases v with _|_|_|v <;>
    simp <;> c10_close

example : Spec.NormalInvChiSquared.Inv ({ m := fin (-1), k := fin 2, v := fin 2, s2 := fin 2 } : Gen.NormalInvChiSquared X) := by c10_spec [Spec.NormalInvChiSquared.Inv, Spec.NormalInvChiSquared.Valid]

-- @site NormalInvChiSquared.new
/-- a sequence of accepted setters ending in parameters θ yields the object `new θ` builds -/
theorem NormalInvChiSquared_build_eq (d d1 d2 d3 d4 : Gen.NormalInvChiSquared X) (m : X) (k : X) (v : X) (s2 : X) :
    Gen.NormalInvChiSquared.set_m d m = .ok d1 →
    Gen.NormalInvChiSquared.set_k d1 k = .ok d2 →
    Gen.NormalInvChiSquared.set_v d2 v = .ok d3 →
    Gen.NormalInvChiSquared.set_s2 d3 s2 = .ok d4 →
    Gen.NormalInvChiSquared.new m k v s2 = .ok d4 := by
  rcases d with ⟨f0, f1, f2, f3⟩
  simp only [Gen.NormalInvChiSquared.emit_params, Gen.NormalInvChiSquared.from_params, Gen.NormalInvChiSquared.get_k, Gen.NormalInvChiSquared.get_m, Gen.NormalInvChiSquared.get_s2, Gen.NormalInvChiSquared.get_v, Gen.NormalInvChiSquared.new, Gen.NormalInvChiSquared.new_unchecked, Gen.NormalInvChiSquared.set_k, Gen.NormalInvChiSquared.set_k_unchecked, Gen.NormalInvChiSquared.set_m, Gen.NormalInvChiSquared.set_m_unchecked, Gen.NormalInvChiSquared.set_s2, Gen.NormalInvChiSquared.set_s2_unchecked, Gen.NormalInvChiSquared.set_v, Gen.NormalInvChiSquared.set_v_unchecked]
  split_ifs <;> simp <;> c10_close

example : ∃ d', Gen.NormalInvChiSquared.set_m ({ m := fin (-1), k := fin 2, v := fin 2, s2 := fin 2 } : Gen.NormalInvChiSquared X) (fin 5) = .ok d' := by c10_eval []

-- @site NormalInvChiSquared.from_params
/-- parameter round trip -/
theorem NormalInvChiSquared_from_emit (d : Gen.NormalInvChiSquared X) :
    Gen.NormalInvChiSquared.from_params (Gen.NormalInvChiSquared.emit_params d) = d := by
  rfl

example : Gen.NormalInvChiSquared.from_params (Gen.NormalInvChiSquared.emit_params ({ m := fin (-1), k := fin 2, v := fin 2, s2 := fin 2 } : Gen.NormalInvChiSquared X)) = ({ m := fin (-1), k := fin 2, v := fin 2, s2 := fin 2 } : Gen.NormalInvChiSquared X) := by c10_eval []

-- @site NormalInvChiSquared.from_params
/-- `from_params (emit_params ·)` is the identity on every object built by the checked constructor -/
theorem NormalInvChiSquared_new_eq_from_params (m : X) (k : X) (v : X) (s2 : X) (d : Gen.NormalInvChiSquared X) :
    Gen.NormalInvChiSquared.new m k v s2 = .ok d → Gen.NormalInvChiSquared.from_params (Gen.NormalInvChiSquared.emit_params d) = d := by
  simp only [Gen.NormalInvChiSquared.emit_params, Gen.NormalInvChiSquared.from_params, Gen.NormalInvChiSquared.get_k, Gen.NormalInvChiSquared.get_m, Gen.NormalInvChiSquared.get_s2, Gen.NormalInvChiSquared.get_v, Gen.NormalInvChiSquared.new, Gen.NormalInvChiSquared.new_unchecked, Gen.NormalInvChiSquared.set_k, Gen.NormalInvChiSquared.set_k_unchecked, Gen.NormalInvChiSquared.set_m, Gen.NormalInvChiSquared.set_m_unchecked, Gen.NormalInvChiSquared.set_s2, Gen.NormalInvChiSquared.set_s2_unchecked, Gen.NormalInvChiSquared.set_v, Gen.NormalInvChiSquared.set_v_unchecked]
  split_ifs <;> simp <;> c10_close

example : Gen.NormalInvChiSquared.new (fin (-1)) (fin 2) (fin 2) (fin 2) = .ok ({ m := fin (-1), k := fin 2, v := fin 2, s2 := fin 2 } : Gen.NormalInvChiSquared X) := by c10_eval []

end NormalInvChiSquared

/-! ## Pareto  (`src/dist/pareto.rs`) -/
section Pareto
attribute [local simp] Gen.Pareto.emit_params Gen.Pareto.from_params Gen.Pareto.get_scale Gen.Pareto.get_shape Gen.Pareto.new Gen.Pareto.new_unchecked Gen.Pareto.set_scale Gen.Pareto.set_scale_unchecked Gen.Pareto.set_shape Gen.Pareto.set_shape_unchecked Spec.Pareto.Valid Spec.Pareto.Inv

-- @site Pareto.new
/-- `Pareto::new` succeeds iff every parameter is in the documented domain — for ALL values incl. NaN, ±inf -/
theorem Pareto_new_ok_iff (shape : X) (scale : X) :
    (∃ d, Gen.Pareto.new shape scale = .ok d) ↔ Spec.Pareto.Valid shape scale := by
  rcases shape with _|_|_|shape <;> (try simp) <;>
    rcases scale with _|_|_|scale <;>
    (try simp) <;> c10_close

example : ∃ d, Gen.Pareto.new (fin 2) (fin 2) = .ok d := (Pareto_new_ok_iff ..).mpr (by c10_spec [Spec.Pareto.Valid])

example : ¬ ∃ d, Gen.Pareto.new (fin 0) (fin 2) = .ok d := by rw [Pareto_new_ok_iff]; c10_spec [Spec.Pareto.Valid]

-- @site Pareto.new
/-- on success the object carries exactly the given parameters -/
theorem Pareto_new_ok_fields (shape : X) (scale : X) (d : Gen.Pareto X) :
    Gen.Pareto.new shape scale = .ok d → d = ({ shape := shape, scale := scale } : Gen.Pareto X) := by
  simp only [Gen.Pareto.emit_params, Gen.Pareto.from_params, Gen.Pareto.get_scale, Gen.Pareto.get_shape, Gen.Pareto.new, Gen.Pareto.new_unchecked, Gen.Pareto.set_scale, Gen.Pareto.set_scale_unchecked, Gen.Pareto.set_shape, Gen.Pareto.set_shape_unchecked]
  split_ifs <;> simp <;> c10_close

example : Gen.Pareto.new (fin 2) (fin 2) = .ok ({ shape := fin 2, scale := fin 2 } : Gen.Pareto X) := by c10_eval []

-- @site Pareto.new
/-- checked and unchecked constructors build the same object -/
theorem Pareto_new_eq_unchecked (shape : X) (scale : X) (d : Gen.Pareto X) :
    Gen.Pareto.new shape scale = .ok d → d = Gen.Pareto.new_unchecked shape scale := by
  simp only [Gen.Pareto.emit_params, Gen.Pareto.from_params, Gen.Pareto.get_scale, Gen.Pareto.get_shape, Gen.Pareto.new, Gen.Pareto.new_unchecked, Gen.Pareto.set_scale, Gen.Pareto.set_scale_unchecked, Gen.Pareto.set_shape, Gen.Pareto.set_shape_unchecked]
  split_ifs <;> simp <;> c10_close

example : Gen.Pareto.new (fin 2) (fin 2) = .ok (Gen.Pareto.new_unchecked (fin 2) (fin 2)) := by c10_eval []

-- @site Pareto.new
/-- an object obtained from the checked constructor satisfies the parameter invariant -/
theorem Pareto_new_inv (shape : X) (scale : X) (d : Gen.Pareto X) :
    Gen.Pareto.new shape scale = .ok d → Spec.Pareto.Inv d := by
  intro h
  rw [Pareto_new_ok_fields shape scale d h]
  exact (Pareto_new_ok_iff shape scale).mp ⟨d, h⟩

example : Spec.Pareto.Inv ({ shape := fin 2, scale := fin 2 } : Gen.Pareto X) := Pareto_new_inv (fin 2) (fin 2) _ (by c10_eval [])

-- @site Pareto.new
/-- on failure the error names an argument that IS outside its documented domain and carries its value -/
theorem Pareto_new_err_offending (shape : X) (scale : X) (e : Err X) :
    Gen.Pareto.new shape scale = .error e →
     (¬ Spec.C10.IsPos shape ∧ (e = Err.mk "ShapeTooLow" [shape] ∨ e = Err.mk "ShapeNotFinite" [shape])) ∨
     (¬ Spec.C10.IsPos scale ∧ (e = Err.mk "ScaleTooLow" [scale] ∨ e = Err.mk "ScaleNotFinite" [scale])) := by
  rcases shape with _|_|_|shape <;> (try simp) <;>
    rcases scale with _|_|_|scale <;>
    (try simp) <;> c10_close

example : ∃ e, Gen.Pareto.new (fin 0) (fin 2) = .error e := by c10_eval []

-- @site Pareto.new
/-- on failure the error names the FIRST offending argument in documented (argument) order -/
theorem Pareto_new_err_first (shape : X) (scale : X) (e : Err X) :
    Gen.Pareto.new shape scale = .error e →
     (¬ Spec.C10.IsPos shape → (e = Err.mk "ShapeTooLow" [shape] ∨ e = Err.mk "ShapeNotFinite" [shape])) ∧
     (Spec.C10.IsPos shape → ¬ Spec.C10.IsPos scale → (e = Err.mk "ScaleTooLow" [scale] ∨ e = Err.mk "ScaleNotFinite" [scale])) := by
  rcases shape with _|_|_|shape <;> (try simp) <;>
    rcases scale with _|_|_|scale <;>
    (try simp) <;> c10_close

example : ∃ e, Gen.Pareto.new (fin 0) (fin 2) = .error e := by c10_eval []

-- @site Pareto.set_shape
/-- `set_shape` succeeds iff the new value is in the documented domain of `shape` (finite, > 0) -/
theorem Pareto_set_shape_ok_iff (d : Gen.Pareto X) (v : X) :
    (∃ d', Gen.Pareto.set_shape d v = .ok d') ↔ Spec.C10.IsPos v := by
  rcases v with _|_|_|v <;>
    simp <;> c10_close

example : ∃ d', Gen.Pareto.set_shape ({ shape := fin 2, scale := fin 2 } : Gen.Pareto X) (fin 7) = .ok d' := (Pareto_set_shape_ok_iff ..).mpr (by c10_spec [])

-- @site Pareto.set_shape
/-- on failure the error carries the offending value -/
theorem Pareto_set_shape_err (d : Gen.Pareto X) (v : X) (e : Err X) :
    Gen.Pareto.set_shape d v = .error e → ¬ Spec.C10.IsPos v ∧ (e = Err.mk "ShapeTooLow" [v] ∨ e = Err.mk "ShapeNotFinite" [v]) := by
  rcases v with _|_|_|v <;>
    simp <;> c10_close

example : ∃ e, Gen.Pareto.set_shape ({ shape := fin 2, scale := fin 2 } : Gen.Pareto X) (fin 0) = .error e := by c10_eval []

-- @site Pareto.set_shape
/-- on success only that field (and its cache) changes; same object as the unchecked setter -/
theorem Pareto_set_shape_ok_fields (d d' : Gen.Pareto X) (v : X) :
    Gen.Pareto.set_shape d v = .ok d' → d' = { d with shape := v } ∧ d' = Gen.Pareto.set_shape_unchecked d v := by
  simp only [Gen.Pareto.emit_params, Gen.Pareto.from_params, Gen.Pareto.get_scale, Gen.Pareto.get_shape, Gen.Pareto.new, Gen.Pareto.new_unchecked, Gen.Pareto.set_scale, Gen.Pareto.set_scale_unchecked, Gen.Pareto.set_shape, Gen.Pareto.set_shape_unchecked]
  split_ifs <;> simp <;> c10_close

example : Gen.Pareto.set_shape ({ shape := fin 2, scale := fin 2 } : Gen.Pareto X) (fin 7) = .ok ({ shape := fin 7, scale := fin 2 } : Gen.Pareto X) := by c10_eval []

-- @site Pareto.set_shape
/-- failure atomicity (structural): either an error without a new state, or exactly the updated state -/
theorem Pareto_set_shape_atomic (d : Gen.Pareto X) (v : X) :
    (∃ e, Gen.Pareto.set_shape d v = .error e) ∨ (∃ d', Gen.Pareto.set_shape d v = .ok d' ∧ d' = { d with shape := v }) := by
  simp only [Gen.Pareto.emit_params, Gen.Pareto.from_params, Gen.Pareto.get_scale, Gen.Pareto.get_shape, Gen.Pareto.new, Gen.Pareto.new_unchecked, Gen.Pareto.set_scale, Gen.Pareto.set_scale_unchecked, Gen.Pareto.set_shape, Gen.Pareto.set_shape_unchecked]
  split_ifs <;> simp <;> c10_close

example : ∃ e, Gen.Pareto.set_shape ({ shape := fin 2, scale := fin 2 } : Gen.Pareto X) (fin 0) = .error e := by c10_eval []

-- @site Pareto.set_shape
/-- a successful checked setter preserves the parameter invariant -/
theorem Pareto_set_shape_inv (d d' : Gen.Pareto X) (v : X) :
    Spec.Pareto.Inv d → Gen.Pareto.set_shape d v = .ok d' → Spec.Pareto.Inv d' := by
  rcases d with ⟨f0, f1⟩
  rcases v with _|_|_|v <;>
    simp <;> c10_close

example : Spec.Pareto.Inv ({ shape := fin 2, scale := fin 2 } : Gen.Pareto X) := by c10_spec [Spec.Pareto.Inv, Spec.Pareto.Valid]

-- @site Pareto.set_scale
/-- `set_scale` succeeds iff the new value is in the documented domain of `scale` (finite, > 0) -/
theorem Pareto_set_scale_ok_iff (d : Gen.Pareto X) (v : X) :
    (∃ d', Gen.Pareto.set_scale d v = .ok d') ↔ Spec.C10.IsPos v := by
  rcases v with _|_|_|v <;>
    simp <;> c10_close

example : ∃ d', Gen.Pareto.set_scale ({ shape := fin 2, scale := fin 2 } : Gen.Pareto X) (fin 7) = .ok d' := (Pareto_set_scale_ok_iff ..).mpr (by c10_spec [])

-- @site Pareto.set_scale
/-- on failure the error carries the offending value -/
theorem Pareto_set_scale_err (d : Gen.Pareto X) (v : X) (e : Err X) :
    Gen.Pareto.set_scale d v = .error e → ¬ Spec.C10.IsPos v ∧ (e = Err.mk "ScaleTooLow" [v] ∨ e = Err.mk "ScaleNotFinite" [v]) := by
  rcases v with _|_|_|v <;>
    simp <;> c10_close

example : ∃ e, Gen.Pareto.set_scale ({ shape := fin 2, scale := fin 2 } : Gen.Pareto X) (fin 0) = .error e := by c10_eval []

-- @site Pareto.set_scale
/-- on success only that field (and its cache) changes; same object as the unchecked setter -/
theorem Pareto_set_scale_ok_fields (d d' : Gen.Pareto X) (v : X) :
    Gen.Pareto.set_scale d v = .ok d' → d' = { d with scale := v } ∧ d' = Gen.Pareto.set_scale_unchecked d v := by
  simp only [Gen.Pareto.emit_params, Gen.Pareto.from_params, Gen.Pareto.get_scale, Gen.Pareto.get_shape, Gen.Pareto.new, Gen.Pareto.new_unchecked, Gen.Pareto.set_scale, Gen.Pareto.set_scale_unchecked, Gen.Pareto.set_shape, Gen.Pareto.set_shape_unchecked]
  split_ifs <;> simp <;> c10_close

example : Gen.Pareto.set_scale ({ shape := fin 2, scale := fin 2 } : Gen.Pareto X) (fin 7) = .ok ({ shape := fin 2, scale := fin 7 } : Gen.Pareto X) := by c10_eval []

-- @site Pareto.set_scale
/-- failure atomicity (structural): either an error without a new state, or exactly the updated state -/
theorem Pareto_set_scale_atomic (d : Gen.Pareto X) (v : X) :
    (∃ e, Gen.Pareto.set_scale d v = .error e) ∨ (∃ d', Gen.Pareto.set_scale d v = .ok d' ∧ d' = { d with scale := v }) := by
  simp only [Gen.Pareto.emit_params, Gen.Pareto.from_params, Gen.Pareto.get_scale, Gen.Pareto.get_shape, Gen.Pareto.new, Gen.Pareto.new_unchecked, Gen.Pareto.set_scale, Gen.Pareto.set_scale_unchecked, Gen.Pareto.set_shape, Gen.Pareto.set_shape_unchecked]
  split_ifs <;> simp <;> c10_close

example : ∃ e, Gen.Pareto.set_scale ({ shape := fin 2, scale := fin 2 } : Gen.Pareto X) (fin 0) = .error e := by c10_eval []

-- @site Pareto.set_scale
/-- a successful checked setter preserves the parameter invariant -/
theorem Pareto_set_scale_inv (d d' : Gen.Pareto X) (v : X) :
    Spec.Pareto.Inv d → Gen.Pareto.set_scale d v = .ok d' → Spec.Pareto.Inv d' := by
  rcases d with ⟨f0, f1⟩
  rcases v with _|_|_|v <;>
    simp <;> c10_close

example : Spec.Pareto.Inv ({ shape := fin 2, scale := fin 2 } : Gen.Pareto X) := by c10_spec [Spec.Pareto.Inv, Spec.Pareto.Valid]

-- @site Pareto.new
/-- a sequence of accepted setters ending in parameters θ yields the object `new θ` builds -/
theorem Pareto_build_eq (d d1 d2 : Gen.Pareto X) (shape : X) (scale : X) :
    Gen.Pareto.set_shape d shape = .ok d1 →
    Gen.Pareto.set_scale d1 scale = .ok d2 →
    Gen.Pareto.new shape scale = .ok d2 := by
  rcases d with ⟨f0, f1⟩
  rcases shape with _|_|_|shape <;> (try simp) <;>
    rcases scale with _|_|_|scale <;>
    (try simp) <;> c10_close

example : ∃ d', Gen.Pareto.set_shape ({ shape := fin 2, scale := fin 2 } : Gen.Pareto X) (fin 7) = .ok d' := by c10_eval []

-- @site Pareto.from_params
/-- parameter round trip -/
theorem Pareto_from_emit (d : Gen.Pareto X) :
    Gen.Pareto.from_params (Gen.Pareto.emit_params d) = d := by
  rfl

example : Gen.Pareto.from_params (Gen.Pareto.emit_params ({ shape := fin 2, scale := fin 2 } : Gen.Pareto X)) = ({ shape := fin 2, scale := fin 2 } : Gen.Pareto X) := by c10_eval []

-- @site Pareto.from_params
/-- `from_params (emit_params ·)` is the identity on every object built by the checked constructor -/
theorem Pareto_new_eq_from_params (shape : X) (scale : X) (d : Gen.Pareto X) :
    Gen.Pareto.new shape scale = .ok d → Gen.Pareto.from_params (Gen.Pareto.emit_params d) = d := by
  simp only [Gen.Pareto.emit_params, Gen.Pareto.from_params, Gen.Pareto.get_scale, Gen.Pareto.get_shape, Gen.Pareto.new, Gen.Pareto.new_unchecked, Gen.Pareto.set_scale, Gen.Pareto.set_scale_unchecked, Gen.Pareto.set_shape, Gen.Pareto.set_shape_unchecked]
  split_ifs <;> simp <;> c10_close

example : Gen.Pareto.new (fin 2) (fin 2) = .ok ({ shape := fin 2, scale := fin 2 } : Gen.Pareto X) := by c10_eval []

end Pareto

/-! ## Poisson  (`src/dist/poisson.rs`) -/
section Poisson
attribute [local simp] Gen.Poisson.emit_params Gen.Poisson.from_params Gen.Poisson.get_rate Gen.Poisson.new Gen.Poisson.new_unchecked Gen.Poisson.set_rate Gen.Poisson.set_rate_unchecked Spec.Poisson.Valid Spec.Poisson.Inv

-- @site Poisson.new
/-- `Poisson::new` succeeds iff every parameter is in the documented domain — for ALL values incl. NaN, ±inf -/
theorem Poisson_new_ok_iff (rate : X) :
    (∃ d, Gen.Poisson.new rate = .ok d) ↔ Spec.Poisson.Valid rate := by
  rcases rate with _|_|_|rate <;>
    (try simp) <;> c10_close

example : ∃ d, Gen.Poisson.new (fin 2) = .ok d := (Poisson_new_ok_iff ..).mpr (by c10_spec [Spec.Poisson.Valid])

example : ¬ ∃ d, Gen.Poisson.new (fin 0) = .ok d := by rw [Poisson_new_ok_iff]; c10_spec [Spec.Poisson.Valid]

-- @site Poisson.new
/-- on success the object carries exactly the given parameters -/
theorem Poisson_new_ok_fields (rate : X) (d : Gen.Poisson X) :
    Gen.Poisson.new rate = .ok d → d = ({ rate := rate } : Gen.Poisson X) := by
  simp only [Gen.Poisson.emit_params, Gen.Poisson.from_params, Gen.Poisson.get_rate, Gen.Poisson.new, Gen.Poisson.new_unchecked, Gen.Poisson.set_rate, Gen.Poisson.set_rate_unchecked]
  split_ifs <;> simp <;> c10_close

example : Gen.Poisson.new (fin 2) = .ok ({ rate := fin 2 } : Gen.Poisson X) := by c10_eval []

-- @site Poisson.new
/-- checked and unchecked constructors build the same object -/
theorem Poisson_new_eq_unchecked (rate : X) (d : Gen.Poisson X) :
    Gen.Poisson.new rate = .ok d → d = Gen.Poisson.new_unchecked rate := by
  simp only [Gen.Poisson.emit_params, Gen.Poisson.from_params, Gen.Poisson.get_rate, Gen.Poisson.new, Gen.Poisson.new_unchecked, Gen.Poisson.set_rate, Gen.Poisson.set_rate_unchecked]
  split_ifs <;> simp <;> c10_close

example : Gen.Poisson.new (fin 2) = .ok (Gen.Poisson.new_unchecked (fin 2)) := by c10_eval []

-- @site Poisson.new
/-- an object obtained from the checked constructor satisfies the parameter invariant -/
theorem Poisson_new_inv (rate : X) (d : Gen.Poisson X) :
    Gen.Poisson.new rate = .ok d → Spec.Poisson.Inv d := by
  intro h
  rw [Poisson_new_ok_fields rate d h]
  exact (Poisson_new_ok_iff rate).mp ⟨d, h⟩

example : Spec.Poisson.Inv ({ rate := fin 2 } : Gen.Poisson X) := Poisson_new_inv (fin 2) _ (by c10_eval [])

-- @site Poisson.new
/-- on failure the error names an argument that IS outside its documented domain and carries its value -/
theorem Poisson_new_err_offending (rate : X) (e : Err X) :
    Gen.Poisson.new rate = .error e →
     (¬ Spec.C10.IsPos rate ∧ (e = Err.mk "RateTooLow" [rate] ∨ e = Err.mk "RateNotFinite" [rate])) := by
  rcases rate with _|_|_|rate <;>
    (try simp) <;> c10_close

example : ∃ e, Gen.Poisson.new (fin 0) = .error e := by c10_eval []

-- @site Poisson.new
/-- on failure the error names the FIRST offending argument in documented (argument) order -/
theorem Poisson_new_err_first (rate : X) (e : Err X) :
    Gen.Poisson.new rate = .error e →
     (¬ Spec.C10.IsPos rate → (e = Err.mk "RateTooLow" [rate] ∨ e = Err.mk "RateNotFinite" [rate])) := by
  rcases rate with _|_|_|rate <;>
    (try simp) <;> c10_close

example : ∃ e, Gen.Poisson.new (fin 0) = .error e := by c10_eval []

-- @site Poisson.set_rate
/-- `set_rate` succeeds iff the new value is in the documented domain of `rate` (finite, > 0) -/
theorem Poisson_set_rate_ok_iff (d : Gen.Poisson X) (v : X) :
    (∃ d', Gen.Poisson.set_rate d v = .ok d') ↔ Spec.C10.IsPos v := by
  rcases v with _|_|_|v <;>
    simp <;> c10_close

example : ∃ d', Gen.Poisson.set_rate ({ rate := fin 2 } : Gen.Poisson X) (fin 7) = .ok d' := (Poisson_set_rate_ok_iff ..).mpr (by c10_spec [])

-- @site Poisson.set_rate
/-- on failure the error carries the offending value -/
theorem Poisson_set_rate_err (d : Gen.Poisson X) (v : X) (e : Err X) :
    Gen.Poisson.set_rate d v = .error e → ¬ Spec.C10.IsPos v ∧ (e = Err.mk "RateTooLow" [v] ∨ e = Err.mk "RateNotFinite" [v]) := by
  rcases v with _|_|_|v <;>
    simp <;> c10_close

example : ∃ e, Gen.Poisson.set_rate ({ rate := fin 2 } : Gen.Poisson X) (fin 0) = .error e := by c10_eval []

-- @site Poisson.set_rate
/-- on success only that field (and its cache) changes; same object as the unchecked setter -/
theorem Poisson_set_rate_ok_fields (d d' : Gen.Poisson X) (v : X) :
    Gen.Poisson.set_rate d v = .ok d' → d' = { d with rate := v } ∧ d' = Gen.Poisson.set_rate_unchecked d v := by
  simp only [Gen.Poisson.emit_params, Gen.Poisson.from_params, Gen.Poisson.get_rate, Gen.Poisson.new, Gen.Poisson.new_unchecked, Gen.Poisson.set_rate, Gen.Poisson.set_rate_unchecked]
  split_ifs <;> simp <;> c10_close

example : Gen.Poisson.set_rate ({ rate := fin 2 } : Gen.Poisson X) (fin 7) = .ok ({ rate := fin 7 } : Gen.Poisson X) := by c10_eval []

-- @site Poisson.set_rate
/-- failure atomicity (structural): either an error without a new state, or exactly the updated state -/
theorem Poisson_set_rate_atomic (d : Gen.Poisson X) (v : X) :
    (∃ e, Gen.Poisson.set_rate d v = .error e) ∨ (∃ d', Gen.Poisson.set_rate d v = .ok d' ∧ d' = { d with rate := v }) := by
  simp only [Gen.Poisson.emit_params, Gen.Poisson.from_params, Gen.Poisson.get_rate, Gen.Poisson.new, Gen.Poisson.new_unchecked, Gen.Poisson.set_rate, Gen.Poisson.set_rate_unchecked]
  split_ifs <;> simp <;> c10_close

example : ∃ e, Gen.Poisson.set_rate ({ rate := fin 2 } : Gen.Poisson X) (fin 0) = .error e := by c10_eval []

-- @site Poisson.set_rate
/-- a successful checked setter preserves the parameter invariant -/
theorem Poisson_set_rate_inv (d d' : Gen.Poisson X) (v : X) :
    Spec.Poisson.Inv d → Gen.Poisson.set_rate d v = .ok d' → Spec.Poisson.Inv d' := by
  rcases d with ⟨f0⟩
  rcases v with _|_|_|v <;>
    simp <;> c10_close

example : Spec.Poisson.Inv ({ rate := fin 2 } : Gen.Poisson X) := by c10_spec [Spec.Poisson.Inv, Spec.Poisson.Valid]

-- @site Poisson.new
/-- a sequence of accepted setters ending in parameters θ yields the object `new θ` builds -/
theorem Poisson_build_eq (d d1 : Gen.Poisson X) (rate : X) :
    Gen.Poisson.set_rate d rate = .ok d1 →
    Gen.Poisson.new rate = .ok d1 := by
  rcases d with ⟨f0⟩
  rcases rate with _|_|_|rate <;>
    (try simp) <;> c10_close

example : ∃ d', Gen.Poisson.set_rate ({ rate := fin 2 } : Gen.Poisson X) (fin 7) = .ok d' := by c10_eval []

-- @site Poisson.from_params
/-- parameter round trip -/
theorem Poisson_from_emit (d : Gen.Poisson X) :
    Gen.Poisson.from_params (Gen.Poisson.emit_params d) = d := by
  rfl

example : Gen.Poisson.from_params (Gen.Poisson.emit_params ({ rate := fin 2 } : Gen.Poisson X)) = ({ rate := fin 2 } : Gen.Poisson X) := by c10_eval []

-- @site Poisson.from_params
/-- `from_params (emit_params ·)` is the identity on every object built by the checked constructor -/
theorem Poisson_new_eq_from_params (rate : X) (d : Gen.Poisson X) :
    Gen.Poisson.new rate = .ok d → Gen.Poisson.from_params (Gen.Poisson.emit_params d) = d := by
  simp only [Gen.Poisson.emit_params, Gen.Poisson.from_params, Gen.Poisson.get_rate, Gen.Poisson.new, Gen.Poisson.new_unchecked, Gen.Poisson.set_rate, Gen.Poisson.set_rate_unchecked]
  split_ifs <;> simp <;> c10_close

example : Gen.Poisson.new (fin 2) = .ok ({ rate := fin 2 } : Gen.Poisson X) := by c10_eval []

end Poisson

/-! ## ScaledInvChiSquared  (`src/dist/scaled_inv_chi_squared.rs`) -/
section ScaledInvChiSquared
attribute [local simp] Gen.ScaledInvChiSquared.emit_params Gen.ScaledInvChiSquared.from_params Gen.ScaledInvChiSquared.get_t2 Gen.ScaledInvChiSquared.get_v Gen.ScaledInvChiSquared.new Gen.ScaledInvChiSquared.new_unchecked Gen.ScaledInvChiSquared.set_t2 Gen.ScaledInvChiSquared.set_t2_unchecked Gen.ScaledInvChiSquared.set_v Gen.ScaledInvChiSquared.set_v_unchecked Spec.ScaledInvChiSquared.Valid Spec.ScaledInvChiSquared.Inv

-- @site ScaledInvChiSquared.new
/-- `ScaledInvChiSquared::new` succeeds iff every parameter is in the documented domain — for ALL values incl. NaN, ±inf -/
theorem ScaledInvChiSquared_new_ok_iff (v : X) (t2 : X) :
    (∃ d, Gen.ScaledInvChiSquared.new v t2 = .ok d) ↔ Spec.ScaledInvChiSquared.Valid v t2 := by
  rcases v with _|_|_|v <;> (try simp) <;>
    rcases t2 with _|_|_|t2 <;>
    (try simp) <;> c10_close

example : ∃ d, Gen.ScaledInvChiSquared.new (fin 2) (fin 2) = .ok d := (ScaledInvChiSquared_new_ok_iff ..).mpr (by c10_spec [Spec.ScaledInvChiSquared.Valid])

example : ¬ ∃ d, Gen.ScaledInvChiSquared.new (fin 0) (fin 2) = .ok d := by rw [ScaledInvChiSquared_new_ok_iff]; c10_spec [Spec.ScaledInvChiSquared.Valid]

-- @site ScaledInvChiSquared.new
/-- on success the object carries exactly the given parameters -/
theorem ScaledInvChiSquared_new_ok_fields (v : X) (t2 : X) (d : Gen.ScaledInvChiSquared X) :
    Gen.ScaledInvChiSquared.new v t2 = .ok d → d = ({ v := v, t2 := t2 } : Gen.ScaledInvChiSquared X) := by
  simp only [Gen.ScaledInvChiSquared.emit_params, Gen.ScaledInvChiSquared.from_params, Gen.ScaledInvChiSquared.get_t2, Gen.ScaledInvChiSquared.get_v, Gen.ScaledInvChiSquared.new, Gen.ScaledInvChiSquared.new_unchecked, Gen.ScaledInvChiSquared.set_t2, Gen.ScaledInvChiSquared.set_t2_unchecked, Gen.ScaledInvChiSquared.set_v, Gen.ScaledInvChiSquared.set_v_unchecked]
  split_ifs <;> simp <;> c10_close

example : Gen.ScaledInvChiSquared.new (fin 2) (fin 2) = .ok ({ v := fin 2, t2 := fin 2 } : Gen.ScaledInvChiSquared X) := by c10_eval []

-- @site ScaledInvChiSquared.new
/-- checked and unchecked constructors build the same object -/
theorem ScaledInvChiSquared_new_eq_unchecked (v : X) (t2 : X) (d : Gen.ScaledInvChiSquared X) :
    Gen.ScaledInvChiSquared.new v t2 = .ok d → d = Gen.ScaledInvChiSquared.new_unchecked v t2 := by
  simp only [Gen.ScaledInvChiSquared.emit_params, Gen.ScaledInvChiSquared.from_params, Gen.ScaledInvChiSquared.get_t2, Gen.ScaledInvChiSquared.get_v, Gen.ScaledInvChiSquared.new, Gen.ScaledInvChiSquared.new_unchecked, Gen.ScaledInvChiSquared.set_t2, Gen.ScaledInvChiSquared.set_t2_unchecked, Gen.ScaledInvChiSquared.set_v, Gen.ScaledInvChiSquared.set_v_unchecked]
  split_ifs <;> simp <;> c10_close

example : Gen.ScaledInvChiSquared.new (fin 2) (fin 2) = .ok (Gen.ScaledInvChiSquared.new_unchecked (fin 2) (fin 2)) := by c10_eval []

-- @site ScaledInvChiSquared.new
/-- an object obtained from the checked constructor satisfies the parameter invariant -/
theorem ScaledInvChiSquared_new_inv (v : X) (t2 : X) (d : Gen.ScaledInvChiSquared X) :
    Gen.ScaledInvChiSquared.new v t2 = .ok d → Spec.ScaledInvChiSquared.Inv d := by
  intro h
  rw [ScaledInvChiSquared_new_ok_fields v t2 d h]
  exact (ScaledInvChiSquared_new_ok_iff v t2).mp ⟨d, h⟩

example : Spec.ScaledInvChiSquared.Inv ({ v := fin 2, t2 := fin 2 } : Gen.ScaledInvChiSquared X) := ScaledInvChiSquared_new_inv (fin 2) (fin 2) _ (by c10_eval [])

-- @site ScaledInvChiSquared.new
/-- on failure the error names an argument that IS outside its documented domain and carries its value -/
theorem ScaledInvChiSquared_new_err_offending (v : X) (t2 : X) (e : Err X) :
    Gen.ScaledInvChiSquared.new v t2 = .error e →
     (¬ Spec.C10.IsPos v ∧ (e = Err.mk "VTooLow" [v] ∨ e = Err.mk "VNotFinite" [v])) ∨
     (¬ Spec.C10.IsPos t2 ∧ (e = Err.mk "T2TooLow" [t2] ∨ e = Err.mk "T2NotFinite" [t2])) := by
  rcases v with _|_|_|v <;> (try simp) <;>
    rcases t2 with _|_|_|t2 <;>
    (try simp) <;> c10_close

example : ∃ e, Gen.ScaledInvChiSquared.new (fin 0) (fin 2) = .error e := by c10_eval []

/- FULL STATEMENT (false, see the counterexample below — the code tests `v <= 0`, `t2 <= 0` and only then the finiteness of v):
   theorem ScaledInvChiSquared_new_err_first (v : X) (t2 : X) (e : Err X) :
     Gen.ScaledInvChiSquared.new v t2 = .error e →
     (¬ Spec.C10.IsPos v → (e = Err.mk "VTooLow" [v] ∨ e = Err.mk "VNotFinite" [v])) ∧
     (Spec.C10.IsPos v → ¬ Spec.C10.IsPos t2 → (e = Err.mk "T2TooLow" [t2] ∨ e = Err.mk "T2NotFinite" [t2]))
-/

-- @site ScaledInvChiSquared.new
/-- first-offending-argument order holds only under the extra hypotheses; the code tests `v <= 0`, `t2 <= 0` and only then the finiteness of v -/
theorem ScaledInvChiSquared_new_err_first_partial (v : X) (t2 : X) (e : Err X) :
    v ≠ nan → v ≠ pinf → Gen.ScaledInvChiSquared.new v t2 = .error e →
     (¬ Spec.C10.IsPos v → (e = Err.mk "VTooLow" [v] ∨ e = Err.mk "VNotFinite" [v])) ∧
     (Spec.C10.IsPos v → ¬ Spec.C10.IsPos t2 → (e = Err.mk "T2TooLow" [t2] ∨ e = Err.mk "T2NotFinite" [t2])) := by
  rcases v with _|_|_|v <;> (try simp) <;>
    rcases t2 with _|_|_|t2 <;>
    (try simp) <;> c10_close

example : ∃ e, Gen.ScaledInvChiSquared.new (fin 2) (fin 0) = .error e := by c10_eval []

-- @site ScaledInvChiSquared.new
/-- DEFECT (order clause only): an earlier argument is invalid but the error names a later one; the code tests `v <= 0`, `t2 <= 0` and only then the finiteness of v -/
theorem ScaledInvChiSquared_new_err_order_counterexample :
    ¬ Spec.C10.IsPos (nan : X) ∧
    Gen.ScaledInvChiSquared.new (nan) (fin (-1)) = .error (Err.mk "T2TooLow" [fin (-1)] : Err X) := by
  c10_eval []

-- @site ScaledInvChiSquared.set_v
/-- `set_v` succeeds iff the new value is in the documented domain of `v` (finite, > 0) -/
theorem ScaledInvChiSquared_set_v_ok_iff (d : Gen.ScaledInvChiSquared X) (v : X) :
    (∃ d', Gen.ScaledInvChiSquared.set_v d v = .ok d') ↔ Spec.C10.IsPos v := by
  rcases v with _|_|_|v <;>
    simp <;> c10_close

example : ∃ d', Gen.ScaledInvChiSquared.set_v ({ v := fin 2, t2 := fin 2 } : Gen.ScaledInvChiSquared X) (fin 7) = .ok d' := (ScaledInvChiSquared_set_v_ok_iff ..).mpr (by c10_spec [])

-- @site ScaledInvChiSquared.set_v
/-- on failure the error carries the offending value -/
theorem ScaledInvChiSquared_set_v_err (d : Gen.ScaledInvChiSquared X) (v : X) (e : Err X) :
    Gen.ScaledInvChiSquared.set_v d v = .error e → ¬ Spec.C10.IsPos v ∧ (e = Err.mk "VTooLow" [v] ∨ e = Err.mk "VNotFinite" [v]) := by
  rcases v with _|_|_|v <;>
    simp <;> c10_close

example : ∃ e, Gen.ScaledInvChiSquared.set_v ({ v := fin 2, t2 := fin 2 } : Gen.ScaledInvChiSquared X) (fin 0) = .error e := by c10_eval []

-- @site ScaledInvChiSquared.set_v
/-- on success only that field (and its cache) changes; same object as the unchecked setter -/
theorem ScaledInvChiSquared_set_v_ok_fields (d d' : Gen.ScaledInvChiSquared X) (v : X) :
    Gen.ScaledInvChiSquared.set_v d v = .ok d' → d' = { d with v := v } ∧ d' = Gen.ScaledInvChiSquared.set_v_unchecked d v := by
  simp only [Gen.ScaledInvChiSquared.emit_params, Gen.ScaledInvChiSquared.from_params, Gen.ScaledInvChiSquared.get_t2, Gen.ScaledInvChiSquared.get_v, Gen.ScaledInvChiSquared.new, Gen.ScaledInvChiSquared.new_unchecked, Gen.ScaledInvChiSquared.set_t2, Gen.ScaledInvChiSquared.set_t2_unchecked, Gen.ScaledInvChiSquared.set_v, Gen.ScaledInvChiSquared.set_v_unchecked]
  split_ifs <;> simp <;> c10_close

example : Gen.ScaledInvChiSquared.set_v ({ v := fin 2, t2 := fin 2 } : Gen.ScaledInvChiSquared X) (fin 7) = .ok ({ v := fin 7, t2 := fin 2 } : Gen.ScaledInvChiSquared X) := by c10_eval []

-- @site ScaledInvChiSquared.set_v
/-- failure atomicity (structural): either an error without a new state, or exactly the updated state -/
theorem ScaledInvChiSquared_set_v_atomic (d : Gen.ScaledInvChiSquared X) (v : X) :
    (∃ e, Gen.ScaledInvChiSquared.set_v d v = .error e) ∨ (∃ d', Gen.ScaledInvChiSquared.set_v d v = .ok d' ∧ d' = { d with v := v }) := by
  simp only [Gen.ScaledInvChiSquared.emit_params, Gen.ScaledInvChiSquared.from_params, Gen.ScaledInvChiSquared.get_t2, Gen.ScaledInvChiSquared.get_v, Gen.ScaledInvChiSquared.new, Gen.ScaledInvChiSquared.new_unchecked, Gen.ScaledInvChiSquared.set_t2, Gen.ScaledInvChiSquared.set_t2_unchecked, Gen.ScaledInvChiSquared.set_v, Gen.ScaledInvChiSquared.set_v_unchecked]
  split_ifs <;> simp <;> c10_close

example : ∃ e, Gen.ScaledInvChiSquared.set_v ({ v := fin 2, t2 := fin 2 } : Gen.ScaledInvChiSquared X) (fin 0) = .error e := by c10_eval []

-- @site ScaledInvChiSquared.set_v
/-- a successful checked setter preserves the parameter invariant -/
theorem ScaledInvChiSquared_set_v_inv (d d' : Gen.ScaledInvChiSquared X) (v : X) :
    Spec.ScaledInvChiSquared.Inv d → Gen.ScaledInvChiSquared.set_v d v = .ok d' → Spec.ScaledInvChiSquared.Inv d' := by
  rcases d with ⟨f0, f1⟩
  rcases v with _|_|_|v <;>
    simp <;> c10_close

example : Spec.ScaledInvChiSquared.Inv ({ v := fin 2, t2 := fin 2 } : Gen.ScaledInvChiSquared X) := by c10_spec [Spec.ScaledInvChiSquared.Inv, Spec.ScaledInvChiSquared.Valid]

-- @site ScaledInvChiSquared.set_t2
/-- `set_t2` succeeds iff the new value is in the documented domain of `t2` (finite, > 0) -/
theorem ScaledInvChiSquared_set_t2_ok_iff (d : Gen.ScaledInvChiSquared X) (v : X) :
    (∃ d', Gen.ScaledInvChiSquared.set_t2 d v = .ok d') ↔ Spec.C10.IsPos v := by
  rcases v with _|_|_|v <;>
    simp <;> c10_close

example : ∃ d', Gen.ScaledInvChiSquared.set_t2 ({ v := fin 2, t2 := fin 2 } : Gen.ScaledInvChiSquared X) (fin 7) = .ok d' := (ScaledInvChiSquared_set_t2_ok_iff ..).mpr (by c10_spec [])

-- @site ScaledInvChiSquared.set_t2
/-- on failure the error carries the offending value -/
theorem ScaledInvChiSquared_set_t2_err (d : Gen.ScaledInvChiSquared X) (v : X) (e : Err X) :
    Gen.ScaledInvChiSquared.set_t2 d v = .error e → ¬ Spec.C10.IsPos v ∧ (e = Err.mk "T2TooLow" [v] ∨ e = Err.mk "T2NotFinite" [v]) := by
  rcases v with _|_|_|v <;>
    simp <;> c10_close

example : ∃ e, Gen.ScaledInvChiSquared.set_t2 ({ v := fin 2, t2 := fin 2 } : Gen.ScaledInvChiSquared X) (fin 0) = .error e := by c10_eval []

-- @site ScaledInvChiSquared.set_t2
/-- on success only that field (and its cache) changes; same object as the unchecked setter -/
theorem ScaledInvChiSquared_set_t2_ok_fields (d d' : Gen.ScaledInvChiSquared X) (v : X) :
    Gen.ScaledInvChiSquared.set_t2 d v = .ok d' → d' = { d with t2 := v } ∧ d' = Gen.ScaledInvChiSquared.set_t2_unchecked d v := by
  simp only [Gen.ScaledInvChiSquared.emit_params, Gen.ScaledInvChiSquared.from_params, Gen.ScaledInvChiSquared.get_t2, Gen.ScaledInvChiSquared.get_v, Gen.ScaledInvChiSquared.new, Gen.ScaledInvChiSquared.new_unchecked, Gen.ScaledInvChiSquared.set_t2, Gen.ScaledInvChiSquared.set_t2_unchecked, Gen.ScaledInvChiSquared.set_v, Gen.ScaledInvChiSquared.set_v_unchecked]
  split_ifs <;> simp <;> c10_close

example : Gen.ScaledInvChiSquared.set_t2 ({ v := fin 2, t2 := fin 2 } : Gen.ScaledInvChiSquared X) (fin 7) = .ok ({ v := fin 2, t2 := fin 7 } : Gen.ScaledInvChiSquared X) := by c10_eval []

-- @site ScaledInvChiSquared.set_t2
/-- failure atomicity (structural): either an error without a new state, or exactly the updated state -/
theorem ScaledInvChiSquared_set_t2_atomic (d : Gen.ScaledInvChiSquared X) (v : X) :
    (∃ e, Gen.ScaledInvChiSquared.set_t2 d v = .error e) ∨ (∃ d', Gen.ScaledInvChiSquared.set_t2 d v = .ok d' ∧ d' = { d with t2 := v }) := by
  simp only [Gen.ScaledInvChiSquared.emit_params, Gen.ScaledInvChiSquared.from_params, Gen.ScaledInvChiSquared.get_t2, Gen.ScaledInvChiSquared.get_v, Gen.ScaledInvChiSquared.new, Gen.ScaledInvChiSquared.new_unchecked, Gen.ScaledInvChiSquared.set_t2, Gen.ScaledInvChiSquared.set_t2_unchecked, Gen.ScaledInvChiSquared.set_v, Gen.ScaledInvChiSquared.set_v_unchecked]
  split_ifs <;> simp <;> c10_close

example : ∃ e, Gen.ScaledInvChiSquared.set_t2 ({ v := fin 2, t2 := fin 2 } : Gen.ScaledInvChiSquared X) (fin 0) = .error e := by c10_eval []

-- @site ScaledInvChiSquared.set_t2
/-- a successful checked setter preserves the parameter invariant -/
theorem ScaledInvChiSquared_set_t2_inv (d d' : Gen.ScaledInvChiSquared X) (v : X) :
    Spec.ScaledInvChiSquared.Inv d → Gen.ScaledInvChiSquared.set_t2 d v = .ok d' → Spec.ScaledInvChiSquared.Inv d' := by
  rcases d with ⟨f0, f1⟩
  rcases v with _|_|_|v <;>
    simp <;> c10_close

example : Spec.ScaledInvChiSquared.Inv ({ v := fin 2, t2 := fin 2 } : Gen.ScaledInvChiSquared X) := by c10_spec [Spec.ScaledInvChiSquared.Inv, Spec.ScaledInvChiSquared.Valid]

-- @site ScaledInvChiSquared.new
/-- a sequence of accepted setters ending in parameters θ yields the object `new θ` builds -/
theorem ScaledInvChiSquared_build_eq (d d1 d2 : Gen.ScaledInvChiSquared X) (v : X) (t2 : X) :
    Gen.ScaledInvChiSquared.set_v d v = .ok d1 →
    Gen.ScaledInvChiSquared.set_t2 d1 t2 = .ok d2 →
    Gen.ScaledInvChiSquared.new v t2 = .ok d2 := by
  rcases d with ⟨f0, f1⟩
  rcases v with _|_|_|v <;> (try simp) <;>
    rcases t2 with _|_|_|t2 <;>
    (try simp) <;> c10_close

example : ∃ d', Gen.ScaledInvChiSquared.set_v ({ v := fin 2, t2 := fin 2 } : Gen.ScaledInvChiSquared X) (fin 7) = .ok d' := by c10_eval []

-- @site ScaledInvChiSquared.from_params
/-- parameter round trip -/
theorem ScaledInvChiSquared_from_emit (d : Gen.ScaledInvChiSquared X) :
    Gen.ScaledInvChiSquared.from_params (Gen.ScaledInvChiSquared.emit_params d) = d := by
  rfl

example : Gen.ScaledInvChiSquared.from_params (Gen.ScaledInvChiSquared.emit_params ({ v := fin 2, t2 := fin 2 } : Gen.ScaledInvChiSquared X)) = ({ v := fin 2, t2 := fin 2 } : Gen.ScaledInvChiSquared X) := by c10_eval []

-- @site ScaledInvChiSquared.from_params
/-- `from_params (emit_params ·)` is the identity on every object built by the checked constructor -/
theorem ScaledInvChiSquared_new_eq_from_params (v : X) (t2 : X) (d : Gen.ScaledInvChiSquared X) :
    Gen.ScaledInvChiSquared.new v t2 = .ok d → Gen.ScaledInvChiSquared.from_params (Gen.ScaledInvChiSquared.emit_params d) = d := by
  simp only [Gen.ScaledInvChiSquared.emit_params, Gen.ScaledInvChiSquared.from_params, Gen.ScaledInvChiSquared.get_t2, Gen.ScaledInvChiSquared.get_v, Gen.ScaledInvChiSquared.new, Gen.ScaledInvChiSquared.new_unchecked, Gen.ScaledInvChiSquared.set_t2, Gen.ScaledInvChiSquared.set_t2_unchecked, Gen.ScaledInvChiSquared.set_v, Gen.ScaledInvChiSquared.set_v_unchecked]
  split_ifs <;> simp <;> c10_close

example : Gen.ScaledInvChiSquared.new (fin 2) (fin 2) = .ok ({ v := fin 2, t2 := fin 2 } : Gen.ScaledInvChiSquared X) := by c10_eval []

end ScaledInvChiSquared

/-! ## Skellam  (`src/dist/skellam.rs`) -/
section Skellam
attribute [local simp] Gen.Skellam.emit_params Gen.Skellam.from_params Gen.Skellam.get_mu_1 Gen.Skellam.get_mu_2 Gen.Skellam.new Gen.Skellam.new_unchecked Gen.Skellam.set_cache_cap Gen.Skellam.set_mu_1 Gen.Skellam.set_mu_1_unchecked Gen.Skellam.set_mu_2 Gen.Skellam.set_mu_2_unchecked Spec.Skellam.Valid Spec.Skellam.Inv

-- @site Skellam.new
/-- `Skellam::new` succeeds iff every parameter is in the documented domain — for ALL values incl. NaN, ±inf -/
theorem Skellam_new_ok_iff (mu_1 : X) (mu_2 : X) :
    (∃ d, Gen.Skellam.new mu_1 mu_2 = .ok d) ↔ Spec.Skellam.Valid mu_1 mu_2 := by
  rcases mu_1 with _|_|_|mu_1 <;> (try simp) <;>
    rcases mu_2 with _|_|_|mu_2 <;>
    (try simp) <;> c10_close

example : ∃ d, Gen.Skellam.new (fin 2) (fin 2) = .ok d := (Skellam_new_ok_iff ..).mpr (by c10_spec [Spec.Skellam.Valid])

example : ¬ ∃ d, Gen.Skellam.new (fin 0) (fin 2) = .ok d := by rw [Skellam_new_ok_iff]; c10_spec [Spec.Skellam.Valid]

-- @site Skellam.new
/-- on success the object carries exactly the given parameters -/
theorem Skellam_new_ok_fields (mu_1 : X) (mu_2 : X) (d : Gen.Skellam X) :
    Gen.Skellam.new mu_1 mu_2 = .ok d → d = ({ mu_1 := mu_1, mu_2 := mu_2 } : Gen.Skellam X) := by
  simp only [Gen.Skellam.emit_params, Gen.Skellam.from_params, Gen.Skellam.get_mu_1, Gen.Skellam.get_mu_2, Gen.Skellam.new, Gen.Skellam.new_unchecked, Gen.Skellam.set_cache_cap, Gen.Skellam.set_mu_1, Gen.Skellam.set_mu_1_unchecked, Gen.Skellam.set_mu_2, Gen.Skellam.set_mu_2_unchecked]
  split_ifs <;> simp <;> c10_close

example : Gen.Skellam.new (fin 2) (fin 2) = .ok ({ mu_1 := fin 2, mu_2 := fin 2 } : Gen.Skellam X) := by c10_eval []

-- @site Skellam.new
/-- checked and unchecked constructors build the same object -/
theorem Skellam_new_eq_unchecked (mu_1 : X) (mu_2 : X) (d : Gen.Skellam X) :
    Gen.Skellam.new mu_1 mu_2 = .ok d → d = Gen.Skellam.new_unchecked mu_1 mu_2 := by
  simp only [Gen.Skellam.emit_params, Gen.Skellam.from_params, Gen.Skellam.get_mu_1, Gen.Skellam.get_mu_2, Gen.Skellam.new, Gen.Skellam.new_unchecked, Gen.Skellam.set_cache_cap, Gen.Skellam.set_mu_1, Gen.Skellam.set_mu_1_unchecked, Gen.Skellam.set_mu_2, Gen.Skellam.set_mu_2_unchecked]
  split_ifs <;> simp <;> c10_close

example : Gen.Skellam.new (fin 2) (fin 2) = .ok (Gen.Skellam.new_unchecked (fin 2) (fin 2)) := by c10_eval []

-- @site Skellam.new
/-- an object obtained from the checked constructor satisfies the parameter invariant -/
theorem Skellam_new_inv (mu_1 : X) (mu_2 : X) (d : Gen.Skellam X) :
    Gen.Skellam.new mu_1 mu_2 = .ok d → Spec.Skellam.Inv d := by
  intro h
  rw [Skellam_new_ok_fields mu_1 mu_2 d h]
  exact (Skellam_new_ok_iff mu_1 mu_2).mp ⟨d, h⟩

example : Spec.Skellam.Inv ({ mu_1 := fin 2, mu_2 := fin 2 } : Gen.Skellam X) := Skellam_new_inv (fin 2) (fin 2) _ (by c10_eval [])

-- @site Skellam.new
/-- on failure the error names an argument that IS outside its documented domain and carries its value -/
theorem Skellam_new_err_offending (mu_1 : X) (mu_2 : X) (e : Err X) :
    Gen.Skellam.new mu_1 mu_2 = .error e →
     (¬ Spec.C10.IsPos mu_1 ∧ (e = Err.mk "Mu1TooLow" [mu_1] ∨ e = Err.mk "Mu1NotFinite" [mu_1])) ∨
     (¬ Spec.C10.IsPos mu_2 ∧ (e = Err.mk "Mu2TooLow" [mu_2] ∨ e = Err.mk "Mu2NotFinite" [mu_2])) := by
  rcases mu_1 with _|_|_|mu_1 <;> (try simp) <;>
    rcases mu_2 with _|_|_|mu_2 <;>
    (try simp) <;> c10_close

example : ∃ e, Gen.Skellam.new (fin 0) (fin 2) = .error e := by c10_eval []

/- FULL STATEMENT (false, see the counterexample below — the code tests `mu_1 <= 0`, `mu_2 <= 0` and only then the finiteness of mu_1):
   theorem Skellam_new_err_first (mu_1 : X) (mu_2 : X) (e : Err X) :
     Gen.Skellam.new mu_1 mu_2 = .error e →
     (¬ Spec.C10.IsPos mu_1 → (e = Err.mk "Mu1TooLow" [mu_1] ∨ e = Err.mk "Mu1NotFinite" [mu_1])) ∧
     (Spec.C10.IsPos mu_1 → ¬ Spec.C10.IsPos mu_2 → (e = Err.mk "Mu2TooLow" [mu_2] ∨ e = Err.mk "Mu2NotFinite" [mu_2]))
-/

-- @site Skellam.new
/-- first-offending-argument order holds only under the extra hypotheses; the code tests `mu_1 <= 0`, `mu_2 <= 0` and only then the finiteness of mu_1 -/
theorem Skellam_new_err_first_partial (mu_1 : X) (mu_2 : X) (e : Err X) :
    mu_1 ≠ nan → mu_1 ≠ pinf → Gen.Skellam.new mu_1 mu_2 = .error e →
     (¬ Spec.C10.IsPos mu_1 → (e = Err.mk "Mu1TooLow" [mu_1] ∨ e = Err.mk "Mu1NotFinite" [mu_1])) ∧
     (Spec.C10.IsPos mu_1 → ¬ Spec.C10.IsPos mu_2 → (e = Err.mk "Mu2TooLow" [mu_2] ∨ e = Err.mk "Mu2NotFinite" [mu_2])) := by
  rcases mu_1 with _|_|_|mu_1 <;> (try simp) <;>
    rcases mu_2 with _|_|_|mu_2 <;>
    (try simp) <;> c10_close

example : ∃ e, Gen.Skellam.new (fin 2) (fin 0) = .error e := by c10_eval []

-- @site Skellam.new
/-- DEFECT (order clause only): an earlier argument is invalid but the error names a later one; the code tests `mu_1 <= 0`, `mu_2 <= 0` and only then the finiteness of mu_1 -/
theorem Skellam_new_err_order_counterexample :
    ¬ Spec.C10.IsPos (nan : X) ∧
    Gen.Skellam.new (nan) (fin (-1)) = .error (Err.mk "Mu2TooLow" [fin (-1)] : Err X) := by
  c10_eval []

-- @site Skellam.set_mu_1
/-- `set_mu_1` succeeds iff the new value is in the documented domain of `mu_1` (finite, > 0) -/
theorem Skellam_set_mu_1_ok_iff (d : Gen.Skellam X) (v : X) :
    (∃ d', Gen.Skellam.set_mu_1 d v = .ok d') ↔ Spec.C10.IsPos v := by
  rcases v with _|_|_|v <;>
    simp <;> c10_close

example : ∃ d', Gen.Skellam.set_mu_1 ({ mu_1 := fin 2, mu_2 := fin 2 } : Gen.Skellam X) (fin 7) = .ok d' := (Skellam_set_mu_1_ok_iff ..).mpr (by c10_spec [])

-- @site Skellam.set_mu_1
/-- on failure the error carries the offending value -/
theorem Skellam_set_mu_1_err (d : Gen.Skellam X) (v : X) (e : Err X) :
    Gen.Skellam.set_mu_1 d v = .error e → ¬ Spec.C10.IsPos v ∧ (e = Err.mk "Mu1TooLow" [v] ∨ e = Err.mk "Mu1NotFinite" [v]) := by
  rcases v with _|_|_|v <;>
    simp <;> c10_close

example : ∃ e, Gen.Skellam.set_mu_1 ({ mu_1 := fin 2, mu_2 := fin 2 } : Gen.Skellam X) (fin 0) = .error e := by c10_eval []

-- @site Skellam.set_mu_1
/-- on success only that field (and its cache) changes; same object as the unchecked setter -/
theorem Skellam_set_mu_1_ok_fields (d d' : Gen.Skellam X) (v : X) :
    Gen.Skellam.set_mu_1 d v = .ok d' → d' = { d with mu_1 := v } ∧ d' = Gen.Skellam.set_mu_1_unchecked d v := by
  simp only [Gen.Skellam.emit_params, Gen.Skellam.from_params, Gen.Skellam.get_mu_1, Gen.Skellam.get_mu_2, Gen.Skellam.new, Gen.Skellam.new_unchecked, Gen.Skellam.set_cache_cap, Gen.Skellam.set_mu_1, Gen.Skellam.set_mu_1_unchecked, Gen.Skellam.set_mu_2, Gen.Skellam.set_mu_2_unchecked]
  split_ifs <;> simp <;> c10_close

example : Gen.Skellam.set_mu_1 ({ mu_1 := fin 2, mu_2 := fin 2 } : Gen.Skellam X) (fin 7) = .ok ({ mu_1 := fin 7, mu_2 := fin 2 } : Gen.Skellam X) := by c10_eval []

-- @site Skellam.set_mu_1
/-- failure atomicity (structural): either an error without a new state, or exactly the updated state -/
theorem Skellam_set_mu_1_atomic (d : Gen.Skellam X) (v : X) :
    (∃ e, Gen.Skellam.set_mu_1 d v = .error e) ∨ (∃ d', Gen.Skellam.set_mu_1 d v = .ok d' ∧ d' = { d with mu_1 := v }) := by
  simp only [Gen.Skellam.emit_params, Gen.Skellam.from_params, Gen.Skellam.get_mu_1, Gen.Skellam.get_mu_2, Gen.Skellam.new, Gen.Skellam.new_unchecked, Gen.Skellam.set_cache_cap, Gen.Skellam.set_mu_1, Gen.Skellam.set_mu_1_unchecked, Gen.Skellam.set_mu_2, Gen.Skellam.set_mu_2_unchecked]
  split_ifs <;> simp <;> c10_close

example : ∃ e, Gen.Skellam.set_mu_1 ({ mu_1 := fin 2, mu_2 := fin 2 } : Gen.Skellam X) (fin 0) = .error e := by c10_eval []

-- @site Skellam.set_mu_1
/-- a successful checked setter preserves the parameter invariant -/
theorem Skellam_set_mu_1_inv (d d' : Gen.Skellam X) (v : X) :
    Spec.Skellam.Inv d → Gen.Skellam.set_mu_1 d v = .ok d' → Spec.Skellam.Inv d' := by
  rcases d with ⟨f0, f1⟩
  rcases v with _|_|_|v <;>
    simp <;> c10_close

example : Spec.Skellam.Inv ({ mu_1 := fin 2, mu_2 := fin 2 } : Gen.Skellam X) := by c10_spec [Spec.Skellam.Inv, Spec.Skellam.Valid]

-- @site Skellam.set_mu_2
/-- `set_mu_2` succeeds iff the new value is in the documented domain of `mu_2` (finite, > 0) -/
theorem Skellam_set_mu_2_ok_iff (d : Gen.Skellam X) (v : X) :
    (∃ d', Gen.Skellam.set_mu_2 d v = .ok d') ↔ Spec.C10.IsPos v := by
  rcases v with _|_|_|v <;>
    simp <;> c10_close

example : ∃ d', Gen.Skellam.set_mu_2 ({ mu_1 := fin 2, mu_2 := fin 2 } : Gen.Skellam X) (fin 7) = .ok d' := (Skellam_set_mu_2_ok_iff ..).mpr (by c10_spec [])

-- @site Skellam.set_mu_2
/-- on failure the error carries the offending value -/
theorem Skellam_set_mu_2_err (d : Gen.Skellam X) (v : X) (e : Err X) :
    Gen.Skellam.set_mu_2 d v = .error e → ¬ Spec.C10.IsPos v ∧ (e = Err.mk "Mu2TooLow" [v] ∨ e = Err.mk "Mu2NotFinite" [v]) := by
  rcases v with _|_|_|v <;>
    simp <;> c10_close

example : ∃ e, Gen.Skellam.set_mu_2 ({ mu_1 := fin 2, mu_2 := fin 2 } : Gen.Skellam X) (fin 0) = .error e := by c10_eval []

-- @site Skellam.set_mu_2
/-- on success only that field (and its cache) changes; same object as the unchecked setter -/
theorem Skellam_set_mu_2_ok_fields (d d' : Gen.Skellam X) (v : X) :
    Gen.Skellam.set_mu_2 d v = .ok d' → d' = { d with mu_2 := v } ∧ d' = Gen.Skellam.set_mu_2_unchecked d v := by
  simp only [Gen.Skellam.emit_params, Gen.Skellam.from_params, Gen.Skellam.get_mu_1, Gen.Skellam.get_mu_2, Gen.Skellam.new, Gen.Skellam.new_unchecked, Gen.Skellam.set_cache_cap, Gen.Skellam.set_mu_1, Gen.Skellam.set_mu_1_unchecked, Gen.Skellam.set_mu_2, Gen.Skellam.set_mu_2_unchecked]
  split_ifs <;> simp <;> c10_close

example : Gen.Skellam.set_mu_2 ({ mu_1 := fin 2, mu_2 := fin 2 } : Gen.Skellam X) (fin 7) = .ok ({ mu_1 := fin 2, mu_2 := fin 7 } : Gen.Skellam X) := by c10_eval []

-- @site Skellam.set_mu_2
/-- failure atomicity (structural): either an error without a new state, or exactly the updated state -/
theorem Skellam_set_mu_2_atomic (d : Gen.Skellam X) (v : X) :
    (∃ e, Gen.Skellam.set_mu_2 d v = .error e) ∨ (∃ d', Gen.Skellam.set_mu_2 d v = .ok d' ∧ d' = { d with mu_2 := v }) := by
  simp only [Gen.Skellam.emit_params, Gen.Skellam.from_params, Gen.Skellam.get_mu_1, Gen.Skellam.get_mu_2, Gen.Skellam.new, Gen.Skellam.new_unchecked, Gen.Skellam.set_cache_cap, Gen.Skellam.set_mu_1, Gen.Skellam.set_mu_1_unchecked, Gen.Skellam.set_mu_2, Gen.Skellam.set_mu_2_unchecked]
  split_ifs <;> simp <;> c10_close

example : ∃ e, Gen.Skellam.set_mu_2 ({ mu_1 := fin 2, mu_2 := fin 2 } : Gen.Skellam X) (fin 0) = .error e := by c10_eval []

-- @site Skellam.set_mu_2
/-- a successful checked setter preserves the parameter invariant -/
theorem Skellam_set_mu_2_inv (d d' : Gen.Skellam X) (v : X) :
    Spec.Skellam.Inv d → Gen.Skellam.set_mu_2 d v = .ok d' → Spec.Skellam.Inv d' := by
  rcases d with ⟨f0, f1⟩
  rcases v with _|_|_|v <;>
    simp <;> c10_close

example : Spec.Skellam.Inv ({ mu_1 := fin 2, mu_2 := fin 2 } : Gen.Skellam X) := by c10_spec [Spec.Skellam.Inv, Spec.Skellam.Valid]

-- @site Skellam.new
/-- a sequence of accepted setters ending in parameters θ yields the object `new θ` builds -/
theorem Skellam_build_eq (d d1 d2 : Gen.Skellam X) (mu_1 : X) (mu_2 : X) :
    Gen.Skellam.set_mu_1 d mu_1 = .ok d1 →
    Gen.Skellam.set_mu_2 d1 mu_2 = .ok d2 →
    Gen.Skellam.new mu_1 mu_2 = .ok d2 := by
  rcases d with ⟨f0, f1⟩
  rcases mu_1 with _|_|_|mu_1 <;> (try simp) <;>
    rcases mu_2 with _|_|_|mu_2 <;>
    (try simp) <;> c10_close

example : ∃ d', Gen.Skellam.set_mu_1 ({ mu_1 := fin 2, mu_2 := fin 2 } : Gen.Skellam X) (fin 7) = .ok d' := by c10_eval []

-- @site Skellam.from_params
/-- parameter round trip -/
theorem Skellam_from_emit (d : Gen.Skellam X) :
    Gen.Skellam.from_params (Gen.Skellam.emit_params d) = d := by
  rfl

example : Gen.Skellam.from_params (Gen.Skellam.emit_params ({ mu_1 := fin 2, mu_2 := fin 2 } : Gen.Skellam X)) = ({ mu_1 := fin 2, mu_2 := fin 2 } : Gen.Skellam X) := by c10_eval []

-- @site Skellam.from_params
/-- `from_params (emit_params ·)` is the identity on every object built by the checked constructor -/
theorem Skellam_new_eq_from_params (mu_1 : X) (mu_2 : X) (d : Gen.Skellam X) :
    Gen.Skellam.new mu_1 mu_2 = .ok d → Gen.Skellam.from_params (Gen.Skellam.emit_params d) = d := by
  simp only [Gen.Skellam.emit_params, Gen.Skellam.from_params, Gen.Skellam.get_mu_1, Gen.Skellam.get_mu_2, Gen.Skellam.new, Gen.Skellam.new_unchecked, Gen.Skellam.set_cache_cap, Gen.Skellam.set_mu_1, Gen.Skellam.set_mu_1_unchecked, Gen.Skellam.set_mu_2, Gen.Skellam.set_mu_2_unchecked]
  split_ifs <;> simp <;> c10_close

example : Gen.Skellam.new (fin 2) (fin 2) = .ok ({ mu_1 := fin 2, mu_2 := fin 2 } : Gen.Skellam X) := by c10_eval []

end Skellam

/-! ## StudentsT  (`src/dist/students_t.rs`) -/
section StudentsT
attribute [local simp] Gen.StudentsT.emit_params Gen.StudentsT.from_params Gen.StudentsT.get_v Gen.StudentsT.new Gen.StudentsT.new_unchecked Gen.StudentsT.set_v Gen.StudentsT.set_v_unchecked Spec.StudentsT.Valid Spec.StudentsT.Inv

-- @site StudentsT.new
/-- `StudentsT::new` succeeds iff every parameter is in the documented domain — for ALL values incl. NaN, ±inf -/
theorem StudentsT_new_ok_iff (v : X) :
    (∃ d, Gen.StudentsT.new v = .ok d) ↔ Spec.StudentsT.Valid v := by
  rcases v with _|_|_|v <;>
    (try simp) <;> c10_close

example : ∃ d, Gen.StudentsT.new (fin 2) = .ok d := (StudentsT_new_ok_iff ..).mpr (by c10_spec [Spec.StudentsT.Valid])

example : ¬ ∃ d, Gen.StudentsT.new (fin 0) = .ok d := by rw [StudentsT_new_ok_iff]; c10_spec [Spec.StudentsT.Valid]

-- @site StudentsT.new
/-- on success the object carries exactly the given parameters -/
theorem StudentsT_new_ok_fields (v : X) (d : Gen.StudentsT X) :
    Gen.StudentsT.new v = .ok d → d = ({ v := v } : Gen.StudentsT X) := by
  simp only [Gen.StudentsT.emit_params, Gen.StudentsT.from_params, Gen.StudentsT.get_v, Gen.StudentsT.new, Gen.StudentsT.new_unchecked, Gen.StudentsT.set_v, Gen.StudentsT.set_v_unchecked]
  split_ifs <;> simp <;> c10_close

example : Gen.StudentsT.new (fin 2) = .ok ({ v := fin 2 } : Gen.StudentsT X) := by c10_eval []

-- @site StudentsT.new
/-- checked and unchecked constructors build the same object -/
theorem StudentsT_new_eq_unchecked (v : X) (d : Gen.StudentsT X) :
    Gen.StudentsT.new v = .ok d → d = Gen.StudentsT.new_unchecked v := by
  simp only [Gen.StudentsT.emit_params, Gen.StudentsT.from_params, Gen.StudentsT.get_v, Gen.StudentsT.new, Gen.StudentsT.new_unchecked, Gen.StudentsT.set_v, Gen.StudentsT.set_v_unchecked]
  split_ifs <;> simp <;> c10_close

example : Gen.StudentsT.new (fin 2) = .ok (Gen.StudentsT.new_unchecked (fin 2)) := by c10_eval []

-- @site StudentsT.new
/-- an object obtained from the checked constructor satisfies the parameter invariant -/
theorem StudentsT_new_inv (v : X) (d : Gen.StudentsT X) :
    Gen.StudentsT.new v = .ok d → Spec.StudentsT.Inv d := by
  intro h
  rw [StudentsT_new_ok_fields v d h]
  exact (StudentsT_new_ok_iff v).mp ⟨d, h⟩

example : Spec.StudentsT.Inv ({ v := fin 2 } : Gen.StudentsT X) := StudentsT_new_inv (fin 2) _ (by c10_eval [])

-- @site StudentsT.new
/-- on failure the error names an argument that IS outside its documented domain and carries its value -/
theorem StudentsT_new_err_offending (v : X) (e : Err X) :
    Gen.StudentsT.new v = .error e →
     (¬ Spec.C10.IsPos v ∧ (e = Err.mk "VNotFinite" [v] ∨ e = Err.mk "VTooLow" [v])) := by
  rcases v with _|_|_|v <;>
    (try simp) <;> c10_close

example : ∃ e, Gen.StudentsT.new (fin 0) = .error e := by c10_eval []

-- @site StudentsT.new
/-- on failure the error names the FIRST offending argument in documented (argument) order -/
theorem StudentsT_new_err_first (v : X) (e : Err X) :
    Gen.StudentsT.new v = .error e →
     (¬ Spec.C10.IsPos v → (e = Err.mk "VNotFinite" [v] ∨ e = Err.mk "VTooLow" [v])) := by
  rcases v with _|_|_|v <;>
    (try simp) <;> c10_close

example : ∃ e, Gen.StudentsT.new (fin 0) = .error e := by c10_eval []

-- @site StudentsT.set_v
/-- `set_v` succeeds iff the new value is in the documented domain of `v` (finite, > 0) -/
theorem StudentsT_set_v_ok_iff (d : Gen.StudentsT X) (v : X) :
    (∃ d', Gen.StudentsT.set_v d v = .ok d') ↔ Spec.C10.IsPos v := by
  rcases v with _|_|_|v <;>
    simp <;> c10_close

example : ∃ d', Gen.StudentsT.set_v ({ v := fin 2 } : Gen.StudentsT X) (fin 7) = .ok d' := (StudentsT_set_v_ok_iff ..).mpr (by c10_spec [])

-- @site StudentsT.set_v
/-- on failure the error carries the offending value -/
theorem StudentsT_set_v_err (d : Gen.StudentsT X) (v : X) (e : Err X) :
    Gen.StudentsT.set_v d v = .error e → ¬ Spec.C10.IsPos v ∧ (e = Err.mk "VNotFinite" [v] ∨ e = Err.mk "VTooLow" [v]) := by
  rcases v with _|_|_|v <;>
    simp <;> c10_close

example : ∃ e, Gen.StudentsT.set_v ({ v := fin 2 } : Gen.StudentsT X) (fin 0) = .error e := by c10_eval []

-- @site StudentsT.set_v
/-- on success only that field (and its cache) changes; same object as the unchecked setter -/
theorem StudentsT_set_v_ok_fields (d d' : Gen.StudentsT X) (v : X) :
    Gen.StudentsT.set_v d v = .ok d' → d' = { d with v := v } ∧ d' = Gen.StudentsT.set_v_unchecked d v := by
  simp only [Gen.StudentsT.emit_params, Gen.StudentsT.from_params, Gen.StudentsT.get_v, Gen.StudentsT.new, Gen.StudentsT.new_unchecked, Gen.StudentsT.set_v, Gen.StudentsT.set_v_unchecked]
  split_ifs <;> simp <;> c10_close

example : Gen.StudentsT.set_v ({ v := fin 2 } : Gen.StudentsT X) (fin 7) = .ok ({ v := fin 7 } : Gen.StudentsT X) := by c10_eval []

-- @site StudentsT.set_v
/-- failure atomicity (structural): either an error without a new state, or exactly the updated state -/
theorem StudentsT_set_v_atomic (d : Gen.StudentsT X) (v : X) :
    (∃ e, Gen.StudentsT.set_v d v = .error e) ∨ (∃ d', Gen.StudentsT.set_v d v = .ok d' ∧ d' = { d with v := v }) := by
  simp only [Gen.StudentsT.emit_params, Gen.StudentsT.from_params, Gen.StudentsT.get_v, Gen.StudentsT.new, Gen.StudentsT.new_unchecked, Gen.StudentsT.set_v, Gen.StudentsT.set_v_unchecked]
  split_ifs <;> simp <;> c10_close

example : ∃ e, Gen.StudentsT.set_v ({ v := fin 2 } : Gen.StudentsT X) (fin 0) = .error e := by c10_eval []

-- @site StudentsT.set_v
/-- a successful checked setter preserves the parameter invariant -/
theorem StudentsT_set_v_inv (d d' : Gen.StudentsT X) (v : X) :
    Spec.StudentsT.Inv d → Gen.StudentsT.set_v d v = .ok d' → Spec.StudentsT.Inv d' := by
  rcases d with ⟨f0⟩
  rcases v with _|_|_|v <;>
    simp <;> c10_close

example : Spec.StudentsT.Inv ({ v := fin 2 } : Gen.StudentsT X) := by c10_spec [Spec.StudentsT.Inv, Spec.StudentsT.Valid]

-- @site StudentsT.new
/-- a sequence of accepted setters ending in parameters θ yields the object `new θ` builds -/
theorem StudentsT_build_eq (d d1 : Gen.StudentsT X) (v : X) :
    Gen.StudentsT.set_v d v = .ok d1 →
    Gen.StudentsT.new v = .ok d1 := by
  rcases d with ⟨f0⟩
  rcases v with _|_|_|v <;>
    (try simp) <;> c10_close

example : ∃ d', Gen.StudentsT.set_v ({ v := fin 2 } : Gen.StudentsT X) (fin 7) = .ok d' := by c10_eval []

-- @site StudentsT.from_params
/-- parameter round trip -/
theorem StudentsT_from_emit (d : Gen.StudentsT X) :
    Gen.StudentsT.from_params (Gen.StudentsT.emit_params d) = d := by
  rfl

example : Gen.StudentsT.from_params (Gen.StudentsT.emit_params ({ v := fin 2 } : Gen.StudentsT X)) = ({ v := fin 2 } : Gen.StudentsT X) := by c10_eval []

-- @site StudentsT.from_params
/-- `from_params (emit_params ·)` is the identity on every object built by the checked constructor -/
theorem StudentsT_new_eq_from_params (v : X) (d : Gen.StudentsT X) :
    Gen.StudentsT.new v = .ok d → Gen.StudentsT.from_params (Gen.StudentsT.emit_params d) = d := by
  simp only [Gen.StudentsT.emit_params, Gen.StudentsT.from_params, Gen.StudentsT.get_v, Gen.StudentsT.new, Gen.StudentsT.new_unchecked, Gen.StudentsT.set_v, Gen.StudentsT.set_v_unchecked]
  split_ifs <;> simp <;> c10_close

example : Gen.StudentsT.new (fin 2) = .ok ({ v := fin 2 } : Gen.StudentsT X) := by c10_eval []

end StudentsT

/-! ## UnitPowerLaw  (`src/dist/unit_powerlaw.rs`) -/
section UnitPowerLaw
attribute [local simp] Gen.UnitPowerLaw.emit_params Gen.UnitPowerLaw.from_params Gen.UnitPowerLaw.get_alpha Gen.UnitPowerLaw.new Gen.UnitPowerLaw.new_unchecked Gen.UnitPowerLaw.set_alpha Gen.UnitPowerLaw.set_alpha_unchecked Spec.UnitPowerLaw.Valid Spec.UnitPowerLaw.Inv

-- @site UnitPowerLaw.new
/-- `UnitPowerLaw::new` succeeds iff every parameter is in the documented domain — for ALL values incl. NaN, ±inf -/
theorem UnitPowerLaw_new_ok_iff (alpha : X) :
    (∃ d, Gen.UnitPowerLaw.new alpha = .ok d) ↔ Spec.UnitPowerLaw.Valid alpha := by
  rcases alpha with _|_|_|alpha <;>
    (try simp) <;> c10_close

example : ∃ d, Gen.UnitPowerLaw.new (fin 2) = .ok d := (UnitPowerLaw_new_ok_iff ..).mpr (by c10_spec [Spec.UnitPowerLaw.Valid])

example : ¬ ∃ d, Gen.UnitPowerLaw.new (fin 0) = .ok d := by rw [UnitPowerLaw_new_ok_iff]; c10_spec [Spec.UnitPowerLaw.Valid]

-- @site UnitPowerLaw.new
/-- on success the object carries exactly the given parameters -/
theorem UnitPowerLaw_new_ok_fields (alpha : X) (d : Gen.UnitPowerLaw X) :
    Gen.UnitPowerLaw.new alpha = .ok d → d = ({ alpha := alpha } : Gen.UnitPowerLaw X) := by
  simp only [Gen.UnitPowerLaw.emit_params, Gen.UnitPowerLaw.from_params, Gen.UnitPowerLaw.get_alpha, Gen.UnitPowerLaw.new, Gen.UnitPowerLaw.new_unchecked, Gen.UnitPowerLaw.set_alpha, Gen.UnitPowerLaw.set_alpha_unchecked]
  split_ifs <;> simp <;> c10_close

example : Gen.UnitPowerLaw.new (fin 2) = .ok ({ alpha := fin 2 } : Gen.UnitPowerLaw X) := by c10_eval []

-- @site UnitPowerLaw.new
/-- checked and unchecked constructors build the same object -/
theorem UnitPowerLaw_new_eq_unchecked (alpha : X) (d : Gen.UnitPowerLaw X) :
    Gen.UnitPowerLaw.new alpha = .ok d → d = Gen.UnitPowerLaw.new_unchecked alpha := by
  simp only [Gen.UnitPowerLaw.emit_params, Gen.UnitPowerLaw.from_params, Gen.UnitPowerLaw.get_alpha, Gen.UnitPowerLaw.new, Gen.UnitPowerLaw.new_unchecked, Gen.UnitPowerLaw.set_alpha, Gen.UnitPowerLaw.set_alpha_unchecked]
  split_ifs <;> simp <;> c10_close

example : Gen.UnitPowerLaw.new (fin 2) = .ok (Gen.UnitPowerLaw.new_unchecked (fin 2)) := by c10_eval []

-- @site UnitPowerLaw.new
/-- an object obtained from the checked constructor satisfies the parameter invariant -/
theorem UnitPowerLaw_new_inv (alpha : X) (d : Gen.UnitPowerLaw X) :
    Gen.UnitPowerLaw.new alpha = .ok d → Spec.UnitPowerLaw.Inv d := by
  intro h
  rw [UnitPowerLaw_new_ok_fields alpha d h]
  exact (UnitPowerLaw_new_ok_iff alpha).mp ⟨d, h⟩

example : Spec.UnitPowerLaw.Inv ({ alpha := fin 2 } : Gen.UnitPowerLaw X) := UnitPowerLaw_new_inv (fin 2) _ (by c10_eval [])

-- @site UnitPowerLaw.new
/-- on failure the error names an argument that IS outside its documented domain and carries its value -/
theorem UnitPowerLaw_new_err_offending (alpha : X) (e : Err X) :
    Gen.UnitPowerLaw.new alpha = .error e →
     (¬ Spec.C10.IsPos alpha ∧ (e = Err.mk "AlphaTooLow" [alpha] ∨ e = Err.mk "AlphaNotFinite" [alpha])) := by
  rcases alpha with _|_|_|alpha <;>
    (try simp) <;> c10_close

example : ∃ e, Gen.UnitPowerLaw.new (fin 0) = .error e := by c10_eval []

-- @site UnitPowerLaw.new
/-- on failure the error names the FIRST offending argument in documented (argument) order -/
theorem UnitPowerLaw_new_err_first (alpha : X) (e : Err X) :
    Gen.UnitPowerLaw.new alpha = .error e →
     (¬ Spec.C10.IsPos alpha → (e = Err.mk "AlphaTooLow" [alpha] ∨ e = Err.mk "AlphaNotFinite" [alpha])) := by
  rcases alpha with _|_|_|alpha <;>
    (try simp) <;> c10_close

example : ∃ e, Gen.UnitPowerLaw.new (fin 0) = .error e := by c10_eval []

-- @site UnitPowerLaw.set_alpha
/-- `set_alpha` succeeds iff the new value is in the documented domain of `alpha` (finite, > 0) -/
theorem UnitPowerLaw_set_alpha_ok_iff (d : Gen.UnitPowerLaw X) (v : X) :
    (∃ d', Gen.UnitPowerLaw.set_alpha d v = .ok d') ↔ Spec.C10.IsPos v := by
  rcases v with _|_|_|v <;>
    simp <;> c10_close

example : ∃ d', Gen.UnitPowerLaw.set_alpha ({ alpha := fin 2 } : Gen.UnitPowerLaw X) (fin 7) = .ok d' := (UnitPowerLaw_set_alpha_ok_iff ..).mpr (by c10_spec [])

-- @site UnitPowerLaw.set_alpha
/-- on failure the error carries the offending value -/
theorem UnitPowerLaw_set_alpha_err (d : Gen.UnitPowerLaw X) (v : X) (e : Err X) :
    Gen.UnitPowerLaw.set_alpha d v = .error e → ¬ Spec.C10.IsPos v ∧ (e = Err.mk "AlphaTooLow" [v] ∨ e = Err.mk "AlphaNotFinite" [v]) := by
  rcases v with _|_|_|v <;>
    simp <;> c10_close

example : ∃ e, Gen.UnitPowerLaw.set_alpha ({ alpha := fin 2 } : Gen.UnitPowerLaw X) (fin 0) = .error e := by c10_eval []

-- @site UnitPowerLaw.set_alpha
/-- on success only that field (and its cache) changes; same object as the unchecked setter -/
theorem UnitPowerLaw_set_alpha_ok_fields (d d' : Gen.UnitPowerLaw X) (v : X) :
    Gen.UnitPowerLaw.set_alpha d v = .ok d' → d' = { d with alpha := v } ∧ d' = Gen.UnitPowerLaw.set_alpha_unchecked d v := by
  simp only [Gen.UnitPowerLaw.emit_params, Gen.UnitPowerLaw.from_params, Gen.UnitPowerLaw.get_alpha, Gen.UnitPowerLaw.new, Gen.UnitPowerLaw.new_unchecked, Gen.UnitPowerLaw.set_alpha, Gen.UnitPowerLaw.set_alpha_unchecked]
  split_ifs <;> simp <;> c10_close

example : Gen.UnitPowerLaw.set_alpha ({ alpha := fin 2 } : Gen.UnitPowerLaw X) (fin 7) = .ok ({ alpha := fin 7 } : Gen.UnitPowerLaw X) := by c10_eval []

-- @site UnitPowerLaw.set_alpha
/-- failure atomicity (structural): either an error without a new state, or exactly the updated state -/
theorem UnitPowerLaw_set_alpha_atomic (d : Gen.UnitPowerLaw X) (v : X) :
    (∃ e, Gen.UnitPowerLaw.set_alpha d v = .error e) ∨ (∃ d', Gen.UnitPowerLaw.set_alpha d v = .ok d' ∧ d' = { d with alpha := v }) := by
  simp only [Gen.UnitPowerLaw.emit_params, Gen.UnitPowerLaw.from_params, Gen.UnitPowerLaw.get_alpha, Gen.UnitPowerLaw.new, Gen.UnitPowerLaw.new_unchecked, Gen.UnitPowerLaw.set_alpha, Gen.UnitPowerLaw.set_alpha_unchecked]
  split_ifs <;> simp <;> c10_close

example : ∃ e, Gen.UnitPowerLaw.set_alpha ({ alpha := fin 2 } : Gen.UnitPowerLaw X) (fin 0) = .error e := by c10_eval []

-- @site UnitPowerLaw.set_alpha
/-- a successful checked setter preserves the parameter invariant -/
theorem UnitPowerLaw_set_alpha_inv (d d' : Gen.UnitPowerLaw X) (v : X) :
    Spec.UnitPowerLaw.Inv d → Gen.UnitPowerLaw.set_alpha d v = .ok d' → Spec.UnitPowerLaw.Inv d' := by
  rcases d with ⟨f0⟩
  rcases v with _|_|_|v <;>
    simp <;> c10_close

example : Spec.UnitPowerLaw.Inv ({ alpha := fin 2 } : Gen.UnitPowerLaw X) := by c10_spec [Spec.UnitPowerLaw.Inv, Spec.UnitPowerLaw.Valid]

-- @site UnitPowerLaw.new
/-- a sequence of accepted setters ending in parameters θ yields the object `new θ` builds -/
theorem UnitPowerLaw_build_eq (d d1 : Gen.UnitPowerLaw X) (alpha : X) :
    Gen.UnitPowerLaw.set_alpha d alpha = .ok d1 →
    Gen.UnitPowerLaw.new alpha = .ok d1 := by
  rcases d with ⟨f0⟩
  rcases alpha with _|_|_|alpha <;>
    (try simp) <;> c10_close

example : ∃ d', Gen.UnitPowerLaw.set_alpha ({ alpha := fin 2 } : Gen.UnitPowerLaw X) (fin 7) = .ok d' := by c10_eval []

-- @site UnitPowerLaw.from_params
/-- parameter round trip -/
theorem UnitPowerLaw_from_emit (d : Gen.UnitPowerLaw X) :
    Gen.UnitPowerLaw.from_params (Gen.UnitPowerLaw.emit_params d) = d := by
  rfl

example : Gen.UnitPowerLaw.from_params (Gen.UnitPowerLaw.emit_params ({ alpha := fin 2 } : Gen.UnitPowerLaw X)) = ({ alpha := fin 2 } : Gen.UnitPowerLaw X) := by c10_eval []

-- @site UnitPowerLaw.from_params
/-- `from_params (emit_params ·)` is the identity on every object built by the checked constructor -/
theorem UnitPowerLaw_new_eq_from_params (alpha : X) (d : Gen.UnitPowerLaw X) :
    Gen.UnitPowerLaw.new alpha = .ok d → Gen.UnitPowerLaw.from_params (Gen.UnitPowerLaw.emit_params d) = d := by
  simp only [Gen.UnitPowerLaw.emit_params, Gen.UnitPowerLaw.from_params, Gen.UnitPowerLaw.get_alpha, Gen.UnitPowerLaw.new, Gen.UnitPowerLaw.new_unchecked, Gen.UnitPowerLaw.set_alpha, Gen.UnitPowerLaw.set_alpha_unchecked]
  split_ifs <;> simp <;> c10_close

example : Gen.UnitPowerLaw.new (fin 2) = .ok ({ alpha := fin 2 } : Gen.UnitPowerLaw X) := by c10_eval []

end UnitPowerLaw

/-! ## VonMises  (`src/dist/vonmises.rs`) -/
section VonMises
attribute [local simp] Gen.VonMises.emit_params Gen.VonMises.from_params Gen.VonMises.get_k Gen.VonMises.get_mu Gen.VonMises.new Gen.VonMises.new_unchecked Gen.VonMises.set_k Gen.VonMises.set_k_unchecked Gen.VonMises.set_mu Gen.VonMises.set_mu_unchecked Spec.VonMises.Valid Spec.VonMises.Inv

-- @site VonMises.new
/-- `VonMises::new` succeeds iff every parameter is in the documented domain — for ALL values incl. NaN, ±inf -/
theorem VonMises_new_ok_iff (mu : X) (k : X) :
    (∃ d, Gen.VonMises.new mu k = .ok d) ↔ Spec.VonMises.Valid mu k := by
  rcases mu with _|_|_|mu <;> (try simp) <;>
    rcases k with _|_|_|k <;>
    (try simp) <;> c10_close

example : ∃ d, Gen.VonMises.new (fin 0) (fin 2) = .ok d := (VonMises_new_ok_iff ..).mpr (by c10_spec [Spec.VonMises.Valid])

example : ¬ ∃ d, Gen.VonMises.new (fin (-1)) (fin 2) = .ok d := by rw [VonMises_new_ok_iff]; c10_spec [Spec.VonMises.Valid]

-- @site VonMises.new
/-- on success the object carries exactly the given parameters -/
theorem VonMises_new_ok_fields (mu : X) (k : X) (d : Gen.VonMises X) :
    Gen.VonMises.new mu k = .ok d → d = ({ mu := mu, k := k, i0_k := RealLike.bessI0 (k) } : Gen.VonMises X) := by
  simp only [Gen.VonMises.emit_params, Gen.VonMises.from_params, Gen.VonMises.get_k, Gen.VonMises.get_mu, Gen.VonMises.new, Gen.VonMises.new_unchecked, Gen.VonMises.set_k, Gen.VonMises.set_k_unchecked, Gen.VonMises.set_mu, Gen.VonMises.set_mu_unchecked]
  split_ifs <;> simp <;> c10_close

example : Gen.VonMises.new (fin 0) (fin 2) = .ok ({ mu := fin 0, k := fin 2, i0_k := RealLike.bessI0 (fin 2) } : Gen.VonMises X) := by c10_eval []

-- @site VonMises.new
/-- checked and unchecked constructors build the same object -/
theorem VonMises_new_eq_unchecked (mu : X) (k : X) (d : Gen.VonMises X) :
    Gen.VonMises.new mu k = .ok d → d = Gen.VonMises.new_unchecked mu k := by
  simp only [Gen.VonMises.emit_params, Gen.VonMises.from_params, Gen.VonMises.get_k, Gen.VonMises.get_mu, Gen.VonMises.new, Gen.VonMises.new_unchecked, Gen.VonMises.set_k, Gen.VonMises.set_k_unchecked, Gen.VonMises.set_mu, Gen.VonMises.set_mu_unchecked]
  split_ifs <;> simp <;> c10_close

example : Gen.VonMises.new (fin 0) (fin 2) = .ok (Gen.VonMises.new_unchecked (fin 0) (fin 2)) := by c10_eval []

-- @site VonMises.new
/-- an object obtained from the checked constructor satisfies the parameter invariant -/
theorem VonMises_new_inv (mu : X) (k : X) (d : Gen.VonMises X) :
    Gen.VonMises.new mu k = .ok d → Spec.VonMises.Inv d := by
  rcases mu with _|_|_|mu <;> (try simp) <;>
    rcases k with _|_|_|k <;>
    (try simp) <;> c10_close

example : Spec.VonMises.Inv ({ mu := fin 0, k := fin 2, i0_k := RealLike.bessI0 (fin 2) } : Gen.VonMises X) := VonMises_new_inv (fin 0) (fin 2) _ (by c10_eval [])

-- @site VonMises.new
/-- on failure the error names an argument that IS outside its documented domain and carries its value -/
theorem VonMises_new_err_offending (mu : X) (k : X) (e : Err X) :
    Gen.VonMises.new mu k = .error e →
     (¬ Spec.C10.IsCircle mu ∧ (e = Err.mk "MuOutOfBounds" [mu] ∨ e = Err.mk "MuNotFinite" [mu])) ∨
     (¬ Spec.C10.IsPos k ∧ (e = Err.mk "KTooLow" [k] ∨ e = Err.mk "KNotFinite" [k])) := by
  rcases mu with _|_|_|mu <;> (try simp) <;>
    rcases k with _|_|_|k <;>
    (try simp) <;> c10_close

example : ∃ e, Gen.VonMises.new (fin (-1)) (fin 2) = .error e := by c10_eval []

-- @site VonMises.new
/-- on failure the error names the FIRST offending argument in documented (argument) order -/
theorem VonMises_new_err_first (mu : X) (k : X) (e : Err X) :
    Gen.VonMises.new mu k = .error e →
     (¬ Spec.C10.IsCircle mu → (e = Err.mk "MuOutOfBounds" [mu] ∨ e = Err.mk "MuNotFinite" [mu])) ∧
     (Spec.C10.IsCircle mu → ¬ Spec.C10.IsPos k → (e = Err.mk "KTooLow" [k] ∨ e = Err.mk "KNotFinite" [k])) := by
  rcases mu with _|_|_|mu <;> (try simp) <;>
    rcases k with _|_|_|k <;>
    (try simp) <;> c10_close

example : ∃ e, Gen.VonMises.new (fin (-1)) (fin 2) = .error e := by c10_eval []

-- @site VonMises.set_mu
/-- `set_mu` succeeds iff the new value is in the documented domain of `mu` (finite, in [0, 2π]) -/
theorem VonMises_set_mu_ok_iff (d : Gen.VonMises X) (v : X) :
    (∃ d', Gen.VonMises.set_mu d v = .ok d') ↔ Spec.C10.IsCircle v := by
  rcases v with _|_|_|v <;>
    simp <;> c10_close

example : ∃ d', Gen.VonMises.set_mu ({ mu := fin 0, k := fin 2, i0_k := RealLike.bessI0 (fin 2) } : Gen.VonMises X) (fin 1) = .ok d' := (VonMises_set_mu_ok_iff ..).mpr (by c10_spec [])

-- @site VonMises.set_mu
/-- on failure the error carries the offending value -/
theorem VonMises_set_mu_err (d : Gen.VonMises X) (v : X) (e : Err X) :
    Gen.VonMises.set_mu d v = .error e → ¬ Spec.C10.IsCircle v ∧ (e = Err.mk "MuOutOfBounds" [v] ∨ e = Err.mk "MuNotFinite" [v]) := by
  rcases v with _|_|_|v <;>
    simp <;> c10_close

example : ∃ e, Gen.VonMises.set_mu ({ mu := fin 0, k := fin 2, i0_k := RealLike.bessI0 (fin 2) } : Gen.VonMises X) (fin (-1)) = .error e := by c10_eval []

-- @site VonMises.set_mu
/-- on success only that field (and its cache) changes; same object as the unchecked setter -/
theorem VonMises_set_mu_ok_fields (d d' : Gen.VonMises X) (v : X) :
    Gen.VonMises.set_mu d v = .ok d' → d' = { d with mu := v } ∧ d' = Gen.VonMises.set_mu_unchecked d v := by
  simp only [Gen.VonMises.emit_params, Gen.VonMises.from_params, Gen.VonMises.get_k, Gen.VonMises.get_mu, Gen.VonMises.new, Gen.VonMises.new_unchecked, Gen.VonMises.set_k, Gen.VonMises.set_k_unchecked, Gen.VonMises.set_mu, Gen.VonMises.set_mu_unchecked]
  split_ifs <;> simp <;> c10_close

example : Gen.VonMises.set_mu ({ mu := fin 0, k := fin 2, i0_k := RealLike.bessI0 (fin 2) } : Gen.VonMises X) (fin 1) = .ok ({ mu := fin 1, k := fin 2, i0_k := RealLike.bessI0 (fin 2) } : Gen.VonMises X) := by c10_eval []

-- @site VonMises.set_mu
/-- failure atomicity (structural): either an error without a new state, or exactly the updated state -/
theorem VonMises_set_mu_atomic (d : Gen.VonMises X) (v : X) :
    (∃ e, Gen.VonMises.set_mu d v = .error e) ∨ (∃ d', Gen.VonMises.set_mu d v = .ok d' ∧ d' = { d with mu := v }) := by
  simp only [Gen.VonMises.emit_params, Gen.VonMises.from_params, Gen.VonMises.get_k, Gen.VonMises.get_mu, Gen.VonMises.new, Gen.VonMises.new_unchecked, Gen.VonMises.set_k, Gen.VonMises.set_k_unchecked, Gen.VonMises.set_mu, Gen.VonMises.set_mu_unchecked]
  split_ifs <;> simp <;> c10_close

example : ∃ e, Gen.VonMises.set_mu ({ mu := fin 0, k := fin 2, i0_k := RealLike.bessI0 (fin 2) } : Gen.VonMises X) (fin (-1)) = .error e := by c10_eval []

-- @site VonMises.set_mu
/-- a successful checked setter preserves the parameter invariant -/
theorem VonMises_set_mu_inv (d d' : Gen.VonMises X) (v : X) :
    Spec.VonMises.Inv d → Gen.VonMises.set_mu d v = .ok d' → Spec.VonMises.Inv d' := by
  rcases d with ⟨f0, f1, f2⟩
  rcases v with _|_|_|v <;>
    simp <;> c10_close

example : Spec.VonMises.Inv ({ mu := fin 0, k := fin 2, i0_k := RealLike.bessI0 (fin 2) } : Gen.VonMises X) := by c10_spec [Spec.VonMises.Inv, Spec.VonMises.Valid]

-- @site VonMises.set_k
/-- `set_k` succeeds iff the new value is in the documented domain of `k` (finite, > 0) -/
theorem VonMises_set_k_ok_iff (d : Gen.VonMises X) (v : X) :
    (∃ d', Gen.VonMises.set_k d v = .ok d') ↔ Spec.C10.IsPos v := by
  rcases v with _|_|_|v <;>
    simp <;> c10_close

example : ∃ d', Gen.VonMises.set_k ({ mu := fin 0, k := fin 2, i0_k := RealLike.bessI0 (fin 2) } : Gen.VonMises X) (fin 7) = .ok d' := (VonMises_set_k_ok_iff ..).mpr (by c10_spec [])

-- @site VonMises.set_k
/-- on failure the error carries the offending value -/
theorem VonMises_set_k_err (d : Gen.VonMises X) (v : X) (e : Err X) :
    Gen.VonMises.set_k d v = .error e → ¬ Spec.C10.IsPos v ∧ (e = Err.mk "KTooLow" [v] ∨ e = Err.mk "KNotFinite" [v]) := by
  rcases v with _|_|_|v <;>
    simp <;> c10_close

example : ∃ e, Gen.VonMises.set_k ({ mu := fin 0, k := fin 2, i0_k := RealLike.bessI0 (fin 2) } : Gen.VonMises X) (fin 0) = .error e := by c10_eval []

-- @site VonMises.set_k
/-- on success only that field (and its cache) changes; same object as the unchecked setter -/
theorem VonMises_set_k_ok_fields (d d' : Gen.VonMises X) (v : X) :
    Gen.VonMises.set_k d v = .ok d' → d' = { d with k := v, i0_k := RealLike.bessI0 v } ∧ d' = Gen.VonMises.set_k_unchecked d v := by
  simp only [Gen.VonMises.emit_params, Gen.VonMises.from_params, Gen.VonMises.get_k, Gen.VonMises.get_mu, Gen.VonMises.new, Gen.VonMises.new_unchecked, Gen.VonMises.set_k, Gen.VonMises.set_k_unchecked, Gen.VonMises.set_mu, Gen.VonMises.set_mu_unchecked]
  split_ifs <;> simp <;> c10_close

example : Gen.VonMises.set_k ({ mu := fin 0, k := fin 2, i0_k := RealLike.bessI0 (fin 2) } : Gen.VonMises X) (fin 7) = .ok ({ mu := fin 0, k := fin 7, i0_k := RealLike.bessI0 (fin 7) } : Gen.VonMises X) := by c10_eval []

-- @site VonMises.set_k
/-- failure atomicity (structural): either an error without a new state, or exactly the updated state -/
theorem VonMises_set_k_atomic (d : Gen.VonMises X) (v : X) :
    (∃ e, Gen.VonMises.set_k d v = .error e) ∨ (∃ d', Gen.VonMises.set_k d v = .ok d' ∧ d' = { d with k := v, i0_k := RealLike.bessI0 v }) := by
  simp only [Gen.VonMises.emit_params, Gen.VonMises.from_params, Gen.VonMises.get_k, Gen.VonMises.get_mu, Gen.VonMises.new, Gen.VonMises.new_unchecked, Gen.VonMises.set_k, Gen.VonMises.set_k_unchecked, Gen.VonMises.set_mu, Gen.VonMises.set_mu_unchecked]
  split_ifs <;> simp <;> c10_close

example : ∃ e, Gen.VonMises.set_k ({ mu := fin 0, k := fin 2, i0_k := RealLike.bessI0 (fin 2) } : Gen.VonMises X) (fin 0) = .error e := by c10_eval []

-- @site VonMises.set_k
/-- a successful checked setter preserves the parameter invariant -/
theorem VonMises_set_k_inv (d d' : Gen.VonMises X) (v : X) :
    Spec.VonMises.Inv d → Gen.VonMises.set_k d v = .ok d' → Spec.VonMises.Inv d' := by
  rcases d with ⟨f0, f1, f2⟩
  rcases v with _|_|_|v <;>
    simp <;> c10_close

example : Spec.VonMises.Inv ({ mu := fin 0, k := fin 2, i0_k := RealLike.bessI0 (fin 2) } : Gen.VonMises X) := by c10_spec [Spec.VonMises.Inv, Spec.VonMises.Valid]

-- @site VonMises.new
/-- a sequence of accepted setters ending in parameters θ yields the object `new θ` builds -/
theorem VonMises_build_eq (d d1 d2 : Gen.VonMises X) (mu : X) (k : X) :
    Gen.VonMises.set_mu d mu = .ok d1 →
    Gen.VonMises.set_k d1 k = .ok d2 →
    Gen.VonMises.new mu k = .ok d2 := by
  rcases d with ⟨f0, f1, f2⟩
  rcases mu with _|_|_|mu <;> (try simp) <;>
    rcases k with _|_|_|k <;>
    (try simp) <;> c10_close

example : ∃ d', Gen.VonMises.set_mu ({ mu := fin 0, k := fin 2, i0_k := RealLike.bessI0 (fin 2) } : Gen.VonMises X) (fin 1) = .ok d' := by c10_eval []

-- @site VonMises.from_params
/-- parameter round trip (for an object whose cached field is coherent, as every checked call leaves it) -/
theorem VonMises_from_emit (d : Gen.VonMises X) (hc : d.i0_k = RealLike.bessI0 d.k) :
    Gen.VonMises.from_params (Gen.VonMises.emit_params d) = d := by
  rcases d with ⟨f0, f1, f2⟩
  simp at hc ⊢ <;> simp_all

example : Gen.VonMises.from_params (Gen.VonMises.emit_params ({ mu := fin 0, k := fin 2, i0_k := RealLike.bessI0 (fin 2) } : Gen.VonMises X)) = ({ mu := fin 0, k := fin 2, i0_k := RealLike.bessI0 (fin 2) } : Gen.VonMises X) := by c10_eval []

-- @site VonMises.from_params
/-- `from_params (emit_params ·)` is the identity on every object built by the checked constructor -/
theorem VonMises_new_eq_from_params (mu : X) (k : X) (d : Gen.VonMises X) :
    Gen.VonMises.new mu k = .ok d → Gen.VonMises.from_params (Gen.VonMises.emit_params d) = d := by
  simp only [Gen.VonMises.emit_params, Gen.VonMises.from_params, Gen.VonMises.get_k, Gen.VonMises.get_mu, Gen.VonMises.new, Gen.VonMises.new_unchecked, Gen.VonMises.set_k, Gen.VonMises.set_k_unchecked, Gen.VonMises.set_mu, Gen.VonMises.set_mu_unchecked]
  split_ifs <;> simp <;> c10_close

example : Gen.VonMises.new (fin 0) (fin 2) = .ok ({ mu := fin 0, k := fin 2, i0_k := RealLike.bessI0 (fin 2) } : Gen.VonMises X) := by c10_eval []

end VonMises

/-! ## SymmetricDirichlet  (`src/dist/dirichlet.rs`) -/
section SymmetricDirichlet
attribute [local simp] Gen.SymmetricDirichlet.emit_params Gen.SymmetricDirichlet.from_params Gen.SymmetricDirichlet.get_alpha Gen.SymmetricDirichlet.get_k Gen.SymmetricDirichlet.new Gen.SymmetricDirichlet.new_unchecked Gen.SymmetricDirichlet.set_alpha Gen.SymmetricDirichlet.set_alpha_unchecked Spec.SymmetricDirichlet.Valid Spec.SymmetricDirichlet.Inv

-- @site SymmetricDirichlet.new
/-- `SymmetricDirichlet::new` succeeds iff every parameter is in the documented domain — for ALL values incl. NaN, ±inf -/
theorem SymmetricDirichlet_new_ok_iff (alpha : X) (k : Nat) :
    (∃ d, Gen.SymmetricDirichlet.new alpha k = .ok d) ↔ Spec.SymmetricDirichlet.Valid alpha k := by
  rcases alpha with _|_|_|alpha <;>
    (try simp) <;> c10_close

example : ∃ d, Gen.SymmetricDirichlet.new (fin 2) (3) = .ok d := (SymmetricDirichlet_new_ok_iff ..).mpr (by c10_spec [Spec.SymmetricDirichlet.Valid])

example : ¬ ∃ d, Gen.SymmetricDirichlet.new (fin 0) (3) = .ok d := by rw [SymmetricDirichlet_new_ok_iff]; c10_spec [Spec.SymmetricDirichlet.Valid]

-- @site SymmetricDirichlet.new
/-- on success the object carries exactly the given parameters -/
theorem SymmetricDirichlet_new_ok_fields (alpha : X) (k : Nat) (d : Gen.SymmetricDirichlet X) :
    Gen.SymmetricDirichlet.new alpha k = .ok d → d = ({ alpha := alpha, k := k } : Gen.SymmetricDirichlet X) := by
  simp only [Gen.SymmetricDirichlet.emit_params, Gen.SymmetricDirichlet.from_params, Gen.SymmetricDirichlet.get_alpha, Gen.SymmetricDirichlet.get_k, Gen.SymmetricDirichlet.new, Gen.SymmetricDirichlet.new_unchecked, Gen.SymmetricDirichlet.set_alpha, Gen.SymmetricDirichlet.set_alpha_unchecked]
  split_ifs <;> simp <;> c10_close

example : Gen.SymmetricDirichlet.new (fin 2) (3) = .ok ({ alpha := fin 2, k := 3 } : Gen.SymmetricDirichlet X) := by c10_eval []

-- @site SymmetricDirichlet.new
/-- checked and unchecked constructors build the same object -/
theorem SymmetricDirichlet_new_eq_unchecked (alpha : X) (k : Nat) (d : Gen.SymmetricDirichlet X) :
    Gen.SymmetricDirichlet.new alpha k = .ok d → d = Gen.SymmetricDirichlet.new_unchecked alpha k := by
  simp only [Gen.SymmetricDirichlet.emit_params, Gen.SymmetricDirichlet.from_params, Gen.SymmetricDirichlet.get_alpha, Gen.SymmetricDirichlet.get_k, Gen.SymmetricDirichlet.new, Gen.SymmetricDirichlet.new_unchecked, Gen.SymmetricDirichlet.set_alpha, Gen.SymmetricDirichlet.set_alpha_unchecked]
  split_ifs <;> simp <;> c10_close

example : Gen.SymmetricDirichlet.new (fin 2) (3) = .ok (Gen.SymmetricDirichlet.new_unchecked (fin 2) (3)) := by c10_eval []

-- @site SymmetricDirichlet.new
/-- an object obtained from the checked constructor satisfies the parameter invariant -/
theorem SymmetricDirichlet_new_inv (alpha : X) (k : Nat) (d : Gen.SymmetricDirichlet X) :
    Gen.SymmetricDirichlet.new alpha k = .ok d → Spec.SymmetricDirichlet.Inv d := by
  intro h
  rw [SymmetricDirichlet_new_ok_fields alpha k d h]
  exact (SymmetricDirichlet_new_ok_iff alpha k).mp ⟨d, h⟩

example : Spec.SymmetricDirichlet.Inv ({ alpha := fin 2, k := 3 } : Gen.SymmetricDirichlet X) := SymmetricDirichlet_new_inv (fin 2) (3) _ (by c10_eval [])

-- @site SymmetricDirichlet.new
/-- on failure the error names an argument that IS outside its documented domain and carries its value -/
theorem SymmetricDirichlet_new_err_offending (alpha : X) (k : Nat) (e : Err X) :
    Gen.SymmetricDirichlet.new alpha k = .error e →
     (¬ Spec.C10.IsPos alpha ∧ (e = Err.mk "AlphaTooLow" [alpha] ∨ e = Err.mk "AlphaNotFinite" [alpha])) ∨
     (¬ 0 < k ∧ (e = Err.mk "KIsZero" [])) := by
  rcases alpha with _|_|_|alpha <;>
    (try simp) <;> c10_close

example : ∃ e, Gen.SymmetricDirichlet.new (fin 0) (3) = .error e := by c10_eval []

/- FULL STATEMENT (false, see the counterexample below — the code checks k (second argument) before alpha):
   theorem SymmetricDirichlet_new_err_first (alpha : X) (k : Nat) (e : Err X) :
     Gen.SymmetricDirichlet.new alpha k = .error e →
     (¬ Spec.C10.IsPos alpha → (e = Err.mk "AlphaTooLow" [alpha] ∨ e = Err.mk "AlphaNotFinite" [alpha])) ∧
     (Spec.C10.IsPos alpha → ¬ 0 < k → (e = Err.mk "KIsZero" []))
-/

-- @site SymmetricDirichlet.new
/-- first-offending-argument order holds only under the extra hypotheses; the code checks k (second argument) before alpha -/
theorem SymmetricDirichlet_new_err_first_partial (alpha : X) (k : Nat) (e : Err X) :
    0 < k → Gen.SymmetricDirichlet.new alpha k = .error e →
     (¬ Spec.C10.IsPos alpha → (e = Err.mk "AlphaTooLow" [alpha] ∨ e = Err.mk "AlphaNotFinite" [alpha])) ∧
     (Spec.C10.IsPos alpha → ¬ 0 < k → (e = Err.mk "KIsZero" [])) := by
  rcases alpha with _|_|_|alpha <;>
    (try simp) <;> c10_close

example : ∃ e, Gen.SymmetricDirichlet.new (fin 0) (3) = .error e := by c10_eval []

-- @site SymmetricDirichlet.new
/-- DEFECT (order clause only): an earlier argument is invalid but the error names a later one; the code checks k (second argument) before alpha -/
theorem SymmetricDirichlet_new_err_order_counterexample :
    ¬ Spec.C10.IsPos (nan : X) ∧
    Gen.SymmetricDirichlet.new (nan) (0) = .error (Err.mk "KIsZero" [] : Err X) := by
  c10_eval []

-- @site SymmetricDirichlet.set_alpha
/-- `set_alpha` succeeds iff the new value is in the documented domain of `alpha` (finite, > 0) -/
theorem SymmetricDirichlet_set_alpha_ok_iff (d : Gen.SymmetricDirichlet X) (v : X) :
    (∃ d', Gen.SymmetricDirichlet.set_alpha d v = .ok d') ↔ Spec.C10.IsPos v := by
  rcases v with _|_|_|v <;>
    simp <;> c10_close

example : ∃ d', Gen.SymmetricDirichlet.set_alpha ({ alpha := fin 2, k := 3 } : Gen.SymmetricDirichlet X) (fin 7) = .ok d' := (SymmetricDirichlet_set_alpha_ok_iff ..).mpr (by c10_spec [])

-- @site SymmetricDirichlet.set_alpha
/-- on failure the error carries the offending value -/
theorem SymmetricDirichlet_set_alpha_err (d : Gen.SymmetricDirichlet X) (v : X) (e : Err X) :
    Gen.SymmetricDirichlet.set_alpha d v = .error e → ¬ Spec.C10.IsPos v ∧ (e = Err.mk "AlphaTooLow" [v] ∨ e = Err.mk "AlphaNotFinite" [v]) := by
  rcases v with _|_|_|v <;>
    simp <;> c10_close

example : ∃ e, Gen.SymmetricDirichlet.set_alpha ({ alpha := fin 2, k := 3 } : Gen.SymmetricDirichlet X) (fin 0) = .error e := by c10_eval []

-- @site SymmetricDirichlet.set_alpha
/-- on success only that field (and its cache) changes; same object as the unchecked setter -/
theorem SymmetricDirichlet_set_alpha_ok_fields (d d' : Gen.SymmetricDirichlet X) (v : X) :
    Gen.SymmetricDirichlet.set_alpha d v = .ok d' → d' = { d with alpha := v } ∧ d' = Gen.SymmetricDirichlet.set_alpha_unchecked d v := by
  simp only [Gen.SymmetricDirichlet.emit_params, Gen.SymmetricDirichlet.from_params, Gen.SymmetricDirichlet.get_alpha, Gen.SymmetricDirichlet.get_k, Gen.SymmetricDirichlet.new, Gen.SymmetricDirichlet.new_unchecked, Gen.SymmetricDirichlet.set_alpha, Gen.SymmetricDirichlet.set_alpha_unchecked]
  split_ifs <;> simp <;> c10_close

example : Gen.SymmetricDirichlet.set_alpha ({ alpha := fin 2, k := 3 } : Gen.SymmetricDirichlet X) (fin 7) = .ok ({ alpha := fin 7, k := 3 } : Gen.SymmetricDirichlet X) := by c10_eval []

-- @site SymmetricDirichlet.set_alpha
/-- failure atomicity (structural): either an error without a new state, or exactly the updated state -/
theorem SymmetricDirichlet_set_alpha_atomic (d : Gen.SymmetricDirichlet X) (v : X) :
    (∃ e, Gen.SymmetricDirichlet.set_alpha d v = .error e) ∨ (∃ d', Gen.SymmetricDirichlet.set_alpha d v = .ok d' ∧ d' = { d with alpha := v }) := by
  simp only [Gen.SymmetricDirichlet.emit_params, Gen.SymmetricDirichlet.from_params, Gen.SymmetricDirichlet.get_alpha, Gen.SymmetricDirichlet.get_k, Gen.SymmetricDirichlet.new, Gen.SymmetricDirichlet.new_unchecked, Gen.SymmetricDirichlet.set_alpha, Gen.SymmetricDirichlet.set_alpha_unchecked]
  split_ifs <;> simp <;> c10_close

example : ∃ e, Gen.SymmetricDirichlet.set_alpha ({ alpha := fin 2, k := 3 } : Gen.SymmetricDirichlet X) (fin 0) = .error e := by c10_eval []

-- @site SymmetricDirichlet.set_alpha
/-- a successful checked setter preserves the parameter invariant -/
theorem SymmetricDirichlet_set_alpha_inv (d d' : Gen.SymmetricDirichlet X) (v : X) :
    Spec.SymmetricDirichlet.Inv d → Gen.SymmetricDirichlet.set_alpha d v = .ok d' → Spec.SymmetricDirichlet.Inv d' := by
  rcases d with ⟨f0, f1⟩
  rcases v with _|_|_|v <;>
    simp <;> c10_close

example : Spec.SymmetricDirichlet.Inv ({ alpha := fin 2, k := 3 } : Gen.SymmetricDirichlet X) := by c10_spec [Spec.SymmetricDirichlet.Inv, Spec.SymmetricDirichlet.Valid]

-- @site SymmetricDirichlet.from_params
/-- parameter round trip -/
theorem SymmetricDirichlet_from_emit (d : Gen.SymmetricDirichlet X) :
    Gen.SymmetricDirichlet.from_params (Gen.SymmetricDirichlet.emit_params d) = d := by
  rfl

example : Gen.SymmetricDirichlet.from_params (Gen.SymmetricDirichlet.emit_params ({ alpha := fin 2, k := 3 } : Gen.SymmetricDirichlet X)) = ({ alpha := fin 2, k := 3 } : Gen.SymmetricDirichlet X) := by c10_eval []

-- @site SymmetricDirichlet.from_params
/-- `from_params (emit_params ·)` is the identity on every object built by the checked constructor -/
theorem SymmetricDirichlet_new_eq_from_params (alpha : X) (k : Nat) (d : Gen.SymmetricDirichlet X) :
    Gen.SymmetricDirichlet.new alpha k = .ok d → Gen.SymmetricDirichlet.from_params (Gen.SymmetricDirichlet.emit_params d) = d := by
  simp only [Gen.SymmetricDirichlet.emit_params, Gen.SymmetricDirichlet.from_params, Gen.SymmetricDirichlet.get_alpha, Gen.SymmetricDirichlet.get_k, Gen.SymmetricDirichlet.new, Gen.SymmetricDirichlet.new_unchecked, Gen.SymmetricDirichlet.set_alpha, Gen.SymmetricDirichlet.set_alpha_unchecked]
  split_ifs <;> simp <;> c10_close

example : Gen.SymmetricDirichlet.new (fin 2) (3) = .ok ({ alpha := fin 2, k := 3 } : Gen.SymmetricDirichlet X) := by c10_eval []

end SymmetricDirichlet

/-! ## Uniform  (`src/dist/uniform.rs`) — cross-parameter constraint `a < b` -/

-- @site Uniform.new
/-- `Uniform::new` succeeds iff `a`, `b` are finite and `a < b` — for ALL values incl. NaN, ±inf -/
theorem Uniform_new_ok_iff (a b : X) :
    (∃ d, Gen.Uniform.new a b = .ok d) ↔ Spec.Uniform.Valid a b := by
  rcases a with _|_|_|a <;> rcases b with _|_|_|b <;>
    simp [Gen.Uniform.new, Gen.Uniform.new_unchecked, Spec.Uniform.Valid, Spec.C10.IsFin, Spec.C10.IsLt] <;> c10_close

example : ∃ d, Gen.Uniform.new (fin (-1)) (fin 2) = .ok d := (Uniform_new_ok_iff ..).mpr (by c10_spec [Spec.Uniform.Valid])
example : ¬ ∃ d, Gen.Uniform.new (fin 2) (fin 2) = .ok d := by rw [Uniform_new_ok_iff]; c10_spec [Spec.Uniform.Valid]
example : ¬ ∃ d, Gen.Uniform.new ninf (fin 2) = .ok d := by rw [Uniform_new_ok_iff]; c10_spec [Spec.Uniform.Valid]

-- @site Uniform.new
theorem Uniform_new_ok_fields (a b : X) (d : Gen.Uniform X) :
    Gen.Uniform.new a b = .ok d → d = ({ a := a, b := b } : Gen.Uniform X) := by
  rcases a with _|_|_|a <;> rcases b with _|_|_|b <;>
    simp [Gen.Uniform.new, Gen.Uniform.new_unchecked] <;> c10_close

example : Gen.Uniform.new (fin (-1)) (fin 2) = .ok ({ a := fin (-1), b := fin 2 } : Gen.Uniform X) := by
  c10_eval [Gen.Uniform.new, Gen.Uniform.new_unchecked]

-- @site Uniform.new
theorem Uniform_new_eq_unchecked (a b : X) (d : Gen.Uniform X) :
    Gen.Uniform.new a b = .ok d → d = Gen.Uniform.new_unchecked a b := by
  rcases a with _|_|_|a <;> rcases b with _|_|_|b <;>
    simp [Gen.Uniform.new, Gen.Uniform.new_unchecked] <;> c10_close

example : Gen.Uniform.new (fin (-1)) (fin 2) = .ok (Gen.Uniform.new_unchecked (fin (-1)) (fin 2)) := by
  c10_eval [Gen.Uniform.new, Gen.Uniform.new_unchecked]

-- @site Uniform.new
theorem Uniform_new_inv (a b : X) (d : Gen.Uniform X) :
    Gen.Uniform.new a b = .ok d → Spec.Uniform.Inv d := by
  rcases a with _|_|_|a <;> rcases b with _|_|_|b <;>
    simp [Gen.Uniform.new, Gen.Uniform.new_unchecked, Spec.Uniform.Inv, Spec.Uniform.Valid, Spec.C10.IsFin,
      Spec.C10.IsLt] <;> c10_close

example : Spec.Uniform.Inv ({ a := fin (-1), b := fin 2 } : Gen.Uniform X) :=
  Uniform_new_inv (fin (-1)) (fin 2) _ (by c10_eval [Gen.Uniform.new, Gen.Uniform.new_unchecked])

-- @site Uniform.new
/-- on failure the error names argument(s) that ARE outside the domain and carries their values:
    `InvalidInterval {a, b}` only if not (`a`, `b` finite with `a < b`); `ANotFinite {a}` only if `a` is not finite; … -/
theorem Uniform_new_err_offending (a b : X) (e : Err X) :
    Gen.Uniform.new a b = .error e →
     (¬ Spec.C10.IsLt a b ∧ e = Err.mk "InvalidInterval" [a, b]) ∨
     (¬ Spec.C10.IsFin a ∧ e = Err.mk "ANotFinite" [a]) ∨
     (¬ Spec.C10.IsFin b ∧ e = Err.mk "BNotFinite" [b]) := by
  rcases a with _|_|_|a <;> rcases b with _|_|_|b <;>
    simp [Gen.Uniform.new, Gen.Uniform.new_unchecked, Spec.C10.IsFin, Spec.C10.IsLt] <;> c10_close

example : ∃ e, Gen.Uniform.new (fin 2) (fin 2) = .error e := by
  c10_eval [Gen.Uniform.new, Gen.Uniform.new_unchecked]

-- @site Uniform.new
/-- the error mentions the FIRST offending argument: a non-finite `a` is reported (as `ANotFinite {a}` or inside
    `InvalidInterval {a, b}`); `a` finite and `b` not: `b` is reported; both finite: the interval is. -/
theorem Uniform_new_err_first (a b : X) (e : Err X) :
    Gen.Uniform.new a b = .error e →
     (¬ Spec.C10.IsFin a → (e = Err.mk "ANotFinite" [a] ∨ e = Err.mk "InvalidInterval" [a, b])) ∧
     (Spec.C10.IsFin a → ¬ Spec.C10.IsFin b → (e = Err.mk "BNotFinite" [b] ∨ e = Err.mk "InvalidInterval" [a, b])) ∧
     (Spec.C10.IsFin a → Spec.C10.IsFin b → e = Err.mk "InvalidInterval" [a, b]) := by
  rcases a with _|_|_|a <;> rcases b with _|_|_|b <;>
    simp [Gen.Uniform.new, Gen.Uniform.new_unchecked, Spec.C10.IsFin, Spec.C10.IsLt] <;> c10_close

example : ∃ e, Gen.Uniform.new nan (fin 2) = .error e := by
  c10_eval [Gen.Uniform.new, Gen.Uniform.new_unchecked]

-- @site Uniform.set_a
/-- on an object satisfying its invariant, `set_a` succeeds iff the new pair `(v, b)` is in the domain -/
theorem Uniform_set_a_ok_iff (d : Gen.Uniform X) (v : X) (hd : Spec.Uniform.Inv d) :
    (∃ d', Gen.Uniform.set_a d v = .ok d') ↔ Spec.Uniform.Valid v d.b := by
  rcases d with ⟨a, b⟩
  rcases a with _|_|_|a <;> rcases b with _|_|_|b <;> rcases v with _|_|_|v <;>
    simp [Gen.Uniform.set_a, Gen.Uniform.set_a_unchecked, Spec.Uniform.Inv, Spec.Uniform.Valid, Spec.C10.IsFin,
      Spec.C10.IsLt] at hd ⊢ <;> c10_close

example : Spec.Uniform.Inv ({ a := fin (-1), b := fin 2 } : Gen.Uniform X) := by
  c10_spec [Spec.Uniform.Inv, Spec.Uniform.Valid]

-- @site Uniform.set_a
theorem Uniform_set_a_err (d : Gen.Uniform X) (v : X) (e : Err X) :
    Gen.Uniform.set_a d v = .error e →
      (¬ Spec.C10.IsFin v ∧ e = Err.mk "ANotFinite" [v]) ∨
      (¬ Spec.C10.IsLt v d.b ∧ e = Err.mk "InvalidInterval" [v, d.b]) := by
  rcases d with ⟨a, b⟩
  rcases b with _|_|_|b <;> rcases v with _|_|_|v <;>
    simp [Gen.Uniform.set_a, Gen.Uniform.set_a_unchecked, Spec.C10.IsFin, Spec.C10.IsLt] <;> c10_close

example : ∃ e, Gen.Uniform.set_a ({ a := fin (-1), b := fin 2 } : Gen.Uniform X) (fin 3) = .error e := by
  c10_eval [Gen.Uniform.set_a, Gen.Uniform.set_a_unchecked]

-- @site Uniform.set_a
theorem Uniform_set_a_ok_fields (d d' : Gen.Uniform X) (v : X) :
    Gen.Uniform.set_a d v = .ok d' → d' = { d with a := v } ∧ d' = Gen.Uniform.set_a_unchecked d v := by
  rcases d with ⟨a, b⟩
  rcases b with _|_|_|b <;> rcases v with _|_|_|v <;>
    simp [Gen.Uniform.set_a, Gen.Uniform.set_a_unchecked] <;> c10_close

example : Gen.Uniform.set_a ({ a := fin (-1), b := fin 2 } : Gen.Uniform X) (fin 1) =
    .ok ({ a := fin 1, b := fin 2 } : Gen.Uniform X) := by
  c10_eval [Gen.Uniform.set_a, Gen.Uniform.set_a_unchecked]

-- @site Uniform.set_a
theorem Uniform_set_a_atomic (d : Gen.Uniform X) (v : X) :
    (∃ e, Gen.Uniform.set_a d v = .error e) ∨ (∃ d', Gen.Uniform.set_a d v = .ok d' ∧ d' = { d with a := v }) := by
  rcases d with ⟨a, b⟩
  rcases b with _|_|_|b <;> rcases v with _|_|_|v <;>
    simp [Gen.Uniform.set_a, Gen.Uniform.set_a_unchecked] <;> c10_close

example : ∃ e, Gen.Uniform.set_a ({ a := fin (-1), b := fin 2 } : Gen.Uniform X) nan = .error e := by
  c10_eval [Gen.Uniform.set_a, Gen.Uniform.set_a_unchecked]

-- @site Uniform.set_a
theorem Uniform_set_a_inv (d d' : Gen.Uniform X) (v : X) :
    Spec.Uniform.Inv d → Gen.Uniform.set_a d v = .ok d' → Spec.Uniform.Inv d' := by
  rcases d with ⟨a, b⟩
  rcases a with _|_|_|a <;> rcases b with _|_|_|b <;> rcases v with _|_|_|v <;>
    simp [Gen.Uniform.set_a, Gen.Uniform.set_a_unchecked, Spec.Uniform.Inv, Spec.Uniform.Valid, Spec.C10.IsFin,
      Spec.C10.IsLt] <;> c10_close

example : Spec.Uniform.Inv ({ a := fin (-1), b := fin 2 } : Gen.Uniform X) := by
  c10_spec [Spec.Uniform.Inv, Spec.Uniform.Valid]

-- @site Uniform.set_b
/-- on an object satisfying its invariant, `set_b` succeeds iff the new pair `(a, v)` is in the domain -/
theorem Uniform_set_b_ok_iff (d : Gen.Uniform X) (v : X) (hd : Spec.Uniform.Inv d) :
    (∃ d', Gen.Uniform.set_b d v = .ok d') ↔ Spec.Uniform.Valid d.a v := by
  rcases d with ⟨a, b⟩
  rcases a with _|_|_|a <;> rcases b with _|_|_|b <;> rcases v with _|_|_|v <;>
    simp [Gen.Uniform.set_b, Gen.Uniform.set_b_unchecked, Spec.Uniform.Inv, Spec.Uniform.Valid, Spec.C10.IsFin,
      Spec.C10.IsLt] at hd ⊢ <;> c10_close

example : Spec.Uniform.Inv ({ a := fin (-1), b := fin 2 } : Gen.Uniform X) := by
  c10_spec [Spec.Uniform.Inv, Spec.Uniform.Valid]

-- @site Uniform.set_b
theorem Uniform_set_b_err (d : Gen.Uniform X) (v : X) (e : Err X) :
    Gen.Uniform.set_b d v = .error e →
      (¬ Spec.C10.IsFin v ∧ e = Err.mk "BNotFinite" [v]) ∨
      (¬ Spec.C10.IsLt d.a v ∧ e = Err.mk "InvalidInterval" [d.a, v]) := by
  rcases d with ⟨a, b⟩
  rcases a with _|_|_|a <;> rcases v with _|_|_|v <;>
    simp [Gen.Uniform.set_b, Gen.Uniform.set_b_unchecked, Spec.C10.IsFin, Spec.C10.IsLt] <;> c10_close

example : ∃ e, Gen.Uniform.set_b ({ a := fin (-1), b := fin 2 } : Gen.Uniform X) (fin (-3)) = .error e := by
  c10_eval [Gen.Uniform.set_b, Gen.Uniform.set_b_unchecked]

-- @site Uniform.set_b
theorem Uniform_set_b_ok_fields (d d' : Gen.Uniform X) (v : X) :
    Gen.Uniform.set_b d v = .ok d' → d' = { d with b := v } ∧ d' = Gen.Uniform.set_b_unchecked d v := by
  rcases d with ⟨a, b⟩
  rcases a with _|_|_|a <;> rcases v with _|_|_|v <;>
    simp [Gen.Uniform.set_b, Gen.Uniform.set_b_unchecked] <;> c10_close

example : Gen.Uniform.set_b ({ a := fin (-1), b := fin 2 } : Gen.Uniform X) (fin 1) =
    .ok ({ a := fin (-1), b := fin 1 } : Gen.Uniform X) := by
  c10_eval [Gen.Uniform.set_b, Gen.Uniform.set_b_unchecked]

-- @site Uniform.set_b
theorem Uniform_set_b_atomic (d : Gen.Uniform X) (v : X) :
    (∃ e, Gen.Uniform.set_b d v = .error e) ∨ (∃ d', Gen.Uniform.set_b d v = .ok d' ∧ d' = { d with b := v }) := by
  rcases d with ⟨a, b⟩
  rcases a with _|_|_|a <;> rcases v with _|_|_|v <;>
    simp [Gen.Uniform.set_b, Gen.Uniform.set_b_unchecked] <;> c10_close

example : ∃ e, Gen.Uniform.set_b ({ a := fin (-1), b := fin 2 } : Gen.Uniform X) pinf = .error e := by
  c10_eval [Gen.Uniform.set_b, Gen.Uniform.set_b_unchecked]

-- @site Uniform.set_b
theorem Uniform_set_b_inv (d d' : Gen.Uniform X) (v : X) :
    Spec.Uniform.Inv d → Gen.Uniform.set_b d v = .ok d' → Spec.Uniform.Inv d' := by
  rcases d with ⟨a, b⟩
  rcases a with _|_|_|a <;> rcases b with _|_|_|b <;> rcases v with _|_|_|v <;>
    simp [Gen.Uniform.set_b, Gen.Uniform.set_b_unchecked, Spec.Uniform.Inv, Spec.Uniform.Valid, Spec.C10.IsFin,
      Spec.C10.IsLt] <;> c10_close

example : Spec.Uniform.Inv ({ a := fin (-1), b := fin 2 } : Gen.Uniform X) := by
  c10_spec [Spec.Uniform.Inv, Spec.Uniform.Valid]

-- @site Uniform.new
/-- accepted `set_a` then `set_b` ending in `(a, b)` yields the object `new a b` builds (from ANY start object) -/
theorem Uniform_build_eq (d d1 d2 : Gen.Uniform X) (a b : X) :
    Gen.Uniform.set_a d a = .ok d1 → Gen.Uniform.set_b d1 b = .ok d2 → Gen.Uniform.new a b = .ok d2 := by
  rcases d with ⟨a0, b0⟩
  rcases b0 with _|_|_|b0 <;> rcases a with _|_|_|a <;> rcases b with _|_|_|b <;>
    simp [Gen.Uniform.new, Gen.Uniform.new_unchecked, Gen.Uniform.set_a, Gen.Uniform.set_a_unchecked,
      Gen.Uniform.set_b, Gen.Uniform.set_b_unchecked] <;> c10_close

example : ∃ d', Gen.Uniform.set_a ({ a := fin (-1), b := fin 2 } : Gen.Uniform X) (fin 1) = .ok d' := by
  c10_eval [Gen.Uniform.set_a, Gen.Uniform.set_a_unchecked]

/- FULL STATEMENT (not expressible: `Uniform::from_params` is NOT in the generated model — manifest:
   "Uniform.from_params: param pattern", the Rust takes a tuple pattern `(a, b): Self::Parameters`):
   theorem Uniform_from_emit (d : Gen.Uniform X) : Gen.Uniform.from_params (Gen.Uniform.emit_params d) = d
-/
-- @site Uniform.emit_params
/-- what `from_params` does in Rust (`Self::new_unchecked(a, b)`) applied to the generated `emit_params` -/
theorem Uniform_from_emit_partial (d : Gen.Uniform X) :
    Gen.Uniform.new_unchecked (Gen.Uniform.emit_params d).1 (Gen.Uniform.emit_params d).2 = d := by
  rfl

example : Gen.Uniform.new_unchecked (Gen.Uniform.emit_params ({ a := fin (-1), b := fin 2 } : Gen.Uniform X)).1
    (Gen.Uniform.emit_params ({ a := fin (-1), b := fin 2 } : Gen.Uniform X)).2 = { a := fin (-1), b := fin 2 } :=
  Uniform_from_emit_partial _

/-! ## Dirichlet  (`src/dist/dirichlet.rs`) — `try_for_each` over the enumerated vector -/

-- @site Dirichlet.new
/-- `Dirichlet::new` succeeds iff the vector is non-empty and every entry is finite and > 0 — for ALL lists over `X` -/
theorem Dirichlet_new_ok_iff (alphas : List X) :
    (∃ d, Gen.Dirichlet.new alphas = .ok d) ↔ Spec.Dirichlet.Valid alphas := by
  unfold Gen.Dirichlet.new Spec.Dirichlet.Valid
  cases alphas with
  | nil => simp
  | cons a t =>
    simp only [List.isEmpty_cons, Bool.false_eq_true, if_false]
    split
    · rename_i e he
      rw [tryForEach_enumL_error_iff' _ Spec.C10.IsPos (by c10_elem)] at he
      obtain ⟨pre, b, post, hxs, hpre, hb⟩ := he
      have hnb : ¬ Spec.C10.IsPos b := by
        rcases b with _|_|_|b <;> simp at hb ⊢ <;> c10_close
      simp only [reduceCtorEq, exists_false, false_iff, not_and]
      intro _ hall
      exact hnb (hall b (by rw [hxs]; simp))
    · rename_i u hu
      cases u
      rw [tryForEach_enumL_ok_iff' _ Spec.C10.IsPos (by c10_elem)] at hu
      exact ⟨fun _ => ⟨by simp, hu⟩, fun _ => ⟨_, rfl⟩⟩

example : ∃ d, Gen.Dirichlet.new [fin 1, fin 2] = .ok d :=
  (Dirichlet_new_ok_iff _).mpr (by simp [Spec.Dirichlet.Valid])
example : ¬ ∃ d, Gen.Dirichlet.new [fin 1, nan] = .ok d := by
  rw [Dirichlet_new_ok_iff]; simp [Spec.Dirichlet.Valid]

-- @site Dirichlet.new
/-- on success the object carries exactly the given vector; same object as `new_unchecked` -/
theorem Dirichlet_new_ok_fields (alphas : List X) (d : Gen.Dirichlet X) :
    Gen.Dirichlet.new alphas = .ok d →
      d = ({ alphas := alphas } : Gen.Dirichlet X) ∧ d = Gen.Dirichlet.new_unchecked alphas := by
  unfold Gen.Dirichlet.new Gen.Dirichlet.new_unchecked
  split
  · simp
  · split <;> simp <;> c10_close

example : Gen.Dirichlet.new [fin 1, fin 2] = .ok ({ alphas := [fin 1, fin 2] } : Gen.Dirichlet X) := by
  norm_num [Gen.Dirichlet.new, enumL, tryForEach, List.range_succ]

-- @site Dirichlet.new
/-- an object obtained from the checked constructor satisfies the parameter invariant -/
theorem Dirichlet_new_inv (alphas : List X) (d : Gen.Dirichlet X) :
    Gen.Dirichlet.new alphas = .ok d → Spec.Dirichlet.Inv d := by
  intro h
  have hv := (Dirichlet_new_ok_iff alphas).mp ⟨d, h⟩
  rw [(Dirichlet_new_ok_fields alphas d h).1]
  exact hv

example : Spec.Dirichlet.Inv ({ alphas := [fin 1, fin 2] } : Gen.Dirichlet X) :=
  Dirichlet_new_inv [fin 1, fin 2] _ (by norm_num [Gen.Dirichlet.new, enumL, tryForEach, List.range_succ])

-- @site Dirichlet.new
/-- on failure: `AlphasEmpty`, or the error names the FIRST entry outside the domain, with its index and value -/
theorem Dirichlet_new_err_first (alphas : List X) (e : Err X) :
    Gen.Dirichlet.new alphas = .error e →
      (alphas = [] ∧ e = Err.mk "AlphasEmpty" []) ∨
      ∃ pre a post, alphas = pre ++ a :: post ∧ (∀ y ∈ pre, Spec.C10.IsPos y) ∧ ¬ Spec.C10.IsPos a ∧
        (e = Err.mk "AlphaTooLow" [fin pre.length, a] ∨ e = Err.mk "AlphaNotFinite" [fin pre.length, a]) := by
  unfold Gen.Dirichlet.new
  cases alphas with
  | nil => simp; intro h; exact h.symm
  | cons a t =>
    simp only [List.isEmpty_cons, Bool.false_eq_true, if_false]
    split
    · rename_i e' he
      rw [tryForEach_enumL_error_iff' _ Spec.C10.IsPos (by c10_elem)] at he
      obtain ⟨pre, b, post, hxs, hpre, hb⟩ := he
      intro hee
      simp only [Except.error.injEq] at hee
      subst hee
      right
      refine ⟨pre, b, post, hxs, hpre, ?_⟩
      rcases b with _|_|_|b <;> simp at hb ⊢ <;> c10_close
    · simp

example : ∃ e, Gen.Dirichlet.new [fin 1, nan, fin (-1)] = .error e := by
  norm_num [Gen.Dirichlet.new, enumL, tryForEach, List.range_succ]

-- @site Dirichlet.from_params
theorem Dirichlet_from_emit (d : Gen.Dirichlet X) :
    Gen.Dirichlet.from_params (Gen.Dirichlet.emit_params d) = d := by
  rfl

example : Gen.Dirichlet.from_params (Gen.Dirichlet.emit_params ({ alphas := [fin 1, fin 2] } : Gen.Dirichlet X)) =
    { alphas := [fin 1, fin 2] } := Dirichlet_from_emit _

/-! ## Categorical  (`src/dist/categorical.rs`) — `new(weights)`; the object stores normalised LOG weights -/

/- FULL STATEMENT (false: the code accepts zero weights although the rustdoc of `new` says "The weights must all be
   positive"; see `Categorical_new_accepts_zero_counterexample`):
   theorem Categorical_new_ok_iff (weights : List X) :
     (∃ d, Gen.Categorical.new weights = .ok d) ↔ Spec.Categorical.Valid weights
-/
-- @site Categorical.new
/-- what holds: `Categorical::new` succeeds iff the vector is non-empty and every weight is finite and ≥ 0
    (the reading of the error enum alone: "less than zero", "infinite or NaN", "no entries") -/
theorem Categorical_new_ok_iff_partial (weights : List X) :
    (∃ d, Gen.Categorical.new weights = .ok d) ↔ Spec.Categorical.ValidNonneg weights := by
  unfold Gen.Categorical.new Spec.Categorical.ValidNonneg
  cases weights with
  | nil => simp
  | cons a t =>
    simp only [List.isEmpty_cons, Bool.false_eq_true, if_false]
    split
    · rename_i e he
      rw [tryForEach_enumL_error_iff' _ Spec.C10.IsNonneg (by c10_elem)] at he
      obtain ⟨pre, b, post, hxs, hpre, hb⟩ := he
      have hnb : ¬ Spec.C10.IsNonneg b := by
        rcases b with _|_|_|b <;> simp at hb ⊢ <;> c10_close
      simp only [reduceCtorEq, exists_false, false_iff, not_and]
      intro _ hall
      exact hnb (hall b (by rw [hxs]; simp))
    · rename_i u hu
      cases u
      rw [tryForEach_enumL_ok_iff' _ Spec.C10.IsNonneg (by c10_elem)] at hu
      exact ⟨fun _ => ⟨by simp, hu⟩, fun _ => ⟨_, rfl⟩⟩

example : ∃ d, Gen.Categorical.new [fin 1, fin 3] = .ok d :=
  (Categorical_new_ok_iff_partial _).mpr (by simp [Spec.Categorical.ValidNonneg])
example : ¬ ∃ d, Gen.Categorical.new [fin 1, pinf] = .ok d := by
  rw [Categorical_new_ok_iff_partial]; simp [Spec.Categorical.ValidNonneg]

-- @site Categorical.new
/-- the documented-valid inputs (all weights finite and > 0, non-empty) are accepted -/
theorem Categorical_new_ok_of_valid (weights : List X) (h : Spec.Categorical.Valid weights) :
    ∃ d, Gen.Categorical.new weights = .ok d := by
  rw [Categorical_new_ok_iff_partial]
  refine ⟨h.1, fun w hw => ?_⟩
  have := h.2 w hw
  rcases w with _|_|_|w <;> simp at this ⊢
  exact this.le

example : Spec.Categorical.Valid [(fin 1 : X), fin 3] := by simp [Spec.Categorical.Valid]

-- @site Categorical.new
/-- DEFECT: a zero weight is outside the documented domain ("The weights must all be positive") but is accepted;
    with ALL weights zero the object returned by the checked constructor has NaN log-weights
    (`ln 0 - ln 0 = -inf - -inf`).  Confirmed on the real code: `Categorical::new(&[0.0])` is `Ok`, `ln_weights = [NaN]`. -/
theorem Categorical_new_accepts_zero_counterexample :
    ¬ Spec.Categorical.Valid [(fin 0 : X)] ∧
    Gen.Categorical.new [(fin 0 : X)] = .ok ({ ln_weights := [nan] } : Gen.Categorical X) := by
  constructor
  · simp [Spec.Categorical.Valid]
  · norm_num [Gen.Categorical.new, Gen.Categorical.new_unchecked, enumL, tryForEach, sumL, List.range_succ]

-- @site Categorical.new
/-- on success the stored log-weights are `ln w - ln (Σ w)` -/
theorem Categorical_new_ok_fields (weights : List X) (d : Gen.Categorical X) :
    Gen.Categorical.new weights = .ok d →
      d.ln_weights = weights.map (fun w => RealLike.ln w - RealLike.ln (sumL weights)) := by
  unfold Gen.Categorical.new Gen.Categorical.new_unchecked
  split
  · simp
  · split <;> simp <;> c10_close

example : ∃ d, Gen.Categorical.new [fin 1, fin 3] = .ok d :=
  Categorical_new_ok_of_valid _ (by simp [Spec.Categorical.Valid])

-- @site Categorical.new
/-- on failure: `EmptyWeights`, or the error names the FIRST weight that is negative / not finite, with index and value -/
theorem Categorical_new_err_first (weights : List X) (e : Err X) :
    Gen.Categorical.new weights = .error e →
      (weights = [] ∧ e = Err.mk "EmptyWeights" []) ∨
      ∃ pre a post, weights = pre ++ a :: post ∧ (∀ y ∈ pre, Spec.C10.IsNonneg y) ∧ ¬ Spec.C10.IsNonneg a ∧
        (e = Err.mk "NegativeWeight" [fin pre.length, a] ∨ e = Err.mk "NonFiniteWeight" [fin pre.length, a]) := by
  unfold Gen.Categorical.new
  cases weights with
  | nil => simp; intro h; exact h.symm
  | cons a t =>
    simp only [List.isEmpty_cons, Bool.false_eq_true, if_false]
    split
    · rename_i e' he
      rw [tryForEach_enumL_error_iff' _ Spec.C10.IsNonneg (by c10_elem)] at he
      obtain ⟨pre, b, post, hxs, hpre, hb⟩ := he
      intro hee
      simp only [Except.error.injEq] at hee
      subst hee
      right
      refine ⟨pre, b, post, hxs, hpre, ?_⟩
      rcases b with _|_|_|b <;> simp at hb ⊢ <;> c10_close
    · simp

example : ∃ e, Gen.Categorical.new [fin 1, fin (-2), nan] = .error e := by
  norm_num [Gen.Categorical.new, enumL, tryForEach, List.range_succ]

-- @site Categorical.from_params
theorem Categorical_from_emit (d : Gen.Categorical X) :
    Gen.Categorical.from_params (Gen.Categorical.emit_params d) = d := by
  rfl

example : Gen.Categorical.from_params (Gen.Categorical.emit_params ({ ln_weights := [fin 0] } : Gen.Categorical X)) =
    { ln_weights := [fin 0] } := Categorical_from_emit _

/-! ## Error variants that the constructors can never return (documented for NaN, but shadowed by an earlier test) -/

-- @site VonMises.new
/-- `VonMisesError::MuNotFinite` ("The mu parameter is infinite or NaN") is unreachable from `new`: the range test
    `!(0.0..=2π).contains(&mu)` comes first and is true for NaN / ±inf, so a NaN `mu` is reported as `MuOutOfBounds`
    ("less than zero or greater than `2*PI`").  (`set_mu` tests finiteness first and does return `MuNotFinite`.) -/
theorem VonMises_new_MuNotFinite_unreachable (mu k : X) (e : Err X) :
    Gen.VonMises.new mu k = .error e → e.variant ≠ "MuNotFinite" := by
  rcases mu with _|_|_|mu <;> rcases k with _|_|_|k <;> simp [Gen.VonMises.new] <;> c10_close

example : Gen.VonMises.new nan (fin 1) = .error (Err.mk "MuOutOfBounds" [nan] : Err X) := by
  simp [Gen.VonMises.new]

-- @site NegBinomial.new
/-- `NegBinomialError::PNotFinite` is unreachable from `new` and `set_p`: a NaN / infinite `p` fails the range test
    first and is reported as `POutOfRange` -/
theorem NegBinomial_new_PNotFinite_unreachable (r p : X) (e : Err X) :
    Gen.NegBinomial.new r p = .error e → e.variant ≠ "PNotFinite" := by
  rcases r with _|_|_|r <;> rcases p with _|_|_|p <;> simp [Gen.NegBinomial.new] <;> c10_close

example : Gen.NegBinomial.new (fin 2) nan = .error (Err.mk "POutOfRange" [nan] : Err X) := by
  norm_num [Gen.NegBinomial.new]

end C10

#print axioms C10.NormalGamma_new_ok_iff
#print axioms C10.NormalGamma_new_ok_fields
#print axioms C10.NormalGamma_new_eq_unchecked
#print axioms C10.NormalGamma_new_inv
#print axioms C10.NormalGamma_new_err_offending
#print axioms C10.NormalGamma_new_err_first_partial
#print axioms C10.NormalGamma_new_err_order_counterexample
#print axioms C10.NormalGamma_set_m_ok_iff
#print axioms C10.NormalGamma_set_m_err
#print axioms C10.NormalGamma_set_m_ok_fields
#print axioms C10.NormalGamma_set_m_atomic
#print axioms C10.NormalGamma_set_m_inv
#print axioms C10.NormalGamma_set_r_ok_iff
#print axioms C10.NormalGamma_set_r_err
#print axioms C10.NormalGamma_set_r_ok_fields
#print axioms C10.NormalGamma_set_r_atomic
#print axioms C10.NormalGamma_set_r_inv
#print axioms C10.NormalGamma_set_s_ok_iff
#print axioms C10.NormalGamma_set_s_err
#print axioms C10.NormalGamma_set_s_ok_fields
#print axioms C10.NormalGamma_set_s_atomic
#print axioms C10.NormalGamma_set_s_inv
#print axioms C10.NormalGamma_set_v_ok_iff
#print axioms C10.NormalGamma_set_v_err
#print axioms C10.NormalGamma_set_v_ok_fields
#print axioms C10.NormalGamma_set_v_atomic
#print axioms C10.NormalGamma_set_v_inv
#print axioms C10.NormalGamma_build_eq
#print axioms C10.NormalGamma_from_emit
#print axioms C10.NormalGamma_new_eq_from_params
#print axioms C10.NormalInvGamma_new_ok_iff
#print axioms C10.NormalInvGamma_new_ok_fields
#print axioms C10.NormalInvGamma_new_eq_unchecked
#print axioms C10.NormalInvGamma_new_inv
#print axioms C10.NormalInvGamma_new_err_offending
#print axioms C10.NormalInvGamma_new_err_first_partial
#print axioms C10.NormalInvGamma_new_err_order_counterexample
#print axioms C10.NormalInvGamma_set_m_ok_iff
#print axioms C10.NormalInvGamma_set_m_err
#print axioms C10.NormalInvGamma_set_m_ok_fields
#print axioms C10.NormalInvGamma_set_m_atomic
#print axioms C10.NormalInvGamma_set_m_inv
#print axioms C10.NormalInvGamma_set_v_ok_iff
#print axioms C10.NormalInvGamma_set_v_err
#print axioms C10.NormalInvGamma_set_v_ok_fields
#print axioms C10.NormalInvGamma_set_v_atomic
#print axioms C10.NormalInvGamma_set_v_inv
#print axioms C10.NormalInvGamma_set_a_ok_iff
#print axioms C10.NormalInvGamma_set_a_err
#print axioms C10.NormalInvGamma_set_a_ok_fields
#print axioms C10.NormalInvGamma_set_a_atomic
#print axioms C10.NormalInvGamma_set_a_inv
#print axioms C10.NormalInvGamma_set_b_ok_iff
#print axioms C10.NormalInvGamma_set_b_err
#print axioms C10.NormalInvGamma_set_b_ok_fields
#print axioms C10.NormalInvGamma_set_b_atomic
#print axioms C10.NormalInvGamma_set_b_inv
#print axioms C10.NormalInvGamma_build_eq
#print axioms C10.NormalInvGamma_from_emit
#print axioms C10.NormalInvGamma_new_eq_from_params
#print axioms C10.NormalInvChiSquared_new_ok_iff
#print axioms C10.NormalInvChiSquared_new_ok_fields
#print axioms C10.NormalInvChiSquared_new_eq_unchecked
#print axioms C10.NormalInvChiSquared_new_inv
#print axioms C10.NormalInvChiSquared_new_err_offending
#print axioms C10.NormalInvChiSquared_new_err_first_partial
#print axioms C10.NormalInvChiSquared_new_err_order_counterexample
#print axioms C10.NormalInvChiSquared_new_err_order_counterexample2
#print axioms C10.NormalInvChiSquared_set_m_ok_iff
#print axioms C10.NormalInvChiSquared_set_m_err
#print axioms C10.NormalInvChiSquared_set_m_ok_fields
#print axioms C10.NormalInvChiSquared_set_m_atomic
#print axioms C10.NormalInvChiSquared_set_m_inv
#print axioms C10.NormalInvChiSquared_set_k_ok_iff
#print axioms C10.NormalInvChiSquared_set_k_err
#print axioms C10.NormalInvChiSquared_set_k_ok_fields
#print axioms C10.NormalInvChiSquared_set_k_atomic
#print axioms C10.NormalInvChiSquared_set_k_inv
#print axioms C10.NormalInvChiSquared_set_v_ok_iff
#print axioms C10.NormalInvChiSquared_set_v_err
#print axioms C10.NormalInvChiSquared_set_v_ok_fields
#print axioms C10.NormalInvChiSquared_set_v_atomic
#print axioms C10.NormalInvChiSquared_set_v_inv
#print axioms C10.NormalInvChiSquared_set_s2_ok_iff
#print axioms C10.NormalInvChiSquared_set_s2_err
#print axioms C10.NormalInvChiSquared_set_s2_ok_fields
#print axioms C10.NormalInvChiSquared_set_s2_atomic
#print axioms C10.NormalInvChiSquared_set_s2_inv
#print axioms C10.NormalInvChiSquared_build_eq
#print axioms C10.NormalInvChiSquared_from_emit
#print axioms C10.NormalInvChiSquared_new_eq_from_params
#print axioms C10.Pareto_new_ok_iff
#print axioms C10.Pareto_new_ok_fields
#print axioms C10.Pareto_new_eq_unchecked
#print axioms C10.Pareto_new_inv
#print axioms C10.Pareto_new_err_offending
#print axioms C10.Pareto_new_err_first
#print axioms C10.Pareto_set_shape_ok_iff
#print axioms C10.Pareto_set_shape_err
#print axioms C10.Pareto_set_shape_ok_fields
#print axioms C10.Pareto_set_shape_atomic
#print axioms C10.Pareto_set_shape_inv
#print axioms C10.Pareto_set_scale_ok_iff
#print axioms C10.Pareto_set_scale_err
#print axioms C10.Pareto_set_scale_ok_fields
#print axioms C10.Pareto_set_scale_atomic
#print axioms C10.Pareto_set_scale_inv
#print axioms C10.Pareto_build_eq
#print axioms C10.Pareto_from_emit
#print axioms C10.Pareto_new_eq_from_params
#print axioms C10.Poisson_new_ok_iff
#print axioms C10.Poisson_new_ok_fields
#print axioms C10.Poisson_new_eq_unchecked
#print axioms C10.Poisson_new_inv
#print axioms C10.Poisson_new_err_offending
#print axioms C10.Poisson_new_err_first
#print axioms C10.Poisson_set_rate_ok_iff
#print axioms C10.Poisson_set_rate_err
#print axioms C10.Poisson_set_rate_ok_fields
#print axioms C10.Poisson_set_rate_atomic
#print axioms C10.Poisson_set_rate_inv
#print axioms C10.Poisson_build_eq
#print axioms C10.Poisson_from_emit
#print axioms C10.Poisson_new_eq_from_params
#print axioms C10.ScaledInvChiSquared_new_ok_iff
#print axioms C10.ScaledInvChiSquared_new_ok_fields
#print axioms C10.ScaledInvChiSquared_new_eq_unchecked
#print axioms C10.ScaledInvChiSquared_new_inv
#print axioms C10.ScaledInvChiSquared_new_err_offending
#print axioms C10.ScaledInvChiSquared_new_err_first_partial
#print axioms C10.ScaledInvChiSquared_new_err_order_counterexample
#print axioms C10.ScaledInvChiSquared_set_v_ok_iff
#print axioms C10.ScaledInvChiSquared_set_v_err
#print axioms C10.ScaledInvChiSquared_set_v_ok_fields
#print axioms C10.ScaledInvChiSquared_set_v_atomic
#print axioms C10.ScaledInvChiSquared_set_v_inv
#print axioms C10.ScaledInvChiSquared_set_t2_ok_iff
#print axioms C10.ScaledInvChiSquared_set_t2_err
#print axioms C10.ScaledInvChiSquared_set_t2_ok_fields
#print axioms C10.ScaledInvChiSquared_set_t2_atomic
#print axioms C10.ScaledInvChiSquared_set_t2_inv
#print axioms C10.ScaledInvChiSquared_build_eq
#print axioms C10.ScaledInvChiSquared_from_emit
#print axioms C10.ScaledInvChiSquared_new_eq_from_params
#print axioms C10.Skellam_new_ok_iff
#print axioms C10.Skellam_new_ok_fields
#print axioms C10.Skellam_new_eq_unchecked
#print axioms C10.Skellam_new_inv
#print axioms C10.Skellam_new_err_offending
#print axioms C10.Skellam_new_err_first_partial
#print axioms C10.Skellam_new_err_order_counterexample
#print axioms C10.Skellam_set_mu_1_ok_iff
#print axioms C10.Skellam_set_mu_1_err
#print axioms C10.Skellam_set_mu_1_ok_fields
#print axioms C10.Skellam_set_mu_1_atomic
#print axioms C10.Skellam_set_mu_1_inv
#print axioms C10.Skellam_set_mu_2_ok_iff
#print axioms C10.Skellam_set_mu_2_err
#print axioms C10.Skellam_set_mu_2_ok_fields
#print axioms C10.Skellam_set_mu_2_atomic
#print axioms C10.Skellam_set_mu_2_inv
#print axioms C10.Skellam_build_eq
#print axioms C10.Skellam_from_emit
#print axioms C10.Skellam_new_eq_from_params
#print axioms C10.StudentsT_new_ok_iff
#print axioms C10.StudentsT_new_ok_fields
#print axioms C10.StudentsT_new_eq_unchecked
#print axioms C10.StudentsT_new_inv
#print axioms C10.StudentsT_new_err_offending
#print axioms C10.StudentsT_new_err_first
#print axioms C10.StudentsT_set_v_ok_iff
#print axioms C10.StudentsT_set_v_err
#print axioms C10.StudentsT_set_v_ok_fields
#print axioms C10.StudentsT_set_v_atomic
#print axioms C10.StudentsT_set_v_inv
#print axioms C10.StudentsT_build_eq
#print axioms C10.StudentsT_from_emit
#print axioms C10.StudentsT_new_eq_from_params
#print axioms C10.UnitPowerLaw_new_ok_iff
#print axioms C10.UnitPowerLaw_new_ok_fields
#print axioms C10.UnitPowerLaw_new_eq_unchecked
#print axioms C10.UnitPowerLaw_new_inv
#print axioms C10.UnitPowerLaw_new_err_offending
#print axioms C10.UnitPowerLaw_new_err_first
#print axioms C10.UnitPowerLaw_set_alpha_ok_iff
#print axioms C10.UnitPowerLaw_set_alpha_err
#print axioms C10.UnitPowerLaw_set_alpha_ok_fields
#print axioms C10.UnitPowerLaw_set_alpha_atomic
#print axioms C10.UnitPowerLaw_set_alpha_inv
#print axioms C10.UnitPowerLaw_build_eq
#print axioms C10.UnitPowerLaw_from_emit
#print axioms C10.UnitPowerLaw_new_eq_from_params
#print axioms C10.VonMises_new_ok_iff
#print axioms C10.VonMises_new_ok_fields
#print axioms C10.VonMises_new_eq_unchecked
#print axioms C10.VonMises_new_inv
#print axioms C10.VonMises_new_err_offending
#print axioms C10.VonMises_new_err_first
#print axioms C10.VonMises_set_mu_ok_iff
#print axioms C10.VonMises_set_mu_err
#print axioms C10.VonMises_set_mu_ok_fields
#print axioms C10.VonMises_set_mu_atomic
#print axioms C10.VonMises_set_mu_inv
#print axioms C10.VonMises_set_k_ok_iff
#print axioms C10.VonMises_set_k_err
#print axioms C10.VonMises_set_k_ok_fields
#print axioms C10.VonMises_set_k_atomic
#print axioms C10.VonMises_set_k_inv
#print axioms C10.VonMises_build_eq
#print axioms C10.VonMises_from_emit
#print axioms C10.VonMises_new_eq_from_params
#print axioms C10.SymmetricDirichlet_new_ok_iff
#print axioms C10.SymmetricDirichlet_new_ok_fields
#print axioms C10.SymmetricDirichlet_new_eq_unchecked
#print axioms C10.SymmetricDirichlet_new_inv
#print axioms C10.SymmetricDirichlet_new_err_offending
#print axioms C10.SymmetricDirichlet_new_err_first_partial
#print axioms C10.SymmetricDirichlet_new_err_order_counterexample
#print axioms C10.SymmetricDirichlet_set_alpha_ok_iff
#print axioms C10.SymmetricDirichlet_set_alpha_err
#print axioms C10.SymmetricDirichlet_set_alpha_ok_fields
#print axioms C10.SymmetricDirichlet_set_alpha_atomic
#print axioms C10.SymmetricDirichlet_set_alpha_inv
#print axioms C10.SymmetricDirichlet_from_emit
#print axioms C10.SymmetricDirichlet_new_eq_from_params
#print axioms C10.Uniform_new_ok_iff
#print axioms C10.Uniform_new_ok_fields
#print axioms C10.Uniform_new_eq_unchecked
#print axioms C10.Uniform_new_inv
#print axioms C10.Uniform_new_err_offending
#print axioms C10.Uniform_new_err_first
#print axioms C10.Uniform_set_a_ok_iff
#print axioms C10.Uniform_set_a_err
#print axioms C10.Uniform_set_a_ok_fields
#print axioms C10.Uniform_set_a_atomic
#print axioms C10.Uniform_set_a_inv
#print axioms C10.Uniform_set_b_ok_iff
#print axioms C10.Uniform_set_b_err
#print axioms C10.Uniform_set_b_ok_fields
#print axioms C10.Uniform_set_b_atomic
#print axioms C10.Uniform_set_b_inv
#print axioms C10.Uniform_build_eq
#print axioms C10.Uniform_from_emit_partial
#print axioms C10.Dirichlet_new_ok_iff
#print axioms C10.Dirichlet_new_ok_fields
#print axioms C10.Dirichlet_new_inv
#print axioms C10.Dirichlet_new_err_first
#print axioms C10.Dirichlet_from_emit
#print axioms C10.Categorical_new_ok_iff_partial
#print axioms C10.Categorical_new_ok_of_valid
#print axioms C10.Categorical_new_accepts_zero_counterexample
#print axioms C10.Categorical_new_ok_fields
#print axioms C10.Categorical_new_err_first
#print axioms C10.Categorical_from_emit
#print axioms C10.VonMises_new_MuNotFinite_unreachable
#print axioms C10.NegBinomial_new_PNotFinite_unreachable
