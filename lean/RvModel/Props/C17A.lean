import RvModel.RealInst
import RvModel.Hand.Gp
import RvModel.Lemmas.C17
import Mathlib.LinearAlgebra.Matrix.NonsingularInverse
import Mathlib.LinearAlgebra.Matrix.Block
import Mathlib.LinearAlgebra.Matrix.Trace
import Mathlib.Analysis.SpecialFunctions.Log.Basic
import Mathlib.Analysis.Calculus.Deriv.Add
import Mathlib.Analysis.Calculus.Deriv.Mul
/-!
  C17 (part A) — Gaussian-process evidence, gradient and prediction are the textbook GP algebra.

  The kernel is abstract: `K` is the training covariance *with* the noise diagonal (`K = K₀ + D`), `L` is what
  `Cholesky::new(K)` returned (lower triangular, positive diagonal, `L Lᵀ = K` — the contract of nalgebra's
  factorisation, hypotheses here), and a *solve through `L`* is any pair of vectors/matrices satisfying the two
  triangular systems `L z = b`, `Lᵀ x = z` that `Cholesky::solve` solves by substitution.  The expressions
  `codeLnM`, `codeGrad`, `codeCov`, `codeVar` are transcriptions of the Rust lines cited; their executable list versions
  are `Hand.Gp.lnMOf`, `gradLoop`, `Pred.cov`, `Pred.variance`, tied to the implementation by the correspondence run.
-/
open Real Matrix

namespace C17

variable {n q : ℕ}

-- ---------------------------------------------------------------------------------------------------------------
-- 1. evidence

/-- mod.rs:173-182 / 212-219: `n.mul_add(−HALF_LN_2PI, (−0.5).mul_add(y·α, −Σ ln Lᵢᵢ))` -/
noncomputable def codeLnM (L : Matrix (Fin n) (Fin n) ℝ) (y α : Fin n → ℝ) : ℝ :=
  (n : ℝ) * (-(Real.log (2 * π) / 2)) + ((-0.5) * (y ⬝ᵥ α) + -(∑ i, Real.log (L i i)))

/-- the log marginal likelihood of `y ~ N(0, K)`: `−½ yᵀK⁻¹y − ½ ln|K| − n/2 ln 2π` -/
noncomputable def specLnM (K : Matrix (Fin n) (Fin n) ℝ) (y : Fin n → ℝ) : ℝ :=
  -(1 / 2) * (y ⬝ᵥ (K⁻¹ *ᵥ y)) - (1 / 2) * Real.log K.det - (n : ℝ) / 2 * Real.log (2 * π)

-- @site GaussianProcess::train
/-- `alpha = k_chol.solve(&y_train)` is `K⁻¹ y` -/
theorem alpha_eq (L K : Matrix (Fin n) (Fin n) ℝ) (y z α : Fin n → ℝ)
    (hL : ∀ i j, i < j → L i j = 0) (hpos : ∀ i, 0 < L i i) (hK : L * Lᵀ = K)
    (hz : L *ᵥ z = y) (hα : Lᵀ *ᵥ α = z) : α = K⁻¹ *ᵥ y :=
  solve_vec hK (isUnit_det_chol L K hL hK hpos) hz hα

example : ∃ (L K : Matrix (Fin 2) (Fin 2) ℝ) (y z α : Fin 2 → ℝ),
    (∀ i j, i < j → L i j = 0) ∧ (∀ i, 0 < L i i) ∧ L * Lᵀ = K ∧ L *ᵥ z = y ∧ Lᵀ *ᵥ α = z :=
  ⟨!![1, 0; 1, 1], !![1, 1; 1, 2], ![1, 3], ![1, 2], ![-1, 2],
    by intro i j h; fin_cases i <;> fin_cases j <;> simp_all,
    by intro i; fin_cases i <;> simp, by
    ext i j; fin_cases i <;> fin_cases j <;> simp [Matrix.mul_apply, Fin.sum_univ_two] <;> norm_num, by
    ext i; fin_cases i <;> simp [Matrix.mulVec, dotProduct, Fin.sum_univ_two] <;> norm_num, by
    ext i; fin_cases i <;> simp [Matrix.mulVec, dotProduct, Fin.sum_univ_two] <;> norm_num⟩

-- @site GaussianProcess::ln_m
/-- the value `ln_m` (and the first component of `ln_m_with_params`) returns is the Gaussian log marginal likelihood
    `−½ yᵀK⁻¹y − ½ ln det K − n/2 ln 2π` of the training targets under `K` = kernel + noise -/
theorem ln_m_eq (L K : Matrix (Fin n) (Fin n) ℝ) (y z α : Fin n → ℝ)
    (hL : ∀ i j, i < j → L i j = 0) (hpos : ∀ i, 0 < L i i) (hK : L * Lᵀ = K)
    (hz : L *ᵥ z = y) (hα : Lᵀ *ᵥ α = z) : codeLnM L y α = specLnM K y := by
  have ha := alpha_eq L K y z α hL hpos hK hz hα
  unfold codeLnM specLnM
  rw [log_det_chol L K hL hK hpos, ← ha]
  ring

-- ---------------------------------------------------------------------------------------------------------------
-- 2. gradient

/-- mod.rs:222-232: `aat_kinv = α αᵀ − K⁻¹`; per parameter `0.5 · Σ_j (aat_kinv.row(j) * G.column(j))[0]` -/
noncomputable def codeGrad (Kinv : Matrix (Fin n) (Fin n) ℝ) (α : Fin n → ℝ) (G : Matrix (Fin n) (Fin n) ℝ) : ℝ :=
  0.5 * ∑ j, (fun k => (vecMulVec α α - Kinv) j k) ⬝ᵥ (fun k => G k j)

-- @site GaussianProcess::ln_m_with_params
/-- the double loop of `ln_m_with_params` is the trace form `½ tr((ααᵀ − K⁻¹) ∂K/∂θᵢ)` (GPML eq. 5.9) -/
theorem grad_eq_trace (Kinv : Matrix (Fin n) (Fin n) ℝ) (α : Fin n → ℝ) (G : Matrix (Fin n) (Fin n) ℝ) :
    codeGrad Kinv α G = (1 / 2) * Matrix.trace ((vecMulVec α α - Kinv) * G) := by
  unfold codeGrad
  simp only [Matrix.trace, Matrix.diag, Matrix.mul_apply, dotProduct]
  norm_num

example : codeGrad (1 : Matrix (Fin 2) (Fin 2) ℝ) ![1, 2] !![1, 2; 2, 1] = 11 / 2 := by
  rw [grad_eq_trace]
  simp [Matrix.trace, Matrix.mul_apply, Fin.sum_univ_two, Matrix.one_apply]
  norm_num

/-
  FULL STATEMENT (not proved): for a differentiable family `K(t)` of symmetric positive definite matrices with
  `K'(t) = G`,   HasDerivAt (fun t => specLnM (K t) y) (codeGrad (K t₀)⁻¹ ((K t₀)⁻¹ *ᵥ y) G) t₀.
  Missing: Jacobi's formula `d/dt ln det K(t) = tr(K⁻¹ K')` and `d/dt K(t)⁻¹ = −K⁻¹ K' K⁻¹` as `HasDerivAt`
  statements for matrix-valued functions (not available in Mathlib in a directly usable form).  Below they are
  HYPOTHESES (`hdet`, `hquad`); the theorem shows that, given these two facts of matrix calculus, the number the
  code returns is the derivative of the evidence w.r.t. the (log-)parameter.
-/
-- @site GaussianProcess::ln_m_with_params
theorem grad_is_derivative_partial (Kt : ℝ → Matrix (Fin n) (Fin n) ℝ) (G : Matrix (Fin n) (Fin n) ℝ)
    (y : Fin n → ℝ) (t₀ : ℝ)
    (hdet : HasDerivAt (fun t => Real.log (Kt t).det) (Matrix.trace ((Kt t₀)⁻¹ * G)) t₀)
    (hquad : HasDerivAt (fun t => y ⬝ᵥ ((Kt t)⁻¹ *ᵥ y))
      (-(((Kt t₀)⁻¹ *ᵥ y) ⬝ᵥ (G *ᵥ ((Kt t₀)⁻¹ *ᵥ y)))) t₀) :
    HasDerivAt (fun t => specLnM (Kt t) y) (codeGrad (Kt t₀)⁻¹ ((Kt t₀)⁻¹ *ᵥ y) G) t₀ := by
  have h := ((hquad.const_mul (-(1 / 2 : ℝ))).sub (hdet.const_mul (1 / 2 : ℝ))).sub_const
    ((n : ℝ) / 2 * Real.log (2 * π))
  have hval : codeGrad (Kt t₀)⁻¹ ((Kt t₀)⁻¹ *ᵥ y) G
      = -(1 / 2) * -(((Kt t₀)⁻¹ *ᵥ y) ⬝ᵥ (G *ᵥ ((Kt t₀)⁻¹ *ᵥ y))) - 1 / 2 * Matrix.trace ((Kt t₀)⁻¹ * G) := by
    rw [grad_eq_trace, Matrix.sub_mul, Matrix.trace_sub, ← quad_eq_trace]
    ring
  rw [hval]
  exact h

example : ∃ (Kt : ℝ → Matrix (Fin 0) (Fin 0) ℝ) (G : Matrix (Fin 0) (Fin 0) ℝ),
    HasDerivAt (fun t => Real.log (Kt t).det) (Matrix.trace ((Kt 0)⁻¹ * G)) 0 :=
  ⟨fun _ => 1, 0, by simpa using hasDerivAt_const (0 : ℝ) (0 : ℝ)⟩

-- ---------------------------------------------------------------------------------------------------------------
-- 3. prediction

/-- mod.rs:162: `y_mean = &k_trans * &self.alpha` -/
def codeMean (Ks : Matrix (Fin q) (Fin n) ℝ) (α : Fin n → ℝ) : Fin q → ℝ := Ks *ᵥ α

/-- mod.rs:310-312: `v = k_chol.solve(k_transᵀ)`; `cov = K(xs,xs) − k_trans · v` -/
def codeCov (Kss : Matrix (Fin q) (Fin q) ℝ) (Ks : Matrix (Fin q) (Fin n) ℝ) (V : Matrix (Fin n) (Fin q) ℝ) :
    Matrix (Fin q) (Fin q) ℝ := Kss - Ks * V

/-- mod.rs:385-397: `k_ti = k_trans · k_inv`; `var[i] = diag(xs)[i] − Σ_j k_ti[(i,j)] · k_trans[(i,j)]` -/
def codeVar (d : Fin q → ℝ) (Ks : Matrix (Fin q) (Fin n) ℝ) (Kinv : Matrix (Fin n) (Fin n) ℝ) : Fin q → ℝ :=
  fun i => d i - ∑ j, (Ks * Kinv) i j * Ks i j

-- @site GaussianProcess::sample_function
/-- predictive mean `K* K⁻¹ y` -/
theorem mean_eq (L K : Matrix (Fin n) (Fin n) ℝ) (Ks : Matrix (Fin q) (Fin n) ℝ) (y z α : Fin n → ℝ)
    (hL : ∀ i j, i < j → L i j = 0) (hpos : ∀ i, 0 < L i i) (hK : L * Lᵀ = K)
    (hz : L *ᵥ z = y) (hα : Lᵀ *ᵥ α = z) : codeMean Ks α = Ks *ᵥ (K⁻¹ *ᵥ y) := by
  rw [codeMean, alpha_eq L K y z α hL hpos hK hz hα]

-- @site GaussianProcessPrediction::cov
/-- predictive covariance `K** − K* K⁻¹ K*ᵀ`, computed by the code through two triangular solves with `L` -/
theorem cov_eq (L K : Matrix (Fin n) (Fin n) ℝ) (Kss : Matrix (Fin q) (Fin q) ℝ) (Ks : Matrix (Fin q) (Fin n) ℝ)
    (Z V : Matrix (Fin n) (Fin q) ℝ)
    (hL : ∀ i j, i < j → L i j = 0) (hpos : ∀ i, 0 < L i i) (hK : L * Lᵀ = K)
    (hz : L * Z = Ksᵀ) (hv : Lᵀ * V = Z) : codeCov Kss Ks V = Kss - Ks * K⁻¹ * Ksᵀ := by
  rw [codeCov, solve_mat hK (isUnit_det_chol L K hL hK hpos) hz hv, Matrix.mul_assoc]

example : ∃ (L K : Matrix (Fin 1) (Fin 1) ℝ) (Ks : Matrix (Fin 1) (Fin 1) ℝ) (Z V : Matrix (Fin 1) (Fin 1) ℝ),
    (∀ i j, i < j → L i j = 0) ∧ (∀ i, 0 < L i i) ∧ L * Lᵀ = K ∧ L * Z = Ksᵀ ∧ Lᵀ * V = Z :=
  ⟨!![2], !![4], !![1], !![1 / 2], !![1 / 4],
    by intro i j h; fin_cases i; fin_cases j; simp at h,
    by intro i; fin_cases i; simp,
    by ext i j; fin_cases i; fin_cases j; simp [Matrix.mul_apply]; norm_num,
    by ext i j; fin_cases i; fin_cases j; simp [Matrix.mul_apply],
    by ext i j; fin_cases i; fin_cases j; simp [Matrix.mul_apply]; norm_num⟩

-- @site GaussianProcessPrediction::variance
/-- `variance()` (and `std()²`) is the diagonal of the predictive covariance; `Kinv` is `k_chol.inverse()`, i.e. the
    solve of `K · Kinv = 1` through `L`; `d = kernel.diag(xs)` is the diagonal of `K**` -/
theorem var_eq_diag (L K Kinv Z : Matrix (Fin n) (Fin n) ℝ) (Kss : Matrix (Fin q) (Fin q) ℝ)
    (Ks : Matrix (Fin q) (Fin n) ℝ) (d : Fin q → ℝ)
    (hL : ∀ i j, i < j → L i j = 0) (hpos : ∀ i, 0 < L i i) (hK : L * Lᵀ = K)
    (hz : L * Z = 1) (hv : Lᵀ * Kinv = Z) (hd : ∀ i, d i = Kss i i) (i : Fin q) :
    codeVar d Ks Kinv i = (Kss - Ks * K⁻¹ * Ksᵀ) i i := by
  have hinv : Kinv = K⁻¹ := by
    rw [solve_mat hK (isUnit_det_chol L K hL hK hpos) hz hv, Matrix.mul_one]
  simp only [codeVar, hd, hinv, Matrix.sub_apply, Matrix.mul_apply (M := Ks * K⁻¹) (N := Ksᵀ),
    Matrix.transpose_apply]

-- @site GaussianProcess::sample_function
/-- querying at the training inputs: `K* = K₀` (the noise-free kernel matrix) and `K = K₀ + D` (`D` = noise
    diagonal), so the predictive mean is `y − D α`: the residual is the noise times the dual coefficients … -/
theorem mean_at_training_inputs (L K K0 D : Matrix (Fin n) (Fin n) ℝ) (y z α : Fin n → ℝ)
    (hL : ∀ i j, i < j → L i j = 0) (hpos : ∀ i, 0 < L i i) (hK : L * Lᵀ = K) (hKD : K = K0 + D)
    (hz : L *ᵥ z = y) (hα : Lᵀ *ᵥ α = z) : codeMean K0 α = y - D *ᵥ α := by
  have hu := isUnit_det_chol L K hL hK hpos
  have ha := alpha_eq L K y z α hL hpos hK hz hα
  have h1 : K *ᵥ α = y := by rw [ha, mulVec_mulVec, mul_nonsing_inv _ hu, one_mulVec]
  have h2 : K0 = K - D := by rw [hKD]; simp
  rw [codeMean, h2, Matrix.sub_mulVec, h1]

-- @site GaussianProcess::sample_function
/-- … and with zero noise the predictive mean at the training inputs reproduces the training targets -/
theorem interpolation (L K : Matrix (Fin n) (Fin n) ℝ) (y z α : Fin n → ℝ)
    (hL : ∀ i j, i < j → L i j = 0) (hpos : ∀ i, 0 < L i i) (hK : L * Lᵀ = K)
    (hz : L *ᵥ z = y) (hα : Lᵀ *ᵥ α = z) : codeMean K α = y := by
  have h := mean_at_training_inputs L K K 0 y z α hL hpos hK (by simp) hz hα
  simpa using h

-- ---------------------------------------------------------------------------------------------------------------
-- 4. the executable model `Hand.Gp` over the carrier `R` computes the expressions above

section Model
open Hand.Gp

-- @site GaussianProcess::ln_m
/-- `Hand.Gp.lnMOf` (the list program run against the implementation) is the expression `codeLnM`:
    `n·(−½ ln 2π) + (−½·(y·α) − Σ ln Lᵢᵢ)` with `α` the result of the two substitutions -/
theorem ln_m_model (L : Mat R) (y : List R) :
    (lnMOf L y).val = (L.length : ℝ) * (-(Real.log (2 * π) / 2))
      + ((-(1 / 2)) * (dotL y (cholSolve L y)).val + -(((diagOfLower L).map fun d => Real.log d.val).sum)) :=
  lnMOf_val L y

-- @site GaussianProcess::ln_m_with_params
/-- `Hand.Gp.gradLoop` (the double loop `for j in 0..m { sum += (A.row(j) * G.column(j))[0] }; 0.5 * sum`) is
    `½ tr(A G)` for square `A`, `G` -/
theorem grad_loop_model (A G : Mat R) (n : ℕ) (hA : A.length = n) (hAr : ∀ r ∈ A, r.length = n)
    (hG : G.length = n) : (gradLoop A G).val = 1 / 2 * Matrix.trace (toM n n A * toM n n G) :=
  gradLoop_val A G n hA hAr hG

example : ∃ (A G : Mat R), A.length = 2 ∧ (∀ r ∈ A, r.length = 2) ∧ G.length = 2 :=
  ⟨[[⟨1⟩, ⟨2⟩], [⟨3⟩, ⟨4⟩]], [[⟨0⟩, ⟨1⟩], [⟨1⟩, ⟨0⟩]], rfl, by simp, rfl⟩

end Model

-- ---------------------------------------------------------------------------------------------------------------
-- 5. layout of the query matrix  (`Hand.Gp.assemble` = `DMatrix::from_row_iterator(n, m, indices.flat_map(..))`)

section Layout
open Hand.Gp
variable {β : Type}

-- @site GaussianProcess::sample_function
/-- entry `(i, j)` of the `n × m` query matrix the code builds is `flat[i·m + j]`, `flat` = the query points
    written one after the other -/
theorem layout_entry (rows : List (List β)) (d : β) (i j : ℕ) (hi : i < rows.length)
    (hj : j < (rows.head?.map List.length).getD 0) :
    ((assemble rows d).getD i []).getD j d
      = rows.flatten.getD (i * (rows.head?.map List.length).getD 0 + j) d :=
  fromRowIterator_entry _ _ _ d i j hi hj

example : ((assemble [[10, 11], [20, 21], [30, 31]] 0).getD 2 []).getD 1 0 = 31 := by decide

-- @site GaussianProcess::sample_function
/-- the assembled matrix is the intended one for ANY number of query points `n` and ANY input dimension `m`:
    its row `i` is the `i`-th query point (every point has `m` coordinates) -/
theorem layout_ok (rows : List (List β)) (d : β) (m : ℕ) (hrows : ∀ r ∈ rows, r.length = m)
    (i j : ℕ) (hi : i < rows.length) (hj : j < m) :
    ((assemble rows d).getD i []).getD j d = ((intended rows).getD i []).getD j d := by
  have hm : (rows.head?.map List.length).getD 0 = m := by
    cases rows with
    | nil => simp at hi
    | cons r rs => simpa using hrows r (by simp)
  rw [layout_entry rows d i j hi (by omega), hm, intended]
  exact flatten_uniform rows d m hrows i j hj

example : ∀ r ∈ [[(1 : ℕ), 2, 3], [4, 5, 6]], r.length = 3 := by decide

/-- e.g. three points in the plane, two points in space (the instances that were scrambled before the repair) -/
example : assemble [[1, 2], [3, 4], [5, 6]] 0 = intended [[1, 2], [3, 4], [5, 6]]
    ∧ assemble [[1, 2, 3], [4, 5, 6]] 0 = intended [[1, 2, 3], [4, 5, 6]] := by decide

end Layout

-- ---------------------------------------------------------------------------------------------------------------
-- 6. noise model

section Noise
open Hand.Gp RealLike

-- @site NoiseModel::add_noise_to_kernel
/-- entry `(i, j)` of `add_noise_to_kernel`: the covariance plus the noise diagonal -/
theorem addDiag_entry (K : Mat R) (dg : List R) (i j : ℕ) (hi : i < K.length) (hj : j < (K.getD i []).length) :
    (((addDiag K dg).getD i []).getD j (0.0 : R)).val
      = ((K.getD i []).getD j (0.0 : R)).val + (if i = j then (dg.getD i (0.0 : R)).val else 0) := by
  rw [List.getD_eq_getElem?_getD] at hj
  simp only [addDiag, List.getD_eq_getElem?_getD, List.getElem?_map, List.getElem?_range, hi, hj,
    Option.map_some, Option.getD_some]
  split_ifs
  · simp
  · simp; norm_num

-- @site NoiseModel::add_noise_to_kernel
/-- `Uniform(σ)` adds `σ²` to every diagonal entry -/
theorem noise_uniform (s : R) (n : ℕ) :
    ∃ v, noiseDiag (.uniform s) n = .ok (List.replicate n v) ∧ v.val = s.val ^ 2 :=
  ⟨powi s 2, rfl, by rw [R.powi_val]; norm_cast⟩

-- @site NoiseModel::add_noise_to_kernel
/-- `PerPoint(v)` adds `vᵢ` itself (not `vᵢ²`) to the `i`-th diagonal entry -/
theorem noise_perPoint (v : List R) : noiseDiag (.perPoint v) v.length = .ok v := by
  simp [noiseDiag]

-- @site NoiseModel::add_noise_to_kernel
/-- a `PerPoint` vector whose length is not the number of training points is an error, also through `train` -/
theorem noise_size_mismatch (v : List R) (K : Mat R) (h : K.length ≠ v.length) :
    addNoise (.perPoint v) K = .error .misshapen := by
  simp [addNoise, noiseDiag, h]

-- @site GaussianProcess::train
theorem train_size_mismatch (k : Kern R) (X : Mat R) (y v : List R) (h : X.length ≠ v.length) :
    train k X y (.perPoint v) = .error .misshapen := by
  have hl : (covMat k X X).length = X.length := by simp [covMat]
  unfold train
  rw [noise_size_mismatch v _ (by rw [hl]; exact h)]
  rfl

example : ([[⟨1⟩], [⟨2⟩]] : Mat R).length ≠ ([⟨1⟩] : List R).length := by decide

-- @site NoiseModel::add_noise_to_kernel
/-- the two variants are consistent only through a change of parameter: `Uniform(σ)` is `PerPoint` of the VARIANCES
    `σ²` … -/
theorem noise_uniform_eq_perPoint_sq (s : R) (K : Mat R) :
    addNoise (.uniform s) K = addNoise (.perPoint (List.replicate K.length (powi s 2))) K := by
  simp [addNoise, noiseDiag]

-- @site NoiseModel::add_noise_to_kernel
/-- … and NOT `PerPoint` of the same numbers: `Uniform(1/2)` adds `1/4`, `PerPoint([1/2])` adds `1/2` -/
theorem noise_parametrisation_counterexample :
    noiseDiag (.uniform (⟨1 / 2⟩ : R)) 1 ≠ noiseDiag (.perPoint [(⟨1 / 2⟩ : R)]) 1 := by
  intro h
  simp only [noiseDiag, List.length_singleton, if_true, List.replicate_one, Except.ok.injEq, List.cons.injEq,
    and_true] at h
  have := congrArg R.val h
  rw [R.powi_val] at this
  norm_num at this

end Noise

-- ---------------------------------------------------------------------------------------------------------------
-- 7. parameters

section Params
open Hand.Gp RealLike

-- @site GaussianProcess::set_parameters
/-- `set_parameters(parameters())` returns the same process: the kernel is rebuilt identically (`exp ∘ ln = id` on
    positive parameters) and retraining on the stored data is a function of (kernel, data, noise) only -/
theorem set_parameters_roundtrip (k : Kern R) (X : Mat R) (y : List R) (nm : Noise R) (gp : Gp R)
    (hk : KPos k) (h : train k X y nm = .ok gp) : setParameters gp (parameters gp) = .ok gp := by
  obtain ⟨h1, h2, h3, h4⟩ := train_fields h
  unfold setParameters parameters
  have := consume_parameters_append gp.kernel (h1 ▸ hk) []
  rw [List.append_nil] at this
  rw [this]
  simp only [Except.mapError, bind, Except.bind, List.isEmpty_nil, Bool.not_true, Bool.false_eq_true, if_false]
  rw [h1, h2, h3, h4]
  exact h

example : KPos (.mul (.const ⟨2⟩) (.rbf ⟨3⟩)) := by
  constructor <;> simp [KPos]

-- @site GaussianProcess::set_parameters
/-- `set_parameters(θ)` IS a fresh `train` with the kernel rebuilt from `θ` on the stored data and noise model — for any
    valid `θ`, not only the current parameters -/
theorem set_parameters_eq_train (gp : Gp R) (θ : List R) (k' : Kern R) (hl : θ.length = gp.kernel.nParameters)
    (hk : gp.kernel.reparameterize θ = .ok k') :
    setParameters gp θ = train k' gp.xTrain gp.yTrain gp.noise := by
  unfold setParameters
  rw [consume_parameters_exact gp.kernel θ k' hl hk]
  rfl

example : (Kern.mul (.const (⟨2⟩ : R)) (.rbf ⟨3⟩)).reparameterize [⟨0⟩, ⟨1⟩]
    = .ok (.mul (.const (RealLike.exp ⟨0⟩)) (.rbf (RealLike.exp ⟨1⟩))) := by
  have h0 : RealLike.le (RealLike.exp (⟨0⟩ : R)) (0.0 : R) = false := by
    rw [R.le_false_iff, R.exp_val, zero_val]; exact not_le.mpr (Real.exp_pos _)
  have h1 : RealLike.le (RealLike.exp (⟨1⟩ : R)) (0.0 : R) = false := by
    rw [R.le_false_iff, R.exp_val, zero_val]; exact not_le.mpr (Real.exp_pos _)
  simp [Kern.reparameterize, Kern.nParameters, leafNew, h0, h1]
  rfl

-- @site GaussianProcess::set_parameters
/-- … hence NO cached field of the new process is stale: the factor is the Cholesky factor of `kernel(θ) + noise` on the
    stored inputs, and the dual coefficients `alpha` and the inverse `k_inv` are solved with THAT factor (a refit that kept
    the old `alpha` would violate the third conjunct); the data and the noise model are carried over -/
theorem set_parameters_refits_all (gp gp' : Gp R) (θ : List R) (k' : Kern R) (hl : θ.length = gp.kernel.nParameters)
    (hk : gp.kernel.reparameterize θ = .ok k') (h : setParameters gp θ = .ok gp') :
    gp'.kernel = k' ∧ gp'.xTrain = gp.xTrain ∧ gp'.yTrain = gp.yTrain ∧ gp'.noise = gp.noise
      ∧ (∃ K, addNoise gp.noise (covMat k' gp.xTrain gp.xTrain) = .ok K ∧ cholesky K = some gp'.chol)
      ∧ gp'.alpha = cholSolve gp'.chol gp.yTrain ∧ gp'.kInv = cholInverse gp'.chol := by
  rw [set_parameters_eq_train gp θ k' hl hk] at h
  obtain ⟨h1, h2, h3, h4⟩ := train_fields h
  obtain ⟨K, hK, hc, ha, hi⟩ := train_coherent h
  exact ⟨h1, h2, h3, h4, ⟨K, hK, hc⟩, ha, hi⟩

-- @site GaussianProcess::set_parameters
/-- extra parameters are rejected with their count -/
theorem set_parameters_extra (gp : Gp R) (hk : KPos gp.kernel) (extra : List R) (he : extra ≠ []) :
    setParameters gp (parameters gp ++ extra) = .error (.kernel (.extraneous extra.length)) := by
  unfold setParameters parameters
  rw [consume_parameters_append gp.kernel hk extra]
  cases extra with
  | nil => exact absurd rfl he
  | cons x xs => rfl

-- @site GaussianProcess::set_parameters
/-- missing parameters are rejected with their count -/
theorem set_parameters_missing (gp : Gp R) (ps : List R) (h : ps.length < gp.kernel.nParameters) :
    setParameters gp ps = .error (.kernel (.missing (gp.kernel.nParameters - ps.length))) := by
  unfold setParameters
  rw [consume_parameters_missing gp.kernel ps h]
  rfl

end Params

end C17

#print axioms C17.alpha_eq
#print axioms C17.ln_m_eq
#print axioms C17.grad_eq_trace
#print axioms C17.grad_is_derivative_partial
#print axioms C17.mean_eq
#print axioms C17.cov_eq
#print axioms C17.var_eq_diag
#print axioms C17.mean_at_training_inputs
#print axioms C17.interpolation
#print axioms C17.ln_m_model
#print axioms C17.grad_loop_model
#print axioms C17.layout_entry
#print axioms C17.layout_ok
#print axioms C17.addDiag_entry
#print axioms C17.noise_uniform
#print axioms C17.noise_perPoint
#print axioms C17.noise_size_mismatch
#print axioms C17.train_size_mismatch
#print axioms C17.noise_uniform_eq_perPoint_sq
#print axioms C17.noise_parametrisation_counterexample
#print axioms C17.set_parameters_roundtrip
#print axioms C17.set_parameters_eq_train
#print axioms C17.set_parameters_refits_all
#print axioms C17.set_parameters_extra
#print axioms C17.set_parameters_missing
