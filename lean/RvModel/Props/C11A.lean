import RvModel.RealInst
import RvModel.ExtInst
import RvModel.Gen.Defs
import RvModel.Hand.Mixture
import RvModel.Lemmas.C13A
import RvModel.Lemmas.C11
import RvModel.Props.C13A
import Mathlib.Tactic.Ring
import Mathlib.Tactic.Linarith
import Mathlib.Tactic.FieldSimp
import Mathlib.Analysis.SpecialFunctions.Log.Basic
import Mathlib.Analysis.SpecialFunctions.Exp
import Mathlib.Tactic.NormNum.OfScientific
/-!
  C11 — a mixture behaves as the weighted sum of its components (`src/dist/mixture.rs`).

  Model: the hand transcription `Hand.Mixture` (RvModel/Hand/Mixture.lean) over an ABSTRACT component family
  `Comp α Ob` (the trait methods the mixture code calls on `Fx`); `ln_f` goes through the GENERATED
  `Gen.logsumexp`, the draw through the GENERATED `Gen.cumsum` / `Gen.catflip`.  The model is tied to the real
  code by the correspondence ops `mix.*` (harness/src/manual_c11.rs ↔ Hand/DispatchC11.lean).

  * carrier `R` (exact reals): values of `f, cdf, pdf, mean, variance`, the weight invariant `W`;
  * carrier `X` (IEEE special values over exact reals): `ln_f` with zero weights / `-inf` log-densities, NaN weights.

  `wsum ps g = Σ wₖ · g(cₖ)` over the (weight, component) pairs `ps = weights.zip comps` (Lemmas/C11.lean).
  `-- @site` names the Rust function a theorem is about.  The drawn index is in Props/C11B.lean.
-/
open Real X Hand.Mixture

namespace C11

variable {Ob : Type}

/-- the (weight, component) pairs every query iterates over: `weights.iter().zip(components.iter())` -/
abbrev pairs {α : Type} (m : Mix α Ob) : List (α × Comp α Ob) := m.weights.zip m.comps

/-- an arbitrary component, for the examples: density 1, cdf 1/2, mean `mu`, variance `v` -/
noncomputable def exComp (mu v : R) : Comp R Unit :=
  { lnF := fun _ => ⟨0⟩, f := fun _ => ⟨1⟩, cdf := fun _ => ⟨1/2⟩, mean := some mu, variance := some v,
    supports := fun _ => true }

/-- a component without moments (e.g. Cauchy) -/
noncomputable def exCompNoMean : Comp R Unit :=
  { lnF := fun _ => ⟨0⟩, f := fun _ => ⟨1⟩, cdf := fun _ => ⟨1/2⟩, mean := none, variance := none,
    supports := fun _ => false }

/-- the mixture of the Rust unit test `variance_even_weight`: ½·N(1, 3²) + ½·N(3, 1²) (moments only) -/
noncomputable def exMix : Mix R Unit := ⟨[⟨1/2⟩, ⟨1/2⟩], [exComp ⟨1⟩ ⟨9⟩, exComp ⟨3⟩ ⟨1⟩]⟩

-- @site Mixture::variance
theorem exMix_allMeanVar : AllMeanVar (pairs exMix) := by
  intro p hp; simp [exMix, pairs] at hp; rcases hp with rfl | rfl <;> simp [exComp]

/-! ## (a) values over `R` -/

-- @site Mixture::f
/-- `f(x) = Σ wₖ fₖ(x)` -/
theorem f_eq_sum (m : Mix R Ob) (x : Ob) : (f m x).val = wsum (pairs m) (fun c => (c.f x).val) := by
  unfold f
  rw [fold_mulAdd_val (fun c => c.f x), R_zero_val, zero_add]

example : (f exMix ()).val = 1 := by
  rw [f_eq_sum]; simp [exMix, pairs, exComp]; norm_num

-- @site Mixture::cdf
/-- `cdf(x) = Σ wₖ cdfₖ(x)` -/
theorem cdf_eq_sum (m : Mix R Ob) (x : Ob) : (cdf m x).val = wsum (pairs m) (fun c => (c.cdf x).val) := by
  unfold cdf
  rw [fold_mulAdd_val (fun c => c.cdf x), R_zero_val, zero_add]

example : (cdf exMix ()).val = 1/2 := by
  rw [cdf_eq_sum]; simp [exMix, pairs, exComp]; norm_num

-- @site Mixture::pdf
/-- `pdf(x) = pmf(x) = Σ_{k : cₖ supports x} wₖ fₖ(x)` -/
theorem pdf_eq_sum (m : Mix R Ob) (x : Ob) :
    (pdf m x).val = wsum (pairs m) (fun c => if c.supports x then (c.f x).val else 0) := by
  unfold pdf
  rw [fold_mulAdd_if_val (fun c => c.supports x) (fun c => c.f x), R_zero_val, zero_add]

/-- a component that does not support `x` is skipped by `pdf` (but not by `f`) -/
example : (pdf (⟨[⟨1/2⟩, ⟨1/2⟩], [exComp ⟨1⟩ ⟨9⟩, exCompNoMean]⟩ : Mix R Unit) ()).val = 1/2 := by
  rw [pdf_eq_sum]; simp [pairs, exComp, exCompNoMean]

-- @site Mixture::pdf
/-- `pdf = f` as soon as every component's density vanishes outside its support -/
theorem pdf_eq_f (m : Mix R Ob) (x : Ob) (h : ∀ c ∈ m.comps, c.supports x = false → (c.f x).val = 0) :
    (pdf m x).val = (f m x).val := by
  rw [pdf_eq_sum, f_eq_sum]
  unfold wsum
  congr 1
  apply List.map_congr_left
  intro p hp
  by_cases hs : p.2.supports x
  · simp [hs]
  · have := h p.2 (List.of_mem_zip hp).2 (by simpa using hs)
    simp [hs, this]

example : (pdf exMix ()).val = (f exMix ()).val := pdf_eq_f _ _ (by simp [exMix, exComp])

-- @site Mixture::mean
/-- `mean = Σ wₖ μₖ` when every component has a mean … -/
theorem mean_eq_sum (m : Mix R Ob) (h : AllMean (pairs m)) :
    ∃ r, mean m = some r ∧ r.val = wsum (pairs m) (fun c => oval c.mean) := by
  have := mean_fold (pairs m) (0.0 : R)
  rw [if_pos h, R_zero_val, zero_add] at this
  unfold mean
  cases hm : tryFoldO (fun grand (p : R × Comp R Ob) => p.2.mean.map (fun mu => mulAdd p.1 mu grand)) (0.0 : R) (pairs m) with
  | none => rw [hm] at this; simp at this
  | some r => rw [hm] at this; exact ⟨r, rfl, by simpa using this⟩

example : ∃ r, mean exMix = some r ∧ r.val = 2 := by
  obtain ⟨r, h1, h2⟩ := mean_eq_sum exMix (fun p hp => (exMix_allMeanVar p hp).1)
  refine ⟨r, h1, ?_⟩
  rw [h2]; simp [exMix, pairs, exComp]; norm_num

-- @site Mixture::mean
/-- … and `None` iff some component has none -/
theorem mean_none_iff (m : Mix R Ob) : mean m = none ↔ ∃ p ∈ pairs m, p.2.mean = none := by
  have := mean_fold (pairs m) (0.0 : R)
  unfold mean
  constructor
  · intro h
    by_contra hne
    have hall : AllMean (pairs m) := fun p hp hn => hne ⟨p, hp, hn⟩
    rw [h, if_pos hall] at this
    simp at this
  · rintro ⟨p, hp, hn⟩
    have hall : ¬ AllMean (pairs m) := fun h => h p hp hn
    rw [if_neg hall] at this
    simpa using this

example : mean (⟨[⟨1/2⟩, ⟨1/2⟩], [exComp ⟨1⟩ ⟨9⟩, exCompNoMean]⟩ : Mix R Unit) = none :=
  (mean_none_iff _).mpr ⟨(⟨1/2⟩, exCompNoMean), by simp [pairs], rfl⟩

-- @site Mixture::variance
/-- the code's formula `p3·(−p3) + (p1 + p2)` with `p1 = Σ wμ²`, `p2 = Σ wσ²`, `p3 = Σ wμ` equals the textbook
    `Σ wₖ(σₖ² + μₖ²) − (Σ wₖ μₖ)²` when every component has a mean and a variance … -/
theorem variance_eq (m : Mix R Ob) (h : AllMeanVar (pairs m)) :
    ∃ r, variance m = some r ∧
      r.val = wsum (pairs m) (fun c => oval c.variance + oval c.mean * oval c.mean)
                - (wsum (pairs m) (fun c => oval c.mean)) ^ 2 := by
  have := var_fold (pairs m) ((0.0 : R), (0.0 : R), (0.0 : R))
  rw [if_pos h] at this
  simp only [R_zero_val, zero_add] at this
  unfold variance
  cases hm : tryFoldO varStep ((0.0 : R), (0.0 : R), (0.0 : R)) (pairs m) with
  | none => rw [hm] at this; simp at this
  | some st =>
    rw [hm] at this
    simp only [Option.map_some, Option.some.injEq, Prod.mk.injEq] at this
    obtain ⟨h1, h2, h3⟩ := this
    refine ⟨_, rfl, ?_⟩
    simp only [mulAdd, R.add_val, R.mul_val, R.neg_val, h1, h2, h3, wsum_add]
    ring

/-- the value asserted by the Rust unit test `variance_even_weight` -/
example : ∃ r, variance exMix = some r ∧ r.val = 6 := by
  obtain ⟨r, h1, h2⟩ := variance_eq exMix exMix_allMeanVar
  refine ⟨r, h1, ?_⟩
  rw [h2]; simp [exMix, pairs, exComp]; norm_num

-- @site Mixture::variance
/-- … and `None` iff some component lacks a mean or a variance -/
theorem variance_none_iff (m : Mix R Ob) :
    variance m = none ↔ ∃ p ∈ pairs m, p.2.mean = none ∨ p.2.variance = none := by
  have := var_fold (pairs m) ((0.0 : R), (0.0 : R), (0.0 : R))
  unfold variance
  constructor
  · intro h
    by_contra hne
    have hall : AllMeanVar (pairs m) := fun p hp =>
      ⟨fun hn => hne ⟨p, hp, Or.inl hn⟩, fun hn => hne ⟨p, hp, Or.inr hn⟩⟩
    rw [if_pos hall] at this
    cases hm : tryFoldO varStep ((0.0 : R), (0.0 : R), (0.0 : R)) (pairs m) with
    | none => rw [hm] at this; simp at this
    | some st => rw [hm] at h; simp at h
  · rintro ⟨p, hp, hn⟩
    have hall : ¬ AllMeanVar (pairs m) := fun h => by
      rcases hn with hn | hn
      · exact (h p hp).1 hn
      · exact (h p hp).2 hn
    rw [if_neg hall] at this
    cases hm : tryFoldO varStep ((0.0 : R), (0.0 : R), (0.0 : R)) (pairs m) with
    | none => rfl
    | some st => rw [hm] at this; simp at this

example : variance (⟨[⟨1/2⟩, ⟨1/2⟩], [exComp ⟨1⟩ ⟨9⟩, exCompNoMean]⟩ : Mix R Unit) = none :=
  (variance_none_iff _).mpr ⟨(⟨1/2⟩, exCompNoMean), by simp [pairs], Or.inl rfl⟩

-- @site Mixture::supports
/-- the mixture supports `x` iff some component does -/
theorem supports_iff {α : Type} (m : Mix α Ob) (x : Ob) :
    supports m x = true ↔ ∃ c ∈ m.comps, c.supports x = true := by
  unfold supports; simp

example : supports (⟨[⟨1/2⟩, ⟨1/2⟩], [exCompNoMean, exComp ⟨1⟩ ⟨9⟩]⟩ : Mix R Unit) () = true :=
  (supports_iff _ _).mpr ⟨exComp ⟨1⟩ ⟨9⟩, by simp, rfl⟩

/-! ## (a') existence of the moments, on EVERY carrier (binary64 included), whatever the weights -/

theorem meanFold_none_iff {α : Type} [RealLike α] (ps : List (α × Comp α Ob)) (s : α) :
    tryFoldO (fun grand (p : α × Comp α Ob) => p.2.mean.map (fun mu => mulAdd p.1 mu grand)) s ps = none ↔
      ∃ p ∈ ps, p.2.mean = none := by
  induction ps generalizing s with
  | nil => simp [tryFoldO]
  | cons p t ih =>
    cases hm : p.2.mean with
    | none => simp [tryFoldO, hm]
    | some mu => simp [tryFoldO, hm, ih]

theorem varFold_none_iff {α : Type} [RealLike α] (ps : List (α × Comp α Ob)) (st : α × α × α) :
    tryFoldO varStep st ps = none ↔ ∃ p ∈ ps, p.2.mean = none ∨ p.2.variance = none := by
  induction ps generalizing st with
  | nil => simp [tryFoldO]
  | cons p t ih =>
    cases hm : p.2.mean with
    | none => simp [tryFoldO, varStep, hm]
    | some mu =>
      cases hv : p.2.variance with
      | none => simp [tryFoldO, varStep, hm, hv]
      | some v => simp [tryFoldO, varStep, hm, hv, ih]

-- @site Mixture::mean
/-- existence clause of the mean, as coded (`try_fold`, mixture.rs:504-513): `None` iff some paired component has no
    mean — WHATEVER ITS WEIGHT (a zero-weight Cauchy-like component makes the mean `None`) — on every carrier -/
theorem mean_isNone_iff {α : Type} [RealLike α] (m : Mix α Ob) :
    mean m = none ↔ ∃ p ∈ pairs m, p.2.mean = none := by
  unfold mean; exact meanFold_none_iff _ _

-- @site Mixture::variance
/-- existence clause of the variance, as coded (mixture.rs:521-542): `None` iff some paired component lacks a mean OR
    a variance — whatever its weight, zero included — and `Some` otherwise; on every carrier.  (A component whose
    variance is `None` must not be skipped: a mixture containing a StudentsT with `v ≤ 2` has no variance.) -/
theorem variance_isNone_iff {α : Type} [RealLike α] (m : Mix α Ob) :
    variance m = none ↔ ∃ p ∈ pairs m, p.2.mean = none ∨ p.2.variance = none := by
  unfold variance
  rw [Option.map_eq_none_iff]
  exact varFold_none_iff _ _

/-- a zero-weight component without variance (InvGamma with shape 1.5) makes the variance `None` -/
example : variance (⟨[fin 0, fin 1], [momentComp (some (fin 2)) none, momentComp (some (fin 1)) (some (fin 1))]⟩ : Mix X Unit)
    = none :=
  (variance_isNone_iff _).mpr ⟨(fin 0, momentComp (some (fin 2)) none), by simp [pairs], Or.inr rfl⟩
example : mean (⟨[fin 0, fin 1], [momentComp none none, momentComp (some (fin 1)) (some (fin 1))]⟩ : Mix X Unit) = none :=
  (mean_isNone_iff _).mpr ⟨(fin 0, momentComp none none), by simp [pairs], rfl⟩

-- @site Mixture::variance
/-- … and when every paired component has both moments the variance exists -/
theorem variance_isSome {α : Type} [RealLike α] (m : Mix α Ob)
    (h : ∀ p ∈ pairs m, p.2.mean ≠ none ∧ p.2.variance ≠ none) : (variance m).isSome = true := by
  rw [Option.isSome_iff_ne_none, Ne, variance_isNone_iff]
  rintro ⟨p, hp, hn⟩
  rcases hn with hn | hn
  · exact (h p hp).1 hn
  · exact (h p hp).2 hn

example : (variance (⟨[fin (1/2), fin (1/2)], [momentComp (some (fin 0)) (some (fin 1)), momentComp (some (fin 3)) (some (fin 2))]⟩ :
    Mix X Unit)).isSome = true :=
  variance_isSome _ (by intro p hp; simp [pairs] at hp; rcases hp with rfl | rfl <;> simp [momentComp])

/-! ## (b) one component with weight 1: every query equals the component's -/

-- @site Mixture::f
theorem single_f (w : R) (c : Comp R Ob) (hw : w.val = 1) (x : Ob) :
    (f ⟨[w], [c]⟩ x).val = (c.f x).val := by
  rw [f_eq_sum]; simp [pairs, List.zip_cons_cons, hw]

-- @site Mixture::cdf
theorem single_cdf (w : R) (c : Comp R Ob) (hw : w.val = 1) (x : Ob) :
    (cdf ⟨[w], [c]⟩ x).val = (c.cdf x).val := by
  rw [cdf_eq_sum]; simp [pairs, List.zip_cons_cons, hw]

-- @site Mixture::pdf
theorem single_pdf (w : R) (c : Comp R Ob) (hw : w.val = 1) (x : Ob) :
    (pdf ⟨[w], [c]⟩ x).val = if c.supports x then (c.f x).val else 0 := by
  rw [pdf_eq_sum]; simp [pairs, List.zip_cons_cons, hw]

-- @site Mixture::mean
theorem single_mean (w : R) (c : Comp R Ob) (hw : w.val = 1) :
    (mean ⟨[w], [c]⟩).map R.val = c.mean.map R.val := by
  unfold mean
  cases hm : c.mean with
  | none => simp [tryFoldO, hm]
  | some mu => simp [tryFoldO, hm, mulAdd, hw]; norm_num

-- @site Mixture::variance
/-- `p1 + p2 − p3² = μ² + σ² − μ² = σ²` -/
theorem single_variance (w : R) (c : Comp R Ob) (hw : w.val = 1) (hm : c.mean ≠ none) :
    (variance ⟨[w], [c]⟩).map R.val = c.variance.map R.val := by
  unfold variance
  cases hm' : c.mean with
  | none => exact absurd hm' hm
  | some mu =>
    cases hv : c.variance with
    | none => simp [tryFoldO, varStep, hm', hv]
    | some v =>
      simp only [List.zip_cons_cons, List.zip_nil_right, tryFoldO, varStep, hm', hv, Option.map_some,
        mulAdd, R.add_val, R.mul_val, R.neg_val, R_zero_val, hw, Option.some.injEq]
      ring

-- @site Mixture::supports
theorem single_supports {α : Type} (w : α) (c : Comp α Ob) (x : Ob) :
    supports ⟨[w], [c]⟩ x = c.supports x := by
  simp [supports]

example : (f ⟨[(⟨1⟩ : R)], [exComp ⟨3⟩ ⟨2⟩]⟩ ()).val = 1 ∧ (cdf ⟨[(⟨1⟩ : R)], [exComp ⟨3⟩ ⟨2⟩]⟩ ()).val = 1/2 ∧
    (mean ⟨[(⟨1⟩ : R)], [exComp ⟨3⟩ ⟨2⟩]⟩).map R.val = some 3 ∧
    (variance ⟨[(⟨1⟩ : R)], [exComp ⟨3⟩ ⟨2⟩]⟩).map R.val = some 2 :=
  ⟨single_f _ _ rfl _, single_cdf _ _ rfl _, single_mean _ _ rfl, single_variance _ _ rfl (by simp [exComp])⟩

/-! ## (c) `validate_weights` and the weight invariant over `R` -/

/-- what `validate_weights` is meant to enforce: non-empty, non-negative, sum within `1e-12` of one -/
def ValidW (ws : List R) : Prop :=
  ws ≠ [] ∧ (∀ w ∈ ws, 0 ≤ w.val) ∧ |(ws.map R.val).sum - 1| ≤ 1e-12

-- @site validate_weights
/-- on real weights `validate_weights` accepts exactly the valid vectors -/
theorem validateWeights_ok_iff (ws : List R) : validateWeights ws = .ok () ↔ ValidW ws := by
  unfold validateWeights ValidW
  cases ws with
  | nil => simp
  | cons w0 t =>
    simp only [List.isEmpty_cons, Bool.false_eq_true, if_false, ne_eq, reduceCtorEq, not_false_eq_true,
      true_and]
    by_cases hneg : ∃ p ∈ enumL (w0 :: t), p.2.val < 0
    · obtain ⟨p, _, hp⟩ := tryFoldE_neg _ (fun p => Err.mk "WeightTooLow" [RealLike.ofNatR p.1, p.2])
        (fun _ _ => rfl) (enumL (w0 :: t)) (0.0 : R) hneg
      rw [hp]
      obtain ⟨q, hq, hq'⟩ := hneg
      constructor
      · intro h; cases h
      · rintro ⟨h, _⟩
        exact absurd (h q.2 (enumL_mem_snd _ q hq)) (not_le.mpr hq')
    · have hall : ∀ p ∈ enumL (w0 :: t), 0 ≤ p.2.val := fun p hp => not_lt.mp (fun h => hneg ⟨p, hp, h⟩)
      obtain ⟨s', h1, h2⟩ := tryFoldE_nonneg _ (fun p => Err.mk "WeightTooLow" [RealLike.ofNatR p.1, p.2])
        (fun _ _ => rfl) (enumL (w0 :: t)) (0.0 : R) hall
      rw [h1]
      rw [enumL_sum, R_zero_val, zero_add] at h2
      have hall' : ∀ w ∈ w0 :: t, 0 ≤ w.val := by
        intro w hw
        obtain ⟨p, hp, rfl⟩ := enumL_snd_mem _ w hw
        exact hall p hp
      by_cases hs : RealLike.le (RealLike.abs (s' - (1.0 : R))) (1E-12 : R) = true
      · simp only [hs, Bool.not_true, Bool.false_eq_true, if_false]
        rw [R.le_iff, R.abs_val, R.sub_val, R_one_val, R_tol_val, h2] at hs
        exact ⟨fun _ => ⟨hall', hs⟩, fun _ => trivial⟩
      · have hs' : RealLike.le (RealLike.abs (s' - (1.0 : R))) (1E-12 : R) = false := by simpa using hs
        simp only [hs', Bool.not_false, if_true]
        rw [R.le_iff, R.abs_val, R.sub_val, R_one_val, R_tol_val, h2] at hs
        constructor
        · intro h; cases h
        · rintro ⟨_, h⟩; exact absurd h hs

example : validateWeights [(⟨0.25⟩ : R), ⟨0⟩, ⟨0.75⟩] = .ok () := by
  rw [validateWeights_ok_iff]
  refine ⟨by simp, ?_, by norm_num⟩
  intro w hw; simp at hw; rcases hw with rfl | rfl | rfl <;> norm_num

-- @site validate_weights
/-- which error is reported -/
theorem validateWeights_error (ws : List R) (e : Err R) (h : validateWeights ws = .error e) :
    (ws = [] ∧ e.variant = "WeightsEmpty") ∨
    ((∃ w ∈ ws, w.val < 0) ∧ e.variant = "WeightTooLow") ∨
    (ws ≠ [] ∧ (∀ w ∈ ws, 0 ≤ w.val) ∧ 1e-12 < |(ws.map R.val).sum - 1| ∧ e.variant = "WeightsDoNotSumToOne") := by
  unfold validateWeights at h
  cases ws with
  | nil => left; simp at h; exact ⟨rfl, by rw [← h]⟩
  | cons w0 t =>
    right
    simp only [List.isEmpty_cons, Bool.false_eq_true, if_false] at h
    by_cases hneg : ∃ p ∈ enumL (w0 :: t), p.2.val < 0
    · left
      obtain ⟨p, _, hp⟩ := tryFoldE_neg _ (fun p => Err.mk "WeightTooLow" [RealLike.ofNatR p.1, p.2])
        (fun _ _ => rfl) (enumL (w0 :: t)) (0.0 : R) hneg
      rw [hp] at h
      obtain ⟨q, hq, hq'⟩ := hneg
      refine ⟨⟨q.2, enumL_mem_snd _ q hq, hq'⟩, ?_⟩
      simp only [Except.error.injEq] at h
      rw [← h]
    · right
      have hall : ∀ p ∈ enumL (w0 :: t), 0 ≤ p.2.val := fun p hp => not_lt.mp (fun h => hneg ⟨p, hp, h⟩)
      obtain ⟨s', h1, h2⟩ := tryFoldE_nonneg _ (fun p => Err.mk "WeightTooLow" [RealLike.ofNatR p.1, p.2])
        (fun _ _ => rfl) (enumL (w0 :: t)) (0.0 : R) hall
      rw [h1] at h
      rw [enumL_sum, R_zero_val, zero_add] at h2
      have hall' : ∀ w ∈ w0 :: t, 0 ≤ w.val := by
        intro w hw
        obtain ⟨p, hp, rfl⟩ := enumL_snd_mem _ w hw
        exact hall p hp
      by_cases hs : RealLike.le (RealLike.abs (s' - (1.0 : R))) (1E-12 : R) = true
      · simp only [hs, Bool.not_true, Bool.false_eq_true, if_false] at h; cases h
      · have hs' : RealLike.le (RealLike.abs (s' - (1.0 : R))) (1E-12 : R) = false := by simpa using hs
        simp only [hs', Bool.not_false, if_true, Except.error.injEq] at h
        rw [R.le_iff, R.abs_val, R.sub_val, R_one_val, R_tol_val, h2] at hs
        exact ⟨by simp, hall', not_le.mp hs, by rw [← h]⟩

/-- the weight invariant of a mixture: non-negative weights summing to one within `1e-12`, as many weights as
    components, at least one component -/
def W (m : Mix R Ob) : Prop :=
  (∀ w ∈ m.weights, 0 ≤ w.val) ∧ |(m.weights.map R.val).sum - 1| ≤ 1e-12 ∧
    m.weights.length = m.comps.length ∧ m.comps.length ≠ 0

-- @site Mixture::new
theorem W_iff (m : Mix R Ob) : W m ↔ ValidW m.weights ∧ m.weights.length = m.comps.length := by
  unfold W ValidW
  constructor
  · rintro ⟨h1, h2, h3, h4⟩
    refine ⟨⟨?_, h1, h2⟩, h3⟩
    intro h; rw [h] at h3; exact h4 h3.symm
  · rintro ⟨⟨h0, h1, h2⟩, h3⟩
    refine ⟨h1, h2, h3, ?_⟩
    rw [← h3]; exact fun h => h0 (List.length_eq_zero_iff.mp h)

-- @site Mixture::new
/-- `new` succeeds exactly on a valid weight vector with as many components, and returns the inputs unchanged -/
theorem new_ok_iff (ws : List R) (cs : List (Comp R Ob)) (m : Mix R Ob) :
    new ws cs = .ok m ↔ m = ⟨ws, cs⟩ ∧ cs.length = ws.length ∧ ValidW ws := by
  unfold new
  by_cases h1 : ws.isEmpty = true
  · have : ws = [] := List.isEmpty_iff.mp h1
    subst this
    simp [ValidW]
  rw [if_neg h1]
  by_cases h2 : cs.isEmpty = true
  · have : cs = [] := List.isEmpty_iff.mp h2
    subst this
    have : ws ≠ [] := fun h => h1 (List.isEmpty_iff.mpr h)
    simp [this, eq_comm]
  rw [if_neg h2]
  by_cases h3 : (cs.length != ws.length) = true
  · rw [if_pos h3]
    have : cs.length ≠ ws.length := by simpa using h3
    simp [this]
  rw [if_neg h3]
  have hl : cs.length = ws.length := by simpa using h3
  cases hv : validateWeights ws with
  | error e =>
    have : ¬ ValidW ws := fun h => by rw [(validateWeights_ok_iff ws).mpr h] at hv; cases hv
    simp [this]
  | ok u =>
    have : ValidW ws := (validateWeights_ok_iff ws).mp hv
    simp [this, hl, eq_comm]

-- @site Mixture::new
/-- `new` establishes the invariant or reports an error -/
theorem new_W (ws : List R) (cs : List (Comp R Ob)) :
    (∃ m, new ws cs = .ok m ∧ W m ∧ m.weights = ws ∧ m.comps = cs) ∨ (∃ e, new ws cs = .error e) := by
  cases h : new ws cs with
  | error e => exact Or.inr ⟨e, rfl⟩
  | ok m =>
    left
    obtain ⟨rfl, hl, hv⟩ := (new_ok_iff ws cs m).mp h
    exact ⟨_, rfl, (W_iff _).mpr ⟨hv, hl.symm⟩, rfl, rfl⟩

-- @site validate_weights
theorem validW_quarter : ValidW [(⟨0.25⟩ : R), ⟨0⟩, ⟨0.75⟩] := by
  refine ⟨by simp, ?_, by norm_num⟩
  intro w hw; simp at hw; rcases hw with rfl | rfl | rfl <;> norm_num

example : ∃ m, new [(⟨0.25⟩ : R), ⟨0⟩, ⟨0.75⟩] [exComp ⟨0⟩ ⟨1⟩, exComp ⟨1⟩ ⟨1⟩, exComp ⟨2⟩ ⟨3⟩] = .ok m ∧ W m := by
  refine ⟨_, (new_ok_iff _ _ _).mpr ⟨rfl, rfl, validW_quarter⟩, (W_iff _).mpr ⟨validW_quarter, rfl⟩⟩

-- @site Mixture::new
/-- the error ladder of `new`: `WeightsEmpty`, then `ComponentsEmpty`, then the length mismatch, then the
    verdict of `validate_weights` -/
theorem new_error (ws : List R) (cs : List (Comp R Ob)) (e : Err R) (h : new ws cs = .error e) :
    (ws = [] ∧ e.variant = "WeightsEmpty") ∨
    (ws ≠ [] ∧ cs = [] ∧ e.variant = "ComponentsEmpty") ∨
    (ws ≠ [] ∧ cs ≠ [] ∧ cs.length ≠ ws.length ∧ e.variant = "ComponentWeightLengthMismatch") ∨
    (cs.length = ws.length ∧ validateWeights ws = .error e) := by
  unfold new at h
  by_cases h1 : ws.isEmpty = true
  · rw [if_pos h1] at h
    simp only [Except.error.injEq] at h
    exact Or.inl ⟨List.isEmpty_iff.mp h1, by rw [← h]⟩
  rw [if_neg h1] at h
  have hws : ws ≠ [] := fun hh => h1 (List.isEmpty_iff.mpr hh)
  by_cases h2 : cs.isEmpty = true
  · rw [if_pos h2] at h
    simp only [Except.error.injEq] at h
    exact Or.inr (Or.inl ⟨hws, List.isEmpty_iff.mp h2, by rw [← h]⟩)
  rw [if_neg h2] at h
  have hcs : cs ≠ [] := fun hh => h2 (List.isEmpty_iff.mpr hh)
  by_cases h3 : (cs.length != ws.length) = true
  · rw [if_pos h3] at h
    simp only [Except.error.injEq] at h
    exact Or.inr (Or.inr (Or.inl ⟨hws, hcs, by simpa using h3, by rw [← h]⟩))
  rw [if_neg h3] at h
  have hl : cs.length = ws.length := by simpa using h3
  cases hv : validateWeights ws with
  | error e' =>
    rw [hv] at h
    simp only [Except.error.injEq] at h
    exact Or.inr (Or.inr (Or.inr ⟨hl, by rw [h]⟩))
  | ok u => rw [hv] at h; cases h

/-- three weights for two components: the length mismatch is reported before the weights are looked at -/
example : ∃ e, new [(⟨0.25⟩ : R), ⟨0⟩, ⟨0.75⟩] [exComp ⟨0⟩ ⟨1⟩, exComp ⟨1⟩ ⟨1⟩] = .error e ∧
    e.variant = "ComponentWeightLengthMismatch" := ⟨_, rfl, rfl⟩

-- @site Mixture::uniform
/-- `uniform` fails exactly on an empty component vector; otherwise the weights are `k` copies of `1/k`,
    which satisfy the invariant (in exact arithmetic `k·(1/k) = 1`; the code does not validate them) -/
theorem uniform_W (cs : List (Comp R Ob)) :
    (cs = [] ∧ ∃ e, uniform cs = .error e ∧ e.variant = "ComponentsEmpty") ∨
    (cs ≠ [] ∧ ∃ m, uniform cs = .ok m ∧ W m ∧ m.comps = cs ∧
      m.weights = List.replicate cs.length ((1.0 : R) / RealLike.ofNatR cs.length)) := by
  unfold uniform
  cases cs with
  | nil => left; exact ⟨rfl, _, rfl, rfl⟩
  | cons c t =>
    right
    refine ⟨by simp, _, rfl, ?_, rfl, rfl⟩
    have hk : ((t.length + 1 : ℕ) : ℝ) ≠ 0 := by positivity
    refine ⟨?_, ?_, by simp, by simp⟩
    · intro w hw
      rw [List.eq_of_mem_replicate hw, R.div_val, R_one_val, R.ofNatR_val]
      positivity
    · simp only [List.map_replicate, List.sum_replicate, R.div_val, R_one_val, R.ofNatR_val,
        List.length_cons, nsmul_eq_mul]
      rw [mul_one_div_cancel hk, sub_self, abs_zero]
      norm_num

example : ∃ m, uniform [exComp ⟨0⟩ ⟨1⟩, exComp ⟨1⟩ ⟨1⟩, exComp ⟨2⟩ ⟨3⟩] = .ok m ∧ W m := by
  rcases uniform_W [exComp ⟨0⟩ ⟨1⟩, exComp ⟨1⟩ ⟨1⟩, exComp ⟨2⟩ ⟨3⟩] with ⟨h, _⟩ | ⟨_, m, h1, h2, _⟩
  · cases h
  · exact ⟨m, h1, h2⟩

-- @site Mixture::set_weights
/-- `set_weights` succeeds exactly on a valid vector of the right length and then replaces the weights only -/
theorem setWeights_ok_iff (m : Mix R Ob) (ws : List R) (m' : Mix R Ob) :
    setWeights m ws = .ok m' ↔ m' = ⟨ws, m.comps⟩ ∧ ws.length = m.comps.length ∧ ValidW ws := by
  unfold setWeights
  by_cases h3 : (ws.length != m.comps.length) = true
  · rw [if_pos h3]
    have : ws.length ≠ m.comps.length := by simpa using h3
    simp [this]
  rw [if_neg h3]
  have hl : ws.length = m.comps.length := by simpa using h3
  cases hv : validateWeights ws with
  | error e =>
    have : ¬ ValidW ws := fun h => by rw [(validateWeights_ok_iff ws).mpr h] at hv; cases hv
    simp [this]
  | ok u =>
    have : ValidW ws := (validateWeights_ok_iff ws).mp hv
    simp [this, hl, eq_comm]

-- @site Mixture::set_weights
/-- `set_weights` preserves the invariant, or reports an error (and then there is no new state: the Rust code
    returns before touching `self`, mixture.rs:301-308) -/
theorem setWeights_W (m : Mix R Ob) (ws : List R) :
    (∃ m', setWeights m ws = .ok m' ∧ W m' ∧ m'.weights = ws ∧ m'.comps = m.comps) ∨
    (∃ e, setWeights m ws = .error e ∧
      (e.variant = "ComponentWeightLengthMismatch" ∨ validateWeights ws = .error e)) := by
  cases h : setWeights m ws with
  | ok m' =>
    left
    obtain ⟨rfl, hl, hv⟩ := (setWeights_ok_iff m ws m').mp h
    exact ⟨_, rfl, (W_iff _).mpr ⟨hv, hl⟩, rfl, rfl⟩
  | error e =>
    right
    refine ⟨e, rfl, ?_⟩
    unfold setWeights at h
    by_cases h3 : (ws.length != m.comps.length) = true
    · rw [if_pos h3] at h
      simp only [Except.error.injEq] at h
      left; rw [← h]
    · rw [if_neg h3] at h
      cases hv : validateWeights ws with
      | error e' => rw [hv] at h; simp only [Except.error.injEq] at h; right; rw [h]
      | ok u => rw [hv] at h; cases h

example : ∃ m', setWeights ⟨[(⟨1⟩ : R), ⟨0⟩, ⟨0⟩], [exComp ⟨0⟩ ⟨1⟩, exComp ⟨1⟩ ⟨1⟩, exComp ⟨2⟩ ⟨3⟩]⟩
    [⟨0.25⟩, ⟨0⟩, ⟨0.75⟩] = .ok m' ∧ W m' :=
  ⟨_, (setWeights_ok_iff _ _ _).mpr ⟨rfl, rfl, validW_quarter⟩, (W_iff _).mpr ⟨validW_quarter, rfl⟩⟩

-- @site Mixture::set_components
/-- `set_components` succeeds exactly when the number of components is unchanged; the weights are untouched,
    hence the invariant is preserved -/
theorem setComponents_ok_iff {α : Type} [RealLike α] (m : Mix α Ob) (cs : List (Comp α Ob)) (m' : Mix α Ob) :
    setComponents m cs = .ok m' ↔ m' = ⟨m.weights, cs⟩ ∧ cs.length = m.comps.length := by
  unfold setComponents
  by_cases h3 : (cs.length != m.comps.length) = true
  · rw [if_pos h3]
    have : cs.length ≠ m.comps.length := by simpa using h3
    simp [this]
  · rw [if_neg h3]
    have hl : cs.length = m.comps.length := by simpa using h3
    simp [hl, eq_comm]

-- @site Mixture::set_components
theorem setComponents_W (m : Mix R Ob) (hm : W m) (cs : List (Comp R Ob)) :
    (∃ m', setComponents m cs = .ok m' ∧ W m' ∧ m'.weights = m.weights ∧ m'.comps = cs) ∨
    (∃ e, setComponents m cs = .error e ∧ e.variant = "ComponentWeightLengthMismatch" ∧
      cs.length ≠ m.comps.length) := by
  by_cases hl : cs.length = m.comps.length
  · left
    refine ⟨⟨m.weights, cs⟩, (setComponents_ok_iff m cs _).mpr ⟨rfl, hl⟩, ?_, rfl, rfl⟩
    obtain ⟨h1, h2, h3, h4⟩ := hm
    exact ⟨h1, h2, by simp [h3, hl], by simpa [hl] using h4⟩
  · right
    unfold setComponents
    have : (cs.length != m.comps.length) = true := by simpa using hl
    rw [if_pos this]
    exact ⟨_, rfl, rfl, hl⟩

example : ∃ m', setComponents exMix [exComp ⟨5⟩ ⟨1⟩, exCompNoMean] = .ok m' ∧ m'.weights = exMix.weights :=
  ⟨_, (setComponents_ok_iff _ _ _).mpr ⟨rfl, rfl⟩, rfl⟩
example : ∃ e, setComponents exMix [exComp ⟨5⟩ ⟨1⟩] = .error e ∧ e.variant = "ComponentWeightLengthMismatch" :=
  ⟨_, rfl, rfl⟩

/-! ## (d) conversion to / from `(weight, component)` pairs -/

-- @site Mixture::try_from
/-- `try_from` is `new` on the unzipped vectors: it establishes the invariant or reports an error -/
theorem tryFromPairs_W (ps : List (R × Comp R Ob)) :
    (∃ m, tryFromPairs ps = .ok m ∧ W m) ∨ (∃ e, tryFromPairs ps = .error e) := by
  unfold tryFromPairs
  rcases new_W (ps.map (fun p => p.1)) (ps.map (fun p => p.2)) with ⟨m, h, hw, _⟩ | h
  · exact Or.inl ⟨m, h, hw⟩
  · exact Or.inr h

-- @site Mixture::try_from
/-- pairs → mixture → pairs is the identity (any carrier) -/
theorem toPairs_tryFromPairs {α : Type} [RealLike α] (ps : List (α × Comp α Ob)) (m : Mix α Ob)
    (h : tryFromPairs ps = .ok m) : toPairs m = ps := by
  unfold tryFromPairs new at h
  have : m = ⟨ps.map (fun p => p.1), ps.map (fun p => p.2)⟩ := by
    split_ifs at h
    cases hv : validateWeights (ps.map (fun p => p.1)) with
    | error e => rw [hv] at h; cases h
    | ok u => rw [hv] at h; simp only [Except.ok.injEq] at h; exact h.symm
  subst this
  show (ps.map (fun p => p.1)).zip (ps.map (fun p => p.2)) = ps
  exact (List.zip_of_prod rfl rfl).symm

-- @site Mixture::from
/-- mixture → pairs → mixture is the identity on mixtures satisfying the invariant -/
theorem tryFromPairs_toPairs (m : Mix R Ob) (hm : W m) : tryFromPairs (toPairs m) = .ok m := by
  obtain ⟨hv, hl⟩ := (W_iff m).mp hm
  unfold tryFromPairs toPairs
  have e1 : (m.weights.zip m.comps).map (fun p => p.1) = m.weights := List.map_fst_zip (by omega)
  have e2 : (m.weights.zip m.comps).map (fun p => p.2) = m.comps := List.map_snd_zip (by omega)
  rw [e1, e2]
  exact (new_ok_iff _ _ _).mpr ⟨rfl, hl.symm, hv⟩

-- @site Mixture::new
theorem exMix_W : W exMix := by
  refine ⟨?_, ?_, rfl, by simp [exMix]⟩
  · intro w hw; simp [exMix] at hw; subst hw; norm_num
  · norm_num [exMix]

example : tryFromPairs (toPairs exMix) = .ok exMix := tryFromPairs_toPairs _ exMix_W
example : toPairs exMix = [(⟨1/2⟩, exComp ⟨1⟩ ⟨9⟩), (⟨1/2⟩, exComp ⟨3⟩ ⟨1⟩)] :=
  toPairs_tryFromPairs _ _ (tryFromPairs_toPairs _ exMix_W)

example : toPairs (⟨[(⟨0.25⟩ : R), ⟨0.75⟩], [exComp ⟨0⟩ ⟨1⟩, exComp ⟨1⟩ ⟨1⟩]⟩ : Mix R Unit)
    = [(⟨0.25⟩, exComp ⟨0⟩ ⟨1⟩), (⟨0.75⟩, exComp ⟨1⟩ ⟨1⟩)] := rfl

/-! ## (e) `combine` -/

/-- an admissible input of `combine`: a mixture satisfying the invariant, or the empty mixture -/
def ValidOrEmpty (m : Mix R Ob) : Prop := W m ∨ (m.weights = [] ∧ m.comps = [])

-- @site Mixture::combine
/-- all inputs without components: the result is the empty mixture (no division by zero) -/
theorem combine_all_empty {α : Type} [RealLike α] (ms : List (Mix α Ob)) (h : ∀ m ∈ ms, m.comps = []) :
    combine ms = ⟨[], []⟩ := by
  rw [combine_eq, if_pos ((cnt_eq_zero_iff ms).mpr h)]

example : combine [(⟨[], []⟩ : Mix R Unit), ⟨[], []⟩] = ⟨[], []⟩ :=
  combine_all_empty _ (by intro m hm; simp at hm; rw [hm])

-- @site Mixture::combine
/-- the weights of the result: every input weight divided by the number `n` of NON-EMPTY inputs, in order;
    the components in order -/
theorem combine_nonempty {α : Type} [RealLike α] (ms : List (Mix α Ob)) (h : ∃ m ∈ ms, m.comps ≠ []) :
    combine ms = ⟨(allPairs ms).map (fun p => p.1 / RealLike.ofNatR (cnt ms)), (allPairs ms).map (fun p => p.2)⟩ := by
  rw [combine_eq, if_neg]
  rw [cnt_eq_zero_iff]
  obtain ⟨m, hm, hne⟩ := h
  exact fun hall => hne (hall m hm)

/-- one valid and one empty input: divided by `n = 1`, not by the number of inputs `2` (the past bug) -/
example : ((combine [exMix, ⟨[], []⟩]).weights.map R.val) = [1/2, 1/2] := by
  rw [combine_nonempty _ ⟨exMix, by simp, by simp [exMix]⟩]
  simp [allPairs, cnt, k, exMix]

-- @site Mixture::combine
/-- valid or empty inputs, at least one non-empty: the result satisfies the invariant -/
theorem combine_W (ms : List (Mix R Ob)) (h : ∀ m ∈ ms, ValidOrEmpty m) (hne : ∃ m ∈ ms, m.comps ≠ []) :
    W (combine ms) := by
  rw [combine_nonempty ms hne]
  obtain ⟨hnn, hsum⟩ := allPairs_bound ms h
  have hc : cnt ms ≠ 0 := by
    rw [Ne, cnt_eq_zero_iff]
    obtain ⟨m, hm, hne'⟩ := hne
    exact fun hall => hne' (hall m hm)
  have hcpos : (0 : ℝ) < (cnt ms : ℝ) := by exact_mod_cast Nat.pos_of_ne_zero hc
  refine ⟨?_, ?_, by simp, ?_⟩
  · intro w hw
    obtain ⟨p, hp, rfl⟩ := List.mem_map.mp hw
    rw [R.div_val, R.ofNatR_val]
    exact div_nonneg (hnn p hp) hcpos.le
  · have e : ((allPairs ms).map (fun p => p.1 / (RealLike.ofNatR (cnt ms) : R))).map R.val
        = ((allPairs ms).map (fun p => p.1.val)).map (fun a => a / (cnt ms : ℝ)) := by
      simp only [List.map_map]
      apply List.map_congr_left
      intro p _
      simp [R.div_val, R.ofNatR_val]
    rw [e, sum_map_div]
    have : ((allPairs ms).map (fun p => p.1.val)).sum / (cnt ms : ℝ) - 1
        = (((allPairs ms).map (fun p => p.1.val)).sum - (cnt ms : ℝ)) / (cnt ms : ℝ) := by
      field_simp
    rw [this, abs_div, abs_of_pos hcpos, div_le_iff₀ hcpos]
    linarith
  · obtain ⟨m, hm, hne'⟩ := hne
    rcases h m hm with hw | ⟨_, he⟩
    · obtain ⟨_, _, h3, h4⟩ := hw
      have hz : m.weights.zip m.comps ≠ [] := by
        intro hz
        have := congrArg List.length hz
        simp only [List.length_zip, List.length_nil] at this
        omega
      obtain ⟨p, hp⟩ := List.exists_mem_of_ne_nil _ hz
      have : p ∈ allPairs ms := List.mem_flatMap.mpr ⟨m, hm, hp⟩
      simp only [List.length_map, ne_eq, List.length_eq_zero_iff]
      exact List.ne_nil_of_mem this
    · exact absurd he hne'

example : W (combine [(⟨[(⟨0.25⟩ : R), ⟨0⟩, ⟨0.75⟩], [exComp ⟨0⟩ ⟨1⟩, exComp ⟨1⟩ ⟨1⟩, exComp ⟨2⟩ ⟨3⟩]⟩ : Mix R Unit),
    ⟨[], []⟩, ⟨[⟨1⟩], [exComp ⟨5⟩ ⟨1⟩]⟩]) := by
  apply combine_W
  · intro m hm
    simp only [List.mem_cons, List.not_mem_nil, or_false] at hm
    rcases hm with rfl | rfl | rfl
    · exact Or.inl ((W_iff _).mpr ⟨validW_quarter, rfl⟩)
    · exact Or.inr ⟨rfl, rfl⟩
    · refine Or.inl ⟨?_, ?_, rfl, by simp⟩
      · intro w hw; simp at hw; subst hw; norm_num
      · norm_num
  · exact ⟨⟨[⟨1⟩], [exComp ⟨5⟩ ⟨1⟩]⟩, by simp, by simp⟩

/-! ## (f) `ln_f` over `X`: zero weights, `-inf` log-densities, no underflow, never NaN -/

/-- a two-point component family over `X` for the examples: log-density `l` everywhere -/
noncomputable def xComp (l : X) : Comp X Unit :=
  { lnF := fun _ => l, f := fun _ => RealLike.exp l, cdf := fun _ => fin 0, mean := none, variance := none,
    supports := fun _ => true }

/-- `Σ wₖ fₖ(x)` of a mixture over `X` (finite weights, finite densities), as a real number -/
noncomputable def mixSum (m : Mix X Ob) (x : Ob) : ℝ :=
  ((pairs m).map (fun p => p.1.toReal * (p.2.f x).toReal)).sum

/-- hypotheses of the `ln_f` theorems at the point `x`: weights finite and non-negative (zero allowed),
    component log-densities finite or `-inf`, and the C02 consistency `fₖ = exp ∘ ln fₖ` -/
structure LnFHyp (m : Mix X Ob) (x : Ob) : Prop where
  w : ∀ w ∈ m.weights, NonnegFin w
  l : ∀ c ∈ m.comps, IsFinOrNinf (c.lnF x)
  c : ∀ c ∈ m.comps, c.f x = RealLike.exp (c.lnF x)

-- @site Mixture::ln_f
theorem xHyp : LnFHyp (⟨[fin 0, fin (1/2), fin (1/2)], [xComp (fin 3), xComp ninf, xComp (fin (-100000))]⟩ : Mix X Unit) () := by
  refine ⟨?_, ?_, ?_⟩
  · intro w hw; simp at hw
    rcases hw with rfl | rfl <;> exact ⟨_, rfl, by norm_num⟩
  · intro c hc; simp at hc
    rcases hc with rfl | rfl | rfl <;> simp [xComp]
  · intro c hc; simp at hc
    rcases hc with rfl | rfl | rfl <;> rfl

-- @site Mixture::ln_f
theorem mixSum_eq_xsum (m : Mix X Ob) (x : Ob) (h : LnFHyp m x) : mixSum m x = xsum (pairs m) x := by
  unfold mixSum xsum
  congr 1
  apply List.map_congr_left
  intro p hp
  rw [h.c p.2 (List.of_mem_zip hp).2]

-- @site Mixture::ln_f
/-- `ln_f(x) = ln Σ wₖ fₖ(x)` EXACTLY: `-inf` when the sum is zero (every term has a zero weight or a `-inf`
    log-density), the finite logarithm otherwise — whatever the magnitudes (no underflow of the terms: the
    sum is formed in the log domain by `logsumexp`) -/
theorem lnF_spec (m : Mix X Ob) (x : Ob) (h : LnFHyp m x) :
    lnF m x = if mixSum m x = 0 then ninf else fin (Real.log (mixSum m x)) := by
  obtain ⟨h1, h2, h3⟩ := xterms_spec (pairs m) x
    (fun p hp => h.w p.1 (List.of_mem_zip hp).1) (fun p hp => h.l p.2 (List.of_mem_zip hp).2)
  unfold lnF
  rw [lnTerms_eq, C13.logsumexp_spec _ h1, mixSum_eq_xsum m x h, ← h2]
  by_cases he : fins (xterms (pairs m) x) = []
  · simp [he]
  · rw [if_neg he, if_neg (sum_exp_pos _ he).ne']

-- @site Mixture::ln_f
/-- `ln_f(x) = -inf` iff every term has weight zero or log-density `-inf` -/
theorem lnF_eq_ninf_iff (m : Mix X Ob) (x : Ob) (h : LnFHyp m x) :
    lnF m x = ninf ↔ ∀ p ∈ pairs m, p.1 = fin 0 ∨ p.2.lnF x = ninf := by
  obtain ⟨h1, _, h3⟩ := xterms_spec (pairs m) x
    (fun p hp => h.w p.1 (List.of_mem_zip hp).1) (fun p hp => h.l p.2 (List.of_mem_zip hp).2)
  unfold lnF
  rw [lnTerms_eq, C13.logsumexp_spec _ h1, ← h3]
  split_ifs with he <;> simp [he]

example : lnF (⟨[fin 0, fin 1], [xComp (fin 3), xComp ninf]⟩ : Mix X Unit) () = ninf := by
  have hyp : LnFHyp (⟨[fin 0, fin 1], [xComp (fin 3), xComp ninf]⟩ : Mix X Unit) () := by
    refine ⟨?_, ?_, ?_⟩
    · intro w hw; simp at hw
      rcases hw with rfl | rfl <;> exact ⟨_, rfl, by norm_num⟩
    · intro c hc; simp at hc
      rcases hc with rfl | rfl <;> simp [xComp]
    · intro c hc; simp at hc
      rcases hc with rfl | rfl <;> rfl
  rw [lnF_eq_ninf_iff _ _ hyp]
  intro p hp
  simp [pairs] at hp
  rcases hp with rfl | rfl
  · left; rfl
  · right; rfl

-- @site Mixture::ln_f
/-- never NaN, never `+inf` -/
theorem lnF_ne_nan (m : Mix X Ob) (x : Ob) (h : LnFHyp m x) : lnF m x ≠ nan ∧ lnF m x ≠ pinf := by
  rw [lnF_spec m x h]; split_ifs <;> simp

example : lnF (⟨[fin 0, fin (1/2), fin (1/2)], [xComp (fin 3), xComp ninf, xComp (fin (-100000))]⟩ : Mix X Unit) ()
    ≠ nan := (lnF_ne_nan _ _ xHyp).1

-- @site Mixture::f
/-- over `X` the density is the finite number `Σ wₖ fₖ(x)` … -/
theorem f_X (m : Mix X Ob) (x : Ob) (h : LnFHyp m x) : f m x = fin (mixSum m x) := by
  unfold f
  have h0 : (0.0 : X) = fin 0 := by rw [X.sci_eq]; norm_num
  rw [h0, fold_mulAdd_fin (fun c => c.f x) _ 0
    (fun p hp => by obtain ⟨a, ha, _⟩ := h.w p.1 (List.of_mem_zip hp).1; exact ⟨a, ha⟩)
    (fun p hp => by
      have hc := h.c p.2 (List.of_mem_zip hp).2
      rcases (isFinOrNinf_iff _).mp (h.l p.2 (List.of_mem_zip hp).2) with hb | ⟨b, hb⟩
      · exact ⟨0, by rw [hc, hb]; rfl⟩
      · exact ⟨Real.exp b, by rw [hc, hb]; rfl⟩), zero_add]
  rfl

-- @site Mixture::ln_f
theorem mixSum_nonneg (m : Mix X Ob) (x : Ob) (h : LnFHyp m x) : 0 ≤ mixSum m x := by
  rw [mixSum_eq_xsum m x h]
  apply List.sum_nonneg
  intro y hy
  obtain ⟨p, hp, rfl⟩ := List.mem_map.mp hy
  obtain ⟨a, ha, ha0⟩ := h.w p.1 (List.of_mem_zip hp).1
  rw [ha, X.toReal_fin]
  rcases (isFinOrNinf_iff _).mp (h.l p.2 (List.of_mem_zip hp).2) with hb | ⟨b, hb⟩
  · rw [hb]; simp
  · rw [hb]; simpa using mul_nonneg ha0 (Real.exp_pos b).le

-- @site Mixture::ln_f
/-- … and `ln_f = ln ∘ f` exactly (the C02 consistency of the mixture itself, in the `X` model where `f` does
    not underflow) -/
theorem lnF_eq_ln_f (m : Mix X Ob) (x : Ob) (h : LnFHyp m x) : lnF m x = RealLike.ln (f m x) := by
  rw [lnF_spec m x h, f_X m x h, X.ln_fin]
  have := mixSum_nonneg m x h
  split_ifs with h1 h2
  · rfl
  · rfl
  · exact absurd (lt_of_le_of_ne this (Ne.symm h1)) h2

example : lnF (⟨[fin 0, fin (1/2), fin (1/2)], [xComp (fin 3), xComp ninf, xComp (fin (-100000))]⟩ : Mix X Unit) ()
    = RealLike.ln (f ⟨[fin 0, fin (1/2), fin (1/2)], [xComp (fin 3), xComp ninf, xComp (fin (-100000))]⟩ ()) :=
  lnF_eq_ln_f _ _ xHyp

-- @site Mixture::ln_pdf
/-- in the `X` model (no underflow) `ln_pdf = ln(pdf)` (= `ln_pmf`) agrees with `ln_f` wherever every component
    supports `x`.  In binary64 it does NOT: `pdf` underflows to `0` in the tails and `ln_pdf` returns `-inf` where
    `ln_f` is finite (witness in props/C11_notes.md) — the log-density "without underflow" is `ln_f` only. -/
theorem lnPdf_X (m : Mix X Ob) (x : Ob) (h : LnFHyp m x) (hs : ∀ c ∈ m.comps, c.supports x = true) :
    lnPdf m x = lnF m x := by
  rw [lnF_eq_ln_f m x h, f_X m x h]
  unfold lnPdf pdf
  have h0 : (0.0 : X) = fin 0 := by rw [X.sci_eq]; norm_num
  rw [h0, fold_pdf_fin (fun c => c.supports x) (fun c => c.f x) _ 0
    (fun p hp => hs p.2 (List.of_mem_zip hp).2)
    (fun p hp => by obtain ⟨a, ha, _⟩ := h.w p.1 (List.of_mem_zip hp).1; exact ⟨a, ha⟩)
    (fun p hp => by
      have hc := h.c p.2 (List.of_mem_zip hp).2
      rcases (isFinOrNinf_iff _).mp (h.l p.2 (List.of_mem_zip hp).2) with hb | ⟨b, hb⟩
      · exact ⟨0, by rw [hc, hb]; rfl⟩
      · exact ⟨Real.exp b, by rw [hc, hb]; rfl⟩), zero_add]
  rfl

example : lnPdf (⟨[fin 0, fin (1/2), fin (1/2)], [xComp (fin 3), xComp ninf, xComp (fin (-100000))]⟩ : Mix X Unit) ()
    = fin (Real.log (1/2) - 100000) := by
  rw [lnPdf_X _ _ xHyp (by intro c hc; simp at hc; rcases hc with rfl | rfl | rfl <;> rfl), lnF_spec _ _ xHyp]
  have : mixSum (⟨[fin 0, fin (1/2), fin (1/2)], [xComp (fin 3), xComp ninf, xComp (fin (-100000))]⟩ : Mix X Unit) ()
      = 1/2 * Real.exp (-100000) := by
    simp [mixSum, pairs, xComp]
  rw [this, if_neg (by positivity), Real.log_mul (by norm_num) (Real.exp_pos _).ne', Real.log_exp]
  rfl

/-- `Σ_{k : cₖ supports x} wₖ fₖ(x)` over `X` -/
noncomputable def suppSum (m : Mix X Ob) (x : Ob) : ℝ :=
  ((pairs m).map (fun p => if p.2.supports x then p.1.toReal * (p.2.f x).toReal else 0)).sum

-- @site Mixture::pdf
/-- over `X`, with components of DIFFERENT supports: `pdf(x) = pmf(x) = Σ_{k : cₖ supports x} wₖ fₖ(x)`; a component
    that does not support `x` contributes nothing, whatever its `f` is there (positive for a Pareto below its scale,
    NaN / an out-of-bounds panic for a Categorical with fewer categories): only the supported components need a
    finite density -/
theorem pdf_X_supp (m : Mix X Ob) (x : Ob) (hw : ∀ w ∈ m.weights, NonnegFin w)
    (hf : ∀ c ∈ m.comps, c.supports x = true → ∃ r, c.f x = fin r) :
    pdf m x = fin (suppSum m x) := by
  unfold pdf
  have h0 : (0.0 : X) = fin 0 := by rw [X.sci_eq]; norm_num
  rw [h0, fold_pdf_supp (fun c => c.supports x) (fun c => c.f x) _ 0
    (fun p hp => by obtain ⟨a, ha, _⟩ := hw p.1 (List.of_mem_zip hp).1; exact ⟨a, ha⟩)
    (fun p hp hs => hf p.2 (List.of_mem_zip hp).2 hs), zero_add]
  rfl

/-- two components with different supports at a point supported by the second only: the first one's raw density
    (here 7) is ignored -/
example : pdf (⟨[fin (1/2), fin (1/2)],
      [{ lnF := fun _ => fin (Real.log 7), f := fun _ => fin 7, cdf := fun _ => fin 0, mean := none, variance := none,
         supports := fun _ => false },
       { lnF := fun _ => fin 0, f := fun _ => fin 1, cdf := fun _ => fin 0, mean := none, variance := none,
         supports := fun _ => true }]⟩ : Mix X Unit) () = fin (1/2) := by
  rw [pdf_X_supp _ _ (by intro w hw; simp at hw; subst hw; exact ⟨_, rfl, by norm_num⟩)
    (by intro c hc hs; simp at hc; rcases hc with rfl | rfl; · simp at hs
        · exact ⟨1, rfl⟩)]
  simp [suppSum, pairs]

-- @site Mixture::ln_pdf
/-- `ln_pdf` / `ln_pmf` agree with `ln_f` at every point where the components that do not support `x` have
    log-density `-inf` there (true for Uniform, Categorical-in-range, Gaussian …; NOT for Pareto below its scale,
    where `ln_f` of the mixture includes the raw density and `ln_pdf` is the log-density proper) -/
theorem lnPdf_X_of_support (m : Mix X Ob) (x : Ob) (h : LnFHyp m x)
    (hs : ∀ c ∈ m.comps, c.supports x = false → c.lnF x = ninf) : lnPdf m x = lnF m x := by
  have hfin : ∀ c ∈ m.comps, ∃ r, c.f x = fin r := by
    intro c hc
    rcases (isFinOrNinf_iff _).mp (h.l c hc) with hb | ⟨b, hb⟩
    · exact ⟨0, by rw [h.c c hc, hb]; rfl⟩
    · exact ⟨Real.exp b, by rw [h.c c hc, hb]; rfl⟩
  have e : suppSum m x = mixSum m x := by
    unfold suppSum mixSum
    congr 1
    apply List.map_congr_left
    intro p hp
    by_cases hsp : p.2.supports x = true
    · simp [hsp]
    · have hc := (List.of_mem_zip hp).2
      have : p.2.f x = fin 0 := by rw [h.c p.2 hc, hs p.2 hc (by simpa using hsp)]; rfl
      simp [hsp, this]
  unfold lnPdf
  rw [pdf_X_supp m x h.w (fun c hc _ => hfin c hc), e, lnF_eq_ln_f m x h, f_X m x h]

example : lnPdf (⟨[fin (1/2), fin (1/2)],
      [{ lnF := fun _ => ninf, f := fun _ => fin 0, cdf := fun _ => fin 0, mean := none, variance := none,
         supports := fun _ => false },
       { lnF := fun _ => fin 0, f := fun _ => fin 1, cdf := fun _ => fin 0, mean := none, variance := none,
         supports := fun _ => true }]⟩ : Mix X Unit) () =
    lnF ⟨[fin (1/2), fin (1/2)],
      [{ lnF := fun _ => ninf, f := fun _ => fin 0, cdf := fun _ => fin 0, mean := none, variance := none,
         supports := fun _ => false },
       { lnF := fun _ => fin 0, f := fun _ => fin 1, cdf := fun _ => fin 0, mean := none, variance := none,
         supports := fun _ => true }]⟩ () := by
  apply lnPdf_X_of_support
  · refine ⟨?_, ?_, ?_⟩
    · intro w hw; simp at hw; subst hw; exact ⟨_, rfl, by norm_num⟩
    · intro c hc; simp at hc; rcases hc with rfl | rfl <;> simp
    · intro c hc; simp at hc; rcases hc with rfl | rfl <;> simp
  · intro c hc hs; simp at hc; rcases hc with rfl | rfl
    · rfl
    · simp at hs

/-- a Gaussian component over `X` satisfies the consistency hypothesis by construction … -/
example (g : Gen.Gaussian X) (x : X) : (gaussComp g).f x = RealLike.exp ((gaussComp g).lnF x) := rfl
/-- … and so do the Poisson component; Bernoulli defines `ln_f = ln ∘ f` instead -/
example (g : Gen.Poisson X) (x : Nat) : (poisComp g).f x = RealLike.exp ((poisComp g).lnF x) := rfl

/-- zero weight on the only bulk component, a `-inf` component and a component 1e5 deep in the tail:
    `ln_f = ln(1/2) - 100000`, finite, although `f` itself is `e^{-100000}/2` (0 in binary64) -/
example : lnF (⟨[fin 0, fin (1/2), fin (1/2)], [xComp (fin 3), xComp ninf, xComp (fin (-100000))]⟩ : Mix X Unit) ()
    = fin (Real.log (1/2) - 100000) := by
  rw [lnF_spec _ _ xHyp]
  have : mixSum (⟨[fin 0, fin (1/2), fin (1/2)], [xComp (fin 3), xComp ninf, xComp (fin (-100000))]⟩ : Mix X Unit) ()
      = 1/2 * Real.exp (-100000) := by
    simp [mixSum, pairs, xComp]
  rw [this, if_neg (by positivity), Real.log_mul (by norm_num) (Real.exp_pos _).ne', Real.log_exp]
  rfl

-- @site Mixture::ln_f
/-- one component with weight 1: `ln_f` is the component's -/
theorem single_lnF (c : Comp X Ob) (x : Ob) (h : IsFinOrNinf (c.lnF x)) :
    lnF ⟨[fin 1], [c]⟩ x = c.lnF x := by
  unfold lnF lnTerms lnWeights
  rcases (isFinOrNinf_iff _).mp h with hb | ⟨b, hb⟩
  · simp only [List.map_cons, List.map_nil, List.zip_cons_cons, List.zip_nil_right, hb]
    rw [C13.logsumexp_all_ninf _ (by simp)]
  · simp only [List.map_cons, List.map_nil, List.zip_cons_cons, List.zip_nil_right, hb]
    rw [X.ln_fin_pos one_pos, Real.log_one, X.fin_add_fin, zero_add, C13.logsumexp_singleton]

example : lnF (⟨[fin 1], [xComp (fin (-7))]⟩ : Mix X Unit) () = fin (-7) := single_lnF _ _ (by simp [xComp])

/-! ## (g) `validate_weights` over `X`: NaN and infinite weights are rejected -/

-- @site validate_weights
/-- on EVERY weight vector over `X` (NaN, `±inf` included) `validate_weights` accepts exactly the non-empty vectors
    of finite non-negative weights whose sum is within `1e-12` of one.  (Before the repair "Mixture weight
    validation rejects NaN weights" the test was `(sum - 1.0).abs() > 1E-12`, false on a NaN sum, and a NaN weight
    was accepted; the test is now `!((sum - 1.0).abs() <= 1E-12)`, mixture.rs:121.) -/
theorem validateWeights_X_ok_iff (ws : List X) :
    validateWeights ws = .ok () ↔
      ws ≠ [] ∧ (∀ w ∈ ws, NonnegFin w) ∧ |(ws.map X.toReal).sum - 1| ≤ 1e-12 := by
  rw [validateWeights_unfold]
  cases ws with
  | nil => simp
  | cons w0 t =>
    simp only [List.isEmpty_cons, Bool.false_eq_true, if_false, ne_eq, reduceCtorEq, not_false_eq_true,
      true_and]
    constructor
    · intro h
      cases hf : tryFoldE vwStep (0.0 : X) (enumL (w0 :: t)) with
      | error e => rw [hf] at h; cases h
      | ok s' =>
        rw [hf] at h
        obtain ⟨_, h2⟩ := vwFold_ok_any _ (0.0 : X) s' (Or.inr ⟨0, X_zero⟩) hf
        have hall : ∀ p ∈ enumL (w0 :: t), NonnegFin p.2 := by
          rcases h2 ⟨0, X_zero⟩ with hall | hbad
          · exact hall
          · exfalso
            rcases hbad with rfl | rfl <;> simp [X_one] at h
        have hall' : ∀ w ∈ w0 :: t, NonnegFin w := by
          intro w hw
          obtain ⟨p, hp, rfl⟩ := enumL_snd_mem _ w hw
          exact hall p hp
        refine ⟨hall', ?_⟩
        rw [X_zero, vwFold_fin _ 0 hall, enumL_sum_X, zero_add] at hf
        simp only [Except.ok.injEq] at hf
        rw [← hf, X_one] at h
        by_contra hc
        have : RealLike.le (RealLike.abs (fin (List.map X.toReal (w0 :: t)).sum - fin 1)) (1E-12 : X) = false := by
          simp only [X.fin_sub_fin, X.abs_fin, X.sci_eq, X.le_fin]
          simpa using hc
        simp only [this, Bool.not_false, reduceIte, reduceCtorEq] at h
    · rintro ⟨hall, hsum⟩
      have hall' : ∀ p ∈ enumL (w0 :: t), NonnegFin p.2 := fun p hp => hall p.2 (enumL_mem_snd _ p hp)
      rw [X_zero, vwFold_fin _ 0 hall', enumL_sum_X, zero_add, X_one]
      have : RealLike.le (RealLike.abs (fin (List.map X.toReal (w0 :: t)).sum - fin 1)) (1E-12 : X) = true := by
        simp only [X.fin_sub_fin, X.abs_fin, X.sci_eq, X.le_fin]
        simpa using hsum
      simp only [this, Bool.not_true, Bool.false_eq_true, if_false]

example : validateWeights [fin (1/4), fin 0, fin (3/4)] = .ok () := by
  rw [validateWeights_X_ok_iff]
  refine ⟨by simp, ?_, by norm_num⟩
  intro w hw; simp at hw
  rcases hw with rfl | rfl | rfl <;> exact ⟨_, rfl, by norm_num⟩

-- @site validate_weights
/-- a NaN weight (anywhere, whatever the other weights) is rejected: `new`, `set_weights`, `try_from` report an
    error — `WeightTooLow` if a negative weight precedes the point where the fold stops, else
    `WeightsDoNotSumToOne` -/
theorem validateWeights_nan_rejected (ws : List X) (h : X.nan ∈ ws) : ∃ e, validateWeights ws = .error e := by
  cases hv : validateWeights ws with
  | error e => exact ⟨e, rfl⟩
  | ok u =>
    exfalso
    obtain ⟨_, hall, _⟩ := (validateWeights_X_ok_iff ws).mp hv
    obtain ⟨a, ha, _⟩ := hall X.nan h
    cases ha

example : ∃ e, validateWeights [fin (1/2), X.nan] = .error e := validateWeights_nan_rejected _ (by simp)

-- @site validate_weights
/-- the variant reported for the former witnesses `[NaN]`, `[0.5, NaN]` -/
theorem validateWeights_nan_variant :
    (∃ e, validateWeights [X.nan] = .error e ∧ e.variant = "WeightsDoNotSumToOne") ∧
    (∃ e, validateWeights [fin (1/2), X.nan] = .error e ∧ e.variant = "WeightsDoNotSumToOne") := by
  constructor
  · refine ⟨Err.mk "WeightsDoNotSumToOne" [X.nan], ?_, rfl⟩
    simp [validateWeights, enumL, tryFoldE]
  · refine ⟨Err.mk "WeightsDoNotSumToOne" [X.nan], ?_, rfl⟩
    norm_num [validateWeights, enumL, tryFoldE, List.range_succ, real00]

-- @site Mixture::new
/-- consequently `new` rejects NaN weights: a mixture built by `new` has finite non-negative weights -/
theorem new_X_ok (ws : List X) (cs : List (Comp X Ob)) (m : Mix X Ob) (h : new ws cs = .ok m) :
    m = ⟨ws, cs⟩ ∧ cs.length = ws.length ∧ (∀ w ∈ ws, NonnegFin w) ∧ |(ws.map X.toReal).sum - 1| ≤ 1e-12 := by
  unfold new at h
  split_ifs at h with h1 h2 h3
  have hl : cs.length = ws.length := by simpa using h3
  cases hv : validateWeights ws with
  | error e => rw [hv] at h; cases h
  | ok u =>
    rw [hv] at h
    simp only [Except.ok.injEq] at h
    obtain ⟨_, hall, hsum⟩ := (validateWeights_X_ok_iff ws).mp hv
    exact ⟨h.symm, hl, hall, hsum⟩

example (c1 c2 : Comp X Ob) : ∃ e, new [fin (1/2), X.nan] [c1, c2] = .error e := by
  cases h : new [fin (1/2), X.nan] [c1, c2] with
  | error e => exact ⟨e, rfl⟩
  | ok m =>
    obtain ⟨_, _, hall, _⟩ := new_X_ok _ _ m h
    obtain ⟨a, ha, _⟩ := hall X.nan (by simp)
    cases ha

/-- `+inf` is rejected as well -/
example : validateWeights [fin (1/4), X.pinf] ≠ .ok () := by
  rw [Ne, validateWeights_X_ok_iff]
  rintro ⟨_, h, _⟩
  obtain ⟨a, ha, _⟩ := h X.pinf (by simp)
  cases ha

/-! ## (g') the downward sweep of `count_entropy_range` (entropy of `Mixture<Poisson>`) -/

-- @site count_entropy_range
/-- misc/entropy.rs:14-23 on exact reals: started at `left` with enough fuel, the downward sweep stops at some
    `stop ≤ lower` (and `≤ left`) and has then subtracted `f(x) ln f(x)` for EVERY `x` of `[stop, left]` — in
    particular for the whole range `[lower, mid]` between the smallest component mean and the start point, however small
    the mass in between (the guard must compare with `lower`, not with `mid`) -/
theorem leftLoop_covers (lnF : Nat → R) (lower fuel left : Nat) (h : R) (hf : left < fuel) :
    ∃ stop, stop ≤ left ∧ stop ≤ lower ∧
      (Hand.C08.leftLoop lnF lower fuel left h).val =
        h.val - ((List.range' stop (left + 1 - stop)).map
          (fun x => Real.exp (lnF x).val * (lnF x).val)).sum := by
  induction fuel generalizing left h with
  | zero => exact absurd hf (Nat.not_lt_zero _)
  | succ n ih =>
    unfold Hand.C08.leftLoop
    by_cases hc : (left == 0 || (decide (left ≤ lower) && RealLike.lt (RealLike.exp (lnF left)) (1e-16 : R))) = true
    · refine ⟨left, le_refl _, ?_, ?_⟩
      · simp only [Bool.or_eq_true, beq_iff_eq, Bool.and_eq_true, decide_eq_true_eq] at hc
        rcases hc with h0 | ⟨h1, _⟩
        · omega
        · exact h1
      · simp only [hc, if_true]
        have : left + 1 - left = 1 := by omega
        simp [this, R.sub_val, R.mul_val, R.exp_val]
    · simp only [hc, Bool.false_eq_true, if_false]
      have h0 : left ≠ 0 := by
        intro e; apply hc; simp [e]
      obtain ⟨stop, h1, h2, h3⟩ := ih (left - 1) (h - RealLike.exp (lnF left) * lnF left) (by omega)
      refine ⟨stop, by omega, h2, ?_⟩
      rw [h3, R.sub_val, R.mul_val, R.exp_val]
      have e : left + 1 - stop = (left - 1 + 1 - stop) + 1 := by omega
      have e2 : stop + 1 * (left - 1 + 1 - stop) = left := by omega
      rw [e, List.range'_concat, List.map_append, List.sum_append, e2]
      simp
      ring

example : ∃ stop, stop ≤ 3 ∧ stop ≤ 1 ∧ (Hand.C08.leftLoop (fun _ => (⟨-1⟩ : R)) 1 5 3 ⟨0⟩).val =
    (0 : ℝ) - ((List.range' stop (3 + 1 - stop)).map (fun _ => Real.exp (-1) * (-1))).sum :=
  leftLoop_covers _ 1 5 3 ⟨0⟩ (by norm_num)

/-! ## (h) the drawn component index (range; the law is in Props/C11B.lean) -/

-- @site Mixture::draw
/-- on every carrier, whatever the weights and the variate: if `pflips` returns an index (does not panic) it is
    a valid component index — `self.components[k]` of mixture.rs:420 cannot be out of bounds when
    `weights.len() = components.len()` -/
theorem drawIndex_lt {α : Type} [RealLike α] (m : Mix α Ob) (u : α) (i : Nat) (h : drawIndex m u = some i) :
    i < m.weights.length := by
  have hl : (Gen.cumsum m.weights).length = m.weights.length := by
    unfold Gen.cumsum; exact C13.scanL_length _ _ _
  unfold drawIndex at h
  split_ifs at h
  simp only [Gen.catflip] at h
  split_ifs at h
  · simp only [Gen.catflip_bisection] at h
    split_ifs at h with h2
    simp only [Option.some.injEq] at h
    rw [← h, ← hl]
    simpa using h2
  · simp only [Gen.catflip_standard] at h
    obtain ⟨hi, _⟩ := List.findIdx?_eq_some_iff_getElem.mp h
    rwa [hl] at hi

-- @site Mixture::draw
/-- the drawn component exists as soon as the invariant's length clause holds -/
theorem drawComp_isSome {α : Type} [RealLike α] (m : Mix α Ob) (hl : m.weights.length = m.comps.length)
    (u : α) (i : Nat) (h : drawIndex m u = some i) : ∃ c, drawComp m u = some c ∧ m.comps[i]? = some c := by
  have hi := drawIndex_lt m u i h
  rw [hl] at hi
  refine ⟨m.comps[i], ?_, by simp [hi]⟩
  simp [drawComp, h, hi]

-- @site Mixture::draw
/-- an empty weight vector: `pflips` panics on its `assert!` -/
theorem drawIndex_empty {α : Type} [RealLike α] (cs : List (Comp α Ob)) (u : α) :
    drawIndex ⟨[], cs⟩ u = none := rfl

-- @site Mixture::draw
theorem exDraw : drawIndex (⟨[(⟨0.25⟩ : R), ⟨0.75⟩], [exComp ⟨0⟩ ⟨1⟩, exComp ⟨1⟩ ⟨1⟩]⟩ : Mix R Unit) ⟨0.5⟩ = some 1 := by
  simp only [drawIndex, Gen.cumsum, scanL, Gen.catflip, Gen.catflip_standard, List.isEmpty_cons,
    Bool.false_eq_true, if_false, List.length_cons, List.length_nil, List.getLastD]
  norm_num [List.findIdx?_cons, RealLike.gt, R.lt_iff, R.add_val, R.mul_val, R_zero_val]

example : 1 < (⟨[(⟨0.25⟩ : R), ⟨0.75⟩], [exComp ⟨0⟩ ⟨1⟩, exComp ⟨1⟩ ⟨1⟩]⟩ : Mix R Unit).weights.length :=
  drawIndex_lt _ _ _ exDraw
example : ∃ c, drawComp (⟨[(⟨0.25⟩ : R), ⟨0.75⟩], [exComp ⟨0⟩ ⟨1⟩, exComp ⟨1⟩ ⟨1⟩]⟩ : Mix R Unit) ⟨0.5⟩ = some c :=
  let ⟨c, h, _⟩ := drawComp_isSome _ rfl _ _ exDraw; ⟨c, h⟩

-- @site Mixture.entropy
/-- entropy of a Bernoulli mixture (as repaired): the negative of Σ_{x ∈ {true,false}} f(x) ln f(x), written through the
    mixture's own `ln_f`; in particular it is non-negative whenever both masses are at most 1 -/
theorem bernMixEntropy_val (m : Mix R Bool) :
    (bernMixEntropy m).val
      = -(Real.exp (Hand.Mixture.lnF m true).val * (Hand.Mixture.lnF m true).val
          + Real.exp (Hand.Mixture.lnF m false).val * (Hand.Mixture.lnF m false).val) := by
  simp only [bernMixEntropy, mulAdd, R.neg_val, R.add_val, R.mul_val, R.exp_val]

-- @site Mixture.entropy
theorem bernMixEntropy_nonneg (m : Mix R Bool) (ht : (Hand.Mixture.lnF m true).val ≤ 0) (hf : (Hand.Mixture.lnF m false).val ≤ 0) :
    0 ≤ (bernMixEntropy m).val := by
  rw [bernMixEntropy_val]
  have h1 := mul_nonpos_of_nonneg_of_nonpos (Real.exp_pos (Hand.Mixture.lnF m true).val).le ht
  have h2 := mul_nonpos_of_nonneg_of_nonpos (Real.exp_pos (Hand.Mixture.lnF m false).val).le hf
  linarith

end C11

#print axioms C11.exMix_allMeanVar
#print axioms C11.f_eq_sum
#print axioms C11.cdf_eq_sum
#print axioms C11.pdf_eq_sum
#print axioms C11.pdf_eq_f
#print axioms C11.mean_eq_sum
#print axioms C11.mean_none_iff
#print axioms C11.variance_eq
#print axioms C11.variance_none_iff
#print axioms C11.supports_iff
#print axioms C11.mean_isNone_iff
#print axioms C11.variance_isNone_iff
#print axioms C11.variance_isSome
#print axioms C11.leftLoop_covers
#print axioms C11.single_f
#print axioms C11.single_cdf
#print axioms C11.single_pdf
#print axioms C11.single_mean
#print axioms C11.single_variance
#print axioms C11.single_supports
#print axioms C11.validateWeights_ok_iff
#print axioms C11.validateWeights_error
#print axioms C11.W_iff
#print axioms C11.new_ok_iff
#print axioms C11.new_W
#print axioms C11.validW_quarter
#print axioms C11.new_error
#print axioms C11.uniform_W
#print axioms C11.setWeights_ok_iff
#print axioms C11.setWeights_W
#print axioms C11.setComponents_ok_iff
#print axioms C11.setComponents_W
#print axioms C11.tryFromPairs_W
#print axioms C11.toPairs_tryFromPairs
#print axioms C11.tryFromPairs_toPairs
#print axioms C11.exMix_W
#print axioms C11.combine_all_empty
#print axioms C11.combine_nonempty
#print axioms C11.combine_W
#print axioms C11.xHyp
#print axioms C11.mixSum_eq_xsum
#print axioms C11.lnF_spec
#print axioms C11.lnF_eq_ninf_iff
#print axioms C11.lnF_ne_nan
#print axioms C11.f_X
#print axioms C11.mixSum_nonneg
#print axioms C11.lnF_eq_ln_f
#print axioms C11.lnPdf_X
#print axioms C11.pdf_X_supp
#print axioms C11.lnPdf_X_of_support
#print axioms C11.single_lnF
#print axioms C11.validateWeights_nan_rejected
#print axioms C11.validateWeights_nan_variant
#print axioms C11.new_X_ok
#print axioms C11.validateWeights_X_ok_iff
#print axioms C11.drawIndex_lt
#print axioms C11.drawComp_isSome
#print axioms C11.drawIndex_empty
#print axioms C11.exDraw
#print axioms C11.bernMixEntropy_val
#print axioms C11.bernMixEntropy_nonneg
