import RvModel.RealInst
import RvModel.Gen.Defs
import RvModel.Hand.Mixture
import RvModel.Hand.Samplers
import RvModel.Lemmas.C11
import RvModel.Lemmas.C13B
import RvModel.Props.C11A
import RvModel.Props.C13B
import Mathlib.Tactic.Ring
import Mathlib.Tactic.Linarith
import Mathlib.Tactic.FieldSimp
/-!
  C11 (part B) — the law of the component index drawn by `Mixture::draw` / `Mixture::sample`
  (`mixture.rs:418-428`: `pflips(&self.weights, n, rng)`), obtained from the C13 theorems about `pflips`
  (Props/C13B.lean, `Hand.pflips1`): `Hand.Mixture.drawIndex m u` IS `Hand.pflips1 m.weights u`.

  `C13.W ws i` = sum of the first `i` weights; `S` = sum of all weights (`|S − 1| ≤ 1e-12` under the invariant
  `C11.W`).  The set of variates `u ∈ [0,1)` that select component `i` is an interval of length `wᵢ / S`.
-/
open Real Hand.Mixture

namespace C11

variable {Ob : Type}

/-- total weight of a mixture -/
noncomputable def total (m : Mix R Ob) : ℝ := (m.weights.map R.val).sum

-- @site Mixture::draw
/-- the index model of `draw` is literally the `pflips` model of C13 (one draw) -/
theorem drawIndex_eq_pflips1 {α : Type} [RealLike α] (m : Mix α Ob) (u : α) :
    drawIndex m u = Hand.pflips1 m.weights u := rfl

-- @site Mixture::draw
/-- the word ↦ variate map is the one of C13 -/
theorem uniform01_eq {α : Type} [RealLike α] (w : Nat) : (uniform01 w : α) = Hand.uniform01 w := rfl

-- @site Mixture::draw
theorem total_pos (m : Mix R Ob) (hm : W m) : 0 < total m := by
  obtain ⟨_, h2, _, _⟩ := hm
  have := (abs_le.mp h2).1
  unfold total
  norm_num at this ⊢
  linarith

-- @site Mixture::draw
/-- at most 9 components (linear scan): the variates selecting component `i` are exactly
    `[W_i/S, W_{i+1}/S)` (`u = 0` included) -/
theorem drawIndex_interval_small (m : Mix R Ob) (hm : W m) (h9 : m.comps.length ≤ 9) (u : R) (hu : 0 ≤ u.val)
    (i : Nat) :
    drawIndex m u = some i ↔
      i < m.comps.length ∧ C13.W m.weights i / total m ≤ u.val ∧ u.val < C13.W m.weights (i + 1) / total m := by
  have hl := hm.2.2.1
  rw [drawIndex_eq_pflips1, C13.pflips_interval_small m.weights hm.1 (total_pos m hm) (by omega) u hu i, hl]
  rfl

-- @site Mixture::draw
/-- more than 9 components (bisection): the SAME interval `[W_i/S, W_{i+1}/S)`, `u = 0` included (after the repair of
    `binary_search`, C13) -/
theorem drawIndex_interval_large (m : Mix R Ob) (hm : W m) (h9 : 9 < m.comps.length)
    (hf : C13.FuelOK m.comps.length) (u : R) (hu : 0 ≤ u.val) (i : Nat) :
    drawIndex m u = some i ↔
      i < m.comps.length ∧ C13.W m.weights i / total m ≤ u.val ∧ u.val < C13.W m.weights (i + 1) / total m := by
  have hl := hm.2.2.1
  rw [drawIndex_eq_pflips1,
    C13.pflips_interval_large m.weights hm.1 (total_pos m hm) (by omega) (by rwa [hl]) u hu i, hl]
  rfl

-- @site Mixture::draw
/-- the length of that interval is `wᵢ / S`: component `i` is drawn with probability `wᵢ / S` when `u` is uniform -/
theorem drawIndex_interval_length (m : Mix R Ob) {i : Nat} (hi : i < m.weights.length) :
    C13.W m.weights (i + 1) / total m - C13.W m.weights i / total m = (idxR m.weights i).val / total m :=
  C13.pflip_interval_length m.weights hi

-- @site Mixture::draw
/-- … and under the invariant `wᵢ / S` is `wᵢ` up to the relative tolerance of `validate_weights` -/
theorem drawIndex_prob_close (m : Mix R Ob) (hm : W m) {i : Nat} (hi : i < m.weights.length) :
    |(idxR m.weights i).val / total m - (idxR m.weights i).val| ≤ 1.01e-12 * (idxR m.weights i).val := by
  have hS := total_pos m hm
  obtain ⟨h1, h2, _, _⟩ := hm
  have hw : 0 ≤ (idxR m.weights i).val := by
    rw [C13.idxR_of_lt _ hi]; exact h1 _ (List.getElem_mem hi)
  have h2' : |total m - 1| ≤ 1e-12 := h2
  obtain ⟨hlo, hhi⟩ := abs_le.mp h2'
  have e : (idxR m.weights i).val / total m - (idxR m.weights i).val
      = (idxR m.weights i).val * ((1 - total m) / total m) := by
    field_simp
  rw [e, abs_mul, abs_of_nonneg hw, mul_comm]
  apply mul_le_mul_of_nonneg_right _ hw
  rw [abs_div, abs_of_pos hS, div_le_iff₀ hS]
  have : |1 - total m| ≤ 1e-12 := by rw [abs_sub_comm]; exact h2'
  have hS' : (1 - 1e-12 : ℝ) ≤ total m := by linarith
  calc |1 - total m| ≤ 1e-12 := this
    _ ≤ 1.01e-12 * (1 - 1e-12) := by norm_num
    _ ≤ 1.01e-12 * total m := by
        apply mul_le_mul_of_nonneg_left hS' (by norm_num)

-- @site Mixture::draw
/-- under the invariant, for every variate in `[0,1)` (every generator word) the draw does not panic and returns
    a valid component index -/
theorem drawIndex_total (m : Mix R Ob) (hm : W m) (hf : C13.FuelOK m.comps.length) (u : R)
    (hu : 0 ≤ u.val) (hu1 : u.val < 1) : ∃ i, drawIndex m u = some i ∧ i < m.comps.length := by
  have hl := hm.2.2.1
  obtain ⟨i, h1, h2⟩ := C13.pflips_in_range m.weights hm.1 (total_pos m hm) (by rwa [hl]) [u]
    (by intro v hv; simp at hv; subst hv; exact ⟨hu, hu1⟩) (Hand.pflips1 m.weights u) (by simp [Hand.pflips])
  exact ⟨i, h1, by rwa [← hl]⟩

-- @site Mixture::draw
/-- a component of weight zero is never drawn — for every variate `u ≥ 0`, any number of components -/
theorem drawIndex_positive_weight (m : Mix R Ob) (hm : W m) (hf : C13.FuelOK m.comps.length) (u : R)
    (hu : 0 ≤ u.val) (i : Nat) (h : drawIndex m u = some i) :
    0 < (idxR m.weights i).val := by
  have hl := hm.2.2.1
  exact C13.pflips_positive_weight m.weights hm.1 (total_pos m hm) (by rwa [hl]) u hu i h

-- @site Mixture::draw
/-- headline: for EVERY 64-bit generator word a valid mixture draws a valid component index of positive weight -/
theorem drawIndex_every_word (m : Mix R Ob) (hm : W m) (hf : C13.FuelOK m.comps.length) (w : Nat)
    (hw : w < 2 ^ 64) :
    ∃ i, drawIndex m (uniform01 w) = some i ∧ i < m.comps.length ∧ 0 < (idxR m.weights i).val := by
  have hl := hm.2.2.1
  obtain ⟨i, h1, h2, h3⟩ := C13.pflips_every_word m.weights hm.1 (total_pos m hm) (by rwa [hl]) w hw
  exact ⟨i, by rw [drawIndex_eq_pflips1, uniform01_eq]; exact h1, by rwa [← hl], h3⟩

/-- ten components, the first with weight zero, the others `1/9` -/
noncomputable def tenMix : Mix R Unit :=
  ⟨⟨0⟩ :: List.replicate 9 ⟨1/9⟩, List.replicate 10 (exComp ⟨0⟩ ⟨1⟩)⟩

-- @site Mixture::draw
theorem tenMix_W : W tenMix := by
  refine ⟨?_, ?_, by simp [tenMix], by simp [tenMix]⟩
  · intro w hw
    simp only [tenMix, List.mem_cons, List.mem_replicate] at hw
    rcases hw with rfl | ⟨_, rfl⟩ <;> norm_num
  · simp only [tenMix, List.map_cons, List.map_replicate, List.sum_cons, List.sum_replicate]
    norm_num

-- @site Mixture::draw
/-- the former defect witness (`Uniform::new(0.0, 1.0)` delivers `0` for the generator word `0`; more than 9 components,
    the first of weight zero): the draw is now component `1`, of positive weight (was component `0` before the repair of
    `binary_search`, C13) -/
theorem drawIndex_leading_zero_weight :
    W tenMix ∧ drawIndex tenMix (uniform01 0) = some 1 ∧ 0 < (idxR tenMix.weights 1).val := by
  refine ⟨tenMix_W, ?_, by norm_num [tenMix, idxR, List.replicate]⟩
  rw [drawIndex_interval_large tenMix tenMix_W (by simp [tenMix]) (C13.fuelOK_of_le (by simp [tenMix])) _
    (by rw [uniform01_eq, C13.uniform01_zero]), uniform01_eq, C13.uniform01_zero]
  norm_num [tenMix, C13.W, total, List.replicate]

example : ∃ i, drawIndex tenMix (uniform01 0) = some i ∧ i < 10 ∧ 0 < (idxR tenMix.weights i).val := by
  have := drawIndex_every_word tenMix tenMix_W (C13.fuelOK_of_le (by simp [tenMix])) 0 (by norm_num)
  simpa [tenMix] using this

example : ∃ i, drawIndex exMix ⟨0.7⟩ = some i ∧ i < 2 :=
  drawIndex_total exMix exMix_W (C13.fuelOK_of_le (by simp [exMix])) ⟨0.7⟩ (by norm_num) (by norm_num)

example : drawIndex exMix ⟨0.7⟩ = some 1 := by
  rw [drawIndex_interval_small exMix exMix_W (by simp [exMix]) _ (by norm_num)]
  norm_num [exMix, C13.W, total]

example : drawIndex tenMix ⟨0.5⟩ = some 5 := by
  rw [drawIndex_interval_large tenMix tenMix_W (by simp [tenMix]) (C13.fuelOK_of_le (by simp [tenMix])) _
    (by norm_num)]
  norm_num [tenMix, C13.W, total, List.replicate]

example : 0 < (idxR exMix.weights 1).val :=
  drawIndex_positive_weight exMix exMix_W (C13.fuelOK_of_le (by simp [exMix])) ⟨0.7⟩ (by norm_num) 1
    (by rw [drawIndex_interval_small exMix exMix_W (by simp [exMix]) _ (by norm_num)]
        norm_num [exMix, C13.W, total])

example : |(idxR exMix.weights 1).val / total exMix - (idxR exMix.weights 1).val|
    ≤ 1.01e-12 * (idxR exMix.weights 1).val := drawIndex_prob_close exMix exMix_W (by simp [exMix])

end C11

#print axioms C11.drawIndex_eq_pflips1
#print axioms C11.uniform01_eq
#print axioms C11.total_pos
#print axioms C11.drawIndex_interval_small
#print axioms C11.drawIndex_interval_large
#print axioms C11.drawIndex_interval_length
#print axioms C11.drawIndex_prob_close
#print axioms C11.drawIndex_total
#print axioms C11.drawIndex_positive_weight
#print axioms C11.tenMix_W
#print axioms C11.drawIndex_every_word
#print axioms C11.drawIndex_leading_zero_weight
