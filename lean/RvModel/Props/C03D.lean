import RvModel.RealInst
import RvModel.Hand.KsDist
import Mathlib.Tactic.Ring
import Mathlib.Tactic.NormNum
import Mathlib.Tactic.FieldSimp
/-!
  C03 (KsTwoAsymptotic): the two branches of `KsTwoAsymptotic::compute` (hand model `Hand/KsDist.lean`, tied to the code by
  the correspondence op `hand.KsTwoAsymptotic.cdf_pdf`) evaluate the first four terms of the two classical series of the
  Kolmogorov distribution, over exact reals:

    small x:  K(x) = (√(2π)/x) Σ_{k≥1} exp(−(2k−1)² π² / (8x²)) = w·u·(1 + u⁸ + u²⁴ + u⁴⁸ + …),   u = exp(−π²/(8x²))
    large x:  K(x) = 1 − 2 Σ_{k≥1} (−1)^{k−1} exp(−2k²x²)     = 1 − 2(v − v⁴ + v⁹ − v¹⁶ + …),   v = exp(−2x²)

  The unchanged code used u²⁴ in all three Horner steps of the small-x branch (1 + u²⁴ + u⁴⁸ + u⁷²: the u⁸ term was missing,
  a jump of 2·10⁻⁷ at the 0.82 cut-over); repaired (`fix:` commit), and `ks_small_series` is the statement the defect violated.
  That the truncated series agree with the limit to 1e-8 on their branches is sampled against a 40-term evaluation of both
  series (props/C03.py), not proved.
-/
namespace C03
open Real

-- @site KsTwoAsymptotic.cdf
/-- small-x branch: the Horner scheme yields the four leading terms (u⁸)⁰, (u⁸)¹, (u⁸)³, (u⁸)⁶ -/
theorem ks_small_series (x : R) :
    (Hand.KsDist.smallCore x).1.val =
      (Real.sqrt (2 * π) / x.val) * Real.exp (-π * π / (x.val * x.val) / 8) *
        (1 + Real.exp (-π * π / (x.val * x.val)) + Real.exp (-π * π / (x.val * x.val)) ^ 3
           + Real.exp (-π * π / (x.val * x.val)) ^ 6) := by
  simp only [Hand.KsDist.smallCore, mulAdd, R.mul_val, R.add_val, R.div_val, R.neg_val, R.exp_val, R.sqrt_val, R.pi_val,
    R.sci_val]
  norm_num
  ring

example : (Hand.KsDist.smallCore (⟨1/2⟩ : R)).1.val =
      (Real.sqrt (2 * π) / (1/2)) * Real.exp (-π * π / ((1/2) * (1/2)) / 8) *
        (1 + Real.exp (-π * π / ((1/2) * (1/2))) + Real.exp (-π * π / ((1/2) * (1/2))) ^ 3
           + Real.exp (-π * π / ((1/2) * (1/2))) ^ 6) := ks_small_series ⟨1/2⟩

-- @site KsTwoAsymptotic.pdf
/-- small-x branch, density: (π²/(4x²)·(1 + 9u⁸ + 25u²⁴) − (1 + u⁸ + u²⁴ + u⁴⁸)) · w·u/x -/
theorem ks_small_density (x : R) :
    (Hand.KsDist.smallCore x).2.val =
      (π * π / (4 * x.val * x.val) *
          (1 + 9 * Real.exp (-π * π / (x.val * x.val)) + 25 * Real.exp (-π * π / (x.val * x.val)) ^ 3)
        - (1 + Real.exp (-π * π / (x.val * x.val)) + Real.exp (-π * π / (x.val * x.val)) ^ 3
             + Real.exp (-π * π / (x.val * x.val)) ^ 6)) *
        ((Real.sqrt (2 * π) / x.val) * Real.exp (-π * π / (x.val * x.val) / 8) / x.val) := by
  simp only [Hand.KsDist.smallCore, mulAdd, R.mul_val, R.add_val, R.div_val, R.neg_val, R.exp_val, R.sqrt_val, R.pi_val,
    R.sci_val]
  norm_num
  left
  ring

-- @site KsTwoAsymptotic.cdf
/-- large-x branch: 1 − cdf = 2 (v − v⁴ + v⁹ − v¹⁶), v = exp(−2x²) -/
theorem ks_large_series (x : R) :
    (Hand.KsDist.largeCore x).1.val =
      2 * (Real.exp (-2 * x.val * x.val) - Real.exp (-2 * x.val * x.val) ^ 4 + Real.exp (-2 * x.val * x.val) ^ 9
            - Real.exp (-2 * x.val * x.val) ^ 16) := by
  simp only [Hand.KsDist.largeCore, mulAdd, R.mul_val, R.add_val, R.neg_val, R.exp_val, R.sci_val]
  norm_num
  ring

-- @site KsTwoAsymptotic.pdf
/-- large-x branch, density: 8x (v − 4v⁴ + 9v⁹ − 16v¹⁶)·… as coded: 8 v x (1 − v³(4 − v⁵(9 − 0·v⁷))) = 8x(v − 4v⁴ + 9v⁹) -/
theorem ks_large_density (x : R) :
    (Hand.KsDist.largeCore x).2.val =
      8 * x.val * (Real.exp (-2 * x.val * x.val) - 4 * Real.exp (-2 * x.val * x.val) ^ 4
                    + 9 * Real.exp (-2 * x.val * x.val) ^ 9) := by
  simp only [Hand.KsDist.largeCore, mulAdd, R.mul_val, R.add_val, R.neg_val, R.exp_val, R.sci_val]
  norm_num
  ring

example : (Hand.KsDist.largeCore (⟨1⟩ : R)).1.val =
      2 * (Real.exp (-2 * 1 * 1) - Real.exp (-2 * 1 * 1) ^ 4 + Real.exp (-2 * 1 * 1) ^ 9 - Real.exp (-2 * 1 * 1) ^ 16) :=
  ks_large_series ⟨1⟩

end C03

#print axioms C03.ks_small_series
#print axioms C03.ks_small_density
#print axioms C03.ks_large_series
#print axioms C03.ks_large_density
