import RvModel.RealInst
import RvModel.Gen.Defs
import RvModel.Lemmas.C07
import Mathlib.Analysis.SpecialFunctions.Log.Basic
import Mathlib.Tactic.FieldSimp
import Mathlib.Tactic.Ring
import Mathlib.Tactic.Linarith
/-!
  C07 (part B): InvGammaSuffStat, InvGaussianSuffStat, UnitPowerLawSuffStat, CategoricalSuffStat.
  Same structure as part A (see the header of Props/C07A.lean and `C07.Refines` in Lemmas/C07.lean).

  UnitPowerLawSuffStat is the only statistic with hand-written `observe_many` / `forget_many`
  (`ln(Π x)` instead of `Σ ln x`; `forget_many` resets `sum_ln_x` when `n` reaches 0 since the fix
  "UnitPowerLawSuffStat::forget_many resets to the empty statistic when nothing is left"): see
  `UnitPowerLaw_observe_many_eq_foldl`, `UnitPowerLaw_abs_forget_many`, `UnitPowerLaw_forget_many_reset`,
  `UnitPowerLaw_forget_many_eq_foldl`.
-/
set_option linter.unusedSimpArgs false
set_option linter.unnecessarySeqFocus false
open Real

namespace C07

/-! ## InvGamma -/

/-- `s` is the inverse-gamma statistic of the data `d`: `n`, `Σ ln x`, `Σ 1/x` -/
def AbsInvGamma (s : Gen.InvGammaSuffStat R) (d : List ℝ) : Prop :=
  s.n = d.length ∧ s.sum_ln_x.val = (d.map Real.log).sum ∧ s.sum_inv_x.val = (d.map (fun x => 1 / x)).sum

-- @site InvGammaSuffStat.new
theorem InvGamma_abs_new : AbsInvGamma (Gen.InvGammaSuffStat.new : Gen.InvGammaSuffStat R) [] := by
  refine ⟨rfl, ?_, ?_⟩ <;> simp [Gen.InvGammaSuffStat.new] <;> norm_num

-- @site InvGammaSuffStat.observe_real
theorem InvGamma_abs_observe (s : Gen.InvGammaSuffStat R) (d : List ℝ) (x : R) (h : AbsInvGamma s d) :
    AbsInvGamma (Gen.InvGammaSuffStat.observe_real s x) (x.val :: d) := by
  obtain ⟨hn, h1, h2⟩ := h
  refine ⟨?_, ?_, ?_⟩
  · simp [Gen.InvGammaSuffStat.observe_real, hn]
  · simp only [Gen.InvGammaSuffStat.observe_real, R.add_val, R.ln_val, h1, List.map_cons, List.sum_cons]; ring
  · simp only [Gen.InvGammaSuffStat.observe_real, RealLike.recip, R.add_val, R.div_val, R.sci_val, h2,
      List.map_cons, List.sum_cons]
    norm_num; ring

-- @site InvGammaSuffStat.forget_real
theorem InvGamma_abs_forget (s : Gen.InvGammaSuffStat R) (d : List ℝ) (x : R) (h : AbsInvGamma s d)
    (hx : x.val ∈ d) : AbsInvGamma (Gen.InvGammaSuffStat.forget_real s x) (d.erase x.val) := by
  obtain ⟨hn, h1, h2⟩ := h
  by_cases hgt : 1 < d.length
  · refine ⟨?_, ?_, ?_⟩
    · simp [Gen.InvGammaSuffStat.forget_real, hgt, hn, List.length_erase_of_mem hx]
    · simp only [Gen.InvGammaSuffStat.forget_real, hn, hgt, gt_iff_lt, decide_true, if_true, R.sub_val, R.ln_val,
        h1, sum_map_erase Real.log hx]
    · simp only [Gen.InvGammaSuffStat.forget_real, hn, hgt, gt_iff_lt, decide_true, if_true, RealLike.recip,
        R.sub_val, R.div_val, R.sci_val, h2, sum_map_erase (fun x => 1 / x) hx]
      norm_num
  · rw [erase_eq_nil_of_length_le_one hx hgt]
    refine ⟨?_, ?_, ?_⟩ <;> simp [Gen.InvGammaSuffStat.forget_real, hn, hgt] <;> norm_num

-- @site InvGammaSuffStat.from_parts_unchecked
theorem InvGamma_abs_perm (s : Gen.InvGammaSuffStat R) (d d' : List ℝ) (h : AbsInvGamma s d) (hp : d.Perm d') :
    AbsInvGamma s d' :=
  ⟨by rw [h.1, hp.length_eq], by rw [h.2.1, sum_map_perm _ hp], by rw [h.2.2, sum_map_perm _ hp]⟩

-- @site InvGammaSuffStat.from_parts_unchecked
theorem InvGamma_abs_unique (s s' : Gen.InvGammaSuffStat R) (d : List ℝ) (h : AbsInvGamma s d)
    (h' : AbsInvGamma s' d) : s = s' := by
  obtain ⟨hn, h1, h2⟩ := h
  obtain ⟨hn', h1', h2'⟩ := h'
  cases s; cases s'
  simp only [Gen.InvGammaSuffStat.mk.injEq]
  exact ⟨by simp_all, R.ext' (by simp_all), R.ext' (by simp_all)⟩

noncomputable def InvGammaI : Iface (Gen.InvGammaSuffStat R) R :=
  ⟨Gen.InvGammaSuffStat.observe_real, Gen.InvGammaSuffStat.forget_real,
   Gen.InvGammaSuffStat.observe_many_real, Gen.InvGammaSuffStat.forget_many_real⟩

-- @site InvGammaSuffStat.observe_many_real
theorem InvGamma_observe_many_eq_foldl (s : Gen.InvGammaSuffStat R) (xs : List R) :
    Gen.InvGammaSuffStat.observe_many_real s xs = xs.foldl Gen.InvGammaSuffStat.observe_real s := rfl

-- @site InvGammaSuffStat.forget_many_real
theorem InvGamma_forget_many_eq_foldl (s : Gen.InvGammaSuffStat R) (xs : List R) :
    Gen.InvGammaSuffStat.forget_many_real s xs = xs.foldl Gen.InvGammaSuffStat.forget_real s := rfl

-- @site InvGammaSuffStat.observe_many_real
theorem InvGamma_refines :
    Refines InvGammaI R.val (fun _ => True) AbsInvGamma (Gen.InvGammaSuffStat.new : Gen.InvGammaSuffStat R) where
  abs_new := InvGamma_abs_new
  abs_observe s d x _ h := InvGamma_abs_observe s d x h
  abs_forget s d x _ h hx := InvGamma_abs_forget s d x h hx
  abs_observeMany s d xs hp h :=
    foldl_observe (P := fun _ => True) (fun s d x _ h => InvGamma_abs_observe s d x h) xs s d hp h
  abs_forgetMany s d xs hp h hc :=
    foldl_forget (P := fun _ => True) (fun s d x _ h hx => InvGamma_abs_forget s d x h hx) xs s d hp h hc
  abs_perm := InvGamma_abs_perm
  abs_unique := InvGamma_abs_unique

-- @site InvGammaSuffStat.forget_many_real
theorem InvGamma_history (ops : List (Op R)) (hl : legal R.val (fun _ => True) [] ops) :
    AbsInvGamma (InvGammaI.run Gen.InvGammaSuffStat.new ops) (dataAfter R.val [] ops) :=
  InvGamma_refines.history ops _ _ InvGamma_abs_new hl

-- @site InvGammaSuffStat.get_n
theorem InvGamma_n (ops : List (Op R)) (hl : legal R.val (fun _ => True) [] ops) :
    Gen.InvGammaSuffStat.get_n (InvGammaI.run Gen.InvGammaSuffStat.new ops) = (dataAfter R.val [] ops).length :=
  (InvGamma_history ops hl).1

-- @site InvGammaSuffStat.observe_many_real
theorem InvGamma_order_indep (xs ys : List R) (hp : (xs.map R.val).Perm (ys.map R.val)) :
    Gen.InvGammaSuffStat.observe_many_real Gen.InvGammaSuffStat.new xs =
      Gen.InvGammaSuffStat.observe_many_real Gen.InvGammaSuffStat.new ys :=
  InvGamma_refines.observeMany_perm xs ys (fun _ _ => trivial) (fun _ _ => trivial) hp

-- @site InvGammaSuffStat.forget_real
theorem InvGamma_history_indep (ops ops' : List (Op R)) (hl : legal R.val (fun _ => True) [] ops)
    (hl' : legal R.val (fun _ => True) [] ops') (hp : (dataAfter R.val [] ops).Perm (dataAfter R.val [] ops')) :
    InvGammaI.run Gen.InvGammaSuffStat.new ops = InvGammaI.run Gen.InvGammaSuffStat.new ops' :=
  InvGamma_refines.history_indep ops ops' hl hl' hp

-- @site InvGammaSuffStat.observe_many_real
theorem InvGamma_mix (xs ys : List R) :
    Gen.InvGammaSuffStat.observe_many_real (xs.foldl Gen.InvGammaSuffStat.observe_real Gen.InvGammaSuffStat.new) ys
      = Gen.InvGammaSuffStat.observe_many_real Gen.InvGammaSuffStat.new (xs ++ ys) :=
  (InvGamma_refines.mix xs ys (fun _ _ => trivial) (fun _ _ => trivial)).1

-- @site InvGammaSuffStat.forget_many_real
theorem InvGamma_forget_all (s : Gen.InvGammaSuffStat R) (d : List ℝ) (xs : List R) (h : AbsInvGamma s d)
    (hp : (xs.map R.val).Perm d) :
    Gen.InvGammaSuffStat.forget_many_real s xs = Gen.InvGammaSuffStat.new ∧
      xs.foldl Gen.InvGammaSuffStat.forget_real s = Gen.InvGammaSuffStat.new :=
  InvGamma_refines.forget_all s d xs h (fun _ _ => trivial) hp

/-- reversibility: `forget` after `observe` restores the statistic exactly (on `R`) -/
-- @site InvGammaSuffStat.forget_real
theorem InvGamma_forget_observe (s : Gen.InvGammaSuffStat R) (d : List ℝ) (x : R) (h : AbsInvGamma s d) :
    Gen.InvGammaSuffStat.forget_real (Gen.InvGammaSuffStat.observe_real s x) x = s :=
  InvGamma_refines.forget_observe s d x trivial h

example : AbsInvGamma
    (Gen.InvGammaSuffStat.observe_real (Gen.InvGammaSuffStat.observe_real Gen.InvGammaSuffStat.new ⟨3⟩) ⟨1/2⟩)
    [1/2, 3] :=
  InvGamma_abs_observe _ _ ⟨1/2⟩ (InvGamma_abs_observe _ _ ⟨3⟩ InvGamma_abs_new)

-- @site InvGamma.ln_f_stat_real
theorem InvGamma_ln_f_stat (θ : Gen.InvGamma R) (s : Gen.InvGammaSuffStat R) (d : List ℝ) (h : AbsInvGamma s d)
    (_ha : 0 < θ.shape.val) (_hb : 0 < θ.scale.val) (_hd : ∀ x ∈ d, 0 < x) :
    (Gen.InvGamma.ln_f_stat_real θ s).val = (d.map (fun x => (Gen.InvGamma.ln_f_real θ ⟨x⟩).val)).sum := by
  obtain ⟨hn, h1, h2⟩ := h
  have key : ∀ d : List ℝ,
      (d.length : ℝ) * (θ.shape.val * Real.log θ.scale.val - Real.log (Real.Gamma θ.shape.val))
          + (-θ.shape.val - 1) * (d.map Real.log).sum - θ.scale.val * (d.map (fun x => 1 / x)).sum
        = (d.map (fun x => (Gen.InvGamma.ln_f_real θ ⟨x⟩).val)).sum := by
    intro d
    induction d with
    | nil => simp
    | cons x xs ih =>
      rw [List.map_cons (f := fun x => (Gen.InvGamma.ln_f_real θ ⟨x⟩).val), List.sum_cons, ← ih]
      simp only [List.map_cons, List.sum_cons, List.length_cons, Gen.InvGamma.ln_f_real, mulAdd, R.add_val,
        R.sub_val, R.mul_val, R.div_val, R.neg_val, R.ln_val, R.lgamma_val, R.sci_val]
      push_cast
      norm_num
      ring
  rw [← key]
  simp only [Gen.InvGamma.ln_f_stat_real, Gen.InvGammaSuffStat.get_n, Gen.InvGammaSuffStat.get_sum_ln_x,
    Gen.InvGammaSuffStat.get_sum_inv_x, mulAdd, R.add_val, R.sub_val, R.mul_val, R.neg_val, R.ln_val,
    R.lgamma_val, R.sci_val, R.ofNatR_val, hn, h1, h2]
  norm_num only
  ring

example : (0:ℝ) < (⟨⟨3⟩, ⟨1/2⟩⟩ : Gen.InvGamma R).shape.val ∧ (0:ℝ) < (⟨⟨3⟩, ⟨1/2⟩⟩ : Gen.InvGamma R).scale.val := by
  norm_num

/-! ## InvGaussian -/

/-- `s` is the inverse-Gaussian statistic of the data `d`: `n`, `Σ x`, `Σ 1/x`, `Σ ln x` -/
def AbsInvGaussian (s : Gen.InvGaussianSuffStat R) (d : List ℝ) : Prop :=
  s.n = d.length ∧ s.sum_x.val = d.sum ∧ s.sum_inv_x.val = (d.map (fun x => 1 / x)).sum ∧
    s.sum_ln_x.val = (d.map Real.log).sum

-- @site InvGaussianSuffStat.new
theorem InvGaussian_abs_new : AbsInvGaussian (Gen.InvGaussianSuffStat.new : Gen.InvGaussianSuffStat R) [] := by
  refine ⟨rfl, ?_, ?_, ?_⟩ <;> simp [Gen.InvGaussianSuffStat.new] <;> norm_num

-- @site InvGaussianSuffStat.observe_real
theorem InvGaussian_abs_observe (s : Gen.InvGaussianSuffStat R) (d : List ℝ) (x : R) (h : AbsInvGaussian s d) :
    AbsInvGaussian (Gen.InvGaussianSuffStat.observe_real s x) (x.val :: d) := by
  obtain ⟨hn, h0, h2, h1⟩ := h
  refine ⟨?_, ?_, ?_, ?_⟩
  · simp [Gen.InvGaussianSuffStat.observe_real, hn]
  · simp only [Gen.InvGaussianSuffStat.observe_real, R.add_val, h0, List.sum_cons]; ring
  · simp only [Gen.InvGaussianSuffStat.observe_real, RealLike.recip, R.add_val, R.div_val, R.sci_val, h2,
      List.map_cons, List.sum_cons]
    norm_num; ring
  · simp only [Gen.InvGaussianSuffStat.observe_real, R.add_val, R.ln_val, h1, List.map_cons, List.sum_cons]; ring

-- @site InvGaussianSuffStat.forget_real
theorem InvGaussian_abs_forget (s : Gen.InvGaussianSuffStat R) (d : List ℝ) (x : R) (h : AbsInvGaussian s d)
    (hx : x.val ∈ d) : AbsInvGaussian (Gen.InvGaussianSuffStat.forget_real s x) (d.erase x.val) := by
  obtain ⟨hn, h0, h2, h1⟩ := h
  by_cases hgt : 1 < d.length
  · have e0 := sum_map_erase (fun y : ℝ => y) hx
    simp only [List.map_id'] at e0
    refine ⟨?_, ?_, ?_, ?_⟩
    · simp [Gen.InvGaussianSuffStat.forget_real, hgt, hn, List.length_erase_of_mem hx]
    · simp only [Gen.InvGaussianSuffStat.forget_real, hn, hgt, gt_iff_lt, decide_true, if_true, R.sub_val, h0, e0]
    · simp only [Gen.InvGaussianSuffStat.forget_real, hn, hgt, gt_iff_lt, decide_true, if_true, RealLike.recip,
        R.sub_val, R.div_val, R.sci_val, h2, sum_map_erase (fun x => 1 / x) hx]
      norm_num
    · simp only [Gen.InvGaussianSuffStat.forget_real, hn, hgt, gt_iff_lt, decide_true, if_true, R.sub_val,
        R.ln_val, h1, sum_map_erase Real.log hx]
  · rw [erase_eq_nil_of_length_le_one hx hgt]
    refine ⟨?_, ?_, ?_, ?_⟩ <;> simp [Gen.InvGaussianSuffStat.forget_real, hn, hgt] <;> norm_num

-- @site InvGaussianSuffStat.from_parts_unchecked
theorem InvGaussian_abs_perm (s : Gen.InvGaussianSuffStat R) (d d' : List ℝ) (h : AbsInvGaussian s d)
    (hp : d.Perm d') : AbsInvGaussian s d' :=
  ⟨by rw [h.1, hp.length_eq], by rw [h.2.1, hp.sum_eq], by rw [h.2.2.1, sum_map_perm _ hp],
   by rw [h.2.2.2, sum_map_perm _ hp]⟩

-- @site InvGaussianSuffStat.from_parts_unchecked
theorem InvGaussian_abs_unique (s s' : Gen.InvGaussianSuffStat R) (d : List ℝ) (h : AbsInvGaussian s d)
    (h' : AbsInvGaussian s' d) : s = s' := by
  obtain ⟨hn, h0, h2, h1⟩ := h
  obtain ⟨hn', h0', h2', h1'⟩ := h'
  cases s; cases s'
  simp only [Gen.InvGaussianSuffStat.mk.injEq]
  exact ⟨by simp_all, R.ext' (by simp_all), R.ext' (by simp_all), R.ext' (by simp_all)⟩

noncomputable def InvGaussianI : Iface (Gen.InvGaussianSuffStat R) R :=
  ⟨Gen.InvGaussianSuffStat.observe_real, Gen.InvGaussianSuffStat.forget_real,
   Gen.InvGaussianSuffStat.observe_many_real, Gen.InvGaussianSuffStat.forget_many_real⟩

-- @site InvGaussianSuffStat.observe_many_real
theorem InvGaussian_observe_many_eq_foldl (s : Gen.InvGaussianSuffStat R) (xs : List R) :
    Gen.InvGaussianSuffStat.observe_many_real s xs = xs.foldl Gen.InvGaussianSuffStat.observe_real s := rfl

-- @site InvGaussianSuffStat.forget_many_real
theorem InvGaussian_forget_many_eq_foldl (s : Gen.InvGaussianSuffStat R) (xs : List R) :
    Gen.InvGaussianSuffStat.forget_many_real s xs = xs.foldl Gen.InvGaussianSuffStat.forget_real s := rfl

-- @site InvGaussianSuffStat.observe_many_real
theorem InvGaussian_refines :
    Refines InvGaussianI R.val (fun _ => True) AbsInvGaussian
      (Gen.InvGaussianSuffStat.new : Gen.InvGaussianSuffStat R) where
  abs_new := InvGaussian_abs_new
  abs_observe s d x _ h := InvGaussian_abs_observe s d x h
  abs_forget s d x _ h hx := InvGaussian_abs_forget s d x h hx
  abs_observeMany s d xs hp h :=
    foldl_observe (P := fun _ => True) (fun s d x _ h => InvGaussian_abs_observe s d x h) xs s d hp h
  abs_forgetMany s d xs hp h hc :=
    foldl_forget (P := fun _ => True) (fun s d x _ h hx => InvGaussian_abs_forget s d x h hx) xs s d hp h hc
  abs_perm := InvGaussian_abs_perm
  abs_unique := InvGaussian_abs_unique

-- @site InvGaussianSuffStat.forget_many_real
theorem InvGaussian_history (ops : List (Op R)) (hl : legal R.val (fun _ => True) [] ops) :
    AbsInvGaussian (InvGaussianI.run Gen.InvGaussianSuffStat.new ops) (dataAfter R.val [] ops) :=
  InvGaussian_refines.history ops _ _ InvGaussian_abs_new hl

-- @site InvGaussianSuffStat.get_n
theorem InvGaussian_n (ops : List (Op R)) (hl : legal R.val (fun _ => True) [] ops) :
    Gen.InvGaussianSuffStat.get_n (InvGaussianI.run Gen.InvGaussianSuffStat.new ops)
      = (dataAfter R.val [] ops).length :=
  (InvGaussian_history ops hl).1

-- @site InvGaussianSuffStat.observe_many_real
theorem InvGaussian_order_indep (xs ys : List R) (hp : (xs.map R.val).Perm (ys.map R.val)) :
    Gen.InvGaussianSuffStat.observe_many_real Gen.InvGaussianSuffStat.new xs =
      Gen.InvGaussianSuffStat.observe_many_real Gen.InvGaussianSuffStat.new ys :=
  InvGaussian_refines.observeMany_perm xs ys (fun _ _ => trivial) (fun _ _ => trivial) hp

-- @site InvGaussianSuffStat.forget_real
theorem InvGaussian_history_indep (ops ops' : List (Op R)) (hl : legal R.val (fun _ => True) [] ops)
    (hl' : legal R.val (fun _ => True) [] ops') (hp : (dataAfter R.val [] ops).Perm (dataAfter R.val [] ops')) :
    InvGaussianI.run Gen.InvGaussianSuffStat.new ops = InvGaussianI.run Gen.InvGaussianSuffStat.new ops' :=
  InvGaussian_refines.history_indep ops ops' hl hl' hp

-- @site InvGaussianSuffStat.observe_many_real
theorem InvGaussian_mix (xs ys : List R) :
    Gen.InvGaussianSuffStat.observe_many_real
        (xs.foldl Gen.InvGaussianSuffStat.observe_real Gen.InvGaussianSuffStat.new) ys
      = Gen.InvGaussianSuffStat.observe_many_real Gen.InvGaussianSuffStat.new (xs ++ ys) :=
  (InvGaussian_refines.mix xs ys (fun _ _ => trivial) (fun _ _ => trivial)).1

-- @site InvGaussianSuffStat.forget_many_real
theorem InvGaussian_forget_all (s : Gen.InvGaussianSuffStat R) (d : List ℝ) (xs : List R)
    (h : AbsInvGaussian s d) (hp : (xs.map R.val).Perm d) :
    Gen.InvGaussianSuffStat.forget_many_real s xs = Gen.InvGaussianSuffStat.new ∧
      xs.foldl Gen.InvGaussianSuffStat.forget_real s = Gen.InvGaussianSuffStat.new :=
  InvGaussian_refines.forget_all s d xs h (fun _ _ => trivial) hp

/-- reversibility: `forget` after `observe` restores the statistic exactly (on `R`) -/
-- @site InvGaussianSuffStat.forget_real
theorem InvGaussian_forget_observe (s : Gen.InvGaussianSuffStat R) (d : List ℝ) (x : R) (h : AbsInvGaussian s d) :
    Gen.InvGaussianSuffStat.forget_real (Gen.InvGaussianSuffStat.observe_real s x) x = s :=
  InvGaussian_refines.forget_observe s d x trivial h

example : AbsInvGaussian
    (Gen.InvGaussianSuffStat.observe_real (Gen.InvGaussianSuffStat.observe_real Gen.InvGaussianSuffStat.new ⟨3⟩)
      ⟨1/2⟩) [1/2, 3] :=
  InvGaussian_abs_observe _ _ ⟨1/2⟩ (InvGaussian_abs_observe _ _ ⟨3⟩ InvGaussian_abs_new)

-- @site InvGaussian.ln_f_stat_real
theorem InvGaussian_ln_f_stat (θ : Gen.InvGaussian R) (s : Gen.InvGaussianSuffStat R) (d : List ℝ)
    (h : AbsInvGaussian s d) (hμ : 0 < θ.mu.val) (_hl : 0 < θ.lambda'.val) (hd : ∀ x ∈ d, 0 < x) :
    (Gen.InvGaussian.ln_f_stat_real θ s).val = (d.map (fun x => (Gen.InvGaussian.ln_f_real θ ⟨x⟩).val)).sum := by
  obtain ⟨hn, h0, h2, h1⟩ := h
  have hμ' : θ.mu.val ≠ 0 := ne_of_gt hμ
  have key : ∀ d : List ℝ, (∀ x ∈ d, 0 < x) →
      (d.length : ℝ) * (Real.log θ.lambda'.val / 2 - Real.log (2 * π) / 2) - 3 / 2 * (d.map Real.log).sum
          - θ.lambda'.val / (2 * (θ.mu.val * θ.mu.val))
            * ((d.map (fun x => 1 / x)).sum * (θ.mu.val * θ.mu.val) - 2 * (d.length : ℝ) * θ.mu.val + d.sum)
        = (d.map (fun x => (Gen.InvGaussian.ln_f_real θ ⟨x⟩).val)).sum := by
    intro d hd
    induction d with
    | nil => simp
    | cons x xs ih =>
      have hx : x ≠ 0 := ne_of_gt (hd x List.mem_cons_self)
      simp only [List.map_cons, List.sum_cons, List.length_cons]
      rw [← ih (fun y hy => hd y (List.mem_cons_of_mem _ hy))]
      simp only [List.map_cons, List.sum_cons, List.length_cons, Gen.InvGaussian.ln_f_real,
        Gen.InvGaussian.emit_params, Gen.InvGaussian.get_mu, Gen.InvGaussian.get_lambda,
        Gen.InvGaussian.ln_lambda, mulAdd, R.add_val, R.sub_val, R.mul_val, R.div_val, R.neg_val, R.ln_val,
        R.sci_val, R.ln2Pi_val]
      push_cast
      norm_num
      field_simp
      ring
  rw [← key d hd]
  simp only [Gen.InvGaussian.ln_f_stat_real, Gen.InvGaussianSuffStat.get_n, Gen.InvGaussianSuffStat.get_sum_ln_x,
    Gen.InvGaussianSuffStat.get_sum_x, Gen.InvGaussianSuffStat.get_sum_inv_x, Gen.InvGaussian.get_lambda,
    Gen.InvGaussian.ln_lambda, mulAdd, R.add_val, R.sub_val, R.mul_val, R.div_val, R.neg_val, R.ln_val,
    R.sci_val, R.halfLn2Pi_val, R.ofNatR_val, hn, h0, h1, h2]
  norm_num
  field_simp
  ring

example : (0:ℝ) < (⟨⟨3⟩, ⟨1/2⟩⟩ : Gen.InvGaussian R).mu.val ∧ (0:ℝ) < (⟨⟨3⟩, ⟨1/2⟩⟩ : Gen.InvGaussian R).lambda'.val := by
  norm_num

/-! ## UnitPowerLaw — the only statistic with its own `observe_many` / `forget_many` -/

/-- `s` is the unit-power-law statistic of the data `d`: `n`, `Σ ln x` -/
def AbsUnitPowerLaw (s : Gen.UnitPowerLawSuffStat R) (d : List ℝ) : Prop :=
  s.n = d.length ∧ s.sum_ln_x.val = (d.map Real.log).sum

-- @site UnitPowerLawSuffStat.from_parts_unchecked
theorem UnitPowerLaw_ext {s s' : Gen.UnitPowerLawSuffStat R} (hn : s.n = s'.n)
    (h1 : s.sum_ln_x.val = s'.sum_ln_x.val) : s = s' := by
  cases s; cases s'
  simp only [Gen.UnitPowerLawSuffStat.mk.injEq]
  exact ⟨hn, R.ext' h1⟩

-- @site UnitPowerLawSuffStat.new
theorem UnitPowerLaw_abs_new : AbsUnitPowerLaw (Gen.UnitPowerLawSuffStat.new : Gen.UnitPowerLawSuffStat R) [] := by
  refine ⟨rfl, ?_⟩; simp [Gen.UnitPowerLawSuffStat.new]; norm_num

-- @site UnitPowerLawSuffStat.observe_real
theorem UnitPowerLaw_abs_observe (s : Gen.UnitPowerLawSuffStat R) (d : List ℝ) (x : R)
    (h : AbsUnitPowerLaw s d) : AbsUnitPowerLaw (Gen.UnitPowerLawSuffStat.observe_real s x) (x.val :: d) := by
  obtain ⟨hn, h1⟩ := h
  refine ⟨?_, ?_⟩
  · simp [Gen.UnitPowerLawSuffStat.observe_real, hn]
  · simp only [Gen.UnitPowerLawSuffStat.observe_real, R.add_val, R.ln_val, h1, List.map_cons, List.sum_cons]; ring

-- @site UnitPowerLawSuffStat.forget_real
theorem UnitPowerLaw_abs_forget (s : Gen.UnitPowerLawSuffStat R) (d : List ℝ) (x : R) (h : AbsUnitPowerLaw s d)
    (hx : x.val ∈ d) : AbsUnitPowerLaw (Gen.UnitPowerLawSuffStat.forget_real s x) (d.erase x.val) := by
  obtain ⟨hn, h1⟩ := h
  by_cases hgt : 1 < d.length
  · refine ⟨?_, ?_⟩
    · simp [Gen.UnitPowerLawSuffStat.forget_real, hgt, hn, List.length_erase_of_mem hx]
    · simp only [Gen.UnitPowerLawSuffStat.forget_real, hn, hgt, gt_iff_lt, decide_true, if_true, R.sub_val,
        R.ln_val, h1, sum_map_erase Real.log hx]
  · rw [erase_eq_nil_of_length_le_one hx hgt]
    refine ⟨?_, ?_⟩ <;> simp [Gen.UnitPowerLawSuffStat.forget_real, hn, hgt] <;> norm_num

-- @site UnitPowerLawSuffStat.observe_real
theorem UnitPowerLaw_foldl_observe_fields (xs : List R) (s : Gen.UnitPowerLawSuffStat R) :
    (xs.foldl Gen.UnitPowerLawSuffStat.observe_real s).n = s.n + xs.length ∧
      (xs.foldl Gen.UnitPowerLawSuffStat.observe_real s).sum_ln_x.val
        = s.sum_ln_x.val + ((xs.map R.val).map Real.log).sum := by
  induction xs generalizing s with
  | nil => simp
  | cons x xs ih =>
    obtain ⟨i1, i2⟩ := ih (Gen.UnitPowerLawSuffStat.observe_real s x)
    simp only [List.foldl_cons, i1, i2, List.map_cons, List.sum_cons, List.length_cons]
    refine ⟨?_, ?_⟩
    · simp [Gen.UnitPowerLawSuffStat.observe_real]; omega
    · simp only [Gen.UnitPowerLawSuffStat.observe_real, R.add_val, R.ln_val]; ring

/-- `observe_many` (`n += len; sum_ln_x += ln(Π x)`) equals folding `observe` — on exact reals, for non-zero
    (in particular positive) data.  FLOAT BEHAVIOUR DIFFERS: the product of a few hundred values in (0,1)
    underflows to 0 and `ln` gives `-inf`, whereas `Σ ln x` stays finite (known finding, not visible on `R`). -/
-- @site UnitPowerLawSuffStat.observe_many_real
theorem UnitPowerLaw_observe_many_eq_foldl (s : Gen.UnitPowerLawSuffStat R) (xs : List R)
    (hpos : ∀ x ∈ xs, 0 < x.val) :
    Gen.UnitPowerLawSuffStat.observe_many_real s xs = xs.foldl Gen.UnitPowerLawSuffStat.observe_real s := by
  obtain ⟨f1, f2⟩ := UnitPowerLaw_foldl_observe_fields xs s
  have hne : ∀ y ∈ xs.map R.val, y ≠ 0 := by
    intro y hy
    obtain ⟨x, hx, rfl⟩ := List.mem_map.1 hy
    exact ne_of_gt (hpos x hx)
  apply UnitPowerLaw_ext
  · rw [f1]; simp [Gen.UnitPowerLawSuffStat.observe_many_real]
  · rw [f2]
    simp only [Gen.UnitPowerLawSuffStat.observe_many_real, R.add_val, R.ln_val, prodL_val, List.map_id',
      log_prod_list _ hne]

/-- `forget_many` (`n -= len; sum_ln_x -= ln(Π x)`; `sum_ln_x = 0.0` if `n == 0`) tracks the remaining data on
    exact reals for positive data that are all present. -/
-- @site UnitPowerLawSuffStat.forget_many_real
theorem UnitPowerLaw_abs_forget_many (s : Gen.UnitPowerLawSuffStat R) (d : List ℝ) (xs : List R)
    (hpos : ∀ x ∈ xs, 0 < x.val) (h : AbsUnitPowerLaw s d) (hc : canForget d (xs.map R.val)) :
    AbsUnitPowerLaw (Gen.UnitPowerLawSuffStat.forget_many_real s xs) (eraseL d (xs.map R.val)) := by
  obtain ⟨hn, h1⟩ := h
  have hne : ∀ y ∈ xs.map R.val, y ≠ 0 := by
    intro y hy
    obtain ⟨x, hx, rfl⟩ := List.mem_map.1 hy
    exact ne_of_gt (hpos x hx)
  have hlen := length_eraseL _ _ hc
  rw [List.length_map] at hlen
  by_cases h0 : d.length - xs.length = 0
  · have he : eraseL d (xs.map R.val) = [] := List.eq_nil_of_length_eq_zero (by rw [hlen, h0])
    rw [he]
    refine ⟨?_, ?_⟩ <;> simp [Gen.UnitPowerLawSuffStat.forget_many_real, hn, h0] <;> norm_num
  · refine ⟨?_, ?_⟩
    · simp [Gen.UnitPowerLawSuffStat.forget_many_real, hn, hlen, h0]
    · simp only [Gen.UnitPowerLawSuffStat.forget_many_real, hn, h0, beq_iff_eq, if_false, R.sub_val, R.ln_val,
        prodL_val, List.map_id', h1, log_prod_list _ hne, sum_map_eraseL Real.log _ _ hc]

/-- the reset branch, on every carrier (in particular binary64): forgetting as many items as are held returns
    exactly the empty statistic, whatever rounding residue `sum_ln_x` carried -/
-- @site UnitPowerLawSuffStat.forget_many_real
theorem UnitPowerLaw_forget_many_reset {α : Type} [RealLike α] (s : Gen.UnitPowerLawSuffStat α) (xs : List α)
    (h : s.n = xs.length) :
    Gen.UnitPowerLawSuffStat.forget_many_real s xs = Gen.UnitPowerLawSuffStat.new := by
  simp [Gen.UnitPowerLawSuffStat.forget_many_real, Gen.UnitPowerLawSuffStat.new, h]

example : (Gen.UnitPowerLawSuffStat.from_parts_unchecked 2 ⟨7⟩ : Gen.UnitPowerLawSuffStat R).n
    = ([⟨1/2⟩, ⟨1/3⟩] : List R).length := rfl

-- @site UnitPowerLawSuffStat.from_parts_unchecked
theorem UnitPowerLaw_abs_perm (s : Gen.UnitPowerLawSuffStat R) (d d' : List ℝ) (h : AbsUnitPowerLaw s d)
    (hp : d.Perm d') : AbsUnitPowerLaw s d' :=
  ⟨by rw [h.1, hp.length_eq], by rw [h.2, sum_map_perm _ hp]⟩

-- @site UnitPowerLawSuffStat.from_parts_unchecked
theorem UnitPowerLaw_abs_unique (s s' : Gen.UnitPowerLawSuffStat R) (d : List ℝ) (h : AbsUnitPowerLaw s d)
    (h' : AbsUnitPowerLaw s' d) : s = s' :=
  UnitPowerLaw_ext (h.1.trans h'.1.symm) (h.2.trans h'.2.symm)

noncomputable def UnitPowerLawI : Iface (Gen.UnitPowerLawSuffStat R) R :=
  ⟨Gen.UnitPowerLawSuffStat.observe_real, Gen.UnitPowerLawSuffStat.forget_real,
   Gen.UnitPowerLawSuffStat.observe_many_real, Gen.UnitPowerLawSuffStat.forget_many_real⟩

/-- admissible observations: `0 < x` (needed by `ln(Π x) = Σ ln x`; the support is `(0,1)`) -/
-- @site UnitPowerLawSuffStat.observe_many_real
theorem UnitPowerLaw_refines :
    Refines UnitPowerLawI R.val (fun x => 0 < x.val) AbsUnitPowerLaw
      (Gen.UnitPowerLawSuffStat.new : Gen.UnitPowerLawSuffStat R) where
  abs_new := UnitPowerLaw_abs_new
  abs_observe s d x _ h := UnitPowerLaw_abs_observe s d x h
  abs_forget s d x _ h hx := UnitPowerLaw_abs_forget s d x h hx
  abs_observeMany s d xs hp h := by
    show AbsUnitPowerLaw (Gen.UnitPowerLawSuffStat.observe_many_real s xs) _
    rw [UnitPowerLaw_observe_many_eq_foldl s xs hp]
    exact foldl_observe (P := fun x => 0 < x.val) (fun s d x _ h => UnitPowerLaw_abs_observe s d x h) xs s d hp h
  abs_forgetMany s d xs hp h hc := UnitPowerLaw_abs_forget_many s d xs hp h hc
  abs_perm := UnitPowerLaw_abs_perm
  abs_unique := UnitPowerLaw_abs_unique

-- @site UnitPowerLawSuffStat.forget_many_real
theorem UnitPowerLaw_history (ops : List (Op R)) (hl : legal R.val (fun x => 0 < x.val) [] ops) :
    AbsUnitPowerLaw (UnitPowerLawI.run Gen.UnitPowerLawSuffStat.new ops) (dataAfter R.val [] ops) :=
  UnitPowerLaw_refines.history ops _ _ UnitPowerLaw_abs_new hl

-- @site UnitPowerLawSuffStat.get_n
theorem UnitPowerLaw_n (ops : List (Op R)) (hl : legal R.val (fun x => 0 < x.val) [] ops) :
    Gen.UnitPowerLawSuffStat.get_n (UnitPowerLawI.run Gen.UnitPowerLawSuffStat.new ops)
      = (dataAfter R.val [] ops).length :=
  (UnitPowerLaw_history ops hl).1

-- @site UnitPowerLawSuffStat.observe_many_real
theorem UnitPowerLaw_order_indep (xs ys : List R) (hx : ∀ x ∈ xs, 0 < x.val) (hy : ∀ x ∈ ys, 0 < x.val)
    (hp : (xs.map R.val).Perm (ys.map R.val)) :
    Gen.UnitPowerLawSuffStat.observe_many_real Gen.UnitPowerLawSuffStat.new xs =
      Gen.UnitPowerLawSuffStat.observe_many_real Gen.UnitPowerLawSuffStat.new ys :=
  UnitPowerLaw_refines.observeMany_perm xs ys hx hy hp

-- @site UnitPowerLawSuffStat.forget_real
theorem UnitPowerLaw_history_indep (ops ops' : List (Op R)) (hl : legal R.val (fun x => 0 < x.val) [] ops)
    (hl' : legal R.val (fun x => 0 < x.val) [] ops')
    (hp : (dataAfter R.val [] ops).Perm (dataAfter R.val [] ops')) :
    UnitPowerLawI.run Gen.UnitPowerLawSuffStat.new ops = UnitPowerLawI.run Gen.UnitPowerLawSuffStat.new ops' :=
  UnitPowerLaw_refines.history_indep ops ops' hl hl' hp

-- @site UnitPowerLawSuffStat.observe_many_real
theorem UnitPowerLaw_mix (xs ys : List R) (hx : ∀ x ∈ xs, 0 < x.val) (hy : ∀ x ∈ ys, 0 < x.val) :
    Gen.UnitPowerLawSuffStat.observe_many_real
        (xs.foldl Gen.UnitPowerLawSuffStat.observe_real Gen.UnitPowerLawSuffStat.new) ys
      = Gen.UnitPowerLawSuffStat.observe_many_real Gen.UnitPowerLawSuffStat.new (xs ++ ys) :=
  (UnitPowerLaw_refines.mix xs ys hx hy).1

/-- forgetting all the (positive) data returns exactly `new` by either entry point (for `forget_many` see also
    the carrier-generic `UnitPowerLaw_forget_many_reset`) -/
-- @site UnitPowerLawSuffStat.forget_many_real
theorem UnitPowerLaw_forget_all (s : Gen.UnitPowerLawSuffStat R) (d : List ℝ) (xs : List R)
    (h : AbsUnitPowerLaw s d) (hx : ∀ x ∈ xs, 0 < x.val) (hp : (xs.map R.val).Perm d) :
    Gen.UnitPowerLawSuffStat.forget_many_real s xs = Gen.UnitPowerLawSuffStat.new ∧
      xs.foldl Gen.UnitPowerLawSuffStat.forget_real s = Gen.UnitPowerLawSuffStat.new :=
  UnitPowerLaw_refines.forget_all s d xs h hx hp

/-- `forget_many` equals folding `forget` — on exact reals, from the statistic of data that contain the
    (positive) items to forget.  (Float: equal only up to rounding unless everything is forgotten.) -/
-- @site UnitPowerLawSuffStat.forget_many_real
theorem UnitPowerLaw_forget_many_eq_foldl (s : Gen.UnitPowerLawSuffStat R) (d : List ℝ) (xs : List R)
    (h : AbsUnitPowerLaw s d) (hx : ∀ x ∈ xs, 0 < x.val) (hc : canForget d (xs.map R.val)) :
    Gen.UnitPowerLawSuffStat.forget_many_real s xs = xs.foldl Gen.UnitPowerLawSuffStat.forget_real s :=
  UnitPowerLaw_abs_unique _ _ _ (UnitPowerLaw_abs_forget_many s d xs hx h hc)
    (foldl_forget (P := fun x => 0 < x.val) (fun s d x _ h hm => UnitPowerLaw_abs_forget s d x h hm) xs s d hx h hc)

/-- reversibility: `forget` after `observe` restores the statistic exactly (on `R`) -/
-- @site UnitPowerLawSuffStat.forget_real
theorem UnitPowerLaw_forget_observe (s : Gen.UnitPowerLawSuffStat R) (d : List ℝ) (x : R) (h : AbsUnitPowerLaw s d) (hx : 0 < x.val) :
    Gen.UnitPowerLawSuffStat.forget_real (Gen.UnitPowerLawSuffStat.observe_real s x) x = s :=
  UnitPowerLaw_refines.forget_observe s d x hx h

example : AbsUnitPowerLaw
    (Gen.UnitPowerLawSuffStat.observe_real (Gen.UnitPowerLawSuffStat.observe_real Gen.UnitPowerLawSuffStat.new ⟨1/4⟩)
      ⟨2/3⟩) [2/3, 1/4] :=
  UnitPowerLaw_abs_observe _ _ ⟨2/3⟩ (UnitPowerLaw_abs_observe _ _ ⟨1/4⟩ UnitPowerLaw_abs_new)

example : legal R.val (fun x => 0 < x.val) ([] : List ℝ)
    [Op.observe ⟨1/2⟩, Op.observeMany [⟨1/4⟩, ⟨1/2⟩], Op.forget ⟨1/2⟩] := by
  simp [legal, legalStep, dataStep, pushL]

-- @site UnitPowerLaw.ln_f_stat_real
theorem UnitPowerLaw_ln_f_stat (θ : Gen.UnitPowerLaw R) (s : Gen.UnitPowerLawSuffStat R) (d : List ℝ)
    (h : AbsUnitPowerLaw s d) (_ha : 0 < θ.alpha.val) (_hd : ∀ x ∈ d, 0 < x ∧ x < 1) :
    (Gen.UnitPowerLaw.ln_f_stat_real θ s).val = (d.map (fun x => (Gen.UnitPowerLaw.ln_f_real θ ⟨x⟩).val)).sum := by
  obtain ⟨hn, h1⟩ := h
  have key : ∀ d : List ℝ,
      (θ.alpha.val - 1) * (d.map Real.log).sum + (d.length : ℝ) * Real.log θ.alpha.val
        = (d.map (fun x => (Gen.UnitPowerLaw.ln_f_real θ ⟨x⟩).val)).sum := by
    intro d
    induction d with
    | nil => simp
    | cons x xs ih =>
      rw [List.map_cons (f := fun x => (Gen.UnitPowerLaw.ln_f_real θ ⟨x⟩).val), List.sum_cons, ← ih]
      simp only [List.map_cons, List.sum_cons, List.length_cons, Gen.UnitPowerLaw.ln_f_real,
        Gen.UnitPowerLaw.alpha_ln, mulAdd, R.add_val, R.sub_val, R.mul_val, R.ln_val, R.sci_val]
      push_cast
      norm_num
      ring
  rw [← key]
  simp only [Gen.UnitPowerLaw.ln_f_stat_real, Gen.UnitPowerLawSuffStat.get_n, Gen.UnitPowerLawSuffStat.get_sum_ln_x,
    Gen.UnitPowerLaw.alpha_ln, R.add_val, R.sub_val, R.mul_val, R.ln_val, R.sci_val, R.ofNatR_val, hn, h1]
  norm_num

example : (0:ℝ) < (⟨⟨3/2⟩⟩ : Gen.UnitPowerLaw R).alpha.val := by norm_num

/-! ## Categorical (integer statistic; the counts are stored as `f64`) -/

/-- `s` is the `K`-category statistic of the data `d`: `n = |d|`, `counts[i] = #{x ∈ d | x = i}` for `i < K` -/
def AbsCategorical (K : ℕ) (s : Gen.CategoricalSuffStat R) (d : List ℕ) : Prop :=
  s.n = d.length ∧ s.counts.length = K ∧ ∀ i, i < K → (s.counts[i]?).map R.val = some (d.count i : ℝ)

-- @site CategoricalSuffStat.new
theorem Categorical_abs_new (K : ℕ) :
    AbsCategorical K (Gen.CategoricalSuffStat.new K : Gen.CategoricalSuffStat R) [] := by
  refine ⟨rfl, by simp [Gen.CategoricalSuffStat.new], ?_⟩
  intro i hi
  simp [Gen.CategoricalSuffStat.new, List.getElem?_replicate, hi]
  norm_num

/-- `x < K` is the precondition of `counts[ix]` not panicking -/
-- @site CategoricalSuffStat.observe_nat
theorem Categorical_abs_observe (K : ℕ) (s : Gen.CategoricalSuffStat R) (d : List ℕ) (x : ℕ) (hx : x < K)
    (h : AbsCategorical K s d) : AbsCategorical K (Gen.CategoricalSuffStat.observe_nat s x) (x :: d) := by
  obtain ⟨hn, hl, hc⟩ := h
  refine ⟨by simp [Gen.CategoricalSuffStat.observe_nat, hn], by simp [Gen.CategoricalSuffStat.observe_nat, hl], ?_⟩
  intro i hi
  by_cases hxi : x = i
  · subst hxi
    obtain ⟨r, hr, hv⟩ := Option.map_eq_some_iff.1 (hc x hx)
    have hlt : x < s.counts.length := by rw [hl]; exact hx
    simp only [Gen.CategoricalSuffStat.observe_nat, idxR, List.getD_eq_getElem?_getD, hr, Option.getD_some,
      List.getElem?_set, hlt, if_true, Option.map_some, R.add_val, R.sci_val, hv, List.count_cons_self]
    push_cast
    norm_num
  · have hne : ¬ (i = x) := fun e => hxi e.symm
    simp only [Gen.CategoricalSuffStat.observe_nat, List.getElem?_set, hxi, if_false, hc i hi]
    simp [List.count_cons, hxi]

/-- `x ∈ d` is the precondition under which `n -= 1` does not underflow and `counts[x] -= 1` stays `≥ 0` -/
-- @site CategoricalSuffStat.forget_nat
theorem Categorical_abs_forget (K : ℕ) (s : Gen.CategoricalSuffStat R) (d : List ℕ) (x : ℕ) (hx : x < K)
    (h : AbsCategorical K s d) (hm : x ∈ d) :
    AbsCategorical K (Gen.CategoricalSuffStat.forget_nat s x) (d.erase x) := by
  obtain ⟨hn, hl, hc⟩ := h
  refine ⟨by simp [Gen.CategoricalSuffStat.forget_nat, hn, List.length_erase_of_mem hm],
    by simp [Gen.CategoricalSuffStat.forget_nat, hl], ?_⟩
  intro i hi
  by_cases hxi : x = i
  · subst hxi
    obtain ⟨r, hr, hv⟩ := Option.map_eq_some_iff.1 (hc x hx)
    have hlt : x < s.counts.length := by rw [hl]; exact hx
    have hpos : 1 ≤ d.count x := List.count_pos_iff.2 hm
    simp only [Gen.CategoricalSuffStat.forget_nat, idxR, List.getD_eq_getElem?_getD, hr, Option.getD_some,
      List.getElem?_set, hlt, if_true, Option.map_some, R.sub_val, R.sci_val, hv, List.count_erase_self]
    rw [Nat.cast_sub hpos]
    norm_num
  · have hne : i ≠ x := fun e => hxi e.symm
    simp only [Gen.CategoricalSuffStat.forget_nat, List.getElem?_set, hxi, if_false, hc i hi,
      List.count_erase_of_ne hne]

-- @site CategoricalSuffStat.forget_nat
theorem Categorical_forget_pre (K : ℕ) (s : Gen.CategoricalSuffStat R) (d : List ℕ) (x : ℕ) (hx : x < K)
    (h : AbsCategorical K s d) (hm : x ∈ d) :
    0 < s.n ∧ x < s.counts.length ∧ 1 ≤ (idxR s.counts x).val := by
  obtain ⟨hn, hl, hc⟩ := h
  obtain ⟨r, hr, hv⟩ := Option.map_eq_some_iff.1 (hc x hx)
  refine ⟨by rw [hn]; exact List.length_pos_of_mem hm, by rw [hl]; exact hx, ?_⟩
  have hpos : 1 ≤ d.count x := List.count_pos_iff.2 hm
  simp only [idxR, List.getD_eq_getElem?_getD, hr, Option.getD_some, hv]
  exact_mod_cast hpos

-- @site CategoricalSuffStat.from_parts_unchecked
theorem Categorical_abs_perm (K : ℕ) (s : Gen.CategoricalSuffStat R) (d d' : List ℕ) (h : AbsCategorical K s d)
    (hp : d.Perm d') : AbsCategorical K s d' :=
  ⟨by rw [h.1, hp.length_eq], h.2.1, fun i hi => by rw [h.2.2 i hi, hp.count_eq]⟩

-- @site CategoricalSuffStat.from_parts_unchecked
theorem Categorical_abs_unique (K : ℕ) (s s' : Gen.CategoricalSuffStat R) (d : List ℕ)
    (h : AbsCategorical K s d) (h' : AbsCategorical K s' d) : s = s' := by
  obtain ⟨hn, hl, hc⟩ := h
  obtain ⟨hn', hl', hc'⟩ := h'
  cases s with
  | mk n counts =>
  cases s' with
  | mk n' counts' =>
  simp only at hn hl hc hn' hl' hc'
  simp only [Gen.CategoricalSuffStat.mk.injEq]
  refine ⟨hn.trans hn'.symm, ?_⟩
  apply List.ext_getElem?
  intro i
  by_cases hi : i < K
  · obtain ⟨r, hr, hv⟩ := Option.map_eq_some_iff.1 (hc i hi)
    obtain ⟨r', hr', hv'⟩ := Option.map_eq_some_iff.1 (hc' i hi)
    rw [hr, hr', R.ext' (hv.trans hv'.symm)]
  · rw [List.getElem?_eq_none (by omega), List.getElem?_eq_none (by omega)]

noncomputable def CategoricalI : Iface (Gen.CategoricalSuffStat R) ℕ :=
  ⟨Gen.CategoricalSuffStat.observe_nat, Gen.CategoricalSuffStat.forget_nat,
   Gen.CategoricalSuffStat.observe_many_nat, Gen.CategoricalSuffStat.forget_many_nat⟩

-- @site CategoricalSuffStat.observe_many_nat
theorem Categorical_observe_many_eq_foldl (s : Gen.CategoricalSuffStat R) (xs : List ℕ) :
    Gen.CategoricalSuffStat.observe_many_nat s xs = xs.foldl Gen.CategoricalSuffStat.observe_nat s := rfl

-- @site CategoricalSuffStat.forget_many_nat
theorem Categorical_forget_many_eq_foldl (s : Gen.CategoricalSuffStat R) (xs : List ℕ) :
    Gen.CategoricalSuffStat.forget_many_nat s xs = xs.foldl Gen.CategoricalSuffStat.forget_nat s := rfl

/-- the Boolean observation kind is the `usize` kind through `false ↦ 0, true ↦ 1` -/
-- @site CategoricalSuffStat.observe_bool
theorem Categorical_observe_bool (s : Gen.CategoricalSuffStat R) (x : Bool) :
    Gen.CategoricalSuffStat.observe_bool s x = Gen.CategoricalSuffStat.observe_nat s (if x then 1 else 0) := rfl

-- @site CategoricalSuffStat.forget_bool
theorem Categorical_forget_bool (s : Gen.CategoricalSuffStat R) (x : Bool) :
    Gen.CategoricalSuffStat.forget_bool s x = Gen.CategoricalSuffStat.forget_nat s (if x then 1 else 0) := rfl

-- @site CategoricalSuffStat.observe_many_nat
theorem Categorical_refines (K : ℕ) :
    Refines CategoricalI id (fun x => x < K) (AbsCategorical K)
      (Gen.CategoricalSuffStat.new K : Gen.CategoricalSuffStat R) where
  abs_new := Categorical_abs_new K
  abs_observe s d x hx h := Categorical_abs_observe K s d x hx h
  abs_forget s d x hx h hm := Categorical_abs_forget K s d x hx h hm
  abs_observeMany s d xs hp h :=
    foldl_observe (emb := id) (P := fun x => x < K) (fun s d x hx h => Categorical_abs_observe K s d x hx h)
      xs s d hp h
  abs_forgetMany s d xs hp h hc :=
    foldl_forget (emb := id) (P := fun x => x < K)
      (fun s d x hx h hm => Categorical_abs_forget K s d x hx h hm) xs s d hp h hc
  abs_perm := Categorical_abs_perm K
  abs_unique := Categorical_abs_unique K

-- @site CategoricalSuffStat.forget_many_nat
theorem Categorical_history (K : ℕ) (ops : List (Op ℕ)) (hl : legal id (fun x => x < K) [] ops) :
    AbsCategorical K (CategoricalI.run (Gen.CategoricalSuffStat.new K) ops) (dataAfter id [] ops) :=
  (Categorical_refines K).history ops _ _ (Categorical_abs_new K) hl

-- @site CategoricalSuffStat.get_n
theorem Categorical_n (K : ℕ) (ops : List (Op ℕ)) (hl : legal id (fun x => x < K) [] ops) :
    Gen.CategoricalSuffStat.get_n (CategoricalI.run (Gen.CategoricalSuffStat.new K : Gen.CategoricalSuffStat R) ops)
      = (dataAfter id [] ops).length :=
  (Categorical_history K ops hl).1

-- @site CategoricalSuffStat.observe_many_nat
theorem Categorical_order_indep (K : ℕ) (xs ys : List ℕ) (hx : ∀ x ∈ xs, x < K) (hy : ∀ x ∈ ys, x < K)
    (hp : xs.Perm ys) :
    (Gen.CategoricalSuffStat.observe_many_nat (Gen.CategoricalSuffStat.new K) xs : Gen.CategoricalSuffStat R) =
      Gen.CategoricalSuffStat.observe_many_nat (Gen.CategoricalSuffStat.new K) ys :=
  (Categorical_refines K).observeMany_perm xs ys hx hy (by simpa using hp)

-- @site CategoricalSuffStat.forget_nat
theorem Categorical_history_indep (K : ℕ) (ops ops' : List (Op ℕ)) (hl : legal id (fun x => x < K) [] ops)
    (hl' : legal id (fun x => x < K) [] ops') (hp : (dataAfter id [] ops).Perm (dataAfter id [] ops')) :
    CategoricalI.run (Gen.CategoricalSuffStat.new K : Gen.CategoricalSuffStat R) ops
      = CategoricalI.run (Gen.CategoricalSuffStat.new K) ops' :=
  (Categorical_refines K).history_indep ops ops' hl hl' hp

-- @site CategoricalSuffStat.observe_many_nat
theorem Categorical_mix (K : ℕ) (xs ys : List ℕ) (hx : ∀ x ∈ xs, x < K) (hy : ∀ x ∈ ys, x < K) :
    (Gen.CategoricalSuffStat.observe_many_nat
        (xs.foldl Gen.CategoricalSuffStat.observe_nat (Gen.CategoricalSuffStat.new K)) ys
        : Gen.CategoricalSuffStat R)
      = Gen.CategoricalSuffStat.observe_many_nat (Gen.CategoricalSuffStat.new K) (xs ++ ys) :=
  ((Categorical_refines K).mix xs ys hx hy).1

-- @site CategoricalSuffStat.forget_many_nat
theorem Categorical_forget_all (K : ℕ) (s : Gen.CategoricalSuffStat R) (d : List ℕ) (xs : List ℕ)
    (h : AbsCategorical K s d) (hx : ∀ x ∈ xs, x < K) (hp : xs.Perm d) :
    Gen.CategoricalSuffStat.forget_many_nat s xs = Gen.CategoricalSuffStat.new K ∧
      xs.foldl Gen.CategoricalSuffStat.forget_nat s = Gen.CategoricalSuffStat.new K :=
  (Categorical_refines K).forget_all s d xs h hx (by simpa using hp)

/-- reversibility: `forget` after `observe` restores the statistic exactly -/
-- @site CategoricalSuffStat.forget_nat
theorem Categorical_forget_observe (K : ℕ) (s : Gen.CategoricalSuffStat R) (d : List ℕ) (x : ℕ)
    (h : AbsCategorical K s d) (hx : x < K) :
    Gen.CategoricalSuffStat.forget_nat (Gen.CategoricalSuffStat.observe_nat s x) x = s :=
  (Categorical_refines K).forget_observe s d x hx h

example : AbsCategorical 3
    (Gen.CategoricalSuffStat.observe_nat (Gen.CategoricalSuffStat.observe_nat (Gen.CategoricalSuffStat.new 3) 2) 0)
    [0, 2] :=
  Categorical_abs_observe 3 _ _ 0 (by norm_num) (Categorical_abs_observe 3 _ _ 2 (by norm_num) (Categorical_abs_new 3))

example : legal id (fun x => x < 3) ([] : List ℕ)
    [Op.observe 2, Op.observeMany [0, 2, 1], Op.forget 2, Op.forgetMany [1, 2]] := by
  simp [legal, legalStep, dataStep, canForget, pushL]

/-- On `R` the log-weights are real numbers, so the zero-weight case (`ln w = -inf`, and `0 · (-inf) = NaN` for
    a category with zero count in binary64) is not expressible here; it is a float/`X`-carrier finding. -/
-- @site Categorical.ln_f_stat_nat
theorem Categorical_ln_f_stat (K : ℕ) (θ : Gen.Categorical R) (s : Gen.CategoricalSuffStat R) (d : List ℕ)
    (h : AbsCategorical K s d) (hθ : θ.ln_weights.length = K) (hd : ∀ x ∈ d, x < K) :
    (Gen.Categorical.ln_f_stat_nat θ s).val = (d.map (fun x => (Gen.Categorical.ln_f_nat θ x).val)).sum := by
  obtain ⟨_, hl, hc⟩ := h
  have hA : (Gen.Categorical.ln_f_stat_nat θ s).val
      = ((List.zip θ.ln_weights s.counts).map (fun p => p.2.val * p.1.val)).sum := by
    simp only [Gen.Categorical.ln_f_stat_nat, Gen.Categorical.get_ln_weights, Gen.CategoricalSuffStat.get_counts,
      R.sumL_val, List.map_map]
    exact congrArg List.sum (List.map_congr_left (fun p _ => by obtain ⟨w, ct⟩ := p; rfl))
  rw [hA, sum_zip_counts θ.ln_weights s.counts (fun i => (d.count i : ℝ)) (by rw [hl, hθ])
    (by rw [hθ]; exact hc), hθ, sum_count_mul _ K d hd]
  rfl

-- @site Categorical.ln_f_stat_bool
theorem Categorical_ln_f_stat_bool (θ : Gen.Categorical R) (s : Gen.CategoricalSuffStat R) :
    Gen.Categorical.ln_f_stat_bool θ s = Gen.Categorical.ln_f_stat_nat θ s := rfl

example : (⟨[⟨Real.log (1/4)⟩, ⟨Real.log (3/4)⟩]⟩ : Gen.Categorical R).ln_weights.length = 2 := rfl

end C07

#print axioms C07.InvGamma_abs_new
#print axioms C07.InvGamma_abs_observe
#print axioms C07.InvGamma_abs_forget
#print axioms C07.InvGamma_abs_perm
#print axioms C07.InvGamma_abs_unique
#print axioms C07.InvGamma_observe_many_eq_foldl
#print axioms C07.InvGamma_forget_many_eq_foldl
#print axioms C07.InvGamma_refines
#print axioms C07.InvGamma_history
#print axioms C07.InvGamma_n
#print axioms C07.InvGamma_order_indep
#print axioms C07.InvGamma_history_indep
#print axioms C07.InvGamma_mix
#print axioms C07.InvGamma_forget_all
#print axioms C07.InvGamma_forget_observe
#print axioms C07.InvGamma_ln_f_stat
#print axioms C07.InvGaussian_abs_new
#print axioms C07.InvGaussian_abs_observe
#print axioms C07.InvGaussian_abs_forget
#print axioms C07.InvGaussian_abs_perm
#print axioms C07.InvGaussian_abs_unique
#print axioms C07.InvGaussian_observe_many_eq_foldl
#print axioms C07.InvGaussian_forget_many_eq_foldl
#print axioms C07.InvGaussian_refines
#print axioms C07.InvGaussian_history
#print axioms C07.InvGaussian_n
#print axioms C07.InvGaussian_order_indep
#print axioms C07.InvGaussian_history_indep
#print axioms C07.InvGaussian_mix
#print axioms C07.InvGaussian_forget_all
#print axioms C07.InvGaussian_forget_observe
#print axioms C07.InvGaussian_ln_f_stat
#print axioms C07.UnitPowerLaw_ext
#print axioms C07.UnitPowerLaw_abs_new
#print axioms C07.UnitPowerLaw_abs_observe
#print axioms C07.UnitPowerLaw_abs_forget
#print axioms C07.UnitPowerLaw_foldl_observe_fields
#print axioms C07.UnitPowerLaw_observe_many_eq_foldl
#print axioms C07.UnitPowerLaw_abs_forget_many
#print axioms C07.UnitPowerLaw_forget_many_reset
#print axioms C07.UnitPowerLaw_abs_perm
#print axioms C07.UnitPowerLaw_abs_unique
#print axioms C07.UnitPowerLaw_refines
#print axioms C07.UnitPowerLaw_history
#print axioms C07.UnitPowerLaw_n
#print axioms C07.UnitPowerLaw_order_indep
#print axioms C07.UnitPowerLaw_history_indep
#print axioms C07.UnitPowerLaw_mix
#print axioms C07.UnitPowerLaw_forget_all
#print axioms C07.UnitPowerLaw_forget_many_eq_foldl
#print axioms C07.UnitPowerLaw_forget_observe
#print axioms C07.UnitPowerLaw_ln_f_stat
#print axioms C07.Categorical_abs_new
#print axioms C07.Categorical_abs_observe
#print axioms C07.Categorical_abs_forget
#print axioms C07.Categorical_forget_pre
#print axioms C07.Categorical_abs_perm
#print axioms C07.Categorical_abs_unique
#print axioms C07.Categorical_observe_many_eq_foldl
#print axioms C07.Categorical_forget_many_eq_foldl
#print axioms C07.Categorical_observe_bool
#print axioms C07.Categorical_forget_bool
#print axioms C07.Categorical_refines
#print axioms C07.Categorical_history
#print axioms C07.Categorical_n
#print axioms C07.Categorical_order_indep
#print axioms C07.Categorical_history_indep
#print axioms C07.Categorical_mix
#print axioms C07.Categorical_forget_all
#print axioms C07.Categorical_forget_observe
#print axioms C07.Categorical_ln_f_stat
#print axioms C07.Categorical_ln_f_stat_bool
